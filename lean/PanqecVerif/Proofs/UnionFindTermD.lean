/-
Union-find internals (C05), termination of the growth loop, part D: on a CLOSED multigraph (every
column of weight 0 or 2: no dangling edges; parallel edges allowed) the syndrome of any error has an even number of
defects in every union of connected components; hence `Support.clustering` terminates and
`Support.decode()` is totally correct there.
-/
import PanqecVerif.Proofs.UnionFindTermC
import PanqecVerif.Proofs.UnionFindWF

namespace Panqec.UF

set_option linter.unusedSimpArgs false
set_option linter.unusedVariables false

/-! ### finite sums over `0 … k-1` -/

def rsum (k : Nat) (f : Nat → Nat) : Nat := ((List.range k).map f).sum

@[simp] theorem rsum_zero (f : Nat → Nat) : rsum 0 f = 0 := rfl

theorem rsum_succ (k : Nat) (f : Nat → Nat) : rsum (k + 1) f = rsum k f + f k := by
  unfold rsum; rw [List.range_succ]; simp

theorem rsum_succ' (k : Nat) (f : Nat → Nat) : rsum (k + 1) f = f 0 + rsum k (fun i => f (i + 1)) := by
  unfold rsum; rw [List.range_succ_eq_map]; simp [List.map_map, Function.comp_def]

theorem rsum_congr (k : Nat) (f g : Nat → Nat) (h : ∀ i, i < k → f i = g i) : rsum k f = rsum k g := by
  induction k with
  | zero => rfl
  | succ k ih => rw [rsum_succ, rsum_succ, ih (fun i hi => h i (by omega)), h k (by omega)]

theorem rsum_add (k : Nat) (f g : Nat → Nat) : rsum k (fun i => f i + g i) = rsum k f + rsum k g := by
  induction k with
  | zero => rfl
  | succ k ih => rw [rsum_succ, rsum_succ, rsum_succ, ih]; omega

theorem rsum_mul (k : Nat) (c : Nat) (f : Nat → Nat) : rsum k (fun i => c * f i) = c * rsum k f := by
  induction k with
  | zero => simp
  | succ k ih => rw [rsum_succ, rsum_succ, ih, Nat.mul_add]

theorem rsum_comm (m n : Nat) (f : Nat → Nat → Nat) :
    rsum m (fun s => rsum n (fun q => f s q)) = rsum n (fun q => rsum m (fun s => f s q)) := by
  induction m with
  | zero =>
    simp only [rsum_zero]
    induction n with
    | zero => rfl
    | succ n ih => rw [rsum_succ, ← ih]
  | succ m ih =>
    rw [rsum_succ, ih, ← rsum_add]
    apply rsum_congr
    intro q _
    rw [rsum_succ]

theorem rsum_even (k : Nat) (f : Nat → Nat) (h : ∀ i, i < k → f i % 2 = 0) : rsum k f % 2 = 0 := by
  induction k with
  | zero => rfl
  | succ k ih =>
    rw [rsum_succ]
    have := ih (fun i hi => h i (by omega))
    have := h k (by omega)
    omega

theorem cnt_eq_rsum (k : Nat) (f : Nat → Bool) : cnt k f = rsum k (fun i => b2n (f i)) := by
  induction k with
  | zero => rfl
  | succ k ih => rw [cnt_succ', rsum_succ, ih]

theorem dot_eq_rsum : ∀ (r v : List Nat), r.length = v.length →
    dot r v = rsum r.length (fun q => r.getD q 0 * v.getD q 0) := by
  intro r
  induction r with
  | nil => intro v _; simp [dot]
  | cons a as ih =>
    intro v hv
    cases v with
    | nil => simp at hv
    | cons b bs =>
      simp only [List.length_cons] at hv ⊢
      rw [rsum_succ']
      simp only [dot]
      rw [ih bs (by omega)]
      rfl

/-! ### closed graphs -/

theorem closedGraph_cols {H : Mat} (h : closedMultigraph H = true) (q : Nat) (hq : q < ncols H) :
    cnt H.length (fun s => hb H s q) = 0 ∨ cnt H.length (fun s => hb H s q) = 2 := by
  unfold closedMultigraph multigraphLike at h
  simp only [Bool.and_eq_true, List.all_eq_true, decide_eq_true_eq, List.mem_range, bne_iff_ne] at h
  have h1 := h.1.1.2 q hq
  have h2 := h.2 q hq
  omega

/-- **the syndrome of an error on a closed graph has an even number of defects in every union of
    connected components** -/
theorem evenComponents_of_closed {H : Mat} (hC : closedMultigraph H = true) (v : Vec)
    (hv : v.length = ncols H) : EvenComponents H (sectorSyndrome H v) := by
  have hG : multigraphLike H = true := by
    unfold closedMultigraph at hC; simp only [Bool.and_eq_true] at hC; exact hC.1
  obtain ⟨G, R⟩ := multigraphLike_ok hG
  intro P hP
  -- row facts
  have hrowmem : ∀ s, s < H.length → H.getD s [] ∈ H := by
    intro s hs
    rw [List.getD_eq_getElem?_getD, List.getElem?_eq_getElem hs]
    exact List.getElem_mem hs
  have hentry : ∀ s q, s < H.length → (H.getD s []).getD q 0 = b2n (hb H s q) := by
    intro s q hs
    unfold hb
    by_cases hq : q < (H.getD s []).length
    · have hx := R.bin _ (hrowmem s hs) ((H.getD s [])[q]) (List.getElem_mem hq)
      rw [List.getD_eq_getElem?_getD, List.getElem?_eq_getElem hq]
      simp only [Option.getD_some]
      rcases Nat.le_one_iff_eq_zero_or_eq_one.mp hx with h | h <;> rw [h] <;> rfl
    · rw [List.getD_eq_getElem?_getD (l := H.getD s []), List.getElem?_eq_none (by omega)]
      rfl
  have hdefect : ∀ s, s < H.length →
      defect (sectorSyndrome H v) s = decide (dot (H.getD s []) v % 2 = 1) := by
    intro s hs
    unfold defect sectorSyndrome
    rw [List.getD_eq_getElem?_getD, List.getElem?_eq_getElem (by simpa using hs)]
    simp only [List.getElem_map, Option.getD_some]
    have : H[s] = H.getD s [] := by
      rw [List.getD_eq_getElem?_getD, List.getElem?_eq_getElem hs]; rfl
    rw [this]
    generalize dot (H.getD s []) v = x
    rcases Nat.mod_two_eq_zero_or_one x with h | h <;> simp [h]
  -- the total, counted by rows …
  have hrows : cnt H.length (fun s => defect (sectorSyndrome H v) s && P s) % 2 =
      rsum H.length (fun s => b2n (P s) * dot (H.getD s []) v) % 2 := by
    rw [cnt_eq_rsum]
    have : ∀ k, k ≤ H.length →
        rsum k (fun i => b2n (defect (sectorSyndrome H v) i && P i)) % 2 =
        rsum k (fun s => b2n (P s) * dot (H.getD s []) v) % 2 := by
      intro k
      induction k with
      | zero => intro _; rfl
      | succ k ih =>
        intro hk
        rw [rsum_succ, rsum_succ]
        have h1 := ih (by omega)
        have h2 : b2n (defect (sectorSyndrome H v) k && P k) % 2 =
            (b2n (P k) * dot (H.getD k []) v) % 2 := by
          rw [hdefect k (by omega)]
          generalize dot (H.getD k []) v = x
          cases P k
          · simp
          · rcases Nat.mod_two_eq_zero_or_one x with h | h <;> simp [h]
        omega
    exact this H.length (Nat.le_refl _)
  -- … and by columns
  have hcols : rsum H.length (fun s => b2n (P s) * dot (H.getD s []) v) =
      rsum (ncols H) (fun q => v.getD q 0 * cnt H.length (fun s => P s && hb H s q)) := by
    have h1 : rsum H.length (fun s => b2n (P s) * dot (H.getD s []) v) =
        rsum H.length (fun s => rsum (ncols H) (fun q => b2n (P s) * (b2n (hb H s q) * v.getD q 0))) := by
      apply rsum_congr
      intro s hs
      have hlen := R.rect _ (hrowmem s hs)
      rw [dot_eq_rsum _ _ (by rw [hlen, hv]), hlen, ← rsum_mul]
      apply rsum_congr
      intro q _
      rw [hentry s q hs]
    rw [h1, rsum_comm]
    apply rsum_congr
    intro q _
    rw [cnt_eq_rsum, ← rsum_mul]
    apply rsum_congr
    intro s _
    cases P s <;> cases hb H s q <;> simp
  rw [hrows, hcols]
  apply rsum_even
  intro q hq
  -- a column lies inside or outside the closed set
  have hcnt : cnt H.length (fun s => P s && hb H s q) = 0 ∨
      cnt H.length (fun s => P s && hb H s q) = 2 := by
    by_cases hex : ∃ s, s < H.length ∧ P s = true ∧ hb H s q = true
    · obtain ⟨s, _, hPs, hsq⟩ := hex
      have : cnt H.length (fun s => P s && hb H s q) = cnt H.length (fun s => hb H s q) := by
        apply cnt_congr
        intro s' _
        cases hs' : hb H s' q
        · simp
        · simp [hP s s' q hsq hs' hPs]
      rw [this]; exact closedGraph_cols hC q hq
    · left
      apply cnt_eq_zero
      intro s hs
      cases hPs : P s
      · simp
      · cases hsq : hb H s q
        · simp
        · exact absurd ⟨s, hs, hPs, hsq⟩ hex
  rcases hcnt with h | h <;> rw [h] <;> simp [Nat.mul_mod]

/-- **(b) the growth loop terminates** on a closed graph for the syndrome of any error, for
    every schedule, within the fuel `m·n + 1` of the model -/
theorem clustering_terminates {H : Mat} (hC : closedMultigraph H = true) (v : Vec)
    (hv : v.length = ncols H) (sched : List (List Int)) :
    (clustering H (sectorSyndrome H v) sched).terminated = true := by
  have hG : multigraphLike H = true := by
    unfold closedMultigraph at hC; simp only [Bool.and_eq_true] at hC; exact hC.1
  obtain ⟨G, _⟩ := multigraphLike_ok hG
  have hrange : ∀ s q, hb H s q = true → q < ncols H := fun s q h => (G.inRange s q h).2
  have := clusterLoop_terminates hrange (evenComponents_of_closed hC v hv) (growFuel H)
    (initState H (sectorSyndrome H v) sched) _ _ (GInv_init H _ sched) (BdInv_init H _ sched)
    (by
      have := mu_le H (initState H (sectorSyndrome H v) sched).rowDead
        (initState H (sectorSyndrome H v) sched).colDead
      unfold growFuel; omega)
  unfold clustering
  exact this

/-- **(c) `Support(sy, H).decode()` is totally correct on closed multigraphs**: for every closed
    multigraph-like matrix (parallel edges allowed), every error `v` and EVERY schedule of set iteration orders, the run
    terminates (growth, spanning trees, peeling), raises nothing, stays inside the modelled
    fragment, and returns a binary vector of length `n` whose syndrome is the syndrome of `v`. -/
theorem decodeWith_total {H : Mat} (hC : closedMultigraph H = true) (v : Vec) (hv : v.length = ncols H)
    (sched : List (List Int)) :
    ∃ c, (decodeWith H (sectorSyndrome H v) sched).outcome = .ok c ∧ c.length = ncols H ∧
      (∀ x, x ∈ c → x < 2) ∧ sectorSyndrome H c = sectorSyndrome H v ∧
      (decodeWith H (sectorSyndrome H v) sched).bad = false := by
  have hG : multigraphLike H = true := by
    unfold closedMultigraph at hC; simp only [Bool.and_eq_true] at hC; exact hC.1
  obtain ⟨hpart, hbad⟩ := decodeWith_partial hG (sectorSyndrome H v) sched
  have hterm := clustering_terminates hC v hv sched
  rcases hpart with hdiv | ⟨c, hc, hlen, hbin, hsyn⟩
  · exfalso
    unfold decodeWith at hdiv
    simp only [hterm, Bool.not_true, Bool.false_eq_true, if_false] at hdiv
    split at hdiv <;> simp at hdiv
  · refine ⟨c, hc, hlen, hbin, ?_, hbad⟩
    rw [hsyn]
    apply defect_flags
    · unfold sectorSyndrome; simp
    · exact sectorSyndrome_binary H v

end Panqec.UF
