/-
Helper lemmas about `Model/Analysis.lean` (C15): containers, grouping, pooled counts.
Core Lean only.
-/
import PanqecVerif.Model.Analysis

namespace Panqec.An

/-! ### containers -/

theorem flattenList_eq_flatMap : ∀ l : List Data, flattenList l = l.flatMap Data.flatten
  | [] => by simp [flattenList]
  | d :: ds => by simp [flattenList, flattenList_eq_flatMap ds]

theorem flattenList_append (a b : List Data) : flattenList (a ++ b) = flattenList a ++ flattenList b := by
  simp [flattenList_eq_flatMap]

theorem flatten_list (l : List Data) : (Data.list l).flatten = flattenList l := by
  simp [Data.flatten]

theorem flattenList_perm {a b : List Data} (h : a.Perm b) : (flattenList a).Perm (flattenList b) := by
  rw [flattenList_eq_flatMap, flattenList_eq_flatMap]
  exact h.flatMap_right _

/-! ### trials -/

/-- one Monte-Carlo trial record: effective error (2k bits), success, codespace -/
structure Trial where
  row : List Nat
  su : Bool
  cs : Bool
  deriving Repr, DecidableEq

/-- the entry that stores the given trials (what `get_results_to_save` writes) -/
def Entry.ofTrials (id : Nat) (rate : Rat) (k : Nat) (wall : Rat) (ts : List Trial) : Entry :=
  { inputId := id, rate := rate, k := k, wall := wall, ee := ts.map (·.row),
    success := ts.map (·.su), codespace := ts.map (·.cs) }

/-- the three columns have the same length -/
def Entry.WF (e : Entry) : Prop :=
  e.success.length = e.ee.length ∧ e.codespace.length = e.ee.length

def zip3 : List (List Nat) → List Bool → List Bool → List Trial
  | r :: rs, s :: ss, c :: cs => ⟨r, s, c⟩ :: zip3 rs ss cs
  | _, _, _ => []

/-- the trials stored in an entry -/
def Entry.trials (e : Entry) : List Trial := zip3 e.ee e.success e.codespace

theorem zip3_map (ts : List Trial) : zip3 (ts.map (·.row)) (ts.map (·.su)) (ts.map (·.cs)) = ts := by
  induction ts with
  | nil => rfl
  | cons t ts ih => simp [zip3, ih]

theorem zip3_cols : ∀ (a : List (List Nat)) (b c : List Bool), b.length = a.length → c.length = a.length →
    (zip3 a b c).map (·.row) = a ∧ (zip3 a b c).map (·.su) = b ∧ (zip3 a b c).map (·.cs) = c
  | [], [], [], _, _ => by simp [zip3]
  | [], _ :: _, _, h, _ => by simp at h
  | [], [], _ :: _, _, h => by simp at h
  | _ :: _, [], _, h, _ => by simp at h
  | _ :: _, _ :: _, [], _, h => by simp at h
  | r :: rs, s :: ss, c :: cs, h1, h2 => by
    have := zip3_cols rs ss cs (by simpa using h1) (by simpa using h2)
    simp [zip3, this]

theorem Entry.trials_ofTrials (id : Nat) (rate : Rat) (k : Nat) (wall : Rat) (ts : List Trial) :
    (Entry.ofTrials id rate k wall ts).trials = ts := zip3_map ts

theorem Entry.ofTrials_wf (id : Nat) (rate : Rat) (k : Nat) (wall : Rat) (ts : List Trial) :
    (Entry.ofTrials id rate k wall ts).WF := by simp [Entry.WF, Entry.ofTrials]

theorem Entry.WF.cols {e : Entry} (h : e.WF) :
    e.ee = e.trials.map (·.row) ∧ e.success = e.trials.map (·.su) ∧ e.codespace = e.trials.map (·.cs) := by
  have := zip3_cols e.ee e.success e.codespace h.1 h.2
  exact ⟨this.1.symm, this.2.1.symm, this.2.2.symm⟩

/-- the pooled trials of a list of entries (in reading order) -/
def pool (ms : List Entry) : List Trial := ms.flatMap Entry.trials

theorem pool_append (a b : List Entry) : pool (a ++ b) = pool a ++ pool b := by simp [pool]

theorem pool_perm {a b : List Entry} (h : a.Perm b) : (pool a).Perm (pool b) := h.flatMap_right _

/-! ### group columns are the unzipped pool -/

theorem flatMap_cols : ∀ ms : List Entry, (∀ e ∈ ms, e.WF) →
    ms.flatMap (·.ee) = (pool ms).map (·.row) ∧ ms.flatMap (·.success) = (pool ms).map (·.su) ∧
    ms.flatMap (·.codespace) = (pool ms).map (·.cs)
  | [], _ => by simp [pool]
  | e :: ms, h => by
    have he := (h e (by simp)).cols
    have ih := flatMap_cols ms (fun e' h' => h e' (by simp [h']))
    simp only [List.flatMap_cons, pool, List.map_append] at ih ⊢
    refine ⟨?_, ?_, ?_⟩
    · rw [ih.1, ← he.1]
    · rw [ih.2.1, ← he.2.1]
    · rw [ih.2.2, ← he.2.2]

theorem sum_lengths : ∀ ms : List Entry, (ms.map fun e => e.ee.length).sum = (ms.flatMap (·.ee)).length
  | [] => rfl
  | e :: ms => by
    have ih := sum_lengths ms
    simp only [List.map_cons, List.sum_cons, List.flatMap_cons, List.length_append, ih]

structure Group.IsPool (g : Group) (P : List Trial) : Prop where
  ee : g.ee = P.map (·.row)
  success : g.success = P.map (·.su)
  codespace : g.codespace = P.map (·.cs)
  nTrials : g.nTrials = P.length

theorem mkGroup_isPool {κ : Key} {ms : List Entry} {g : Group} (h : mkGroup κ ms = .ok g)
    (wf : ∀ e ∈ ms, e.WF) : g.IsPool (pool ms) := by
  unfold mkGroup at h
  split at h
  · injection h with h
    subst h
    have c := flatMap_cols ms wf
    refine ⟨c.1, c.2.1, c.2.2, ?_⟩
    show (ms.map fun e => e.ee.length).sum = (pool ms).length
    rw [sum_lengths, c.1, List.length_map]
  · cases h

theorem mkGroup_key {κ : Key} {ms : List Entry} {g : Group} (h : mkGroup κ ms = .ok g) :
    g.key = κ ∧ g.k = (ms.head?.map (·.k)).getD 0 ∧
    g.shape = ((nonEmptyMembers ms).head?.map (·.shape)).getD none ∧
    g.wall = (ms.map (·.wall)).sum := by
  unfold mkGroup at h
  split at h
  · injection h with h; subst h; exact ⟨rfl, rfl, rfl, rfl⟩
  · cases h

/-! ### when `np.concatenate` accepts the group -/

/-- every stored row of the entry has width `W` (an entry without trials qualifies for every `W`) -/
def Entry.HasWidth (e : Entry) (W : Nat) : Prop := ∀ r ∈ e.ee, r.length = W

theorem Entry.HasWidth.shape {e : Entry} {W : Nat} (h : e.HasWidth W) (hne : e.ee ≠ []) :
    e.shape = some W := by
  unfold Entry.shape
  cases hee : e.ee with
  | nil => exact absurd hee hne
  | cons r rs => simp [h r (by simp [hee])]

theorem mem_nonEmptyMembers {ms : List Entry} {e : Entry} :
    e ∈ nonEmptyMembers ms ↔ e ∈ ms ∧ e.ee ≠ [] := by
  simp [nonEmptyMembers]

theorem shapesAgree_of_width {ms : List Entry} {W : Nat} (h : ∀ e ∈ ms, e.HasWidth W) :
    shapesAgree ms = true := by
  unfold shapesAgree
  cases hne : nonEmptyMembers ms with
  | nil => rfl
  | cons e rest =>
    have hmem : ∀ e' ∈ e :: rest, e' ∈ ms ∧ e'.ee ≠ [] := by
      intro e' he'; rw [← hne] at he'; exact mem_nonEmptyMembers.mp he'
    simp only [List.all_eq_true]
    intro e' he'
    have h1 := hmem e' (by simp [he'])
    have h2 := hmem e (by simp)
    rw [(h e' h1.1).shape h1.2, (h e h2.1).shape h2.2]
    simp

theorem mkGroup_ok_of_width {κ : Key} {ms : List Entry} {W : Nat} (h : ∀ e ∈ ms, e.HasWidth W) :
    ∃ g, mkGroup κ ms = .ok g := by
  unfold mkGroup
  rw [shapesAgree_of_width h]
  exact ⟨_, rfl⟩

/-- shape of the pooled array: `(0,)` when no member has trials, else `(rows, W)` -/
theorem head_shape_of_width : ∀ {ms : List Entry} {W : Nat}, (∀ e ∈ ms, e.HasWidth W) →
    ((nonEmptyMembers ms).head?.map (·.shape)).getD none =
      if ms.flatMap (·.ee) = [] then none else some W
  | [], _, _ => by simp [nonEmptyMembers]
  | e :: ms, W, h => by
    have ih := head_shape_of_width (ms := ms) (W := W) (fun e' he' => h e' (by simp [he']))
    by_cases hee : e.ee = []
    · have : nonEmptyMembers (e :: ms) = nonEmptyMembers ms := by
        simp [nonEmptyMembers, hee]
      rw [this, ih]
      simp [hee]
    · have : nonEmptyMembers (e :: ms) = e :: nonEmptyMembers ms := by
        simp [nonEmptyMembers, hee]
      rw [this]
      simp [(h e (by simp)).shape hee, hee]

theorem mkGroup_shape_of_width {κ : Key} {ms : List Entry} {W : Nat} {g : Group}
    (hg : mkGroup κ ms = .ok g) (wf : ∀ e ∈ ms, e.WF) (h : ∀ e ∈ ms, e.HasWidth W) :
    g.shape = if pool ms = [] then none else some W := by
  rw [(mkGroup_key hg).2.2.1, head_shape_of_width h, (flatMap_cols ms wf).1]
  simp

/-! ### the stated quantities, as functions of a trial list -/

def specNFail (P : List Trial) : Nat := P.countP fun t => !t.su
def specCodespace (P : List Trial) : Nat := P.countP (·.cs)
/-- flagged logical bits of one sector among the in-codespace trials -/
def specSectorFails (kq : Nat) (sectorX : Bool) (P : List Trial) : Nat :=
  ((P.filter (·.cs)).map fun t => (if sectorX then t.row.take kq else t.row.drop kq).sum).sum
def specPattern (kq i t : Nat) (P : List Trial) : Nat :=
  P.countP fun tr => pauliHit t (tr.row.getD i 0) (tr.row.getD (kq + i) 0)

theorem specNFail_perm {P Q : List Trial} (h : P.Perm Q) : specNFail P = specNFail Q :=
  h.countP_eq _
theorem specCodespace_perm {P Q : List Trial} (h : P.Perm Q) : specCodespace P = specCodespace Q :=
  h.countP_eq _
theorem specSectorFails_perm (kq : Nat) (b : Bool) {P Q : List Trial} (h : P.Perm Q) :
    specSectorFails kq b P = specSectorFails kq b Q :=
  ((h.filter _).map _).sum_nat
theorem specPattern_perm (kq i t : Nat) {P Q : List Trial} (h : P.Perm Q) :
    specPattern kq i t P = specPattern kq i t Q := h.countP_eq _

theorem specNFail_append (P Q : List Trial) : specNFail (P ++ Q) = specNFail P + specNFail Q := by
  simp [specNFail]
theorem specCodespace_append (P Q : List Trial) :
    specCodespace (P ++ Q) = specCodespace P + specCodespace Q := by simp [specCodespace]
theorem specSectorFails_append (kq : Nat) (b : Bool) (P Q : List Trial) :
    specSectorFails kq b (P ++ Q) = specSectorFails kq b P + specSectorFails kq b Q := by
  simp [specSectorFails]
theorem specPattern_append (kq i t : Nat) (P Q : List Trial) :
    specPattern kq i t (P ++ Q) = specPattern kq i t P + specPattern kq i t Q := by
  simp [specPattern]

/-! ### what the code computes equals the stated quantities -/

theorem countTrue_map_su (P : List Trial) : countTrue (P.map (·.su)) = P.countP (·.su) := by
  simp [countTrue, List.countP_map, Function.comp_def]

theorem countTrue_map_cs (P : List Trial) : countTrue (P.map (·.cs)) = specCodespace P := by
  simp [countTrue, specCodespace, List.countP_map, Function.comp_def]

theorem length_eq_su_add_fail (P : List Trial) : P.length = P.countP (·.su) + specNFail P := by
  unfold specNFail
  induction P with
  | nil => rfl
  | cons t P ih =>
    cases hs : t.su <;> simp [hs] <;> omega

theorem Group.IsPool.nFail {g : Group} {P : List Trial} (h : g.IsPool P) :
    g.nFail = (specNFail P : Int) := by
  unfold Group.nFail
  rw [h.nTrials, h.success, countTrue_map_su]
  have := length_eq_su_add_fail P
  omega

theorem Group.IsPool.nTrialsSector {g : Group} {P : List Trial} (h : g.IsPool P) :
    g.nTrialsSector = g.k * specCodespace P := by
  unfold Group.nTrialsSector
  rw [h.codespace, countTrue_map_cs]

theorem Group.IsPool.nResults {g : Group} {P : List Trial} (h : g.IsPool P) :
    g.nResults = P.length := by
  unfold Group.nResults
  rw [h.ee, List.length_map]

theorem zip_filter_cols (P : List Trial) :
    (((P.map (·.row)).zip (P.map (·.cs))).filter (·.2)).map (·.1) = (P.filter (·.cs)).map (·.row) := by
  induction P with
  | nil => rfl
  | cons t P ih =>
    cases hc : t.cs <;> simp [hc, ih]

theorem Group.IsPool.countFails {g : Group} {P : List Trial} (h : g.IsPool P) {w : Nat}
    (hs : g.shape = some w) (b : Bool) : g.countFails b = .ok (specSectorFails (w / 2) b P) := by
  unfold Group.countFails
  rw [hs]
  simp only
  have hl : g.codespace.length = g.ee.length := by rw [h.codespace, h.ee]; simp
  rw [if_neg (by simp [hl])]
  rw [h.ee, h.codespace, zip_filter_cols]
  simp [specSectorFails, List.map_map, Function.comp_def]

theorem Group.IsPool.patternCount {g : Group} {P : List Trial} (h : g.IsPool P) (kq i t : Nat) :
    An.patternCount g.ee kq i t = specPattern kq i t P := by
  unfold An.patternCount specPattern
  rw [h.ee, List.countP_map]
  rfl

theorem Group.IsPool.singleCounts {g : Group} {P : List Trial} (h : g.IsPool P) {w : Nat}
    (hs : g.shape = some w) (hk : 0 < g.k) (hw : w / 2 + (g.k - 1) < w) :
    g.singleCounts = .ok (some ((List.range g.k).map fun i =>
      (List.range 4).map fun t => specPattern (w / 2) i t P)) := by
  unfold Group.singleCounts
  rw [hs]
  simp only
  rw [if_neg (by omega), if_pos hw]
  simp only [h.patternCount]

/-! ### grouping -/

theorem groupOf_perm {a b : List Entry} (h : a.Perm b) (κ : Key) : (groupOf a κ).Perm (groupOf b κ) :=
  h.filter _

theorem groupOf_append (a b : List Entry) (κ : Key) : groupOf (a ++ b) κ = groupOf a κ ++ groupOf b κ := by
  simp [groupOf]

theorem mem_keysOf {es : List Entry} {κ : Key} : κ ∈ keysOf es ↔ ∃ e ∈ es, e.key = κ := by
  simp [keysOf, List.mem_eraseDups]

theorem mem_keysOf_perm {a b : List Entry} (h : a.Perm b) (κ : Key) : κ ∈ keysOf a ↔ κ ∈ keysOf b := by
  simp only [mem_keysOf]
  constructor
  · rintro ⟨e, he, hk⟩; exact ⟨e, h.mem_iff.mp he, hk⟩
  · rintro ⟨e, he, hk⟩; exact ⟨e, h.mem_iff.mpr he, hk⟩

theorem mapM_except_ok {α β ε : Type} (f : α → Except ε β) :
    ∀ (l : List α) (r : List β), l.mapM f = .ok r →
      (∀ b ∈ r, ∃ a ∈ l, f a = .ok b) ∧ (∀ a ∈ l, ∃ b ∈ r, f a = .ok b)
  | [], r, h => by
    simp [List.mapM_nil, pure, Except.pure] at h
    subst h; simp
  | a :: l, r, h => by
    rw [List.mapM_cons] at h
    cases hfa : f a with
    | error e => simp [hfa, bind, Except.bind] at h
    | ok b =>
      cases hl : l.mapM f with
      | error e => simp [hfa, hl, bind, Except.bind] at h
      | ok bs =>
        simp [hfa, hl, bind, Except.bind, pure, Except.pure] at h
        subst h
        have ih := mapM_except_ok f l bs hl
        constructor
        · intro b' hb'
          rcases List.mem_cons.mp hb' with rfl | hb'
          · exact ⟨a, by simp, hfa⟩
          · obtain ⟨a', ha', h'⟩ := ih.1 b' hb'
            exact ⟨a', by simp [ha'], h'⟩
        · intro a' ha'
          rcases List.mem_cons.mp ha' with rfl | ha'
          · exact ⟨b, by simp, hfa⟩
          · obtain ⟨b', hb', h'⟩ := ih.2 a' ha'
            exact ⟨b', by simp [hb'], h'⟩

/-- every reported row is the group of a key that occurs, and every key that occurs has its row -/
theorem aggregate_spec {es : List Entry} {gs : List Group} (h : aggregate es = .ok gs) :
    (∀ g ∈ gs, ∃ κ ∈ keysOf es, mkGroup κ (groupOf es κ) = .ok g) ∧
    (∀ κ ∈ keysOf es, ∃ g ∈ gs, mkGroup κ (groupOf es κ) = .ok g) :=
  mapM_except_ok _ _ _ h

/-! ### behaviour before commit ad5e045 (kept for the regression example of C15) -/

/-- `np.concatenate(x.values)` over *all* members: a member without trials (1-dimensional
    array) next to members with trials is a dimension mismatch -/
def oldShapesAgree : List Entry → Bool
  | [] => true
  | e :: rest => rest.all fun e' => e'.shape == e.shape

def oldAggregateOk (es : List Entry) : Bool :=
  (keysOf es).all fun κ => oldShapesAgree (groupOf es κ)

def isConcatError : Except Err (List Group) → Bool
  | .error .concat => true
  | _ => false

theorem isConcatError_iff (r : Except Err (List Group)) :
    isConcatError r = true ↔ r = .error .concat := by
  cases r with
  | error e => cases e <;> simp [isConcatError]
  | ok gs => simp [isConcatError]

theorem mapM_except_total {α β ε : Type} (f : α → Except ε β) :
    ∀ l : List α, (∀ a ∈ l, ∃ b, f a = .ok b) → ∃ r, l.mapM f = .ok r
  | [], _ => ⟨[], by simp [List.mapM_nil, pure, Except.pure]⟩
  | a :: l, h => by
    obtain ⟨b, hb⟩ := h a (by simp)
    obtain ⟨r, hr⟩ := mapM_except_total f l (fun a' ha' => h a' (by simp [ha']))
    exact ⟨b :: r, by simp [List.mapM_cons, hb, hr, bind, Except.bind, pure, Except.pure]⟩

/-! ### the four single-qubit events on binary rows -/

theorem pauliHit_partition (x z : Nat) (hx : x < 2) (hz : z < 2) :
    (pauliHit 0 x z).toNat = (pauliHit 1 x z).toNat + (pauliHit 2 x z).toNat + (pauliHit 3 x z).toNat := by
  have hx' : x = 0 ∨ x = 1 := by omega
  have hz' : z = 0 ∨ z = 1 := by omega
  rcases hx' with rfl | rfl <;> rcases hz' with rfl | rfl <;> decide

theorem getD_lt_two (r : List Nat) (h : ∀ x ∈ r, x < 2) (i : Nat) : r.getD i 0 < 2 := by
  rw [List.getD_eq_getElem?_getD]
  cases hi : r[i]? with
  | none => simp
  | some v => simpa using h v (List.mem_of_getElem? hi)

theorem countP_toNat {α : Type} (p : α → Bool) : ∀ l : List α, l.countP p = (l.map fun a => (p a).toNat).sum
  | [] => rfl
  | a :: l => by
    cases h : p a <;> simp [h, countP_toNat p l] <;> omega

theorem specPattern_partition (kq i : Nat) (P : List Trial) (hbin : ∀ t ∈ P, ∀ x ∈ t.row, x < 2) :
    specPattern kq i 0 P = specPattern kq i 1 P + specPattern kq i 2 P + specPattern kq i 3 P := by
  unfold specPattern
  induction P with
  | nil => rfl
  | cons t P ih =>
    have ih := ih (fun t' ht' => hbin t' (by simp [ht']))
    have hb := hbin t (by simp)
    have := pauliHit_partition (t.row.getD i 0) (t.row.getD (kq + i) 0) (getD_lt_two _ hb _) (getD_lt_two _ hb _)
    rw [List.countP_cons, List.countP_cons, List.countP_cons, List.countP_cons, ih]
    revert this
    cases pauliHit 0 (t.row.getD i 0) (t.row.getD (kq + i) 0) <;>
    cases pauliHit 1 (t.row.getD i 0) (t.row.getD (kq + i) 0) <;>
    cases pauliHit 2 (t.row.getD i 0) (t.row.getD (kq + i) 0) <;>
    cases pauliHit 3 (t.row.getD i 0) (t.row.getD (kq + i) 0) <;>
    simp <;> omega

end Panqec.An
