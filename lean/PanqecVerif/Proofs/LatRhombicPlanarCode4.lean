/-
RhombicPlanarCode lattice model: `Lattice.WF` (distinct / disjoint coordinates, operators are dicts
on qubits, no empty stabilizer), the number of qubits, triangles and logical operators, and
`qubit_axis` on the qubits.  Sizes `Lx, Ly, Lz ≥ 1`.
-/
import PanqecVerif.Proofs.LatRhombicPlanarCode3
open Panqec Panqec.Lat3Db Panqec.Rhombic
namespace Panqec.RhombicPlanarCode

theorem nodup_qubits (Lx Ly Lz : Nat) : (qubits Lx Ly Lz).Nodup := by
  unfold qubits
  rw [List.nodup_append, List.nodup_append]
  refine ⟨⟨nodup_grid3 _ _ _ _ (nodup_pyRange2 _ _) (nodup_pyRange2 _ _) (nodup_pyRange2 _ _),
    nodup_grid3 _ _ _ _ (nodup_pyRange2 _ _) (nodup_pyRange2 _ _) (nodup_pyRange2 _ _), ?_⟩,
    nodup_grid3 _ _ _ _ (nodup_pyRange2 _ _) (nodup_pyRange2 _ _) (nodup_pyRange2 _ _), ?_⟩
  · intro a ha b hb hab
    subst hab
    rw [mem_grid3] at ha hb
    obtain ⟨x, y, z, rfl, hx, _⟩ := ha
    obtain ⟨x', y', z', h, hx', _⟩ := hb
    simp only [List.cons.injEq, and_true] at h
    obtain ⟨rfl, rfl, rfl⟩ := h
    rw [mem_pyRange2_1] at hx; rw [mem_pyRange2_2] at hx'
    unfold R1 at hx; unfold R2 at hx'; omega
  · intro a ha b hb hab
    subst hab
    rw [List.mem_append, mem_grid3, mem_grid3] at ha
    rw [mem_grid3] at hb
    obtain ⟨x', y', z', rfl, _, _, hz', _⟩ := hb
    rw [mem_pyRange2_1] at hz'
    unfold R1 at hz'
    rcases ha with ⟨x, y, z, h, _, _, hz, _⟩ | ⟨x, y, z, h, _, _, hz, _⟩ <;>
    · simp only [List.cons.injEq, and_true] at h
      obtain ⟨rfl, rfl, rfl⟩ := h
      rw [mem_pyRange2_0] at hz
      unfold R0 at hz; omega

theorem nodup_stabs (Lx Ly Lz : Nat) : (stabs Lx Ly Lz).Nodup := by
  unfold stabs
  rw [List.nodup_append]
  refine ⟨nodup_grid3 _ _ _ _ (nodup_pyRange2 _ _) (nodup_rangeM1 _) (nodup_pyRange2 _ _), ?_, ?_⟩
  · rw [List.nodup_flatMap]
    refine ⟨fun ax _ => (nodup_grid3 _ _ _ _ (nodup_pyRange2 _ _) (nodup_pyRange2 _ _)
      (nodup_pyRange2 _ _)).map (fun a b h => by simpa using h), ?_⟩
    have : ([0, 1, 2, 3] : List Int).Nodup := by decide
    refine List.Pairwise.imp_of_mem ?_ this
    intro a b _ _ hab
    simp only [Function.onFun, List.Disjoint, List.mem_map]
    rintro c ⟨d, _, rfl⟩ ⟨d', _, h⟩
    simp only [List.cons.injEq] at h
    exact hab h.1.symm
  · intro a ha b hb hab
    subst hab
    rw [mem_grid3] at ha
    obtain ⟨x, y, z, rfl, _⟩ := ha
    simp only [List.mem_flatMap, List.mem_map] at hb
    obtain ⟨ax, _, c, hc, h⟩ := hb
    rw [mem_grid3] at hc
    obtain ⟨x', y', z', rfl, _⟩ := hc
    simp at h

theorem qubits_not_stabs (Lx Ly Lz : Nat) (q : Coord) (hq : q ∈ qubits Lx Ly Lz) : q ∉ stabs Lx Ly Lz := by
  obtain ⟨x, y, z, rfl⟩ := mem_qubits_shape Lx Ly Lz q hq
  rw [mem_qubits_iff] at hq
  rw [mem_stabs_cube]
  unfold QX QY QZ R0 R1 R2 at hq
  unfold SC R1 RM
  omega

theorem mem_qubits_of_isQubit (Lx Ly Lz : Nat) (q : Coord) (h : isQubit Lx Ly Lz q = true) :
    q ∈ qubits Lx Ly Lz := List.contains_iff_mem.mp h

theorem IsCubeKeys.qubits {Lx Ly Lz : Nat} {k : List Coord} (h : IsCubeKeys Lx Ly Lz k) :
    ∀ q ∈ k, q ∈ qubits Lx Ly Lz := by
  obtain ⟨x, y, z, _, rfl⟩ := h
  exact fun q hq => mem_qubits_of_isQubit _ _ _ _ (List.mem_filter.mp hq).2

theorem IsTriKeys.qubits {Lx Ly Lz : Nat} {k : List Coord} (h : IsTriKeys Lx Ly Lz k) :
    ∀ q ∈ k, q ∈ qubits Lx Ly Lz := by
  obtain ⟨a, x, y, z, _, rfl⟩ := h
  exact fun q hq => mem_qubits_of_isQubit _ _ _ _ (List.mem_filter.mp hq).2

/-- a cube (also a half cube of the rough boundary) has an x edge that is a qubit -/
theorem IsCubeKeys.ne_nil {Lx Ly Lz : Nat} (hy : 1 ≤ Ly) {k : List Coord} (h : IsCubeKeys Lx Ly Lz k) :
    k ≠ [] := by
  obtain ⟨x, y, z, ⟨hx, hyy, hz, _⟩, rfl⟩ := h
  unfold R1 RM at *
  by_cases hc : y + 1 < 2 * (Ly : Int)
  · have : [x, y + 1, z - 1] ∈ cubeKeys Lx Ly Lz x y z := by
      unfold cubeKeys
      rw [List.mem_filter, isQubit_iff]
      refine ⟨by simp [cubeLocs], Or.inl ?_⟩
      unfold QX R0 R1; omega
    exact List.ne_nil_of_mem this
  · have : [x, y - 1, z - 1] ∈ cubeKeys Lx Ly Lz x y z := by
      unfold cubeKeys
      rw [List.mem_filter, isQubit_iff]
      refine ⟨by simp [cubeLocs], Or.inl ?_⟩
      unfold QX R0 R1; omega
    exact List.ne_nil_of_mem this

/-- the x leg of a triangle is a qubit -/
theorem IsTriKeys.ne_nil {Lx Ly Lz : Nat} {k : List Coord} (h : IsTriKeys Lx Ly Lz k) : k ≠ [] := by
  obtain ⟨a, x, y, z, ⟨_, hx, hy, hz, _⟩, rfl⟩ := h
  have hs := sgnX_pm a
  have : [x + sgnX a, y, z] ∈ triKeys Lx Ly Lz a x y z := by
    unfold triKeys
    rw [List.mem_filter, isQubit_iff]
    refine ⟨by simp [triLocs], Or.inl ?_⟩
    unfold QX R1
    unfold R2 at hx
    exact ⟨by omega, hy, hz⟩
  exact List.ne_nil_of_mem this

theorem constOp_ne_nil {k : List Coord} (p : Pauli) (h : k ≠ []) : constOp k p ≠ [] := by
  unfold constOp; simpa using h

theorem wf (Lx Ly Lz : Nat) (hx : 1 ≤ Lx) (hy : 1 ≤ Ly) : (lattice Lx Ly Lz).WF := by
  refine ⟨nodup_qubits Lx Ly Lz, nodup_stabs Lx Ly Lz, qubits_not_stabs Lx Ly Lz, ?_, ?_, ?_, ?_, ?_⟩
  · intro s hs
    show ((getStab Lx Ly Lz s).map Prod.fst).Nodup
    rcases getStab_cases Lx Ly Lz s hs with ⟨k, hk, e⟩ | ⟨k, hk, e⟩ <;>
      (rw [e, keys_constOp]; exact hk.nodup)
  · intro s hs e he
    change e ∈ getStab Lx Ly Lz s at he
    rcases getStab_cases Lx Ly Lz s hs with ⟨k, hk, eq⟩ | ⟨k, hk, eq⟩ <;>
      (rw [eq, mem_constOp] at he; exact ⟨hk.qubits _ he.1, by rw [he.2]; decide⟩)
  · intro s hs
    show getStab Lx Ly Lz s ≠ []
    rcases getStab_cases Lx Ly Lz s hs with ⟨k, hk, eq⟩ | ⟨k, hk, eq⟩ <;> rw [eq]
    · exact constOp_ne_nil _ (hk.ne_nil hy)
    · exact constOp_ne_nil _ hk.ne_nil
  · intro a ha
    change a ∈ logX Lx Ly Lz ++ logZ Lx Ly Lz at ha
    rw [logX_eq, logZ_eq] at ha
    simp only [List.cons_append, List.nil_append, List.mem_cons, List.not_mem_nil, or_false] at ha
    rcases ha with rfl | rfl <;> rw [keys_constOp]
    · exact nodup_sheetKeys Lx Ly Lz
    · exact nodup_lineKeys Lx Ly Lz
  · intro a ha e he
    change a ∈ logX Lx Ly Lz ++ logZ Lx Ly Lz at ha
    rw [logX_eq, logZ_eq] at ha
    simp only [List.cons_append, List.nil_append, List.mem_cons, List.not_mem_nil, or_false] at ha
    rcases ha with rfl | rfl <;> rw [mem_constOp] at he
    · exact ⟨mem_qubits_of_isQubit _ _ _ _ (List.mem_filter.mp he.1).2, by rw [he.2]; decide⟩
    · exact ⟨mem_qubits_of_isQubit _ _ _ _ (lineKeys_qubits Lx Ly Lz hx hy _ he.1), by rw [he.2]; decide⟩

/-! ### counts -/

theorem length_qubits (Lx Ly Lz : Nat) :
    (qubits Lx Ly Lz).length = Lx * Ly * Lz + (Lx - 1) * (Ly - 1) * Lz + (Lx - 1) * Ly * (Lz - 1) := by
  unfold qubits allTrue
  simp only [List.length_append, length_grid3_true, length_pyRange2]
  have e1 : (2 * Lx + 1 + 1 - 1) / 2 = Lx := by omega
  have e2 : (2 * Ly + 1 - 0) / 2 = Ly := by omega
  have e3 : (2 * Lz + 1 - 0) / 2 = Lz := by omega
  have e4 : (2 * Lx + 1 - 2) / 2 = Lx - 1 := by omega
  have e5 : (2 * Ly - 1 + 1 - 1) / 2 = Ly - 1 := by omega
  have e6 : (2 * Lz - 1 + 1 - 1) / 2 = Lz - 1 := by omega
  rw [e1, e2, e3, e4, e5, e6]

theorem length_logX (Lx Ly Lz : Nat) : (logX Lx Ly Lz).length = 1 := rfl

/-! ### `qubit_axis` on the qubits -/

theorem qubitAxis_qubit (Lx Ly Lz : Nat) (x y z : Int) (h : [x, y, z] ∈ qubits Lx Ly Lz) :
    qubitAxis [x, y, z] = some (if x % 2 = 1 then "x" else if y % 2 = 1 then "y" else "z") := by
  rw [mem_qubits_iff] at h
  unfold QX QY QZ R0 R1 R2 at h
  apply Rhombic.qubitAxis_eq
  omega

end Panqec.RhombicPlanarCode
