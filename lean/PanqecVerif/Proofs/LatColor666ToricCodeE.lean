/-
Color666ToricCode, square sizes `L ≥ 1`: a face meets each of the four logical strings in an even
number of qubits.  The strings `A`, `B` are described by residues that are invariant under the
periodic identification (`x mod 9`, `3y + 2x mod 36L`), so the test at a wrapped corner is the
test at the unwrapped point; the strings `C`, `D` live in the columns `x = 3, 4`, which no
wrap-around in `x` reaches.  Core Lean only.
-/
import PanqecVerif.Proofs.LatColor666ToricCodeD

set_option linter.unusedVariables false
set_option linter.unusedSimpArgs false

namespace Panqec.Color666ToricCode
open Panqec.Lat2D Panqec.Color
open Panqec.Color488Code (emod_small emod_neg_small emod_bridge)

theorem emod_eq_iff_cases {v m c : Int} (h1 : -m < v) (h2 : v < 2 * m) (hc0 : 0 ≤ c) (hc : c < m) :
    v % m = c ↔ (v = c ∨ v = c + m ∨ v = c - m) := by
  by_cases a : v < 0
  · rw [emod_neg_small a (by omega)]; omega
  · by_cases b : v < m
    · rw [emod_small (by omega) b]; omega
    · rw [emod_ge (by omega) h2]; omega

theorem zero_iff {v m : Int} (hm : 0 < m) (h1 : -m < v) (h2 : v < 2 * m) :
    v % m = 0 ↔ (v = 0 ∨ v = m) := by
  rw [emod_eq_iff_cases h1 h2 (by omega) hm]; omega

/-- the string predicates in residues (invariant under the periodic identification) -/
def PA' (L : Nat) (a b : Int) : Prop :=
  (a % 9 = 4 ∧ (3 * b + 2 * a - 2) % (36 * (L : Int)) = 0) ∨
  (a % 9 = 6 ∧ (3 * b + 2 * a - 6) % (36 * (L : Int)) = 0) ∨
  (a % 9 = 0 ∧ (3 * b + 2 * a - 6) % (36 * (L : Int)) = 0) ∨
  (a % 9 = 1 ∧ (3 * b + 2 * a - 2) % (36 * (L : Int)) = 0)

def PB' (L : Nat) (a b : Int) : Prop :=
  ((a % 9 = 0 ∨ a % 9 = 6) ∧ (3 * b + 2 * a - -6) % (36 * (L : Int)) = 0) ∨
  ((a % 9 = 1 ∨ a % 9 = 4) ∧ (3 * b + 2 * a - -10) % (36 * (L : Int)) = 0)

instance (L : Nat) (a b : Int) : Decidable (PA' L a b) := by unfold PA'; infer_instance
instance (L : Nat) (a b : Int) : Decidable (PB' L a b) := by unfold PB'; infer_instance

theorem PA_iff {L : Nat} (hL : 1 ≤ L) {a b : Int} (h : IsQ L a b) : PA L a b ↔ PA' L a b := by
  rw [isQ_unfold] at h
  unfold PA PA'
  rw [zero_iff (v := 3 * b + 2 * a - 2) (by omega) (by omega) (by omega),
    zero_iff (v := 3 * b + 2 * a - 6) (by omega) (by omega) (by omega)]
  omega

theorem PB_iff {L : Nat} (hL : 1 ≤ L) {a b : Int} (h : IsQ L a b) : PB L a b ↔ PB' L a b := by
  rw [isQ_unfold] at h
  unfold PB PB'
  rw [zero_iff (v := 3 * b + 2 * a - -6) (by omega) (by omega) (by omega),
    zero_iff (v := 3 * b + 2 * a - -10) (by omega) (by omega) (by omega)]
  omega

/-- what is needed of a wrapped corner: the key and its invariants -/
theorem corner_inv {L : Nat} (hL : 1 ≤ L) {x y dx dy : Int} (h : IsF L x y)
    (hd : (dx = -1 ∧ dy = -2) ∨ (dx = 1 ∧ dy = -2) ∨ (dx = 2 ∧ dy = 0) ∨ (dx = 1 ∧ dy = 2) ∨
      (dx = -1 ∧ dy = 2) ∨ (dx = -2 ∧ dy = 0)) :
    ∃ qx qy, wrapP L (x + dx) (y + dy) = [qx, qy] ∧ qx % 9 = (x + dx) % 9 ∧
      (∀ c : Int, (3 * qy + 2 * qx - c) % (36 * (L : Int)) =
        (3 * y + 2 * x - (c - (3 * dy + 2 * dx))) % (36 * (L : Int))) ∧
      (qx = x + dx ∨ (qx < 2 ∧ 9 ≤ x + dx)) ∧
      (qx = x + dx → qy % 12 = (y + dy) % 12) := by
  obtain ⟨qx, qy, e, hD, hx, hu⟩ := wrapP_spec hL (near_corner hL h hd)
  refine ⟨qx, qy, e, by omega, ?_, ?_, by intro e; omega⟩
  · intro c
    apply emod_shift
    omega
  · have h0 : 0 ≤ qx := hD.1
    have h9 : x < 9 * (L : Int) := h.2.2.1
    rcases hd with ⟨rfl, rfl⟩ | ⟨rfl, rfl⟩ | ⟨rfl, rfl⟩ | ⟨rfl, rfl⟩ | ⟨rfl, rfl⟩ | ⟨rfl, rfl⟩ <;> omega

/-- `k % (36L)` for the constants of the string tests -/
structure ConstsV (L : Nat) : Prop where
  p2 : (2 : Int) % (36 * (L : Int)) = 2
  p6 : (6 : Int) % (36 * (L : Int)) = 6
  p10 : (10 : Int) % (36 * (L : Int)) = 10
  p14 : (14 : Int) % (36 * (L : Int)) = 14
  n2 : (-2 : Int) % (36 * (L : Int)) = 36 * (L : Int) - 2
  n6 : (-6 : Int) % (36 * (L : Int)) = 36 * (L : Int) - 6
  n10 : (-10 : Int) % (36 * (L : Int)) = 36 * (L : Int) - 10
  n14 : (-14 : Int) % (36 * (L : Int)) = 36 * (L : Int) - 14
  n18 : (-18 : Int) % (36 * (L : Int)) = 36 * (L : Int) - 18

theorem constsV {L : Nat} (hL : 1 ≤ L) : ConstsV L where
  p2 := emod_small (by omega) (by omega)
  p6 := emod_small (by omega) (by omega)
  p10 := emod_small (by omega) (by omega)
  p14 := emod_small (by omega) (by omega)
  n2 := by rw [emod_neg_small (by omega) (by omega)]; omega
  n6 := by rw [emod_neg_small (by omega) (by omega)]; omega
  n10 := by rw [emod_neg_small (by omega) (by omega)]; omega
  n14 := by rw [emod_neg_small (by omega) (by omega)]; omega
  n18 := by rw [emod_neg_small (by omega) (by omega)]; omega

/-- the invariant `3y + 2x` of a face is `≡ 10 (mod 12)` -/
theorem face_v {L : Nat} {x y : Int} (h : IsF L x y) :
    ((3 * y + 2 * x) % (36 * (L : Int))) % 12 = 10 ∧ x % 3 = 2 := by
  unfold IsF skew at h
  rw [Int.emod_emod_of_dvd _ (⟨3 * (L : Int), by omega⟩ : (12 : Int) ∣ 36 * (L : Int))]
  omega

def πA (L : Nat) (q : Coord) : Bool := match q with | [a, b] => decide (PA' L a b) | _ => false
def πB (L : Nat) (q : Coord) : Bool := match q with | [a, b] => decide (PB' L a b) | _ => false
def πC (q : Coord) : Bool := match q with | [a, b] => decide (PC a b) | _ => false
def πD (q : Coord) : Bool := match q with | [a, b] => decide (PD a b) | _ => false

theorem sub_zero_iff (V c m : Int) : (V - c) % m = 0 ↔ V % m = c % m :=
  Int.emod_eq_emod_iff_emod_sub_eq_zero.symm

end Panqec.Color666ToricCode
