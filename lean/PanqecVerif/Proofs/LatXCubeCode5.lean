/-
XCubeCode lattice model: the key lists of the twelve families of logical operators (six X, six Z),
their membership in arithmetic form, and the closed form of `get_logicals_x` / `get_logicals_z`.
-/
import PanqecVerif.Proofs.LatXCubeCode1
open Panqec Panqec.Lat3Db
namespace Panqec.XCubeCode

/-! ### key lists -/
def kXA1 (Lz : Nat) (y : Int) : List Coord := (pyRange2 0 (2*Lz)).map fun z => [1, y, z]
def kXA2 (Ly : Nat) (z : Int) : List Coord := (pyRange2 0 (2*Ly)).map fun y => [1, y, z]
def kXB1 (Lz : Nat) (x : Int) : List Coord := (pyRange2 0 (2*Lz)).map fun z => [x, 1, z]
def kXB2 (Lx : Nat) (z : Int) : List Coord := (pyRange2 0 (2*Lx)).map fun x => [x, 1, z]
def kXC1 (Ly : Nat) (x : Int) : List Coord := (pyRange2 0 (2*Ly)).map fun y => [x, y, 1]
def kXC2 (Lx : Nat) (y : Int) : List Coord := (pyRange2 0 (2*Lx)).map fun x => [x, y, 1]

def kZA1 (Lx : Nat) (y : Int) : List Coord := (pyRange2 1 (2*Lx)).map fun x => [x, y, 0]
def kZA2 (Lx : Nat) (z : Int) : List Coord :=
  ((pyRange2 1 (2*Lx)).map fun x => [x, 0, 0]) ++ ((pyRange2 1 (2*Lx)).map fun x => [x, 0, z])
def kZB1 (Ly : Nat) (x : Int) : List Coord := (pyRange2 1 (2*Ly)).map fun y => [x, y, 0]
def kZB2 (Ly : Nat) (z : Int) : List Coord :=
  ((pyRange2 1 (2*Ly)).map fun y => [0, y, 0]) ++ ((pyRange2 1 (2*Ly)).map fun y => [0, y, z])
def kZC1 (Lz : Nat) (x : Int) : List Coord := (pyRange2 1 (2*Lz)).map fun z => [x, 0, z]
def kZC2 (Lz : Nat) (y : Int) : List Coord :=
  ((pyRange2 1 (2*Lz)).map fun z => [0, 0, z]) ++ ((pyRange2 1 (2*Lz)).map fun z => [0, y, z])

/-! ### membership -/

theorem mem_kXA1 (Lz : Nat) (y p q r : Int) : [p, q, r] ∈ kXA1 Lz y ↔ p = 1 ∧ q = y ∧ R0 (2*Lz) r := by
  unfold kXA1; simp only [List.mem_map, mem_pyRange2_0, List.cons.injEq, and_true]
  constructor
  · rintro ⟨t, ht, rfl, rfl, rfl⟩; exact ⟨rfl, rfl, ht⟩
  · rintro ⟨rfl, rfl, ht⟩; exact ⟨r, ht, rfl, rfl, rfl⟩
theorem mem_kXA2 (Ly : Nat) (z p q r : Int) : [p, q, r] ∈ kXA2 Ly z ↔ p = 1 ∧ R0 (2*Ly) q ∧ r = z := by
  unfold kXA2; simp only [List.mem_map, mem_pyRange2_0, List.cons.injEq, and_true]
  constructor
  · rintro ⟨t, ht, rfl, rfl, rfl⟩; exact ⟨rfl, ht, rfl⟩
  · rintro ⟨rfl, ht, rfl⟩; exact ⟨q, ht, rfl, rfl, rfl⟩
theorem mem_kXB1 (Lz : Nat) (x p q r : Int) : [p, q, r] ∈ kXB1 Lz x ↔ p = x ∧ q = 1 ∧ R0 (2*Lz) r := by
  unfold kXB1; simp only [List.mem_map, mem_pyRange2_0, List.cons.injEq, and_true]
  constructor
  · rintro ⟨t, ht, rfl, rfl, rfl⟩; exact ⟨rfl, rfl, ht⟩
  · rintro ⟨rfl, rfl, ht⟩; exact ⟨r, ht, rfl, rfl, rfl⟩
theorem mem_kXB2 (Lx : Nat) (z p q r : Int) : [p, q, r] ∈ kXB2 Lx z ↔ R0 (2*Lx) p ∧ q = 1 ∧ r = z := by
  unfold kXB2; simp only [List.mem_map, mem_pyRange2_0, List.cons.injEq, and_true]
  constructor
  · rintro ⟨t, ht, rfl, rfl, rfl⟩; exact ⟨ht, rfl, rfl⟩
  · rintro ⟨ht, rfl, rfl⟩; exact ⟨p, ht, rfl, rfl, rfl⟩
theorem mem_kXC1 (Ly : Nat) (x p q r : Int) : [p, q, r] ∈ kXC1 Ly x ↔ p = x ∧ R0 (2*Ly) q ∧ r = 1 := by
  unfold kXC1; simp only [List.mem_map, mem_pyRange2_0, List.cons.injEq, and_true]
  constructor
  · rintro ⟨t, ht, rfl, rfl, rfl⟩; exact ⟨rfl, ht, rfl⟩
  · rintro ⟨rfl, ht, rfl⟩; exact ⟨q, ht, rfl, rfl, rfl⟩
theorem mem_kXC2 (Lx : Nat) (y p q r : Int) : [p, q, r] ∈ kXC2 Lx y ↔ R0 (2*Lx) p ∧ q = y ∧ r = 1 := by
  unfold kXC2; simp only [List.mem_map, mem_pyRange2_0, List.cons.injEq, and_true]
  constructor
  · rintro ⟨t, ht, rfl, rfl, rfl⟩; exact ⟨ht, rfl, rfl⟩
  · rintro ⟨ht, rfl, rfl⟩; exact ⟨p, ht, rfl, rfl, rfl⟩

theorem mem_kZA1 (Lx : Nat) (y p q r : Int) : [p, q, r] ∈ kZA1 Lx y ↔ R1 (2*Lx) p ∧ q = y ∧ r = 0 := by
  unfold kZA1; simp only [List.mem_map, mem_pyRange2_1, List.cons.injEq, and_true]
  constructor
  · rintro ⟨t, ht, rfl, rfl, rfl⟩; exact ⟨ht, rfl, rfl⟩
  · rintro ⟨ht, rfl, rfl⟩; exact ⟨p, ht, rfl, rfl, rfl⟩
theorem mem_kZA2 (Lx : Nat) (z p q r : Int) :
    [p, q, r] ∈ kZA2 Lx z ↔ R1 (2*Lx) p ∧ q = 0 ∧ (r = 0 ∨ r = z) := by
  unfold kZA2; simp only [List.mem_append, List.mem_map, mem_pyRange2_1, List.cons.injEq, and_true]
  constructor
  · rintro (⟨t, ht, rfl, rfl, rfl⟩ | ⟨t, ht, rfl, rfl, rfl⟩)
    · exact ⟨ht, rfl, Or.inl rfl⟩
    · exact ⟨ht, rfl, Or.inr rfl⟩
  · rintro ⟨ht, rfl, rfl | rfl⟩
    · exact Or.inl ⟨p, ht, rfl, rfl, rfl⟩
    · exact Or.inr ⟨p, ht, rfl, rfl, rfl⟩
theorem mem_kZB1 (Ly : Nat) (x p q r : Int) : [p, q, r] ∈ kZB1 Ly x ↔ p = x ∧ R1 (2*Ly) q ∧ r = 0 := by
  unfold kZB1; simp only [List.mem_map, mem_pyRange2_1, List.cons.injEq, and_true]
  constructor
  · rintro ⟨t, ht, rfl, rfl, rfl⟩; exact ⟨rfl, ht, rfl⟩
  · rintro ⟨rfl, ht, rfl⟩; exact ⟨q, ht, rfl, rfl, rfl⟩
theorem mem_kZB2 (Ly : Nat) (z p q r : Int) :
    [p, q, r] ∈ kZB2 Ly z ↔ p = 0 ∧ R1 (2*Ly) q ∧ (r = 0 ∨ r = z) := by
  unfold kZB2; simp only [List.mem_append, List.mem_map, mem_pyRange2_1, List.cons.injEq, and_true]
  constructor
  · rintro (⟨t, ht, rfl, rfl, rfl⟩ | ⟨t, ht, rfl, rfl, rfl⟩)
    · exact ⟨rfl, ht, Or.inl rfl⟩
    · exact ⟨rfl, ht, Or.inr rfl⟩
  · rintro ⟨rfl, ht, rfl | rfl⟩
    · exact Or.inl ⟨q, ht, rfl, rfl, rfl⟩
    · exact Or.inr ⟨q, ht, rfl, rfl, rfl⟩
theorem mem_kZC1 (Lz : Nat) (x p q r : Int) : [p, q, r] ∈ kZC1 Lz x ↔ p = x ∧ q = 0 ∧ R1 (2*Lz) r := by
  unfold kZC1; simp only [List.mem_map, mem_pyRange2_1, List.cons.injEq, and_true]
  constructor
  · rintro ⟨t, ht, rfl, rfl, rfl⟩; exact ⟨rfl, rfl, ht⟩
  · rintro ⟨rfl, rfl, ht⟩; exact ⟨r, ht, rfl, rfl, rfl⟩
theorem mem_kZC2 (Lz : Nat) (y p q r : Int) :
    [p, q, r] ∈ kZC2 Lz y ↔ p = 0 ∧ (q = 0 ∨ q = y) ∧ R1 (2*Lz) r := by
  unfold kZC2; simp only [List.mem_append, List.mem_map, mem_pyRange2_1, List.cons.injEq, and_true]
  constructor
  · rintro (⟨t, ht, rfl, rfl, rfl⟩ | ⟨t, ht, rfl, rfl, rfl⟩)
    · exact ⟨rfl, Or.inl rfl, ht⟩
    · exact ⟨rfl, Or.inr rfl, ht⟩
  · rintro ⟨rfl, rfl | rfl, ht⟩
    · exact Or.inl ⟨r, ht, rfl, rfl, rfl⟩
    · exact Or.inr ⟨r, ht, rfl, rfl, rfl⟩

/-! ### distinct keys -/

theorem nodup_map_range (a b : Nat) (f : Int → Coord) (hf : Function.Injective f) :
    ((pyRange2 a b).map f).Nodup := (nodup_pyRange2 a b).map hf

theorem nodup_kXA1 (Lz : Nat) (y : Int) : (kXA1 Lz y).Nodup :=
  nodup_map_range _ _ _ (fun a b h => by simpa using h)
theorem nodup_kXA2 (Ly : Nat) (z : Int) : (kXA2 Ly z).Nodup :=
  nodup_map_range _ _ _ (fun a b h => by simpa using h)
theorem nodup_kXB1 (Lz : Nat) (x : Int) : (kXB1 Lz x).Nodup :=
  nodup_map_range _ _ _ (fun a b h => by simpa using h)
theorem nodup_kXB2 (Lx : Nat) (z : Int) : (kXB2 Lx z).Nodup :=
  nodup_map_range _ _ _ (fun a b h => by simpa using h)
theorem nodup_kXC1 (Ly : Nat) (x : Int) : (kXC1 Ly x).Nodup :=
  nodup_map_range _ _ _ (fun a b h => by simpa using h)
theorem nodup_kXC2 (Lx : Nat) (y : Int) : (kXC2 Lx y).Nodup :=
  nodup_map_range _ _ _ (fun a b h => by simpa using h)
theorem nodup_kZA1 (Lx : Nat) (y : Int) : (kZA1 Lx y).Nodup :=
  nodup_map_range _ _ _ (fun a b h => by simpa using h)
theorem nodup_kZB1 (Ly : Nat) (x : Int) : (kZB1 Ly x).Nodup :=
  nodup_map_range _ _ _ (fun a b h => by simpa using h)
theorem nodup_kZC1 (Lz : Nat) (x : Int) : (kZC1 Lz x).Nodup :=
  nodup_map_range _ _ _ (fun a b h => by simpa using h)

theorem nodup_kZA2 (Lx : Nat) (z : Int) (hz : z ≠ 0) : (kZA2 Lx z).Nodup := by
  unfold kZA2
  rw [List.nodup_append]
  refine ⟨nodup_map_range _ _ _ (fun a b h => by simpa using h),
    nodup_map_range _ _ _ (fun a b h => by simpa using h), ?_⟩
  intro a ha b hb hab
  simp only [List.mem_map] at ha hb
  obtain ⟨t, _, rfl⟩ := ha
  obtain ⟨t', _, rfl⟩ := hb
  simp only [List.cons.injEq, and_true, true_and] at hab
  exact hz hab.2.symm
theorem nodup_kZB2 (Ly : Nat) (z : Int) (hz : z ≠ 0) : (kZB2 Ly z).Nodup := by
  unfold kZB2
  rw [List.nodup_append]
  refine ⟨nodup_map_range _ _ _ (fun a b h => by simpa using h),
    nodup_map_range _ _ _ (fun a b h => by simpa using h), ?_⟩
  intro a ha b hb hab
  simp only [List.mem_map] at ha hb
  obtain ⟨t, _, rfl⟩ := ha
  obtain ⟨t', _, rfl⟩ := hb
  simp only [List.cons.injEq, and_true, true_and] at hab
  exact hz hab.2.symm
theorem nodup_kZC2 (Lz : Nat) (y : Int) (hy : y ≠ 0) : (kZC2 Lz y).Nodup := by
  unfold kZC2
  rw [List.nodup_append]
  refine ⟨nodup_map_range _ _ _ (fun a b h => by simpa using h),
    nodup_map_range _ _ _ (fun a b h => by simpa using h), ?_⟩
  intro a ha b hb hab
  simp only [List.mem_map] at ha hb
  obtain ⟨t, _, rfl⟩ := ha
  obtain ⟨t', _, rfl⟩ := hb
  simp only [List.cons.injEq, and_true, true_and] at hab
  exact hy hab.1.symm

/-! ### closed form of the logical operator lists -/

theorem ne_zero_of_R2 (b : Nat) (z : Int) (h : z ∈ pyRange2 2 b) : z ≠ 0 := by
  rw [mem_pyRange2_2] at h; unfold R2 at h; omega

theorem logX_eq (Lx Ly Lz : Nat) : logX Lx Ly Lz =
    ((pyRange2 0 (2*Ly)).map fun y => constOp (kXA1 Lz y) Pauli.X) ++
    ((pyRange2 2 (2*Lz)).map fun z => constOp (kXA2 Ly z) Pauli.X) ++
    ((pyRange2 0 (2*Lx)).map fun x => constOp (kXB1 Lz x) Pauli.X) ++
    ((pyRange2 2 (2*Lz)).map fun z => constOp (kXB2 Lx z) Pauli.X) ++
    ((pyRange2 0 (2*Lx)).map fun x => constOp (kXC1 Ly x) Pauli.X) ++
    ((pyRange2 2 (2*Ly)).map fun y => constOp (kXC2 Lx y) Pauli.X) := by
  unfold logX
  congr 1; congr 1; congr 1; congr 1; congr 1
  all_goals (apply List.map_congr_left; intro t _)
  · exact dictOf_eq _ _ (nodup_kXA1 Lz t)
  · exact dictOf_eq _ _ (nodup_kXA2 Ly t)
  · exact dictOf_eq _ _ (nodup_kXB1 Lz t)
  · exact dictOf_eq _ _ (nodup_kXB2 Lx t)
  · exact dictOf_eq _ _ (nodup_kXC1 Ly t)
  · exact dictOf_eq _ _ (nodup_kXC2 Lx t)

theorem logZ_eq (Lx Ly Lz : Nat) : logZ Lx Ly Lz =
    ((pyRange2 0 (2*Ly)).map fun y => constOp (kZA1 Lx y) Pauli.Z) ++
    ((pyRange2 2 (2*Lz)).map fun z => constOp (kZA2 Lx z) Pauli.Z) ++
    ((pyRange2 0 (2*Lx)).map fun x => constOp (kZB1 Ly x) Pauli.Z) ++
    ((pyRange2 2 (2*Lz)).map fun z => constOp (kZB2 Ly z) Pauli.Z) ++
    ((pyRange2 0 (2*Lx)).map fun x => constOp (kZC1 Lz x) Pauli.Z) ++
    ((pyRange2 2 (2*Ly)).map fun y => constOp (kZC2 Lz y) Pauli.Z) := by
  unfold logZ
  congr 1; congr 1; congr 1; congr 1; congr 1
  all_goals (apply List.map_congr_left; intro t ht)
  · exact dictOf_eq _ _ (nodup_kZA1 Lx t)
  · exact dictOf_eq _ _ (nodup_kZA2 Lx t (ne_zero_of_R2 _ _ ht))
  · exact dictOf_eq _ _ (nodup_kZB1 Ly t)
  · exact dictOf_eq _ _ (nodup_kZB2 Ly t (ne_zero_of_R2 _ _ ht))
  · exact dictOf_eq _ _ (nodup_kZC1 Lz t)
  · exact dictOf_eq _ _ (nodup_kZC2 Lz t (ne_zero_of_R2 _ _ ht))

end Panqec.XCubeCode
