/-
RotatedToric3DCode, supported family, C17 (2/3): parity statements.  `b` commutes with every
generator.  Sums over rows / columns of the layers and over the "walls" `y = g` / `x = f` (all
layers):

* `yWall_step` / `xWall_step` — the Y-count (both signs) of the wall `y = g` has the parity of the
  wall `y = g + 2`: the layer generators of the row `y = g + 1` (ALL of them, every layer — vertices
  and faces alike, on and off the defect line of an odd `Lx`) see every qubit of either wall once on
  each diagonal, and every vertical qubit of the row twice.  Valid for every parity.
* `xRow_step` / `xCol_step` — the X-count of the row `y = g` of a layer has the parity of the row
  `y = g + 2` (even `Lx`: the horizontal faces between the rows tile both like dominoes, around the
  seam); columns likewise for an even `Ly`.
* `xRow_up` / `xCol_up` — the X-count of a row has the parity of the same row one layer up (row of
  vertical faces; every vertical qubit next to the row lies on two of them).
-/
import PanqecVerif.Proofs.DistRotatedToric3DCodeA

namespace Panqec.RotatedToric3DCode
open Panqec.Lat3Db
open Panqec.Lat2D (rsum rsum2 rsum_congr rsum2_congr rsum_even rsum2_even rsum_add rsum2_add
  rsum_shift_open wrapP wrapS rsum_wrapP rsum_wrapS)

set_option linter.unusedVariables false
set_option linter.unusedSimpArgs false

/-! ### index arithmetic -/

theorem sw_idx {L m : Nat} (hm : m < L) :
    sw L (2 * (m : Int) + 2) = 2 * ((wrapS L m : Nat) : Int) + 1 := by
  unfold sw wrapS
  by_cases h : m + 1 = L
  · rw [if_pos (by omega), if_pos h]; rfl
  · rw [if_neg (by omega), if_neg h]; omega

theorem pw_idx {L j : Nat} (hj : j < L) :
    pw L (2 * (j : Int) + 1) = 2 * ((wrapP L j : Nat) : Int) + 2 := by
  unfold pw wrapP
  by_cases h : j = 0
  · rw [if_pos (by omega), if_pos h]; omega
  · rw [if_neg (by omega), if_neg h]; omega

theorem wrapP_wrapS {L m : Nat} (hm : m < L) : wrapP L (wrapS L m) = m := by
  unfold wrapP wrapS
  by_cases h : m + 1 = L
  · rw [if_pos h, if_pos rfl]; omega
  · rw [if_neg h, if_neg (by omega)]; omega

/-- dominoes around a cycle of even length: the sites of one parity class, each with its
    successor, cover the cycle once -/
theorem rsum_pairs_wrap (e L : Nat) (he : e < 2) (hL : L % 2 = 0) (G : Nat → Nat) :
    rsum L (fun m => if m % 2 = e then G m + G (wrapS L m) else 0) = rsum L G := by
  have h1 : rsum L (fun m => if m % 2 = e then G m + G (wrapS L m) else 0) =
      rsum L (fun m => if m % 2 = e then G m else 0) +
        rsum L (fun m => if m % 2 = e then G (wrapS L m) else 0) := by
    rw [← rsum_add]
    apply rsum_congr
    intro m _
    by_cases h : m % 2 = e <;> simp [h]
  have h2 : rsum L (fun m => if m % 2 = e then G (wrapS L m) else 0) =
      rsum L (fun m => (fun m' => if wrapP L m' % 2 = e then G m' else 0) (wrapS L m)) :=
    rsum_congr L (fun m hm => by simp only; rw [wrapP_wrapS hm])
  have h3 : rsum L (fun m' => if wrapP L m' % 2 = e then G m' else 0) =
      rsum L (fun m' => if m' % 2 = e then 0 else G m') := by
    apply rsum_congr
    intro m' hm'
    unfold wrapP
    by_cases h0 : m' = 0
    · rw [if_pos h0]
      by_cases h : m' % 2 = e
      · rw [if_pos h, if_neg (by omega)]
      · rw [if_neg h, if_pos (by omega)]
    · rw [if_neg h0]
      by_cases h : m' % 2 = e
      · rw [if_pos h, if_neg (by omega)]
      · rw [if_neg h, if_pos (by omega)]
  rw [h1, h2, rsum_wrapS (fun m' => if wrapP L m' % 2 = e then G m' else 0) L, h3, ← rsum_add]
  apply rsum_congr
  intro m _
  by_cases h : m % 2 = e <;> simp [h]

theorem rsum2_wrapS_left (A B : Nat) (g : Nat → Nat → Nat) :
    rsum2 A B (fun j k => g (wrapS A j) k) = rsum2 A B g :=
  rsum_wrapS (fun j => rsum B (g j)) A

variable {Lx Ly Lz : Nat}

/-! ### the sums -/

/-- X-count of the row `y = g` of the layer `z = c` -/
def xRow (Lx Ly Lz : Nat) (b : Op) (g c : Int) : Nat :=
  rsum Lx (fun j => xH Lx Ly Lz b [2 * (j : Int) + 1, g, c])
/-- X-count of the column `x = f` of the layer `z = c` -/
def xCol (Lx Ly Lz : Nat) (b : Op) (f c : Int) : Nat :=
  rsum Ly (fun j => xH Lx Ly Lz b [f, 2 * (j : Int) + 1, c])
/-- Y-count (both signs) of the wall `y = g`, all layers -/
def yWall (Lx Ly Lz : Nat) (b : Op) (g : Int) : Nat :=
  rsum2 Lx Lz (fun j k => hS Lx Ly Lz b true [2 * (j : Int) + 1, g, 2 * (k : Int) + 1]
    + hS Lx Ly Lz b false [2 * (j : Int) + 1, g, 2 * (k : Int) + 1])
/-- Y-count of the wall `x = f`, all layers -/
def xWall (Lx Ly Lz : Nat) (b : Op) (f : Int) : Nat :=
  rsum2 Ly Lz (fun j k => hS Lx Ly Lz b true [f, 2 * (j : Int) + 1, 2 * (k : Int) + 1]
    + hS Lx Ly Lz b false [f, 2 * (j : Int) + 1, 2 * (k : Int) + 1])

/-! ### walls -/

theorem yWall_step (hF : Fam Lx Ly) {b : Op} (hb : CommStabs Lx Ly Lz b) (i : Nat)
    (hi : i + 1 < Ly) :
    (yWall Lx Ly Lz b (2 * (i : Int) + 1) + yWall Lx Ly Lz b (2 * (i : Int) + 3)) % 2 = 0 := by
  obtain ⟨hLx, hLy, hodd⟩ := hF
  have hF : Fam Lx Ly := ⟨hLx, hLy, hodd⟩
  -- the constraints of the row `y = 2i + 2`, every `x`, every layer
  have hE := rsum2_even (A := Lx) (B := Lz) (f := fun m k =>
      hS Lx Ly Lz b true [2 * (m : Int) + 1, 2 * (i : Int) + 1, 2 * (k : Int) + 1]
      + hS Lx Ly Lz b true [2 * ((wrapS Lx m : Nat) : Int) + 1, 2 * (i : Int) + 3, 2 * (k : Int) + 1]
      + hS Lx Ly Lz b false [2 * (m : Int) + 1, 2 * (i : Int) + 3, 2 * (k : Int) + 1]
      + hS Lx Ly Lz b false [2 * ((wrapS Lx m : Nat) : Int) + 1, 2 * (i : Int) + 1, 2 * (k : Int) + 1]
      + hS Lx Ly Lz b true [2 * (m : Int) + 2, 2 * (i : Int) + 2, 2 * ((k + 1 : Nat) : Int)]
      + hS Lx Ly Lz b true [2 * (m : Int) + 2, 2 * (i : Int) + 2, 2 * (k : Int)]) (by
    intro m k hm hk
    have h := layer_even hF hb (x := 2 * (m : Int) + 2) (y := 2 * (i : Int) + 2)
      (z := 2 * (k : Int) + 1) (by unfold Ev; omega) (by unfold Ev; omega) (by unfold R1; omega)
    have e1 : sw Ly (2 * (i : Int) + 2) = 2 * (i : Int) + 3 := by
      have := sw_spec Ly (2 * (i : Int) + 2); omega
    rw [sw_idx hm, e1] at h
    have e2 : (2 * (m : Int) + 2 - 1) = 2 * (m : Int) + 1 := by omega
    have e3 : (2 * (i : Int) + 2 - 1) = 2 * (i : Int) + 1 := by omega
    have e4 : (2 * (k : Int) + 1 + 1) = 2 * ((k + 1 : Nat) : Int) := by omega
    have e5 : (2 * (k : Int) + 1 - 1) = 2 * (k : Int) := by omega
    rw [e2, e3, e4, e5] at h
    exact h)
  rw [rsum2_add, rsum2_add, rsum2_add, rsum2_add, rsum2_add] at hE
  rw [rsum2_wrapS_left Lx Lz (fun j k =>
      hS Lx Ly Lz b true [2 * (j : Int) + 1, 2 * (i : Int) + 3, 2 * (k : Int) + 1]),
    rsum2_wrapS_left Lx Lz (fun j k =>
      hS Lx Ly Lz b false [2 * (j : Int) + 1, 2 * (i : Int) + 1, 2 * (k : Int) + 1])] at hE
  have hv : rsum2 Lx Lz (fun m k =>
        hS Lx Ly Lz b true [2 * (m : Int) + 2, 2 * (i : Int) + 2, 2 * ((k + 1 : Nat) : Int)]) =
      rsum2 Lx Lz (fun m k =>
        hS Lx Ly Lz b true [2 * (m : Int) + 2, 2 * (i : Int) + 2, 2 * (k : Int)]) := by
    apply rsum_congr
    intro m _
    exact rsum_shift_open
      (fun k => hS Lx Ly Lz b true [2 * (m : Int) + 2, 2 * (i : Int) + 2, 2 * (k : Int)]) Lz
      (hS_of_not (by unfold QH QV R1 R2; omega)) (hS_of_not (by unfold QH QV R1 R2; omega))
  rw [hv] at hE
  unfold yWall
  rw [rsum2_add, rsum2_add]
  omega

theorem xWall_step (hF : Fam Lx Ly) {b : Op} (hb : CommStabs Lx Ly Lz b) (i : Nat)
    (hi : i + 1 < Lx) :
    (xWall Lx Ly Lz b (2 * (i : Int) + 1) + xWall Lx Ly Lz b (2 * (i : Int) + 3)) % 2 = 0 := by
  obtain ⟨hLx, hLy, hodd⟩ := hF
  have hF : Fam Lx Ly := ⟨hLx, hLy, hodd⟩
  -- the constraints of the column `x = 2i + 2`, every `y`, every layer
  have hE := rsum2_even (A := Ly) (B := Lz) (f := fun m k =>
      hS Lx Ly Lz b true [2 * (i : Int) + 1, 2 * (m : Int) + 1, 2 * (k : Int) + 1]
      + hS Lx Ly Lz b true [2 * (i : Int) + 3, 2 * ((wrapS Ly m : Nat) : Int) + 1, 2 * (k : Int) + 1]
      + hS Lx Ly Lz b false [2 * (i : Int) + 1, 2 * ((wrapS Ly m : Nat) : Int) + 1, 2 * (k : Int) + 1]
      + hS Lx Ly Lz b false [2 * (i : Int) + 3, 2 * (m : Int) + 1, 2 * (k : Int) + 1]
      + hS Lx Ly Lz b true [2 * (i : Int) + 2, 2 * (m : Int) + 2, 2 * ((k + 1 : Nat) : Int)]
      + hS Lx Ly Lz b true [2 * (i : Int) + 2, 2 * (m : Int) + 2, 2 * (k : Int)]) (by
    intro m k hm hk
    have h := layer_even hF hb (x := 2 * (i : Int) + 2) (y := 2 * (m : Int) + 2)
      (z := 2 * (k : Int) + 1) (by unfold Ev; omega) (by unfold Ev; omega) (by unfold R1; omega)
    have e1 : sw Lx (2 * (i : Int) + 2) = 2 * (i : Int) + 3 := by
      have := sw_spec Lx (2 * (i : Int) + 2); omega
    rw [sw_idx hm, e1] at h
    have e2 : (2 * (m : Int) + 2 - 1) = 2 * (m : Int) + 1 := by omega
    have e3 : (2 * (i : Int) + 2 - 1) = 2 * (i : Int) + 1 := by omega
    have e4 : (2 * (k : Int) + 1 + 1) = 2 * ((k + 1 : Nat) : Int) := by omega
    have e5 : (2 * (k : Int) + 1 - 1) = 2 * (k : Int) := by omega
    rw [e2, e3, e4, e5] at h
    exact h)
  rw [rsum2_add, rsum2_add, rsum2_add, rsum2_add, rsum2_add] at hE
  rw [rsum2_wrapS_left Ly Lz (fun j k =>
      hS Lx Ly Lz b true [2 * (i : Int) + 3, 2 * (j : Int) + 1, 2 * (k : Int) + 1]),
    rsum2_wrapS_left Ly Lz (fun j k =>
      hS Lx Ly Lz b false [2 * (i : Int) + 1, 2 * (j : Int) + 1, 2 * (k : Int) + 1])] at hE
  have hv : rsum2 Ly Lz (fun m k =>
        hS Lx Ly Lz b true [2 * (i : Int) + 2, 2 * (m : Int) + 2, 2 * ((k + 1 : Nat) : Int)]) =
      rsum2 Ly Lz (fun m k =>
        hS Lx Ly Lz b true [2 * (i : Int) + 2, 2 * (m : Int) + 2, 2 * (k : Int)]) := by
    apply rsum_congr
    intro m _
    exact rsum_shift_open
      (fun k => hS Lx Ly Lz b true [2 * (i : Int) + 2, 2 * (m : Int) + 2, 2 * (k : Int)]) Lz
      (hS_of_not (by unfold QH QV R1 R2; omega)) (hS_of_not (by unfold QH QV R1 R2; omega))
  rw [hv] at hE
  unfold xWall
  rw [rsum2_add, rsum2_add]
  omega

/-! ### rows and columns inside a layer -/

theorem col_true {p q r : Int} (h : r % 2 = 0 ∨ (p + q) % 4 = 0) : col [p, q, r] = true := by
  simp only [col, Bool.or_eq_true, beq_iff_eq]; exact h
theorem col_false {p q r : Int} (h : ¬ (r % 2 = 0 ∨ (p + q) % 4 = 0)) : col [p, q, r] = false := by
  rw [Bool.eq_false_iff]; simp only [col, ne_eq, Bool.or_eq_true, beq_iff_eq]; exact h

/-- the horizontal face between the rows `y = 2i + 1` and `y = 2i + 3` at `x = 2m + 2`
    (`m ≡ i mod 2`), for an even `Lx`: its four qubits with their X component -/
theorem hface_rows (hF : Fam Lx Ly) (hpx : Lx % 2 = 0) {b : Op} (hb : CommStabs Lx Ly Lz b)
    {i m k : Nat} (hi : i + 1 < Ly) (hm : m < Lx) (hk : k < Lz) (hmi : m % 2 = i % 2) :
    (xH Lx Ly Lz b [2 * (m : Int) + 1, 2 * (i : Int) + 1, 2 * (k : Int) + 1]
      + xH Lx Ly Lz b [2 * ((wrapS Lx m : Nat) : Int) + 1, 2 * (i : Int) + 1, 2 * (k : Int) + 1]
      + (xH Lx Ly Lz b [2 * (m : Int) + 1, 2 * (i : Int) + 3, 2 * (k : Int) + 1]
      + xH Lx Ly Lz b [2 * ((wrapS Lx m : Nat) : Int) + 1, 2 * (i : Int) + 3, 2 * (k : Int) + 1]))
      % 2 = 0 := by
  have h := layer_even hF hb (x := 2 * (m : Int) + 2) (y := 2 * (i : Int) + 2)
    (z := 2 * (k : Int) + 1) (by unfold Ev; omega) (by unfold Ev; omega) (by unfold R1; omega)
  have e1 : sw Ly (2 * (i : Int) + 2) = 2 * (i : Int) + 3 := by
    have := sw_spec Ly (2 * (i : Int) + 2); omega
  rw [sw_idx hm, e1] at h
  have e2 : (2 * (m : Int) + 2 - 1) = 2 * (m : Int) + 1 := by omega
  have e3 : (2 * (i : Int) + 2 - 1) = 2 * (i : Int) + 1 := by omega
  rw [e2, e3] at h
  have v1 : hS Lx Ly Lz b true [2 * (m : Int) + 2, 2 * (i : Int) + 2, 2 * (k : Int) + 1 + 1] = 0 :=
    hS_of_not (by unfold QH QV R1 R2; omega)
  have v2 : hS Lx Ly Lz b true [2 * (m : Int) + 2, 2 * (i : Int) + 2, 2 * (k : Int) + 1 - 1] = 0 :=
    hS_of_not (by unfold QH QV R1 R2; omega)
  have hw : (2 * ((wrapS Lx m : Nat) : Int) + 1) % 4 = (2 * (m : Int) + 3) % 4 := by
    unfold wrapS; split <;> omega
  unfold xH
  rw [col_false (p := 2 * (m : Int) + 1) (q := 2 * (i : Int) + 1) (by omega),
    col_true (p := 2 * ((wrapS Lx m : Nat) : Int) + 1) (q := 2 * (i : Int) + 1) (by omega),
    col_true (p := 2 * (m : Int) + 1) (q := 2 * (i : Int) + 3) (by omega),
    col_false (p := 2 * ((wrapS Lx m : Nat) : Int) + 1) (q := 2 * (i : Int) + 3) (by omega)]
  simp only [Bool.not_true, Bool.not_false]
  omega

theorem xRow_step (hF : Fam Lx Ly) (hpx : Lx % 2 = 0) {b : Op} (hb : CommStabs Lx Ly Lz b)
    {i k : Nat} (hi : i + 1 < Ly) (hk : k < Lz) :
    (xRow Lx Ly Lz b (2 * (i : Int) + 1) (2 * (k : Int) + 1)
      + xRow Lx Ly Lz b (2 * (i : Int) + 3) (2 * (k : Int) + 1)) % 2 = 0 := by
  have hp := rsum_pairs_wrap (i % 2) Lx (Nat.mod_lt _ (by omega)) hpx (fun m =>
    xH Lx Ly Lz b [2 * (m : Int) + 1, 2 * (i : Int) + 1, 2 * (k : Int) + 1]
    + xH Lx Ly Lz b [2 * (m : Int) + 1, 2 * (i : Int) + 3, 2 * (k : Int) + 1])
  unfold xRow
  rw [← rsum_add, ← hp]
  apply rsum_even
  intro m hm
  by_cases hmi : m % 2 = i % 2
  · rw [if_pos hmi]
    have h := hface_rows hF hpx hb hi hm hk hmi
    omega
  · rw [if_neg hmi]

/-- the horizontal face between the columns `x = 2i + 1` and `x = 2i + 3` at `y = 2m + 2`
    (`m ≡ i mod 2`), for an even `Ly` -/
theorem hface_cols (hF : Fam Lx Ly) (hpy : Ly % 2 = 0) {b : Op} (hb : CommStabs Lx Ly Lz b)
    {i m k : Nat} (hi : i + 1 < Lx) (hm : m < Ly) (hk : k < Lz) (hmi : m % 2 = i % 2) :
    (xH Lx Ly Lz b [2 * (i : Int) + 1, 2 * (m : Int) + 1, 2 * (k : Int) + 1]
      + xH Lx Ly Lz b [2 * (i : Int) + 1, 2 * ((wrapS Ly m : Nat) : Int) + 1, 2 * (k : Int) + 1]
      + (xH Lx Ly Lz b [2 * (i : Int) + 3, 2 * (m : Int) + 1, 2 * (k : Int) + 1]
      + xH Lx Ly Lz b [2 * (i : Int) + 3, 2 * ((wrapS Ly m : Nat) : Int) + 1, 2 * (k : Int) + 1]))
      % 2 = 0 := by
  have h := layer_even hF hb (x := 2 * (i : Int) + 2) (y := 2 * (m : Int) + 2)
    (z := 2 * (k : Int) + 1) (by unfold Ev; omega) (by unfold Ev; omega) (by unfold R1; omega)
  have e1 : sw Lx (2 * (i : Int) + 2) = 2 * (i : Int) + 3 := by
    have := sw_spec Lx (2 * (i : Int) + 2); omega
  rw [sw_idx hm, e1] at h
  have e2 : (2 * (m : Int) + 2 - 1) = 2 * (m : Int) + 1 := by omega
  have e3 : (2 * (i : Int) + 2 - 1) = 2 * (i : Int) + 1 := by omega
  rw [e2, e3] at h
  have v1 : hS Lx Ly Lz b true [2 * (i : Int) + 2, 2 * (m : Int) + 2, 2 * (k : Int) + 1 + 1] = 0 :=
    hS_of_not (by unfold QH QV R1 R2; omega)
  have v2 : hS Lx Ly Lz b true [2 * (i : Int) + 2, 2 * (m : Int) + 2, 2 * (k : Int) + 1 - 1] = 0 :=
    hS_of_not (by unfold QH QV R1 R2; omega)
  have hw : (2 * ((wrapS Ly m : Nat) : Int) + 1) % 4 = (2 * (m : Int) + 3) % 4 := by
    unfold wrapS; split <;> omega
  unfold xH
  rw [col_false (p := 2 * (i : Int) + 1) (q := 2 * (m : Int) + 1) (by omega),
    col_true (p := 2 * (i : Int) + 1) (q := 2 * ((wrapS Ly m : Nat) : Int) + 1) (by omega),
    col_true (p := 2 * (i : Int) + 3) (q := 2 * (m : Int) + 1) (by omega),
    col_false (p := 2 * (i : Int) + 3) (q := 2 * ((wrapS Ly m : Nat) : Int) + 1) (by omega)]
  simp only [Bool.not_true, Bool.not_false]
  omega

theorem xCol_step (hF : Fam Lx Ly) (hpy : Ly % 2 = 0) {b : Op} (hb : CommStabs Lx Ly Lz b)
    {i k : Nat} (hi : i + 1 < Lx) (hk : k < Lz) :
    (xCol Lx Ly Lz b (2 * (i : Int) + 1) (2 * (k : Int) + 1)
      + xCol Lx Ly Lz b (2 * (i : Int) + 3) (2 * (k : Int) + 1)) % 2 = 0 := by
  have hp := rsum_pairs_wrap (i % 2) Ly (Nat.mod_lt _ (by omega)) hpy (fun m =>
    xH Lx Ly Lz b [2 * (i : Int) + 1, 2 * (m : Int) + 1, 2 * (k : Int) + 1]
    + xH Lx Ly Lz b [2 * (i : Int) + 3, 2 * (m : Int) + 1, 2 * (k : Int) + 1])
  unfold xCol
  rw [← rsum_add, ← hp]
  apply rsum_even
  intro m hm
  by_cases hmi : m % 2 = i % 2
  · rw [if_pos hmi]
    have h := hface_cols hF hpy hb hi hm hk hmi
    omega
  · rw [if_neg hmi]

/-! ### one layer up -/

theorem xRow_up (hF : Fam Lx Ly) (hpx : Lx % 2 = 0) {b : Op} (hb : CommStabs Lx Ly Lz b)
    {i k : Nat} (hi : i < Ly) (hrow : ¬ (Ly % 2 = 1 ∧ i = 0)) (hk : k + 1 < Lz) :
    (xRow Lx Ly Lz b (2 * (i : Int) + 1) (2 * (k : Int) + 1)
      + xRow Lx Ly Lz b (2 * (i : Int) + 1) (2 * (k : Int) + 3)) % 2 = 0 := by
  -- the vertical qubits next to the row, below (`pw g`) and above (`g + 1`) it, at `x = 2i' + 2`
  let D : Nat → Nat := fun i' =>
    hS Lx Ly Lz b false [2 * (i' : Int) + 2, pw Ly (2 * (i : Int) + 1), 2 * (k : Int) + 2]
    + hS Lx Ly Lz b false [2 * (i' : Int) + 2, 2 * (i : Int) + 1 + 1, 2 * (k : Int) + 2]
  have hE := rsum_even Lx (g := fun j => D (wrapP Lx j) + D j
      + xH Lx Ly Lz b [2 * (j : Int) + 1, 2 * (i : Int) + 1, 2 * (k : Int) + 1]
      + xH Lx Ly Lz b [2 * (j : Int) + 1, 2 * (i : Int) + 1, 2 * (k : Int) + 3]) (by
    intro j hj
    have hs : SF Lx Ly Lz (2 * (j : Int) + 1) (2 * (i : Int) + 1) (2 * (k : Int) + 2) := by
      refine ⟨by unfold R1; omega, by unfold R1; omega, by unfold R2; omega, ?_⟩
      unfold Dropped; omega
    have h := vface_even hF hb hs
    rw [pw_idx hj] at h
    have e1 : (2 * (j : Int) + 1 + 1) = 2 * (j : Int) + 2 := by omega
    have e2 : (2 * (k : Int) + 2 - 1) = 2 * (k : Int) + 1 := by omega
    have e3 : (2 * (k : Int) + 2 + 1) = 2 * (k : Int) + 3 := by omega
    rw [e1, e2, e3] at h
    show (_ + _ + (_ + _) + _ + _) % 2 = 0
    omega)
  rw [rsum_add, rsum_add, rsum_add, rsum_wrapP D Lx] at hE
  unfold xRow
  omega

theorem xCol_up (hF : Fam Lx Ly) (hpy : Ly % 2 = 0) {b : Op} (hb : CommStabs Lx Ly Lz b)
    {i k : Nat} (hi : i < Lx) (hcol : ¬ (Lx % 2 = 1 ∧ i = 0)) (hk : k + 1 < Lz) :
    (xCol Lx Ly Lz b (2 * (i : Int) + 1) (2 * (k : Int) + 1)
      + xCol Lx Ly Lz b (2 * (i : Int) + 1) (2 * (k : Int) + 3)) % 2 = 0 := by
  -- the vertical qubits next to the column, left (`pw f`) and right (`f + 1`) of it, at `y = 2i' + 2`
  let D : Nat → Nat := fun i' =>
    hS Lx Ly Lz b false [pw Lx (2 * (i : Int) + 1), 2 * (i' : Int) + 2, 2 * (k : Int) + 2]
    + hS Lx Ly Lz b false [2 * (i : Int) + 1 + 1, 2 * (i' : Int) + 2, 2 * (k : Int) + 2]
  have hE := rsum_even Ly (g := fun j => D (wrapP Ly j) + D j
      + xH Lx Ly Lz b [2 * (i : Int) + 1, 2 * (j : Int) + 1, 2 * (k : Int) + 1]
      + xH Lx Ly Lz b [2 * (i : Int) + 1, 2 * (j : Int) + 1, 2 * (k : Int) + 3]) (by
    intro j hj
    have hs : SF Lx Ly Lz (2 * (i : Int) + 1) (2 * (j : Int) + 1) (2 * (k : Int) + 2) := by
      refine ⟨by unfold R1; omega, by unfold R1; omega, by unfold R2; omega, ?_⟩
      unfold Dropped; omega
    have h := vface_even hF hb hs
    rw [pw_idx hj] at h
    have e1 : (2 * (j : Int) + 1 + 1) = 2 * (j : Int) + 2 := by omega
    have e2 : (2 * (k : Int) + 2 - 1) = 2 * (k : Int) + 1 := by omega
    have e3 : (2 * (k : Int) + 2 + 1) = 2 * (k : Int) + 3 := by omega
    rw [e1, e2, e3] at h
    show (_ + _ + (_ + _) + _ + _) % 2 = 0
    omega)
  rw [rsum_add, rsum_add, rsum_add, rsum_wrapP D Ly] at hE
  unfold xCol
  omega

end Panqec.RotatedToric3DCode
