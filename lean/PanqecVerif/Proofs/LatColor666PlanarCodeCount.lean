/-
Color666PlanarCode, all sizes `L ≥ 1`: counting.  The face list, the derived qubit list and the
bottom row are compared (same members, no duplicates ⇒ same length) with explicit column lists
whose lengths are sums over `i < L`:

  faces   = ⨆_{i<L} rising column `x = 3i+2` (⌊3i/2⌋+2 faces) ∪ falling column `x = 6L−1−3i`
            (⌊(3i+1)/2⌋+1 faces)                                  — 3(i+1) per step
  qubits  = {(0,0)} ∪ ⨆_{i<L} four columns                         — 6(i+1) per step
  bottom  = {(0,0)} ∪ ⨆_{i<L} {(6i+4, 0), (6i+6, 0)}

so `n = 3L² + 3L + 1 = 2·#faces + 1` and the logical operators have odd weight `2L + 1`.
Core Lean only.
-/
import PanqecVerif.Proofs.LatColor666PlanarCodeB

set_option linter.unusedVariables false

namespace Panqec.Color666PlanarCode
open Panqec.Lat2D Panqec.Color

/-- `cnt` sites `(x, r), (x, r+4), …` of one column -/
def col (x r : Int) (cnt : Nat) : List Coord :=
  (List.range cnt).map fun (m : Nat) => [x, r + 4 * (m : Int)]

theorem mem_col {x r : Int} {cnt : Nat} {q : Coord} :
    q ∈ col x r cnt ↔ ∃ m : Nat, m < cnt ∧ q = [x, r + 4 * (m : Int)] := by
  unfold col
  simp only [List.mem_map, List.mem_range]
  constructor
  · rintro ⟨m, hm, rfl⟩; exact ⟨m, hm, rfl⟩
  · rintro ⟨m, hm, rfl⟩; exact ⟨m, hm, rfl⟩

theorem length_col (x r : Int) (cnt : Nat) : (col x r cnt).length = cnt := by simp [col]

theorem nodup_col (x r : Int) (cnt : Nat) : (col x r cnt).Nodup := by
  unfold col
  show List.Pairwise _ _
  rw [List.pairwise_map]
  refine List.Pairwise.imp ?_ List.nodup_range
  intro a b hab e
  simp only [List.cons.injEq, and_true, true_and] at e
  exact hab (by omega)

/-- pairwise disjoint duplicate-free blocks indexed by `i < L` -/
theorem nodup_blocks (f : Nat → List Coord) (L : Nat) (h1 : ∀ i, (f i).Nodup)
    (h2 : ∀ i j, i < L → j < L → i ≠ j → ∀ q, q ∈ f i → q ∈ f j → False) :
    ((List.range L).flatMap f).Nodup := by
  show List.Pairwise _ _
  rw [List.pairwise_flatMap]
  refine ⟨fun i _ => h1 i, ?_⟩
  have : ∀ i ∈ List.range L, ∀ j ∈ List.range L, i ≠ j →
      ∀ q ∈ f i, ∀ r ∈ f j, q ≠ r := by
    intro i hi j hj hij q hq r hr e
    subst e
    exact h2 i j (List.mem_range.mp hi) (List.mem_range.mp hj) hij q hq hr
  exact List.Pairwise.imp_of_mem (fun {a b} ha hb hab => this a ha b hb hab) List.nodup_range

/-! ### faces -/

def parity0 (i : Nat) : Int := if i % 2 = 0 then 0 else 2
def parity2 (i : Nat) : Int := if i % 2 = 0 then 2 else 0

theorem parity0_cases (i : Nat) : (i % 2 = 0 ∧ parity0 i = 0) ∨ (i % 2 = 1 ∧ parity0 i = 2) := by
  unfold parity0; by_cases h : i % 2 = 0
  · left; simp [h]
  · right; exact ⟨by omega, by simp [h]⟩
theorem parity2_cases (i : Nat) : (i % 2 = 0 ∧ parity2 i = 2) ∨ (i % 2 = 1 ∧ parity2 i = 0) := by
  unfold parity2; by_cases h : i % 2 = 0
  · left; simp [h]
  · right; exact ⟨by omega, by simp [h]⟩

def faceBlock (L i : Nat) : List Coord :=
  col (3 * (i : Int) + 2) (parity0 i) (3 * i / 2 + 2) ++
  col (6 * (L : Int) - 1 - 3 * (i : Int)) (parity2 i) ((3 * i + 1) / 2 + 1)

def niceFaces (L : Nat) : List Coord := (List.range L).flatMap (faceBlock L)

theorem mem_faceBlock {L i : Nat} {q : Coord} :
    q ∈ faceBlock L i ↔ ∃ x y, q = [x, y] ∧
      ((x = 3 * (i : Int) + 2 ∧ ∃ m : Nat, m < 3 * i / 2 + 2 ∧ y = parity0 i + 4 * (m : Int)) ∨
       (x = 6 * (L : Int) - 1 - 3 * (i : Int) ∧
          ∃ m : Nat, m < (3 * i + 1) / 2 + 1 ∧ y = parity2 i + 4 * (m : Int))) := by
  unfold faceBlock
  rw [List.mem_append, mem_col, mem_col]
  constructor
  · rintro (⟨m, hm, rfl⟩ | ⟨m, hm, rfl⟩)
    · exact ⟨_, _, rfl, Or.inl ⟨rfl, m, hm, rfl⟩⟩
    · exact ⟨_, _, rfl, Or.inr ⟨rfl, m, hm, rfl⟩⟩
  · rintro ⟨x, y, rfl, ⟨rfl, m, hm, rfl⟩ | ⟨rfl, m, hm, rfl⟩⟩
    · exact Or.inl ⟨m, hm, rfl⟩
    · exact Or.inr ⟨m, hm, rfl⟩

theorem isF_of_faceBlock {L i : Nat} (hi : i < L) {x y : Int}
    (h : (x = 3 * (i : Int) + 2 ∧ ∃ m : Nat, m < 3 * i / 2 + 2 ∧ y = parity0 i + 4 * (m : Int)) ∨
       (x = 6 * (L : Int) - 1 - 3 * (i : Int) ∧
          ∃ m : Nat, m < (3 * i + 1) / 2 + 1 ∧ y = parity2 i + 4 * (m : Int))) : IsF L x y := by
  unfold IsF
  rcases h with ⟨rfl, m, hm, rfl⟩ | ⟨rfl, m, hm, rfl⟩
  · rcases parity0_cases i with ⟨hp, hq⟩ | ⟨hp, hq⟩ <;> rw [hq] <;> omega
  · rcases parity2_cases i with ⟨hp, hq⟩ | ⟨hp, hq⟩ <;> rw [hq] <;> omega

theorem faceBlock_of_isF {L : Nat} {x y : Int} (h : IsF L x y) :
    ∃ i, i < L ∧
      ((x = 3 * (i : Int) + 2 ∧ ∃ m : Nat, m < 3 * i / 2 + 2 ∧ y = parity0 i + 4 * (m : Int)) ∨
       (x = 6 * (L : Int) - 1 - 3 * (i : Int) ∧
          ∃ m : Nat, m < (3 * i + 1) / 2 + 1 ∧ y = parity2 i + 4 * (m : Int))) := by
  unfold IsF at h
  by_cases hr : x < 3 * (L : Int) + 2
  · -- rising column
    refine ⟨((x - 2) / 3).toNat, by omega, Or.inl ⟨by omega, (y / 4).toNat, ?_, ?_⟩⟩
    · omega
    · rcases parity0_cases ((x - 2) / 3).toNat with ⟨hp, hq⟩ | ⟨hp, hq⟩ <;> rw [hq] <;> omega
  · refine ⟨((6 * (L : Int) - 1 - x) / 3).toNat, by omega, Or.inr ⟨by omega, (y / 4).toNat, ?_, ?_⟩⟩
    · omega
    · rcases parity2_cases ((6 * (L : Int) - 1 - x) / 3).toNat with ⟨hp, hq⟩ | ⟨hp, hq⟩ <;>
        rw [hq] <;> omega

theorem mem_niceFaces {L : Nat} {q : Coord} : q ∈ niceFaces L ↔ q ∈ faces L := by
  unfold niceFaces
  rw [List.mem_flatMap, mem_faces]
  constructor
  · rintro ⟨i, hi, hq⟩
    obtain ⟨x, y, rfl, h⟩ := mem_faceBlock.mp hq
    exact ⟨x, y, rfl, isF_of_faceBlock (List.mem_range.mp hi) h⟩
  · rintro ⟨x, y, rfl, h⟩
    obtain ⟨i, hi, h'⟩ := faceBlock_of_isF h
    exact ⟨i, List.mem_range.mpr hi, mem_faceBlock.mpr ⟨x, y, rfl, h'⟩⟩

theorem nodup_faceBlock (L i : Nat) (hi : i < L) : (faceBlock L i).Nodup := by
  unfold faceBlock
  rw [List.nodup_append]
  refine ⟨nodup_col .., nodup_col .., ?_⟩
  intro a ha b hb e
  subst e
  obtain ⟨m, _, rfl⟩ := mem_col.mp ha
  obtain ⟨m', _, e⟩ := mem_col.mp hb
  simp only [List.cons.injEq, and_true] at e
  omega

theorem nodup_niceFaces (L : Nat) : (niceFaces L).Nodup := by
  unfold niceFaces
  show List.Pairwise _ _
  rw [List.pairwise_flatMap]
  constructor
  · intro i hi; exact nodup_faceBlock L i (List.mem_range.mp hi)
  · refine List.Pairwise.imp_of_mem ?_ List.nodup_range
    intro i j hi hj hij q hq r hr e
    subst e
    have hi' := List.mem_range.mp hi
    have hj' := List.mem_range.mp hj
    obtain ⟨x, y, rfl, h⟩ := mem_faceBlock.mp hq
    obtain ⟨x', y', e, h'⟩ := mem_faceBlock.mp hr
    simp only [List.cons.injEq, and_true] at e
    obtain ⟨rfl, rfl⟩ := e
    rcases h with ⟨h, _⟩ | ⟨h, _⟩ <;> rcases h' with ⟨h', _⟩ | ⟨h', _⟩ <;> omega

theorem length_faceBlock (L i : Nat) : (faceBlock L i).length = 3 * (i + 1) := by
  unfold faceBlock
  rw [List.length_append, length_col, length_col]
  omega

/-- `Σ_{i<L} 3(i+1)`, doubled -/
theorem sum_three : ∀ L, 2 * ((List.range L).map fun i => 3 * (i + 1)).sum = 3 * L * (L + 1)
  | 0 => rfl
  | L + 1 => by
    rw [List.range_succ, List.map_append, List.sum_append, Nat.mul_add, sum_three L]
    simp only [List.map_cons, List.map_nil, List.sum_cons, List.sum_nil]
    have e1 : 3 * L * (L + 1) = 3 * (L * L) + 3 * L := by
      rw [Nat.mul_assoc, Nat.mul_add, Nat.mul_add]; omega
    have e2 : 3 * (L + 1) * (L + 1 + 1) = 3 * (L * L) + 9 * L + 6 := by
      have : (L + 1) * (L + 1 + 1) = L * L + 3 * L + 2 := by
        rw [Nat.add_mul, Nat.mul_add, Nat.mul_add]; omega
      rw [Nat.mul_assoc, this]; omega
    omega

/-- the number of faces: `2·#faces = 3L(L+1)` -/
theorem length_faces (L : Nat) : 2 * (faces L).length = 3 * L * (L + 1) := by
  rw [← length_eq_of_mem_iff (nodup_niceFaces L) (nodup_faces L) (fun q => mem_niceFaces)]
  unfold niceFaces
  rw [length_flatMap_range _ _ (length_faceBlock L), sum_three]

theorem length_both (fs : List Coord) : (both fs).length = 2 * fs.length := by
  unfold both
  induction fs with
  | nil => rfl
  | cons a fs ih => simp only [List.flatMap_cons, List.length_append, ih, List.length_cons,
      List.length_nil]; omega

/-- `n_stabilizers = 3L(L+1)` -/
theorem length_stabs (L L' : Nat) : (stabs L L').length = 3 * L * (L + 1) := by
  unfold stabs
  rw [length_both, length_faces]

/-! ### the bottom row -/

def rowBlock (i : Nat) : List Coord := [[6 * (i : Int) + 4, 0], [6 * (i : Int) + 6, 0]]
def niceRow (L : Nat) : List Coord := [[0, 0]] ++ (List.range L).flatMap rowBlock

theorem mem_niceRow {L L' : Nat} (hL : 1 ≤ L) {q : Coord} : q ∈ niceRow L ↔ q ∈ kB L L' := by
  unfold niceRow rowBlock
  simp only [List.mem_append, List.mem_flatMap, List.mem_range, List.mem_cons,
    List.not_mem_nil, or_false]
  constructor
  · rintro (rfl | ⟨i, hi, rfl | rfl⟩) <;> rw [mem_kB hL] <;> unfold IsQ InT <;> omega
  · intro h
    obtain ⟨a, rfl⟩ := kB_shape h
    rw [mem_kB hL] at h
    unfold IsQ InT at h
    by_cases h0 : a = 0
    · left; rw [h0]
    · right
      by_cases h4 : a % 6 = 4
      · exact ⟨((a - 4) / 6).toNat, by omega, Or.inl (by simp only [List.cons.injEq, and_true]; omega)⟩
      · exact ⟨((a - 6) / 6).toNat, by omega, Or.inr (by simp only [List.cons.injEq, and_true]; omega)⟩

theorem nodup_niceRow (L : Nat) : (niceRow L).Nodup := by
  unfold niceRow
  rw [List.nodup_append]
  refine ⟨by simp, ?_, ?_⟩
  · apply nodup_blocks
    · intro i; unfold rowBlock
      simp only [List.nodup_cons, List.mem_cons, List.cons.injEq, and_true, List.not_mem_nil,
        or_false, not_false_eq_true, List.nodup_nil]
      omega
    · intro i j _ _ hij q hq hr
      unfold rowBlock at hq hr
      simp only [List.mem_cons, List.not_mem_nil, or_false] at hq hr
      rcases hq with rfl | rfl <;> rcases hr with e | e <;>
        simp only [List.cons.injEq, and_true] at e <;> omega
  · intro a ha b hb e
    subst e
    simp only [List.mem_singleton] at ha
    subst ha
    simp only [List.mem_flatMap, List.mem_range] at hb
    obtain ⟨i, _, hb⟩ := hb
    unfold rowBlock at hb
    simp only [List.mem_cons, List.not_mem_nil, or_false, List.cons.injEq, and_true] at hb
    omega

theorem sum_const (c : Nat) : ∀ L, ((List.range L).map fun _ => c).sum = c * L
  | 0 => rfl
  | L + 1 => by
    rw [List.range_succ, List.map_append, List.sum_append, sum_const c L]
    simp [Nat.mul_add]

/-- the logical operators have weight `2L + 1` -/
theorem length_kB {L L' : Nat} (hL : 1 ≤ L) : (kB L L').length = 2 * L + 1 := by
  rw [← length_eq_of_mem_iff (nodup_niceRow L) (nodup_kB L L') (fun q => mem_niceRow hL)]
  unfold niceRow
  rw [List.length_append, length_flatMap_range rowBlock (fun _ => 2) (fun i => rfl), sum_const]
  simp only [List.length_cons, List.length_nil]; omega

end Panqec.Color666PlanarCode
