/-
`Servable` for `HollowRhombicCode`, `Color3DCode`, `Color488Code`, `Color666PlanarCode`, all sizes of
their families (the 2-D colour codes with a square size parameter where the class only builds a code
for square sizes).
-/
import PanqecVerif.Proofs.GuiReprLat3Db
import PanqecVerif.Properties.C01HollowRhombicCode
import PanqecVerif.Properties.C01Color3DCode
import PanqecVerif.Properties.C01Color488Code
import PanqecVerif.Properties.C01Color666PlanarCode

namespace Panqec.GuiRepr
open Panqec.Gui

/-! ### the overrides are simple assignments -/

theorem all_ite {c : Prop} [Decidable c] {a b : List Edit} (ha : a.all Edit.simple = true)
    (hb : b.all Edit.simple = true) : (if c then a else b).all Edit.simple = true := by
  split <;> assumption

theorem all_app {a b : List Edit} (ha : a.all Edit.simple = true) (hb : b.all Edit.simple = true) :
    (a ++ b).all Edit.simple = true := by
  rw [List.all_append, ha, hb]; rfl

macro "edits_simple" : tactic =>
  `(tactic| repeat' (first | (simp [Edit.simple]; done) | apply all_ite | apply all_app | split))

theorem hollowRhombicStabEdits_simple (Lx Ly Lz : Nat) (w : Coord → Nat) (rot : Bool) (s : Coord) (t : String) :
    (hollowRhombicStabEdits Lx Ly Lz w rot s t).all Edit.simple = true := by
  unfold hollowRhombicStabEdits
  edits_simple

theorem color3DStabEdits_simple (rot : Bool) (s : Coord) (t : String) :
    (color3DStabEdits rot s t).all Edit.simple = true := by
  unfold color3DStabEdits
  edits_simple

theorem color666PlanarStabEdits_simple (Lx : Nat) (rot : Bool) (s : Coord) (t : String) :
    (color666PlanarStabEdits Lx rot s t).all Edit.simple = true := by
  unfold color666PlanarStabEdits
  edits_simple

theorem color488StabEdits_simple (Lx Ly : Nat) (rot : Bool) (s : Coord) (t : String) :
    (color488StabEdits Lx Ly rot s t).all Edit.simple = true := by
  unfold color488StabEdits
  edits_simple

/-! ### tables -/

def color3DTypes : List String :=
  ["cell-blue", "cell-green", "cell-red", "cell-yellow", "face-hex", "face-square"]
def color488Types : List String :=
  ["octahedron-blue-x", "octahedron-blue-z", "octahedron-green-x", "octahedron-green-z", "square-red-x",
   "square-red-z"]
def color666Types : List String :=
  ["face-blue-x", "face-blue-z", "face-green-x", "face-green-z", "face-red-x", "face-red-z"]

theorem hollowRhombic_tables :
    classTablesOk Generated.GuiFull.tables "HollowRhombicCode" rhombicTypes = true := by decide +kernel
theorem color3D_tables :
    classTablesOk Generated.GuiFull.tables "Color3DCode" color3DTypes = true := by decide +kernel
theorem color488_tables :
    classTablesOk Generated.GuiFull.tables "Color488Code" color488Types = true := by decide +kernel
theorem color666Planar_tables :
    classTablesOk Generated.GuiFull.tables "Color666PlanarCode" color666Types = true := by decide +kernel

/-! ### classes -/

theorem hollowRhombic_servable (Lx Ly Lz : Nat) (h : C01HollowRhombicCode.Family Lx Ly Lz) (name : String)
    (hn : name = "None" ∨ name = "Checkerboard XZZX") :
    Servable (hollowRhombic Lx Ly Lz) Generated.GuiFull.tables rhombicTypes name where
  wf := C01HollowRhombicCode.wf Lx Ly Lz h
  tables := hollowRhombic_tables
  stab_types := by
    intro s _
    refine ⟨HollowRhombicCode.stabilizerType s, ?_, rfl⟩
    unfold HollowRhombicCode.stabilizerType
    split <;> decide
  qubit_axes := by
    intro q hq
    have hq' : q ∈ HollowRhombicCode.qubits Lx Ly Lz := hq
    obtain ⟨x, y, z, rfl⟩ := HollowRhombicCode.shape_of_mem_qubits hq'
    have := C01HollowRhombicCode.qubitAxis_rule Lx Ly Lz x y z hq
    exact ⟨_, by show (HollowRhombicCode.qubitAxis [x, y, z]).map (·.toString) = _; rw [this]; rfl⟩
  stab_edits := hollowRhombicStabEdits_simple Lx Ly Lz _
  qubit_edits := noEdits_simple
  deformation := by
    rcases hn with h | h
    · exact Or.inl h
    · right
      intro q hq
      show (ofDeformResult (HollowRhombicCode.getDeformation name q)).isSome = true
      rw [h]
      rcases C01HollowRhombicCode.deformation_rule_on_qubits Lx Ly Lz q hq with e | e <;> rw [e] <;> rfl

theorem color3DType_mem (x y z : Int) : (Color3DCode.typeOf x y z).toString ∈ color3DTypes := by
  have := C01Color3DCode.stabilizerType_total x y z
  cases h : Color3DCode.typeOf x y z <;> first | decide | exact absurd h this

/-- `Color3DCode` offers no deformation -/
theorem color3D_servable (Lx Ly Lz : Nat) (h : C01Color3DCode.Family Lx Ly Lz) :
    Servable (color3D Lx Ly Lz) Generated.GuiFull.tables color3DTypes "None" where
  wf := C01Color3DCode.wf Lx Ly Lz h
  tables := color3D_tables
  stab_types := by
    intro s hs
    have hs' : s ∈ Color3DCode.stabs Lx Ly Lz := hs
    obtain ⟨x, y, z, rfl, _⟩ := Color3DCode.mem_stabs.mp hs'
    refine ⟨_, color3DType_mem x y z, ?_⟩
    show (Color3DCode.stabilizerType Lx Ly Lz [x, y, z]).map (·.toString) = _
    unfold Color3DCode.stabilizerType Color3DCode.stabilizerTypeIn
    have hin : Lat2D.isIn (Color3DCode.stabs Lx Ly Lz) [x, y, z] = true := List.contains_iff_mem.mpr hs'
    simp only [hin, Bool.not_true, Bool.false_eq_true, if_false, Option.map_some]
  qubit_axes := by
    intro q hq
    have hq' : q ∈ Color3DCode.qubits Lx Ly Lz := hq
    obtain ⟨a, b, c, rfl, _⟩ := (Color3DCode.mem_qubits h.1.1 h.2.1.1 h.2.2.1).mp hq'
    exact ⟨"x", rfl⟩
  stab_edits := color3DStabEdits_simple
  qubit_edits := noEdits_simple
  deformation := Or.inl rfl

theorem color488_servable (L : Nat) (hL : 1 ≤ L) (name : String) (hn : name = "None" ∨ name = "XXZZ") :
    Servable (color488 L L) Generated.GuiFull.tables color488Types name where
  wf := C01Color488Code.wf L L hL hL
  tables := color488_tables
  stab_types := by
    intro s hs
    have hs' : s ∈ Color488Code.stabs L L := hs
    obtain ⟨x, y, p, rfl, _, hp⟩ := Color488Code.mem_stabs.mp hs'
    have hin : Lat2D.isIn (Color488Code.stabs L L) [x, y, p] = true := List.contains_iff_mem.mpr hs'
    show ∃ t ∈ color488Types, Color488Code.stabilizerType L L [x, y, p] = some t
    unfold Color488Code.stabilizerType Color488Code.stabilizerTypeIn
    simp only [hin, Bool.not_true, Bool.false_eq_true, if_false]
    refine ⟨_, ?_, rfl⟩
    rcases hp with rfl | rfl <;> (repeat' split) <;> first | decide | omega
  qubit_axes := by
    intro q hq
    have hq' : q ∈ Color488Code.qubits L L := hq
    obtain ⟨a, b, rfl, _⟩ := (Color488Code.mem_qubits hL hL).mp hq'
    exact ⟨"x", rfl⟩
  stab_edits := color488StabEdits_simple L L
  qubit_edits := noEdits_simple
  deformation := by
    rcases hn with h | h
    · exact Or.inl h
    · right
      intro q hq
      show (ofDeformResult (Color488Code.getDeformation name q)).isSome = true
      rw [h]
      obtain ⟨x, y, rfl, e | e⟩ := C01Color488Code.deformation_rule_on_qubits L L hL hL q hq <;> rw [e.2] <;> rfl

/-- `Color666PlanarCode` offers no deformation (and ignores `Ly`) -/
theorem color666Planar_servable (Lx Ly : Nat) (hx : 1 ≤ Lx) :
    Servable (color666Planar Lx Ly) Generated.GuiFull.tables color666Types "None" where
  wf := C01Color666PlanarCode.wf Lx Ly hx
  tables := color666Planar_tables
  stab_types := by
    intro s hs
    have hs' : s ∈ Color666PlanarCode.stabs Lx Ly := hs
    obtain ⟨x, y, p, rfl, _, hp⟩ := Color666PlanarCode.mem_stabs.mp hs'
    have hin : Color666PlanarCode.isStabilizer Lx Ly [x, y, p] = true := List.contains_iff_mem.mpr hs'
    show ∃ t ∈ color666Types, Color666PlanarCode.stabilizerType Lx Ly [x, y, p] = some t
    unfold Color666PlanarCode.stabilizerType
    simp only [hin, Bool.not_true, Bool.false_eq_true, if_false]
    refine ⟨_, ?_, rfl⟩
    rcases hp with rfl | rfl <;> (repeat' split) <;> first | decide | omega
  qubit_axes := by
    intro q hq
    have hq' : q ∈ Color666PlanarCode.qubits Lx Ly := hq
    obtain ⟨a, b, rfl, _⟩ := (Color666PlanarCode.mem_qubits hx).mp hq'
    exact ⟨"x", rfl⟩
  stab_edits := color666PlanarStabEdits_simple Lx
  qubit_edits := noEdits_simple
  deformation := Or.inl rfl

end Panqec.GuiRepr
