/-
Helper lemmas (C16, window model): list minimum / maximum, `eraseDups`, insertion sorts by a key,
`getLast?` of a filter.
-/
import PanqecVerif.Model.AnalysisWindow
import PanqecVerif.Proofs.AnalysisFss
import Mathlib.Data.List.Perm.Basic
import Mathlib.Data.List.Nodup

namespace Panqec.An

/-! ### `eraseDups` -/

theorem nodup_eraseDups {α : Type} [BEq α] [LawfulBEq α] : ∀ (n : Nat) (l : List α), l.length ≤ n → l.eraseDups.Nodup
  | 0, l, h => by
    have : l = [] := List.length_eq_zero_iff.mp (Nat.le_zero.mp h)
    subst this; simp
  | n + 1, [], _ => by simp
  | n + 1, a :: as, h => by
    rw [List.eraseDups_cons, List.nodup_cons]
    refine ⟨?_, nodup_eraseDups n _ ?_⟩
    · rw [List.mem_eraseDups]
      simp
    · exact le_trans (List.length_filter_le _ _) (Nat.le_of_succ_le_succ h)

theorem eraseDups_nodup {α : Type} [BEq α] [LawfulBEq α] (l : List α) : l.eraseDups.Nodup :=
  nodup_eraseDups l.length l le_rfl

theorem eraseDups_perm {α : Type} [BEq α] [LawfulBEq α] {a b : List α} (h : a.Perm b) :
    a.eraseDups.Perm b.eraseDups := by
  rw [List.perm_ext_iff_of_nodup (eraseDups_nodup a) (eraseDups_nodup b)]
  intro x
  simp [h.mem_iff]

theorem eraseDups_eq_nil {α : Type} [BEq α] [LawfulBEq α] {l : List α} : l.eraseDups = [] ↔ l = [] := by
  cases l with
  | nil => simp
  | cons a as => simp [List.eraseDups_cons]

theorem eraseDups_eq_self {α : Type} [BEq α] [LawfulBEq α] : ∀ {l : List α}, l.Nodup → l.eraseDups = l
  | [], _ => rfl
  | a :: as, h => by
    rw [List.nodup_cons] at h
    rw [List.eraseDups_cons]
    have : as.filter (fun b => !b == a) = as := by
      rw [List.filter_eq_self]
      intro b hb
      have : b ≠ a := fun e => h.1 (e ▸ hb)
      simp [this]
    rw [this, eraseDups_eq_self h.2]

theorem eraseDups_length_eq_iff {α : Type} [BEq α] [LawfulBEq α] :
    ∀ (l : List α), l.eraseDups.length = l.length ↔ l.Nodup
  | [] => by simp
  | a :: as => by
    rw [List.eraseDups_cons, List.nodup_cons, List.length_cons, List.length_cons, Nat.add_right_cancel_iff]
    have hle : (as.filter fun b => !b == a).eraseDups.length ≤ (as.filter fun b => !b == a).length :=
      (List.subperm_of_subset (eraseDups_nodup _) (fun x hx => List.mem_eraseDups.mp hx)).length_le
    have hfl : (as.filter fun b => !b == a).length ≤ as.length := List.length_filter_le _ _
    constructor
    · intro h
      have h1 : (as.filter fun b => !b == a).length = as.length := by omega
      have h2 : (as.filter fun b => !b == a).eraseDups.length = (as.filter fun b => !b == a).length := by omega
      have hf : as.filter (fun b => !b == a) = as := by
        exact List.filter_eq_self.mpr (by
          have := List.length_filter_eq_length_iff.mp h1
          exact this)
      rw [hf] at h2
      refine ⟨?_, (eraseDups_length_eq_iff as).mp h2⟩
      intro hmem
      have := List.filter_eq_self.mp hf a hmem
      simp at this
    · rintro ⟨hna, hnd⟩
      have hf : as.filter (fun b => !b == a) = as := by
        rw [List.filter_eq_self]
        intro b hb
        have : b ≠ a := fun e => hna (e ▸ hb)
        simp [this]
      rw [hf]
      exact (eraseDups_length_eq_iff as).mpr hnd

/-! ### minimum and maximum of a list of rationals -/

theorem foldl_min_spec (xs : List Rat) : ∀ m : Rat,
    xs.foldl min m ≤ m ∧ (∀ x ∈ xs, xs.foldl min m ≤ x) ∧ (xs.foldl min m = m ∨ xs.foldl min m ∈ xs) := by
  induction xs with
  | nil => intro m; simp
  | cons x xs ih =>
    intro m
    obtain ⟨h1, h2, h3⟩ := ih (min m x)
    simp only [List.foldl_cons]
    refine ⟨le_trans h1 (min_le_left _ _), ?_, ?_⟩
    · intro y hy
      rcases List.mem_cons.mp hy with rfl | hy
      · exact le_trans h1 (min_le_right _ _)
      · exact h2 y hy
    · rcases h3 with h3 | h3
      · rcases min_choice m x with hm | hm
        · left; rw [h3, hm]
        · right; rw [h3, hm]; exact List.mem_cons_self
      · right; exact List.mem_cons_of_mem _ h3

theorem foldl_max_spec (xs : List Rat) : ∀ m : Rat,
    m ≤ xs.foldl max m ∧ (∀ x ∈ xs, x ≤ xs.foldl max m) ∧ (xs.foldl max m = m ∨ xs.foldl max m ∈ xs) := by
  induction xs with
  | nil => intro m; simp
  | cons x xs ih =>
    intro m
    obtain ⟨h1, h2, h3⟩ := ih (max m x)
    simp only [List.foldl_cons]
    refine ⟨le_trans (le_max_left _ _) h1, ?_, ?_⟩
    · intro y hy
      rcases List.mem_cons.mp hy with rfl | hy
      · exact le_trans (le_max_right _ _) h1
      · exact h2 y hy
    · rcases h3 with h3 | h3
      · rcases max_choice m x with hm | hm
        · left; rw [h3, hm]
        · right; rw [h3, hm]; exact List.mem_cons_self
      · right; exact List.mem_cons_of_mem _ h3

theorem minList_spec {xs : List Rat} {m : Rat} (h : minList xs = some m) : m ∈ xs ∧ ∀ x ∈ xs, m ≤ x := by
  cases xs with
  | nil => cases h
  | cons x xs =>
    simp only [minList, Option.some.injEq] at h
    subst h
    obtain ⟨h1, h2, h3⟩ := foldl_min_spec xs x
    refine ⟨?_, ?_⟩
    · rcases h3 with h3 | h3
      · rw [h3]; exact List.mem_cons_self
      · exact List.mem_cons_of_mem _ h3
    · intro y hy
      rcases List.mem_cons.mp hy with rfl | hy
      · exact h1
      · exact h2 y hy

theorem maxList_spec {xs : List Rat} {m : Rat} (h : maxList xs = some m) : m ∈ xs ∧ ∀ x ∈ xs, x ≤ m := by
  cases xs with
  | nil => cases h
  | cons x xs =>
    simp only [maxList, Option.some.injEq] at h
    subst h
    obtain ⟨h1, h2, h3⟩ := foldl_max_spec xs x
    refine ⟨?_, ?_⟩
    · rcases h3 with h3 | h3
      · rw [h3]; exact List.mem_cons_self
      · exact List.mem_cons_of_mem _ h3
    · intro y hy
      rcases List.mem_cons.mp hy with rfl | hy
      · exact h1
      · exact h2 y hy

theorem minList_isSome {xs : List Rat} (h : xs ≠ []) : ∃ m, minList xs = some m := by
  cases xs with
  | nil => exact absurd rfl h
  | cons x xs => exact ⟨_, rfl⟩

theorem maxList_isSome {xs : List Rat} (h : xs ≠ []) : ∃ m, maxList xs = some m := by
  cases xs with
  | nil => exact absurd rfl h
  | cons x xs => exact ⟨_, rfl⟩

theorem minList_eq_none {xs : List Rat} : minList xs = none ↔ xs = [] := by
  cases xs <;> simp [minList]

theorem maxList_eq_none {xs : List Rat} : maxList xs = none ↔ xs = [] := by
  cases xs <;> simp [maxList]

/-- the minimum is determined by membership and the lower-bound property -/
theorem minList_unique {xs : List Rat} {m : Rat} (hm : m ∈ xs) (hle : ∀ x ∈ xs, m ≤ x) : minList xs = some m := by
  obtain ⟨m', h'⟩ := minList_isSome (List.ne_nil_of_mem hm)
  obtain ⟨h1, h2⟩ := minList_spec h'
  rw [h', le_antisymm (h2 m hm) (hle m' h1)]

theorem maxList_unique {xs : List Rat} {m : Rat} (hm : m ∈ xs) (hle : ∀ x ∈ xs, x ≤ m) : maxList xs = some m := by
  obtain ⟨m', h'⟩ := maxList_isSome (List.ne_nil_of_mem hm)
  obtain ⟨h1, h2⟩ := maxList_spec h'
  rw [h', le_antisymm (hle m' h1) (h2 m hm)]

theorem minList_perm {a b : List Rat} (h : a.Perm b) : minList a = minList b := by
  cases ha : minList a with
  | none =>
    rw [minList_eq_none] at ha
    subst ha
    rw [List.nil_perm.mp h]; rfl
  | some m =>
    obtain ⟨h1, h2⟩ := minList_spec ha
    exact (minList_unique (h.mem_iff.mp h1) fun x hx => h2 x (h.mem_iff.mpr hx)).symm

theorem maxList_perm {a b : List Rat} (h : a.Perm b) : maxList a = maxList b := by
  cases ha : maxList a with
  | none =>
    rw [maxList_eq_none] at ha
    subst ha
    rw [List.nil_perm.mp h]; rfl
  | some m =>
    obtain ⟨h1, h2⟩ := maxList_spec ha
    exact (maxList_unique (h.mem_iff.mp h1) fun x hx => h2 x (h.mem_iff.mpr hx)).symm

/-! ### `sortRat` -/

theorem mem_sortRat {l : List Rat} {x : Rat} : x ∈ sortRat l ↔ x ∈ l := (sortRat_perm l).mem_iff

theorem sortRat_head_le {l : List Rat} {x : Rat} {xs : List Rat} (h : sortRat l = x :: xs) :
    x ∈ l ∧ ∀ y ∈ l, x ≤ y := by
  have hp := sortRat_pairwise l
  rw [h] at hp
  refine ⟨mem_sortRat.mp (h ▸ List.mem_cons_self), ?_⟩
  intro y hy
  have : y ∈ x :: xs := h ▸ mem_sortRat.mpr hy
  rcases List.mem_cons.mp this with rfl | hy'
  · exact le_rfl
  · exact (List.pairwise_cons.mp hp).1 y hy'

theorem sortRat_eq_nil {l : List Rat} : sortRat l = [] ↔ l = [] := by
  constructor
  · intro h
    have := (sortRat_perm l).length_eq
    rw [h] at this
    exact List.length_eq_zero_iff.mp this.symm
  · rintro rfl; rfl

end Panqec.An
