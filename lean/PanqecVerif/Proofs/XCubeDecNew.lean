/-
What `XCubeMatchingDecoder.__init__` builds (`XCubeDec.new`): the attributes the theorems need.
Core Lean only.
-/
import PanqecVerif.Model.XCubeDecoder

namespace Panqec.XCube

open Panqec

variable {W : Type}

/-- the object `__init__` returns: sizes, coordinate lists, matrix, the BP-OSD decoder on the same
    matrix and number of qubits, the three toric codes -/
theorem new_ok_fields (logOdds : Rat → W) (Lx Ly Lz : Nat) (ax : Option String) (px py pz : List Rat)
    (cfg : BpCfg) (d : XCubeDec W) (h : XCubeDec.new logOdds Lx Ly Lz ax px py pz cfg = .ok d) :
    d.Lx = Lx ∧ d.Ly = Ly ∧ d.Lz = Lz ∧
    d.qubits = XCubeCode.qubits Lx Ly Lz ∧ d.stabs = XCubeCode.stabs Lx Ly Lz ∧
    d.H = (stabilizerMatrix (codeData Lx Ly Lz ax)).getD [] ∧
    d.zdec.H = d.H ∧ d.zdec.n = d.n ∧ d.zdec.px = px ∧ d.zdec.py = py ∧ d.zdec.pz = pz ∧
    d.toric = ⟨toricView Ly Lz, toricView Lx Lz, toricView Lx Ly⟩ ∧
    d.planeSizes = planeSizesOf Lx Ly Lz := by
  unfold XCubeDec.new at h
  simp only at h
  repeat' split at h
  all_goals first | cases h | skip
  all_goals
    cases ax <;>
    simp [XCubeDec.n, codeData, CodeData.deform, Lattice.toCodeData, XCubeCode.lattice]

end Panqec.XCube
