/-
Operator-level commutation of a lattice model ⇒ the list-level clauses of C01.

`Proofs/OpCommCore.lean` (core Lean) shows that the symplectic product of the BSF rows the
generic code assembles from two dict operators is the parity of `opAntiCount`.  Here this is
lifted to a whole `Lattice`: if the coordinate system is well formed (`Lattice.WF`) and the
operators commute / pair at the dict level (`Lattice.CommPair`), then `stabilizer_matrix`,
`logicals_x`, `logicals_z` are assembled without `KeyError`, the rows are well-formed binary
BSF vectors and every clause of `CommPairL` holds; with the rank clause this is `ValidCodeL`.

All-sizes lattice theorems therefore only have to establish `Lattice.WF`, `Lattice.CommPair`
(statements about dicts and coordinates) and the rank.
-/
import PanqecVerif.Proofs.OpCommCore
import PanqecVerif.Proofs.CodeAlgebra

namespace Panqec

theorem mapM_eq_some_map_of_forall {α β} (f : α → Option β) (g : α → β) : ∀ l : List α,
    (∀ x ∈ l, f x = some (g x)) → l.mapM f = some (l.map g)
  | [], _ => rfl
  | a :: l, h => by
    rw [List.mapM_cons, h a (by simp),
      mapM_eq_some_map_of_forall f g l (fun x hx => h x (by simp [hx]))]
    rfl

/-- a list of operators each of which is a dict supported on the qubits -/
def DictsOn (qs : List Coord) (L : List Op) : Prop :=
  ∀ a ∈ L, KeysNodup a ∧ opSupported qs a = true

theorem wfRows_map_opRow (qs : List Coord) (L : List Op) :
    WFRows qs.length (L.map (opRow qs)) := by
  intro r hr
  obtain ⟨op, _, rfl⟩ := List.mem_map.mp hr
  exact ⟨opRow_length qs op, opRow_binary qs op⟩

theorem mapM_toBsf_eq (qs : List Coord) (L : List Op) (hL : DictsOn qs L) :
    L.mapM (toBsf qs) = some (L.map (opRow qs)) :=
  mapM_eq_some_map_of_forall _ _ L (fun a ha => toBsf_eq_opRow qs a (hL a ha).1 (hL a ha).2)

theorem mapM_stabRow_eq (qs : List Coord) (L : List Op) (hL : DictsOn qs L) :
    L.mapM (stabRow qs) = some (L.map (opRow qs)) :=
  mapM_eq_some_map_of_forall _ _ L (fun a ha => stabRow_eq_opRow qs a (hL a ha).1 (hL a ha).2)

/-- rows of dict-level commuting operators have vanishing symplectic product -/
theorem symp_rows_zero (qs : List Coord) (hnd : qs.Nodup) (A B : List Op) (hA : DictsOn qs A)
    (h : ∀ a ∈ A, ∀ b ∈ B, opCommute a b = true) :
    ∀ x ∈ A.map (opRow qs), ∀ y ∈ B.map (opRow qs), symp x y = 0 := by
  intro x hx y hy
  obtain ⟨a, ha, rfl⟩ := List.mem_map.mp hx
  obtain ⟨b, hb, rfl⟩ := List.mem_map.mp hy
  rw [symp_opRow qs hnd a b (hA a ha).1 (hA a ha).2]
  exact (opCommute_iff a b).mp (h a ha b hb)

theorem getD_map_opRow (qs : List Coord) (L : List Op) (i : Nat) (hi : i < L.length) :
    (L.map (opRow qs)).getD i [] = opRow qs (L.getD i []) := by
  simp [List.getD_eq_getElem?_getD, hi]

theorem getD_mem' {α} (L : List α) (d : α) (i : Nat) (hi : i < L.length) : L.getD i d ∈ L := by
  rw [getD_eq_getElem' L d hi]
  exact List.getElem_mem hi

namespace Lattice

variable (l : Lattice)

/-- the parity-check matrix the generic code assembles for the lattice -/
def rowsH : List (List Nat) := (l.stabs.map l.getStab).map (opRow l.qubits)
/-- the logical-operator stacks the generic code assembles for the lattice -/
def rowsX : List (List Nat) := l.logX.map (opRow l.qubits)
def rowsZ : List (List Nat) := l.logZ.map (opRow l.qubits)

variable {l}

theorem WF.opSupported_of {op : Op} {qs : List Coord} (h : ∀ e ∈ op, e.1 ∈ qs ∧ e.2 ≠ Pauli.I) :
    opSupported qs op = true := by
  unfold opSupported
  rw [List.all_eq_true]
  intro e he
  rw [List.contains_iff_mem]
  exact (h e he).1

theorem WF.stabs_dicts (hwf : l.WF) : DictsOn l.qubits (l.stabs.map l.getStab) := by
  intro a ha
  obtain ⟨s, hs, rfl⟩ := List.mem_map.mp ha
  exact ⟨hwf.stab_keys s hs, WF.opSupported_of (hwf.stab_supported s hs)⟩

theorem WF.logX_dicts (hwf : l.WF) : DictsOn l.qubits l.logX := fun a ha =>
  ⟨hwf.log_keys a (List.mem_append_left _ ha),
    WF.opSupported_of (hwf.log_supported a (List.mem_append_left _ ha))⟩

theorem WF.logZ_dicts (hwf : l.WF) : DictsOn l.qubits l.logZ := fun a ha =>
  ⟨hwf.log_keys a (List.mem_append_right _ ha),
    WF.opSupported_of (hwf.log_supported a (List.mem_append_right _ ha))⟩

/-- `stabilizer_matrix` is assembled without `KeyError` -/
theorem stabilizerMatrix_eq (hwf : l.WF) : stabilizerMatrix l.toCodeData = some l.rowsH :=
  mapM_stabRow_eq l.qubits _ hwf.stabs_dicts

theorem logicalsX_eq (hwf : l.WF) : logicalsX l.toCodeData = some l.rowsX :=
  mapM_toBsf_eq l.qubits _ hwf.logX_dicts

theorem logicalsZ_eq (hwf : l.WF) : logicalsZ l.toCodeData = some l.rowsZ :=
  mapM_toBsf_eq l.qubits _ hwf.logZ_dicts

/-- every clause of `CommPairL` for the assembled matrices -/
theorem commPairL_rows (hwf : l.WF) (hc : l.CommPair) :
    CommPairL l.qubits.length l.logX.length l.rowsH l.rowsX l.rowsZ where
  wfH := wfRows_map_opRow _ _
  wfX := wfRows_map_opRow _ _
  wfZ := wfRows_map_opRow _ _
  kX := by simp [rowsX]
  kZ := by simp [rowsZ, hc.same_k]
  stab_comm := symp_rows_zero l.qubits hwf.qubits_nodup _ _ hwf.stabs_dicts (by
    intro a ha b hb
    obtain ⟨s, hs, rfl⟩ := List.mem_map.mp ha
    obtain ⟨t, ht, rfl⟩ := List.mem_map.mp hb
    exact hc.stab_comm s hs t ht)
  logX_comm := symp_rows_zero l.qubits hwf.qubits_nodup _ _ hwf.logX_dicts (by
    intro a ha b hb
    obtain ⟨t, ht, rfl⟩ := List.mem_map.mp hb
    exact hc.logX_comm a ha t ht)
  logZ_comm := symp_rows_zero l.qubits hwf.qubits_nodup _ _ hwf.logZ_dicts (by
    intro a ha b hb
    obtain ⟨t, ht, rfl⟩ := List.mem_map.mp hb
    exact hc.logZ_comm a ha t ht)
  pairing := by
    intro i j hi hj
    have hj' : j < l.logZ.length := hc.same_k ▸ hj
    have hm := hwf.logX_dicts _ (getD_mem' l.logX [] i hi)
    unfold rowsX rowsZ
    rw [getD_map_opRow _ _ i hi, getD_map_opRow _ _ j hj',
      symp_opRow l.qubits hwf.qubits_nodup _ _ hm.1 hm.2]
    exact hc.pairing i j hi hj'
  logXX := symp_rows_zero l.qubits hwf.qubits_nodup _ _ hwf.logX_dicts hc.logXX
  logZZ := symp_rows_zero l.qubits hwf.qubits_nodup _ _ hwf.logZ_dicts hc.logZZ

end Lattice

/-- **Main theorem.**  For a lattice with a well-formed coordinate system whose operators
    commute and pair at the dict level, the three matrices are assembled (no `KeyError`),
    are well-formed binary stacks of length `2n`, and satisfy every commutation and pairing
    clause of C01 (`CommPairL`; `k ≤ n` and the rank bound `rank H ≤ n - k` then follow, see
    `CommPairL.k_le`, `hasRank_le_of_commute_pairing`). -/
theorem commPairL_of_lattice (l : Lattice) (hwf : l.WF) (hc : l.CommPair) :
    ∃ H Lx Lz, stabilizerMatrix l.toCodeData = some H ∧ logicalsX l.toCodeData = some Lx ∧
      logicalsZ l.toCodeData = some Lz ∧ CommPairL l.qubits.length l.logX.length H Lx Lz :=
  ⟨l.rowsH, l.rowsX, l.rowsZ, Lattice.stabilizerMatrix_eq hwf, Lattice.logicalsX_eq hwf,
    Lattice.logicalsZ_eq hwf, Lattice.commPairL_rows hwf hc⟩

/-- the same for whatever matrices the assembly returned -/
theorem commPairL_of_lattice_assembled (l : Lattice) (hwf : l.WF) (hc : l.CommPair)
    {H Lx Lz : List (List Nat)} (hH : stabilizerMatrix l.toCodeData = some H)
    (hX : logicalsX l.toCodeData = some Lx) (hZ : logicalsZ l.toCodeData = some Lz) :
    CommPairL l.qubits.length l.logX.length H Lx Lz := by
  rw [Lattice.stabilizerMatrix_eq hwf] at hH
  rw [Lattice.logicalsX_eq hwf] at hX
  rw [Lattice.logicalsZ_eq hwf] at hZ
  cases hH; cases hX; cases hZ
  exact Lattice.commPairL_rows hwf hc

/-- **Corollary.**  With the rank clause the assembled matrices form a valid
    `[[n, k]]` stabilizer code. -/
theorem validCodeL_of_lattice (l : Lattice) (hwf : l.WF) (hc : l.CommPair)
    {H Lx Lz : List (List Nat)} (hH : stabilizerMatrix l.toCodeData = some H)
    (hX : logicalsX l.toCodeData = some Lx) (hZ : logicalsZ l.toCodeData = some Lz)
    (hr : HasRank (2 * l.qubits.length) H (l.qubits.length - l.logX.length)) :
    ValidCodeL l.qubits.length l.logX.length H Lx Lz :=
  (commPairL_of_lattice_assembled l hwf hc hH hX hZ).toValid hr

/-- existential form of the corollary (rank hypothesis on the assembled matrix) -/
theorem validCodeL_of_lattice_exists (l : Lattice) (hwf : l.WF) (hc : l.CommPair)
    (hr : HasRank (2 * l.qubits.length) l.rowsH (l.qubits.length - l.logX.length)) :
    ∃ H Lx Lz, stabilizerMatrix l.toCodeData = some H ∧ logicalsX l.toCodeData = some Lx ∧
      logicalsZ l.toCodeData = some Lz ∧ ValidCodeL l.qubits.length l.logX.length H Lx Lz :=
  ⟨l.rowsH, l.rowsX, l.rowsZ, Lattice.stabilizerMatrix_eq hwf, Lattice.logicalsX_eq hwf,
    Lattice.logicalsZ_eq hwf, (Lattice.commPairL_rows hwf hc).toValid hr⟩

/-! ### non-vacuity: the `[[4,2,2]]` code as a hand-written lattice

Qubits on the corners of a square, one X-type and one Z-type stabilizer (both on all four
qubits) at two further coordinates; `X̄₁ = X(0,0)X(0,1)`, `X̄₂ = X(0,0)X(1,0)`,
`Z̄₁ = Z(0,0)Z(1,0)`, `Z̄₂ = Z(0,0)Z(0,1)`. -/

namespace Example422

def lat : Lattice where
  qubits := [[0, 0], [0, 1], [1, 0], [1, 1]]
  stabs := [[2, 0], [2, 1]]
  getStab := fun s =>
    if s = [2, 0] then [([0, 0], .X), ([0, 1], .X), ([1, 0], .X), ([1, 1], .X)]
    else [([1, 1], .Z), ([1, 0], .Z), ([0, 1], .Z), ([0, 0], .Z)]
  logX := [[([0, 0], .X), ([0, 1], .X)], [([1, 0], .X), ([0, 0], .X)]]
  logZ := [[([1, 0], .Z), ([0, 0], .Z)], [([0, 0], .Z), ([0, 1], .Z)]]

theorem lat_wf : lat.WF where
  qubits_nodup := by decide
  stabs_nodup := by decide
  disjoint := by decide
  stab_keys := by decide
  stab_supported := by decide
  stab_nonempty := by decide
  log_keys := by decide
  log_supported := by decide

theorem lat_commPair : lat.CommPair where
  stab_comm := by decide
  logX_comm := by decide
  logZ_comm := by decide
  same_k := rfl
  pairing := by
    intro i j hi hj
    have hi' : i = 0 ∨ i = 1 := by simp [lat] at hi; omega
    have hj' : j = 0 ∨ j = 1 := by simp [lat] at hj; omega
    rcases hi' with rfl | rfl <;> rcases hj' with rfl | rfl <;> decide
  logXX := by decide
  logZZ := by decide

/-- the assembled matrices (dict entries in any order land in the qubit order) -/
example : stabilizerMatrix lat.toCodeData = some [[1,1,1,1, 0,0,0,0], [0,0,0,0, 1,1,1,1]] ∧
    logicalsX lat.toCodeData = some [[1,1,0,0, 0,0,0,0], [1,0,1,0, 0,0,0,0]] ∧
    logicalsZ lat.toCodeData = some [[0,0,0,0, 1,0,1,0], [0,0,0,0, 1,1,0,0]] := by decide

/-- the bridge on one pair: one anticommuting qubit, symplectic product 1 -/
example : opAntiCount (lat.logX.getD 0 []) (lat.logZ.getD 0 []) = 1 ∧
    symp (lat.rowsX.getD 0 []) (lat.rowsZ.getD 0 []) = 1 := by decide

theorem lat_rows_indep : Indep (2 * 4) lat.rowsH := by
  intro sel hl
  have hH : lat.rowsH = [[1,1,1,1, 0,0,0,0], [0,0,0,0, 1,1,1,1]] := by decide
  rw [hH] at hl ⊢
  match sel, hl with
  | [a, b], _ => revert a b; decide

/-- the hypotheses of the main theorem and of the corollary are satisfiable (k = 2) -/
example : ∃ H Lx Lz, stabilizerMatrix lat.toCodeData = some H ∧
    logicalsX lat.toCodeData = some Lx ∧ logicalsZ lat.toCodeData = some Lz ∧
    ValidCodeL 4 2 H Lx Lz :=
  validCodeL_of_lattice_exists lat lat_wf lat_commPair
    (hasRank_of_indep (wfRows_map_opRow _ _) lat_rows_indep)

/-- a lattice whose generators anticommute does not satisfy `CommPair` (the hypothesis is
    not vacuous): X on one qubit against Z on the same qubit -/
example : opCommute [([0, 0], .X)] [([0, 0], .Z)] = false := by decide

end Example422

end Panqec
