/-
The `/code-data` payload of the visualizer model is faithful for every class whose lattice model is
well-formed and whose configuration entries can be served (`Servable`): generic theorem
`describeAll_faithful`, instantiated per class and for all sizes in `Properties/C20Repr.lean`.
-/
import PanqecVerif.Proofs.GuiRepr

namespace Panqec.GuiRepr
open Panqec.Gui

/-- the hypotheses under which a class is served: the lattice model is a well-formed coordinate
    system, both pictures of the class have servable entries for the qubits and for every listed
    stabilizer type, every stabilizer location has one of the listed types, every qubit location has an
    axis, the overrides are simple assignments, and the requested deformation is defined on every qubit -/
structure Servable (g : ClassGeom) (T : Tables) (types : List String) (name : String) : Prop where
  wf : g.lat.WF
  tables : classTablesOk T g.cls types = true
  stab_types : ∀ s ∈ g.lat.stabs, ∃ t ∈ types, g.stabType s = some t
  qubit_axes : ∀ q ∈ g.lat.qubits, ∃ a, g.qubitAxis q = some a
  stab_edits : ∀ rot s t, (g.stabEdits rot s t).all Edit.simple = true
  qubit_edits : ∀ rot q a, (g.qubitEdits rot q a).all Edit.simple = true
  deformation : name = "None" ∨ ∀ q ∈ g.lat.qubits, (g.deformation name q).isSome = true

/-- the `location` field the class gives the description of a qubit / stabilizer coordinate -/
def ClassGeom.qubitLocation (g : ClassGeom) (rot : Bool) (q : Coord) : JV :=
  finalLocation (g.qubitEdits rot q ((g.qubitAxis q).getD "")) (locJV q)

def ClassGeom.stabLocation (g : ClassGeom) (rot : Bool) (s : Coord) : JV :=
  finalLocation (g.stabEdits rot s ((g.stabType s).getD "")) (locJV s)

/-- the primitive form of the hypotheses: every coordinate is represented successfully, completely and at
    its location (for classes whose overrides are not plain assignments this is proved directly) -/
structure Served (g : ClassGeom) (T : Tables) (name : String) : Prop where
  wf : g.lat.WF
  qubit_ok : ∀ rot, ∀ q ∈ g.lat.qubits, ∃ d, g.qubitRepr T rot q = .ok d ∧ descComplete d = true ∧
    getKey d "location" = some (g.qubitLocation rot q)
  stab_ok : ∀ rot, ∀ s ∈ g.lat.stabs, ∃ d, g.stabRepr T rot s = .ok d ∧ descComplete d = true ∧
    getKey d "location" = some (g.stabLocation rot s) ∧ getKey d "type" = (g.stabType s).map JV.str
  deformation : name = "None" ∨ ∀ q ∈ g.lat.qubits, (g.deformation name q).isSome = true

/-- C20 for one answer: one complete description per qubit and per stabilizer, the i-th one computed
    from (and located at) the i-th library coordinate — a stabilizer's with the `type` of that
    coordinate —, and the matrices of the generic assembly -/
structure Faithful (g : ClassGeom) (T : Tables) (name : String) (rot : Bool) (p : Payload) : Prop where
  n_qubits : p.qubits.length = g.lat.qubits.length
  n_stabs : p.stabilizers.length = g.lat.stabs.length
  qubit_at : ∀ i (h : i < g.lat.qubits.length) (h' : i < p.qubits.length),
    g.qubitRepr T rot g.lat.qubits[i] = .ok p.qubits[i] ∧ descComplete p.qubits[i] = true ∧
    getKey p.qubits[i] "location" = some (g.qubitLocation rot g.lat.qubits[i])
  stab_at : ∀ i (h : i < g.lat.stabs.length) (h' : i < p.stabilizers.length),
    g.stabRepr T rot g.lat.stabs[i] = .ok p.stabilizers[i] ∧ descComplete p.stabilizers[i] = true ∧
    getKey p.stabilizers[i] "location" = some (g.stabLocation rot g.lat.stabs[i]) ∧
    getKey p.stabilizers[i] "type" = (g.stabType g.lat.stabs[i]).map JV.str
  undeformed : name = "None" → p.H = g.lat.rowsH ∧ p.logicalX = g.lat.rowsX ∧ p.logicalZ = g.lat.rowsZ
  deformed : name ≠ "None" →
    p.H = g.lat.rowsH.map (deformBsf (g.lat.qubits.map (g.dmap name))) ∧
    p.logicalX = g.lat.rowsX.map (deformBsf (g.lat.qubits.map (g.dmap name))) ∧
    p.logicalZ = g.lat.rowsZ.map (deformBsf (g.lat.qubits.map (g.dmap name)))

theorem classTablesOk_unpack {T : Tables} {cls : String} {types : List String}
    (h : classTablesOk T cls types = true) (rot : Bool) :
    (∃ e, lookupFull T.cfg cls "qubits" (pictureName rot) "" = some e ∧
      entryOk T.colormap qubitColorKeys e = true) ∧
    ∀ t ∈ types, ∃ e, lookupFull T.cfg cls "stabilizers" (pictureName rot) t = some e ∧
      entryOk T.colormap stabColorKeys e = true := by
  unfold classTablesOk at h
  have h1 := List.all_eq_true.mp h rot (by cases rot <;> simp)
  simp only [Bool.and_eq_true] at h1
  constructor
  · cases hl : lookupFull T.cfg cls "qubits" (pictureName rot) "" with
    | none => simp [hl] at h1
    | some e => exact ⟨e, rfl, by simpa [hl] using h1.1⟩
  · intro t ht
    have h2 := List.all_eq_true.mp h1.2 t ht
    cases hl : lookupFull T.cfg cls "stabilizers" (pictureName rot) t with
    | none => simp [hl] at h2
    | some e => exact ⟨e, rfl, by simpa [hl] using h2⟩

variable {g : ClassGeom} {T : Tables} {types : List String} {name : String}

theorem Servable.qubit_ok (hs : Servable g T types name) (rot : Bool) {q : Coord} (hq : q ∈ g.lat.qubits) :
    ∃ d, g.qubitRepr T rot q = .ok d ∧ descComplete d = true ∧
      getKey d "location" = some (g.qubitLocation rot q) := by
  obtain ⟨a, ha⟩ := hs.qubit_axes q hq
  obtain ⟨⟨e, hl, he⟩, _⟩ := classTablesOk_unpack hs.tables rot
  obtain ⟨d, hd, hg, hloc, _⟩ := baseQubit_ok T g.cls rot a q e hl he
  obtain ⟨d', h1, h2, h3, _⟩ := applyEdits_ok (g.qubitEdits rot q a) d _ hg hloc (hs.qubit_edits rot q a)
  refine ⟨d', ?_, h2.complete, ?_⟩
  · unfold ClassGeom.qubitRepr
    rw [ha, hd]; exact h1
  · unfold ClassGeom.qubitLocation
    rw [ha]; exact h3

theorem Servable.stab_ok (hs : Servable g T types name) (rot : Bool) {s : Coord} (hq : s ∈ g.lat.stabs) :
    ∃ d, g.stabRepr T rot s = .ok d ∧ descComplete d = true ∧
      getKey d "location" = some (g.stabLocation rot s) ∧ getKey d "type" = (g.stabType s).map JV.str := by
  obtain ⟨t, ht, hty⟩ := hs.stab_types s hq
  obtain ⟨_, hall⟩ := classTablesOk_unpack hs.tables rot
  obtain ⟨e, hl, he⟩ := hall t ht
  obtain ⟨d, hd, hg, hloc, htyp, _⟩ := baseStab_ok T g.cls rot t s e hl he
  obtain ⟨d', h1, h2, h3, h4⟩ := applyEdits_ok (g.stabEdits rot s t) d _ hg hloc (hs.stab_edits rot s t)
  refine ⟨d', ?_, h2.complete, ?_, ?_⟩
  · unfold ClassGeom.stabRepr
    simp only [hty, hd]; exact h1
  · unfold ClassGeom.stabLocation
    rw [hty]; exact h3
  · rw [h4, htyp, hty]; rfl

theorem opKeys_sub (hwf : g.lat.WF) {q : Coord} (hq : q ∈ g.opKeys) : q ∈ g.lat.qubits := by
  unfold ClassGeom.opKeys at hq
  rw [List.mem_flatMap] at hq
  obtain ⟨op, hop, hq⟩ := hq
  obtain ⟨e, he, rfl⟩ := List.mem_map.mp hq
  rw [List.append_assoc, List.mem_append] at hop
  rcases hop with hop | hop
  · obtain ⟨s, hs, rfl⟩ := List.mem_map.mp hop
    exact (hwf.stab_supported s hs e he).1
  · exact (hwf.log_supported op hop e he).1

theorem Servable.served (hs : Servable g T types name) : Served g T name :=
  ⟨hs.wf, fun rot _ hq => hs.qubit_ok rot hq, fun rot _ hq => hs.stab_ok rot hq, hs.deformation⟩

/-- the matrices of the payload -/
theorem Served.matrices (hs : Served g T name) :
    ∃ cd lz lx h, g.codeData name = .ok cd ∧ logicalsZ cd = some lz ∧ logicalsX cd = some lx ∧
      stabilizerMatrix cd = some h ∧
      (name = "None" → h = g.lat.rowsH ∧ lx = g.lat.rowsX ∧ lz = g.lat.rowsZ) ∧
      (name ≠ "None" →
        h = g.lat.rowsH.map (deformBsf (g.lat.qubits.map (g.dmap name))) ∧
        lx = g.lat.rowsX.map (deformBsf (g.lat.qubits.map (g.dmap name))) ∧
        lz = g.lat.rowsZ.map (deformBsf (g.lat.qubits.map (g.dmap name)))) := by
  have hH := Lattice.stabilizerMatrix_eq hs.wf
  have hX := Lattice.logicalsX_eq hs.wf
  have hZ := Lattice.logicalsZ_eq hs.wf
  by_cases hn : name = "None"
  · refine ⟨g.lat.toCodeData, _, _, _, ?_, hZ, hX, hH, fun _ => ⟨rfl, rfl, rfl⟩, fun h => absurd hn h⟩
    unfold ClassGeom.codeData
    simp [hn]
  · have hdef : ∀ q ∈ g.lat.qubits, (g.deformation name q).isSome = true := by
      rcases hs.deformation with h | h
      · exact absurd h hn
      · exact h
    have hcd : g.codeData name = .ok (g.lat.toCodeData.deform (g.dmap name)) := by
      unfold ClassGeom.codeData
      have h1 : (name == "None") = false := by simpa using hn
      have h2 : (g.opKeys.all fun q => (g.deformation name q).isSome) = true :=
        List.all_eq_true.mpr fun q hq => hdef q (opKeys_sub hs.wf hq)
      simp only [h1, Bool.false_eq_true, if_false, h2, if_true]
    have kS : ∀ op ∈ g.lat.toCodeData.stabOps, KeysNodup op := by
      intro op hop
      obtain ⟨s, hs', rfl⟩ := List.mem_map.mp hop
      exact hs.wf.stab_keys s hs'
    have kX : ∀ op ∈ g.lat.toCodeData.logX, KeysNodup op :=
      fun op hop => hs.wf.log_keys op (List.mem_append_left _ hop)
    have kZ : ∀ op ∈ g.lat.toCodeData.logZ, KeysNodup op :=
      fun op hop => hs.wf.log_keys op (List.mem_append_right _ hop)
    refine ⟨_, _, _, _, hcd, ?_, ?_, ?_, fun h => absurd h hn, fun _ => ⟨rfl, rfl, rfl⟩⟩
    · rw [Deform.logicalsZ_deform _ _ kZ, hZ]; rfl
    · rw [Deform.logicalsX_deform _ _ kX, hX]; rfl
    · rw [Deform.stabilizerMatrix_deform _ _ kS, hH]; rfl

/-- **Every served class is served faithfully.** -/
theorem Served.faithful (hs : Served g T name) (rot : Bool) :
    ∃ p, g.describeAll T name rot = .ok p ∧ Faithful g T name rot p := by
  obtain ⟨qs, hq1, hq2, hq3⟩ := mapM_ok (g.qubitRepr T rot) g.lat.qubits
    fun q hq => (hs.qubit_ok rot q hq).imp fun _ h => h.1
  obtain ⟨ss, hs1, hs2, hs3⟩ := mapM_ok (g.stabRepr T rot) g.lat.stabs
    fun s hq => (hs.stab_ok rot s hq).imp fun _ h => h.1
  obtain ⟨cd, lz, lx, h, hcd, hlz, hlx, hh, hund, hdef⟩ := hs.matrices
  refine ⟨⟨h, lx, lz, qs, ss⟩, ?_, ⟨hq2, hs2, ?_, ?_, hund, hdef⟩⟩
  · unfold ClassGeom.describeAll
    simp only [hq1, hs1, hcd, hlz, hlx, hh]
  · intro i hi hi'
    obtain ⟨d, hd, hc, hl⟩ := hs.qubit_ok rot _ (List.getElem_mem hi)
    have := hq3 i hi hi'
    rw [hd] at this
    cases this
    exact ⟨hd, hc, hl⟩
  · intro i hi hi'
    obtain ⟨d, hd, hc, hl, ht⟩ := hs.stab_ok rot _ (List.getElem_mem hi)
    have := hs3 i hi hi'
    rw [hd] at this
    cases this
    exact ⟨hd, hc, hl, ht⟩

/-- **Every servable class is served faithfully.** -/
theorem describeAll_faithful (hs : Servable g T types name) (rot : Bool) :
    ∃ p, g.describeAll T name rot = .ok p ∧ Faithful g T name rot p :=
  hs.served.faithful rot

end Panqec.GuiRepr
