/-
RotatedToric3DCode, supported family, C17 (3a/3): rows, columns and walls as explicit key lists;
the key lists `LK f` of the listed logical operators (filters of the qubit list) have the same
members; anticommutation counts of the row / column / wall operators as the sums of
`Proofs/DistRotatedToric3DCodeB.lean`; the parity chains.
-/
import PanqecVerif.Proofs.DistRotatedToric3DCodeB

namespace Panqec.RotatedToric3DCode
open Panqec.Lat3Db
open Panqec.Lat2D (rsum rsum2 rsum_congr rsum2_congr rsum_even rsum2_even rsum_add rsum2_add
  chain ind)

set_option linter.unusedVariables false
set_option linter.unusedSimpArgs false

variable {Lx Ly Lz : Nat}

/-! ### key lists -/

/-- the row `y = g` of the layer `z = c` -/
def rowK (Lx : Nat) (g c : Int) : List Coord := (pyRange2 1 (2 * Lx)).map fun x => [x, g, c]
/-- the column `x = f` of the layer `z = c` -/
def colK (Ly : Nat) (f c : Int) : List Coord := (pyRange2 1 (2 * Ly)).map fun y => [f, y, c]
/-- the wall `y = g`: that row in every layer -/
def wallYK (Lx Lz : Nat) (g : Int) : List Coord :=
  (pyRange2 1 (2 * Lz)).flatMap fun z => (pyRange2 1 (2 * Lx)).map fun x => [x, g, z]
/-- the wall `x = f`: that column in every layer -/
def wallXK (Ly Lz : Nat) (f : Int) : List Coord :=
  (pyRange2 1 (2 * Lz)).flatMap fun z => (pyRange2 1 (2 * Ly)).map fun y => [f, y, z]

theorem mem_rowK {g c : Int} {q : Coord} :
    q ∈ rowK Lx g c ↔ ∃ x, R1 (2 * Lx) x ∧ q = [x, g, c] := by
  simp only [rowK, List.mem_map, mem_pyRange2_1]
  constructor
  · rintro ⟨x, hx, rfl⟩; exact ⟨x, hx, rfl⟩
  · rintro ⟨x, hx, rfl⟩; exact ⟨x, hx, rfl⟩
theorem mem_colK {f c : Int} {q : Coord} :
    q ∈ colK Ly f c ↔ ∃ y, R1 (2 * Ly) y ∧ q = [f, y, c] := by
  simp only [colK, List.mem_map, mem_pyRange2_1]
  constructor
  · rintro ⟨y, hy, rfl⟩; exact ⟨y, hy, rfl⟩
  · rintro ⟨y, hy, rfl⟩; exact ⟨y, hy, rfl⟩
theorem mem_wallYK {g : Int} {q : Coord} :
    q ∈ wallYK Lx Lz g ↔ ∃ x z, R1 (2 * Lx) x ∧ R1 (2 * Lz) z ∧ q = [x, g, z] := by
  simp only [wallYK, List.mem_flatMap, List.mem_map, mem_pyRange2_1]
  constructor
  · rintro ⟨z, hz, x, hx, rfl⟩; exact ⟨x, z, hx, hz, rfl⟩
  · rintro ⟨x, z, hx, hz, rfl⟩; exact ⟨z, hz, x, hx, rfl⟩
theorem mem_wallXK {f : Int} {q : Coord} :
    q ∈ wallXK Ly Lz f ↔ ∃ y z, R1 (2 * Ly) y ∧ R1 (2 * Lz) z ∧ q = [f, y, z] := by
  simp only [wallXK, List.mem_flatMap, List.mem_map, mem_pyRange2_1]
  constructor
  · rintro ⟨z, hz, y, hy, rfl⟩; exact ⟨y, z, hy, hz, rfl⟩
  · rintro ⟨y, z, hy, hz, rfl⟩; exact ⟨z, hz, y, hy, rfl⟩

theorem rowK_nodup (Lx : Nat) (g c : Int) : (rowK Lx g c).Nodup :=
  List.Nodup.map (fun a b h => by simpa using h) (nodup_pyRange2 _ _)
theorem colK_nodup (Ly : Nat) (f c : Int) : (colK Ly f c).Nodup :=
  List.Nodup.map (fun a b h => by simpa using h) (nodup_pyRange2 _ _)

theorem wallYK_nodup (Lx Lz : Nat) (g : Int) : (wallYK Lx Lz g).Nodup := by
  unfold wallYK
  rw [List.nodup_flatMap]
  refine ⟨fun z _ => ?_, ?_⟩
  · refine List.Nodup.map ?_ (nodup_pyRange2 _ _)
    intro a b h; simpa using h
  · refine List.Pairwise.imp_of_mem ?_ (nodup_pyRange2 1 (2 * Lz))
    intro a b _ _ hab
    simp only [Function.onFun, List.Disjoint, List.mem_map]
    rintro c ⟨x, _, rfl⟩ ⟨x', _, h⟩
    simp only [List.cons.injEq, and_true] at h
    exact hab h.2.2.symm
theorem wallXK_nodup (Ly Lz : Nat) (f : Int) : (wallXK Ly Lz f).Nodup := by
  unfold wallXK
  rw [List.nodup_flatMap]
  refine ⟨fun z _ => ?_, ?_⟩
  · refine List.Nodup.map ?_ (nodup_pyRange2 _ _)
    intro a b h; simpa using h
  · refine List.Pairwise.imp_of_mem ?_ (nodup_pyRange2 1 (2 * Lz))
    intro a b _ _ hab
    simp only [Function.onFun, List.Disjoint, List.mem_map]
    rintro c ⟨y, _, rfl⟩ ⟨y', _, h⟩
    simp only [List.cons.injEq, and_true] at h
    exact hab h.2.2.symm

theorem length_rowK (Lx : Nat) (g c : Int) : (rowK Lx g c).length = Lx := by
  simp [rowK, length_pyRange2_odd]
theorem length_colK (Ly : Nat) (f c : Int) : (colK Ly f c).length = Ly := by
  simp [colK, length_pyRange2_odd]

theorem length_flatMap_const {α β : Type} (l : List α) (f : α → List β) (n : Nat)
    (h : ∀ a ∈ l, (f a).length = n) : (l.flatMap f).length = l.length * n := by
  induction l with
  | nil => simp
  | cons a l ih =>
    rw [List.flatMap_cons, List.length_append, h a (by simp),
      ih (fun a' ha' => h a' (List.mem_cons_of_mem _ ha')), List.length_cons, Nat.succ_mul,
      Nat.add_comm]

theorem length_wallYK (Lx Lz : Nat) (g : Int) : (wallYK Lx Lz g).length = Lx * Lz := by
  unfold wallYK
  rw [length_flatMap_const _ _ Lx (fun z _ => by simp [length_pyRange2_odd]), length_pyRange2_odd,
    Nat.mul_comm]
theorem length_wallXK (Ly Lz : Nat) (f : Int) : (wallXK Ly Lz f).length = Ly * Lz := by
  unfold wallXK
  rw [length_flatMap_const _ _ Ly (fun z _ => by simp [length_pyRange2_odd]), length_pyRange2_odd,
    Nat.mul_comm]

theorem rowK_sub {g c : Int} (hg : R1 (2 * Ly) g) (hc : R1 (2 * Lz) c) :
    ∀ q ∈ rowK Lx g c, q ∈ qubits Lx Ly Lz := by
  intro q hq
  obtain ⟨x, hx, rfl⟩ := mem_rowK.mp hq
  rw [mem_qubits_iff]; exact Or.inl ⟨hx, hg, hc⟩
theorem colK_sub {f c : Int} (hf : R1 (2 * Lx) f) (hc : R1 (2 * Lz) c) :
    ∀ q ∈ colK Ly f c, q ∈ qubits Lx Ly Lz := by
  intro q hq
  obtain ⟨y, hy, rfl⟩ := mem_colK.mp hq
  rw [mem_qubits_iff]; exact Or.inl ⟨hf, hy, hc⟩
theorem wallYK_sub {g : Int} (hg : R1 (2 * Ly) g) : ∀ q ∈ wallYK Lx Lz g, q ∈ qubits Lx Ly Lz := by
  intro q hq
  obtain ⟨x, z, hx, hz, rfl⟩ := mem_wallYK.mp hq
  rw [mem_qubits_iff]; exact Or.inl ⟨hx, hg, hz⟩
theorem wallXK_sub {f : Int} (hf : R1 (2 * Lx) f) : ∀ q ∈ wallXK Ly Lz f, q ∈ qubits Lx Ly Lz := by
  intro q hq
  obtain ⟨y, z, hy, hz, rfl⟩ := mem_wallXK.mp hq
  rw [mem_qubits_iff]; exact Or.inl ⟨hf, hy, hz⟩

/-! ### the key lists of the listed logicals -/

theorem perm_of_mem {l1 l2 : List Coord} (n1 : l1.Nodup) (n2 : l2.Nodup)
    (h : ∀ q, q ∈ l1 ↔ q ∈ l2) : l1.Perm l2 :=
  (List.perm_ext_iff_of_nodup n1 n2).mpr h

theorem LK_fXy_perm (hLy : 1 ≤ Ly) (hLz : 1 ≤ Lz) : (LK Lx Ly Lz fXy).Perm (rowK Lx 1 1) := by
  apply perm_of_mem (LK_nodup _ _ _ _) (rowK_nodup _ _ _)
  intro q
  constructor
  · intro h
    obtain ⟨x, y, z, rfl⟩ := mem_qubits_shape _ _ _ _ (LK_sub h)
    rw [mem_LK, mem_qubits_iff] at h
    simp only [fXy, Bool.and_eq_true, beq_iff_eq] at h
    obtain ⟨hq, rfl, rfl⟩ := h
    rw [mem_rowK]
    rcases hq with hq | hq
    · exact ⟨x, hq.1, rfl⟩
    · unfold QV R2 at hq; omega
  · intro h
    obtain ⟨x, hx, rfl⟩ := mem_rowK.mp h
    rw [mem_LK, mem_qubits_iff]
    refine ⟨Or.inl ⟨hx, by unfold R1; omega, by unfold R1; omega⟩, by simp [fXy]⟩

theorem LK_fXx_perm (hLx : 1 ≤ Lx) (hLz : 1 ≤ Lz) : (LK Lx Ly Lz fXx).Perm (colK Ly 1 1) := by
  apply perm_of_mem (LK_nodup _ _ _ _) (colK_nodup _ _ _)
  intro q
  constructor
  · intro h
    obtain ⟨x, y, z, rfl⟩ := mem_qubits_shape _ _ _ _ (LK_sub h)
    rw [mem_LK, mem_qubits_iff] at h
    simp only [fXx, Bool.and_eq_true, beq_iff_eq] at h
    obtain ⟨hq, rfl, rfl⟩ := h
    rw [mem_colK]
    rcases hq with hq | hq
    · exact ⟨y, hq.2.1, rfl⟩
    · unfold QV R2 at hq; omega
  · intro h
    obtain ⟨y, hy, rfl⟩ := mem_colK.mp h
    rw [mem_LK, mem_qubits_iff]
    refine ⟨Or.inl ⟨by unfold R1; omega, hy, by unfold R1; omega⟩, by simp [fXx]⟩

theorem LK_fZx_perm (hLx : 1 ≤ Lx) : (LK Lx Ly Lz fZx).Perm (wallXK Ly Lz 1) := by
  apply perm_of_mem (LK_nodup _ _ _ _) (wallXK_nodup _ _ _)
  intro q
  constructor
  · intro h
    obtain ⟨x, y, z, rfl⟩ := mem_qubits_shape _ _ _ _ (LK_sub h)
    rw [mem_LK, mem_qubits_iff] at h
    simp only [fZx, beq_iff_eq] at h
    obtain ⟨hq, rfl⟩ := h
    rw [mem_wallXK]
    rcases hq with hq | hq
    · exact ⟨y, z, hq.2.1, hq.2.2, rfl⟩
    · unfold QV R2 at hq; omega
  · intro h
    obtain ⟨y, z, hy, hz, rfl⟩ := mem_wallXK.mp h
    rw [mem_LK, mem_qubits_iff]
    refine ⟨Or.inl ⟨by unfold R1; omega, hy, hz⟩, by simp [fZx]⟩

theorem LK_fZy_perm (hLy : 1 ≤ Ly) : (LK Lx Ly Lz fZy).Perm (wallYK Lx Lz 1) := by
  apply perm_of_mem (LK_nodup _ _ _ _) (wallYK_nodup _ _ _)
  intro q
  constructor
  · intro h
    obtain ⟨x, y, z, rfl⟩ := mem_qubits_shape _ _ _ _ (LK_sub h)
    rw [mem_LK, mem_qubits_iff] at h
    simp only [fZy, beq_iff_eq] at h
    obtain ⟨hq, rfl⟩ := h
    rw [mem_wallYK]
    rcases hq with hq | hq
    · exact ⟨x, z, hq.1, hq.2.2, rfl⟩
    · unfold QV R2 at hq; omega
  · intro h
    obtain ⟨x, z, hx, hz, rfl⟩ := mem_wallYK.mp h
    rw [mem_LK, mem_qubits_iff]
    refine ⟨Or.inl ⟨hx, by unfold R1; omega, hz⟩, by simp [fZy]⟩

/-- odd × even: the Y logical lives on the wall `y = 1` -/
theorem LK_fY_perm_OE (hLy : 1 ≤ Ly) (hx : Lx % 2 = 1) (hy : Ly % 2 = 0) :
    (LK Lx Ly Lz (fY Lx Ly)).Perm (wallYK Lx Lz 1) := by
  apply perm_of_mem (LK_nodup _ _ _ _) (wallYK_nodup _ _ _)
  intro q
  have e1 : (Lx % 2 == 1) = true := by simp [hx]
  have e2 : (Ly % 2 == 1) = false := by simp [hy]
  constructor
  · intro h
    obtain ⟨x, y, z, rfl⟩ := mem_qubits_shape _ _ _ _ (LK_sub h)
    rw [mem_LK, mem_qubits_iff] at h
    simp only [fY, e1, e2, Bool.true_and, Bool.false_and, Bool.or_false, beq_iff_eq] at h
    obtain ⟨hq, rfl⟩ := h
    rw [mem_wallYK]
    rcases hq with hq | hq
    · exact ⟨x, z, hq.1, hq.2.2, rfl⟩
    · unfold QV R2 at hq; omega
  · intro h
    obtain ⟨x, z, hx', hz, rfl⟩ := mem_wallYK.mp h
    rw [mem_LK, mem_qubits_iff]
    refine ⟨Or.inl ⟨hx', by unfold R1; omega, hz⟩, by simp [fY, e1]⟩

/-- even × odd: the Y logical lives on the wall `x = 1` -/
theorem LK_fY_perm_EO (hLx : 1 ≤ Lx) (hx : Lx % 2 = 0) (hy : Ly % 2 = 1) :
    (LK Lx Ly Lz (fY Lx Ly)).Perm (wallXK Ly Lz 1) := by
  apply perm_of_mem (LK_nodup _ _ _ _) (wallXK_nodup _ _ _)
  intro q
  have e1 : (Lx % 2 == 1) = false := by simp [hx]
  have e2 : (Ly % 2 == 1) = true := by simp [hy]
  constructor
  · intro h
    obtain ⟨x, y, z, rfl⟩ := mem_qubits_shape _ _ _ _ (LK_sub h)
    rw [mem_LK, mem_qubits_iff] at h
    simp only [fY, e1, e2, Bool.true_and, Bool.false_and, Bool.false_or, beq_iff_eq] at h
    obtain ⟨hq, rfl⟩ := h
    rw [mem_wallXK]
    rcases hq with hq | hq
    · exact ⟨y, z, hq.2.1, hq.2.2, rfl⟩
    · unfold QV R2 at hq; omega
  · intro h
    obtain ⟨y, z, hy', hz, rfl⟩ := mem_wallXK.mp h
    rw [mem_LK, mem_qubits_iff]
    refine ⟨Or.inl ⟨by unfold R1; omega, hy', hz⟩, by simp [fY, e2]⟩

/-- a constant-letter operator on a permuted key list has the same anticommutation count -/
theorem opAntiCount_perm {K K' : List Coord} (h : K.Perm K') (P : Pauli) (b : Op) :
    opAntiCount (constOp K P) b = opAntiCount (constOp K' P) b := by
  rw [opAntiCount_constOp_hit, opAntiCount_constOp_hit]
  exact h.countP_eq _

end Panqec.RotatedToric3DCode
