/-
RotatedToric3DCode, supported family, C17 (3c/3): the packing bounds for the three parities of the
family, the weights of the listed logicals and the reported distance.

* even × even (`k = 2`): X rows / columns of the bottom layer (`Ly` / `Lx` translates), Z walls
  `x = f` / `y = g` (`Lx` / `Ly` translates): every non-trivial logical has weight `≥ min Lx Ly`.
* odd × even (`k = 1`): the X column has the `Lx·Lz` translates "column `f` of layer `c`", the Y wall
  `y = 1` the `Ly` translates `y = g`: weight `≥ min Ly (Lx·Lz)`.
* even × odd: mirror image, weight `≥ min Lx (Ly·Lz)`.
-/
import PanqecVerif.Proofs.DistRotatedToric3DCodeD
import PanqecVerif.Proofs.Dist

namespace Panqec.RotatedToric3DCode
open Panqec.Lat3Db
open Panqec.Lat2D (rsum rsum2)

set_option linter.unusedVariables false
set_option linter.unusedSimpArgs false

variable {Lx Ly Lz : Nat}

theorem r1_idx {L i : Nat} (hi : i < L) : R1 (2 * L) (2 * (i : Int) + 1) := by unfold R1; omega

/-! ### families of translates -/

theorem reps_rows (P : Pauli) (hLz : 1 ≤ Lz) :
    ((List.range Ly).map fun (i : Nat) => constOp (rowK Lx (2 * (i : Int) + 1) 1) P).length = Ly ∧
    (∀ r ∈ (List.range Ly).map fun (i : Nat) => constOp (rowK Lx (2 * (i : Int) + 1) 1) P,
      KeysNodup r ∧ opSupported (qubits Lx Ly Lz) r = true) ∧
    ((List.range Ly).map fun (i : Nat) => constOp (rowK Lx (2 * (i : Int) + 1) 1) P).Pairwise
      KeysDisjoint :=
  lineReps (qubits Lx Ly Lz) (fun i => rowK Lx (2 * (i : Int) + 1) 1) Ly P
    (fun i => rowK_nodup _ _ _)
    (fun i hi => rowK_sub (r1_idx hi) (by unfold R1; omega))
    (fun i i' h q hq hq' => by
      obtain ⟨x, _, rfl⟩ := mem_rowK.mp hq
      obtain ⟨x', _, e⟩ := mem_rowK.mp hq'
      simp only [List.cons.injEq, and_true] at e; omega)

theorem reps_cols (P : Pauli) (hLz : 1 ≤ Lz) :
    ((List.range Lx).map fun (i : Nat) => constOp (colK Ly (2 * (i : Int) + 1) 1) P).length = Lx ∧
    (∀ r ∈ (List.range Lx).map fun (i : Nat) => constOp (colK Ly (2 * (i : Int) + 1) 1) P,
      KeysNodup r ∧ opSupported (qubits Lx Ly Lz) r = true) ∧
    ((List.range Lx).map fun (i : Nat) => constOp (colK Ly (2 * (i : Int) + 1) 1) P).Pairwise
      KeysDisjoint :=
  lineReps (qubits Lx Ly Lz) (fun i => colK Ly (2 * (i : Int) + 1) 1) Lx P
    (fun i => colK_nodup _ _ _)
    (fun i hi => colK_sub (r1_idx hi) (by unfold R1; omega))
    (fun i i' h q hq hq' => by
      obtain ⟨y, _, rfl⟩ := mem_colK.mp hq
      obtain ⟨y', _, e⟩ := mem_colK.mp hq'
      simp only [List.cons.injEq, and_true] at e; omega)

theorem reps_wallsX (P : Pauli) :
    ((List.range Lx).map fun (i : Nat) => constOp (wallXK Ly Lz (2 * (i : Int) + 1)) P).length = Lx ∧
    (∀ r ∈ (List.range Lx).map fun (i : Nat) => constOp (wallXK Ly Lz (2 * (i : Int) + 1)) P,
      KeysNodup r ∧ opSupported (qubits Lx Ly Lz) r = true) ∧
    ((List.range Lx).map fun (i : Nat) => constOp (wallXK Ly Lz (2 * (i : Int) + 1)) P).Pairwise
      KeysDisjoint :=
  lineReps (qubits Lx Ly Lz) (fun i => wallXK Ly Lz (2 * (i : Int) + 1)) Lx P
    (fun i => wallXK_nodup _ _ _)
    (fun i hi => wallXK_sub (r1_idx hi))
    (fun i i' h q hq hq' => by
      obtain ⟨y, z, _, _, rfl⟩ := mem_wallXK.mp hq
      obtain ⟨y', z', _, _, e⟩ := mem_wallXK.mp hq'
      simp only [List.cons.injEq, and_true] at e; omega)

theorem reps_wallsY (P : Pauli) :
    ((List.range Ly).map fun (i : Nat) => constOp (wallYK Lx Lz (2 * (i : Int) + 1)) P).length = Ly ∧
    (∀ r ∈ (List.range Ly).map fun (i : Nat) => constOp (wallYK Lx Lz (2 * (i : Int) + 1)) P,
      KeysNodup r ∧ opSupported (qubits Lx Ly Lz) r = true) ∧
    ((List.range Ly).map fun (i : Nat) => constOp (wallYK Lx Lz (2 * (i : Int) + 1)) P).Pairwise
      KeysDisjoint :=
  lineReps (qubits Lx Ly Lz) (fun i => wallYK Lx Lz (2 * (i : Int) + 1)) Ly P
    (fun i => wallYK_nodup _ _ _)
    (fun i hi => wallYK_sub (r1_idx hi))
    (fun i i' h q hq hq' => by
      obtain ⟨x, z, _, _, rfl⟩ := mem_wallYK.mp hq
      obtain ⟨x', z', _, _, e⟩ := mem_wallYK.mp hq'
      simp only [List.cons.injEq, and_true] at e; omega)

/-- the columns of all layers, indexed by `t = i·Lz + k` -/
def colFam (Ly Lz : Nat) (t : Nat) : List Coord :=
  colK Ly (2 * ((t / Lz : Nat) : Int) + 1) (2 * ((t % Lz : Nat) : Int) + 1)
/-- the rows of all layers, indexed by `t = i·Lz + k` -/
def rowFam (Lx Lz : Nat) (t : Nat) : List Coord :=
  rowK Lx (2 * ((t / Lz : Nat) : Int) + 1) (2 * ((t % Lz : Nat) : Int) + 1)

theorem fam_idx {Lz t t' : Nat} (h : t < t')
    (e1 : (2 * ((t / Lz : Nat) : Int) + 1) = 2 * ((t' / Lz : Nat) : Int) + 1)
    (e2 : (2 * ((t % Lz : Nat) : Int) + 1) = 2 * ((t' % Lz : Nat) : Int) + 1) : False := by
  have h1 := Nat.div_add_mod t Lz
  have h2 := Nat.div_add_mod t' Lz
  have a1 : t / Lz = t' / Lz := by omega
  have a2 : t % Lz = t' % Lz := by omega
  rw [a1, a2] at h1
  omega

theorem reps_colFam (P : Pauli) (hLz : 1 ≤ Lz) :
    ((List.range (Lx * Lz)).map fun (t : Nat) => constOp (colFam Ly Lz t) P).length = Lx * Lz ∧
    (∀ r ∈ (List.range (Lx * Lz)).map fun (t : Nat) => constOp (colFam Ly Lz t) P,
      KeysNodup r ∧ opSupported (qubits Lx Ly Lz) r = true) ∧
    ((List.range (Lx * Lz)).map fun (t : Nat) => constOp (colFam Ly Lz t) P).Pairwise KeysDisjoint :=
  lineReps (qubits Lx Ly Lz) (colFam Ly Lz) (Lx * Lz) P
    (fun t => colK_nodup _ _ _)
    (fun t ht => colK_sub
      (r1_idx (Nat.div_lt_of_lt_mul (by rw [Nat.mul_comm]; exact ht)))
      (r1_idx (Nat.mod_lt _ (by omega))))
    (fun t t' h q hq hq' => by
      obtain ⟨y, _, rfl⟩ := mem_colK.mp hq
      obtain ⟨y', _, e⟩ := mem_colK.mp hq'
      simp only [List.cons.injEq, and_true] at e
      exact fam_idx h e.1 e.2.2)

theorem reps_rowFam (P : Pauli) (hLz : 1 ≤ Lz) :
    ((List.range (Ly * Lz)).map fun (t : Nat) => constOp (rowFam Lx Lz t) P).length = Ly * Lz ∧
    (∀ r ∈ (List.range (Ly * Lz)).map fun (t : Nat) => constOp (rowFam Lx Lz t) P,
      KeysNodup r ∧ opSupported (qubits Lx Ly Lz) r = true) ∧
    ((List.range (Ly * Lz)).map fun (t : Nat) => constOp (rowFam Lx Lz t) P).Pairwise KeysDisjoint :=
  lineReps (qubits Lx Ly Lz) (rowFam Lx Lz) (Ly * Lz) P
    (fun t => rowK_nodup _ _ _)
    (fun t ht => rowK_sub
      (r1_idx (Nat.div_lt_of_lt_mul (by rw [Nat.mul_comm]; exact ht)))
      (r1_idx (Nat.mod_lt _ (by omega))))
    (fun t t' h q hq hq' => by
      obtain ⟨x, _, rfl⟩ := mem_rowK.mp hq
      obtain ⟨x', _, e⟩ := mem_rowK.mp hq'
      simp only [List.cons.injEq, and_true] at e
      exact fam_idx h e.2.1 e.2.2)

/-! ### the packing bounds -/

theorem r1_one {L : Nat} (h : 1 ≤ L) : R1 (2 * L) 1 := by unfold R1; omega

/-- even × even -/
theorem lower_bound_EE (hF : Fam Lx Ly) (hx : Lx % 2 = 0) (hy : Ly % 2 = 0) (hLz : 1 ≤ Lz)
    (hwf : (lattice Lx Ly Lz).WF) {n : Nat} (hn : (qubits Lx Ly Lz).length = n)
    (hv : ValidCodeL n 2 (lattice Lx Ly Lz).rowsH (lattice Lx Ly Lz).rowsX
      (lattice Lx Ly Lz).rowsZ) :
    ∀ v, IsNontrivialLogical n (lattice Lx Ly Lz).rowsH v → min Lx Ly ≤ pauliWeight v := by
  have h1x : 1 ≤ Lx := by have := hF.1; omega
  have h1y : 1 ≤ Ly := by have := hF.2.1; omega
  apply Lattice.packing_bound (lattice Lx Ly Lz) hwf (by rw [lattice_qubits]; exact hn) hv
  intro a ha
  rw [lattice_logX, lattice_logZ, logX_EE h1x h1y hx hy, logZ_EE hx hy] at ha
  rw [lattice_qubits]
  simp only [List.cons_append, List.nil_append, List.mem_cons, List.not_mem_nil, or_false] at ha
  rcases ha with rfl | rfl | rfl | rfl
  · obtain ⟨h1, h2, h3⟩ := reps_rows (Lx := Lx) (Ly := Ly) (Lz := Lz) Pauli.X hLz
    refine ⟨_, by rw [h1]; exact Nat.min_le_right _ _, h2, h3, ?_⟩
    intro b _ _ hb r hr
    obtain ⟨i, hi, rfl⟩ := List.mem_map.mp hr
    rw [opAntiCount_perm (LK_fXy_perm h1y hLz), opAntiCount_constOp_hit, opAntiCount_constOp_hit,
      count_rowK b (r1_idx (List.mem_range.mp hi)) (r1_one hLz), count_rowK b (r1_one h1y) (r1_one hLz)]
    have := xRow_all hF hx hb (k := 0) (by omega) i (List.mem_range.mp hi)
    simpa using this
  · obtain ⟨h1, h2, h3⟩ := reps_cols (Lx := Lx) (Ly := Ly) (Lz := Lz) Pauli.X hLz
    refine ⟨_, by rw [h1]; exact Nat.min_le_left _ _, h2, h3, ?_⟩
    intro b _ _ hb r hr
    obtain ⟨i, hi, rfl⟩ := List.mem_map.mp hr
    rw [opAntiCount_perm (LK_fXx_perm h1x hLz), opAntiCount_constOp_hit, opAntiCount_constOp_hit,
      count_colK b (r1_idx (List.mem_range.mp hi)) (r1_one hLz), count_colK b (r1_one h1x) (r1_one hLz)]
    have := xCol_all hF hy hb (k := 0) (by omega) i (List.mem_range.mp hi)
    simpa using this
  · obtain ⟨h1, h2, h3⟩ := reps_wallsX (Lx := Lx) (Ly := Ly) (Lz := Lz) Pauli.Z
    refine ⟨_, by rw [h1]; exact Nat.min_le_left _ _, h2, h3, ?_⟩
    intro b _ _ hb r hr
    obtain ⟨i, hi, rfl⟩ := List.mem_map.mp hr
    rw [opAntiCount_perm (LK_fZx_perm h1x), opAntiCount_constOp_hit, opAntiCount_constOp_hit]
    exact zWallX_all hF hy hb i (List.mem_range.mp hi)
  · obtain ⟨h1, h2, h3⟩ := reps_wallsY (Lx := Lx) (Ly := Ly) (Lz := Lz) Pauli.Z
    refine ⟨_, by rw [h1]; exact Nat.min_le_right _ _, h2, h3, ?_⟩
    intro b _ _ hb r hr
    obtain ⟨i, hi, rfl⟩ := List.mem_map.mp hr
    rw [opAntiCount_perm (LK_fZy_perm h1y), opAntiCount_constOp_hit, opAntiCount_constOp_hit]
    exact zWallY_all hF hx hb i (List.mem_range.mp hi)

/-- odd × even -/
theorem lower_bound_OE (hF : Fam Lx Ly) (hx : Lx % 2 = 1) (hy : Ly % 2 = 0) (hLz : 1 ≤ Lz)
    (hwf : (lattice Lx Ly Lz).WF) {n : Nat} (hn : (qubits Lx Ly Lz).length = n)
    (hv : ValidCodeL n 1 (lattice Lx Ly Lz).rowsH (lattice Lx Ly Lz).rowsX
      (lattice Lx Ly Lz).rowsZ) :
    ∀ v, IsNontrivialLogical n (lattice Lx Ly Lz).rowsH v →
      min Ly (Lx * Lz) ≤ pauliWeight v := by
  have h1x : 1 ≤ Lx := by have := hF.1; omega
  have h1y : 1 ≤ Ly := by have := hF.2.1; omega
  apply Lattice.packing_bound (lattice Lx Ly Lz) hwf (by rw [lattice_qubits]; exact hn) hv
  intro a ha
  rw [lattice_logX, lattice_logZ, logX_OE h1x h1y hx hy, logZ_odd (by omega) hF.2.2] at ha
  rw [lattice_qubits]
  simp only [List.cons_append, List.nil_append, List.mem_cons, List.not_mem_nil, or_false] at ha
  rcases ha with rfl | rfl
  · obtain ⟨h1, h2, h3⟩ := reps_colFam (Lx := Lx) (Ly := Ly) (Lz := Lz) Pauli.X hLz
    refine ⟨_, by rw [h1]; exact Nat.min_le_right _ _, h2, h3, ?_⟩
    intro b _ _ hb r hr
    obtain ⟨t, ht, rfl⟩ := List.mem_map.mp hr
    have ht' := List.mem_range.mp ht
    have hi : t / Lz < Lx := Nat.div_lt_of_lt_mul (by rw [Nat.mul_comm]; exact ht')
    have hk : t % Lz < Lz := Nat.mod_lt _ (by omega)
    unfold colFam
    rw [opAntiCount_perm (LK_fXx_perm h1x hLz), opAntiCount_constOp_hit, opAntiCount_constOp_hit,
      count_colK b (r1_idx hi) (r1_idx hk), count_colK b (r1_one h1x) (r1_one hLz)]
    exact xCol_any_OE hF hx hy hb hi hk
  · obtain ⟨h1, h2, h3⟩ := reps_wallsY (Lx := Lx) (Ly := Ly) (Lz := Lz) Pauli.Y
    refine ⟨_, by rw [h1]; exact Nat.min_le_left _ _, h2, h3, ?_⟩
    intro b _ _ hb r hr
    obtain ⟨i, hi, rfl⟩ := List.mem_map.mp hr
    rw [opAntiCount_perm (LK_fY_perm_OE h1y hx hy), opAntiCount_constOp_hit,
      opAntiCount_constOp_hit, count_wallYK_Y b (r1_idx (List.mem_range.mp hi)),
      count_wallYK_Y b (r1_one h1y)]
    exact yWall_all hF hb i (List.mem_range.mp hi)

/-- even × odd -/
theorem lower_bound_EO (hF : Fam Lx Ly) (hx : Lx % 2 = 0) (hy : Ly % 2 = 1) (hLz : 1 ≤ Lz)
    (hwf : (lattice Lx Ly Lz).WF) {n : Nat} (hn : (qubits Lx Ly Lz).length = n)
    (hv : ValidCodeL n 1 (lattice Lx Ly Lz).rowsH (lattice Lx Ly Lz).rowsX
      (lattice Lx Ly Lz).rowsZ) :
    ∀ v, IsNontrivialLogical n (lattice Lx Ly Lz).rowsH v →
      min Lx (Ly * Lz) ≤ pauliWeight v := by
  have h1x : 1 ≤ Lx := by have := hF.1; omega
  have h1y : 1 ≤ Ly := by have := hF.2.1; omega
  apply Lattice.packing_bound (lattice Lx Ly Lz) hwf (by rw [lattice_qubits]; exact hn) hv
  intro a ha
  rw [lattice_logX, lattice_logZ, logX_EO h1x h1y hx hy, logZ_odd (by omega) hF.2.2] at ha
  rw [lattice_qubits]
  simp only [List.cons_append, List.nil_append, List.mem_cons, List.not_mem_nil, or_false] at ha
  rcases ha with rfl | rfl
  · obtain ⟨h1, h2, h3⟩ := reps_rowFam (Lx := Lx) (Ly := Ly) (Lz := Lz) Pauli.X hLz
    refine ⟨_, by rw [h1]; exact Nat.min_le_right _ _, h2, h3, ?_⟩
    intro b _ _ hb r hr
    obtain ⟨t, ht, rfl⟩ := List.mem_map.mp hr
    have ht' := List.mem_range.mp ht
    have hi : t / Lz < Ly := Nat.div_lt_of_lt_mul (by rw [Nat.mul_comm]; exact ht')
    have hk : t % Lz < Lz := Nat.mod_lt _ (by omega)
    unfold rowFam
    rw [opAntiCount_perm (LK_fXy_perm h1y hLz), opAntiCount_constOp_hit, opAntiCount_constOp_hit,
      count_rowK b (r1_idx hi) (r1_idx hk), count_rowK b (r1_one h1y) (r1_one hLz)]
    exact xRow_any_EO hF hx hy hb hi hk
  · obtain ⟨h1, h2, h3⟩ := reps_wallsX (Lx := Lx) (Ly := Ly) (Lz := Lz) Pauli.Y
    refine ⟨_, by rw [h1]; exact Nat.min_le_left _ _, h2, h3, ?_⟩
    intro b _ _ hb r hr
    obtain ⟨i, hi, rfl⟩ := List.mem_map.mp hr
    rw [opAntiCount_perm (LK_fY_perm_EO h1x hx hy), opAntiCount_constOp_hit,
      opAntiCount_constOp_hit, count_wallXK_Y b (r1_idx (List.mem_range.mp hi)),
      count_wallXK_Y b (r1_one h1x)]
    exact xWall_all hF hb i (List.mem_range.mp hi)

end Panqec.RotatedToric3DCode
