/-
From the parity form of operator-level independence used by the 3-D lattice models
(`Cubic3D.OpsIndep`, `Proofs/LatCubic3DRank.lean`: no non-empty sub-family has even X- and
Z-parity on every location) to the probe form of the 2-D bridge (`Lat2D.IndepGenerators`,
`Proofs/Lat2DRank.lean`: every non-empty duplicate-free sub-family is anticommuted an odd number
of times by some Pauli operator on the qubits), and from there — `Proofs/Lat2DRankBridge.lean`,
`Proofs/OpComm.lean` — to the rank clause of the assembled parity-check matrix and `ValidCodeL`:

  `Lattice.WF` + `Lattice.CommPair` + a duplicate-free family `B ⊆ l.stabs` of `n − k` locations
  with `OpsIndep (B.map l.getStab)`  ⇒  `HasRank (2n) l.rowsH (n − k)`  ⇒  `ValidCodeL`.

`B` may be listed in any order (the basis handed to `HasRank` is the sub-list of `l.stabs` with
the same members).  A location with odd X-parity is probed by a single `Z`, one with odd
Z-parity by a single `X`.  Generic in the lattice.
-/
import PanqecVerif.Proofs.Lat2DRankSubset
import PanqecVerif.Proofs.LatCubic3DRank

namespace Panqec.Cubic3D
open Panqec.Lat2D

/-- a single `Z` anticommutes with `op` exactly when `op` has an X component there -/
theorem opAntiCount_probeZ (q : Coord) (op : Op) :
    opAntiCount [(q, Pauli.Z)] op = if hitX op q = true then 1 else 0 := by
  unfold opAntiCount hitX
  cases h : op.get? q with
  | none => simp [h]
  | some p => cases p <;> simp [h, Pauli.anti]

/-- a single `X` anticommutes with `op` exactly when `op` has a Z component there -/
theorem opAntiCount_probeX (q : Coord) (op : Op) :
    opAntiCount [(q, Pauli.X)] op = if hitZ op q = true then 1 else 0 := by
  unfold opAntiCount hitZ
  cases h : op.get? q with
  | none => simp [h]
  | some p => cases p <;> simp [h, Pauli.anti]

theorem sum_indicator_eq_countP {α} (p : α → Bool) : ∀ T : List α,
    (T.map fun t => if p t = true then 1 else 0).sum = T.countP p
  | [] => rfl
  | a :: T => by
    have ih := sum_indicator_eq_countP p T
    by_cases h : p a = true <;> simp [h, ih]; omega

theorem get?_some_mem {op : Op} {q : Coord} {p : Pauli} (h : op.get? q = some p) :
    ∃ e ∈ op, e.1 = q := by
  unfold Op.get? at h
  cases hf : op.find? (·.1 == q) with
  | none => rw [hf] at h; cases h
  | some e =>
    refine ⟨e, List.mem_of_find?_eq_some hf, ?_⟩
    have := List.find?_some hf
    simpa using this

theorem key_of_hitX {op : Op} {q : Coord} (h : hitX op q = true) : ∃ e ∈ op, e.1 = q := by
  unfold hitX at h
  cases hg : op.get? q with
  | none => rw [hg] at h; cases h
  | some p => exact get?_some_mem hg

theorem key_of_hitZ {op : Op} {q : Coord} (h : hitZ op q = true) : ∃ e ∈ op, e.1 = q := by
  unfold hitZ at h
  cases hg : op.get? q with
  | none => rw [hg] at h; cases h
  | some p => exact get?_some_mem hg

theorem exists_of_countP_odd {α} (p : α → Bool) (T : List α) (h : T.countP p % 2 = 1) :
    ∃ t ∈ T, p t = true := by
  have : 0 < T.countP p := by omega
  exact List.countP_pos_iff.mp this

/-- parity-form independence ⇒ probe-form independence (any order of `B`) -/
theorem indepGenerators_of_opsIndep (l : Lattice) (hwf : l.WF) (B : List Coord) (hB : B.Nodup)
    (hsub : ∀ s ∈ B, s ∈ l.stabs) (h : OpsIndep (B.map l.getStab)) : IndepGenerators l B := by
  intro T hTnd hTB hTne
  -- the members of `T` in the order of `B`
  have hS'sub : (B.filter fun s => decide (s ∈ T)).Sublist B := List.filter_sublist
  have hperm : (B.filter fun s => decide (s ∈ T)).Perm T := by
    apply (List.perm_ext_iff_of_nodup (hB.sublist hS'sub) hTnd).mpr
    intro a
    simp only [List.mem_filter, decide_eq_true_eq]
    exact ⟨fun h => h.2, fun h => ⟨hTB a h, h⟩⟩
  have hne : (B.filter fun s => decide (s ∈ T)).map l.getStab ≠ [] := by
    intro h0
    have h1 : (B.filter fun s => decide (s ∈ T)) = [] := List.map_eq_nil_iff.mp h0
    rw [h1] at hperm
    exact hTne hperm.symm.eq_nil
  have hex : ∃ q, (T.countP fun t => hitX (l.getStab t) q) % 2 = 1 ∨
      (T.countP fun t => hitZ (l.getStab t) q) % 2 = 1 := by
    by_contra hno
    apply hne
    apply h _ (hS'sub.map _)
    intro q
    rw [List.countP_map, List.countP_map, hperm.countP_eq, hperm.countP_eq]
    have hq : ¬ ((T.countP fun t => hitX (l.getStab t) q) % 2 = 1 ∨
        (T.countP fun t => hitZ (l.getStab t) q) % 2 = 1) := fun hq => hno ⟨q, hq⟩
    simp only [Function.comp_def]
    omega
  obtain ⟨q, hq | hq⟩ := hex
  · obtain ⟨t, ht, hhit⟩ := exists_of_countP_odd _ T hq
    obtain ⟨e, he, rfl⟩ := key_of_hitX hhit
    refine ⟨[(e.1, Pauli.Z)], by simp, ?_, ?_⟩
    · intro e' he'
      simp only [List.mem_cons, List.not_mem_nil, or_false] at he'
      rw [he']
      exact ⟨(hwf.stab_supported t (hsub t (hTB t ht)) e he).1, fun h => Pauli.noConfusion h⟩
    · simp only [opAntiCount_probeZ]
      rw [sum_indicator_eq_countP]; exact hq
  · obtain ⟨t, ht, hhit⟩ := exists_of_countP_odd _ T hq
    obtain ⟨e, he, rfl⟩ := key_of_hitZ hhit
    refine ⟨[(e.1, Pauli.X)], by simp, ?_, ?_⟩
    · intro e' he'
      simp only [List.mem_cons, List.not_mem_nil, or_false] at he'
      rw [he']
      exact ⟨(hwf.stab_supported t (hsub t (hTB t ht)) e he).1, fun h => Pauli.noConfusion h⟩
    · simp only [opAntiCount_probeX]
      rw [sum_indicator_eq_countP]; exact hq

/-- the rank clause on the assembled parity-check matrix from a parity-form independent family
    of `n − k` distinct stabilizer locations (in any order) -/
theorem hasRank_of_opsIndep (l : Lattice) (hwf : l.WF) (hcp : l.CommPair) (B : List Coord)
    (hB : B.Nodup) (hsub : ∀ s ∈ B, s ∈ l.stabs)
    (hcount : B.length = l.toCodeData.n - l.toCodeData.k)
    (hind : OpsIndep (B.map l.getStab)) :
    HasRank (2 * l.qubits.length) l.rowsH (l.qubits.length - l.logX.length) := by
  apply hasRank_of_indepGenerators_subset l hwf hcp B hB hsub
    (indepGenerators_of_opsIndep l hwf B hB hsub hind)
  rw [hcount]
  change l.qubits.length - l.logX.length + l.logX.length = l.qubits.length
  have : l.logX.length ≤ l.qubits.length := (Lattice.commPairL_rows hwf hcp).k_le
  omega

/-- a well-formed lattice model with the operator-level commutation / pairing clauses and a
    parity-form independent family of `n − k` distinct generators assembles into a valid
    `[[n, k]]` code -/
theorem validCode_of_opsIndep (l : Lattice) (hwf : l.WF) (hcp : l.CommPair) (B : List Coord)
    (hB : B.Nodup) (hsub : ∀ s ∈ B, s ∈ l.stabs)
    (hcount : B.length = l.toCodeData.n - l.toCodeData.k)
    (hind : OpsIndep (B.map l.getStab)) :
    stabilizerMatrix l.toCodeData = some l.rowsH ∧
    logicalsX l.toCodeData = some l.rowsX ∧
    logicalsZ l.toCodeData = some l.rowsZ ∧
    ValidCodeL l.toCodeData.n l.toCodeData.k l.rowsH l.rowsX l.rowsZ :=
  ⟨Lattice.stabilizerMatrix_eq hwf, Lattice.logicalsX_eq hwf, Lattice.logicalsZ_eq hwf,
    (Lattice.commPairL_rows hwf hcp).toValid
      (hasRank_of_opsIndep l hwf hcp B hB hsub hcount hind)⟩

end Panqec.Cubic3D
