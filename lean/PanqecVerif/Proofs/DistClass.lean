/-
C17, generic: representatives that are equivalent to a listed logical only THROUGH C04.

`packing_lower_bound_symp` / `Lattice.packing_bound` need, for every representative `r` of a listed
logical `a`, that every operator commuting with all generators has the same symplectic product
with `r` as with `a`.  When `r ⊕ a` is not the product of a handful of neighbouring generators
(e.g. a closed straight line of the 6.6.6 toric colour code, which is homologous to the listed
zig-zag only modulo 2: the generators whose product relates them fill half of the torus), the C04
theorem gives it from finitely many symplectic products: `r` and `a` commute with all generators
and have the same products with the `2k` listed logicals, hence `r ⊕ a` is a product of generators
(`isSuccess_iff_inSpan`), hence commutes with everything that commutes with the generators.

* `same_class_symp` — the statement on binary vectors;
* `Lattice.same_class` — the statement on dict operators of a lattice model.
-/
import PanqecVerif.Proofs.DistLattice

namespace Panqec

/-- two operators that commute with all generators of a valid code and have the same symplectic
    products with all listed logicals have the same symplectic product with every operator that
    commutes with all generators -/
theorem same_class_symp {n k : Nat} {H Lx Lz : List (List Nat)} (hv : ValidCodeL n k H Lx Lz)
    {r l : List Nat} (hr : r.length = 2 * n) (hl : l.length = 2 * n)
    (hrc : ∀ g ∈ H, symp g r = 0) (hlc : ∀ g ∈ H, symp g l = 0)
    (hlog : ∀ m ∈ Lx ++ Lz, symp m r = symp m l) :
    ∀ v : List Nat, v.length = 2 * n → (∀ g ∈ H, symp g v = 0) → symp r v = symp l v := by
  intro v hvlen hvc
  have hc := hv.toCommPair
  have helen : (vxor l r).length = 2 * n := by rw [vxor_length_alg l r (by rw [hl, hr]), hl]
  have hebin : ∀ x ∈ vxor l r, x < 2 := by
    intro x hx
    simp only [vxor, List.mem_map] at hx
    obtain ⟨y, _, rfl⟩ := hx
    omega
  have hsum : ∀ m : List Nat, symp m r = symp m l → symp m (vxor l r) = 0 := by
    intro m hm
    rw [symp_vxor_right m l r (by rw [hl, hr]), hm]
    omega
  have hs : isSuccess .wide H Lx Lz (vxor l r) = true := by
    unfold isSuccess
    rw [Bool.and_eq_true, Bool.not_eq_true', inCodespace_iff, isLogicalError_eq_false_iff]
    refine ⟨fun g hg => hsum g (by rw [hrc g hg, hlc g hg]), fun m hm => hsum m ?_,
      fun m hm => hsum m ?_⟩
    · exact hlog m (List.mem_append.mpr (Or.inr hm))
    · exact hlog m (List.mem_append.mpr (Or.inl hm))
  have hspan := (isSuccess_iff_inSpan hv .wide _ helen hebin).mp hs
  have h0 : symp v (vxor l r) = 0 :=
    symp_inSpan_zero hc.lenH hvlen (fun g hg => by rw [symp_comm]; exact hvc g hg) hspan
  rw [symp_vxor_right v l r (by rw [hl, hr]), symp_comm v l, symp_comm v r] at h0
  have := symp_lt_two r v
  have := symp_lt_two l v
  omega

/-- the same on the dict operators of a lattice model: a dict `r` on the qubits that commutes with
    all generators and anticommutes with every listed logical on as many qubits (mod 2) as the
    dict `a` does is, for the packing bound, as good as `a` -/
theorem Lattice.same_class (l : Lattice) (hwf : l.WF) {n k : Nat} (hn : l.qubits.length = n)
    (hv : ValidCodeL n k l.rowsH l.rowsX l.rowsZ) {r a : Op}
    (hr : KeysNodup r ∧ opSupported l.qubits r = true)
    (ha : KeysNodup a ∧ opSupported l.qubits a = true)
    (hrc : ∀ s ∈ l.stabs, opAntiCount (l.getStab s) r % 2 = 0)
    (hac : ∀ s ∈ l.stabs, opAntiCount (l.getStab s) a % 2 = 0)
    (hlog : ∀ m ∈ l.logX ++ l.logZ, opAntiCount m r % 2 = opAntiCount m a % 2) :
    ∀ b : Op, (∀ s ∈ l.stabs, opAntiCount (l.getStab s) b % 2 = 0) →
      opAntiCount r b % 2 = opAntiCount a b % 2 := by
  subst hn
  intro b hb
  have hnd := hwf.qubits_nodup
  have hstab : ∀ (o : Op), (∀ s ∈ l.stabs, opAntiCount (l.getStab s) o % 2 = 0) →
      ∀ g ∈ l.rowsH, symp g (opRow l.qubits o) = 0 := by
    intro o ho g hg
    obtain ⟨op, hop, rfl⟩ := List.mem_map.mp hg
    obtain ⟨s, hs, rfl⟩ := List.mem_map.mp hop
    have hd := hwf.stabs_dicts (l.getStab s) (List.mem_map.mpr ⟨s, hs, rfl⟩)
    rw [symp_opRow l.qubits hnd _ _ hd.1 hd.2]
    exact ho s hs
  have h := same_class_symp hv (opRow_length l.qubits r) (opRow_length l.qubits a)
    (hstab r hrc) (hstab a hac) (by
      intro m hm
      have hm' : m ∈ (l.logX ++ l.logZ).map (opRow l.qubits) := by
        rw [List.map_append]; exact hm
      obtain ⟨o, ho, rfl⟩ := List.mem_map.mp hm'
      have hd : KeysNodup o ∧ opSupported l.qubits o = true :=
        ⟨hwf.log_keys o ho, Lattice.WF.opSupported_of (hwf.log_supported o ho)⟩
      rw [symp_opRow l.qubits hnd _ _ hd.1 hd.2, symp_opRow l.qubits hnd _ _ hd.1 hd.2]
      exact hlog o ho)
    (opRow l.qubits b) (opRow_length l.qubits b) (hstab b hb)
  rw [symp_opRow l.qubits hnd _ _ hr.1 hr.2, symp_opRow l.qubits hnd _ _ ha.1 ha.2] at h
  exact h

end Panqec
