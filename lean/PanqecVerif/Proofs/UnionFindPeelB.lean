/-
Union-find internals (C05), peeling, part B: one round of `Peeling_Tree.peel` preserves the
invariant `PInv` and removes at least one stabilizer.
-/
import Mathlib.Data.List.Nodup
import PanqecVerif.Proofs.UnionFindPeelA

namespace Panqec.UF

set_option linter.unusedSimpArgs false
set_option linter.unusedVariables false

theorem subH_true (H : Mat) (stabs qubits : Nat → Bool) (s q : Nat) :
    subH H stabs qubits s q = true ↔ hb H s q = true ∧ qubits q = true ∧ stabs s = true := by
  unfold subH; simp only [Bool.and_eq_true]; tauto

theorem adjq_true (H : Mat) (stabs qubits : Nat → Bool) (p c q : Nat) :
    adjq H stabs qubits p c q = true ↔
      hb H p q = true ∧ hb H c q = true ∧ qubits q = true ∧ stabs p = true ∧ stabs c = true := by
  unfold adjq; rw [Bool.and_eq_true, subH_true, subH_true]; tauto

/-! ### parents and edge qubits -/

theorem par_filter {H : Mat} {stabs qubits : Nat → Bool} {root : Nat} {S0 : Nat → Nat → Bool}
    (hst : ∀ s, stabs s = true → s < H.length) (T : TreeOK H stabs qubits root S0)
    {p c : Nat} (h : S0 p c = true) : (List.range H.length).filter (fun p' => S0 p' c) = [p] :=
  filter_range_unique _ _ p (hst p (T.mem p c h).1) h (fun i _ hi => T.uniq i p c hi h)

theorem parOf_eq {H : Mat} {stabs qubits : Nat → Bool} {root : Nat} {S0 : Nat → Nat → Bool}
    (hst : ∀ s, stabs s = true → s < H.length) (T : TreeOK H stabs qubits root S0)
    {p c : Nat} (h : S0 p c = true) : parOf H.length S0 c = p := by
  unfold parOf; rw [par_filter hst T h]; rfl

/-- the edge qubit of a tree edge (the first member qubit shared by parent and child) is shared
    by them, and its column is exactly `{p, c}` -/
theorem edge_spec {H : Mat} {stabs qubits : Nat → Bool} {root : Nat} {S0 : Nat → Nat → Bool}
    (G : GraphOK H) (T : TreeOK H stabs qubits root S0) {p c : Nat} (h : S0 p c = true) :
    adjq H stabs qubits p c (eOf H stabs qubits p c) = true ∧
    ∀ s, hb H s (eOf H stabs qubits p c) = true ↔ (s = p ∨ s = c) := by
  obtain ⟨hp, hc, hne, q, hq⟩ := T.mem p c h
  have hq' := (adjq_true H stabs qubits p c q).mp hq
  have hmem : q ∈ (List.range (ncols H)).filter (fun q => adjq H stabs qubits p c q) := by
    rw [mem_filter_range]; exact ⟨(G.inRange p q hq'.1).2, hq⟩
  have he : adjq H stabs qubits p c (eOf H stabs qubits p c) = true := by
    unfold eOf
    cases hf : (List.range (ncols H)).filter (fun q => adjq H stabs qubits p c q) with
    | nil => rw [hf] at hmem; simp at hmem
    | cons a l =>
      have ha : a ∈ (List.range (ncols H)).filter (fun q => adjq H stabs qubits p c q) := by
        rw [hf]; simp
      exact (List.mem_filter.mp ha).2
  have he' := (adjq_true H stabs qubits p c _).mp he
  refine ⟨he, ?_⟩
  intro s
  constructor
  · intro hs
    rcases G.col2 _ s p c hs he'.1 he'.2.1 with h1 | h1 | h1
    · exact Or.inl h1
    · exact Or.inr h1
    · exact absurd h1 hne
  · rintro (rfl | rfl)
    · exact he'.1
    · exact he'.2.1

/-! ### facts that follow from the invariant -/

section
variable {H : Mat} {stabs qubits : Nat → Bool} {root : Nat} {S0 : Nat → Nat → Bool}
  {syn0 : Nat → Bool} {al : Nat → Bool} {st : PeelSt}

/-- every alive stabilizer other than the root has an alive parent -/
theorem alive_parent (T : TreeOK H stabs qubits root S0) (I : PInv H stabs qubits S0 syn0 al st)
    {c : Nat} (hc : al c = true) (hne : c ≠ root) : ∃ p, S0 p c = true ∧ al p = true := by
  obtain ⟨p, hp⟩ := T.span c (I.al_stabs c hc) hne
  exact ⟨p, hp, I.al_up p c hp hc⟩

theorem leaf_alive (I : PInv H stabs qubits S0 syn0 al st) {c : Nat} (hc : c ∈ st.leaves) :
    al c = true := ((I.leaves_iff c).mp hc).1

/-- a leaf has no alive child -/
theorem leaf_no_child (I : PInv H stabs qubits S0 syn0 al st) {v c : Nat} (hv : v ∈ st.leaves)
    (h : S0 v c = true) : al c = false := by
  have := ((I.leaves_iff v).mp hv).2 c
  rw [I.S_eq, h] at this
  simpa using this

/-- if the root is a leaf, it is the only stabilizer left and carries no defect -/
theorem root_leaf_done (hst : ∀ s, stabs s = true → s < H.length)
    (T : TreeOK H stabs qubits root S0) (I : PInv H stabs qubits S0 syn0 al st)
    (hr : root ∈ st.leaves) : ∀ s, st.syn s = false := by
  obtain ⟨lv, B, hlv⟩ := T.lv
  have only : ∀ k v, lv v ≤ k → al v = true → v = root := by
    intro k
    induction k with
    | zero =>
      intro v hk hv
      by_contra hne
      obtain ⟨p, hp, _⟩ := alive_parent T I hv hne
      have := (hlv p v hp).1; omega
    | succ k ih =>
      intro v hk hv
      by_contra hne
      obtain ⟨p, hp, hap⟩ := alive_parent T I hv hne
      have hpr : p = root := ih p (by have := (hlv p v hp).1; omega) hap
      subst hpr
      have := leaf_no_child I hr hp
      rw [hv] at this; exact absurd this (by simp)
  have supp : ∀ s, st.syn s = true → s = root := fun s hs => only (lv s) s (Nat.le_refl _) (I.syn_al s hs)
  have hrm : root < H.length := hst root T.rootMem
  have hc : cnt H.length st.syn = b2n (st.syn root) := by
    have h1 := cnt_update' H.length (fun _ => false) root hrm (st.syn root)
    have h2 : cnt H.length (fun _ => false) = 0 := cnt_eq_zero _ _ (fun _ _ => rfl)
    have h3 : cnt H.length st.syn = cnt H.length (fun j => if j = root then st.syn root else false) := by
      apply cnt_congr
      intro i _
      by_cases hi : i = root
      · simp [hi]
      · simp only [hi, if_false]
        cases hs : st.syn i
        · rfl
        · exact absurd (supp i hs) hi
    beta_reduce at h1
    rw [h2] at h1
    rw [h3]; simp only [b2n_false] at h1; omega
  have hev := I.even
  rw [hc] at hev
  have hroot : st.syn root = false := by
    cases h : st.syn root
    · rfl
    · rw [h] at hev; simp at hev
  intro s
  cases hs : st.syn s
  · rfl
  · have := supp s hs; subst this; rw [hroot] at hs; exact absurd hs (by simp)

/-- some alive stabilizer ⇒ some leaf -/
theorem exists_leaf (T : TreeOK H stabs qubits root S0) (I : PInv H stabs qubits S0 syn0 al st)
    {v : Nat} (hv : al v = true) : ∃ w, w ∈ st.leaves := by
  obtain ⟨lv, B, hlv⟩ := T.lv
  have key : ∀ k v, B - lv v ≤ k → al v = true → ∃ w, w ∈ st.leaves := by
    intro k
    induction k with
    | zero =>
      intro v hk hv
      refine ⟨v, (I.leaves_iff v).mpr ⟨hv, ?_⟩⟩
      intro c
      rw [I.S_eq]
      cases h : S0 v c
      · rfl
      · have := hlv v c h; omega
    | succ k ih =>
      intro v hk hv
      by_cases hch : ∃ c, S0 v c = true ∧ al c = true
      · obtain ⟨c, hc, hac⟩ := hch
        exact ih c (by have := hlv v c hc; omega) hac
      · refine ⟨v, (I.leaves_iff v).mpr ⟨hv, ?_⟩⟩
        intro c
        rw [I.S_eq]
        cases h : S0 v c
        · rfl
        · cases h2 : al c
          · rfl
          · exact absurd ⟨c, h, h2⟩ hch
  exact key _ v (Nat.le_refl _) hv

/-- `np.where(child_to_p[curr_leaves_ind].toarray())[1]` is the list of parents, aligned with
    the leaves -/
theorem parents_eq (hst : ∀ s, stabs s = true → s < H.length)
    (T : TreeOK H stabs qubits root S0) (I : PInv H stabs qubits S0 syn0 al st)
    (hroot : root ∉ st.leaves) :
    (st.leaves.flatMap fun c => (List.range H.length).filter fun p => st.S p c) =
      st.leaves.map (parOf H.length S0) := by
  apply flatMap_singleton_eq_map
  intro c hc
  have hac := leaf_alive I hc
  have hne : c ≠ root := fun h => hroot (h ▸ hc)
  obtain ⟨p, hp, _⟩ := alive_parent T I hac hne
  have : (fun p' => st.S p' c) = (fun p' => S0 p' c) := by
    funext p'; rw [I.S_eq, hac]; simp
  rw [this, par_filter hst T hp, parOf_eq hst T hp]

/-- a leaf's parent edge -/
theorem leaf_edge (hst : ∀ s, stabs s = true → s < H.length)
    (T : TreeOK H stabs qubits root S0) (I : PInv H stabs qubits S0 syn0 al st)
    (hroot : root ∉ st.leaves) {c : Nat} (hc : c ∈ st.leaves) :
    S0 (parOf H.length S0 c) c = true := by
  have hac := leaf_alive I hc
  have hne : c ≠ root := fun h => hroot (h ▸ hc)
  obtain ⟨p, hp, _⟩ := alive_parent T I hac hne
  rw [parOf_eq hst T hp]; exact hp

end

end Panqec.UF
