/-
RotatedPlanar3DCode lattice model: assembly of the operator-level commutation clauses
(`Lattice.CommPair`) for every lattice size `Lx, Ly, Lz ≥ 1`.
-/
import PanqecVerif.Proofs.LatRotatedPlanar3DCode2b
import PanqecVerif.Proofs.LatRotatedPlanar3DCode3
open Panqec Panqec.Lat3Db
namespace Panqec.RotatedPlanar3DCode

/-- key list of a vertex operator -/
def IsVertexKeys (Lx Ly Lz : Nat) (k : List Coord) : Prop :=
  ∃ x y z, SV Lx Ly Lz x y z ∧ k = vertexKeys Lx Ly Lz x y z

/-- key list of a face operator (any of the three kinds) -/
def IsFaceKeys (Lx Ly Lz : Nat) (k : List Coord) : Prop :=
  (∃ a b c, SH Lx Ly Lz a b c ∧ k = faceZKeys Lx Ly Lz a b c) ∨
  (∃ a b c, SF Lx Ly Lz a b c ∧ (a + b) % 4 = 0 ∧ k = faceXKeys Lx Ly Lz a b c) ∨
  (∃ a b c, SF Lx Ly Lz a b c ∧ (a + b) % 4 = 2 ∧ k = faceYKeys Lx Ly Lz a b c)

theorem IsVertexKeys.nodup {Lx Ly Lz : Nat} {k : List Coord} (h : IsVertexKeys Lx Ly Lz k) : k.Nodup := by
  obtain ⟨x, y, z, _, rfl⟩ := h
  exact (nodup_vertexLocs x y z).filter _

theorem IsFaceKeys.nodup {Lx Ly Lz : Nat} {k : List Coord} (h : IsFaceKeys Lx Ly Lz k) : k.Nodup := by
  rcases h with ⟨a, b, c, _, rfl⟩ | ⟨a, b, c, _, _, rfl⟩ | ⟨a, b, c, _, _, rfl⟩
  · exact (nodup_faceZLocs a b c).filter _
  · exact (nodup_faceXLocs a b c).filter _
  · exact (nodup_faceYLocs a b c).filter _

theorem IsVertexKeys.qubits {Lx Ly Lz : Nat} {k : List Coord} (h : IsVertexKeys Lx Ly Lz k) :
    ∀ q ∈ k, q ∈ qubits Lx Ly Lz := by
  obtain ⟨x, y, z, _, rfl⟩ := h
  intro q hq
  have := (List.mem_filter.mp hq).2
  unfold isQubit at this
  exact List.contains_iff_mem.mp this

theorem IsFaceKeys.qubits {Lx Ly Lz : Nat} {k : List Coord} (h : IsFaceKeys Lx Ly Lz k) :
    ∀ q ∈ k, q ∈ qubits Lx Ly Lz := by
  rcases h with ⟨a, b, c, _, rfl⟩ | ⟨a, b, c, _, _, rfl⟩ | ⟨a, b, c, _, _, rfl⟩ <;>
  · intro q hq
    have := (List.mem_filter.mp hq).2
    unfold isQubit at this
    exact List.contains_iff_mem.mp this

/-- every stabilizer is a constant-letter operator: Z on a vertex key list or X on a face key list -/
theorem getStab_cases (Lx Ly Lz : Nat) (s : Coord) (hs : s ∈ stabs Lx Ly Lz) :
    (∃ k, IsVertexKeys Lx Ly Lz k ∧ getStab Lx Ly Lz s = constOp k Pauli.Z) ∨
    (∃ k, IsFaceKeys Lx Ly Lz k ∧ getStab Lx Ly Lz s = constOp k Pauli.X) := by
  obtain ⟨x, y, z, rfl⟩ := mem_stabs_shape Lx Ly Lz s hs
  rcases (mem_stabs_iff Lx Ly Lz x y z).mp hs with h | h | h
  · exact Or.inl ⟨_, ⟨x, y, z, h, rfl⟩, getStab_vertex Lx Ly Lz x y z h⟩
  · exact Or.inr ⟨_, Or.inl ⟨x, y, z, h, rfl⟩, getStab_faceZ Lx Ly Lz x y z h⟩
  · rcases SF_mod4 Lx Ly Lz x y z h with h4 | h4
    · exact Or.inr ⟨_, Or.inr (Or.inl ⟨x, y, z, h, h4, rfl⟩), getStab_faceX Lx Ly Lz x y z h h4⟩
    · exact Or.inr ⟨_, Or.inr (Or.inr ⟨x, y, z, h, h4, rfl⟩), getStab_faceY Lx Ly Lz x y z h h4⟩

theorem face_vertex_even {Lx Ly Lz : Nat} {kf kv : List Coord} (hf : IsFaceKeys Lx Ly Lz kf)
    (hv : IsVertexKeys Lx Ly Lz kv) : ovl kf kv % 2 = 0 := by
  obtain ⟨x, y, z, hv, rfl⟩ := hv
  rcases hf with ⟨a, b, c, hf, rfl⟩ | ⟨a, b, c, hf, h4, rfl⟩ | ⟨a, b, c, hf, h4, rfl⟩
  · exact vertex_faceZ Lx Ly Lz x y z a b c hv hf
  · exact vertex_faceX Lx Ly Lz x y z a b c hv hf h4
  · exact vertex_faceY Lx Ly Lz x y z a b c hv hf h4

theorem stab_comm (Lx Ly Lz : Nat) (s t : Coord) (hs : s ∈ stabs Lx Ly Lz) (ht : t ∈ stabs Lx Ly Lz) :
    opCommute (getStab Lx Ly Lz s) (getStab Lx Ly Lz t) = true := by
  rcases getStab_cases Lx Ly Lz s hs with ⟨k, hk, e⟩ | ⟨k, hk, e⟩ <;>
  rcases getStab_cases Lx Ly Lz t ht with ⟨k', hk', e'⟩ | ⟨k', hk', e'⟩ <;> rw [e, e']
  · exact opCommute_constOp_same _ _ _
  · exact opCommute_of_ovl_even' _ _ _ _ hk.nodup hk'.nodup (face_vertex_even hk' hk)
  · exact opCommute_of_ovl_even _ _ _ _ (face_vertex_even hk hk')
  · exact opCommute_constOp_same _ _ _

theorem logX_stab (Lx Ly Lz : Nat) (hy : 1 ≤ Ly) (hz : 1 ≤ Lz) (s : Coord) (hs : s ∈ stabs Lx Ly Lz) :
    opCommute (constOp (logXKeys Lx) Pauli.X) (getStab Lx Ly Lz s) = true := by
  rcases getStab_cases Lx Ly Lz s hs with ⟨k, hk, e⟩ | ⟨k, hk, e⟩ <;> rw [e]
  · obtain ⟨x, y, z, hv, rfl⟩ := hk
    exact opCommute_of_ovl_even' _ _ _ _ (nodup_logXKeys Lx) ((nodup_vertexLocs x y z).filter _)
      (logX_vertex Lx Ly Lz x y z hy hz hv)
  · exact opCommute_constOp_same _ _ _

theorem logZ_stab (Lx Ly Lz : Nat) (hx : 1 ≤ Lx) (s : Coord) (hs : s ∈ stabs Lx Ly Lz) :
    opCommute (constOp (logZKeys Ly Lz) Pauli.Z) (getStab Lx Ly Lz s) = true := by
  rcases getStab_cases Lx Ly Lz s hs with ⟨k, hk, e⟩ | ⟨k, hk, e⟩ <;> rw [e]
  · exact opCommute_constOp_same _ _ _
  · refine opCommute_of_ovl_even' _ _ _ _ (nodup_logZKeys Ly Lz) hk.nodup ?_
    rcases hk with ⟨a, b, c, hf, rfl⟩ | ⟨a, b, c, hf, _, rfl⟩ | ⟨a, b, c, hf, _, rfl⟩
    · exact logZ_faceZ Lx Ly Lz a b c hx hf
    · exact logZ_faceX Lx Ly Lz a b c hx hf
    · exact logZ_faceY Lx Ly Lz a b c hx hf

theorem commPair (Lx Ly Lz : Nat) (hx : 1 ≤ Lx) (hy : 1 ≤ Ly) (hz : 1 ≤ Lz) :
    (lattice Lx Ly Lz).CommPair := by
  refine ⟨?_, ?_, ?_, ?_, ?_, ?_, ?_⟩
  · intro s hs t ht; exact stab_comm Lx Ly Lz s t hs ht
  · intro a ha s hs
    simp only [lattice, logX_eq, List.mem_singleton] at ha
    subst ha; exact logX_stab Lx Ly Lz hy hz s hs
  · intro a ha s hs
    simp only [lattice, logZ_eq, List.mem_singleton] at ha
    subst ha; exact logZ_stab Lx Ly Lz hx s hs
  · simp [lattice, logX_eq, logZ_eq]
  · intro i j hi hj
    simp only [lattice, logX_eq, logZ_eq, List.length_singleton] at hi hj ⊢
    have hi0 : i = 0 := by omega
    have hj0 : j = 0 := by omega
    subst hi0 hj0
    simp only [List.getD_cons_zero, opAntiCount_constOp, if_true]
    have : Pauli.anti Pauli.X Pauli.Z = true := rfl
    simp [this, logX_logZ Lx Ly Lz hx hy hz]
  · intro a ha b hb
    simp only [lattice, logX_eq, List.mem_singleton] at ha hb
    subst ha hb; exact opCommute_constOp_same _ _ _
  · intro a ha b hb
    simp only [lattice, logZ_eq, List.mem_singleton] at ha hb
    subst ha hb; exact opCommute_constOp_same _ _ _

end Panqec.RotatedPlanar3DCode
