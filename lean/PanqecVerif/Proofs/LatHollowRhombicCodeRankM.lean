/-
`HollowRhombicCode`, rank clause, part M: `rankFamily` has `n − 1` members for every size with a
thick hole (`Lx ≥ 4`, `Ly, Lz ≥ 5`): the arithmetic of the box counts of parts H and L.
-/
import Mathlib.Tactic.Ring
import PanqecVerif.Proofs.LatHollowRhombicCodeRankL

set_option linter.unusedVariables false
set_option linter.unusedSimpArgs false
set_option linter.unnecessarySeqFocus false

namespace Panqec.HollowRhombicCode
open Panqec.Lat3Db Panqec.Rhombic

theorem two_half_true (m : Nat) : 2 * half m true = m + m % 2 := by unfold half; simp; omega
theorem two_half_false (m : Nat) : 2 * half m false + m % 2 = m := by unfold half; simp; omega

theorem length_L3 (Lx Ly Lz : Nat) : (L3 Lx Ly Lz).length =
    (Lx - 3) * (Ly - 4) * (Lz - 4) + (1 * (Ly - 4) * (Lz - 4) + ((Lx - 3) * 1 * (Lz - 4) +
    (half ((Lx - 3) * ((Ly - 4) * 1)) true +
     half ((Lx - 3) * ((Ly - 4) * 1)) (((4 : Int) + 4 + (2 * (Lz : Int) - 4)) % 4 == 0)))) := by
  unfold L3
  simp only [List.length_append, length_bx_tt]
  rw [length_bx_chk _ _ _ _ _ _ _ _ (by decide) (by decide),
    length_bx_chk _ _ _ _ _ _ _ _ (by omega) (by decide)]
  rfl

theorem length_L2 (Lx Ly Lz : Nat) : (L2 Lx Ly Lz).length =
    (Lx - 3) * (Ly - 4) * (Lz - 4) + (1 * (Ly - 4) * (Lz - 4) + ((Lx - 3) * 1 * (Lz - 4) +
    (half ((Lx - 3) * ((Ly - 4) * 1)) true +
     half ((Lx - 3) * ((Ly - 4) * 1)) (((4 : Int) + 4 + (2 * (Lz : Int) - 4)) % 4 == 0)))) := by
  unfold L2
  simp only [List.length_append, length_bx_tt]
  rw [length_bx_chk _ _ _ _ _ _ _ _ (by decide) (by decide),
    length_bx_chk _ _ _ _ _ _ _ _ (by omega) (by decide)]
  rfl

theorem length_L1 (Lx Ly Lz : Nat) : (L1 Lx Ly Lz).length =
    (Lx - 1) * 1 * Lz + ((Lx - 3) * 1 * (Lz - 4) + (1 * (Ly - 4) * (Lz - 4) +
    (half ((Lx - 3) * ((Ly - 4) * 1)) true +
     half ((Lx - 3) * ((Ly - 4) * 1)) (((4 : Int) + 4 + (2 * (Lz : Int) - 4)) % 4 == 0)))) := by
  unfold L1
  simp only [List.length_append, length_bx_tt]
  rw [length_bx_chk _ _ _ _ _ _ _ _ (by decide) (by decide),
    length_bx_chk _ _ _ _ _ _ _ _ (by omega) (by decide)]
  rfl

theorem length_L0 (Lx Ly Lz : Nat) : (L0 Lx Ly Lz).length =
    half ((Lx - 3) * ((Ly - 4) * (Lz - 4))) false + (half (1 * ((Ly - 4) * (Lz - 4))) true +
    (half ((Lx - 3) * (1 * (Lz - 4))) true +
     half ((Lx - 3) * ((Ly - 4) * 1)) (((4 : Int) + 4 + (2 * (Lz : Int) - 4)) % 4 == 2))) := by
  unfold L0
  simp only [List.length_append]
  rw [length_bx_chk _ _ _ _ _ _ _ _ (by decide) (by decide),
    length_bx_chk _ _ _ _ _ _ _ _ (by decide) (by decide),
    length_bx_chk _ _ _ _ _ _ _ _ (by decide) (by decide),
    length_bx_chk _ _ _ _ _ _ _ _ (by omega) (by decide)]
  rfl

theorem length_LB0 (Lx Ly Lz : Nat) : (LB0 Lx Ly Lz).length =
    1 * (Ly - 1) * Lz + (half ((Lx - 2) * ((Ly - 1) * (Lz - 1))) false +
    (half (1 * ((Ly - 4) * 1)) true + (half ((Lx - 3) * (1 * 1)) true + qn Lx Ly Lz))) := by
  unfold LB0
  simp only [List.length_append, length_bx_tt, length_qlist]
  rw [length_bx_chk _ _ _ _ _ _ _ _ (by decide) (by decide),
    length_bx_chk _ _ _ _ _ _ _ _ (by decide) (by decide),
    length_bx_chk _ _ _ _ _ _ _ _ (by decide) (by decide)]
  rfl

theorem even_or_odd' (n : Nat) : (∃ k, n = 2 * k) ∨ (∃ k, n = 2 * k + 1) := by
  rcases Nat.mod_two_eq_zero_or_one n with h | h
  · exact Or.inl ⟨n / 2, by omega⟩
  · exact Or.inr ⟨n / 2, by omega⟩

theorem half_even (k : Nat) (e : Bool) : half (2 * k) e = k := by
  unfold half; cases e <;> simp <;> omega
theorem half_odd_true (k : Nat) : half (2 * k + 1) true = k + 1 := by
  unfold half; simp; omega
theorem half_odd_false (k : Nat) : half (2 * k + 1) false = k := by
  unfold half; simp; omega

/-- the cells of even colour of a `p × q` board -/
theorem half_mul_true (p q : Nat) :
    half (p * q) true = half p true * half q true + half p false * half q false := by
  rcases even_or_odd' p with ⟨i, rfl⟩ | ⟨i, rfl⟩ <;> rcases even_or_odd' q with ⟨j, rfl⟩ | ⟨j, rfl⟩
  · rw [show 2 * i * (2 * j) = 2 * (2 * i * j) by ring, half_even, half_even, half_even, half_even,
      half_even]; ring
  · rw [show 2 * i * (2 * j + 1) = 2 * (i * (2 * j + 1)) by ring, half_even, half_even, half_even,
      half_odd_true, half_odd_false]; ring
  · rw [show (2 * i + 1) * (2 * j) = 2 * ((2 * i + 1) * j) by ring, half_even, half_even, half_even,
      half_odd_true, half_odd_false]; ring
  · rw [show (2 * i + 1) * (2 * j + 1) = 2 * (2 * i * j + i + j) + 1 by ring, half_odd_true,
      half_odd_true, half_odd_true, half_odd_false, half_odd_false]; ring

/-- the cells of odd colour of a `p × q` board -/
theorem half_mul_false (p q : Nat) :
    half (p * q) false = half p true * half q false + half p false * half q true := by
  rcases even_or_odd' p with ⟨i, rfl⟩ | ⟨i, rfl⟩ <;> rcases even_or_odd' q with ⟨j, rfl⟩ | ⟨j, rfl⟩
  · rw [show 2 * i * (2 * j) = 2 * (2 * i * j) by ring, half_even, half_even, half_even, half_even,
      half_even]; ring
  · rw [show 2 * i * (2 * j + 1) = 2 * (i * (2 * j + 1)) by ring, half_even, half_even, half_even,
      half_odd_true, half_odd_false]; ring
  · rw [show (2 * i + 1) * (2 * j) = 2 * ((2 * i + 1) * j) by ring, half_even, half_even, half_even,
      half_odd_true, half_odd_false]; ring
  · rw [show (2 * i + 1) * (2 * j + 1) = 2 * (2 * i * j + i + j) + 1 by ring, half_odd_false,
      half_odd_true, half_odd_true, half_odd_false, half_odd_false]; ring

theorem e2 (k : Nat) : 2 * k + 2 = 2 * (k + 1) := by omega
theorem e3 (k : Nat) : 2 * k + 3 = 2 * (k + 1) + 1 := by omega
theorem e4 (k : Nat) : 2 * k + 4 = 2 * (k + 2) := by omega
theorem e5 (k : Nat) : 2 * k + 5 = 2 * (k + 2) + 1 := by omega
theorem e6 (k : Nat) : 2 * k + 6 = 2 * (k + 3) := by omega
theorem e7 (k : Nat) : 2 * k + 7 = 2 * (k + 3) + 1 := by omega
theorem d01 : decide ((0 : Nat) = 1) = false := by decide
theorem d00 : decide ((0 : Nat) = 0) = true := by decide
theorem d11 : decide ((1 : Nat) = 1) = true := by decide
theorem d10 : decide ((1 : Nat) = 0) = false := by decide
theorem half_one_true : half 1 true = 1 := by decide
theorem half_one_false : half 1 false = 0 := by decide


set_option maxHeartbeats 400000 in
/-- the arithmetic of the count, `Lz` odd (`c = Lz − 5` even) -/
theorem arith_even (a b c C T N : Nat) (hc : c % 2 = 0)
    (h1 : C + half (a * (b * c)) false = half ((a + 4) * ((b + 5 + 1) * (c + 4))) true)
    (h2 :   T +
      ((a + 1) * (b + 1) * (c + 1) +
          (1 * (b + 1) * (c + 1) +
            ((a + 1) * 1 * (c + 1) +
              (half ((a + 1) * ((b + 1) * 1)) true + half ((a + 1) * ((b + 1) * 1)) (decide (c % 2 = 1))))) +
        ((a + 1) * (b + 1) * (c + 1) +
            (1 * (b + 1) * (c + 1) +
              ((a + 1) * 1 * (c + 1) +
                (half ((a + 1) * ((b + 1) * 1)) true + half ((a + 1) * ((b + 1) * 1)) (decide (c % 2 = 1))))) +
          (half ((a + 1) * ((b + 1) * (c + 1))) false +
            (half (1 * ((b + 1) * (c + 1))) true +
              (half ((a + 1) * (1 * (c + 1))) true + half ((a + 1) * ((b + 1) * 1)) (decide (c % 2 = 0))))))) =
    (a + 3) * (b + 4) * (c + 5) +
      ((a + 3) * (b + 4) * (c + 5) +
        ((a + 3) * 1 * (c + 5) +
            ((a + 1) * 1 * (c + 1) +
              (1 * (b + 1) * (c + 1) +
                (half ((a + 1) * ((b + 1) * 1)) true + half ((a + 1) * ((b + 1) * 1)) (decide (c % 2 = 1))))) +
          (1 * (b + 4) * (c + 5) +
            (half ((a + 2) * ((b + 4) * (c + 4))) false +
              (half (1 * ((b + 1) * 1)) true + (half ((a + 1) * (1 * 1)) true + c / 2)))))))
    (h3 :   N + ((a + 2) * (b + 1) * (c + 1) + (a + 1) * (b + 2) * (c + 1) + (a + 1) * (b + 1) * (c + 2)) =
    (a + 4) * (b + 5) * (c + 5) + (a + 3) * (b + 4) * (c + 5) + (a + 3) * (b + 5) * (c + 4)) :
    C + T + 1 = N := by
  rw [hc, d01, d00] at h2
  simp only [Nat.one_mul, Nat.mul_one, half_mul_true, half_mul_false] at h1 h2
  obtain ⟨c', rfl⟩ : ∃ c', c = 2 * c' := ⟨c / 2, by omega⟩
  have hd : (2 * c') / 2 = c' := by omega
  rw [hd] at h2
  rcases even_or_odd' a with ⟨a', rfl⟩ | ⟨a', rfl⟩ <;>
  rcases even_or_odd' b with ⟨b', rfl⟩ | ⟨b', rfl⟩ <;>
  (simp only [Nat.add_assoc, Nat.reduceAdd,
      e2, e3, e4, e5, e6, e7, half_even, half_odd_true, half_odd_false] at h1 h2
   ring_nf at h1 h2 h3 ⊢
   omega)

set_option maxHeartbeats 400000 in
/-- the arithmetic of the count, `Lz` even (`c = Lz − 5` odd) -/
theorem arith_odd (a b c C T N : Nat) (hc : c % 2 = 1)
    (h1 : C + half (a * (b * c)) false = half ((a + 4) * ((b + 5 + 1) * (c + 4))) true)
    (h2 :   T +
      ((a + 1) * (b + 1) * (c + 1) +
          (1 * (b + 1) * (c + 1) +
            ((a + 1) * 1 * (c + 1) +
              (half ((a + 1) * ((b + 1) * 1)) true + half ((a + 1) * ((b + 1) * 1)) (decide (c % 2 = 1))))) +
        ((a + 1) * (b + 1) * (c + 1) +
            (1 * (b + 1) * (c + 1) +
              ((a + 1) * 1 * (c + 1) +
                (half ((a + 1) * ((b + 1) * 1)) true + half ((a + 1) * ((b + 1) * 1)) (decide (c % 2 = 1))))) +
          (half ((a + 1) * ((b + 1) * (c + 1))) false +
            (half (1 * ((b + 1) * (c + 1))) true +
              (half ((a + 1) * (1 * (c + 1))) true + half ((a + 1) * ((b + 1) * 1)) (decide (c % 2 = 0))))))) =
    (a + 3) * (b + 4) * (c + 5) +
      ((a + 3) * (b + 4) * (c + 5) +
        ((a + 3) * 1 * (c + 5) +
            ((a + 1) * 1 * (c + 1) +
              (1 * (b + 1) * (c + 1) +
                (half ((a + 1) * ((b + 1) * 1)) true + half ((a + 1) * ((b + 1) * 1)) (decide (c % 2 = 1))))) +
          (1 * (b + 4) * (c + 5) +
            (half ((a + 2) * ((b + 4) * (c + 4))) false +
              (half (1 * ((b + 1) * 1)) true + (half ((a + 1) * (1 * 1)) true + c / 2)))))))
    (h3 :   N + ((a + 2) * (b + 1) * (c + 1) + (a + 1) * (b + 2) * (c + 1) + (a + 1) * (b + 1) * (c + 2)) =
    (a + 4) * (b + 5) * (c + 5) + (a + 3) * (b + 4) * (c + 5) + (a + 3) * (b + 5) * (c + 4)) :
    C + T + 1 = N := by
  rw [hc, d11, d10] at h2
  simp only [Nat.one_mul, Nat.mul_one, half_mul_true, half_mul_false] at h1 h2
  obtain ⟨c', rfl⟩ : ∃ c', c = 2 * c' + 1 := ⟨c / 2, by omega⟩
  have hd : (2 * c' + 1) / 2 = c' := by omega
  rw [hd] at h2
  rcases even_or_odd' a with ⟨a', rfl⟩ | ⟨a', rfl⟩ <;>
  rcases even_or_odd' b with ⟨b', rfl⟩ | ⟨b', rfl⟩ <;>
  (simp only [Nat.add_assoc, Nat.reduceAdd,
      e2, e3, e4, e5, e6, e7, half_even, half_odd_true, half_odd_false] at h1 h2
   ring_nf at h1 h2 h3 ⊢
   omega)

theorem lz_bool (c : Nat) :
    ((((4 : Int) + 4 + (2 * ((c + 5 : Nat) : Int) - 4)) % 4 == 0) = decide (c % 2 = 1)) ∧
    ((((4 : Int) + 4 + (2 * ((c + 5 : Nat) : Int) - 4)) % 4 == 2) = decide (c % 2 = 0)) := by
  rcases Nat.mod_two_eq_zero_or_one c with h | h
  · have : ((4 : Int) + 4 + (2 * ((c + 5 : Nat) : Int) - 4)) % 4 = 2 := by push_cast; omega
    rw [this, h]; decide
  · have : ((4 : Int) + 4 + (2 * ((c + 5 : Nat) : Int) - 4)) % 4 = 0 := by push_cast; omega
    rw [this, h]; decide


/-- `rankFamily` has `n − 1` members: every size with a thick hole -/
theorem thick_count {Lx Ly Lz : Nat} (hx : 4 ≤ Lx) (hy : 5 ≤ Ly) (hz : 5 ≤ Lz) :
    (rankFamily Lx Ly Lz).length + 1 = (qubits Lx Ly Lz).length := by
  have h1 := cubes_count Lx Ly Lz
  have h2 := selTriangles_partition (Lx := Lx) (Ly := Ly) (Lz := Lz) (by omega) (by omega) hz
  have h3 := qubits_length_add Lx Ly Lz
  have hq : qn Lx Ly Lz = (Lz - 5) / 2 := by unfold qn; rw [if_pos (Or.inl ⟨hx, by omega⟩)]
  rw [length_L3, length_L2, length_L1, length_L0, length_LB0, length_bx_tt, length_bx_tt, hq] at h2
  unfold rankFamily
  rw [List.length_append]
  generalize (cubes Lx Ly Lz).length = C at *
  generalize ((triangles Lx Ly Lz).filter (selTri Lx Ly Lz)).length = T at *
  generalize (qubits Lx Ly Lz).length = N at *
  obtain ⟨a, rfl⟩ : ∃ a, Lx = a + 4 := ⟨Lx - 4, by omega⟩
  obtain ⟨b, rfl⟩ : ∃ b, Ly = b + 5 := ⟨Ly - 5, by omega⟩
  obtain ⟨c, rfl⟩ : ∃ c, Lz = c + 5 := ⟨Lz - 5, by omega⟩
  rw [(lz_bool c).1, (lz_bool c).2] at h2
  simp only [show a + 4 - 3 = a + 1 from by omega, show a + 4 - 1 = a + 3 from by omega,
    show a + 4 - 2 = a + 2 from by omega, show a + 4 - 4 = a from by omega,
    show b + 5 - 4 = b + 1 from by omega, show b + 5 - 1 = b + 4 from by omega,
    show b + 5 - 5 = b from by omega, show b + 5 - 3 = b + 2 from by omega,
    show c + 5 - 4 = c + 1 from by omega, show c + 5 - 1 = c + 4 from by omega,
    show c + 5 - 5 = c from by omega, show c + 5 - 3 = c + 2 from by omega] at h1 h2 h3
  rcases Nat.mod_two_eq_zero_or_one c with hc | hc
  · exact arith_even a b c C T N hc h1 h2 h3
  · exact arith_odd a b c C T N hc h1 h2 h3

end Panqec.HollowRhombicCode
