/-
Color666ToricCode, square sizes `L ≥ 1`: an independent family of `n − k = 18L² − 4` generators.
Selected: the X and the Z generator of every face except the faces `(2, 2)` and `(5, 4)` (adjacent,
of two different colours).  The faces form a triangular lattice on the torus (index
`i = (x−2)/3`, `m = (3y−2x−2)/12`), the qubits are its triangles.  Triangular single-qubit probes:

* the faces of the columns `x = 2` and `x = 5` form a zig-zag `z_0, z_1, z_2, …` (`z_{2m} = (2, ·)`,
  `z_{2m+1} = (5, ·)`) in which three consecutive faces share a qubit: `z_0, z_1` are removed and
  `z_k` is probed on the qubit of `{z_{k−2}, z_{k−1}, z_k}`, rank `k`;
* every column `x ≥ 8` after all columns to its left, probed on its left corner `(x−2, y)`, whose two
  other faces are in the column `x − 3`; wrap-around in `y` is harmless.

Core Lean only.
-/
import PanqecVerif.Proofs.Lat2DRank
import PanqecVerif.Proofs.LatColor666ToricCodeG
import PanqecVerif.Proofs.LatColor666ToricCodeCount
import PanqecVerif.Proofs.LatColor488CodeRank

set_option linter.unusedVariables false
set_option linter.unusedSimpArgs false

namespace Panqec.Color666ToricCode
open Panqec.Lat2D Panqec.Color
open Panqec.Color488Code (emod_diff)
open Panqec.Color666PlanarCode (length_both)

/-! `selFaces`, `sel` (the selected stabilizer locations): defined in
    `Model/Lattices/Color666ToricCode.lean` (linked into the driver, op `rankfamily`) -/

theorem mem_sel {L : Nat} {s : Coord} :
    s ∈ sel L ↔ ∃ x y p, s = [x, y, p] ∧ IsF L x y ∧ ¬ (x = 2 ∧ y = 2) ∧ ¬ (x = 5 ∧ y = 4) ∧
      (p = 0 ∨ p = 1) := by
  unfold sel selFaces
  rw [mem_both]
  simp only [List.mem_filter, Bool.and_eq_true, bne_iff_ne, ne_eq]
  constructor
  · rintro ⟨c, ⟨hc, h1, h2⟩, h⟩
    obtain ⟨x, y, rfl, hf⟩ := mem_faces.mp hc
    have h1' : ¬ (x = 2 ∧ y = 2) := fun e => h1 (by rw [e.1, e.2])
    have h2' : ¬ (x = 5 ∧ y = 4) := fun e => h2 (by rw [e.1, e.2])
    rcases h with rfl | rfl
    · exact ⟨x, y, 0, rfl, hf, h1', h2', Or.inl rfl⟩
    · exact ⟨x, y, 1, rfl, hf, h1', h2', Or.inr rfl⟩
  · rintro ⟨x, y, p, rfl, hf, h1, h2, hp⟩
    refine ⟨[x, y], ⟨mem_faces'.mpr hf, ?_, ?_⟩, ?_⟩
    · intro e; simp only [List.cons.injEq, and_true] at e; exact h1 e
    · intro e; simp only [List.cons.injEq, and_true] at e; exact h2 e
    · rcases hp with rfl | rfl
      · exact Or.inl rfl
      · exact Or.inr rfl

theorem nodup_sel (L : Nat) : (sel L).Nodup :=
  nodup_both ((nodup_faces L).sublist List.filter_sublist)

theorem sel_subset {L : Nat} : ∀ s ∈ sel L, s ∈ stabs L L := by
  intro s hs
  obtain ⟨x, y, p, rfl, hc, _, _, hp⟩ := mem_sel.mp hs
  exact mem_stabs'.mpr ⟨hc, hp⟩

/-- `#sel + k = n` -/
theorem length_sel {L : Nat} (hL : 1 ≤ L) : (sel L).length + 4 = 18 * (L * L) := by
  unfold sel
  rw [length_both]
  have h := length_remove_two (faces L L) [2, 2] [5, 4] (nodup_faces L)
    (mem_faces'.mpr (by unfold IsF skew; omega)) (mem_faces'.mpr (by unfold IsF skew; omega))
    (by decide)
  have h2 : 2 * (faces L L).length = 18 * (L * L) := by
    have := length_stabs L
    unfold stabs at this
    rw [length_both] at this
    exact this
  unfold selFaces
  have h3 : 1 ≤ L * L := Nat.mul_pos hL hL
  omega

/-! ### probes and ranks -/

def probeQ (L : Nat) (x y : Int) : Coord :=
  if x = 2 then wrapP L (x + 1) (y + -2)
  else if x = 5 then wrapP L (x + -1) (y + -2)
  else wrapP L (x + -2) (y + 0)

def probe (L : Nat) (s : Coord) : Coord × Pauli :=
  match s with
  | [x, y, p] => (probeQ L x y, if p = 0 then Pauli.Z else Pauli.X)
  | _ => ([], Pauli.I)

def rankI (L : Nat) (x y : Int) : Int :=
  if x ≤ 5 then (3 * y - 2 * x - 2) / 6 + (x - 2) / 3 else 6 * (L : Int) + 2 + (x - 2) / 3

def rankOf (L : Nat) (s : Coord) : Nat :=
  match s with
  | [x, y, _] => (rankI L x y).toNat
  | _ => 0

theorem rankI_spec (L : Nat) (x y : Int) :
    (x ≤ 5 ∧ rankI L x y = (3 * y - 2 * x - 2) / 6 + (x - 2) / 3) ∨
    (5 < x ∧ rankI L x y = 6 * (L : Int) + 2 + (x - 2) / 3) := by
  unfold rankI
  by_cases h : x ≤ 5
  · left; exact ⟨h, by rw [if_pos h]⟩
  · right; exact ⟨by omega, by rw [if_neg h]⟩

theorem probe_mem_own {L : Nat} (hL : 1 ≤ L) (x y : Int) : probeQ L x y ∈ supp L x y := by
  unfold probeQ supp
  by_cases h2 : x = 2
  · rw [if_pos h2]; simp
  · by_cases h5 : x = 5
    · rw [if_neg h2, if_pos h5]; simp
    · rw [if_neg h2, if_neg h5]; simp

/-- a selected face of rank at least that of `s`, other than `s`, does not contain the probe of `s` -/
theorem probe_not_mem {L : Nat} (hL : 1 ≤ L) {x y x' y' : Int} (hs : IsF L x y)
    (h1 : ¬ (x = 2 ∧ y = 2)) (h2 : ¬ (x = 5 ∧ y = 4)) (ht : IsF L x' y')
    (h1' : ¬ (x' = 2 ∧ y' = 2)) (h2' : ¬ (x' = 5 ∧ y' = 4)) (hne : ¬ (x = x' ∧ y = y'))
    (hle : rankI L x y ≤ rankI L x' y') : probeQ L x y ∉ supp L x' y' := by
  intro hmem
  have rs := rankI_spec L x y
  have rt := rankI_spec L x' y'
  have hs' := hs; have ht' := ht
  unfold IsF skew at hs' ht'
  have hex := emod_diff (m := 9 * (L : Int)) (a := x) (b := x') (by omega) (by omega) (by omega)
    (by omega)
  have heu := emod_diff (m := 36 * (L : Int)) (a := 3 * y - 2 * x) (b := 3 * y' - 2 * x')
    (by omega) (by omega) (by omega) (by omega)
  unfold probeQ at hmem
  by_cases c2 : x = 2
  · rw [if_pos c2, hh2 hL hs ht] at hmem
    omega
  · by_cases c5 : x = 5
    · rw [if_neg c2, if_pos c5, hh1 hL hs ht] at hmem
      omega
    · rw [if_neg c2, if_neg c5, hh6 hL hs ht] at hmem
      omega

theorem rankI_nonneg {L : Nat} {x y : Int} (hc : IsF L x y) : 0 ≤ rankI L x y := by
  have := rankI_spec L x y
  unfold IsF skew at hc
  omega

theorem probe_count {L : Nat} (hL : 1 ≤ L) {x y p x' y' p' : Int} (ht : [x', y', p'] ∈ stabs L L) :
    opAntiCount [probe L [x, y, p]] ((lattice L L).getStab [x', y', p']) =
      if Pauli.anti (probe L [x, y, p]).2 (letter p') = true ∧
        (probe L [x, y, p]).1 ∈ supp L x' y'
      then 1 else 0 := by
  rw [getStab_eq hL ht]
  exact opAntiCount_probe _ _ _ _

theorem triangular {L : Nat} (hL : 1 ≤ L) :
    TriangularProbes (lattice L L) (sel L) (probe L) (rankOf L) where
  on_qubits := by
    intro s hs
    obtain ⟨x, y, p, rfl, hc, h1, h2, _⟩ := mem_sel.mp hs
    refine ⟨?_, by show (if p = 0 then Pauli.Z else Pauli.X) ≠ Pauli.I; by_cases hp : p = 0 <;> simp [hp]⟩
    show probeQ L x y ∈ qubits L L
    exact (mem_qubits_faces hL).mpr ⟨x, y, hc, probe_mem_own hL x y⟩
  diag := by
    intro s hs
    obtain ⟨x, y, p, rfl, hc, h1, h2, _⟩ := mem_sel.mp hs
    rw [probe_count hL (sel_subset _ hs)]
    have ha : Pauli.anti (probe L [x, y, p]).2 (letter p) = true := by
      show Pauli.anti (if p = 0 then Pauli.Z else Pauli.X) (letter p) = true
      unfold letter; by_cases hp : p = 0 <;> simp [hp] <;> decide
    rw [if_pos ⟨ha, probe_mem_own hL x y⟩]
  later := by
    intro s hs t ht hne hle
    obtain ⟨x, y, p, rfl, hc, h1, h2, hp⟩ := mem_sel.mp hs
    obtain ⟨x', y', p', rfl, hc', h1', h2', hp'⟩ := mem_sel.mp ht
    rw [probe_count hL (sel_subset _ ht)]
    by_cases hpp : p = p'
    · subst hpp
      have hne' : ¬ (x = x' ∧ y = y') := fun e => hne (by rw [e.1, e.2])
      have hle' : rankI L x y ≤ rankI L x' y' := by
        have a := rankI_nonneg hc; have b := rankI_nonneg hc'
        have : (rankI L x y).toNat ≤ (rankI L x' y').toNat := hle
        omega
      have hm := probe_not_mem hL hc h1 h2 hc' h1' h2' hne' hle'
      rw [if_neg (fun e => hm e.2)]
    · have ha : Pauli.anti (probe L [x, y, p]).2 (letter p') = false := by
        show Pauli.anti (if p = 0 then Pauli.Z else Pauli.X) (letter p') = false
        unfold letter
        rcases hp with rfl | rfl <;> rcases hp' with rfl | rfl <;>
          first | (exact absurd rfl hpp) | decide
      rw [if_neg (fun e => by rw [ha] at e; exact absurd e.1 (by decide))]

/-- the selected generators are independent, for every `L ≥ 1` -/
theorem indep_sel {L : Nat} (hL : 1 ≤ L) : IndepGenerators (lattice L L) (sel L) :=
  indep_of_triangular (triangular hL)

end Panqec.Color666ToricCode
