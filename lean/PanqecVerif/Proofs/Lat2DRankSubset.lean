/-
Order-free form of the rank bridge of `Proofs/Lat2DRankBridge.lean`: the independent family may be
any duplicate-free list `B` of stabilizer locations (a subset, in any order, not necessarily a
sub-list of `l.stabs`).  The basis handed to `HasRank` is the sub-list of `l.stabs` with the same
members; `IndepGenerators` only depends on the set of locations.  Generic in the lattice.
-/
import PanqecVerif.Proofs.Lat2DRankBridge

namespace Panqec.Lat2D

/-- probe-form independence only depends on the set of locations -/
theorem indepGenerators_mono {l : Lattice} {B B' : List Coord} (h : ∀ s ∈ B', s ∈ B)
    (hind : IndepGenerators l B) : IndepGenerators l B' :=
  fun T hnd hsub hne => hind T hnd (fun t ht => h t (hsub t ht)) hne

/-- the members of a duplicate-free `B ⊆ stabs`, in the order of `stabs`: same length -/
theorem length_filter_mem {stabs B : List Coord} (hs : stabs.Nodup) (hB : B.Nodup)
    (hsub : ∀ s ∈ B, s ∈ stabs) : (stabs.filter fun s => decide (s ∈ B)).length = B.length := by
  apply List.Perm.length_eq
  apply (List.perm_ext_iff_of_nodup (hs.sublist List.filter_sublist) hB).mpr
  intro a
  simp only [List.mem_filter, decide_eq_true_eq]
  exact ⟨fun h => h.2, fun h => ⟨hsub a h, h⟩⟩

/-- the rank clause on the assembled parity-check matrix from an independent duplicate-free
    family of `n − k` stabilizer locations, in any order -/
theorem hasRank_of_indepGenerators_subset (l : Lattice) (hwf : l.WF) (hcp : l.CommPair)
    (B : List Coord) (hB : B.Nodup) (hsub : ∀ s ∈ B, s ∈ l.stabs) (hind : IndepGenerators l B)
    (hcount : B.length + l.logX.length = l.qubits.length) :
    HasRank (2 * l.qubits.length) l.rowsH (l.qubits.length - l.logX.length) := by
  apply hasRank_of_indepGenerators l hwf hcp (l.stabs.filter fun s => decide (s ∈ B))
    List.filter_sublist
  · apply indepGenerators_mono _ hind
    intro s hs
    simpa using (List.mem_filter.mp hs).2
  · rw [length_filter_mem hwf.stabs_nodup hB hsub]; exact hcount

/-- a well-formed lattice model with the operator-level commutation / pairing clauses and an
    independent duplicate-free family of `n − k` generators (any order) assembles into a valid
    `[[n, k]]` code -/
theorem validCode_of_lattice_subset (l : Lattice) (hwf : l.WF) (hcp : l.CommPair) (B : List Coord)
    (hB : B.Nodup) (hsub : ∀ s ∈ B, s ∈ l.stabs) (hind : IndepGenerators l B)
    (hcount : B.length + l.logX.length = l.qubits.length) :
    stabilizerMatrix l.toCodeData = some l.rowsH ∧
    logicalsX l.toCodeData = some l.rowsX ∧
    logicalsZ l.toCodeData = some l.rowsZ ∧
    ValidCodeL l.toCodeData.n l.toCodeData.k l.rowsH l.rowsX l.rowsZ :=
  ⟨Lattice.stabilizerMatrix_eq hwf, Lattice.logicalsX_eq hwf, Lattice.logicalsZ_eq hwf,
    (Lattice.commPairL_rows hwf hcp).toValid
      (hasRank_of_indepGenerators_subset l hwf hcp B hB hsub hind hcount)⟩

end Panqec.Lat2D
