/-
Helper lemmas about `Model/Spec.lean`: the Cartesian product in `itertools.product`
order, `mapE`, and the structure of `simsOfRanges` / `simsOfMany` / `simsOfRuns`.
-/
import PanqecVerif.Model.Spec
import Mathlib.Data.List.ProdSigma
import Mathlib.Data.List.Nodup
import Mathlib.Data.List.Forall2

namespace Panqec.Spec

/-! ### `product4` -/

theorem product4_eq_product {α β γ δ : Type} (as : List α) (bs : List β) (cs : List γ)
    (ds : List δ) : product4 as bs cs ds = as ×ˢ (bs ×ˢ (cs ×ˢ ds)) := by
  simp [product4, SProd.sprod, List.product, List.map_flatMap, List.map_map, Function.comp_def]

theorem product4_length {α β γ δ : Type} (as : List α) (bs : List β) (cs : List γ)
    (ds : List δ) :
    (product4 as bs cs ds).length = as.length * bs.length * cs.length * ds.length := by
  rw [product4_eq_product]; simp [List.length_product, Nat.mul_assoc]

theorem mem_product4 {α β γ δ : Type} (as : List α) (bs : List β) (cs : List γ)
    (ds : List δ) (a : α) (b : β) (c : γ) (d : δ) :
    (a, b, c, d) ∈ product4 as bs cs ds ↔ a ∈ as ∧ b ∈ bs ∧ c ∈ cs ∧ d ∈ ds := by
  rw [product4_eq_product]; simp [List.mem_product]

theorem product4_nodup {α β γ δ : Type} (as : List α) (bs : List β) (cs : List γ)
    (ds : List δ) (ha : as.Nodup) (hb : bs.Nodup) (hc : cs.Nodup) (hd : ds.Nodup) :
    (product4 as bs cs ds).Nodup := by
  rw [product4_eq_product]
  exact ha.product (hb.product (hc.product hd))

/-- position `i·k + j` of a `flatMap` whose pieces all have length `k` -/
theorem getElem?_flatMap_uniform {α β : Type} (f : α → List β) (k : Nat) :
    ∀ (l : List α), (∀ x ∈ l, (f x).length = k) → ∀ (i j : Nat) (hi : i < l.length), j < k →
      (l.flatMap f)[i * k + j]? = (f l[i])[j]?
  | [], _, i, _, hi, _ => by simp at hi
  | a :: l, h, 0, j, _, hj => by
    have ha : (f a).length = k := h a (by simp)
    simp only [List.flatMap_cons, Nat.zero_mul, Nat.zero_add, List.getElem_cons_zero]
    rw [List.getElem?_append_left (by omega)]
  | a :: l, h, i + 1, j, hi, hj => by
    have ha : (f a).length = k := h a (by simp)
    have hidx : (i + 1) * k + j = (f a).length + (i * k + j) := by
      rw [ha, Nat.add_mul]; omega
    simp only [List.flatMap_cons, List.getElem_cons_succ]
    rw [hidx, List.getElem?_append_right (by omega)]
    have : (f a).length + (i * k + j) - (f a).length = i * k + j := by omega
    rw [this]
    exact getElem?_flatMap_uniform f k l (fun x hx => h x (by simp [hx])) i j
      (by simpa using hi) hj

theorem length_flatMap_uniform {α β : Type} (f : α → List β) (k : Nat) :
    ∀ (l : List α), (∀ x ∈ l, (f x).length = k) → (l.flatMap f).length = l.length * k
  | [], _ => by simp
  | a :: l, h => by
    simp only [List.flatMap_cons, List.length_append, List.length_cons]
    rw [h a (by simp), length_flatMap_uniform f k l (fun x hx => h x (by simp [hx])), Nat.add_mul]
    omega

theorem idx_lt (j r N M : Nat) (hj : j < N) (hr : r < M) : j * M + r < N * M := by
  have h1 : (j + 1) * M ≤ N * M := Nat.mul_le_mul_right M hj
  rw [Nat.add_mul] at h1
  omega

/-- the tuple `(as[i], bs[j], cs[k], ds[l])` sits at position `((i·|bs|+j)·|cs|+k)·|ds|+l` -/
theorem product4_getElem? {α β γ δ : Type} (as : List α) (bs : List β) (cs : List γ)
    (ds : List δ) (i j k l : Nat) (hi : i < as.length) (hj : j < bs.length)
    (hk : k < cs.length) (hl : l < ds.length) :
    (product4 as bs cs ds)[((i * bs.length + j) * cs.length + k) * ds.length + l]? =
      some (as[i], bs[j], cs[k], ds[l]) := by
  have hH : ∀ (a : α) (b : β) (c : γ), (ds.map fun d => (a, b, c, d)).length = ds.length := by
    intros; simp
  have hG : ∀ (a : α) (b : β),
      (cs.flatMap fun c => ds.map fun d => (a, b, c, d)).length = cs.length * ds.length := by
    intro a b; exact length_flatMap_uniform _ _ cs (fun c _ => hH a b c)
  have hF : ∀ (a : α), (bs.flatMap fun b => cs.flatMap fun c => ds.map fun d => (a, b, c, d)).length
      = bs.length * (cs.length * ds.length) := by
    intro a; exact length_flatMap_uniform _ _ bs (fun b _ => hG a b)
  have e : ((i * bs.length + j) * cs.length + k) * ds.length + l =
      i * (bs.length * (cs.length * ds.length)) + (j * (cs.length * ds.length) + (k * ds.length + l)) := by
    simp only [Nat.add_mul, Nat.mul_assoc, Nat.add_assoc]
  have h3 : k * ds.length + l < cs.length * ds.length := idx_lt k l _ _ hk hl
  have h2 : j * (cs.length * ds.length) + (k * ds.length + l) < bs.length * (cs.length * ds.length) :=
    idx_lt j _ _ _ hj h3
  unfold product4
  rw [e, getElem?_flatMap_uniform _ _ as (fun a _ => hF a) i _ hi h2,
    getElem?_flatMap_uniform _ _ bs (fun b _ => hG as[i] b) j _ hj h3,
    getElem?_flatMap_uniform _ _ cs (fun c _ => hH as[i] bs[j] c) k l hk hl]
  simp [hl]

/-- instantiating two axes pointwise commutes with the product -/
theorem product4_forall₂ {α α' β β' γ δ : Type} (P : α → α' → Prop) (Q : β → β' → Prop)
    (cs : List γ) (ds : List δ) :
    ∀ (as : List α) (as' : List α'), List.Forall₂ P as as' →
    ∀ (bs : List β) (bs' : List β'), List.Forall₂ Q bs bs' →
    List.Forall₂ (fun t t' => P t.1 t'.1 ∧ Q t.2.1 t'.2.1 ∧ t.2.2 = t'.2.2)
      (product4 as bs cs ds) (product4 as' bs' cs ds) := by
  intro as as' ha
  induction ha with
  | nil => intro bs bs' _; simp [product4]
  | @cons a a' as as' hp _ ih =>
    intro bs bs' hb
    have hrow : List.Forall₂ (fun t t' => P t.1 t'.1 ∧ Q t.2.1 t'.2.1 ∧ t.2.2 = t'.2.2)
        (bs.flatMap fun b => cs.flatMap fun c => ds.map fun d => (a, b, c, d))
        (bs'.flatMap fun b => cs.flatMap fun c => ds.map fun d => (a', b, c, d)) := by
      induction hb with
      | nil => simp
      | @cons b b' bs bs' hq _ ihb =>
        simp only [List.flatMap_cons]
        apply List.rel_append _ ihb
        have e1 : ∀ (x : α) (y : β), (cs.flatMap fun c => ds.map fun d => (x, y, c, d)) =
            (cs.flatMap fun c => ds.map fun d => (c, d)).map fun cd => (x, y, cd.1, cd.2) := by
          intro x y; simp [List.map_flatMap, List.map_map, Function.comp_def]
        have e2 : ∀ (x : α') (y : β'), (cs.flatMap fun c => ds.map fun d => (x, y, c, d)) =
            (cs.flatMap fun c => ds.map fun d => (c, d)).map fun cd => (x, y, cd.1, cd.2) := by
          intro x y; simp [List.map_flatMap, List.map_map, Function.comp_def]
        rw [e1, e2, List.forall₂_map_left_iff, List.forall₂_map_right_iff]
        apply List.forall₂_same.mpr
        intro t _
        exact ⟨hp, hq, rfl⟩
    have := ih bs bs' hb
    simp only [product4, List.flatMap_cons] at this ⊢
    exact List.rel_append hrow this

/-! ### `mapE` -/

theorem mapE_ok_iff {α β : Type} (f : α → Except Err β) :
    ∀ (l : List α) (r : List β), mapE f l = .ok r ↔ List.Forall₂ (fun a b => f a = .ok b) l r
  | [], r => by
    simp only [mapE]
    constructor
    · intro h; cases h; exact List.Forall₂.nil
    · intro h; cases h; rfl
  | a :: l, r => by
    simp only [mapE]
    cases hfa : f a with
    | error e =>
      simp only
      constructor
      · intro h; cases h
      · intro h; cases h with
        | cons h1 _ => rw [hfa] at h1; cases h1
    | ok b =>
      simp only
      cases hrest : mapE f l with
      | error e =>
        simp only
        constructor
        · intro h; cases h
        · intro h
          cases h with
          | @cons _ b' _ r' h1 h2 =>
            have := (mapE_ok_iff f l r').mpr h2
            rw [hrest] at this; cases this
      | ok bs =>
        simp only
        constructor
        · intro h; cases h
          exact List.Forall₂.cons hfa ((mapE_ok_iff f l bs).mp hrest)
        · intro h
          cases h with
          | @cons _ b' _ r' h1 h2 =>
            have h3 := (mapE_ok_iff f l r').mpr h2
            rw [hrest] at h3
            rw [hfa] at h1
            cases h1; cases h3; rfl

theorem mapE_length {α β : Type} (f : α → Except Err β) (l : List α) (r : List β)
    (h : mapE f l = .ok r) : r.length = l.length :=
  ((mapE_ok_iff f l r).mp h).length_eq.symm

end Panqec.Spec
