/-
`HollowRhombicCode`, rank clause, part H: the number of cubes (every size): the cubes of the
checkerboard in the box `Lx × (Ly+1) × (Lz−1)` minus those with all eight corners in the hole (the box
`(Lx−4) × (Ly−5) × (Lz−5)` of cube positions, whose first corner `(5, 5, 5)` is off the
checkerboard).  Core Lean only.
-/
import PanqecVerif.Proofs.LatHollowRhombicCodeRankG

set_option linter.unusedVariables false
set_option linter.unusedSimpArgs false

namespace Panqec.HollowRhombicCode
open Panqec.Lat3Db Panqec.Rhombic

theorem cubes_count (Lx Ly Lz : Nat) :
    (cubes Lx Ly Lz).length + half ((Lx - 4) * ((Ly - 5) * (Lz - 5))) false =
      half (Lx * ((Ly + 1) * (Lz - 1))) true := by
  have hA := (spec_cubes Lx Ly Lz).append (spec_bx3 5 (Lx - 4) 5 (Ly - 5) 5 (Lz - 5) (chk 1)) (by
    intro x y z h1 h2
    simp only [chk_iff] at h2
    unfold CubeLoc Hole at h1
    unfold InAp at h2
    omega)
  have hB := spec_bx3 1 Lx (-1) (Ly + 1) 1 (Lz - 1) (chk 1)
  have h := hA.length_eq hB (by
    intro x y z
    simp only [chk_iff]
    unfold CubeLoc Hole InAp
    constructor
    · intro h; omega
    · intro h; omega)
  rw [List.length_append, length_bx3_chk _ _ _ _ _ _ _ (by decide) (by decide),
    length_bx3_chk _ _ _ _ _ _ _ (by decide) (by decide)] at h
  exact h

end Panqec.HollowRhombicCode
