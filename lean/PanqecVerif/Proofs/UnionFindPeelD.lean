/-
Union-find internals (C05), peeling, part D: the `while` loop of `Peeling_Tree.peel`
terminates within `m + 1` rounds on a spanning tree with an even number of defects and returns
a duplicate-free list of member qubits whose boundary is exactly the defect set.
-/
import PanqecVerif.Proofs.UnionFindPeelC

namespace Panqec.UF

set_option linter.unusedSimpArgs false
set_option linter.unusedVariables false

theorem cnt_single (m : Nat) (f : Nat → Bool) (k : Nat) (hk : k < m)
    (h : ∀ i, f i = true → i = k) : cnt m f = b2n (f k) := by
  have h1 := cnt_update' m (fun _ => false) k hk (f k)
  have h2 : cnt m (fun _ => false) = 0 := cnt_eq_zero _ _ (fun _ _ => rfl)
  have h3 : cnt m f = cnt m (fun j => if j = k then f k else false) := by
    apply cnt_congr
    intro i _
    by_cases hi : i = k
    · simp [hi]
    · simp only [hi, if_false]
      cases hs : f i
      · rfl
      · exact absurd (h i hs) hi
  beta_reduce at h1
  rw [h2] at h1
  rw [h3]; simp only [b2n_false] at h1; omega

/-- what `_build_tree` must deliver about the leaf list: duplicate-free, and — unless the
    cluster is the single stabilizer `root` — exactly the member stabilizers without children -/
def LeavesOK (stabs : Nat → Bool) (root : Nat) (S0 : Nat → Nat → Bool) (leaves : List Nat) : Prop :=
  leaves.Nodup ∧
  ((∃ v, stabs v = true ∧ v ≠ root) → ∀ v, v ∈ leaves ↔ (stabs v = true ∧ ∀ c, S0 v c = false))

section
variable {H : Mat} {stabs qubits : Nat → Bool} {root : Nat} {S0 : Nat → Nat → Bool}
  {syn0 : Nat → Bool}

theorem peelLoop_inv (G : GraphOK H) (hst : ∀ s, stabs s = true → s < H.length)
    (T : TreeOK H stabs qubits root S0) :
    ∀ fuel (st : PeelSt) (al : Nat → Bool), PInv H stabs qubits S0 syn0 al st →
      cnt H.length al < fuel →
      ∃ st' al', peelLoop H stabs qubits fuel st = .ok st' ∧
        PInv H stabs qubits S0 syn0 al' st' ∧ (List.range H.length).any st'.syn = false := by
  intro fuel
  induction fuel with
  | zero => intro st al _ h; omega
  | succ fuel ih =>
    intro st al I hfuel
    unfold peelLoop
    cases hany : (List.range H.length).any st.syn
    · exact ⟨st, al, by simp, I, hany⟩
    · simp only [if_true]
      obtain ⟨s, hs, hsyn⟩ := List.any_eq_true.mp hany
      have hroot : root ∉ st.leaves := by
        intro hr
        have := root_leaf_done hst T I hr s
        rw [hsyn] at this; exact absurd this (by simp)
      obtain ⟨w, hw⟩ := exists_leaf T I (I.syn_al s hsyn)
      have hwa := leaf_alive I hw
      have hn : ncols H ≠ 0 := by
        -- the leaf `w` is not the root: it shares a qubit with its parent
        have he := (edge_spec G T (leaf_edge hst T I hroot hw)).1
        have he' := (adjq_true H stabs qubits _ _ _).mp he
        have := (G.inRange _ _ he'.1).2
        omega
      rw [peelRound_eq G hst T I hroot hn]
      simp only []
      have I' := PInv_next G hst T I hroot
      have hlt : cnt H.length (fun v => al v && !decide (v ∈ st.leaves)) < cnt H.length al := by
        apply cnt_lt _ _ _ _ w (hst w (I.al_stabs w hwa)) hwa
        · simp [hw]
        · intro i _ hi
          simp only [Bool.and_eq_true] at hi
          exact hi.1
      exact ih _ _ I' (by omega)

/-- **peeling a spanning tree** (`Peeling_Tree.peel` after `_build_tree`): on a multigraph
    (parallel edges allowed), for a cluster whose member stabilizers are spanned by the tree `S0` and
    carry an even number of defects, the loop terminates within `m + 1` rounds without a shape
    error, and the list it returns is duplicate-free, consists of member qubits, and has
    boundary exactly the defect set: for EVERY row `s` of the full matrix, the number of listed
    qubits in row `s` is odd iff `s` is a defect of the cluster. -/
theorem peelLoop_spec (G : GraphOK H) (hst : ∀ s, stabs s = true → s < H.length)
    (T : TreeOK H stabs qubits root S0) (leaves0 : List Nat) (L : LeavesOK stabs root S0 leaves0)
    (hsyn : ∀ s, syn0 s = true → stabs s = true) (heven : cnt H.length syn0 % 2 = 0) :
    ∃ st', peelLoop H stabs qubits (H.length + 1) ⟨S0, syn0, leaves0, [], []⟩ = .ok st' ∧
      st'.corr.Nodup ∧ (∀ q, q ∈ st'.corr → qubits q = true ∧ q < ncols H) ∧
      ∀ s, (st'.corr.countP (fun q => hb H s q)) % 2 = b2n (syn0 s) := by
  by_cases hdef : ∃ s, syn0 s = true
  · obtain ⟨s, hs⟩ := hdef
    -- an even, nonzero number of defects: the cluster has a stabilizer other than the root
    have hother : ∃ v, stabs v = true ∧ v ≠ root := by
      by_contra hno
      push Not at hno
      have hsup : ∀ i, syn0 i = true → i = root := fun i hi => hno i (hsyn i hi)
      have hc := cnt_single H.length syn0 root (hst root T.rootMem) hsup
      have : s = root := hsup s hs
      subst this
      rw [hc, hs] at heven; simp at heven
    have I : PInv H stabs qubits S0 syn0 stabs ⟨S0, syn0, leaves0, [], []⟩ := by
      refine ⟨?_, fun _ h => h, ?_, ?_, L.1, hsyn, ?_, heven, List.nodup_nil, ?_⟩
      · intro p c
        show S0 p c = (S0 p c && stabs c)
        cases h : S0 p c
        · rfl
        · simp [(T.mem p c h).2.1]
      · intro p c h _; exact (T.mem p c h).1
      · intro v; exact L.2 hother v
      · intro s
        show ((([] : List Nat).countP fun q => hb H s q) + b2n (syn0 s)) % 2 = b2n (syn0 s)
        have := b2n_le (syn0 s)
        simp; omega
      · intro q hq; simp at hq
    obtain ⟨st', al', hrun, I', hdone⟩ :=
      peelLoop_inv G hst T (H.length + 1) _ stabs I (by have := cnt_le H.length stabs; omega)
    refine ⟨st', hrun, I'.corr_nodup, ?_, ?_⟩
    · intro q hq
      obtain ⟨p, c, hpc, _, rfl⟩ := I'.corr_removed q hq
      have := (adjq_true H stabs qubits p c _).mp (edge_spec G T hpc).1
      exact ⟨this.2.2.1, (G.inRange p _ this.1).2⟩
    · intro s
      have hzero : st'.syn s = false := by
        cases hss : st'.syn s
        · rfl
        · have hlt := hst s (I'.al_stabs s (I'.syn_al s hss))
          have : (List.range H.length).any st'.syn = true :=
            List.any_eq_true.mpr ⟨s, List.mem_range.mpr hlt, hss⟩
          rw [hdone] at this; exact absurd this (by simp)
      have := I'.bdry s
      rw [hzero] at this; simpa using this
  · push Not at hdef
    have hall : ∀ s, syn0 s = false := fun s => by
      cases h : syn0 s
      · rfl
      · exact absurd h (hdef s)
    have hany : (List.range H.length).any syn0 = false := by
      rw [List.any_eq_false]; intro x _; simp [hall x]
    refine ⟨⟨S0, syn0, leaves0, [], []⟩, ?_, List.nodup_nil, by simp, ?_⟩
    · unfold peelLoop; simp [hany]
    · intro s; simp [hall s]

end

end Panqec.UF
