/-
`Served` for `Color666ToricCode` (square sizes), whose override rescales the polygon of the
configuration entry (`np.array(vertices) * a`): not a plain assignment, proved directly.
-/
import PanqecVerif.Proofs.GuiReprColor
import PanqecVerif.Properties.C01Color666ToricCode

namespace Panqec.GuiRepr
open Panqec.Gui

/-- the entry of every listed type, in both pictures, has a `vertices` list among its `params` -/
def verticesOk (T : Tables) (cls : String) (types : List String) : Bool :=
  [false, true].all fun rot => types.all fun t =>
    match lookupFull T.cfg cls "stabilizers" (pictureName rot) t with
    | some e =>
      match getKey e.body "params" with
      | some (.obj p) => match getKey p "vertices" with | some (.arr _) => true | _ => false
      | _ => false
    | none => false

theorem verticesOk_unpack {T : Tables} {cls : String} {types : List String}
    (h : verticesOk T cls types = true) (rot : Bool) {t : String} (ht : t ∈ types) {e : REntry}
    (hl : lookupFull T.cfg cls "stabilizers" (pictureName rot) t = some e) :
    ∃ p rows, getKey e.body "params" = some (.obj p) ∧ getKey p "vertices" = some (.arr rows) := by
  unfold verticesOk at h
  have h1 := List.all_eq_true.mp (List.all_eq_true.mp h rot (by cases rot <;> simp)) t ht
  simp only [hl] at h1
  cases hp : getKey e.body "params" with
  | none => simp [hp] at h1
  | some pv =>
    cases pv with
    | obj p =>
      simp only [hp] at h1
      cases hv : getKey p "vertices" with
      | none => simp [hv] at h1
      | some vv =>
        cases vv with
        | arr rows => exact ⟨p, rows, rfl, hv⟩
        | null => simp [hv] at h1
        | bool _ => simp [hv] at h1
        | num _ => simp [hv] at h1
        | str _ => simp [hv] at h1
        | obj _ => simp [hv] at h1
    | null => simp [hp] at h1
    | bool _ => simp [hp] at h1
    | num _ => simp [hp] at h1
    | str _ => simp [hp] at h1
    | arr _ => simp [hp] at h1

/-- `location = v` followed by the rescaling of `params['vertices']` -/
theorem scale_edits_ok {d : Desc} (h : Good d) {p : Dict} {rows : List JV}
    (hp : getKey d "params" = some (.obj p)) (hv : getKey p "vertices" = some (.arr rows)) (v : JV) (b : Bool) :
    ∃ d', applyEdits [.set "location" v, .scaleVertices b] d = .ok d' ∧ Good d' ∧
      getKey d' "location" = some v ∧ getKey d' "type" = getKey d "type" := by
  have hp1 : getKey (setKey d "location" v) "params" = some (.obj p) := by
    rw [getKey_setKey_ne _ _ _ _ (by decide)]; exact hp
  refine ⟨setKey (setKey d "location" v) "params" (.obj (setKey p "vertices" (.arr (scaleRows b rows)))),
    ?_, (h.setKey "location" v (by decide)).setParams _, ?_, ?_⟩
  · unfold applyEdits
    simp only [List.foldlM_cons, List.foldlM_nil, Edit.apply, bind, Except.bind, hp1, hv]
    rfl
  · rw [getKey_setKey_ne _ _ _ _ (by decide), getKey_setKey_self]
  · rw [getKey_setKey_ne _ _ _ _ (by decide), getKey_setKey_ne _ _ _ _ (by decide)]

theorem color666Toric_tables :
    classTablesOk Generated.GuiFull.tables "Color666ToricCode" color666Types = true := by decide +kernel
theorem color666Toric_vertices :
    verticesOk Generated.GuiFull.tables "Color666ToricCode" color666Types = true := by decide +kernel

theorem color666Toric_served (L : Nat) (hL : 1 ≤ L) (name : String) (hn : name = "None" ∨ name = "X3Z3") :
    Served (color666Toric L L) Generated.GuiFull.tables name where
  wf := C01Color666ToricCode.wf L hL
  qubit_ok := by
    intro rot q hq
    have hq' : q ∈ Color666ToricCode.qubits L L := hq
    obtain ⟨a, b, rfl, _⟩ := (Color666ToricCode.mem_qubits hL).mp hq'
    obtain ⟨⟨e, hl, he⟩, _⟩ := classTablesOk_unpack color666Toric_tables rot
    obtain ⟨d, hd, hg, hloc, _⟩ := baseQubit_ok Generated.GuiFull.tables "Color666ToricCode" rot "x" [a, b] e hl he
    refine ⟨d, ?_, hg.complete, hloc⟩
    have hax : (color666Toric L L).qubitAxis [a, b] = some "x" := rfl
    have hcls : (color666Toric L L).cls = "Color666ToricCode" := rfl
    have hed : ∀ r c a', (color666Toric L L).qubitEdits r c a' = [] := fun _ _ _ => rfl
    unfold ClassGeom.qubitRepr
    rw [hax, hcls, hd, hed]; rfl
  stab_ok := by
    intro rot s hs
    have hs' : s ∈ Color666ToricCode.stabs L L := hs
    obtain ⟨x, y, p, rfl, _, hp⟩ := Color666ToricCode.mem_stabs.mp hs'
    have hin : Lat2D.isIn (Color666ToricCode.stabs L L) [x, y, p] = true := List.contains_iff_mem.mpr hs'
    have hty : ∃ t ∈ color666Types, Color666ToricCode.stabilizerType L L [x, y, p] = some t := by
      unfold Color666ToricCode.stabilizerType Color666ToricCode.stabilizerTypeIn
      simp only [hin, Bool.not_true, Bool.false_eq_true, if_false]
      refine ⟨_, ?_, rfl⟩
      rcases hp with rfl | rfl <;> (repeat' split) <;> first | decide | omega
    obtain ⟨t, ht, hty⟩ := hty
    obtain ⟨_, hall⟩ := classTablesOk_unpack color666Toric_tables rot
    obtain ⟨e, hl, he⟩ := hall t ht
    obtain ⟨pp, rows, hpp, hrows⟩ := verticesOk_unpack color666Toric_vertices rot ht hl
    obtain ⟨d, hd, hg, _, htyp, hpar⟩ :=
      baseStab_ok Generated.GuiFull.tables "Color666ToricCode" rot t [x, y, p] e hl he
    obtain ⟨d', h1, h2, h3, h4⟩ := scale_edits_ok hg (hpar.trans hpp) hrows (JV.ints [x, y]) (isXType t)
    have hst : (color666Toric L L).stabType [x, y, p] = some t := hty
    refine ⟨d', ?_, h2.complete, ?_, by rw [h4, htyp, hst]; rfl⟩
    · have hcls : (color666Toric L L).cls = "Color666ToricCode" := rfl
      unfold ClassGeom.stabRepr
      simp only [hst, hcls, hd]; exact h1
    · rw [h3]
      unfold ClassGeom.stabLocation
      show _ = some (finalLocation (color666ToricStabEdits rot [x, y, p]
        ((Color666ToricCode.stabilizerType L L [x, y, p]).getD "")) _)
      rw [hty]; rfl
  deformation := by
    rcases hn with h | h
    · exact Or.inl h
    · right
      intro q hq
      show (ofDeformResult (Color666ToricCode.getDeformation name q)).isSome = true
      rw [h]
      rcases C01Color666ToricCode.deformation_rule_on_qubits L hL q hq with e | e <;> rw [e] <;> rfl

end Panqec.GuiRepr
