/-
Color3DCode, rank clause, Z-type part: the selected cells (`Model/Lattices/Color3DCode.lean`,
`selCells`: all cells but `(6,2,2)`, `(6,2,6)`, `(4,4,4)`) in arithmetic form, distinctness, membership
in the stabilizer list, their number `2·LxLyLz − 3`, and the Z-component of a cell generator (a cell
acts on a qubit iff the qubit is one of its 24 wrapped vertices; the wrap-around resolved into
"no wrap" / "one period").  Core Lean and the operator-level independence notions of
`Proofs/LatCubic3DRank.lean`.
-/
import PanqecVerif.Proofs.LatColor3DCodeA
import PanqecVerif.Proofs.LatCubic3DRank

set_option linter.unusedVariables false

namespace Panqec.Color3DCode
open Panqec.Lat2D Panqec.Color

/-- `(x, y, z)` is in one of the two cell boxes of `get_stabilizer_coordinates` -/
def IsC (Lx Ly Lz : Nat) (x y z : Int) : Prop :=
  (InA Lx x ∧ InA Ly y ∧ InA Lz z) ∨ (InB Lx x ∧ InB Ly y ∧ InB Lz z)

/-- selected cell -/
def IsK (Lx Ly Lz : Nat) (x y z : Int) : Prop :=
  IsC Lx Ly Lz x y z ∧ ¬ (x = 6 ∧ y = 2 ∧ z = 2) ∧ ¬ (x = 6 ∧ y = 2 ∧ z = 6) ∧ ¬ (x = 4 ∧ y = 4 ∧ z = 4)

theorem mem_cellLocs {Lx Ly Lz : Nat} {q : Coord} :
    q ∈ cellLocs Lx Ly Lz ↔ ∃ x y z, q = [x, y, z] ∧ IsC Lx Ly Lz x y z := by
  unfold cellLocs IsC
  simp only [List.mem_append, mem_grid3, mem_rA, mem_rB]
  constructor
  · rintro (⟨x, y, z, rfl, h⟩ | ⟨x, y, z, rfl, h⟩)
    · exact ⟨x, y, z, rfl, Or.inl h⟩
    · exact ⟨x, y, z, rfl, Or.inr h⟩
  · rintro ⟨x, y, z, rfl, h | h⟩
    · exact Or.inl ⟨x, y, z, rfl, h⟩
    · exact Or.inr ⟨x, y, z, rfl, h⟩

theorem mem_cellLocs' {Lx Ly Lz : Nat} {x y z : Int} :
    [x, y, z] ∈ cellLocs Lx Ly Lz ↔ IsC Lx Ly Lz x y z := by
  rw [mem_cellLocs]
  constructor
  · rintro ⟨x', y', z', h, hq⟩
    simp only [List.cons.injEq, and_true] at h
    rw [h.1, h.2.1, h.2.2]; exact hq
  · intro h; exact ⟨x, y, z, rfl, h⟩

theorem IsC.isS {Lx Ly Lz : Nat} {x y z : Int} (h : IsC Lx Ly Lz x y z) : IsS Lx Ly Lz x y z := by
  rcases h with h | h
  · exact Or.inl h
  · exact Or.inr (Or.inl h)

theorem IsC.cellLoc {Lx Ly Lz : Nat} {x y z : Int} (h : IsC Lx Ly Lz x y z) : IsCellLoc x y z := by
  unfold IsCellLoc
  rcases h with ⟨h1, h2, h3⟩ | ⟨h1, h2, h3⟩ <;> (simp only [InA, InB] at h1 h2 h3; omega)

theorem cellLocs_sub {Lx Ly Lz : Nat} : ∀ s ∈ cellLocs Lx Ly Lz, s ∈ stabs Lx Ly Lz := by
  intro s hs
  obtain ⟨x, y, z, rfl, h⟩ := mem_cellLocs.mp hs
  exact mem_stabs'.mpr h.isS

theorem nodup_cellLocs (Lx Ly Lz : Nat) : (cellLocs Lx Ly Lz).Nodup := by
  have hA : ∀ L, (rA L).Nodup := fun L => nodup_pyRangeStep _ _ _ (by decide)
  have hB : ∀ L, (rB L).Nodup := fun L => nodup_pyRangeStep _ _ _ (by decide)
  unfold cellLocs
  rw [List.nodup_append]
  refine ⟨nodup_grid3 (hA _) (hA _) (hA _), nodup_grid3 (hB _) (hB _) (hB _), ?_⟩
  intro a ha b hb e
  subst e
  simp only [mem_grid3, mem_rA, mem_rB, InA, InB] at ha hb
  obtain ⟨x, y, z, rfl, h1⟩ := ha
  obtain ⟨x', y', z', e, h2⟩ := hb
  simp only [List.cons.injEq, and_true] at e
  obtain ⟨rfl, rfl, rfl⟩ := e
  omega

theorem length_cellLocs (Lx Ly Lz : Nat) : (cellLocs Lx Ly Lz).length = 2 * (Lz * (Lx * Ly)) := by
  unfold cellLocs
  simp only [List.length_append, length_grid3, length_rA, length_rB]
  omega

theorem mem_selCells {Lx Ly Lz : Nat} {x y z : Int} :
    [x, y, z] ∈ selCells Lx Ly Lz ↔ IsK Lx Ly Lz x y z := by
  unfold selCells IsK
  simp only [List.mem_filter, mem_cellLocs', bne_iff_ne, ne_eq, List.cons.injEq, and_true, and_assoc]

theorem shape_selCells {Lx Ly Lz : Nat} {s : Coord} (h : s ∈ selCells Lx Ly Lz) :
    ∃ x y z, s = [x, y, z] := by
  unfold selCells at h
  simp only [List.mem_filter] at h
  obtain ⟨x, y, z, rfl, _⟩ := mem_cellLocs.mp h.1.1.1
  exact ⟨x, y, z, rfl⟩

theorem selCells_sub {Lx Ly Lz : Nat} : ∀ s ∈ selCells Lx Ly Lz, s ∈ stabs Lx Ly Lz := by
  intro s hs
  unfold selCells at hs
  simp only [List.mem_filter] at hs
  exact cellLocs_sub s hs.1.1.1

theorem nodup_selCells (Lx Ly Lz : Nat) : (selCells Lx Ly Lz).Nodup :=
  (((nodup_cellLocs Lx Ly Lz).filter _).filter _).filter _

theorem length_filter_ne (l : List Coord) (c : Coord) (hl : l.Nodup) (hc : c ∈ l) :
    (l.filter (· != c)).length + 1 = l.length := by
  rw [← List.countP_eq_length_filter]
  have h1 := List.length_eq_countP_add_countP (fun s => s != c) (l := l)
  have h2 : l.countP (fun s => ¬ (s != c) = true) = l.count c := by
    rw [List.count]
    apply List.countP_congr
    intro s _
    by_cases e : s = c <;> simp [e]
  have h3 := hl.count (a := c)
  simp only [hc, if_true] at h3
  omega

theorem length_filter_ne3 (l : List Coord) (a b c : Coord) (hl : l.Nodup) (ha : a ∈ l) (hb : b ∈ l)
    (hc : c ∈ l) (hab : b ≠ a) (hac : c ≠ a) (hbc : c ≠ b) :
    (((l.filter (· != a)).filter (· != b)).filter (· != c)).length + 3 = l.length := by
  have e1 := length_filter_ne l a hl ha
  have hb' : b ∈ l.filter (· != a) := by
    rw [List.mem_filter]; exact ⟨hb, by simpa using hab⟩
  have e2 := length_filter_ne _ b (hl.filter _) hb'
  have hc' : c ∈ (l.filter (· != a)).filter (· != b) := by
    rw [List.mem_filter, List.mem_filter]; exact ⟨⟨hc, by simpa using hac⟩, by simpa using hbc⟩
  have e3 := length_filter_ne _ c ((hl.filter _).filter _) hc'
  omega

/-- `2·LxLyLz − 3` selected cells -/
theorem length_selCells (Lx Ly Lz : Nat) (hx : 2 ≤ Lx) (hy : 1 ≤ Ly) (hz : 2 ≤ Lz) :
    (selCells Lx Ly Lz).length + 3 = 2 * (Lz * (Lx * Ly)) := by
  have m1 : ([6, 2, 2] : Coord) ∈ cellLocs Lx Ly Lz := by
    rw [mem_cellLocs']; left; simp only [InA]; omega
  have m2 : ([6, 2, 6] : Coord) ∈ cellLocs Lx Ly Lz := by
    rw [mem_cellLocs']; left; simp only [InA]; omega
  have m3 : ([4, 4, 4] : Coord) ∈ cellLocs Lx Ly Lz := by
    rw [mem_cellLocs']; right; simp only [InB]; omega
  have e := length_filter_ne3 _ _ _ _ (nodup_cellLocs Lx Ly Lz) m1 m2 m3 (by decide) (by decide)
    (by decide)
  rw [← length_cellLocs Lx Ly Lz]
  exact e

/-! ### the Z component of a cell generator -/

theorem getStab_cell {Lx Ly Lz : Nat} (hx : 2 ≤ Lx) (hy : 2 ≤ Ly) (hz : 2 ≤ Lz) {x y z : Int}
    (h : IsC Lx Ly Lz x y z) :
    (lattice Lx Ly Lz).getStab [x, y, z] = Cubic3D.uop (keys Lx Ly Lz x y z) Pauli.Z := by
  rw [getStab_eq hx hy hz (mem_stabs'.mpr h.isS), letterOf_cell h.cellLoc]
  rfl

theorem hitZ_cell {Lx Ly Lz : Nat} (hx : 2 ≤ Lx) (hy : 2 ≤ Ly) (hz : 2 ≤ Lz) {x y z : Int}
    (h : IsC Lx Ly Lz x y z) (q : Coord) :
    Cubic3D.hitZ ((lattice Lx Ly Lz).getStab [x, y, z]) q = true ↔ q ∈ keys Lx Ly Lz x y z := by
  rw [getStab_cell hx hy hz h, Cubic3D.hitZ_uop]
  simp

theorem keys_cell (Lx Ly Lz : Nat) {x y z : Int} (h : IsCellLoc x y z) :
    keys Lx Ly Lz x y z =
      deltaCell.map (wrapAt (4 * (Lx : Int)) (4 * (Ly : Int)) (4 * (Lz : Int)) x y z) := by
  unfold keys shape
  unfold IsCellLoc at h
  rw [if_neg h.1, if_pos ⟨h.2.1, h.2.2⟩]

/-- the shape of a cell delta: a permutation of `(0, ±1, ±2)` -/
def DSpec (d1 d2 d3 : Int) : Prop :=
  (d1 = 0 ∧ (d2 = 1 ∨ d2 = -1) ∧ (d3 = 2 ∨ d3 = -2)) ∨
  (d1 = 0 ∧ (d2 = 2 ∨ d2 = -2) ∧ (d3 = 1 ∨ d3 = -1)) ∨
  (d2 = 0 ∧ (d1 = 1 ∨ d1 = -1) ∧ (d3 = 2 ∨ d3 = -2)) ∨
  (d2 = 0 ∧ (d1 = 2 ∨ d1 = -2) ∧ (d3 = 1 ∨ d3 = -1)) ∨
  (d3 = 0 ∧ (d1 = 1 ∨ d1 = -1) ∧ (d2 = 2 ∨ d2 = -2)) ∨
  (d3 = 0 ∧ (d1 = 2 ∨ d1 = -2) ∧ (d2 = 1 ∨ d2 = -1))

instance (d1 d2 d3 : Int) : Decidable (DSpec d1 d2 d3) := by unfold DSpec; infer_instance

theorem deltaCell_spec : ∀ d ∈ deltaCell, DSpec d.1 d.2.1 d.2.2 := by decide

theorem deltaCell_complete : ∀ d1 d2 d3 : Int, DSpec d1 d2 d3 → (d1, d2, d3) ∈ deltaCell := by
  intro d1 d2 d3 h
  unfold DSpec at h
  rcases h with ⟨rfl, h2, h3⟩ | ⟨rfl, h2, h3⟩ | ⟨rfl, h1, h3⟩ | ⟨rfl, h1, h3⟩ | ⟨rfl, h1, h2⟩ | ⟨rfl, h1, h2⟩ <;>
    first
    | (rcases h2 with rfl | rfl <;> rcases h3 with rfl | rfl <;> decide)
    | (rcases h1 with rfl | rfl <;> rcases h3 with rfl | rfl <;> decide)
    | (rcases h1 with rfl | rfl <;> rcases h2 with rfl | rfl <;> decide)

/-- a wrapped coordinate either did not wrap or wrapped by one period -/
theorem wrap_two {v m r : Int} (h0 : 0 ≤ v) (h1 : v < 2 * m) (h : v % m = r) : v = r ∨ v = r + m := by
  have hm : 0 < m := by omega
  by_cases hv : v < m
  · left; rw [emod_small h0 hv] at h; exact h
  · right
    have e : v % m = (v - m) % m := by
      rw [← Int.add_emod_right (v - m) m]; congr 1; omega
    rw [e, emod_small (by omega) (by omega)] at h
    omega

/-- a cell at `(tx, ty, tz)` acts on the qubit `(a, b, c)`: the unwrapped vertex is the qubit, up to
    one period in each coordinate -/
theorem cell_hit_cases {Lx Ly Lz : Nat} {tx ty tz a b c : Int} (h : IsC Lx Ly Lz tx ty tz)
    (hq : [a, b, c] ∈ keys Lx Ly Lz tx ty tz) :
    ∃ d1 d2 d3 : Int, DSpec d1 d2 d3 ∧
      (tx + d1 = a ∨ tx + d1 = a + 4 * (Lx : Int)) ∧
      (ty + d2 = b ∨ ty + d2 = b + 4 * (Ly : Int)) ∧
      (tz + d3 = c ∨ tz + d3 = c + 4 * (Lz : Int)) := by
  rw [keys_cell Lx Ly Lz h.cellLoc, List.mem_map] at hq
  obtain ⟨d, hd, e⟩ := hq
  have hs := deltaCell_spec d hd
  have hb := deltaCell_bd d hd
  unfold Bd at hb
  unfold wrapAt at e
  simp only [List.cons.injEq, and_true] at e
  obtain ⟨e1, e2, e3⟩ := e
  have r : 0 ≤ tx ∧ tx ≤ 4 * (Lx : Int) ∧ 2 ≤ tx ∧ 2 ≤ ty ∧ ty ≤ 4 * (Ly : Int) ∧ 2 ≤ tz ∧
      tz ≤ 4 * (Lz : Int) := by
    rcases h with ⟨h1, h2, h3⟩ | ⟨h1, h2, h3⟩ <;> (simp only [InA, InB] at h1 h2 h3; omega)
  refine ⟨d.1, d.2.1, d.2.2, hs, wrap_two (by omega) (by omega) e1, wrap_two (by omega) (by omega) e2,
    wrap_two (by omega) (by omega) e3⟩

/-- ranges and residues of a cell location, without case distinction -/
def CellR (Lx Ly Lz : Nat) (x y z : Int) : Prop :=
  2 ≤ x ∧ x ≤ 4 * (Lx : Int) ∧ 2 ≤ y ∧ y ≤ 4 * (Ly : Int) ∧ 2 ≤ z ∧ z ≤ 4 * (Lz : Int) ∧
  x % 2 = 0 ∧ x % 4 = z % 4 ∧ y % 4 = z % 4

theorem IsC.cellR {Lx Ly Lz : Nat} {x y z : Int} (h : IsC Lx Ly Lz x y z) : CellR Lx Ly Lz x y z := by
  unfold CellR
  rcases h with ⟨h1, h2, h3⟩ | ⟨h1, h2, h3⟩ <;> (simp only [InA, InB] at h1 h2 h3; omega)

/-- bounds of the components of a cell delta -/
theorem DSpec.bd {d1 d2 d3 : Int} (h : DSpec d1 d2 d3) :
    -2 ≤ d1 ∧ d1 ≤ 2 ∧ -2 ≤ d2 ∧ d2 ≤ 2 ∧ -2 ≤ d3 ∧ d3 ≤ 2 := by
  unfold DSpec at h; omega

theorem DSpec.of3 {d1 d2 d3 : Int} (h : DSpec d1 d2 d3) (h3 : d3 = 1 ∨ d3 = -1) :
    (d1 = 0 ∧ (d2 = 2 ∨ d2 = -2)) ∨ (d2 = 0 ∧ (d1 = 2 ∨ d1 = -2)) := by
  unfold DSpec at h; omega

theorem DSpec.of1 {d1 d2 d3 : Int} (h : DSpec d1 d2 d3) (h1 : d1 = 1 ∨ d1 = -1) :
    (d2 = 0 ∧ (d3 = 2 ∨ d3 = -2)) ∨ (d3 = 0 ∧ (d2 = 2 ∨ d2 = -2)) := by
  unfold DSpec at h; omega

theorem DSpec.of2 {d1 d2 d3 : Int} (h : DSpec d1 d2 d3) (h2 : d2 = 1 ∨ d2 = -1) :
    (d1 = 0 ∧ (d3 = 2 ∨ d3 = -2)) ∨ (d3 = 0 ∧ (d1 = 2 ∨ d1 = -2)) := by
  unfold DSpec at h; omega

theorem DSpec.of3' {d1 d2 d3 : Int} (h : DSpec d1 d2 d3) (h3 : d3 = 2 ∨ d3 = -2) :
    (d1 = 0 ∧ (d2 = 1 ∨ d2 = -1)) ∨ (d2 = 0 ∧ (d1 = 1 ∨ d1 = -1)) := by
  unfold DSpec at h; omega

/-- conversely: an unwrapped vertex inside the box is a key -/
theorem cell_hits {Lx Ly Lz : Nat} {tx ty tz a b c : Int} (h : IsCellLoc tx ty tz)
    (hs : DSpec (a - tx) (b - ty) (c - tz)) (ha : 0 ≤ a ∧ a < 4 * (Lx : Int))
    (hb : 0 ≤ b ∧ b < 4 * (Ly : Int)) (hc : 0 ≤ c ∧ c < 4 * (Lz : Int)) :
    [a, b, c] ∈ keys Lx Ly Lz tx ty tz := by
  rw [keys_cell Lx Ly Lz h, List.mem_map]
  refine ⟨(a - tx, b - ty, c - tz), deltaCell_complete _ _ _ hs, ?_⟩
  unfold wrapAt
  simp only [List.cons.injEq, and_true]
  refine ⟨?_, ?_, ?_⟩
  · rw [show tx + (a - tx) = a by omega]; exact emod_small ha.1 ha.2
  · rw [show ty + (b - ty) = b by omega]; exact emod_small hb.1 hb.2
  · rw [show tz + (c - tz) = c by omega]; exact emod_small hc.1 hc.2

end Panqec.Color3DCode
