/-
XCubeCode lattice model, rank clause for every size `Lx, Ly, Lz ≥ 2`: the probes and ranks of
`Proofs/LatXCubeCodeRank2.lean` form a triangular family (`Lat2D.TriangularProbes`) on the selected
generators of `Proofs/LatXCubeCodeRank1.lean`, which are therefore independent.
-/
import PanqecVerif.Proofs.LatXCubeCodeRank2
import PanqecVerif.Proofs.Lat2DRank
open Panqec Panqec.Lat3Db
namespace Panqec.XCubeCode

/-- kinds of selected generators -/
def Kind (Lx Ly Lz : Nat) (s : Coord) : Prop :=
  (∃ x y z, s = [x, y, z] ∧ CK Lx Ly Lz x y z) ∨
  (∃ x y z, s = [0, x, y, z] ∧ F0 Lx Ly Lz x y z) ∨
  (∃ x y z, s = [1, x, y, z] ∧ F1 Lx Ly Lz x y z)

theorem getStab_eq {Lx Ly Lz : Nat} (hx : 2 ≤ Lx) (hy : 2 ≤ Ly) (hz : 2 ≤ Lz) {s : Coord}
    (h : Kind Lx Ly Lz s) : getStab Lx Ly Lz s = constOp (keysOf Lx Ly Lz s) (letterOf s) := by
  rcases h with ⟨x, y, z, rfl, hk⟩ | ⟨x, y, z, rfl, hk⟩ | ⟨x, y, z, rfl, hk⟩
  · exact getStab_cube Lx Ly Lz x y z hx hy hz (hk.sc (by omega) (by omega))
  · have e10 : ¬ (0 : Int) = 1 := by decide
    simp only [keysOf, letterOf, e10, if_false]
    exact getStab_faceX Lx Ly Lz x y z hy hz (hk.sv (by omega))
  · simp only [keysOf, letterOf, if_true]
    exact getStab_faceY Lx Ly Lz x y z hx hz (hk.sv (by omega))

theorem keysOf_qubits {Lx Ly Lz : Nat} (hx : 1 ≤ Lx) (hy : 1 ≤ Ly) (hz : 1 ≤ Lz) {s : Coord}
    (h : Kind Lx Ly Lz s) : ∀ q ∈ keysOf Lx Ly Lz s, q ∈ qubits Lx Ly Lz := by
  intro q hq
  apply mem_qubits_of_isQubit
  rcases h with ⟨x, y, z, rfl, hk⟩ | ⟨x, y, z, rfl, hk⟩ | ⟨x, y, z, rfl, hk⟩
  · exact cubeLocs_qubits Lx Ly Lz x y z (hk.sc hy hz) q hq
  · have e10 : ¬ (0 : Int) = 1 := by decide
    simp only [keysOf, e10, if_false] at hq
    exact faceLocsX_qubits Lx Ly Lz x y z (hk.sv hy) q hq
  · simp only [keysOf, if_true] at hq
    exact faceLocsY_qubits Lx Ly Lz x y z (hk.sv hx) q hq

/-- the probe sits on a qubit of its generator, with an anticommuting letter -/
theorem probe_diag {Lx Ly Lz : Nat} {s : Coord} (h : Kind Lx Ly Lz s) :
    Pauli.anti (probe s).2 (letterOf s) = true ∧ (probe s).2 ≠ Pauli.I ∧
      (probe s).1 ∈ keysOf Lx Ly Lz s := by
  rcases h with ⟨x, y, z, rfl, hk⟩ | ⟨x, y, z, rfl, hk⟩ | ⟨x, y, z, rfl, hk⟩
  · unfold CK R1 R3 at hk
    rcases hk with hk | hk | hk
    · have h1 : 3 ≤ y ∧ 3 ≤ z := by omega
      simp only [probe, h1, and_self, if_true, letterOf, keysOf]
      exact ⟨rfl, fun e => Pauli.noConfusion e, by simp [cubeLocs]⟩
    · have h1 : ¬ (3 ≤ y ∧ 3 ≤ z) := by omega
      simp only [probe, h1, hk.2.1, if_true, if_false, letterOf, keysOf]
      exact ⟨rfl, fun e => Pauli.noConfusion e, by simp [cubeLocs]⟩
    · have h1 : ¬ (3 ≤ y ∧ 3 ≤ z) := by omega
      have h2 : ¬ y = 1 := by omega
      simp only [probe, h1, h2, if_false, letterOf, keysOf]
      exact ⟨rfl, fun e => Pauli.noConfusion e, by simp [cubeLocs]⟩
  · have e10 : ¬ (0 : Int) = 1 := by decide
    unfold F0 R0 R2 at hk
    have db := dn_spec (2*Ly) y
    have dc := dn_spec (2*Lz) z
    rcases hk with hk | hk
    · have h1 : 2 ≤ y := by omega
      simp only [probe, e10, h1, if_true, if_false, letterOf, keysOf]
      refine ⟨rfl, fun e => Pauli.noConfusion e, ?_⟩
      rw [mem_faceLocsX]; omega
    · have h1 : ¬ 2 ≤ y := by omega
      simp only [probe, e10, h1, if_false, letterOf, keysOf]
      refine ⟨rfl, fun e => Pauli.noConfusion e, ?_⟩
      rw [mem_faceLocsX]; omega
  · unfold F1 R0 R2 at hk
    have da := dn_spec (2*Lx) x
    have dc := dn_spec (2*Lz) z
    rcases hk with hk | hk
    · have h1 : 2 ≤ x := by omega
      simp only [probe, h1, if_true, letterOf, keysOf]
      refine ⟨rfl, fun e => Pauli.noConfusion e, ?_⟩
      rw [mem_faceLocsY]; omega
    · have h1 : ¬ 2 ≤ x := by omega
      simp only [probe, h1, if_true, if_false, letterOf, keysOf]
      refine ⟨rfl, fun e => Pauli.noConfusion e, ?_⟩
      rw [mem_faceLocsY]; omega

theorem probe_snd3 (x y z : Int) : (probe [x, y, z]).2 = Pauli.X := by
  simp only [probe]
  split
  · rfl
  · split <;> rfl

theorem probe_snd4 (ax x y z : Int) : (probe [ax, x, y, z]).2 = Pauli.Z := by
  simp only [probe]
  split <;> split <;> rfl

/-- a selected generator other than `s` whose letter anticommutes with the probe of `s` and whose
    rank is not smaller does not reach the witness qubit of `s` -/
theorem later_core {Lx Ly Lz : Nat} (hy : 1 ≤ Ly) (hz : 1 ≤ Lz) {s t : Coord}
    (hs : Kind Lx Ly Lz s) (ht : Kind Lx Ly Lz t) (hne : s ≠ t)
    (hle : mu Lx Ly Lz s ≤ mu Lx Ly Lz t) :
    ¬ (Pauli.anti (probe s).2 (letterOf t) = true ∧ (probe s).1 ∈ keysOf Lx Ly Lz t) := by
  have e10 : ¬ (0 : Int) = 1 := by decide
  rintro ⟨hanti, hmem⟩
  rcases hs with ⟨x, y, z, rfl, hs⟩ | ⟨x, y, z, rfl, hs⟩ | ⟨x, y, z, rfl, hs⟩ <;>
  rcases ht with ⟨a, b, c, rfl, ht⟩ | ⟨a, b, c, rfl, ht⟩ | ⟨a, b, c, rfl, ht⟩
  · have hne' : ¬ (x = a ∧ y = b ∧ z = c) := by
      rintro ⟨rfl, rfl, rfl⟩; exact hne rfl
    exact later_cube_cube hy hz hs ht hne' hle hmem
  · rw [probe_snd3] at hanti; simp [letterOf, Pauli.anti] at hanti
  · rw [probe_snd3] at hanti; simp [letterOf, Pauli.anti] at hanti
  · rw [probe_snd4] at hanti; simp [letterOf, Pauli.anti] at hanti
  · have hne' : ¬ (x = a ∧ y = b ∧ z = c) := by
      rintro ⟨rfl, rfl, rfl⟩; exact hne rfl
    simp only [keysOf, e10, if_false] at hmem
    exact later_00 hs ht hne' hle hmem
  · simp only [keysOf, if_true] at hmem
    exact later_01 hs ht hle hmem
  · rw [probe_snd4] at hanti; simp [letterOf, Pauli.anti] at hanti
  · simp only [keysOf, e10, if_false] at hmem
    exact later_10 hs ht hle hmem
  · have hne' : ¬ (x = a ∧ y = b ∧ z = c) := by
      rintro ⟨rfl, rfl, rfl⟩; exact hne rfl
    simp only [keysOf, if_true] at hmem
    exact later_11 hs ht hne' hle hmem

theorem opAntiCount_single (q : Coord) (P Q : Pauli) (B : List Coord) :
    opAntiCount [(q, P)] (constOp B Q) = if Pauli.anti P Q = true ∧ q ∈ B then 1 else 0 :=
  Lat2D.opAntiCount_probe q P Q B

theorem triangular (Lx Ly Lz : Nat) (hx : 2 ≤ Lx) (hy : 2 ≤ Ly) (hz : 2 ≤ Lz) :
    Lat2D.TriangularProbes (lattice Lx Ly Lz) (selStabs Lx Ly Lz) probe (mu Lx Ly Lz) where
  on_qubits := by
    intro s hs
    have hk : Kind Lx Ly Lz s := mem_selStabs_cases hs
    have hd := probe_diag hk
    exact ⟨keysOf_qubits (by omega) (by omega) (by omega) hk _ hd.2.2, hd.2.1⟩
  diag := by
    intro s hs
    have hk : Kind Lx Ly Lz s := mem_selStabs_cases hs
    have hd := probe_diag hk
    change opAntiCount [((probe s).1, (probe s).2)] (getStab Lx Ly Lz s) % 2 = 1
    rw [getStab_eq hx hy hz hk, opAntiCount_single, if_pos ⟨hd.1, hd.2.2⟩]
  later := by
    intro s hs t ht hne hle
    have hks : Kind Lx Ly Lz s := mem_selStabs_cases hs
    have hkt : Kind Lx Ly Lz t := mem_selStabs_cases ht
    change opAntiCount [((probe s).1, (probe s).2)] (getStab Lx Ly Lz t) % 2 = 0
    rw [getStab_eq hx hy hz hkt, opAntiCount_single,
      if_neg (later_core (by omega) (by omega) hks hkt hne hle)]

/-- the selected generators are independent, every size `Lx, Ly, Lz ≥ 2` -/
theorem indep_sel (Lx Ly Lz : Nat) (hx : 2 ≤ Lx) (hy : 2 ≤ Ly) (hz : 2 ≤ Lz) :
    Lat2D.IndepGenerators (lattice Lx Ly Lz) (selStabs Lx Ly Lz) :=
  Lat2D.indep_of_triangular (triangular Lx Ly Lz hx hy hz)

end Panqec.XCubeCode
