/-
Color3DCode, even sides `≥ 2`: normal form of the membership in the key lists of the three hexagon
membranes of `get_logicals_z`.  Core Lean only.
-/
import PanqecVerif.Proofs.LatColor3DCodeG

set_option linter.unusedVariables false
set_option linter.unusedSectionVars false

namespace Panqec.Color3DCode
open Panqec.Lat2D Panqec.Color

theorem clamp1_small {t : Int} (h : -1 ≤ t ∧ t ≤ 1) : clamp 1 t = t := by
  unfold clamp; rw [if_pos (by omega)]

theorem clamp1_eq {t d : Int} (hd : -1 ≤ d ∧ d ≤ 1) (h : clamp 1 t = d) : t = d := by
  unfold clamp at h
  by_cases c : -1 ≤ t ∧ t ≤ 1
  · rw [if_pos c] at h; exact h
  · rw [if_neg c] at h; omega

theorem hex_not_cell {x y z : Int} (h : x % 2 = 1) : ¬ IsCellLoc x y z := by
  unfold IsCellLoc; omega

/-- recover a loop variable from a wrapped key coordinate: `y = (b − d) % m` is odd, has the residue
    `p` modulo 8 and is sent to `b` by the delta `d` -/
theorem unwrap {L : Nat} (hL : 2 ≤ L) (eL : L % 2 = 0) {b d p : Int} (hb : 0 ≤ b ∧ b < 4 * (L : Int))
    (hp : p % 2 = 1 ∧ 0 ≤ p ∧ p < 8) (h : b % 8 = (p + d) % 8) :
    InH L ((b - d) % (4 * (L : Int))) ∧ ((b - d) % (4 * (L : Int))) % 8 = p ∧
      ((b - d) % (4 * (L : Int)) + d) % (4 * (L : Int)) = b := by
  have r := wrap_range (L := L) (by omega) (b - d)
  have e8 := emod_emod_8 eL (b - d)
  have e2 := emod_emod_2 (L := L) (b - d)
  have e : ((b - d) % (4 * (L : Int)) + d) % (4 * (L : Int)) = b := by
    rw [Int.emod_add_emod, show b - d + d = b by omega, emod_small hb.1 hb.2]
  refine ⟨?_, by omega, e⟩
  unfold InH; omega

section
variable {Lx Ly Lz : Nat} (hx : 2 ≤ Lx) (hy : 2 ≤ Ly) (hz : 2 ≤ Lz) (ex : Lx % 2 = 0)
  (ey : Ly % 2 = 0) (ez : Lz % 2 = 0)
include hx hy hz ex ey ez

theorem nfZ3 {a b c : Int} (hb : InBox Lx Ly Lz a b c) :
    [a, b, c] ∈ kZ3 Lx Ly Lz ↔ TH1 (clamp 1 (a - 3)) (b % 8) (c % 8) = true := by
  rw [mem_kZ3 hx hy hz ex ey ez]
  unfold TH1 InBox at *
  simp only [List.any_eq_true, Bool.and_eq_true, beq_iff_eq]
  constructor
  · rintro ⟨y, z, h1, h2, hs, hq⟩
    unfold keys at hq
    obtain ⟨d, hd, hw⟩ := List.mem_map.mp hq
    have bd := shape_face_bd (hex_not_cell (by decide : (3 : Int) % 2 = 1)) d hd
    unfold Bd at bd
    unfold wrapAt at hw
    simp only [List.cons.injEq, and_true] at hw
    obtain ⟨rfl, rfl, rfl⟩ := hw
    unfold InH at h1 h2
    refine ⟨(y % 8, z % 8), mem_pairs8 (by omega) hs, d, ?_, ⟨?_, ?_⟩, ?_⟩
    · rw [← shape_congr (x := 3) (y := y) (z := z) rfl (by omega) (by omega)]; exact hd
    · rw [emod_small (by omega) (by omega), show 3 + d.1 - 3 = d.1 by omega,
        clamp1_small (by omega)]
    · exact thick_wrap (dvd8 ey)
    · exact thick_wrap (dvd8 ez)
  · rintro ⟨p, hp, d, hd, ⟨h1, h2⟩, h3⟩
    have ps := pairs8_spec hp
    have bd := shape_face_bd (hex_not_cell (by decide : (3 : Int) % 2 = 1)) d hd
    unfold Bd at bd
    have ha := clamp1_eq (by omega) h1
    obtain ⟨y1, y2, y3⟩ := unwrap hy ey (b := b) (d := d.2.1) (p := p.1) (by omega) (by omega) h2
    obtain ⟨z1, z2, z3⟩ := unwrap hz ez (b := c) (d := d.2.2) (p := p.2) (by omega) (by omega) h3
    refine ⟨_, _, y1, z1, by omega, ?_⟩
    unfold keys
    refine List.mem_map.mpr ⟨d, ?_, ?_⟩
    · rw [shape_congr (x' := 3) (y' := p.1) (z' := p.2) rfl (by omega) (by omega)]; exact hd
    · unfold wrapAt
      rw [y3, z3, emod_small (by omega) (by omega), show 3 + d.1 = a by omega]

theorem nfZ6 {a b c : Int} (hb : InBox Lx Ly Lz a b c) :
    [a, b, c] ∈ kZ6 Lx Ly Lz ↔ TH2 (a % 8) (clamp 1 (b - 3)) (c % 8) = true := by
  rw [mem_kZ6 hx hy hz ex ey ez]
  unfold TH2 InBox at *
  simp only [List.any_eq_true, Bool.and_eq_true, beq_iff_eq]
  constructor
  · rintro ⟨x, z, h1, h2, hs, hq⟩
    unfold keys at hq
    obtain ⟨d, hd, hw⟩ := List.mem_map.mp hq
    unfold InH at h1 h2
    have bd := shape_face_bd (hex_not_cell (y := 3) (z := z) (by omega : x % 2 = 1)) d hd
    unfold Bd at bd
    unfold wrapAt at hw
    simp only [List.cons.injEq, and_true] at hw
    obtain ⟨rfl, rfl, rfl⟩ := hw
    refine ⟨(x % 8, z % 8), mem_pairs8 (by omega) hs, d, ?_, ⟨?_, ?_⟩, ?_⟩
    · rw [← shape_congr (x := x) (y := 3) (z := z) (by omega) rfl (by omega)]; exact hd
    · exact thick_wrap (dvd8 ex)
    · rw [emod_small (by omega) (by omega), show 3 + d.2.1 - 3 = d.2.1 by omega,
        clamp1_small (by omega)]
    · exact thick_wrap (dvd8 ez)
  · rintro ⟨p, hp, d, hd, ⟨h1, h2⟩, h3⟩
    have ps := pairs8_spec hp
    have bd := shape_face_bd (hex_not_cell (y := 3) (z := p.2) (by omega : p.1 % 2 = 1)) d hd
    unfold Bd at bd
    have ha := clamp1_eq (by omega) h2
    obtain ⟨y1, y2, y3⟩ := unwrap hx ex (b := a) (d := d.1) (p := p.1) (by omega) (by omega) h1
    obtain ⟨z1, z2, z3⟩ := unwrap hz ez (b := c) (d := d.2.2) (p := p.2) (by omega) (by omega) h3
    refine ⟨_, _, y1, z1, by omega, ?_⟩
    unfold keys
    refine List.mem_map.mpr ⟨d, ?_, ?_⟩
    · rw [shape_congr (x' := p.1) (y' := 3) (z' := p.2) (by omega) rfl (by omega)]; exact hd
    · unfold wrapAt
      rw [y3, z3, emod_small (by omega) (by omega), show 3 + d.2.1 = b by omega]

theorem nfZ9 {a b c : Int} (hb : InBox Lx Ly Lz a b c) :
    [a, b, c] ∈ kZ9 Lx Ly Lz ↔ TH3 (a % 8) (b % 8) (clamp 1 (c - 3)) = true := by
  rw [mem_kZ9 hx hy hz ex ey ez]
  unfold TH3 InBox at *
  simp only [List.any_eq_true, Bool.and_eq_true, beq_iff_eq]
  constructor
  · rintro ⟨x, y, h1, h2, hs, hq⟩
    unfold keys at hq
    obtain ⟨d, hd, hw⟩ := List.mem_map.mp hq
    unfold InH at h1 h2
    have bd := shape_face_bd (hex_not_cell (y := y) (z := 3) (by omega : x % 2 = 1)) d hd
    unfold Bd at bd
    unfold wrapAt at hw
    simp only [List.cons.injEq, and_true] at hw
    obtain ⟨rfl, rfl, rfl⟩ := hw
    refine ⟨(x % 8, y % 8), mem_pairs8 (by omega) hs, d, ?_, ⟨?_, ?_⟩, ?_⟩
    · rw [← shape_congr (x := x) (y := y) (z := 3) (by omega) (by omega) rfl]; exact hd
    · exact thick_wrap (dvd8 ex)
    · exact thick_wrap (dvd8 ey)
    · rw [emod_small (by omega) (by omega), show 3 + d.2.2 - 3 = d.2.2 by omega,
        clamp1_small (by omega)]
  · rintro ⟨p, hp, d, hd, ⟨h1, h2⟩, h3⟩
    have ps := pairs8_spec hp
    have bd := shape_face_bd (hex_not_cell (y := p.2) (z := 3) (by omega : p.1 % 2 = 1)) d hd
    unfold Bd at bd
    have ha := clamp1_eq (by omega) h3
    obtain ⟨y1, y2, y3⟩ := unwrap hx ex (b := a) (d := d.1) (p := p.1) (by omega) (by omega) h1
    obtain ⟨z1, z2, z3⟩ := unwrap hy ey (b := b) (d := d.2.1) (p := p.2) (by omega) (by omega) h2
    refine ⟨_, _, y1, z1, by omega, ?_⟩
    unfold keys
    refine List.mem_map.mpr ⟨d, ?_, ?_⟩
    · rw [shape_congr (x' := p.1) (y' := p.2) (z' := 3) (by omega) (by omega) rfl]; exact hd
    · unfold wrapAt
      rw [y3, z3, emod_small (by omega) (by omega), show 3 + d.2.2 = c by omega]

end

end Panqec.Color3DCode
