/-
XCubeCode lattice model: arithmetic characterisation of the coordinate lists, the periodic wrap as
if-then-else (`up` / `dn`), and the closed form of `get_stabilizer` for cubes and for the three kinds
of vertex ("face") operators.  Sizes `Lx, Ly, Lz ≥ 2`.
-/
import PanqecVerif.Proofs.Lat3DbCss
import PanqecVerif.Model.Lattices.XCubeCode
open Panqec Panqec.Lat3Db
namespace Panqec.XCubeCode

/-- qubit on an x-edge / y-edge / z-edge -/
def QX (Lx Ly Lz : Nat) (x y z : Int) : Prop := R1 (2 * Lx) x ∧ R0 (2 * Ly) y ∧ R0 (2 * Lz) z
def QY (Lx Ly Lz : Nat) (x y z : Int) : Prop := R0 (2 * Lx) x ∧ R1 (2 * Ly) y ∧ R0 (2 * Lz) z
def QZ (Lx Ly Lz : Nat) (x y z : Int) : Prop := R0 (2 * Lx) x ∧ R0 (2 * Ly) y ∧ R1 (2 * Lz) z
/-- cube -/
def SC (Lx Ly Lz : Nat) (x y z : Int) : Prop := R1 (2 * Lx) x ∧ R1 (2 * Ly) y ∧ R1 (2 * Lz) z
/-- vertex -/
def SVx (Lx Ly Lz : Nat) (x y z : Int) : Prop := R0 (2 * Lx) x ∧ R0 (2 * Ly) y ∧ R0 (2 * Lz) z

instance (Lx Ly Lz : Nat) (x y z : Int) : Decidable (QX Lx Ly Lz x y z) := by unfold QX; infer_instance
instance (Lx Ly Lz : Nat) (x y z : Int) : Decidable (QY Lx Ly Lz x y z) := by unfold QY; infer_instance
instance (Lx Ly Lz : Nat) (x y z : Int) : Decidable (QZ Lx Ly Lz x y z) := by unfold QZ; infer_instance

theorem mem_qubits_iff (Lx Ly Lz : Nat) (x y z : Int) :
    [x, y, z] ∈ qubits Lx Ly Lz ↔ QX Lx Ly Lz x y z ∨ QY Lx Ly Lz x y z ∨ QZ Lx Ly Lz x y z := by
  unfold qubits QX QY QZ
  simp only [List.mem_append, mem_grid3_cons, mem_pyRange2_0, mem_pyRange2_1, allTrue, and_true, or_assoc]

theorem isQubit_iff (Lx Ly Lz : Nat) (x y z : Int) :
    isQubit Lx Ly Lz [x, y, z] = true ↔ QX Lx Ly Lz x y z ∨ QY Lx Ly Lz x y z ∨ QZ Lx Ly Lz x y z := by
  unfold isQubit
  rw [List.contains_iff_mem, mem_qubits_iff]

theorem mem_qubits_shape (Lx Ly Lz : Nat) (s : Coord) (h : s ∈ qubits Lx Ly Lz) :
    ∃ x y z, s = [x, y, z] := by
  unfold qubits at h
  simp only [List.mem_append, mem_grid3] at h
  rcases h with (⟨x, y, z, rfl, _⟩ | ⟨x, y, z, rfl, _⟩) | ⟨x, y, z, rfl, _⟩ <;> exact ⟨x, y, z, rfl⟩

theorem mem_stabs_cube (Lx Ly Lz : Nat) (x y z : Int) :
    [x, y, z] ∈ stabs Lx Ly Lz ↔ SC Lx Ly Lz x y z := by
  unfold stabs SC
  simp only [List.mem_append, mem_grid3_cons, mem_pyRange2_1, allTrue, and_true, List.mem_flatMap,
    List.mem_map, List.cons.injEq]
  constructor
  · rintro (h | ⟨ax, _, c, hc, h⟩)
    · exact h
    · rw [mem_grid3] at hc
      obtain ⟨a, b, d, rfl, _⟩ := hc
      simp at h
  · intro h; exact Or.inl h

theorem mem_stabs_face (Lx Ly Lz : Nat) (ax x y z : Int) :
    [ax, x, y, z] ∈ stabs Lx Ly Lz ↔ (ax = 0 ∨ ax = 1 ∨ ax = 2) ∧ SVx Lx Ly Lz x y z := by
  unfold stabs SVx
  simp only [List.mem_append, List.mem_flatMap, List.mem_map, List.cons.injEq, List.mem_cons,
    List.not_mem_nil, or_false]
  constructor
  · rintro (h | ⟨a, ha, c, hc, rfl, rfl⟩)
    · rw [mem_grid3] at h
      obtain ⟨a, b, d, h, _⟩ := h
      simp at h
    · rw [mem_grid3_cons] at hc
      simp only [mem_pyRange2_0, allTrue, and_true] at hc
      exact ⟨ha, hc⟩
  · rintro ⟨ha, hc⟩
    refine Or.inr ⟨ax, ha, [x, y, z], ?_, rfl, rfl⟩
    rw [mem_grid3_cons]
    simp only [mem_pyRange2_0, allTrue, and_true]
    exact hc

theorem mem_stabs_shape (Lx Ly Lz : Nat) (s : Coord) (h : s ∈ stabs Lx Ly Lz) :
    (∃ x y z, s = [x, y, z]) ∨ (∃ ax x y z, s = [ax, x, y, z]) := by
  unfold stabs at h
  simp only [List.mem_append, List.mem_flatMap, List.mem_map, mem_grid3] at h
  rcases h with ⟨x, y, z, rfl, _⟩ | ⟨ax, _, c, ⟨x, y, z, rfl, _⟩, rfl⟩
  · exact Or.inl ⟨x, y, z, rfl⟩
  · exact Or.inr ⟨ax, x, y, z, rfl⟩

/-! ### periodic wrap as if-then-else -/

/-- `(x + 1) % P` for `0 ≤ x < P` -/
def up (P : Nat) (x : Int) : Int := if x + 1 = P then 0 else x + 1
/-- `(x - 1) % P` for `0 ≤ x < P` -/
def dn (P : Nat) (x : Int) : Int := if x = 0 then P - 1 else x - 1

theorem up_spec (P : Nat) (x : Int) : (x + 1 = P ∧ up P x = 0) ∨ (x + 1 ≠ P ∧ up P x = x + 1) := by
  unfold up; split <;> simp_all
theorem dn_spec (P : Nat) (x : Int) : (x = 0 ∧ dn P x = P - 1) ∨ (x ≠ 0 ∧ dn P x = x - 1) := by
  unfold dn; split <;> simp_all

theorem pmod_up (P : Nat) (x : Int) (h0 : 0 ≤ x) (h1 : x < P) : pmod (x + 1) P = up P x := by
  unfold pmod up
  split
  · rename_i h; rw [h]; exact Int.emod_self
  · exact Int.emod_eq_of_lt (by omega) (by omega)

theorem pmod_dn (P : Nat) (x : Int) (h0 : 0 ≤ x) (h1 : x < P) : pmod (x + -1) P = dn P x := by
  unfold pmod dn
  split
  · rename_i h; subst h
    have : ((0 : Int) + -1) % (P : Int) = ((P : Int) - 1) % (P : Int) := by
      rw [← Int.add_emod_right ((0 : Int) + -1) (P : Int)]; congr 1
    rw [this]; exact Int.emod_eq_of_lt (by omega) (by omega)
  · exact Int.emod_eq_of_lt (by omega) (by omega)

theorem pmod_id (P : Nat) (x : Int) (h0 : 0 ≤ x) (h1 : x < P) : pmod (x + 0) P = x := by
  unfold pmod; rw [Int.add_zero]; exact Int.emod_eq_of_lt h0 h1


theorem pmod_succ_nowrap (P : Nat) (x : Int) (h0 : 0 ≤ x) (h1 : x + 1 < P) : pmod (x + 1) P = x + 1 := by
  unfold pmod; exact Int.emod_eq_of_lt (by omega) h1

theorem pmod_pred_nowrap (P : Nat) (x : Int) (h0 : 1 ≤ x) (h1 : x ≤ P) : pmod (x + -1) P = x - 1 := by
  unfold pmod; rw [← Int.sub_eq_add_neg]; exact Int.emod_eq_of_lt (by omega) (by omega)

/-! ### the delta lists applied to a location -/

/-- qubits of the cube `(x, y, z)` (odd coordinates): the upper neighbour wraps -/
def cubeLocs (Lx Ly Lz : Nat) (x y z : Int) : List Coord :=
  [[up (2*Lx) x, up (2*Ly) y, z], [x - 1, y - 1, z], [up (2*Lx) x, y - 1, z], [x - 1, up (2*Ly) y, z],
   [x - 1, y, z - 1], [up (2*Lx) x, y, z - 1], [x, y - 1, z - 1], [x, up (2*Ly) y, z - 1],
   [x - 1, y, up (2*Lz) z], [up (2*Lx) x, y, up (2*Lz) z], [x, y - 1, up (2*Lz) z], [x, up (2*Ly) y, up (2*Lz) z]]

/-- qubits of the vertex operators at `(x, y, z)` (even coordinates): the lower neighbour wraps -/
def faceLocsX (_Lx Ly Lz : Nat) (x y z : Int) : List Coord :=
  [[x, y + 1, z], [x, dn (2*Ly) y, z], [x, y, z + 1], [x, y, dn (2*Lz) z]]
def faceLocsY (Lx _Ly Lz : Nat) (x y z : Int) : List Coord :=
  [[x + 1, y, z], [dn (2*Lx) x, y, z], [x, y, z + 1], [x, y, dn (2*Lz) z]]
def faceLocsZ (Lx Ly _Lz : Nat) (x y z : Int) : List Coord :=
  [[x + 1, y, z], [dn (2*Lx) x, y, z], [x, y + 1, z], [x, dn (2*Ly) y, z]]

theorem map_cubeDelta (Lx Ly Lz : Nat) (x y z : Int) (h : SC Lx Ly Lz x y z) :
    cubeDelta.map (wrapAdd Lx Ly Lz x y z) = cubeLocs Lx Ly Lz x y z := by
  unfold SC R1 at h
  have ex := pmod_up (2*Lx) x (by omega) (by omega)
  have ey := pmod_up (2*Ly) y (by omega) (by omega)
  have ez := pmod_up (2*Lz) z (by omega) (by omega)
  have dx := pmod_pred_nowrap (2*Lx) x (by omega) (by omega)
  have dy := pmod_pred_nowrap (2*Ly) y (by omega) (by omega)
  have dz := pmod_pred_nowrap (2*Lz) z (by omega) (by omega)
  have ix := pmod_id (2*Lx) x (by omega) (by omega)
  have iy := pmod_id (2*Ly) y (by omega) (by omega)
  have iz := pmod_id (2*Lz) z (by omega) (by omega)
  simp only [cubeDelta, wrapAdd, List.map_cons, List.map_nil, cubeLocs, ex, ey, ez, dx, dy, dz, ix, iy, iz]

theorem map_faceDeltaX (Lx Ly Lz : Nat) (x y z : Int) (h : SVx Lx Ly Lz x y z) :
    faceDeltaX.map (wrapAdd Lx Ly Lz x y z) = faceLocsX Lx Ly Lz x y z := by
  unfold SVx R0 at h
  have ey := pmod_succ_nowrap (2*Ly) y (by omega) (by omega)
  have ez := pmod_succ_nowrap (2*Lz) z (by omega) (by omega)
  have dy := pmod_dn (2*Ly) y (by omega) (by omega)
  have dz := pmod_dn (2*Lz) z (by omega) (by omega)
  have ix := pmod_id (2*Lx) x (by omega) (by omega)
  have iy := pmod_id (2*Ly) y (by omega) (by omega)
  have iz := pmod_id (2*Lz) z (by omega) (by omega)
  simp only [faceDeltaX, wrapAdd, List.map_cons, List.map_nil, faceLocsX, ey, ez, dy, dz, ix, iy, iz]

theorem map_faceDeltaY (Lx Ly Lz : Nat) (x y z : Int) (h : SVx Lx Ly Lz x y z) :
    faceDeltaY.map (wrapAdd Lx Ly Lz x y z) = faceLocsY Lx Ly Lz x y z := by
  unfold SVx R0 at h
  have ex := pmod_succ_nowrap (2*Lx) x (by omega) (by omega)
  have ez := pmod_succ_nowrap (2*Lz) z (by omega) (by omega)
  have dx := pmod_dn (2*Lx) x (by omega) (by omega)
  have dz := pmod_dn (2*Lz) z (by omega) (by omega)
  have ix := pmod_id (2*Lx) x (by omega) (by omega)
  have iy := pmod_id (2*Ly) y (by omega) (by omega)
  have iz := pmod_id (2*Lz) z (by omega) (by omega)
  simp only [faceDeltaY, wrapAdd, List.map_cons, List.map_nil, faceLocsY, ex, ez, dx, dz, ix, iy, iz]

theorem map_faceDeltaZ (Lx Ly Lz : Nat) (x y z : Int) (h : SVx Lx Ly Lz x y z) :
    faceDeltaZ.map (wrapAdd Lx Ly Lz x y z) = faceLocsZ Lx Ly Lz x y z := by
  unfold SVx R0 at h
  have ex := pmod_succ_nowrap (2*Lx) x (by omega) (by omega)
  have ey := pmod_succ_nowrap (2*Ly) y (by omega) (by omega)
  have dx := pmod_dn (2*Lx) x (by omega) (by omega)
  have dy := pmod_dn (2*Ly) y (by omega) (by omega)
  have ix := pmod_id (2*Lx) x (by omega) (by omega)
  have iy := pmod_id (2*Ly) y (by omega) (by omega)
  have iz := pmod_id (2*Lz) z (by omega) (by omega)
  simp only [faceDeltaZ, wrapAdd, List.map_cons, List.map_nil, faceLocsZ, ex, ey, dx, dy, ix, iy, iz]

end Panqec.XCubeCode
