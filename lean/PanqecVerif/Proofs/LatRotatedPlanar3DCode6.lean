/-
RotatedPlanar3DCode lattice model: number of qubits and of logical operators for every size.
-/
import PanqecVerif.Proofs.Lat3DbCount
import PanqecVerif.Proofs.LatRotatedPlanar3DCode3
open Panqec Panqec.Lat3Db
namespace Panqec.RotatedPlanar3DCode

theorem length_qubits (Lx Ly Lz : Nat) :
    (qubits Lx Ly Lz).length =
      Lx * Ly * Lz + ((Lx / 2) * (Ly / 2 + 1) + ((Lx - 1) / 2) * ((Ly + 1) / 2)) * (Lz - 1) := by
  unfold qubits
  rw [List.length_append, length_grid3_true, length_grid3_xy, cnt2_checker]
  simp only [length_pyRange2]
  have e1 : (2 * Lx + 1 - 1) / 2 = Lx := by omega
  have e2 : (2 * Ly + 1 - 1) / 2 = Ly := by omega
  have e3 : (2 * Lz + 1 - 1) / 2 = Lz := by omega
  have e4 : (2 * Lz + 1 - 2) / 2 = Lz - 1 := by omega
  rw [e1, e2, e3, e4]

end Panqec.RotatedPlanar3DCode
