/-
`gf2Rank` against the elementary (xorSelect-level) rank `MaskRank` of `Gf2RankSel.lean`:
`MaskRank rows` is single-valued and its value is `gf2Rank rows`.  The proof goes through
the vector-space rank of `Gf2Rank.lean` (`maskRank`), which avoids a Steinitz exchange
argument on lists.
-/
import PanqecVerif.Proofs.Gf2Rank
import PanqecVerif.Proofs.Gf2RankSel

namespace Panqec

open Module Submodule

theorem maskSpan_cons (w : ℕ) (b : ℕ) (bs : List ℕ) :
    maskSpan w (b :: bs) = maskSpan w bs ⊔ span (ZMod 2) {toVecMask w b} := by
  apply le_antisymm
  · apply maskSpan_le
    intro r hr
    rcases List.mem_cons.mp hr with rfl | h
    · exact mem_sup_right (mem_span_singleton_self _)
    · exact mem_sup_left (mem_maskSpan_of_mem h)
  · apply sup_le
    · exact maskSpan_le fun r hr => mem_maskSpan_of_mem (List.mem_cons_of_mem _ hr)
    · rw [span_le, Set.singleton_subset_iff]
      exact mem_maskSpan_of_mem List.mem_cons_self

/-- a xor-combination of the rows lies in the row space -/
theorem toVecMask_xorSelect_mem (w : ℕ) : ∀ (rows : List ℕ) (sel : ℕ),
    toVecMask w (xorSelect rows sel) ∈ maskSpan w rows
  | [], _ => by rw [xorSelect_nil, toVecMask_zero]; exact zero_mem _
  | r :: rs, sel => by
    have ih := toVecMask_xorSelect_mem w rs (sel / 2)
    rw [xorSelect, toVecMask_xor, maskSpan_cons, add_comm]
    apply add_mem (mem_sup_left ih)
    by_cases hs : sel % 2 = 1
    · rw [if_pos hs]; exact mem_sup_right (mem_span_singleton_self _)
    · rw [if_neg hs, toVecMask_zero]; exact zero_mem _

/-- every vector of the row space is (the vector of) a xor-combination of the rows -/
theorem exists_sel_of_mem_maskSpan (w : ℕ) (rows : List ℕ) (v : Fin w → ZMod 2)
    (hv : v ∈ maskSpan w rows) :
    ∃ sel, sel < 2 ^ rows.length ∧ v = toVecMask w (xorSelect rows sel) := by
  rw [maskSpan_eq_image] at hv
  induction hv using span_induction with
  | mem x hx =>
    obtain ⟨r, hr, rfl⟩ := hx
    obtain ⟨s, hs, he⟩ := exists_sel_of_mem rows r hr
    exact ⟨s, hs, by rw [he]⟩
  | zero => exact ⟨0, Nat.two_pow_pos _, by rw [xorSelect_zero, toVecMask_zero]⟩
  | add x y _ _ hx hy =>
    obtain ⟨a, ha, rfl⟩ := hx
    obtain ⟨b, hb, rfl⟩ := hy
    exact ⟨a ^^^ b, Nat.xor_lt_two_pow ha hb, by rw [xorSelect_xor, toVecMask_xor]⟩
  | smul c x _ hx =>
    obtain ⟨a, ha, rfl⟩ := hx
    have hc : c = 0 ∨ c = 1 := by
      revert c; decide
    rcases hc with rfl | rfl
    · exact ⟨0, Nat.two_pow_pos _, by rw [zero_smul, xorSelect_zero, toVecMask_zero]⟩
    · exact ⟨a, ha, by rw [one_smul]⟩

/-- for masks that fit in `w` bits, `MaskInSpan` is membership in the row space -/
theorem maskInSpan_iff_mem_maskSpan {w : ℕ} {rows : List ℕ} {v : ℕ}
    (hrows : ∀ r ∈ rows, r < 2 ^ w) (hv : v < 2 ^ w) :
    MaskInSpan rows v ↔ toVecMask w v ∈ maskSpan w rows := by
  constructor
  · rintro ⟨sel, rfl⟩
    exact toVecMask_xorSelect_mem w rows sel
  · intro h
    obtain ⟨sel, _, he⟩ := exists_sel_of_mem_maskSpan w rows _ h
    exact ⟨sel, (toVecMask_injective hv (xorSelect_lt w rows sel hrows) he).symm⟩

/-- an independent list of masks spans a space of dimension its length -/
theorem maskRank_of_indep (w : ℕ) : ∀ (basis : List ℕ), (∀ b ∈ basis, b < 2 ^ w) →
    MaskIndep basis → maskRank w basis = basis.length
  | [], _, _ => by rw [maskRank_nil]; rfl
  | b :: bs, hlt, hind => by
    have hlt' : ∀ x ∈ bs, x < 2 ^ w := fun x hx => hlt x (List.mem_cons_of_mem _ hx)
    have ih := maskRank_of_indep w bs hlt' (maskIndep_tail hind)
    have hnot : toVecMask w b ∉ maskSpan w bs := by
      intro hmem
      obtain ⟨sel, hs, he⟩ := exists_sel_of_mem_maskSpan w bs _ hmem
      have := toVecMask_injective (hlt b List.mem_cons_self) (xorSelect_lt w bs sel hlt') he
      exact not_maskInSpan_of_indep_cons hind sel hs this.symm
    rw [maskRank, maskSpan_cons, finrank_sup_span_singleton hnot, List.length_cons]
    rw [maskRank] at ih
    rw [ih]

/-- two lists of masks with the same xor-span have the same row space -/
theorem maskSpan_le_of_inSpan (w : ℕ) {a b : List ℕ} (h : ∀ v ∈ a, MaskInSpan b v) :
    maskSpan w a ≤ maskSpan w b := by
  apply maskSpan_le
  intro r hr
  obtain ⟨sel, rfl⟩ := h r hr
  exact toVecMask_xorSelect_mem w b sel

/-- **uniqueness**: any basis of the span of the rows has `gf2Rank rows` elements -/
theorem gf2Rank_eq_of_maskRank {rows : List ℕ} {r : ℕ} (h : MaskRank rows r) :
    gf2Rank rows = r := by
  obtain ⟨basis, hlen, hind, hin, hspan⟩ := h
  obtain ⟨w, hw⟩ := exists_width rows
  have hb : ∀ b ∈ basis, b < 2 ^ w := by
    intro b hb
    obtain ⟨sel, rfl⟩ := hin b hb
    exact xorSelect_lt w rows sel hw
  have hs : maskSpan w rows = maskSpan w basis :=
    le_antisymm (maskSpan_le_of_inSpan w hspan) (maskSpan_le_of_inSpan w hin)
  rw [gf2Rank_eq_finrank w rows hw, maskRank, hs, ← maskRank, maskRank_of_indep w basis hb hind,
    hlen]

/-- **existence**: the span of the rows has a basis of `gf2Rank rows` elements (which can
    be chosen among the rows) -/
theorem maskRank_gf2Rank (rows : List ℕ) : MaskRank rows (gf2Rank rows) := by
  obtain ⟨basis, hind, hsub, hspan⟩ := exists_maskBasis rows
  have h : MaskRank rows basis.length :=
    ⟨basis, rfl, hind, fun b hb => maskInSpan_of_mem (hsub b hb), hspan⟩
  rw [gf2Rank_eq_of_maskRank h]
  exact h

/-- **`gf2_rank` computes the GF(2) rank, elementary form** (no width hypothesis): the
    returned number is the unique `r` for which the rows' span has a basis of `r` masks. -/
theorem gf2Rank_eq_iff_maskRank (rows : List ℕ) (r : ℕ) : gf2Rank rows = r ↔ MaskRank rows r :=
  ⟨fun h => h ▸ maskRank_gf2Rank rows, gf2Rank_eq_of_maskRank⟩

/-- `MaskRank` is a function of the rows -/
theorem maskRank_unique {rows : List ℕ} {r r' : ℕ} (h : MaskRank rows r) (h' : MaskRank rows r') :
    r = r' := by
  rw [← gf2Rank_eq_of_maskRank h, ← gf2Rank_eq_of_maskRank h']

end Panqec
