/-
`RotatedToric3DCode`, supported family: every stabilizer generator is a signed operator on one of
the four candidate lists; consequences: distinct keys, support on qubits, letters X / Z, non-empty,
and any two generators commute.
-/
import PanqecVerif.Proofs.OpCommCore
import PanqecVerif.Proofs.LatRotatedToric3DCode5
open Panqec Panqec.Lat3Db
namespace Panqec.RotatedToric3DCode

set_option linter.unusedVariables false
set_option linter.unusedSimpArgs false

/-- the four kinds of stabilizer generator with their signed candidate lists -/
inductive Kind (Lx Ly Lz : Nat) : Coord → List (Coord × Bool) → Prop
  | vertex {x y z : Int} (h : SV Lx Ly Lz x y z) : Kind Lx Ly Lz [x, y, z] (KV Lx Ly x y z)
  | hface {x y z : Int} (h : SH Lx Ly Lz x y z) : Kind Lx Ly Lz [x, y, z] (KH Lx Ly x y z)
  | vfaceX {x y z : Int} (h : SF Lx Ly Lz x y z) (h4 : (x + y) % 4 = 0) :
      Kind Lx Ly Lz [x, y, z] (KFX Lx Ly x y z)
  | vfaceY {x y z : Int} (h : SF Lx Ly Lz x y z) (h4 : (x + y) % 4 = 2) :
      Kind Lx Ly Lz [x, y, z] (KFY Lx Ly x y z)

theorem kind_of_mem {Lx Ly Lz : Nat} {s : Coord} (hs : s ∈ stabs Lx Ly Lz) :
    ∃ K, Kind Lx Ly Lz s K := by
  obtain ⟨x, y, z, rfl⟩ := mem_stabs_shape _ _ _ _ hs
  rw [mem_stabs_iff] at hs
  rcases hs with h | h | h
  · exact ⟨_, Kind.vertex h⟩
  · exact ⟨_, Kind.hface h⟩
  · rcases SF_mod4 h with h4 | h4
    · exact ⟨_, Kind.vfaceX h h4⟩
    · exact ⟨_, Kind.vfaceY h h4⟩

theorem signed_of_kind {Lx Ly Lz : Nat} (hF : Fam Lx Ly) {s : Coord} {K : List (Coord × Bool)}
    (hk : Kind Lx Ly Lz s K) : Signed Lx Ly Lz (getStab Lx Ly Lz s) K := by
  cases hk with
  | vertex h => exact signed_vertex hF h
  | hface h => exact signed_hface hF h
  | vfaceX h h4 => exact signed_vfaceX hF h h4
  | vfaceY h h4 => exact signed_vfaceY hF h h4

/-- the first candidate of every kind is a qubit (so no generator is empty) -/
theorem first_candidate_qubit {Lx Ly Lz : Nat} (hF : Fam Lx Ly) {s : Coord}
    {K : List (Coord × Bool)} (hk : Kind Lx Ly Lz s K) :
    ∃ e ∈ K, isQubit Lx Ly Lz e.1 = true := by
  obtain ⟨hLx, hLy, hfam⟩ := hF
  cases hk with
  | @vertex x y z h =>
    obtain ⟨hx, hy, hz, _⟩ := h
    rw [R2_Ev] at hx hy
    exact ⟨([sw Lx x, y - 1, z], false), by simp [KV],
      isQ_h (sw_od (by omega) hx) (pred_od hy) hz⟩
  | @hface x y z h =>
    obtain ⟨hx, hy, hz, _⟩ := h
    rw [R2_Ev] at hx hy
    exact ⟨([x - 1, y - 1, z], true), by simp [KH], isQ_h (pred_od hx) (pred_od hy) hz⟩
  | @vfaceX x y z h h4 =>
    obtain ⟨hx, hy, hz, _⟩ := h
    rw [R1_Od] at hx hy
    refine ⟨([x, y, z - 1], false), by simp [KFX], isQ_h hx hy ?_⟩
    unfold R2 at hz; unfold R1; omega
  | @vfaceY x y z h h4 =>
    obtain ⟨hx, hy, hz, _⟩ := h
    rw [R1_Od] at hx hy
    refine ⟨([x, y, z - 1], true), by simp [KFY], isQ_h hx hy ?_⟩
    unfold R2 at hz; unfold R1; omega

section facts
variable {Lx Ly Lz : Nat} {op : Op} {K : List (Coord × Bool)}

theorem Signed.keysNodup (h : Signed Lx Ly Lz op K) : (op.map Prod.fst).Nodup := by
  obtain ⟨g, rfl, _⟩ := h.eq
  rw [gop_keys]; exact h.keys_nodup.filter _

theorem Signed.supported (h : Signed Lx Ly Lz op K) :
    ∀ e ∈ op, e.1 ∈ qubits Lx Ly Lz ∧ e.2 ≠ Pauli.I := by
  obtain ⟨g, rfl, hg⟩ := h.eq
  intro e he
  rw [mem_gop, List.mem_filter] at he
  obtain ⟨⟨hk, hq⟩, hl⟩ := he
  refine ⟨by unfold isQubit at hq; simpa using hq, ?_⟩
  obtain ⟨e', he', hk'⟩ := List.mem_map.mp hk
  rw [hl, ← hk', hg e' he']
  exact dl_ne_I _ _

theorem Signed.ne_nil (h : Signed Lx Ly Lz op K) (hq : ∃ e ∈ K, isQubit Lx Ly Lz e.1 = true) :
    op ≠ [] := by
  obtain ⟨g, rfl, _⟩ := h.eq
  obtain ⟨e, he, hq⟩ := hq
  intro h0
  have : e.1 ∈ (K.map Prod.fst).filter (isQubit Lx Ly Lz) :=
    List.mem_filter.mpr ⟨List.mem_map.mpr ⟨e, he, rfl⟩, hq⟩
  have h1 : (gop ((K.map Prod.fst).filter (isQubit Lx Ly Lz)) g).map Prod.fst = [] := by
    rw [h0]; rfl
  rw [gop_keys] at h1
  rw [h1] at this
  exact List.not_mem_nil this

end facts

/-- the number of sign clashes of two generators is even -/
theorem antiPairs_even {Lx Ly Lz : Nat} (hF : Fam Lx Ly) {s t : Coord}
    {K1 K2 : List (Coord × Bool)} (h1 : Kind Lx Ly Lz s K1) (h2 : Kind Lx Ly Lz t K2) :
    antiPairs Lx Ly Lz K1 K2 % 2 = 0 ∨ antiPairs Lx Ly Lz K2 K1 % 2 = 0 := by
  cases h1 with
  | vertex h =>
    cases h2 with
    | vertex h' => exact Or.inl (anti_VV hF h h')
    | hface h' => exact Or.inl (anti_VH hF h h')
    | vfaceX h' h4' => exact Or.inl (anti_VFX hF h h' h4')
    | vfaceY h' h4' => exact Or.inl (anti_VFY hF h h' h4')
  | hface h =>
    cases h2 with
    | vertex h' => exact Or.inr (anti_VH hF h' h)
    | hface h' => exact Or.inl (anti_HH hF h h')
    | vfaceX h' h4' => exact Or.inl (anti_HFX hF h h' h4')
    | vfaceY h' h4' => exact Or.inl (anti_HFY hF h h' h4')
  | vfaceX h h4 =>
    cases h2 with
    | vertex h' => exact Or.inr (anti_VFX hF h' h h4)
    | hface h' => exact Or.inr (anti_HFX hF h' h h4)
    | vfaceX h' h4' => exact Or.inl (anti_FXFX _ _ _ _ _ _)
    | vfaceY h' h4' => exact Or.inl (anti_FXFY h h' h4 h4')
  | vfaceY h h4 =>
    cases h2 with
    | vertex h' => exact Or.inr (anti_VFY hF h' h h4)
    | hface h' => exact Or.inr (anti_HFY hF h' h h4)
    | vfaceX h' h4' => exact Or.inl (anti_FYFX h h' h4 h4')
    | vfaceY h' h4' => exact Or.inl (anti_FYFY h h')

/-- any two stabilizer generators commute -/
theorem stab_comm {Lx Ly Lz : Nat} (hF : Fam Lx Ly) {s t : Coord} (hs : s ∈ stabs Lx Ly Lz)
    (ht : t ∈ stabs Lx Ly Lz) : opCommute (getStab Lx Ly Lz s) (getStab Lx Ly Lz t) = true := by
  obtain ⟨K1, k1⟩ := kind_of_mem hs
  obtain ⟨K2, k2⟩ := kind_of_mem ht
  have s1 := signed_of_kind hF k1
  have s2 := signed_of_kind hF k2
  rcases antiPairs_even hF k1 k2 with h | h
  · exact opCommute_signed s1 s2 h
  · rw [opCommute_comm (show KeysNodup _ from s1.keysNodup) (show KeysNodup _ from s2.keysNodup)]
    exact opCommute_signed s2 s1 h

end Panqec.RotatedToric3DCode
