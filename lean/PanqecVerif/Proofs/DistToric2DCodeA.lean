/-
Toric2DCode, all sizes, C17 part A: the lattice translates of the four listed logical
operators and the parity argument.

A dict operator `b` that commutes with every stabilizer generator anticommutes (mod 2) with
every translate of a listed logical line on as many qubits as with the line itself: two
consecutive translates differ by the product of the row / column of vertex (Z lines) or face
(X lines) generators between them, the qubits across being counted twice (cyclically shifted).
-/
import PanqecVerif.Proofs.DistLines
import PanqecVerif.Proofs.LatToric2DCodeD

namespace Panqec.Toric2DCode
open Panqec.Lat2D

/-! ### the ladder in lattice coordinates (`u` = moving coordinate, `w` = along the line) -/

/-- lines at odd `u`, positions at even `w` (Z lines; rungs at even `u`, odd `w`) -/
theorem ladder_coords0 (M L : Nat) (F : Int → Int → Nat)
    (hstab : ∀ i j : Nat, i + 1 < M → j < L →
      (F (2 * i + 1) (2 * j) + F (2 * i + 3) (2 * j)
        + F (2 * i + 2) (predW (2 * j) (2 * L)) + F (2 * i + 2) (2 * j + 1)) % 2 = 0) :
    ∀ i : Nat, i < M →
      rsum L (fun j => F (2 * i + 1) (2 * j)) % 2 = rsum L (fun j => F 1 (2 * j)) % 2 := by
  intro i hi
  have h := ladder L M (fun i j => F (2 * i + 1) (2 * j)) (fun i j => F (2 * i + 2) (2 * j + 1))
    (fun i j => F (2 * i + 2) (predW (2 * j) (2 * L))) ?_ ?_ i hi
  · simpa using h
  · intro i _
    rw [← rsum_predWrap (fun j => F (2 * i + 2) (2 * j + 1)) L]
    apply rsum_congr
    intro j hj
    show F _ _ = F _ _
    congr 1
    unfold predW
    split <;> split <;> omega
  · intro i hi j hj
    have := hstab i j hi hj
    have e : (2 * ((i + 1 : Nat) : Int) + 1) = 2 * (i : Int) + 3 := by omega
    simp only [e]
    omega

/-- lines at even `u`, positions at odd `w` (X lines; rungs at odd `u`, even `w`) -/
theorem ladder_coords1 (M L : Nat) (F : Int → Int → Nat)
    (hstab : ∀ i j : Nat, i + 1 < M → j < L →
      (F (2 * i) (2 * j + 1) + F (2 * i + 2) (2 * j + 1)
        + F (2 * i + 1) (2 * j) + F (2 * i + 1) (succW (2 * j + 1) (2 * L))) % 2 = 0) :
    ∀ i : Nat, i < M →
      rsum L (fun j => F (2 * i) (2 * j + 1)) % 2 = rsum L (fun j => F 0 (2 * j + 1)) % 2 := by
  intro i hi
  have h := ladder L M (fun i j => F (2 * i) (2 * j + 1)) (fun i j => F (2 * i + 1) (2 * j))
    (fun i j => F (2 * i + 1) (succW (2 * j + 1) (2 * L))) ?_ ?_ i hi
  · simpa using h
  · intro i _
    rw [← rsum_succWrap (fun j => F (2 * i + 1) (2 * j)) L]
    apply rsum_congr
    intro j hj
    show F _ _ = F _ _
    congr 1
    unfold succW
    split <;> split <;> omega
  · intro i hi j hj
    have := hstab i j hi hj
    have e : (2 * ((i + 1 : Nat) : Int)) = 2 * (i : Int) + 2 := by omega
    simp only [e]
    omega

/-! ### one generator -/

/-- `b` commutes with every stabilizer generator of the lattice -/
def CommStabs (Lx Ly : Nat) (b : Op) : Prop :=
  ∀ s ∈ (lattice Lx Ly).stabs, opAntiCount ((lattice Lx Ly).getStab s) b % 2 = 0

theorem stab_even {Lx Ly : Nat} (hx : 2 ≤ Lx) (hy : 2 ≤ Ly) {b : Op} (hb : CommStabs Lx Ly b)
    {x y : Int} (hs : [x, y] ∈ stabs Lx Ly) :
    (ind (letter x) b [predW x (2 * (Lx : Int)), y] + ind (letter x) b [succW x (2 * (Lx : Int)), y]
      + ind (letter x) b [x, predW y (2 * (Ly : Int))]
      + ind (letter x) b [x, succW y (2 * (Ly : Int))]) % 2 = 0 := by
  have h := hb [x, y] hs
  rw [getStab_eq hx hy hs, opAntiCount_line] at h
  unfold nbrs at h
  simp only [List.countP_cons, List.countP_nil] at h
  unfold ind
  omega

/-! ### the listed lines -/

theorem kZ0_eq (Ly : Nat) : kZ0 Ly = colKeys 1 0 Ly := by
  unfold kZ0 colKeys; rw [pyRange2_eq 0 Ly (by omega), List.map_map]; rfl
theorem kX1_eq (Ly : Nat) : kX1 Ly = colKeys 0 1 Ly := by
  unfold kX1 colKeys; rw [pyRange2_eq 1 Ly (by omega), List.map_map]; rfl
theorem kZ1_eq (Lx : Nat) : kZ1 Lx = rowKeys 1 0 Lx := by
  unfold kZ1 rowKeys; rw [pyRange2_eq 0 Lx (by omega), List.map_map]; rfl
theorem kX0_eq (Lx : Nat) : kX0 Lx = rowKeys 0 1 Lx := by
  unfold kX0 rowKeys; rw [pyRange2_eq 1 Lx (by omega), List.map_map]; rfl

/-! ### the four parity statements -/

variable {Lx Ly : Nat}

/-- `Z̄₁` (vertical Z line at `x = 1`): translates at `x = 2i + 1` -/
theorem parity_Z0 (hx : 2 ≤ Lx) (hy : 2 ≤ Ly) {b : Op} (hb : CommStabs Lx Ly b) (i : Nat)
    (hi : i < Lx) :
    (colKeys (2 * i + 1) 0 Ly).countP (opHit Pauli.Z b) % 2 =
      (colKeys 1 0 Ly).countP (opHit Pauli.Z b) % 2 := by
  rw [countP_colKeys, countP_colKeys]
  have h := ladder_coords0 Lx Ly (fun u w => ind Pauli.Z b [u, w]) ?_ i hi
  · simpa using h
  · intro i j hi hj
    have hs : [2 * (i : Int) + 2, 2 * (j : Int)] ∈ stabs Lx Ly := by
      rw [mem_stabs']; left; unfold IsV InBox; omega
    have h := stab_even hx hy hb hs
    have hl : letter (2 * (i : Int) + 2) = Pauli.Z := by unfold letter; rw [if_pos (by omega)]
    have e1 : predW (2 * (i : Int) + 2) (2 * (Lx : Int)) = 2 * (i : Int) + 1 := by
      unfold predW; rw [if_neg (by omega)]; omega
    have e2 : succW (2 * (i : Int) + 2) (2 * (Lx : Int)) = 2 * (i : Int) + 3 := by
      unfold succW; rw [if_neg (by omega)]; omega
    have e3 : succW (2 * (j : Int)) (2 * (Ly : Int)) = 2 * (j : Int) + 1 := by
      unfold succW; rw [if_neg (by omega)]
    rw [hl, e1, e2, e3] at h
    exact h

/-- `X̄₂` (vertical X line at `x = 0`): translates at `x = 2i` -/
theorem parity_X1 (hx : 2 ≤ Lx) (hy : 2 ≤ Ly) {b : Op} (hb : CommStabs Lx Ly b) (i : Nat)
    (hi : i < Lx) :
    (colKeys (2 * i) 1 Ly).countP (opHit Pauli.X b) % 2 =
      (colKeys 0 1 Ly).countP (opHit Pauli.X b) % 2 := by
  rw [countP_colKeys, countP_colKeys]
  have h := ladder_coords1 Lx Ly (fun u w => ind Pauli.X b [u, w]) ?_ i hi
  · simpa using h
  · intro i j hi hj
    have hs : [2 * (i : Int) + 1, 2 * (j : Int) + 1] ∈ stabs Lx Ly := by
      rw [mem_stabs']; right; unfold IsF InBox; omega
    have h := stab_even hx hy hb hs
    have hl : letter (2 * (i : Int) + 1) = Pauli.X := by unfold letter; rw [if_neg (by omega)]
    have e1 : predW (2 * (i : Int) + 1) (2 * (Lx : Int)) = 2 * (i : Int) := by
      unfold predW; rw [if_neg (by omega)]; omega
    have e2 : succW (2 * (i : Int) + 1) (2 * (Lx : Int)) = 2 * (i : Int) + 2 := by
      unfold succW; rw [if_neg (by omega)]; omega
    have e3 : predW (2 * (j : Int) + 1) (2 * (Ly : Int)) = 2 * (j : Int) := by
      unfold predW; rw [if_neg (by omega)]; omega
    rw [hl, e1, e2, e3] at h
    exact h

/-- `Z̄₂` (horizontal Z line at `y = 1`): translates at `y = 2i + 1` -/
theorem parity_Z1 (hx : 2 ≤ Lx) (hy : 2 ≤ Ly) {b : Op} (hb : CommStabs Lx Ly b) (i : Nat)
    (hi : i < Ly) :
    (rowKeys (2 * i + 1) 0 Lx).countP (opHit Pauli.Z b) % 2 =
      (rowKeys 1 0 Lx).countP (opHit Pauli.Z b) % 2 := by
  rw [countP_rowKeys, countP_rowKeys]
  have h := ladder_coords0 Ly Lx (fun u w => ind Pauli.Z b [w, u]) ?_ i hi
  · simpa using h
  · intro i j hi hj
    have hs : [2 * (j : Int), 2 * (i : Int) + 2] ∈ stabs Lx Ly := by
      rw [mem_stabs']; left; unfold IsV InBox; omega
    have h := stab_even hx hy hb hs
    have hl : letter (2 * (j : Int)) = Pauli.Z := by unfold letter; rw [if_pos (by omega)]
    have e1 : predW (2 * (i : Int) + 2) (2 * (Ly : Int)) = 2 * (i : Int) + 1 := by
      unfold predW; rw [if_neg (by omega)]; omega
    have e2 : succW (2 * (i : Int) + 2) (2 * (Ly : Int)) = 2 * (i : Int) + 3 := by
      unfold succW; rw [if_neg (by omega)]; omega
    have e3 : succW (2 * (j : Int)) (2 * (Lx : Int)) = 2 * (j : Int) + 1 := by
      unfold succW; rw [if_neg (by omega)]
    rw [hl, e1, e2, e3] at h
    omega

/-- `X̄₁` (horizontal X line at `y = 0`): translates at `y = 2i` -/
theorem parity_X0 (hx : 2 ≤ Lx) (hy : 2 ≤ Ly) {b : Op} (hb : CommStabs Lx Ly b) (i : Nat)
    (hi : i < Ly) :
    (rowKeys (2 * i) 1 Lx).countP (opHit Pauli.X b) % 2 =
      (rowKeys 0 1 Lx).countP (opHit Pauli.X b) % 2 := by
  rw [countP_rowKeys, countP_rowKeys]
  have h := ladder_coords1 Ly Lx (fun u w => ind Pauli.X b [w, u]) ?_ i hi
  · simpa using h
  · intro i j hi hj
    have hs : [2 * (j : Int) + 1, 2 * (i : Int) + 1] ∈ stabs Lx Ly := by
      rw [mem_stabs']; right; unfold IsF InBox; omega
    have h := stab_even hx hy hb hs
    have hl : letter (2 * (j : Int) + 1) = Pauli.X := by unfold letter; rw [if_neg (by omega)]
    have e1 : predW (2 * (i : Int) + 1) (2 * (Ly : Int)) = 2 * (i : Int) := by
      unfold predW; rw [if_neg (by omega)]; omega
    have e2 : succW (2 * (i : Int) + 1) (2 * (Ly : Int)) = 2 * (i : Int) + 2 := by
      unfold succW; rw [if_neg (by omega)]; omega
    have e3 : predW (2 * (j : Int) + 1) (2 * (Lx : Int)) = 2 * (j : Int) := by
      unfold predW; rw [if_neg (by omega)]; omega
    rw [hl, e1, e2, e3] at h
    omega

end Panqec.Toric2DCode
