/-
Helper lemmas for C14, part 2: bridge from the transcription in `Model/Cli.lean` to the
conservation argument (`Proofs/CliPlanSpike.lean`), list-sum bookkeeping over
(node, core) pairs, and injectivity of the zero-padded decimal task number.
Core Lean only.
-/
import PanqecVerif.Proofs.CliPlanSpike

namespace Panqec.Cli

/-! ### bridge to the spike definitions -/

theorem inputOf_eq_plan (q I t : Nat) (hI : 0 < I) : inputOf q I t = Plan.inputOf q I t := by
  unfold inputOf Plan.inputOf
  by_cases h : t / q ≥ I
  · simp only [h, if_true]; omega
  · simp only [h, if_false]; omega

theorem tpi_eq_plan (q r I j : Nat) : tpi q r I j = Plan.tpi q r I j := rfl

theorem idxIn_eq_plan (q r I t : Nat) (hI : 0 < I) : idxIn q r I t = Plan.idx q I t := by
  unfold idxIn Plan.idx
  rw [inputOf_eq_plan q I t hI]
  by_cases h : Plan.inputOf q I t = I - 1
  · simp only [h, if_true]
  · simp only [h, if_false, tpi]

theorem runsOf_eq_plan (q r I T t : Nat) (hI : 0 < I) : runsOf q r I T t = Plan.runs q r I T t := by
  unfold runsOf Plan.runs
  rw [idxIn_eq_plan q r I t hI, inputOf_eq_plan q I t hI, tpi_eq_plan]
  by_cases h : Plan.idx q I t = Plan.tpi q r I (Plan.inputOf q I t) - 1
  · simp only [h, if_true]
  · simp only [h, if_false, Nat.add_zero]

/-! ### sums over the task list -/

/-- trials given to input `j` by the tasks `0..m-1`, as a list sum -/
def sumRuns (q r I T j m : Nat) : Nat :=
  (((List.range m).filter (fun t => inputOf q I t == j)).map (runsOf q r I T)).sum

theorem sumRuns_eq_total (q r I T j : Nat) (hI : 0 < I) :
    ∀ m, sumRuns q r I T j m = Plan.total q r I T j m := by
  intro m
  induction m with
  | zero => simp [sumRuns, Plan.total]
  | succ m ih =>
    unfold sumRuns at ih ⊢
    unfold Plan.total
    rw [List.range_succ, List.filter_append, List.map_append, List.sum_append, ih]
    by_cases h : inputOf q I m = j
    · have h' : Plan.inputOf q I m = j := by rw [← inputOf_eq_plan q I m hI]; exact h
      simp [h, h', runsOf_eq_plan q r I T m hI]
    · have h' : ¬ Plan.inputOf q I m = j := by rw [← inputOf_eq_plan q I m hI]; exact h
      simp [h, h']

/-- enumerating (node, core) pairs in order is enumerating task indices `0..N*C-1` -/
theorem flatMap_range_range {α : Type} (N C : Nat) (f : Nat → α) :
    ((List.range N).flatMap fun n => (List.range C).map fun c => f (C * n + c)) =
      (List.range (N * C)).map f := by
  induction N with
  | zero => simp
  | succ N ih =>
    rw [List.range_succ, List.flatMap_append, ih, Nat.succ_mul, List.range_add, List.map_append]
    simp [List.map_map, Function.comp_def, Nat.mul_comm]

theorem allTasks_eq (I N C T : Nat) :
    allTasks I N C T = (List.range (N * C)).map fun t =>
      ({ input := inputOf (N * C / I) I t
         nRuns := runsOf (N * C / I) (N * C % I) I T t
         resultFile := resultName (N * C) t
         logFile := progressName (N * C) t } : Task) := by
  unfold allTasks
  exact flatMap_range_range N C (fun t =>
      ({ input := inputOf (N * C / I) I t
         nRuns := runsOf (N * C / I) (N * C % I) I T t
         resultFile := resultName (N * C) t
         logFile := progressName (N * C) t } : Task))

theorem trialsFor_allTasks (I N C T j : Nat) :
    trialsFor j (allTasks I N C T) = sumRuns (N * C / I) (N * C % I) I T j (N * C) := by
  rw [allTasks_eq]
  unfold trialsFor sumRuns
  rw [List.filter_map, List.map_map]
  rfl

/-- number of tasks among `0..m-1` working on input `j`, as a list length -/
theorem countTasks_eq_cnt (q I j : Nat) (hI : 0 < I) :
    ∀ m, ((List.range m).filter (fun t => inputOf q I t == j)).length = Plan.cnt q I j m := by
  intro m
  induction m with
  | zero => simp [Plan.cnt]
  | succ m ih =>
    unfold Plan.cnt
    rw [List.range_succ, List.filter_append, List.length_append, ih]
    by_cases h : inputOf q I m = j
    · have h' : Plan.inputOf q I m = j := by rw [← inputOf_eq_plan q I m hI]; exact h
      simp [h, h']
    · have h' : ¬ Plan.inputOf q I m = j := by rw [← inputOf_eq_plan q I m hI]; exact h
      simp [h, h']

theorem tasksFor_allTasks (I N C T j : Nat) :
    ((allTasks I N C T).filter (fun t => t.input == j)).length =
      ((List.range (N * C)).filter (fun t => inputOf (N * C / I) I t == j)).length := by
  rw [allTasks_eq, List.filter_map, List.length_map]
  rfl

/-- every input is worked on by exactly `tpi` tasks (`q`, resp. `q + r` for the last input) -/
theorem plan_count (I nT j : Nat) (hI : 0 < I) (hle : I ≤ nT) (hj : j < I) :
    Plan.cnt (nT / I) I j nT = tpi (nT / I) (nT % I) I j := by
  have hq : 0 < nT / I := Nat.div_pos hle hI
  have hs : nT = (I - 1) * (nT / I) + nT / I + nT % I := by
    have h := Nat.div_add_mod nT I
    have : ∀ x, I * x = (I - 1) * x + x := by
      intro x
      obtain ⟨k, rfl⟩ : ∃ k, I = k + 1 := ⟨I - 1, by omega⟩
      rw [Nat.add_sub_cancel, Nat.succ_mul]
    have := this (nT / I)
    omega
  have hb := Plan.hi_sub_lo (r := nT % I) hI hq hs hj
  rw [Plan.cnt_eq hI hq hs hj nT (Nat.le_refl _), tpi_eq_plan]
  omega

/-! ### decimal digits -/

theorem digitsVal_append_single (ds : List Nat) (d : Nat) :
    digitsVal (ds ++ [d]) = 10 * digitsVal ds + d := by
  simp [digitsVal, List.foldl_append]

theorem digitsVal_decDigitsAux : ∀ f n, n ≤ f → digitsVal (decDigitsAux f n) = n := by
  intro f
  induction f with
  | zero => intro n hn; have : n = 0 := by omega
            subst this; simp [decDigitsAux, digitsVal]
  | succ f ih =>
    intro n hn
    unfold decDigitsAux
    by_cases h : n < 10
    · simp [h, digitsVal]
    · simp only [h, if_false]
      rw [digitsVal_append_single, ih (n / 10) (by omega)]
      omega

theorem digitsVal_decDigits (n : Nat) : digitsVal (decDigits n) = n :=
  digitsVal_decDigitsAux n n (Nat.le_refl n)

theorem decDigitsAux_lt_ten : ∀ f n, ∀ d ∈ decDigitsAux f n, d < 10 := by
  intro f
  induction f with
  | zero => intro n d hd; simp [decDigitsAux] at hd; omega
  | succ f ih =>
    intro n d hd
    unfold decDigitsAux at hd
    by_cases h : n < 10
    · simp [h] at hd; omega
    · simp only [h, if_false] at hd
      rcases List.mem_append.mp hd with hd | hd
      · exact ih (n / 10) d hd
      · simp at hd; omega

theorem decDigits_lt_ten (n : Nat) : ∀ d ∈ decDigits n, d < 10 := decDigitsAux_lt_ten n n

theorem charDigit_digitChar : ∀ d, d < 10 → charDigit (digitChar d) = d := by decide

/-- value of a string of decimal digit characters -/
def strVal (s : List Char) : Nat := digitsVal (s.map charDigit)

theorem strVal_natStr (n : Nat) : strVal (natStr n) = n := by
  unfold strVal natStr
  rw [List.map_map]
  have : (decDigits n).map (charDigit ∘ digitChar) = decDigits n := by
    have h := decDigits_lt_ten n
    generalize decDigits n = l at h
    induction l with
    | nil => rfl
    | cons a l ih =>
      simp only [List.map_cons, Function.comp]
      rw [charDigit_digitChar a (h a (by simp))]
      congr 1
      exact ih (fun d hd => h d (by simp [hd]))
  rw [this, digitsVal_decDigits]

theorem digitsVal_replicate_zero_append (k : Nat) (ds : List Nat) :
    digitsVal (List.replicate k 0 ++ ds) = digitsVal ds := by
  unfold digitsVal
  rw [List.foldl_append]
  congr 1
  induction k with
  | zero => rfl
  | succ k ih => simp [List.replicate_succ, ih]

theorem strVal_zfill (w : Nat) (s : List Char) : strVal (zfill w s) = strVal s := by
  unfold strVal zfill
  rw [List.map_append, List.map_replicate]
  have : charDigit '0' = 0 := by decide
  rw [this, digitsVal_replicate_zero_append]

theorem strVal_taskNumber (nT t : Nat) : strVal (taskNumber nT t) = t + 1 := by
  unfold taskNumber
  rw [strVal_zfill, strVal_natStr]

theorem taskNumber_injective (nT t t' : Nat) (h : taskNumber nT t = taskNumber nT t') : t = t' := by
  have := congrArg strVal h
  rw [strVal_taskNumber, strVal_taskNumber] at this
  omega

theorem resultName_injective (nT t t' : Nat) (h : resultName nT t = resultName nT t') : t = t' := by
  unfold resultName at h
  have h1 := List.append_cancel_right h
  exact taskNumber_injective nT t t' (List.append_cancel_left h1)

theorem progressName_injective (nT t t' : Nat) (h : progressName nT t = progressName nT t') :
    t = t' := by
  unfold progressName at h
  have h1 := List.append_cancel_right h
  exact taskNumber_injective nT t t' (List.append_cancel_left h1)

/-- no padding is ever needed beyond the width of `n_tasks`: every task number fits -/
theorem taskIndex_injective (C job job' core core' : Nat) (hc : core < C) (hc' : core' < C)
    (hj : 1 ≤ job) (hj' : 1 ≤ job')
    (h : taskIndex C job core = taskIndex C job' core') : job = job' ∧ core = core' := by
  unfold taskIndex at h
  have h1 : (C * (job - 1) + core) / C = job - 1 := by
    rw [Nat.mul_add_div (by omega), Nat.div_eq_of_lt hc]; rfl
  have h2 : (C * (job' - 1) + core') / C = job' - 1 := by
    rw [Nat.mul_add_div (by omega), Nat.div_eq_of_lt hc']; rfl
  have h3 : job - 1 = job' - 1 := by rw [← h1, ← h2, h]
  have h4 : job = job' := by omega
  subst h4
  exact ⟨rfl, by omega⟩

theorem taskIndex_lt (N C job core : Nat) (hc : core < C) (hj : 1 ≤ job) (hjN : job ≤ N) :
    taskIndex C job core < N * C := by
  unfold taskIndex
  have : C * (job - 1) + C ≤ C * N := by
    rw [← Nat.mul_succ]; exact Nat.mul_le_mul_left _ (by omega)
  rw [Nat.mul_comm N C]; omega

end Panqec.Cli
