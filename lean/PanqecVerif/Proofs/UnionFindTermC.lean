/-
Union-find internals (C05), termination of the growth loop, part C: an odd cluster always has a
boundary element with a nonzero entry left in `_H_to_grow` (otherwise it would be a union of
connected components with an odd number of defects), so every turn of the loop zeroes at least
one entry; the loop stops within `m·n + 1` turns.
-/
import PanqecVerif.Proofs.UnionFindTermB

namespace Panqec.UF

set_option linter.unusedSimpArgs false
set_option linter.unusedVariables false

/-- every union of connected components of the Tanner graph carries an even number of defects -/
def EvenComponents (H : Mat) (sy : Vec) : Prop :=
  ∀ P : Nat → Bool, (∀ s s' q, hb H s q = true → hb H s' q = true → P s = true → P s' = true) →
    cnt H.length (fun s => defect sy s && P s) % 2 = 0

/-- number of nonzero entries of `_H_to_grow` -/
def mu (H : Mat) (rd cd : Nat → Bool) : Nat :=
  cnt (H.length * ncols H) fun k => live H rd cd (k / ncols H) (k % ncols H)

theorem mu_lt {H : Mat} {rd cd rd' cd' : Nat → Bool}
    (hr : ∀ i, rd i = true → rd' i = true) (hc : ∀ i, cd i = true → cd' i = true)
    {s q : Nat} (hs : s < H.length) (hq : q < ncols H) (hl : live H rd cd s q = true)
    (hl' : live H rd' cd' s q = false) : mu H rd' cd' < mu H rd cd := by
  unfold mu
  have hn : 0 < ncols H := by omega
  have hk : ncols H * s + q < H.length * ncols H := by
    have h1 : ncols H * s + q < ncols H * (s + 1) := by rw [Nat.mul_succ]; omega
    have h2 : ncols H * (s + 1) ≤ ncols H * H.length := Nat.mul_le_mul_left _ (by omega)
    rw [Nat.mul_comm H.length]; omega
  have hdiv : (ncols H * s + q) / ncols H = s := by
    rw [Nat.mul_add_div hn, Nat.div_eq_of_lt hq]; rfl
  have hmod : (ncols H * s + q) % ncols H = q := by
    rw [Nat.mul_add_mod, Nat.mod_eq_of_lt hq]
  apply cnt_lt _ _ _ _ (ncols H * s + q) hk
  · rw [hdiv, hmod]; exact hl
  · rw [hdiv, hmod]; exact hl'
  · intro k _ hk'
    unfold live at hk' ⊢
    simp only [Bool.and_eq_true, Bool.not_eq_true'] at hk' ⊢
    refine ⟨⟨hk'.1.1, ?_⟩, ?_⟩
    · cases h : rd (k / ncols H)
      · rfl
      · have := hr _ h; rw [hk'.1.2] at this; exact absurd this (by simp)
    · cases h : cd (k % ncols H)
      · rfl
      · have := hc _ h; rw [hk'.2] at this; exact absurd this (by simp)

theorem mu_le (H : Mat) (rd cd : Nat → Bool) : mu H rd cd ≤ H.length * ncols H := cnt_le _ _

/-! ### an odd cluster can grow -/

theorem exists_productive {H : Mat} {sy : Vec} {st : GState} {rep d : Nat → Nat}
    (I : GInv H sy st rep d) (B : BdInv H st rep []) (E : EvenComponents H sy)
    {c : Cluster} (hc : c ∈ st.forest) (hodd : c.odd = true) :
    ∃ s q, live H st.rowDead st.colDead s q = true ∧ (hashS s ∈ c.bnd ∨ (q : Int) ∈ c.bnd) := by
  by_contra hno
  push Not at hno
  -- without such an element the cluster is closed under adjacency
  have hclosed : ∀ s s' q, hb H s q = true → hb H s' q = true →
      (decide (st.sPar s ≠ -1) && decide (rep s = c.root)) = true →
      (decide (st.sPar s' ≠ -1) && decide (rep s' = c.root)) = true := by
    intro s s' q hsq hs'q hP
    simp only [Bool.and_eq_true, decide_eq_true_eq] at hP ⊢
    have key : grown H st.rowDead st.colDead s q = true ∧ grown H st.rowDead st.colDead s' q = true := by
      cases hrd : st.rowDead s
      · -- the row of `s` is not zeroed: `s` is in the boundary list, so all its columns are zeroed
        obtain ⟨c1, hc1, hr1, hb1⟩ := B.j1 s hP.1 hrd
        have : c1 = c := eq_of_root_eq st.forest I.fi.roots_nodup c1 c hc1 hc (hr1.trans hP.2)
        rw [this] at hb1
        have hcd : st.colDead q = true := by
          cases h : st.colDead q
          · exfalso
            have hl : live H st.rowDead st.colDead s q = true := by unfold live; simp [hsq, hrd, h]
            exact (hno s q hl).1 hb1
          · rfl
        exact ⟨(grown_iff ..).mpr ⟨hsq, Or.inr hcd⟩, (grown_iff ..).mpr ⟨hs'q, Or.inr hcd⟩⟩
      · cases hcd : st.colDead q
        · -- `q` is half-grown from `s`: it is in the boundary list, so all its rows are zeroed
          obtain ⟨c1, hc1, hr1, hb1⟩ := B.j2 s q hsq hrd hcd
          have : c1 = c := eq_of_root_eq st.forest I.fi.roots_nodup c1 c hc1 hc (hr1.trans hP.2)
          rw [this] at hb1
          have hrd' : st.rowDead s' = true := by
            cases h : st.rowDead s'
            · exfalso
              have hl : live H st.rowDead st.colDead s' q = true := by unfold live; simp [hs'q, h, hcd]
              exact (hno s' q hl).2 hb1
            · rfl
          exact ⟨(grown_iff ..).mpr ⟨hsq, Or.inl hrd⟩, (grown_iff ..).mpr ⟨hs'q, Or.inl hrd'⟩⟩
        · exact ⟨(grown_iff ..).mpr ⟨hsq, Or.inr hcd⟩, (grown_iff ..).mpr ⟨hs'q, Or.inr hcd⟩⟩
    obtain ⟨_, h2, h3⟩ := B.k q (by simp) s s' key.1 key.2
    exact ⟨h2, h3.symm.trans hP.2⟩
  have heven := E _ hclosed
  have hoddc := I.fi.odd_ok c hc
  rw [hodd] at hoddc
  have : clsCnt H.length sy st.sPar rep c.root =
      cnt H.length (fun s => defect sy s && (decide (st.sPar s ≠ -1) && decide (rep s = c.root))) := by
    unfold clsCnt
    apply cnt_congr
    intro i _
    rw [Bool.and_assoc]
  rw [this] at hoddc
  simp only [b2n_true] at hoddc
  omega

/-! ### the merges of one fusion set -/

theorem BdInv_fuseFold {H : Mat} {sy : Vec} :
    ∀ (pend : List Int) (st : GState) (rep d : Nat → Nat), GInv H sy st rep d →
      BdInv H st rep pend →
      ∃ rep' d', GInv H sy (pend.foldl (fuseStep H) st) rep' d' ∧
        BdInv H (pend.foldl (fuseStep H) st) rep' [] ∧
        (pend.foldl (fuseStep H) st).rowDead = st.rowDead ∧
        (pend.foldl (fuseStep H) st).colDead = st.colDead := by
  intro pend
  induction pend with
  | nil => intro st rep d I B; exact ⟨rep, d, I, B, rfl, rfl⟩
  | cons x rest ih =>
    intro st rep d I B
    obtain ⟨rep1, d1, I1, B1⟩ := BdInv_fuse I B
    obtain ⟨rep2, d2, I2, B2, h1, h2⟩ := ih _ rep1 d1 I1 B1
    simp only [List.foldl_cons]
    exact ⟨rep2, d2, I2, B2, h1, h2⟩

theorem BdInv_sched {H : Mat} {st : GState} {rep : Nat → Nat} {pend : List Int}
    (B : BdInv H st rep pend) (sc : Sched) : BdInv H { st with sched := sc } rep pend :=
  ⟨B.row_live, B.col_row, B.bnd_stab, B.bnd_qubit, B.j1, B.j2, B.k⟩

theorem GInv_sched {H : Mat} {sy : Vec} {st : GState} {rep d : Nat → Nat}
    (I : GInv H sy st rep d) (sc : Sched) : GInv H sy { st with sched := sc } rep d :=
  ⟨I.uf, I.fi, I.nbad, I.conn, I.qrng⟩

/-- one turn of the loop on an odd cluster: invariants kept, at least one entry zeroed -/
theorem iter_progress {H : Mat} {sy : Vec} (hrange : ∀ s q, hb H s q = true → q < ncols H)
    {st : GState} {rep d : Nat → Nat} (I : GInv H sy st rep d) (B : BdInv H st rep [])
    (E : EvenComponents H sy) {c : Cluster} (hc : c ∈ st.forest) (hodd : c.odd = true) :
    ∃ rep' d', GInv H sy (growIter H st c) rep' d' ∧ BdInv H (growIter H st c) rep' [] ∧
      mu H (growIter H st c).rowDead (growIter H st c).colDead < mu H st.rowDead st.colDead := by
  obtain ⟨s0, q0, hl0, hb0⟩ := exists_productive I B E hc hodd
  have I1 := GInv_grow I c
  have B1 := BdInv_grow hrange I B hc
    (((growCluster H st c).2.sched.take (growCluster H st c).1).1) (take_mem _ _)
  obtain ⟨rep', d', I2, B2, hr2, hc2⟩ := BdInv_fuseFold _ _ rep d
    (GInv_sched I1 ((growCluster H st c).2.sched.take (growCluster H st c).1).2)
    (BdInv_sched B1 ((growCluster H st c).2.sched.take (growCluster H st c).1).2)
  have hiter : growIter H st c =
      (((growCluster H st c).2.sched.take (growCluster H st c).1).1).foldl (fuseStep H)
        { (growCluster H st c).2 with
          sched := ((growCluster H st c).2.sched.take (growCluster H st c).1).2 } := rfl
  rw [hiter]
  refine ⟨rep', d', I2, B2, ?_⟩
  rw [hr2, hc2]
  show mu H (growCluster H st c).2.rowDead (growCluster H st c).2.colDead < _
  obtain ⟨ord, hord, G, _, _, _⟩ := growCluster_forms hrange st c
  have hrow : ∀ s, (growCluster H st c).2.rowDead s =
      (st.rowDead s || decide (hashS s ∈ ord)) := fun s => G.row s
  have hcol : ∀ q : Nat, (growCluster H st c).2.colDead q =
      (st.colDead q || decide ((q : Int) ∈ ord)) := fun q => G.col q
  have hl0' := hl0
  unfold live at hl0'
  simp only [Bool.and_eq_true, Bool.not_eq_true'] at hl0'
  apply mu_lt (s := s0) (q := q0) _ _ (hb_lt hl0'.1.1) (hrange s0 q0 hl0'.1.1) hl0
  · unfold live
    rcases hb0 with h | h
    · have : (growCluster H st c).2.rowDead s0 = true := by
        rw [hrow]; simp [(hord _).mpr h]
      simp [this]
    · have : (growCluster H st c).2.colDead q0 = true := by
        rw [hcol]; simp [(hord _).mpr h]
      simp [this]
  · intro i hi; rw [hrow]; simp [hi]
  · intro i hi; rw [hcol]; simp [hi]

/-! ### the choice returns an odd record of the dict -/

theorem smallestInvalid_some (order : List Cluster) (c : Cluster)
    (h : smallestInvalid order = some c) : c ∈ order ∧ c.odd = true := by
  unfold smallestInvalid at h
  have key : ∀ (l : List Cluster) (a : Option Cluster),
      l.foldl (fun (acc : Option Cluster) c =>
        if c.odd then
          match acc with
          | none => some c
          | some a => if c.size < a.size then some c else acc
        else acc) a = some c →
      (a = some c ∨ (c ∈ l ∧ c.odd = true)) := by
    intro l
    induction l with
    | nil => intro a h; exact Or.inl h
    | cons x l ih =>
      intro a h
      simp only [List.foldl_cons] at h
      rcases ih _ h with h1 | ⟨h1, h2⟩
      · cases hx : x.odd
        · simp only [hx] at h1
          exact Or.inl (by simpa using h1)
        · simp only [hx, if_true] at h1
          cases a with
          | none =>
            simp at h1; subst h1
            exact Or.inr ⟨by simp, hx⟩
          | some a =>
            by_cases hlt : x.size < a.size
            · simp [hlt] at h1; subst h1
              exact Or.inr ⟨by simp, hx⟩
            · simp [hlt] at h1
              exact Or.inl (by rw [h1])
      · exact Or.inr ⟨by simp [h1], h2⟩
  rcases key order none h with h1 | h1
  · exact absurd h1 (by simp)
  · exact h1

theorem pick_some {st : GState} {c : Cluster} (h : (pick st).1 = some c) :
    c ∈ st.forest ∧ c.odd = true := by
  unfold pick at h
  simp only [] at h
  obtain ⟨h1, h2⟩ := smallestInvalid_some _ c h
  refine ⟨?_, h2⟩
  rw [List.mem_filterMap] at h1
  obtain ⟨r, _, hr⟩ := h1
  exact List.mem_of_find?_eq_some hr

/-- **the growth loop terminates**: with `EvenComponents`, on a well-formed state with fewer
    nonzero entries in `_H_to_grow` than fuel -/
theorem clusterLoop_terminates {H : Mat} {sy : Vec}
    (hrange : ∀ s q, hb H s q = true → q < ncols H) (E : EvenComponents H sy) :
    ∀ (fuel : Nat) (st : GState) (rep d : Nat → Nat), GInv H sy st rep d → BdInv H st rep [] →
      mu H st.rowDead st.colDead < fuel → (clusterLoop H fuel st).2 = true := by
  intro fuel
  induction fuel with
  | zero => intro st rep d _ _ h; omega
  | succ fuel ih =>
    intro st rep d I B hmu
    unfold clusterLoop
    cases hp : pick st with
    | mk o st' =>
      have hst' : st' = { st with sched := st'.sched } := by
        have := pick_state st; rw [hp] at this; simpa using this
      cases o with
      | none => rfl
      | some c =>
        simp only []
        have hc : (pick st).1 = some c := by rw [hp]
        obtain ⟨hcf, hodd⟩ := pick_some hc
        have I' : GInv H sy st' rep d := by rw [hst']; exact GInv_sched I _
        have B' : BdInv H st' rep [] := by rw [hst']; exact BdInv_sched B _
        have hcf' : c ∈ st'.forest := by rw [hst']; exact hcf
        obtain ⟨rep1, d1, I1, B1, hlt⟩ := iter_progress hrange I' B' E hcf' hodd
        have hmu' : mu H st'.rowDead st'.colDead = mu H st.rowDead st.colDead := by rw [hst']
        exact ih _ rep1 d1 I1 B1 (by omega)

/-- the initial state satisfies the boundary invariant -/
theorem BdInv_init (H : Mat) (sy : Vec) (sched : List (List Int)) :
    BdInv H (initState H sy sched) (fun i => i) [] := by
  unfold initState
  simp only []
  refine ⟨by simp, by simp, ?_, ?_, ?_, by simp, ?_⟩
  · intro c hc s hs
    rw [List.mem_map] at hc
    obtain ⟨i, hi, rfl⟩ := hc
    simp at hs
    have := hashS_inj hs
    subst this
    refine Or.inl ⟨?_, rfl⟩
    show (if s ∈ _ then (s : Int) else -1) ≠ -1
    rw [if_pos hi]; omega
  · intro c hc q hq
    rw [List.mem_map] at hc
    obtain ⟨i, _, rfl⟩ := hc
    simp at hq
    have := hashS_neg i; omega
  · intro s hs _
    have hsd : s ∈ (List.range H.length).filter fun i => sy.getD i 0 != 0 := by
      by_contra h
      simp only [h, if_false] at hs
      exact hs rfl
    exact ⟨_, List.mem_map.mpr ⟨s, hsd, rfl⟩, rfl, by simp⟩
  · intro q _ s s' hg
    rw [grown_iff] at hg
    simp at hg

end Panqec.UF
