/-
Union-find internals (C05), spanning tree, part C: one round (`for s in leaves_ind`), the step
for the root, the `while np.sum(unseen) > 0` loop, and the specification of `_build_tree`:
for a cluster whose member stabilizers are connected to the root through member qubits it
terminates within `m + 1` rounds and returns a spanning tree (`TreeOK`) with its leaf list
(`LeavesOK`).
-/
import PanqecVerif.Proofs.UnionFindBfsB
import PanqecVerif.Proofs.UnionFindPeelD

namespace Panqec.UF

set_option linter.unusedSimpArgs false
set_option linter.unusedVariables false

section
variable {H : Mat} {stabs qubits : Nat → Bool} {root : Nat}

/-- one full round -/
theorem BInv_fold (hst : ∀ s, stabs s = true → s < H.length) {r : Nat} :
    ∀ (F2 : List Nat) (S : Nat → Nat → Bool) (unseen : Nat → Bool) (nl : List Nat) (lv : Nat → Nat),
      BInv H stabs qubits root r S unseen F2 nl lv →
      ∃ lv', BInv H stabs qubits root r (F2.foldl (bfsStep H.length) ⟨S, unseen, nl⟩).S
          (F2.foldl (bfsStep H.length) ⟨S, unseen, nl⟩).unseen []
          (F2.foldl (bfsStep H.length) ⟨S, unseen, nl⟩).newLeaves lv' ∧
        (∀ v, (F2.foldl (bfsStep H.length) ⟨S, unseen, nl⟩).unseen v = true → unseen v = true) ∧
        (∀ u, u ∈ F2 → ∀ v, shared H stabs qubits u v = true →
          (F2.foldl (bfsStep H.length) ⟨S, unseen, nl⟩).unseen v = false) := by
  intro F2
  induction F2 with
  | nil =>
    intro S unseen nl lv I
    exact ⟨lv, I, fun v h => h, fun u hu => by simp at hu⟩
  | cons s F2 ih =>
    intro S unseen nl lv I
    obtain ⟨lv1, I1, hmono1, hprog1⟩ := BInv_step hst I
    obtain ⟨lv2, I2, hmono2, hprog2⟩ := ih _ _ _ lv1 I1
    simp only [List.foldl_cons]
    refine ⟨lv2, I2, fun v hv => hmono1 v (hmono2 v hv), ?_⟩
    intro u hu v huv
    rcases List.mem_cons.mp hu with rfl | hu
    · have := hprog1 v huv
      cases h : (F2.foldl (bfsStep H.length) (bfsStep H.length ⟨S, unseen, nl⟩ u)).unseen v
      · rfl
      · have := hmono2 v h
        rw [hprog1 v huv] at this; exact absurd this (by simp)
    · exact hprog2 u hu v huv

/-- from the end of round `r` to the start of round `r + 1` -/
theorem BInv_next_round {r : Nat} {S : Nat → Nat → Bool} {unseen : Nat → Bool} {nl : List Nat}
    {lv : Nat → Nat} (I : BInv H stabs qubits root r S unseen [] nl lv) :
    BInv H stabs qubits root (r + 1) S unseen nl [] lv := by
  refine ⟨I.un_stabs, I.un_eq, I.le_shared, I.root_col, I.par_ex, I.par_spec, I.par_uniq,
    ?_, ?_, ?_, ?_, ?_, ?_⟩
  · intro v h1 h2 h3
    have := I.pend_iff v h1 h2 h3
    rw [← this]; tauto
  · have := I.pend_nodup; simpa using this
  · intro v hv; exact I.pend_vis v (by tauto)
  · intro u v h1 h2 h3 h4
    have := I.front u v h1 h2 h3 h4; tauto
  · intro v h1 h2; have := I.lv_vis v h1 h2; omega
  · intro v hv
    have := I.pend_vis v (Or.inr hv)
    exact I.lv_vis v this.1 this.2.1

/-- an unseen member stabilizer that is connected to the root is separated from the visited ones
    by an edge -/
theorem crossing (G : GraphOK H) {unseen : Nat → Bool} (hroot : stabs root = true)
    (hur : unseen root = false) (hus : ∀ v, unseen v = true → stabs v = true)
    {v0 : Nat} (hr : Reach H stabs qubits root v0) (hv0 : unseen v0 = true) :
    ∃ u v, stabs u = true ∧ unseen u = false ∧ unseen v = true ∧
      shared H stabs qubits u v = true := by
  induction hr with
  | base => rw [hur] at hv0; exact absurd hv0 (by simp)
  | step hru hq ih =>
    rename_i u v
    obtain ⟨q, hq⟩ := hq
    have hadj := (adjq_true H stabs qubits u v q).mp hq
    cases huu : unseen u
    · have hne : u ≠ v := fun h => by subst h; rw [huu] at hv0; exact absurd hv0 (by simp)
      exact ⟨u, v, hadj.2.2.2.1, huu, hv0, shared_of G hne ⟨q, hq⟩⟩
    · exact ih huu

/-- the `while` loop from the start of a round -/
theorem bfsLoop_spec (G : GraphOK H) (hst : ∀ s, stabs s = true → s < H.length)
    (hroot : stabs root = true) (hconn : ∀ v, stabs v = true → Reach H stabs qubits root v) :
    ∀ (fuel r : Nat) (S : Nat → Nat → Bool) (unseen : Nat → Bool) (F : List Nat) (lv : Nat → Nat),
      BInv H stabs qubits root r S unseen F [] lv → cnt H.length unseen < fuel →
      ∃ S' F' lv' r', bfsLoop H.length fuel S unseen F = some (S', F') ∧
        BInv H stabs qubits root r' S' (fun _ => false) F' [] lv' := by
  intro fuel
  induction fuel with
  | zero => intro r S unseen F lv _ h; omega
  | succ fuel ih =>
    intro r S unseen F lv I hfuel
    unfold bfsLoop
    cases hany : (List.range H.length).any unseen
    · -- nothing unseen: return
      have hall : unseen = fun _ => false := by
        funext v
        cases hv : unseen v
        · rfl
        · have : (List.range H.length).any unseen = true :=
            List.any_eq_true.mpr ⟨v, List.mem_range.mpr (hst v (I.un_stabs v hv).1), hv⟩
          rw [hany] at this; exact absurd this (by simp)
      refine ⟨S, F, lv, r, by simp, ?_⟩
      rw [← hall]; exact I
    · simp only [if_true]
      obtain ⟨v0, _, hv0⟩ := List.any_eq_true.mp hany
      have hur : unseen root = false := by
        cases h : unseen root
        · rfl
        · exact absurd rfl (I.un_stabs root h).2
      obtain ⟨u, v, hu, huu, hvu, huv⟩ := crossing G hroot hur (fun v h => (I.un_stabs v h).1)
        (hconn v0 (I.un_stabs v0 hv0).1) hv0
      have huF : u ∈ F := by
        rcases I.front u v hu huu hvu huv with h | h
        · exact h
        · simp at h
      obtain ⟨lv', I', hmono, hprog⟩ := BInv_fold hst F S unseen [] lv I
      have hlt : cnt H.length (F.foldl (bfsStep H.length) ⟨S, unseen, []⟩).unseen <
          cnt H.length unseen :=
        cnt_lt _ _ _ (fun i _ hi => hmono i hi) v (hst v (I.un_stabs v hvu).1) hvu
          (hprog u huF v huv)
      exact ih (r + 1) _ _ _ lv' (BInv_next_round I') (by omega)

/-- the step for the root (round 0), when some member stabilizer is still unseen -/
theorem BInv_root (G : GraphOK H) (hst : ∀ s, stabs s = true → s < H.length)
    (hroot : stabs root = true) (hconn : ∀ v, stabs v = true → Reach H stabs qubits root v)
    {v0 : Nat} (hv0 : stabs v0 = true) (hv0r : v0 ≠ root) :
    ∃ lv', BInv H stabs qubits root 1
        (bfsStep H.length ⟨shared H stabs qubits, fun i => if i = root then false else stabs i, []⟩ root).S
        (bfsStep H.length ⟨shared H stabs qubits, fun i => if i = root then false else stabs i, []⟩ root).unseen
        (bfsStep H.length ⟨shared H stabs qubits, fun i => if i = root then false else stabs i, []⟩ root).newLeaves
        [] lv' ∧
      cnt H.length
        (bfsStep H.length ⟨shared H stabs qubits, fun i => if i = root then false else stabs i, []⟩ root).unseen <
        cnt H.length (fun i => if i = root then false else stabs i) := by
  have hU0 : ∀ v, (if v = root then false else stabs v) = true ↔ (stabs v = true ∧ v ≠ root) := by
    intro v; by_cases h : v = root <;> simp [h]
  -- an edge from the root to an unseen stabilizer
  obtain ⟨u, w, hu, huu, hwu, huw⟩ := crossing G (unseen := fun i => if i = root then false else stabs i)
    hroot (by simp) (fun v h => ((hU0 v).mp h).1) (hconn v0 hv0) ((hU0 v0).mpr ⟨hv0, hv0r⟩)
  have hur : u = root := by
    by_contra h
    have : (if u = root then false else stabs u) = true := (hU0 u).mpr ⟨hu, h⟩
    have huu' : (if u = root then false else stabs u) = false := huu
    rw [this] at huu'; exact absurd huu' (by simp)
  subst hur
  have hwm : w < H.length := hst w ((hU0 w).mp hwu).1
  have hch : ((List.range H.length).filter fun j => shared H stabs qubits u j) ≠ [] := by
    intro h
    have : w ∈ (List.range H.length).filter fun j => shared H stabs qubits u j := by
      rw [mem_filter_range]; exact ⟨hwm, huw⟩
    rw [h] at this; simp at this
  have hS' := bfsStep_S H.length ⟨shared H stabs qubits, fun i => if i = u then false else stabs i, []⟩
    u _ rfl hch
  have hU' := bfsStep_unseen H.length ⟨shared H stabs qubits, fun i => if i = u then false else stabs i, []⟩
    u _ rfl hch
  have hN' := bfsStep_nl H.length ⟨shared H stabs qubits, fun i => if i = u then false else stabs i, []⟩
    u _ rfl hch
  simp only [] at hS' hU' hN'
  generalize hchdef : ((List.range H.length).filter fun j => shared H stabs qubits u j) = ch
    at hS' hU' hN' hch
  have hchm : ∀ j, j ∈ ch ↔ (j < H.length ∧ shared H stabs qubits u j = true) := by
    intro j; rw [← hchdef, mem_filter_range]
  have hchs : ∀ j, j ∈ ch → stabs j = true := fun j hj => (shared_stabs ((hchm j).mp hj).2).2
  have hnl : ∀ j, j ∈ ch.filter (fun i => if i = u then false else stabs i) ↔ (j ∈ ch ∧ j ≠ u) := by
    intro j
    rw [List.mem_filter, hU0]
    exact ⟨fun h => ⟨h.1, h.2.2⟩, fun h => ⟨h.1, hchs j h.1, h.2⟩⟩
  -- visited non-root stabilizers are exactly the children
  have hvis : ∀ c, stabs c = true → (if c ∈ ch then false else (if c = u then false else stabs c)) = false →
      c ≠ u → c ∈ ch := by
    intro c hc hcu hcr
    by_contra hcc
    simp [hcc, hcr, hc] at hcu
  have hrow : ∀ p c, c ∈ ch → c ≠ u →
      ((if p = u ∧ c ∈ ch then true else if p ∈ ch ∧ c = u then false else if c ∈ ch then false
        else shared H stabs qubits p c) = true ↔ p = u) := by
    intro p c hc hcr
    by_cases hp : p = u <;> simp [hp, hc, hcr]
  refine ⟨fun j => if j ∈ ch ∧ j ≠ u then 1 else 0,
    ⟨?_, ?_, ?_, ?_, ?_, ?_, ?_, ?_, ?_, ?_, ?_, ?_, ?_⟩, ?_⟩
  · -- un_stabs
    intro v hv
    rw [hU'] at hv
    by_cases hvc : v ∈ ch
    · simp [hvc] at hv
    · simp only [hvc, if_false] at hv; exact (hU0 v).mp hv
  · -- un_eq
    intro p v hv
    rw [hU'] at hv
    by_cases hvc : v ∈ ch
    · simp [hvc] at hv
    · simp only [hvc, if_false] at hv
      have hvr := ((hU0 v).mp hv).2
      rw [hS']; simp [hvc, hvr]
  · -- le_shared
    intro p v hpv
    rw [hS'] at hpv
    by_cases h1 : p = u ∧ v ∈ ch
    · obtain ⟨rfl, hv⟩ := h1; exact ((hchm v).mp hv).2
    · simp only [h1, if_false] at hpv
      by_cases h2 : p ∈ ch ∧ v = u
      · simp [h2] at hpv
      · simp only [h2, if_false] at hpv
        by_cases h3 : v ∈ ch
        · simp [h3] at hpv
        · simpa [h3] using hpv
  · -- root_col
    intro p hp
    rw [hS']
    simp only [hp, false_and, if_false]
    by_cases h2 : p ∈ ch
    · simp [h2]
    · simp only [h2, false_and, if_false]
      by_cases h3 : u ∈ ch
      · simp [h3]
      · simp only [h3, if_false]
        rw [shared_symm]
        cases h : shared H stabs qubits u p
        · rfl
        · exact absurd ((hchm p).mpr ⟨hst p (shared_stabs h).2, h⟩) h2
  · -- par_ex
    intro c hc hcu hcr
    rw [hU'] at hcu
    have := hvis c hc hcu hcr
    exact ⟨u, by rw [hS']; simp [this]⟩
  · -- par_spec
    intro c hc hcu hcr p hp
    rw [hU'] at hcu
    have hcc := hvis c hc hcu hcr
    rw [hS'] at hp
    have hpu := (hrow p c hcc hcr).mp hp
    subst hpu
    refine ⟨fun h => hcr h.symm, hroot, ?_, ?_⟩
    · rw [hU']; by_cases h : p ∈ ch <;> simp [h]
    · simp [hcc, hcr]
  · -- par_uniq
    intro c hc hcu hcr p p' hp hp'
    rw [hU'] at hcu
    have hcc := hvis c hc hcu hcr
    rw [hS'] at hp hp'
    rw [(hrow p c hcc hcr).mp hp, (hrow p' c hcc hcr).mp hp']
  · -- pend_iff
    intro v hv hvu hvr
    rw [hU'] at hvu
    have hvc := hvis v hv hvu hvr
    rw [hN']
    simp only [List.nil_append, List.not_mem_nil, or_false, hnl]
    constructor
    · intro _ c hc hcu
      rw [hU'] at hcu
      rw [hS']
      simp only [hvr, false_and, if_false, hvc, true_and]
      by_cases h2 : c = u
      · simp [h2]
      · simp only [h2, if_false]
        have := hvis c hc hcu h2
        simp [this]
    · intro _; exact ⟨hvc, hvr⟩
  · -- pend_nodup
    rw [hN']
    simp only [List.nil_append, List.append_nil]
    have : ((List.range H.length).filter fun j => shared H stabs qubits u j).Nodup :=
      (List.nodup_range).filter _
    rw [hchdef] at this
    exact this.filter _
  · -- pend_vis
    intro v hv
    rw [hN'] at hv
    simp only [List.nil_append, List.not_mem_nil, or_false, hnl] at hv
    refine ⟨hchs v hv.1, ?_, hv.2⟩
    rw [hU']; simp [hv.1]
  · -- front
    intro p v hp hpu hvu hpv
    rw [hN']
    simp only [List.nil_append, List.not_mem_nil, or_false, hnl]
    rw [hU'] at hpu hvu
    by_cases hpr : p = u
    · exfalso
      subst hpr
      by_cases hvc : v ∈ ch
      · simp [hvc] at hvu
      · simp only [hvc, if_false] at hvu
        exact hvc ((hchm v).mpr ⟨hst v ((hU0 v).mp hvu).1, hpv⟩)
    · exact ⟨hvis p hp hpu hpr, hpr⟩
  · -- lv_vis
    intro v _ _
    by_cases h : v ∈ ch ∧ v ≠ u <;> simp [h]
  · -- lv_F2
    intro v _
    by_cases h : v ∈ ch ∧ v ≠ u <;> simp [h]
  · -- strictly fewer unseen
    apply cnt_lt _ _ _ _ w hwm hwu
    · rw [hU']; simp [(hchm w).mpr ⟨hwm, huw⟩]
    · intro i _ hi
      rw [hU'] at hi
      by_cases hic : i ∈ ch
      · simp [hic] at hi
      · simpa [hic] using hi

/-- **`Peeling_Tree._build_tree`**: for a cluster whose member stabilizers are all reachable from
    the root through member qubits, on a graph without parallel edges, the breadth-first loops
    terminate within `m + 1` rounds and return a spanning tree and its leaves. -/
theorem buildTree_spec (G : GraphOK H) (hst : ∀ s, stabs s = true → s < H.length)
    (hroot : stabs root = true) (hconn : ∀ v, stabs v = true → Reach H stabs qubits root v) :
    ∃ S0 leaves, buildTree H stabs qubits root = some (S0, leaves) ∧
      TreeOK H stabs qubits root S0 ∧ LeavesOK stabs root S0 leaves := by
  unfold buildTree
  by_cases hother : ∃ v, stabs v = true ∧ v ≠ root
  · obtain ⟨v0, hv0, hv0r⟩ := hother
    obtain ⟨lv1, I1, hlt⟩ := BInv_root G hst hroot hconn hv0 hv0r
    have hany : (List.range H.length).any (fun i => if i = root then false else stabs i) = true :=
      List.any_eq_true.mpr ⟨v0, List.mem_range.mpr (hst v0 hv0), by simp [hv0r, hv0]⟩
    have hfuel : cnt H.length (fun i => if i = root then false else stabs i) < H.length + 1 := by
      have := cnt_le H.length (fun i => if i = root then false else stabs i); omega
    obtain ⟨S', F', lv', r', hrun, I⟩ := bfsLoop_spec G hst hroot hconn H.length 1 _ _ _ lv1 I1
      (by omega)
    have hrun' : bfsLoop H.length (H.length + 1) (shared H stabs qubits)
        (fun i => if i = root then false else stabs i) [root] = some (S', F') := by
      rw [bfsLoop]
      simp only [hany, if_true, List.foldl_cons, List.foldl_nil]
      exact hrun
    rw [hrun']
    refine ⟨_, F', rfl, ?_, ?_⟩
    · -- TreeOK
      refine ⟨⟨lv', r' + 1, ?_⟩, ?_, ?_, ?_, ?_, hroot⟩
      · intro p c hpc
        by_cases hpc' : p = c
        · simp [hpc'] at hpc
        · simp only [hpc', if_false] at hpc
          have hsc := (shared_stabs (I.le_shared p c hpc)).2
          have hcr : c ≠ root := by
            intro h; subst h
            have := I.root_col p hpc'
            rw [hpc] at this; exact absurd this (by simp)
          exact ⟨(I.par_spec c hsc rfl hcr p hpc).2.2.2, I.lv_vis c hsc rfl⟩
      · intro p c hpc
        by_cases hpc' : p = c
        · simp [hpc'] at hpc
        · simp only [hpc', if_false] at hpc
          have hsh := I.le_shared p c hpc
          exact ⟨(shared_stabs hsh).1, (shared_stabs hsh).2, hpc', shared_imp hsh⟩
      · intro p p' c hp hp'
        by_cases hpc : p = c
        · simp [hpc] at hp
        · by_cases hpc' : p' = c
          · simp [hpc'] at hp'
          · simp only [hpc, hpc', if_false] at hp hp'
            have hsc := (shared_stabs (I.le_shared p c hp)).2
            have hcr : c ≠ root := by
              intro h; subst h
              have := I.root_col p hpc
              rw [hp] at this; exact absurd this (by simp)
            exact I.par_uniq c hsc rfl hcr p p' hp hp'
      · intro c hc hcr
        obtain ⟨p, hp⟩ := I.par_ex c hc rfl hcr
        have := (I.par_spec c hc rfl hcr p hp).1
        exact ⟨p, by simp [this, hp]⟩
      · intro p
        by_cases hp : p = root
        · simp [hp]
        · simp only [hp, if_false]; exact I.root_col p hp
    · -- LeavesOK
      refine ⟨by have := I.pend_nodup; simpa using this, ?_⟩
      intro _ v
      constructor
      · intro hv
        have hvv := I.pend_vis v (Or.inl hv)
        refine ⟨hvv.1, ?_⟩
        intro c
        by_cases hvc : v = c
        · simp [hvc]
        · simp only [hvc, if_false]
          cases hS : S' v c
          · rfl
          · have hsc := (shared_stabs (I.le_shared v c hS)).2
            have := (I.pend_iff v hvv.1 hvv.2.1 hvv.2.2).mp (Or.inl hv) c hsc rfl
            rw [hS] at this; exact absurd this (by simp)
      · rintro ⟨hv, hno⟩
        by_cases hvr : v = root
        · -- the root has a child: walk up from `v0`
          exfalso
          subst hvr
          have key : ∀ k w, lv' w ≤ k → stabs w = true → w ≠ v → False := by
            intro k
            induction k with
            | zero =>
              intro w hk hw hwr
              obtain ⟨p, hp⟩ := I.par_ex w hw rfl hwr
              have := (I.par_spec w hw rfl hwr p hp).2.2.2; omega
            | succ k ih =>
              intro w hk hw hwr
              obtain ⟨p, hp⟩ := I.par_ex w hw rfl hwr
              have hps := I.par_spec w hw rfl hwr p hp
              by_cases hpr : p = v
              · subst hpr
                have := hno w
                simp only [hps.1, if_false] at this
                rw [hp] at this; exact absurd this (by simp)
              · exact ih p (by omega) hps.2.1 hpr
          exact key _ v0 (Nat.le_refl _) hv0 hv0r
        · have := (I.pend_iff v hv rfl hvr).mpr (by
            intro c hc _
            by_cases hvc : v = c
            · subst hvc
              cases hS : S' v v
              · rfl
              · exact absurd rfl (I.par_spec v hv rfl hvr v hS).1
            · have := hno c
              simpa [hvc] using this)
          rcases this with h | h
          · exact h
          · simp at h
  · -- the cluster is the single stabilizer `root`
    push Not at hother
    have hany : (List.range H.length).any (fun i => if i = root then false else stabs i) = false := by
      rw [List.any_eq_false]
      intro x _
      by_cases hx : x = root
      · simp [hx]
      · simp only [hx, if_false]
        intro h; exact hx (hother x h)
    have hrun : bfsLoop H.length (H.length + 1) (shared H stabs qubits)
        (fun i => if i = root then false else stabs i) [root] =
        some (shared H stabs qubits, [root]) := by
      rw [bfsLoop]; simp only [hany, Bool.false_eq_true, if_false]
    rw [hrun]
    have hfalse : ∀ p c, (if p = c then false else shared H stabs qubits p c) = false := by
      intro p c
      by_cases hpc : p = c
      · simp [hpc]
      · simp only [hpc, if_false]
        cases h : shared H stabs qubits p c
        · rfl
        · have := shared_stabs h
          exact absurd ((hother p this.1).trans (hother c this.2).symm) hpc
    refine ⟨_, [root], rfl, ⟨⟨fun _ => 0, 0, ?_⟩, ?_, ?_, ?_, ?_, hroot⟩, ⟨by simp, ?_⟩⟩
    · intro p c h; rw [hfalse] at h; exact absurd h (by simp)
    · intro p c h; rw [hfalse] at h; exact absurd h (by simp)
    · intro p p' c h; rw [hfalse] at h; exact absurd h (by simp)
    · intro c hc hcr; exact absurd (hother c hc) hcr
    · intro p; exact hfalse p root
    · rintro ⟨v, hv, hvr⟩; exact absurd (hother v hv) hvr

end

end Panqec.UF
