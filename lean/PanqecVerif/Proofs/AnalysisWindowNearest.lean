/-
Lemmas about the model of `get_p_th_nearest` (C16): the value is one of the supplied error rates, it is
the smallest one when all rows carry the same 'code' (as in the pipeline), and it does not depend on the
order of the rows.
-/
import PanqecVerif.Proofs.AnalysisWindowBasic

namespace Panqec.An

/-! ### the stable sort of the code tuples by `n` -/

theorem insertByN_perm (t : CodeTuple) : ∀ l : List CodeTuple, (insertByN t l).Perm (t :: l)
  | [] => List.Perm.refl _
  | u :: us => by
    unfold insertByN
    split
    · exact List.Perm.refl _
    · exact ((insertByN_perm t us).cons u).trans (List.Perm.swap t u us)

theorem sortByN_perm : ∀ l : List CodeTuple, (sortByN l).Perm l
  | [] => List.Perm.refl _
  | t :: ts => (insertByN_perm t (sortByN ts)).trans ((sortByN_perm ts).cons t)

theorem insertByN_pairwise (t : CodeTuple) : ∀ l : List CodeTuple, l.Pairwise (fun a b => a.2.1 ≤ b.2.1) →
    (insertByN t l).Pairwise (fun a b => a.2.1 ≤ b.2.1)
  | [], _ => by simp [insertByN]
  | u :: us, h => by
    unfold insertByN
    split
    · rename_i htu
      refine List.pairwise_cons.mpr ⟨?_, h⟩
      intro b hb
      rcases List.mem_cons.mp hb with rfl | hb
      · exact htu
      · exact le_trans htu ((List.pairwise_cons.mp h).1 b hb)
    · rename_i htu
      have hut : u.2.1 ≤ t.2.1 := Nat.le_of_lt (Nat.lt_of_not_le htu)
      refine List.pairwise_cons.mpr ⟨?_, insertByN_pairwise t us (List.pairwise_cons.mp h).2⟩
      intro b hb
      have hb' := (insertByN_perm t us).mem_iff.mp hb
      rcases List.mem_cons.mp hb' with rfl | hb'
      · exact hut
      · exact (List.pairwise_cons.mp h).1 b hb'

theorem sortByN_pairwise : ∀ l : List CodeTuple, (sortByN l).Pairwise (fun a b => a.2.1 ≤ b.2.1)
  | [] => List.Pairwise.nil
  | t :: ts => insertByN_pairwise t _ (sortByN_pairwise ts)

/-- two orders of the same code tuples give the same sorted table when `n` identifies the tuple -/
theorem sortByN_eq_of_perm {a b : List CodeTuple} (h : a.Perm b)
    (hn : ∀ t ∈ a, ∀ u ∈ a, t.2.1 = u.2.1 → t = u) : sortByN a = sortByN b := by
  apply List.Perm.eq_of_pairwise (le := fun a b => a.2.1 ≤ b.2.1) _ (sortByN_pairwise a) (sortByN_pairwise b)
  · exact (sortByN_perm a).trans (h.trans (sortByN_perm b).symm)
  · intro x y hx hy hxy hyx
    have hx' := (sortByN_perm a).mem_iff.mp hx
    have hy' := h.mem_iff.mpr ((sortByN_perm b).mem_iff.mp hy)
    exact hn x hx' y hy' (le_antisymm hxy hyx)

/-! ### order independence -/

/-- one value per (code, error rate): what `aggregate`'s group-by guarantees -/
def Keyed (rows : List TRow) : Prop :=
  ∀ r ∈ rows, ∀ r' ∈ rows, r.code = r'.code → r.rate = r'.rate → r.pest = r'.pest

/-- distinct (code, n, k, d) tuples have distinct `n` (codes of one family: `n` grows with the size) -/
def DistinctN (rows : List TRow) : Prop :=
  ∀ t ∈ codeTuples rows, ∀ u ∈ codeTuples rows, t.2.1 = u.2.1 → t = u

theorem codeTuples_perm {a b : List TRow} (h : a.Perm b) : (codeTuples a).Perm (codeTuples b) :=
  eraseDups_perm (h.map _)

theorem codeColumns_perm {a b : List TRow} (h : a.Perm b) (hn : DistinctN a) : codeColumns a = codeColumns b := by
  unfold codeColumns
  rw [sortByN_eq_of_perm (codeTuples_perm h) hn]

theorem rateIndex_perm {a b : List TRow} (h : a.Perm b) : rateIndex a = rateIndex b :=
  sortRat_eq_of_perm (eraseDups_perm (h.map _))

theorem getLast?_bind_const {α β : Type} (f : α → Option β) (v : Option β) :
    ∀ (l : List α), l ≠ [] → (∀ x ∈ l, f x = v) → l.getLast?.bind f = v := by
  intro l hne hall
  obtain ⟨x, hx⟩ : ∃ x, l.getLast? = some x := by
    cases h : l.getLast? with
    | none => exact absurd (List.getLast?_eq_none_iff.mp h) hne
    | some x => exact ⟨x, rfl⟩
  rw [hx]
  exact hall x (List.mem_of_getLast? hx)

theorem cellOf_perm {a b : List TRow} (h : a.Perm b) (hk : Keyed a) (c : Nat) (p : Rat) :
    cellOf a c p = cellOf b c p := by
  unfold cellOf
  have hp : (a.filter fun r => r.code == c && r.rate == p).Perm (b.filter fun r => r.code == c && r.rate == p) :=
    h.filter _
  by_cases hne : (a.filter fun r => r.code == c && r.rate == p) = []
  · rw [hne] at hp
    rw [hne, List.nil_perm.mp hp]
  · obtain ⟨x, hx⟩ := List.exists_mem_of_ne_nil _ hne
    have hx' := List.mem_filter.mp hx
    have key : ∀ y ∈ a, (y.code == c && y.rate == p) = true → y.pest = x.pest := by
      intro y hy hyc
      simp only [Bool.and_eq_true, beq_iff_eq] at hyc
      have hxc := hx'.2
      simp only [Bool.and_eq_true, beq_iff_eq] at hxc
      exact hk y hy x hx'.1 (hyc.1.trans hxc.1.symm) (hyc.2.trans hxc.2.symm)
    rw [getLast?_bind_const TRow.pest x.pest _ hne (fun y hy => key y (List.mem_filter.mp hy).1 (List.mem_filter.mp hy).2)]
    have hne' : (b.filter fun r => r.code == c && r.rate == p) ≠ [] := by
      intro e; rw [e] at hp; exact hne (List.perm_nil.mp hp)
    rw [getLast?_bind_const TRow.pest x.pest _ hne' (fun y hy => by
      have hy' := List.mem_filter.mp hy
      exact key y (h.mem_iff.mpr hy'.1) hy'.2)]

theorem orderStats_perm {a b : List TRow} (h : a.Perm b) (hk : Keyed a) (hn : DistinctN a) :
    orderStats a = orderStats b := by
  unfold orderStats
  rw [rateIndex_perm h, codeColumns_perm h hn]
  apply List.map_congr_left
  intro p _
  congr 1
  apply List.map_congr_left
  intro c _
  exact cellOf_perm h hk c p

theorem pThNearest_perm {a b : List TRow} (h : a.Perm b) (hk : Keyed a) (hn : DistinctN a) :
    pThNearest a = pThNearest b := by
  unfold pThNearest
  rw [rateIndex_perm h, orderStats_perm h hk hn]

/-! ### the value is one of the rates -/

theorem getD_mem_cons {α : Type} (x : α) (xs : List α) (i : Nat) : (x :: xs).getD i x ∈ x :: xs := by
  rw [List.getD_eq_getElem?_getD]
  cases h : (x :: xs)[i]? with
  | none => simp
  | some y => simpa using List.mem_of_getElem? h

theorem mem_rateIndex {rows : List TRow} {p : Rat} : p ∈ rateIndex rows ↔ ∃ r ∈ rows, r.rate = p := by
  unfold rateIndex
  rw [mem_sortRat, List.mem_eraseDups, List.mem_map]

theorem rateIndex_eq_nil {rows : List TRow} : rateIndex rows = [] ↔ rows = [] := by
  unfold rateIndex
  rw [sortRat_eq_nil, eraseDups_eq_nil, List.map_eq_nil_iff]

theorem pThNearest_mem {rows : List TRow} {p : Rat} (h : pThNearest rows = .ok p) : ∃ r ∈ rows, r.rate = p := by
  unfold pThNearest at h
  split at h
  · cases h
  · rename_i p0 ps hidx
    injection h with h
    rw [← mem_rateIndex, hidx, ← h]
    exact getD_mem_cons p0 ps _

theorem pThNearest_error_iff (rows : List TRow) : (∃ e, pThNearest rows = .error e) ↔ rows = [] := by
  unfold pThNearest
  constructor
  · rintro ⟨e, h⟩
    split at h
    · rename_i hidx; exact rateIndex_eq_nil.mp hidx
    · cases h
  · rintro rfl
    exact ⟨.empty, rfl⟩

/-! ### one 'code' only: the smallest rate -/

theorem argmaxAux_of_le : ∀ (vs : List Int) (i bi : Nat) (bv : Int), (∀ v ∈ vs, v ≤ bv) →
    argmaxAux vs i bi bv = bi
  | [], _, _, _, _ => rfl
  | v :: vs, i, bi, bv, h => by
    unfold argmaxAux
    have hv : ¬ bv < v := not_lt.mpr (h v List.mem_cons_self)
    rw [if_neg hv]
    exact argmaxAux_of_le vs _ _ _ fun w hw => h w (List.mem_cons_of_mem _ hw)

theorem argmaxFirst_const {l : List Int} {a : Int} (h : ∀ x ∈ l, x = a) : argmaxFirst l = 0 := by
  cases l with
  | nil => rfl
  | cons v vs =>
    unfold argmaxFirst
    apply argmaxAux_of_le
    intro w hw
    rw [h w (List.mem_cons_of_mem _ hw), h v List.mem_cons_self]

theorem diffs_const {a : Int} : ∀ {l : List Int}, (∀ x ∈ l, x = a) → ∀ y ∈ diffs l, y = 0
  | [], _, y, hy => by simp [diffs] at hy
  | [_], _, y, hy => by simp [diffs] at hy
  | x :: x' :: t, h, y, hy => by
    simp only [diffs, List.mem_cons] at hy
    rcases hy with rfl | hy
    · rw [h x (by simp), h x' (by simp)]; simp
    · exact diffs_const (fun z hz => h z (List.mem_cons_of_mem _ hz)) y hy

theorem eraseDups_all_eq {c : Nat} : ∀ {l : List Nat}, l ≠ [] → (∀ x ∈ l, x = c) → l.eraseDups = [c]
  | [], h, _ => absurd rfl h
  | x :: xs, _, h => by
    have hx : x = c := h x List.mem_cons_self
    subst hx
    rw [List.eraseDups_cons]
    have : xs.filter (fun b => !b == x) = [] := by
      rw [List.filter_eq_nil_iff]
      intro b hb
      simp [h b (List.mem_cons_of_mem _ hb)]
    rw [this]; rfl

theorem codeColumns_single {rows : List TRow} {c : Nat} (hne : rows ≠ []) (h : ∀ r ∈ rows, r.code = c) :
    codeColumns rows = [c] := by
  unfold codeColumns
  apply eraseDups_all_eq
  · intro e
    have h1 := List.map_eq_nil_iff.mp e
    have h2 : codeTuples rows = [] := by
      have := (sortByN_perm (codeTuples rows)).length_eq
      rw [h1] at this
      exact List.length_eq_zero_iff.mp this.symm
    unfold codeTuples at h2
    rw [eraseDups_eq_nil, List.map_eq_nil_iff] at h2
    exact hne h2
  · intro x hx
    obtain ⟨t, ht, rfl⟩ := List.mem_map.mp hx
    have ht' := (sortByN_perm _).mem_iff.mp ht
    unfold codeTuples at ht'
    rw [List.mem_eraseDups] at ht'
    obtain ⟨r, hr, rfl⟩ := List.mem_map.mp ht'
    exact h r hr

theorem orderStat_singleton (v : Option Rat) : orderStat [v] = 0 := by
  simp [orderStat, argLast, argFirst, argLastAux, argFirstAux]

/-- In the pipeline all rows of a parameter set carry the same 'code' (the class name): the table of
    `get_p_th_nearest` has one column and the function returns the smallest error rate. -/
theorem pThNearest_single_code {rows : List TRow} {c : Nat} {m : Rat} (h : ∀ r ∈ rows, r.code = c)
    (hm : minList (rows.map (·.rate)) = some m) : pThNearest rows = .ok m := by
  have hne : rows ≠ [] := by
    rintro rfl; cases hm
  unfold pThNearest
  split
  · rename_i hidx; exact absurd (rateIndex_eq_nil.mp hidx) hne
  · rename_i p0 ps hidx
    have hstats : ∀ x ∈ orderStats rows, x = 0 := by
      intro x hx
      unfold orderStats at hx
      rw [codeColumns_single hne h] at hx
      obtain ⟨p, _, rfl⟩ := List.mem_map.mp hx
      exact orderStat_singleton _
    rw [argmaxFirst_const (a := 0) (diffs_const hstats)]
    simp only [List.getD_cons_zero]
    unfold rateIndex at hidx
    obtain ⟨h1, h2⟩ := sortRat_head_le hidx
    obtain ⟨h3, h4⟩ := minList_spec hm
    congr 1
    apply le_antisymm
    · exact h2 m (List.mem_eraseDups.mpr h3)
    · exact h4 p0 (List.mem_eraseDups.mp h1)

end Panqec.An
