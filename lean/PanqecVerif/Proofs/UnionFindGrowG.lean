/-
Union-find internals (C05), growth phase, part G: `_update_parents` (both arrays end up pointing
at the roots) and the post-condition of `Support.clustering()`: whenever the `while` loop
terminates, every cluster is connected through the qubits assigned to it and carries an even
number of defects (`ClusterPost`).
-/
import PanqecVerif.Proofs.UnionFindGrowF
import PanqecVerif.Proofs.UnionFindDecodeB

namespace Panqec.UF

set_option linter.unusedSimpArgs false
set_option linter.unusedVariables false

/-- `_update_parents(self._s_parents, roots)` -/
theorem updateSParents_spec {m : Nat} {roots : List Nat} {rep d : Nat → Nat} :
    ∀ (is : List Nat) (sp : Nat → Int), UFInv m sp rep d → (∀ x, x ∈ roots ↔ sp x = (x : Int)) →
      ∃ sp', updateSParents m roots is (sp, false) = (sp', false) ∧ UFInv m sp' rep d ∧
        (∀ i, sp' i = -1 ↔ sp i = -1) ∧ (∀ i, sp' i = (i : Int) ↔ sp i = (i : Int)) ∧
        (∀ i, sp i = (rep i : Int) → sp' i = (rep i : Int)) ∧
        (∀ i, i ∈ is → sp i ≠ -1 → sp' i = (rep i : Int)) := by
  intro is
  induction is with
  | nil =>
    intro sp U _
    exact ⟨sp, rfl, U, fun _ => Iff.rfl, fun _ => Iff.rfl, fun _ h => h, by simp⟩
  | cons i is ih =>
    intro sp U hroots
    unfold updateSParents
    rcases U.rng i with hfresh | ⟨x, hxm, hx⟩
    · -- fresh: untouched
      have hc : ¬ (sp i ≠ -1 ∧ (sp i).toNat ∉ roots) := fun h => h.1 hfresh
      simp only [hc, if_false]
      obtain ⟨sp', h1, h2, h3, h4, h5, h6⟩ := ih sp U hroots
      refine ⟨sp', h1, h2, h3, h4, h5, ?_⟩
      intro j hj hlive
      rcases List.mem_cons.mp hj with rfl | hj
      · exact absurd hfresh hlive
      · exact h6 j hj hlive
    · have htn : (sp i).toNat = x := by omega
      by_cases hxr : x ∈ roots
      · -- already points at a root
        have hc : ¬ (sp i ≠ -1 ∧ (sp i).toNat ∉ roots) := fun h => h.2 (by rw [htn]; exact hxr)
        simp only [hc, if_false]
        have hxroot := (hroots x).mp hxr
        have hrepi : sp i = (rep i : Int) := by
          rw [← U.rep_par i x hx, U.root_rep x hxroot]; exact hx
        obtain ⟨sp', h1, h2, h3, h4, h5, h6⟩ := ih sp U hroots
        refine ⟨sp', h1, h2, h3, h4, h5, ?_⟩
        intro j hj hlive
        rcases List.mem_cons.mp hj with rfl | hj
        · exact h5 j hrepi
        · exact h6 j hj hlive
      · simp only [htn]
        rw [if_pos (⟨by omega, hxr⟩ : sp i ≠ -1 ∧ x ∉ roots)]
        have hxlive := U.par_live i x hx
        obtain ⟨sp1, hfr, U1, hf1, hr1, hs1⟩ := findRoot_spec U hxlive
        have hrepx : rep x = rep i := U.rep_par i x hx
        rw [hfr]
        simp only [Bool.or_false]
        -- the assignment `parents[i] = root` is a path compression of the single vertex `i`
        have hi1 : sp1 i ≠ -1 := fun h => by have := (hf1 i).mp h; omega
        have hinr : sp1 i ≠ (i : Int) := by
          intro h
          have h2 := (hr1 i).mp h
          have : x = i := by omega
          subst this
          exact hxr ((hroots x).mpr h2)
        have hroot1 : sp1 (rep i) = (rep i : Int) := U1.rep_root i hi1
        have hd0 : d (rep i) = 0 := U1.d_root _ hroot1
        have hdi : 0 < d i := by
          rcases U1.rng i with h | ⟨p, _, hp⟩
          · exact absurd h hi1
          · have hne : p ≠ i := fun h => hinr (by rw [hp, h])
            have := U1.d_par i p hp hne; omega
        obtain ⟨U2, hf2, hr2⟩ := compress_path U1 (rep i) hroot1 [i] (by
          intro y hy
          simp at hy; subst hy
          exact ⟨hi1, rfl, hinr, by omega⟩)
        have hfun : (fun j => if j = i then ((rep x : Nat) : Int) else sp1 j) =
            (fun j => if j ∈ [i] then ((rep i : Nat) : Int) else sp1 j) := by
          funext j; simp [hrepx]
        rw [hfun]
        obtain ⟨sp', h1, h2, h3, h4, h5, h6⟩ := ih _ U2 (by
          intro y; rw [hr2 y, hr1 y]; exact hroots y)
        refine ⟨sp', h1, h2, ?_, ?_, ?_, ?_⟩
        · intro j; rw [h3 j, hf2 j, hf1 j]
        · intro j; rw [h4 j, hr2 j, hr1 j]
        · intro j hj
          apply h5
          by_cases hji : j ∈ [i]
          · simp at hji; subst hji; simp
          · simp only [hji, if_false]; exact hs1 j hj
        · intro j hj hlive
          rcases List.mem_cons.mp hj with rfl | hj
          · apply h5; simp
          · apply h6 j hj
            intro h
            exact hlive ((hf1 j).mp ((hf2 j).mp h))

/-- `_update_parents(self._q_parents, roots)` -/
theorem updateParents_spec {m : Nat} {roots : List Nat} {rep d : Nat → Nat} :
    ∀ (is : List Nat) (par : Nat → Int) (sp : Nat → Int), is.Nodup → UFInv m sp rep d →
      (∀ x, x ∈ roots ↔ sp x = (x : Int)) →
      (∀ q, par q = -1 ∨ ∃ x : Nat, par q = (x : Int) ∧ sp x ≠ -1) →
      ∃ par' sp', updateParents m roots is (par, sp, false) = (par', sp', false) ∧
        UFInv m sp' rep d ∧ (∀ i, sp' i = -1 ↔ sp i = -1) ∧
        (∀ i, sp i = (rep i : Int) → sp' i = (rep i : Int)) ∧
        (∀ q, q ∉ is → par' q = par q) ∧
        (∀ q (x : Nat), q ∈ is → par q = (x : Int) → par' q = (rep x : Int)) ∧
        (∀ q, par q = -1 → par' q = -1) := by
  intro is
  induction is with
  | nil =>
    intro par sp _ U _ _
    exact ⟨par, sp, rfl, U, fun _ => Iff.rfl, fun _ h => h, fun _ _ => rfl, by simp, fun _ h => h⟩
  | cons i is ih =>
    intro par sp hnd U hroots hq
    rw [List.nodup_cons] at hnd
    unfold updateParents
    rcases hq i with hfresh | ⟨x, hx, hxlive⟩
    · have hc : ¬ (par i ≠ -1 ∧ (par i).toNat ∉ roots) := fun h => h.1 hfresh
      simp only [hc, if_false]
      obtain ⟨par', sp', h1, h2, h3, h4, h5, h6, h7⟩ := ih par sp hnd.2 U hroots hq
      refine ⟨par', sp', h1, h2, h3, h4, fun q hq' => h5 q (fun h => hq' (by simp [h])), ?_, h7⟩
      intro q y hqm hqy
      rcases List.mem_cons.mp hqm with rfl | hqm
      · rw [hfresh] at hqy; omega
      · exact h6 q y hqm hqy
    · have htn : (par i).toNat = x := by omega
      by_cases hxr : x ∈ roots
      · have hc : ¬ (par i ≠ -1 ∧ (par i).toNat ∉ roots) := fun h => h.2 (by rw [htn]; exact hxr)
        simp only [hc, if_false]
        have hrx : rep x = x := U.root_rep x ((hroots x).mp hxr)
        obtain ⟨par', sp', h1, h2, h3, h4, h5, h6, h7⟩ := ih par sp hnd.2 U hroots hq
        refine ⟨par', sp', h1, h2, h3, h4, fun q hq' => h5 q (fun h => hq' (by simp [h])), ?_, h7⟩
        intro q y hqm hqy
        rcases List.mem_cons.mp hqm with rfl | hqm
        · have : y = x := by omega
          subst this
          rw [h5 q hnd.1, hrx]; exact hqy
        · exact h6 q y hqm hqy
      · simp only [htn]
        rw [if_pos (⟨by omega, hxr⟩ : par i ≠ -1 ∧ x ∉ roots)]
        obtain ⟨sp1, hfr, U1, hf1, hr1, hs1⟩ := findRoot_spec U hxlive
        rw [hfr]
        simp only [Bool.or_false]
        have hq1 : ∀ q, (if q = i then ((rep x : Nat) : Int) else par q) = -1 ∨
            ∃ y : Nat, (if q = i then ((rep x : Nat) : Int) else par q) = (y : Int) ∧ sp1 y ≠ -1 := by
          intro q
          by_cases hqi : q = i
          · refine Or.inr ⟨rep x, by simp [hqi], ?_⟩
            have := U1.rep_root x (fun h => hxlive ((hf1 x).mp h))
            rw [this]; omega
          · simp only [hqi, if_false]
            rcases hq q with h | ⟨y, h1, h2⟩
            · exact Or.inl h
            · exact Or.inr ⟨y, h1, fun h => h2 ((hf1 y).mp h)⟩
        obtain ⟨par', sp', h1, h2, h3, h4, h5, h6, h7⟩ := ih _ sp1 hnd.2 U1 (by
          intro y; rw [hr1 y]; exact hroots y) hq1
        refine ⟨par', sp', h1, h2, fun j => (h3 j).trans (hf1 j), fun j hj => h4 j (hs1 j hj), ?_, ?_, ?_⟩
        · intro q hq'
          have hqi : q ≠ i := fun h => hq' (by simp [h])
          rw [h5 q (fun h => hq' (by simp [h]))]; simp [hqi]
        · intro q y hqm hqy
          rcases List.mem_cons.mp hqm with rfl | hqm
          · have : y = x := by omega
            subst this
            rw [h5 q hnd.1]; simp
          · have hqi : q ≠ i := fun h => hnd.1 (h ▸ hqm)
            exact h6 q y hqm (by simp [hqi, hqy])
        · intro q hqf
          have hqi : q ≠ i := fun h => by subst h; rw [hqf] at hx; omega
          exact h7 q (by simp [hqi, hqf])

/-- **post-condition of `Support.clustering()`** on a graph-like matrix: if the growth loop
    terminates (within the fuel), the model never left the modelled fragment and the clusters
    it returns are connected and even. -/
theorem clustering_post {H : Mat} (G : GraphOK H) (sy : Vec) (sched : List (List Int))
    (hterm : (clustering H sy sched).terminated = true) :
    ClusterPost H sy (clustering H sy sched).roots (clustering H sy sched).sPar
      (clustering H sy sched).qPar ∧ (clustering H sy sched).bad = false := by
  obtain ⟨rep, d, I, hodd⟩ := clusterLoop_inv (growFuel H) _ _ _ (GInv_init H sy sched)
  unfold clustering at hterm ⊢
  simp only [] at hterm ⊢
  generalize clusterLoop H (growFuel H) (initState H sy sched) = r at I hodd hterm ⊢
  obtain ⟨st, term⟩ := r
  simp only [] at I hodd hterm ⊢
  have hroots : ∀ x, x ∈ st.forest.map (·.root) ↔ st.sPar x = (x : Int) := by
    intro x
    rw [← I.fi.roots_iff, List.mem_map]
  rw [I.nbad]
  obtain ⟨sp1, hrun1, U1, hf1, hr1, _, hfin1⟩ := updateSParents_spec (List.range H.length) st.sPar
    I.uf hroots
  rw [hrun1]
  obtain ⟨qp2, sp2, hrun2, U2, hf2, hs2, hout2, hin2, hfr2⟩ := updateParents_spec
    (List.range (ncols H)) st.qPar sp1 List.nodup_range U1 (by intro x; rw [hr1 x]; exact hroots x)
    (by
      intro q
      rcases I.qrng q with h | ⟨x, h1, h2⟩
      · exact Or.inl h
      · exact Or.inr ⟨x, h1, fun h => h2 ((hf1 x).mp h)⟩)
  simp only []
  rw [hrun2]
  simp only []
  -- the final arrays in terms of `rep`
  have hlive : ∀ i, sp2 i = -1 ↔ st.sPar i = -1 := fun i => (hf2 i).trans (hf1 i)
  have hsp2 : ∀ i, st.sPar i ≠ -1 → sp2 i = (rep i : Int) := by
    intro i hi
    apply hs2
    exact hfin1 i (List.mem_range.mpr (I.uf.lt hi)) hi
  have hstabs : ∀ r, st.sPar r = (r : Int) → ∀ s, stabsOf H sp2 r s = true ↔ (st.sPar s ≠ -1 ∧ rep s = r) := by
    intro r hr s
    unfold stabsOf
    simp only [Bool.and_eq_true, decide_eq_true_eq]
    constructor
    · rintro ⟨_, h⟩
      have hl : st.sPar s ≠ -1 := fun hh => by rw [(hlive s).mpr hh] at h; omega
      rw [hsp2 s hl] at h
      exact ⟨hl, by omega⟩
    · rintro ⟨h1, h2⟩
      exact ⟨I.uf.lt h1, by rw [hsp2 s h1, h2]⟩
  refine ⟨⟨I.fi.roots_nodup, ?_, ?_, ?_, ?_⟩, trivial⟩
  · -- root_self
    intro r hr
    have hrr := (hroots r).mp hr
    exact (hstabs r hrr r).mpr ⟨by rw [hrr]; omega, I.uf.root_rep r hrr⟩
  · -- cover
    intro s hs hd
    have hl := I.fi.defect_live s hs hd
    exact ⟨rep s, (hroots _).mpr (I.uf.rep_root s hl), hsp2 s hl⟩
  · -- conn
    intro r hr v hv
    have hrr := (hroots r).mp hr
    obtain ⟨hvl, hvr⟩ := (hstabs r hrr v).mp hv
    have hc := I.conn v hvl
    rw [hvr] at hc
    have hrl : st.sPar r ≠ -1 := by rw [hrr]; omega
    have hrrep : rep r = r := I.uf.root_rep r hrr
    -- a path of grown member qubits is a path in the cluster sub-graph
    have key : ∀ a b, Conn H st.rowDead st.colDead st.sPar st.qPar rep a b → a = r →
        Reach H (stabsOf H sp2 r) (qubitsOf H qp2 r) r b := by
      intro a b hab
      induction hab with
      | refl => intro h; subst h; exact Reach.base
      | step hc' e ih =>
        rename_i u q w
        intro ha
        have hreach := ih ha
        have hsame : rep u = r := by
          have := Conn.same hc'; rw [ha, hrrep] at this; exact this.symm
        refine Reach.step hreach ⟨q, ?_⟩
        rw [adjq_true]
        have hgu : hb H u q = true := by
          have := e.gu; unfold grown at this; simp only [Bool.and_eq_true] at this; exact this.1
        have hgw : hb H w q = true := by
          have := e.gv; unfold grown at this; simp only [Bool.and_eq_true] at this; exact this.1
        refine ⟨hgu, hgw, ?_, (hstabs r hrr u).mpr ⟨e.lu, hsame⟩,
          (hstabs r hrr w).mpr ⟨e.lv, e.same.symm.trans hsame⟩⟩
        obtain ⟨x, hx1, hx2, hx3⟩ := e.qp
        have hqn : q < ncols H := (G.inRange u q hgu).2
        unfold qubitsOf
        simp only [hqn, decide_true, Bool.true_and, decide_eq_true_eq]
        rw [hin2 q x (List.mem_range.mpr hqn) hx1, hx3, hsame]
    exact key r v hc rfl
  · -- even
    intro r hr
    have hrr := (hroots r).mp hr
    obtain ⟨c, hc, hcr⟩ := (I.fi.roots_iff r).mpr hrr
    have h1 := I.fi.odd_ok c hc
    rw [hodd hterm c hc, hcr] at h1
    have h2 : cnt H.length (fun s => defect sy s && stabsOf H sp2 r s) =
        clsCnt H.length sy st.sPar rep r := by
      unfold clsCnt
      apply cnt_congr
      intro s _
      have := hstabs r hrr s
      cases hd : defect sy s
      · simp
      · by_cases h : st.sPar s ≠ -1 ∧ rep s = r
        · simp [this.mpr h, h.1, h.2]
        · have h' : stabsOf H sp2 r s = false := by
            cases hh : stabsOf H sp2 r s
            · rfl
            · exact absurd (this.mp hh) h
          rw [h']
          by_cases a : st.sPar s = -1 <;> by_cases b : rep s = r <;> simp_all
    rw [h2]; simp at h1; omega

end Panqec.UF
