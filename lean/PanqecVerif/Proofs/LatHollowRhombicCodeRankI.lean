/-
`HollowRhombicCode`, rank clause, part I: the selected triangles of a size whose hole is at least
two layers thick in every direction (`Lx ≥ 4`, `Ly, Lz ≥ 5`), axis by axis, as boxes: the triangles
of axis 3 (axis 2) are the box `y ≤ 2Ly−4` (`y ≥ 2`) minus five boxes next to the hole; those of
axis 1 are the row `y = 2Ly−2` and four boxes next to the hole; those of axis 0 are the last column,
the upper ones of the box `x ≤ 2Lx−4`, `y ≤ 2Ly−4`, `z ≥ 2` minus four boxes next to the hole, the
lower ones under the two hole edges `(3, ·, 3)`, `(·, 3, 3)`, and the kept lower ones along the hole
edge `(3, 3, ·)`.  Core Lean only.
-/
import PanqecVerif.Proofs.LatHollowRhombicCodeRankH
import PanqecVerif.Proofs.LatHollowRhombicCodeRankD

set_option linter.unusedVariables false
set_option linter.unusedSimpArgs false

namespace Panqec.HollowRhombicCode
open Panqec.Lat3Db Panqec.Rhombic
open Panqec.Planar3DCode (inE inO inE2 inO1)

section
variable {Lx Ly Lz : Nat}

/-- the boxes next to the hole where the triangle of axis 3 is not listed -/
def P3 (Lx Ly Lz : Nat) (x y z : Int) : Prop :=
  (InAp 4 (Lx - 3) x ∧ InAp 4 (Ly - 4) y ∧ InAp 4 (Lz - 4) z) ∨
  (InAp (2 * Lx - 2) 1 x ∧ InAp 4 (Ly - 4) y ∧ InAp 4 (Lz - 4) z) ∨
  (InAp 4 (Lx - 3) x ∧ InAp 2 1 y ∧ InAp 4 (Lz - 4) z) ∨
  (InAp 4 (Lx - 3) x ∧ InAp 4 (Ly - 4) y ∧ InAp 2 1 z ∧ (x + y + z) % 4 = 2) ∨
  (InAp 4 (Lx - 3) x ∧ InAp 4 (Ly - 4) y ∧ InAp (2 * Lz - 4) 1 z ∧ (x + y + z) % 4 = 0)

/-- the box of the triangles of axis 3 -/
def B3 (Lx Ly Lz : Nat) (x y z : Int) : Prop :=
  InAp 2 (Lx - 1) x ∧ InAp 0 (Ly - 1) y ∧ InAp 0 Lz z

theorem ax3 (hx : 3 ≤ Lx) (hy : 4 ≤ Ly) (hz : 4 ≤ Lz) (x y z : Int) :
    (TS Lx Ly Lz 3 x y z ∨ P3 Lx Ly Lz x y z) ↔ B3 Lx Ly Lz x y z := by
  unfold P3 B3
  constructor
  · rintro (⟨_, hv, hp, _⟩ | h | h | h | h | h)
    · have h5 := hp.2.2.2.2
      rw [sgnY_3] at h5
      unfold VertexLoc inE2 inE at hv
      unfold InAp; omega
    all_goals (unfold InAp at h ⊢; omega)
  · rintro ⟨hX, hY, hZ⟩
    unfold InAp at hX hY hZ
    by_cases h1 : Hole Lx Ly Lz x y z
    · right; left; unfold Hole at h1; unfold InAp; omega
    by_cases h2 : Hole Lx Ly Lz (x + -1) y z
    · right; right; left; unfold Hole at h1 h2; unfold InAp; omega
    by_cases h3 : Hole Lx Ly Lz x (y + 1) z
    · right; right; right; left; unfold Hole at h1 h3; unfold InAp; omega
    by_cases hc : (x + y + z) % 4 = 0
    · by_cases h4 : Hole Lx Ly Lz x y (z + -1)
      · right; right; right; right; right; unfold Hole at h1 h4; unfold InAp; omega
      · left
        refine ⟨by decide, ?_, ?_, Or.inl rfl⟩
        · unfold VertexLoc inE2 inE; omega
        · unfold PT; rw [sgnX_3, sgnY_3, sgnZ_23 (Or.inr rfl), if_pos hc]
          exact ⟨h1, h2, h3, h4, by omega, by omega⟩
    · by_cases h4 : Hole Lx Ly Lz x y (z + 1)
      · right; right; right; right; left; unfold Hole at h1 h4; unfold InAp; omega
      · left
        refine ⟨by decide, ?_, ?_, Or.inl rfl⟩
        · unfold VertexLoc inE2 inE; omega
        · unfold PT; rw [sgnX_3, sgnY_3, sgnZ_23 (Or.inr rfl), if_neg hc]
          exact ⟨h1, h2, h3, h4, by omega, by omega⟩

theorem ax3_disj (hx : 3 ≤ Lx) (hy : 4 ≤ Ly) (hz : 4 ≤ Lz) (x y z : Int) (ht : TS Lx Ly Lz 3 x y z) (hp : P3 Lx Ly Lz x y z) : False := by
  obtain ⟨_, hv, hpt, _⟩ := ht
  unfold PT at hpt
  rw [sgnX_3, sgnY_3, sgnZ_23 (Or.inr rfl)] at hpt
  unfold P3 at hp
  rcases hp with h | h | h | h | h <;> unfold InAp at h
  · exact hpt.1 (by unfold Hole; omega)
  · exact hpt.2.1 (by unfold Hole; omega)
  · exact hpt.2.2.1 (by unfold Hole; omega)
  · have hc : ¬ (x + y + z) % 4 = 0 := by omega
    rw [if_neg hc] at hpt
    exact hpt.2.2.2.1 (by unfold Hole; omega)
  · have hc : (x + y + z) % 4 = 0 := by omega
    rw [if_pos hc] at hpt
    exact hpt.2.2.2.1 (by unfold Hole; omega)

/-- the boxes next to the hole where the triangle of axis 2 is not listed -/
def P2 (Lx Ly Lz : Nat) (x y z : Int) : Prop :=
  (InAp 4 (Lx - 3) x ∧ InAp 4 (Ly - 4) y ∧ InAp 4 (Lz - 4) z) ∨
  (InAp 2 1 x ∧ InAp 4 (Ly - 4) y ∧ InAp 4 (Lz - 4) z) ∨
  (InAp 4 (Lx - 3) x ∧ InAp (2 * Ly - 4) 1 y ∧ InAp 4 (Lz - 4) z) ∨
  (InAp 4 (Lx - 3) x ∧ InAp 4 (Ly - 4) y ∧ InAp 2 1 z ∧ (x + y + z) % 4 = 2) ∨
  (InAp 4 (Lx - 3) x ∧ InAp 4 (Ly - 4) y ∧ InAp (2 * Lz - 4) 1 z ∧ (x + y + z) % 4 = 0)

/-- the box of the triangles of axis 2 -/
def B2 (Lx Ly Lz : Nat) (x y z : Int) : Prop :=
  InAp 2 (Lx - 1) x ∧ InAp 2 (Ly - 1) y ∧ InAp 0 Lz z

theorem ax2 (hx : 3 ≤ Lx) (hy : 4 ≤ Ly) (hz : 4 ≤ Lz) (x y z : Int) :
    (TS Lx Ly Lz 2 x y z ∨ P2 Lx Ly Lz x y z) ↔ B2 Lx Ly Lz x y z := by
  unfold P2 B2
  constructor
  · rintro (⟨_, hv, hp, _⟩ | h | h | h | h | h)
    · have h5 := hp.2.2.2.2
      rw [sgnY_2] at h5
      unfold VertexLoc inE2 inE at hv
      unfold InAp; omega
    all_goals (unfold InAp at h ⊢; omega)
  · rintro ⟨hX, hY, hZ⟩
    unfold InAp at hX hY hZ
    by_cases h1 : Hole Lx Ly Lz x y z
    · right; left; unfold Hole at h1; unfold InAp; omega
    by_cases h2 : Hole Lx Ly Lz (x + 1) y z
    · right; right; left; unfold Hole at h1 h2; unfold InAp; omega
    by_cases h3 : Hole Lx Ly Lz x (y + -1) z
    · right; right; right; left; unfold Hole at h1 h3; unfold InAp; omega
    by_cases hc : (x + y + z) % 4 = 0
    · by_cases h4 : Hole Lx Ly Lz x y (z + -1)
      · right; right; right; right; right; unfold Hole at h1 h4; unfold InAp; omega
      · left
        refine ⟨by decide, ?_, ?_, Or.inr (Or.inl rfl)⟩
        · unfold VertexLoc inE2 inE; omega
        · unfold PT; rw [sgnX_2, sgnY_2, sgnZ_23 (Or.inl rfl), if_pos hc]
          exact ⟨h1, h2, h3, h4, by omega, by omega⟩
    · by_cases h4 : Hole Lx Ly Lz x y (z + 1)
      · right; right; right; right; left; unfold Hole at h1 h4; unfold InAp; omega
      · left
        refine ⟨by decide, ?_, ?_, Or.inr (Or.inl rfl)⟩
        · unfold VertexLoc inE2 inE; omega
        · unfold PT; rw [sgnX_2, sgnY_2, sgnZ_23 (Or.inl rfl), if_neg hc]
          exact ⟨h1, h2, h3, h4, by omega, by omega⟩

theorem ax2_disj (hx : 3 ≤ Lx) (hy : 4 ≤ Ly) (hz : 4 ≤ Lz) (x y z : Int) (ht : TS Lx Ly Lz 2 x y z) (hp : P2 Lx Ly Lz x y z) : False := by
  obtain ⟨_, hv, hpt, _⟩ := ht
  unfold PT at hpt
  rw [sgnX_2, sgnY_2, sgnZ_23 (Or.inl rfl)] at hpt
  unfold P2 at hp
  rcases hp with h | h | h | h | h <;> unfold InAp at h
  · exact hpt.1 (by unfold Hole; omega)
  · exact hpt.2.1 (by unfold Hole; omega)
  · exact hpt.2.2.1 (by unfold Hole; omega)
  · have hc : ¬ (x + y + z) % 4 = 0 := by omega
    rw [if_neg hc] at hpt
    exact hpt.2.2.2.1 (by unfold Hole; omega)
  · have hc : (x + y + z) % 4 = 0 := by omega
    rw [if_pos hc] at hpt
    exact hpt.2.2.2.1 (by unfold Hole; omega)

end

end Panqec.HollowRhombicCode
