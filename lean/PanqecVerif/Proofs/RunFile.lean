/-
Helper lemmas for the `run_file` model (`Model/RunFile.lean`, property C14):
an explicit bound on the number of micro-steps of an uninterrupted batch run (so that the
fuel of `runBatch` suffices), the run from an admissible results file, the no-op run.
-/
import PanqecVerif.Proofs.BatchLive
import PanqecVerif.Model.RunFile

namespace Panqec.Batch

/-! ### terminal states are fixed points; `runToEnd` is `stepN` -/

theorem step_terminal (w : World) (h : w.proc.pc.terminal = true) : step w = w := by
  obtain ⟨fmt, atomic, dk, next, ⟨spec, n, sf, pc, front, back⟩⟩ := w
  cases pc <;> first | rfl | cases h

theorem stepN_terminal : ∀ (k : Nat) (w : World), w.proc.pc.terminal = true → stepN k w = w
  | 0, _, _ => rfl
  | k + 1, w, h => by rw [stepN, step_terminal w h]; exact stepN_terminal k w h

theorem runToEnd_eq_stepN : ∀ (fuel : Nat) (w : World), runToEnd fuel w = stepN fuel w
  | 0, _ => rfl
  | fuel + 1, w => by
    simp only [runToEnd, stepN]
    split
    · rename_i h
      rw [step_terminal w h, stepN_terminal fuel w h]
    · exact runToEnd_eq_stepN fuel (step w)

/-! ### at most one further `save_results()` call is pending -/

def MoreOK (w : World) : Prop :=
  match w.proc.pc with
  | .save _ more _ _ => more ≤ 1
  | _ => True

theorem moreOK_afterIter (fmt atomic dk next spec n sf i fr bk) :
    MoreOK ⟨fmt, atomic, dk, next, ⟨spec, n, sf, afterIter n i, fr, bk⟩⟩ := by
  unfold afterIter; split <;> trivial

theorem moreOK_afterSave (fmt atomic dk next spec n sf i more retry fr bk) (h : more ≤ 1) :
    MoreOK ⟨fmt, atomic, dk, next, ⟨spec, n, sf, afterSave n i more retry, fr, bk⟩⟩ := by
  unfold afterSave
  split
  · trivial
  · split
    · show more - 1 ≤ 1; omega
    · exact moreOK_afterIter ..

theorem moreOK_step (w : World) (h : MoreOK w) : MoreOK (step w) := by
  obtain ⟨fmt, atomic, ⟨file, tmp⟩, next, ⟨spec, n, sf, pc, front, back⟩⟩ := w
  cases pc with
  | trial i =>
    cases back with
    | nil =>
      simp only [step]
      split
      · trivial
      · split
        · exact moreOK_afterIter ..
        · have := savesDue_le n sf i
          show savesDue n sf i - 1 ≤ 1
          omega
    | cons s rest => simp only [step]; split <;> trivial
  | save i more retry ph =>
    have hm : more ≤ 1 := h
    cases ph with
    | chk => simp only [step]; exact hm
    | first wr => cases wr <;> cases atomic <;> simp only [step, writeStep] <;> exact hm
    | second wr =>
      cases wr <;> cases atomic <;> simp only [step, writeStep] <;>
        first | exact hm | exact moreOK_afterSave _ _ _ _ _ _ _ _ _ _ _ _ hm
  | done => exact h
  | paused => exact h
  | failed e => exact h
  | killed => exact h

/-! ### an explicit bound on the number of micro-steps -/

/-- linear version of the termination measure -/
def lin (w : World) : Nat := (measure w).1 * (w.proc.spec.length + 101) + (measure w).2

theorem measure_snd_lt (w : World) (h : Inv w) (hm : MoreOK w) :
    (measure w).2 < w.proc.spec.length + 101 := by
  have hlen : w.proc.mem.length = w.proc.spec.length := by
    rw [← h.specMem, List.length_map]
  obtain ⟨fmt, atomic, dk, next, ⟨spec, n, sf, pc, front, back⟩⟩ := w
  simp only [Proc.mem, List.length_append] at hlen
  cases pc with
  | trial i => simp only [measure]; omega
  | save i more retry ph =>
    have hm' : more ≤ 1 := hm
    have : remPh ph ≤ 9 := by
      cases ph with
      | chk => simp [remPh]
      | first wr => cases wr <;> simp [remPh, remWr]
      | second wr => cases wr <;> simp [remPh, remWr]
    simp only [measure]; omega
  | done => simp [measure]
  | paused => simp [measure]
  | failed e => simp [measure]
  | killed => simp [measure]

theorem lin_of_lex {a b a' b' B : Nat} (h : Prod.Lex (· < ·) (· < ·) (a', b') (a, b)) (hb : b' < B) :
    a' * B + b' < a * B + b := by
  cases h with
  | left _ _ hlt =>
    have : (a' + 1) * B ≤ a * B := Nat.mul_le_mul_right B hlt
    rw [Nat.add_mul, Nat.one_mul] at this
    omega
  | right _ hlt => omega

theorem lin_step (w : World) (h : Inv w) (hm : MoreOK w) (ht : w.proc.pc.terminal = false) :
    lin (step w) < lin w := by
  have hi := (inv_step h).1
  have hb := measure_snd_lt (step w) hi (moreOK_step w hm)
  have hs := (step_spec_n w).1
  unfold lin
  rw [hs] at hb ⊢
  exact lin_of_lex (measure_step w ht) hb

/-- an uninterrupted process has ended (in `done`) after `lin w` micro-steps, and after any
    larger number of them -/
theorem done_within : ∀ (fuel : Nat) (w : World), Inv w → MoreOK w → w.proc.pc.quiet = true →
    lin w ≤ fuel →
    (stepN fuel w).proc.pc = .done ∧ Inv (stepN fuel w) ∧ FileLE w.disk.file (stepN fuel w).disk.file
  | fuel, w, h, hm, hq, hle => by
    by_cases ht : w.proc.pc.terminal = true
    · rw [stepN_terminal fuel w ht]
      refine ⟨?_, h, FileLE.rfl' _⟩
      cases hp : w.proc.pc <;> simp_all [Pc.terminal, Pc.quiet]
    · have ht' : w.proc.pc.terminal = false := by simpa using ht
      have hdec := lin_step w h hm ht'
      obtain ⟨hi, hfile⟩ := inv_step h
      have hq' : (step w).proc.pc.quiet = true := by
        rcases quiet_step w hq with a | ⟨e, he⟩
        · exact a
        · have := hi.loopOK
          simp only [LoopOK, he] at this
      cases fuel with
      | zero => omega
      | succ f =>
        obtain ⟨a, b, c⟩ := done_within f (step w) hi (moreOK_step w hm) hq' (by omega)
        exact ⟨a, b, hfile.trans c⟩

/-! ### the start of a process does not depend on the previous process -/

theorem startProc_proc (w : World) (p : Proc) (spec : List Nat) (n sf : Nat) :
    startProc { w with proc := p } spec n sf = startProc w spec n sf := by
  obtain ⟨fmt, atomic, dk, next, p0⟩ := w
  simp only [startProc]

theorem exists_bound : ∀ (d : List Sim), ∃ N, ∀ s ∈ d, s.nRuns ≤ N
  | [] => ⟨0, fun _ h => by cases h⟩
  | a :: t => by
    obtain ⟨N, hN⟩ := exists_bound t
    refine ⟨max a.nRuns N, fun s hs => ?_⟩
    rcases List.mem_cons.mp hs with rfl | h
    · exact Nat.le_max_left _ _
    · exact Nat.le_trans (hN s h) (Nat.le_max_right _ _)

/-- a world whose results file is an arbitrary well-formed document (left by whatever process:
    the ghost process below is killed and holds exactly the file's records) satisfies `Inv` -/
theorem inv_ghost (fmt : Fmt) (pre : FileSt) (next0 N : Nat)
    (hpre : pre = .absent ∨ ∃ d, pre = .complete d) (hd : IdsOK (fileDoc pre) next0)
    (hN : ∀ s ∈ fileDoc pre, s.nRuns ≤ N) :
    Inv ⟨fmt, true, ⟨pre, .absent⟩, next0,
      ⟨(fileDoc pre).map (·.inputs), N, 1, .killed, [], fileDoc pre⟩⟩ := by
  refine ⟨rfl, hpre, ?_, hd, ?_, Nat.le_refl _, ?_, ?_, ?_, ?_⟩
  · simpa [Proc.mem] using hd
  · simp [Proc.mem]
  · intro r hr
    exact ⟨r, by simpa [Proc.mem] using hr, rfl, List.prefix_rfl⟩
  · intro hr; cases hr
  · intro s hs
    exact hN s (by simpa [Proc.mem] using hs)
  · trivial

end Panqec.Batch

namespace Panqec.RunFile

open Panqec.Batch

theorem docOf_eq_fileDoc (f : FileSt) : docOf f = fileDoc f := by cases f <;> rfl

/-- **Run from an admissible results file**: the file is absent or a well-formed document
    all of whose records belong to requested simulations and hold at most `n` trials; the
    specification is non-empty without repeated simulations.  Then `runBatch` ends in `done`
    within its fuel, the invariant of the protocol holds at the end and the file has only grown. -/
theorem runBatch_resume (fmt : Fmt) (pre : FileSt) (next0 : Nat) (ids : List Nat) (n : Nat)
    (hpre : pre = .absent ∨ ∃ d, pre = .complete d) (hd : IdsOK (fileDoc pre) next0)
    (hne : ids ≠ []) (hnd : ids.Nodup)
    (hrec : ∀ r ∈ fileDoc pre, r.inputs ∈ ids ∧ r.nRuns ≤ n) :
    (runBatch fmt pre next0 ids n).proc.pc = .done ∧ Inv (runBatch fmt pre next0 ids n) ∧
      FileLE pre (runBatch fmt pre next0 ids n).disk.file ∧
      (runBatch fmt pre next0 ids n).proc.spec = ids ∧ (runBatch fmt pre next0 ids n).proc.n = n := by
  obtain ⟨N, hN⟩ := exists_bound (fileDoc pre)
  have hg := inv_ghost fmt pre next0 N hpre hd hN
  have hev : EvOK ⟨fmt, true, ⟨pre, .absent⟩, next0,
      ⟨(fileDoc pre).map (·.inputs), N, 1, .killed, [], fileDoc pre⟩⟩ (.start ids n saveFrequency) :=
    ⟨hne, hnd, Nat.le_refl _, hrec⟩
  obtain ⟨hi, hfile⟩ := inv_start hg hev
  have hsame : startProc (initWorld fmt pre next0) ids n saveFrequency =
      startProc ⟨fmt, true, ⟨pre, .absent⟩, next0,
        ⟨(fileDoc pre).map (·.inputs), N, 1, .killed, [], fileDoc pre⟩⟩ ids n saveFrequency :=
    (startProc_proc (initWorld fmt pre next0) _ ids n saveFrequency).symm
  rw [← hsame] at hi hfile
  generalize hw0 : startProc (initWorld fmt pre next0) ids n saveFrequency = w0 at hi hfile
  have hsn := start_spec_n (initWorld fmt pre next0) ids n saveFrequency
  rw [hw0] at hsn
  have hq : w0.proc.pc.quiet = true := by
    rcases start_quiet (initWorld fmt pre next0) ids n saveFrequency with a | ⟨e, he⟩
    · rw [hw0] at a; exact a
    · rw [hw0] at he
      have := hi.loopOK
      simp only [LoopOK, he] at this
  have hm : MoreOK w0 := by
    have hpc : (∃ i, w0.proc.pc = .trial i) ∨ w0.proc.pc = .done ∨ ∃ e, w0.proc.pc = .failed e := by
      rw [← hw0]
      unfold startProc
      split
      · exact Or.inr (Or.inr ⟨_, rfl⟩)
      · split
        · exact Or.inr (Or.inr ⟨_, rfl⟩)
        · simp only
          split
          · exact Or.inl ⟨_, rfl⟩
          · exact Or.inr (Or.inl rfl)
    unfold MoreOK
    rcases hpc with ⟨i, h⟩ | h | ⟨e, h⟩ <;> rw [h] <;> trivial
  -- the fuel suffices
  have hlin : lin w0 ≤ fuelFor ids.length n := by
    have h2 := measure_snd_lt w0 hi hm
    have h1 : (Batch.measure w0).1 ≤ n := by
      have hn : w0.proc.n = n := hsn.2
      unfold Batch.measure
      split <;> simp only <;> omega
    unfold lin fuelFor
    rw [hsn.1] at h2 ⊢
    have : (Batch.measure w0).1 * (ids.length + 101) ≤ n * (ids.length + 101) := Nat.mul_le_mul_right _ h1
    rw [Nat.add_mul, Nat.one_mul]
    omega
  obtain ⟨a, b, c⟩ := done_within (fuelFor ids.length n) w0 hi hm hq hlin
  have hrb : runBatch fmt pre next0 ids n = stepN (fuelFor ids.length n) w0 := by
    unfold runBatch; rw [hw0, runToEnd_eq_stepN]
  rw [hrb]
  have hfile' : w0.disk.file = pre := hfile
  refine ⟨a, b, ?_, ?_, ?_⟩
  · rw [← hfile']; exact c
  · exact (stepN_spec_n _ w0).1.trans hsn.1
  · exact (stepN_spec_n _ w0).2.trans hsn.2

theorem le_minRuns {n : Nat} : ∀ (l : List Sim), l ≠ [] → (∀ s ∈ l, n ≤ s.nRuns) → n ≤ minRuns l
  | [], h, _ => absurd rfl h
  | [a], _, h => by simpa [minRuns] using h a (by simp)
  | a :: b :: t, _, h => by
    simp only [minRuns]
    exact Nat.le_min.mpr ⟨h a (by simp), le_minRuns (b :: t) (by simp)
      (fun s hs => h s (List.mem_cons_of_mem _ hs))⟩

/-- **The no-op run**: when every requested simulation already holds at least `n` trials in the
    file, the loop has no iteration: the process is `done` at once and the file is untouched. -/
theorem runBatch_noop (fmt : Fmt) (pre : FileSt) (next0 : Nat) (ids : List Nat) (n : Nat)
    (od : Option Doc) (hread : readFile fmt pre = .ok od) (hne : ids ≠ [])
    (hall : ∀ x ∈ ids, n ≤ (loadSim od x).nRuns) :
    (runBatch fmt pre next0 ids n).proc.pc = .done ∧
      (runBatch fmt pre next0 ids n).disk.file = pre ∧
      (runBatch fmt pre next0 ids n).next = next0 := by
  have hmin : n ≤ minRuns (ids.map (loadSim od)) :=
    le_minRuns _ (by simpa using hne) (by
      intro s hs
      obtain ⟨x, hx, rfl⟩ := List.mem_map.mp hs
      exact hall x hx)
  have hstart : startProc (initWorld fmt pre next0) ids n saveFrequency =
      { initWorld fmt pre next0 with proc := ⟨ids, n, saveFrequency, .done, [], ids.map (loadSim od)⟩ } := by
    unfold startProc
    rw [if_neg hne]
    show (match readFile fmt pre with | .error e => _ | .ok od => _) = _
    rw [hread]
    simp only
    rw [if_neg (by omega)]
  have hterm : (startProc (initWorld fmt pre next0) ids n saveFrequency).proc.pc.terminal = true := by
    rw [hstart]; rfl
  unfold runBatch
  rw [runToEnd_eq_stepN, stepN_terminal _ _ hterm, hstart]
  exact ⟨rfl, rfl, rfl⟩

/-! ### the uniform case: every requested simulation holds `k` trials before the task -/

/-- the results file before the task: no file (`k = 0`), or a complete well-formed document
    (distinct simulations, equal-length lists, distinct trial identifiers below the counter
    `next0`) that holds, for every requested simulation, a record with `k` trials, and no
    record of any other simulation -/
def UniformFile (pre : FileSt) (ids : List Nat) (k next0 : Nat) : Prop :=
  (pre = .absent ∧ k = 0) ∨
  ∃ d, pre = .complete d ∧ IdsOK d next0 ∧ (∀ r ∈ d, r.inputs ∈ ids ∧ r.nRuns = k) ∧
    ∀ x ∈ ids, ∃ r ∈ d, r.inputs = x

/-- what the file holds for simulation `x` after the task: a record with exactly `m` trials and
    three lists of that length (or no file at all when `m = 0`) -/
def Holds (f : FileSt) (x m : Nat) : Prop :=
  (m = 0 ∧ f = .absent) ∨
  ∃ r, recordOf f x = some r ∧ r.inputs = x ∧ r.nRuns = m ∧ r.ee.length = m ∧
    r.su.length = m ∧ r.cs.length = m

theorem trialsRecorded_of_holds {f : FileSt} {x m : Nat} (h : Holds f x m) :
    trialsRecorded f x = m := by
  rcases h with ⟨hm, hf⟩ | ⟨r, hr, _, hn, _⟩
  · subst hf; subst hm; rfl
  · simp only [trialsRecorded, hr, hn]

theorem holds_of_mem {f : FileSt} {s : Sim} (hn : ((fileDoc f).map (·.inputs)).Nodup)
    (hs : s ∈ fileDoc f) (hwf : s.WF) : Holds f s.inputs s.nRuns := by
  refine Or.inr ⟨s, ?_, rfl, rfl, ?_, ?_, ?_⟩
  · simp only [recordOf, docOf_eq_fileDoc]; exact findRec_of_mem hn hs
  · exact hwf.2.2.symm
  · rw [hwf.1]; exact hwf.2.2.symm
  · rw [hwf.2.1]; exact hwf.2.2.symm

/-- **`batch_sim.run(n)` from a uniform file**: ends in `done`; the file is absent or complete;
    every requested simulation then holds exactly `max k n` trials; the file has records of
    requested simulations only, each simulation once. -/
theorem runBatch_uniform (fmt : Fmt) (pre : FileSt) (next0 : Nat) (ids : List Nat) (k n : Nat)
    (hne : ids ≠ []) (hnd : ids.Nodup) (hu : UniformFile pre ids k next0) :
    (runBatch fmt pre next0 ids n).proc.pc = .done ∧
    ((runBatch fmt pre next0 ids n).disk.file = .absent ∨
      ∃ d, (runBatch fmt pre next0 ids n).disk.file = .complete d) ∧
    (∀ x ∈ ids, Holds (runBatch fmt pre next0 ids n).disk.file x (max k n)) ∧
    (∀ r ∈ docOf (runBatch fmt pre next0 ids n).disk.file, r.inputs ∈ ids) ∧
    ((docOf (runBatch fmt pre next0 ids n).disk.file).map (·.inputs)).Nodup := by
  by_cases hnk : n ≤ k
  · -- nothing to run
    have hmax : max k n = k := Nat.max_eq_left hnk
    rcases hu with ⟨hp, hk⟩ | ⟨d, hp, hd, hrec, hall⟩
    · subst hp; subst hk
      have hn0 : n = 0 := by omega
      subst hn0
      obtain ⟨a, b, _⟩ := runBatch_noop fmt .absent next0 ids 0 none rfl hne (fun _ _ => Nat.zero_le _)
      rw [b]
      exact ⟨a, Or.inl rfl, fun x _ => Or.inl ⟨rfl, rfl⟩, fun r hr => (by cases hr), by simp [docOf]⟩
    · subst hp
      have hfind : ∀ x ∈ ids, ∃ r ∈ d, r.inputs = x ∧ findRec d x = some r := by
        intro x hx
        obtain ⟨r, hr, hrx⟩ := hall x hx
        exact ⟨r, hr, hrx, by rw [← hrx]; exact findRec_of_mem hd.inputsNodup hr⟩
      obtain ⟨a, b, _⟩ := runBatch_noop fmt (.complete d) next0 ids n (some d) rfl hne (by
        intro x hx
        obtain ⟨r, hr, _, hf⟩ := hfind x hx
        simp only [loadSim, hf]
        rw [(hrec r hr).2]; exact hnk)
      rw [b, hmax]
      refine ⟨a, Or.inr ⟨d, rfl⟩, ?_, fun r hr => (hrec r hr).1, hd.inputsNodup⟩
      intro x hx
      obtain ⟨r, hr, hrx, _⟩ := hfind x hx
      have := holds_of_mem (f := .complete d) hd.inputsNodup hr (hd.each r hr).1
      rw [hrx, (hrec r hr).2] at this
      exact this
  · -- the run proper
    have hkn : k < n := by omega
    have hmax : max k n = n := Nat.max_eq_right (by omega)
    have hpre : pre = .absent ∨ ∃ d, pre = .complete d := by
      rcases hu with ⟨hp, _⟩ | ⟨d, hp, _⟩
      · exact Or.inl hp
      · exact Or.inr ⟨d, hp⟩
    have hd : IdsOK (fileDoc pre) next0 := by
      rcases hu with ⟨hp, _⟩ | ⟨d, hp, hd, _⟩
      · subst hp; exact IdsOK.nil _
      · subst hp; exact hd
    have hrec : ∀ r ∈ fileDoc pre, r.inputs ∈ ids ∧ r.nRuns ≤ n := by
      rcases hu with ⟨hp, _⟩ | ⟨d, hp, _, hrec, _⟩
      · subst hp; intro r hr; cases hr
      · subst hp; intro r hr
        exact ⟨(hrec r hr).1, by rw [(hrec r hr).2]; omega⟩
    obtain ⟨hdone, hinv, _, hspec, hn⟩ := runBatch_resume fmt pre next0 ids n hpre hd hne hnd hrec
    generalize runBatch fmt pre next0 ids n = w at hdone hinv hspec hn
    have hl := hinv.loopOK
    simp only [LoopOK, hdone] at hl
    obtain ⟨hfront, hge, hfile⟩ := hl
    have hmemback : w.proc.mem = w.proc.back := by simp [Proc.mem, hfront]
    rw [hmax]
    refine ⟨hdone, hinv.fileOK, ?_, ?_, ?_⟩
    · intro x hx
      rw [← hspec, ← hinv.specMem] at hx
      obtain ⟨s, hs, rfl⟩ := List.mem_map.mp hx
      have hsb : s ∈ w.proc.back := by rw [← hmemback]; exact hs
      have hsn : s.nRuns = n := by
        have h1 := hinv.counts s hs
        have h2 := hge s hsb
        omega
      have hsf : s ∈ fileDoc w.disk.file := hfile (by omega) s hsb
      have := holds_of_mem hinv.docOK.inputsNodup hsf (hinv.docOK.each s hsf).1
      rw [hsn] at this
      exact this
    · intro r hr
      rw [docOf_eq_fileDoc] at hr
      obtain ⟨s, hs, hsr, _⟩ := hinv.pre r hr
      rw [← hspec, ← hinv.specMem, ← hsr]
      exact List.mem_map.mpr ⟨s, hs, rfl⟩
    · rw [docOf_eq_fileDoc]; exact hinv.docOK.inputsNodup

end Panqec.RunFile
