/-
Bit-level facts behind `gf2_rank` (`panqec/bpauli.py`): what `lowBit r = r & -r` is,
what the test `row & lsb` decides, and how `bvectorToInt` (big-endian packing) lays the
digits of a row out as bits.  Core Lean only.
-/
import PanqecVerif.Model.Bits
import PanqecVerif.Proofs.Bits

namespace Panqec

/-! ### `lowBit` -/

theorem lowBit_odd (k : Nat) : lowBit (2 * k + 1) = 1 := by
  unfold lowBit
  have h : (2 * k + 1) ^^^ (2 * k + 1 - 1) = 1 := by
    apply Nat.eq_of_testBit_eq
    intro i
    cases i with
    | zero => simp [Nat.testBit_zero]
    | succ i =>
      have e1 : (2 * k + 1) / 2 = k := by omega
      have e2 : (2 * k + 1 - 1) / 2 = k := by omega
      have e3 : (1 : Nat) / 2 = 0 := by omega
      rw [Nat.testBit_succ, Nat.testBit_succ, Nat.xor_div_two, e1, e2, e3]
      simp
  rw [h]; rfl

theorem xor_pred_ne_zero (k : Nat) (hk : k ≠ 0) : k ^^^ (k - 1) ≠ 0 := by
  intro h
  have h1 := @Nat.xor_mod_two_eq_one k (k - 1)
  rw [h] at h1
  omega

theorem lowBit_even (k : Nat) (hk : k ≠ 0) : lowBit (2 * k) = 2 * lowBit k := by
  unfold lowBit
  have h : (2 * k) ^^^ (2 * k - 1) = 2 * (k ^^^ (k - 1)) + 1 := by
    apply Nat.eq_of_testBit_eq
    intro i
    cases i with
    | zero => simp [Nat.testBit_zero]; omega
    | succ i =>
      have e1 : (2 * k) / 2 = k := by omega
      have e2 : (2 * k - 1) / 2 = k - 1 := by omega
      have e3 : (2 * (k ^^^ (k - 1)) + 1) / 2 = k ^^^ (k - 1) := by omega
      rw [Nat.testBit_succ, Nat.testBit_succ, Nat.xor_div_two, e1, e2, e3]
  have hx := xor_pred_ne_zero k hk
  have hlog : (2 * (k ^^^ (k - 1)) + 1).log2 = (k ^^^ (k - 1)).log2 + 1 := by
    have h2 : 2 * (k ^^^ (k - 1)) + 1 ≠ 0 := by omega
    rw [Nat.log2_eq_iff h2]
    have := (Nat.log2_eq_iff hx).mp rfl
    rw [Nat.pow_succ, Nat.pow_succ]
    omega
  rw [h, hlog, Nat.pow_succ, Nat.mul_comm]

/-- `t` is the index of the lowest set bit of `r`. -/
def IsLowestBit (r t : Nat) : Prop := r.testBit t = true ∧ ∀ i < t, r.testBit i = false

/-- **`lowBit` is `r & -r`**: for `r ≠ 0` it is `2 ^ t`, `t` the index of the lowest set
    bit of `r`. -/
theorem lowBit_spec : ∀ (r : Nat), r ≠ 0 → ∃ t, lowBit r = 2 ^ t ∧ IsLowestBit r t := by
  intro r
  induction r using Nat.strongRecOn with
  | _ r ih =>
    intro hr
    rcases Nat.mod_two_eq_zero_or_one r with h | h
    · -- even
      have hk : r / 2 ≠ 0 := by omega
      have er : r = 2 * (r / 2) := by omega
      obtain ⟨t, ht, hb, hlow⟩ := ih (r / 2) (by omega) hk
      refine ⟨t + 1, ?_, ?_, ?_⟩
      · rw [er, lowBit_even _ hk, ht, Nat.pow_succ, Nat.mul_comm]
      · rw [Nat.testBit_succ]; exact hb
      · intro i hi
        cases i with
        | zero => simp [Nat.testBit_zero, h]
        | succ i => rw [Nat.testBit_succ]; exact hlow i (by omega)
    · have er : r = 2 * (r / 2) + 1 := by omega
      refine ⟨0, ?_, ?_, ?_⟩
      · rw [er, lowBit_odd]
      · simp [Nat.testBit_zero, h]
      · intro i hi; exact absurd hi (Nat.not_lt_zero i)

theorem isLowestBit_unique {r t t' : Nat} (h : IsLowestBit r t) (h' : IsLowestBit r t') :
    t = t' := by
  rcases Nat.lt_trichotomy t t' with hlt | heq | hgt
  · have := h'.2 t hlt; rw [h.1] at this; cases this
  · exact heq
  · have := h.2 t' hgt; rw [h'.1] at this; cases this

/-- the test `row & lsb` of the elimination loop reads bit `t` of the row -/
theorem and_two_pow_ne_zero_iff (r t : Nat) : r &&& 2 ^ t ≠ 0 ↔ r.testBit t = true := by
  constructor
  · intro h
    cases hb : r.testBit t with
    | true => rfl
    | false =>
      exfalso; apply h
      apply Nat.eq_of_testBit_eq
      intro i
      rw [Nat.testBit_and, Nat.testBit_two_pow, Nat.zero_testBit]
      by_cases hti : t = i
      · subst hti; simp [hb]
      · simp [hti]
  · intro hb h
    have : (r &&& 2 ^ t).testBit t = true := by
      rw [Nat.testBit_and, Nat.testBit_two_pow_self, hb]; rfl
    rw [h, Nat.zero_testBit] at this
    cases this

theorem lt_two_pow_of_isLowestBit {r t w : Nat} (h : IsLowestBit r t) (hr : r < 2 ^ w) :
    t < w := by
  rcases Nat.lt_or_ge t w with h1 | h1
  · exact h1
  · have h2 : r < 2 ^ t := Nat.lt_of_lt_of_le hr (Nat.pow_le_pow_right (by omega) h1)
    have := Nat.testBit_lt_two_pow h2
    rw [h.1] at this; cases this

/-! ### `bvectorToInt` (big-endian) -/

/-- bit `i` of the big-endian packing of a 0/1 row is its digit `len - 1 - i`
    (digit `i` of the reversed row). -/
theorem testBit_bvectorToInt_reverse : ∀ (u : List Nat), (∀ x ∈ u, x < 2) → ∀ i,
    (bvectorToInt u.reverse).testBit i = decide (u.getD i 0 = 1) := by
  intro u
  induction u with
  | nil => intro _ i; simp [bvectorToInt]
  | cons b u ih =>
    intro h i
    have hb : b < 2 := h b (by simp)
    have ih' := ih (fun x hx => h x (by simp [hx]))
    rw [List.reverse_cons, bvectorToInt_append]
    cases i with
    | zero =>
      simp only [Nat.testBit_zero, List.getD_cons_zero]
      congr 1
      apply propext
      omega
    | succ i =>
      have e : (2 * bvectorToInt u.reverse + b) / 2 = bvectorToInt u.reverse := by omega
      rw [Nat.testBit_succ, e, ih' i]
      simp

theorem testBit_bvectorToInt (v : List Nat) (h : ∀ x ∈ v, x < 2) (i : Nat) :
    (bvectorToInt v).testBit i = decide (v.reverse.getD i 0 = 1) := by
  have := testBit_bvectorToInt_reverse v.reverse (fun x hx => h x (by simpa using hx)) i
  simpa using this

end Panqec
