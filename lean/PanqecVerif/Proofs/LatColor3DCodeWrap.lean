/-
Color3DCode: the periodic identification `% (4L)` handled once (core Lean only).

A stabilizer writes the keys `wrapAt a d = ((a + d) % m)` (componentwise, `m = (4Lx, 4Ly, 4Lz)`) for
the deltas `d` of its table.  With all periods `≥ 8` and all deltas small, two keys of two locations
`a`, `b` coincide iff `d − e` equals the CENTRED difference `cvec a b` (componentwise the integer of
absolute value `≤ 3` congruent to `b − a`, or the marker `100` if there is none).  Hence the number
of shared keys of two locations is a function `ov Δa Δb c` of the two delta tables and the centred
difference alone — a finite computation.
-/
import PanqecVerif.Proofs.ColorBase
import PanqecVerif.Model.Lattices.Color3DCode

set_option linter.unusedVariables false

namespace Panqec.Color3DCode
open Panqec.Lat2D Panqec.Color

abbrev D3 := Int × Int × Int

/-- the key written for the delta `d` at the location `(x, y, z)` -/
def wrapAt (mx my mz : Int) (x y z : Int) (d : D3) : Coord :=
  [(x + d.1) % mx, (y + d.2.1) % my, (z + d.2.2) % mz]

theorem candidates_eq (Lx Ly Lz : Nat) (x y z : Int) :
    candidates Lx Ly Lz x y z =
      (deltaOf x y z).map (wrapAt (4 * (Lx : Int)) (4 * (Ly : Int)) (4 * (Lz : Int)) x y z) := rfl

/-! ### modular arithmetic -/

theorem emod_zero_neg {x m : Int} (h : x % m = 0) : (-x) % m = 0 :=
  Int.emod_eq_zero_of_dvd (Int.dvd_neg.mpr (Int.dvd_of_emod_eq_zero h))

/-- two wrapped coordinates agree iff the offsets of the two base points agree modulo the period -/
theorem emod_bridge (a b d d' m : Int) :
    (a + d) % m = (b + d') % m ↔ (b - a) % m = (d - d') % m := by
  rw [Int.emod_eq_emod_iff_emod_sub_eq_zero, Int.emod_eq_emod_iff_emod_sub_eq_zero]
  have e : b - a - (d - d') = -(a + d - (b + d')) := by omega
  rw [e]
  constructor
  · exact emod_zero_neg
  · intro h; have := emod_zero_neg h; rwa [Int.neg_neg] at this

theorem emod_small {k m : Int} (h0 : 0 ≤ k) (h : k < m) : k % m = k := Int.emod_eq_of_lt h0 h

theorem emod_neg_small {k m : Int} (h0 : k < 0) (h : -m ≤ k) : k % m = k + m := by
  rw [← Int.add_emod_right k m]
  exact Int.emod_eq_of_lt (by omega) (by omega)

/-- the centred representative of a residue `E ∈ [0, m)`: the integer of absolute value `≤ 3`
    congruent to `E`, or `100` when there is none -/
def cen (m E : Int) : Int := if E ≤ 3 then E else if m - E ≤ 3 then E - m else 100

theorem cen_iff {m E δ : Int} (hm : 8 ≤ m) (h0 : 0 ≤ E) (h1 : E < m) (hl : -3 ≤ δ) (hu : δ ≤ 3) :
    E = δ % m ↔ cen m E = δ := by
  unfold cen
  by_cases hδ : 0 ≤ δ
  · rw [emod_small hδ (by omega)]
    by_cases h3 : E ≤ 3
    · rw [if_pos h3]
    · rw [if_neg h3]
      by_cases h4 : m - E ≤ 3
      · rw [if_pos h4]; omega
      · rw [if_neg h4]; omega
  · rw [emod_neg_small (by omega) (by omega)]
    by_cases h3 : E ≤ 3
    · rw [if_pos h3]; omega
    · rw [if_neg h3]
      by_cases h4 : m - E ≤ 3
      · rw [if_pos h4]; omega
      · rw [if_neg h4]; omega

theorem cen_range (m E : Int) (h0 : 0 ≤ E) (h1 : E < m) :
    (-3 ≤ cen m E ∧ cen m E ≤ 3) ∨ cen m E = 100 := by
  unfold cen
  by_cases h3 : E ≤ 3
  · rw [if_pos h3]; omega
  · rw [if_neg h3]
    by_cases h4 : m - E ≤ 3
    · rw [if_pos h4]; omega
    · rw [if_neg h4]; omega

/-- the centred representative is congruent to the residue modulo every divisor of the period -/
theorem cen_emod {m E k : Int} (hk : k ∣ m) (h : cen m E ≠ 100) : cen m E % k = E % k := by
  unfold cen at h ⊢
  by_cases h3 : E ≤ 3
  · rw [if_pos h3]
  · rw [if_neg h3] at h ⊢
    by_cases h4 : m - E ≤ 3
    · rw [if_pos h4]
      obtain ⟨c, rfl⟩ := hk
      rw [Int.sub_eq_add_neg, ← Int.mul_neg, Int.add_mul_emod_self_left]
    · rw [if_neg h4] at h; exact absurd rfl h

/-- centred difference of two coordinates -/
def cd (m a b : Int) : Int := cen m ((b - a) % m)

theorem cd_iff {m a b d e : Int} (hm : 8 ≤ m) (hl : -3 ≤ d - e) (hu : d - e ≤ 3) :
    (a + d) % m = (b + e) % m ↔ cd m a b = d - e := by
  rw [emod_bridge]
  exact cen_iff hm (Int.emod_nonneg _ (by omega)) (Int.emod_lt_of_pos _ (by omega)) hl hu

theorem cd_range (m a b : Int) (hm : 8 ≤ m) :
    (-3 ≤ cd m a b ∧ cd m a b ≤ 3) ∨ cd m a b = 100 :=
  cen_range _ _ (Int.emod_nonneg _ (by omega)) (Int.emod_lt_of_pos _ (by omega))

/-- `b ≡ a + cd` modulo every divisor of the period -/
theorem cd_emod {m a b k : Int} (hk : k ∣ m) (h : cd m a b ≠ 100) : b % k = (a + cd m a b) % k := by
  unfold cd at h ⊢
  rw [Int.add_emod, cen_emod hk h, Int.emod_emod_of_dvd _ hk, ← Int.add_emod]
  congr 1; omega

/-! ### keys -/

/-- all components of the delta are at most `r` in absolute value -/
def Bd (r : Int) (d : D3) : Prop :=
  -r ≤ d.1 ∧ d.1 ≤ r ∧ -r ≤ d.2.1 ∧ d.2.1 ≤ r ∧ -r ≤ d.2.2 ∧ d.2.2 ≤ r

instance (r : Int) (d : D3) : Decidable (Bd r d) := by unfold Bd; infer_instance

/-- centred difference of two locations -/
def cvec (mx my mz : Int) (ax ay az bx by' bz : Int) : D3 :=
  (cd mx ax bx, cd my ay by', cd mz az bz)

/-- does `d − e` equal the centred difference? -/
def hit (c d e : D3) : Bool :=
  (d.1 - e.1 == c.1) && (d.2.1 - e.2.1 == c.2.1) && (d.2.2 - e.2.2 == c.2.2)

theorem key_eq_iff {mx my mz : Int} (hx : 8 ≤ mx) (hy : 8 ≤ my) (hz : 8 ≤ mz)
    (ax ay az bx by' bz : Int) {d e : D3} (hd : Bd 2 d) (he : Bd 1 e) :
    wrapAt mx my mz ax ay az d = wrapAt mx my mz bx by' bz e ↔
      hit (cvec mx my mz ax ay az bx by' bz) d e = true := by
  unfold Bd at hd he
  unfold wrapAt hit cvec
  simp only [List.cons.injEq, and_true, Bool.and_eq_true, beq_iff_eq]
  rw [cd_iff hx (by omega) (by omega), cd_iff hy (by omega) (by omega),
    cd_iff hz (by omega) (by omega)]
  constructor
  · rintro ⟨h1, h2, h3⟩; exact ⟨⟨h1.symm, h2.symm⟩, h3.symm⟩
  · rintro ⟨⟨h1, h2⟩, h3⟩; exact ⟨h1.symm, h2.symm, h3.symm⟩

/-- the number of deltas of `Δa` whose key is also written by `Δb` at centred difference `c` -/
def ov (Δa Δb : List D3) (c : D3) : Nat := Δa.countP fun d => Δb.any fun e => hit c d e

theorem interCount_keys {mx my mz : Int} (hx : 8 ≤ mx) (hy : 8 ≤ my) (hz : 8 ≤ mz)
    (ax ay az bx by' bz : Int) (Δa Δb : List D3) (ha : ∀ d ∈ Δa, Bd 2 d) (hb : ∀ e ∈ Δb, Bd 1 e) :
    interCount (Δa.map (wrapAt mx my mz ax ay az)) (Δb.map (wrapAt mx my mz bx by' bz)) =
      ov Δa Δb (cvec mx my mz ax ay az bx by' bz) := by
  unfold interCount ov
  rw [List.countP_map]
  apply List.countP_congr
  intro d hd
  simp only [Function.comp, List.contains_eq_mem, List.mem_map, decide_eq_true_eq, List.any_eq_true]
  constructor
  · rintro ⟨e, he, h⟩
    exact ⟨e, he, (key_eq_iff hx hy hz ax ay az bx by' bz (ha d hd) (hb e he)).mp h.symm⟩
  · rintro ⟨e, he, h⟩
    exact ⟨e, he, ((key_eq_iff hx hy hz ax ay az bx by' bz (ha d hd) (hb e he)).mpr h).symm⟩

/-- no key in common when the two locations are far apart in some coordinate -/
theorem ov_far (Δa Δb : List D3) (c : D3) (ha : ∀ d ∈ Δa, Bd 2 d) (hb : ∀ e ∈ Δb, Bd 1 e)
    (hc : c.1 = 100 ∨ c.2.1 = 100 ∨ c.2.2 = 100) : ov Δa Δb c = 0 := by
  unfold ov
  rw [List.countP_eq_zero]
  intro d hd
  simp only [List.any_eq_true, not_exists, not_and]
  intro e he
  have h1 := ha d hd
  have h2 := hb e he
  unfold Bd at h1 h2
  unfold hit
  simp only [Bool.and_eq_true, beq_iff_eq, not_and]
  intro h3 h4
  omega

/-- the keys of one location are pairwise distinct (periods `≥ 8`, deltas of size `≤ 2`) -/
theorem nodup_keys {mx my mz : Int} (hx : 8 ≤ mx) (hy : 8 ≤ my) (hz : 8 ≤ mz) (x y z : Int)
    (Δ : List D3) (hΔ : Δ.Nodup) (hb : ∀ d ∈ Δ, Bd 2 d) : (Δ.map (wrapAt mx my mz x y z)).Nodup := by
  show List.Pairwise _ _
  rw [List.pairwise_map]
  have h2 : List.Pairwise (fun a b => a ≠ b) Δ := hΔ
  refine List.Pairwise.imp_of_mem ?_ h2
  intro d e hd he hne h
  apply hne
  have h1 := hb d hd
  have h2 := hb e he
  unfold Bd at h1 h2
  unfold wrapAt at h
  simp only [List.cons.injEq, and_true] at h
  obtain ⟨e1, e2, e3⟩ := h
  rw [emod_bridge, Int.sub_self, Int.zero_emod] at e1 e2 e3
  have f1 : d.1 - e.1 = 0 := by
    by_cases hs : 0 ≤ d.1 - e.1
    · rw [emod_small hs (by omega)] at e1; omega
    · rw [emod_neg_small (by omega) (by omega)] at e1; omega
  have f2 : d.2.1 - e.2.1 = 0 := by
    by_cases hs : 0 ≤ d.2.1 - e.2.1
    · rw [emod_small hs (by omega)] at e2; omega
    · rw [emod_neg_small (by omega) (by omega)] at e2; omega
  have f3 : d.2.2 - e.2.2 = 0 := by
    by_cases hs : 0 ≤ d.2.2 - e.2.2
    · rw [emod_small hs (by omega)] at e3; omega
    · rw [emod_neg_small (by omega) (by omega)] at e3; omega
  obtain ⟨d1, d2, d3⟩ := d
  obtain ⟨e1', e2', e3'⟩ := e
  simp only [Prod.mk.injEq]
  simp only at f1 f2 f3
  omega

end Panqec.Color3DCode
