/-
Structure of `simsOfRanges` for `method: splitting` (the `SplittingSimulation` branch of
`get_simulations`): position by position over `itertools.product(codes, error_models,
decoder_range)`, and the error rates every such simulation carries.
-/
import PanqecVerif.Proofs.SpecSims

namespace Panqec.Spec

/-- simulation `s` of the splitting method is built from the requested (code, noise, decoder)
    blocks with exactly those parameters and carries the requested rates `er`, sorted
    descending (`np.sort(error_rates)[::-1]`).  `s.decoder` is the instantiation
    `(class, params)` shared by the decoders built for the individual rates: `code`,
    `error_model` and `error_rate` are implicit constructor arguments, not `params`. -/
def BuiltSplit (er : List PV) (t : Block × Block × Block) (s : SimT) : Prop :=
  instCode t.1 = .ok s.code ∧ instNoise t.2.1 = .ok s.noise ∧
  instDecoder t.2.2 = .ok s.decoder ∧ ratesDescending er = .ok s.errorRate ∧ s.splitting = true

theorem product3_forall₂ {α α' β β' γ : Type} (P : α → α' → Prop) (Q : β → β' → Prop)
    (cs : List γ) :
    ∀ (as : List α) (as' : List α'), List.Forall₂ P as as' →
    ∀ (bs : List β) (bs' : List β'), List.Forall₂ Q bs bs' →
    List.Forall₂ (fun t t' => P t.1 t'.1 ∧ Q t.2.1 t'.2.1 ∧ t.2.2 = t'.2.2)
      (product3 as bs cs) (product3 as' bs' cs) := by
  intro as as' ha
  induction ha with
  | nil => intro bs bs' _; simp [product3]
  | @cons a a' as as' hp _ ih =>
    intro bs bs' hb
    have hrow : List.Forall₂ (fun t t' => P t.1 t'.1 ∧ Q t.2.1 t'.2.1 ∧ t.2.2 = t'.2.2)
        (bs.flatMap fun b => cs.map fun c => (a, b, c))
        (bs'.flatMap fun b => cs.map fun c => (a', b, c)) := by
      induction hb with
      | nil => simp
      | @cons b b' bs bs' hq _ ihb =>
        simp only [List.flatMap_cons]
        apply List.rel_append _ ihb
        rw [List.forall₂_map_left_iff, List.forall₂_map_right_iff]
        apply List.forall₂_same.mpr
        intro t _
        exact ⟨hp, hq, rfl⟩
    have := ih bs bs' hb
    simp only [product3, List.flatMap_cons] at this ⊢
    exact List.rel_append hrow this

/-- one instance of the loop body of the splitting branch -/
theorem buildSplit_ok (mparams : PV) (er : List PV) (t : Inst × Inst × Block) (s : SimT)
    (h : buildSplit mparams er t = .ok s) :
    s.code = t.1 ∧ s.noise = t.2.1 ∧ instDecoder t.2.2 = .ok s.decoder ∧
      ratesDescending er = .ok s.errorRate ∧ s.splitting = true := by
  unfold buildSplit at h
  cases hd : instDecoder t.2.2 with
  | error e => rw [hd] at h; cases h
  | ok dec =>
    rw [hd] at h
    cases hm : splittingParamsOk mparams with
    | error e => rw [hm] at h; cases h
    | ok u =>
      rw [hm] at h
      cases hr : ratesDescending er with
      | error e => rw [hr] at h; cases h
      | ok rates =>
        rw [hr] at h
        cases h
        exact ⟨rfl, rfl, rfl, rfl, rfl⟩

/-- `method = splitting`: the simulations are, position by position, built from the elements of
    `product3 codes noises decoders` -/
theorem simsOfRanges_splitting_spec (r : Ranges) (p : PV) (sims : List SimT)
    (hm : methodOf r = .ok ("splitting", p)) (h : simsOfRanges r = .ok sims)
    (cr nr dr : List Block) (er : List PV) (hp : parseAllRanges r = .ok (cr, nr, dr, er)) :
    List.Forall₂ (BuiltSplit er) (product3 cr nr dr) sims := by
  unfold simsOfRanges at h
  rw [hp] at h
  simp only at h
  cases hc : mapE instCode cr with
  | error e => rw [hc] at h; cases h
  | ok codes =>
    rw [hc] at h
    simp only at h
    cases hn : mapE instNoise nr with
    | error e => rw [hn] at h; cases h
    | ok noises =>
      rw [hn, hm] at h
      simp only at h
      have hne : ("splitting" == "direct") = false := by decide
      rw [hne] at h
      simp only [Bool.false_eq_true, if_false, beq_self_eq_true, if_true] at h
      have hcodes := (mapE_ok_iff instCode cr codes).mp hc
      have hnoises := (mapE_ok_iff instNoise nr noises).mp hn
      have hprod := product3_forall₂ (fun a b => instCode a = .ok b) (fun a b => instNoise a = .ok b)
        dr cr codes hcodes nr noises hnoises
      have h2 := (mapE_ok_iff _ _ _).mp h
      have h3 := forall₂_comp hprod h2
      apply h3.imp
      intro t s ⟨t', ⟨h1, h2', h3'⟩, hs⟩
      have := buildSplit_ok p er t' s hs
      refine ⟨?_, ?_, ?_, this.2.2.2.1, this.2.2.2.2⟩
      · rw [this.1]; exact h1
      · rw [this.2.1]; exact h2'
      · rw [h3']; exact this.2.2.1

/-- what `ratesDescending` returns: the requested rates (as exact numbers), all of them, each
    as often as requested, in non-increasing order -/
theorem ratesDescending_spec (er : List PV) (v : PV) (h : ratesDescending er = .ok v) :
    ∃ qs sorted : List Rat, er.mapM PV.toRat? = some qs ∧ v = .list (sorted.map PV.num) ∧
      sorted.Perm qs ∧ sorted.Pairwise (fun a b => b ≤ a) := by
  unfold ratesDescending at h
  cases hq : er.mapM PV.toRat? with
  | none => rw [hq] at h; cases h
  | some qs =>
    rw [hq] at h
    cases h
    refine ⟨qs, _, rfl, rfl, List.mergeSort_perm _ _, ?_⟩
    have := List.pairwise_mergeSort (le := fun a b : Rat => decide (b ≤ a))
      (fun a b c hab hbc => by
        simp only [decide_eq_true_eq] at hab hbc ⊢
        exact Rat.le_trans hbc hab)
      (fun a b => by
        simp only [Bool.or_eq_true, decide_eq_true_eq]
        exact Rat.le_total)
      qs
    exact this.imp (fun h => by simpa using h)

end Panqec.Spec
