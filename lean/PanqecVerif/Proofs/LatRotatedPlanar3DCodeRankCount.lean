/-
RotatedPlanar3DCode lattice model: the selected generators of `Proofs/LatRotatedPlanar3DCodeRank.lean`
(all vertices, the horizontal faces of the layer `z = 1`, all vertical faces) are exactly `n − k = n − 1`
in number, for every size `Lx, Ly, Lz ≥ 1`: one layer of the rotated planar code has
`V + F = Lx·Ly − 1` vertices and faces.
-/
import Mathlib.Tactic.Ring
import PanqecVerif.Proofs.Lat3DbCount
import PanqecVerif.Proofs.LatRotatedPlanar3DCode6
import PanqecVerif.Proofs.LatRotatedPlanar3DCodeRank
open Panqec Panqec.Lat3Db
namespace Panqec.RotatedPlanar3DCode

theorem sum_alternating (A B : Nat) : ∀ m,
    ((List.range m).map fun i => if i % 2 = 0 then A else B).sum = ((m + 1) / 2) * A + (m / 2) * B := by
  intro m
  induction m with
  | zero => simp
  | succ m ih =>
    rw [List.range_succ, List.map_append, List.sum_append, ih]
    simp only [List.map_cons, List.map_nil, List.sum_cons, List.sum_nil, Nat.add_zero]
    have hm : ∃ t, m = 2 * t ∨ m = 2 * t + 1 := ⟨m / 2, by omega⟩
    obtain ⟨t, ht | ht⟩ := hm
    · subst ht
      have e1 : (2 * t + 1) / 2 = t := by omega
      have e2 : (2 * t) / 2 = t := by omega
      have e3 : (2 * t + 1 + 1) / 2 = t + 1 := by omega
      have e4 : (2 * t) % 2 = 0 := by omega
      rw [e1, e2, e3]; simp only [e4, if_true]
      rw [Nat.add_mul]; omega
    · subst ht
      have e1 : (2 * t + 1 + 1) / 2 = t + 1 := by omega
      have e2 : (2 * t + 1) / 2 = t := by omega
      have e3 : (2 * t + 1 + 1 + 1) / 2 = t + 1 := by omega
      have e4 : ¬ (2 * t + 1) % 2 = 0 := by omega
      rw [e1, e2, e3]; simp only [e4, if_false]
      rw [Nat.add_mul, Nat.add_mul]; omega

/-- number of `y` in `range(2, 2*Ly, 2)` with `(x + y) % 4 = 0`, for even `x` -/
theorem countP_mod4_face (Ly : Nat) (x : Int) (hx : x % 2 = 0) :
    (pyRange2 2 (2*Ly)).countP (fun y => (x + y) % 4 == 0) =
      if x % 4 = 2 then Ly / 2 else (Ly - 1) / 2 := by
  rw [pyRange2_eq_map, List.countP_map]
  have hlen : (2 * Ly + 1 - 2) / 2 = Ly - 1 := by omega
  rw [hlen]
  by_cases h : x % 4 = 2
  · simp only [h, if_true]
    rw [List.countP_congr (q := fun j => j % 2 == 0), countP_even_range]
    · omega
    · intro j _; simp only [Function.comp, beq_iff_eq]; omega
  · simp only [h, if_false]
    rw [List.countP_congr (q := fun j => j % 2 == 1), countP_odd_range]
    intro j _; simp only [Function.comp, beq_iff_eq]; omega

/-- number of horizontal-face positions in one layer -/
theorem cnt2_faces (Lx Ly : Nat) :
    cnt2 (pyRange2 0 (2*Lx+1)) (pyRange2 2 (2*Ly)) (fun x y => (x + y) % 4 == 0) =
      (Lx / 2 + 1) * ((Ly - 1) / 2) + ((Lx + 1) / 2) * (Ly / 2) := by
  unfold cnt2
  rw [pyRange2_eq_map 0 (2*Lx+1), List.map_map]
  have hlen : (2 * Lx + 1 + 1 - 0) / 2 = Lx + 1 := by omega
  rw [hlen]
  have hf : ∀ i ∈ List.range (Lx + 1),
      ((fun x => (pyRange2 2 (2*Ly)).countP (fun y => (x + y) % 4 == 0)) ∘
        fun i => ((0 + 2 * i : Nat) : Int)) i
        = if i % 2 = 0 then (Ly - 1) / 2 else Ly / 2 := by
    intro i _
    simp only [Function.comp]
    rw [countP_mod4_face Ly _ (by omega)]
    by_cases h : i % 2 = 0
    · have : ¬ ((0 + 2 * i : Nat) : Int) % 4 = 2 := by omega
      rw [if_neg this, if_pos h]
    · have : ((0 + 2 * i : Nat) : Int) % 4 = 2 := by omega
      rw [if_pos this, if_neg h]
  rw [List.map_congr_left hf, sum_alternating]
  have : (Lx + 1 + 1) / 2 = Lx / 2 + 1 := by omega
  rw [this]

/-- one layer of the rotated planar code: vertices + faces + 1 = qubits -/
theorem layer_count (Lx Ly : Nat) (hx : 1 ≤ Lx) (hy : 1 ≤ Ly) :
    (Lx / 2) * (Ly / 2 + 1) + ((Lx - 1) / 2) * ((Ly + 1) / 2) +
      ((Lx / 2 + 1) * ((Ly - 1) / 2) + ((Lx + 1) / 2) * (Ly / 2)) + 1 = Lx * Ly := by
  obtain ⟨a, ha⟩ : ∃ a, Lx = 2 * a + 1 ∨ Lx = 2 * a + 2 := ⟨(Lx - 1) / 2, by omega⟩
  obtain ⟨b, hb⟩ : ∃ b, Ly = 2 * b + 1 ∨ Ly = 2 * b + 2 := ⟨(Ly - 1) / 2, by omega⟩
  rcases ha with rfl | rfl <;> rcases hb with rfl | rfl
  · have e1 : (2 * a + 1) / 2 = a := by omega
    have e2 : (2 * a + 1 - 1) / 2 = a := by omega
    have e3 : (2 * a + 1 + 1) / 2 = a + 1 := by omega
    have f1 : (2 * b + 1) / 2 = b := by omega
    have f2 : (2 * b + 1 - 1) / 2 = b := by omega
    have f3 : (2 * b + 1 + 1) / 2 = b + 1 := by omega
    rw [e1, e2, e3, f1, f2, f3]; ring
  · have e1 : (2 * a + 1) / 2 = a := by omega
    have e2 : (2 * a + 1 - 1) / 2 = a := by omega
    have e3 : (2 * a + 1 + 1) / 2 = a + 1 := by omega
    have f1 : (2 * b + 2) / 2 = b + 1 := by omega
    have f2 : (2 * b + 2 - 1) / 2 = b := by omega
    have f3 : (2 * b + 2 + 1) / 2 = b + 1 := by omega
    rw [e1, e2, e3, f1, f2, f3]; ring
  · have e1 : (2 * a + 2) / 2 = a + 1 := by omega
    have e2 : (2 * a + 2 - 1) / 2 = a := by omega
    have e3 : (2 * a + 2 + 1) / 2 = a + 1 := by omega
    have f1 : (2 * b + 1) / 2 = b := by omega
    have f2 : (2 * b + 1 - 1) / 2 = b := by omega
    have f3 : (2 * b + 1 + 1) / 2 = b + 1 := by omega
    rw [e1, e2, e3, f1, f2, f3]; ring
  · have e1 : (2 * a + 2) / 2 = a + 1 := by omega
    have e2 : (2 * a + 2 - 1) / 2 = a := by omega
    have e3 : (2 * a + 2 + 1) / 2 = a + 1 := by omega
    have f1 : (2 * b + 2) / 2 = b + 1 := by omega
    have f2 : (2 * b + 2 - 1) / 2 = b := by omega
    have f3 : (2 * b + 2 + 1) / 2 = b + 1 := by omega
    rw [e1, e2, e3, f1, f2, f3]; ring

theorem length_selStabs (Lx Ly Lz : Nat) :
    (selStabs Lx Ly Lz).length =
      ((Lx / 2) * (Ly / 2 + 1) + ((Lx - 1) / 2) * ((Ly + 1) / 2)) * Lz +
      ((Lx / 2 + 1) * ((Ly - 1) / 2) + ((Lx + 1) / 2) * (Ly / 2)) +
      Lx * Ly * (Lz - 1) := by
  unfold selStabs
  rw [List.length_append, List.length_append, length_grid3_true, length_grid3_xy, length_grid3_xy,
    cnt2_checker, cnt2_faces]
  simp only [length_pyRange2]
  have e1 : (2 * Lx + 1 + 1 - 1) / 2 = Lx := by omega
  have e2 : (2 * Ly + 1 - 1) / 2 = Ly := by omega
  have e3 : (2 * Lz + 1 - 1) / 2 = Lz := by omega
  have e4 : (2 * Lz + 1 - 2) / 2 = Lz - 1 := by omega
  have e5 : (2 + 1 - 1) / 2 = 1 := by omega
  rw [e1, e2, e3, e4, e5, Nat.mul_one]

/-- the selected generators are `n − k = n − 1` in number -/
theorem selStabs_count (Lx Ly Lz : Nat) (hx : 1 ≤ Lx) (hy : 1 ≤ Ly) (hz : 1 ≤ Lz) :
    (selStabs Lx Ly Lz).length + 1 = (qubits Lx Ly Lz).length := by
  rw [length_selStabs, length_qubits]
  have hl := layer_count Lx Ly hx hy
  obtain ⟨m, rfl⟩ : ∃ m, Lz = m + 1 := ⟨Lz - 1, by omega⟩
  generalize (Lx / 2) * (Ly / 2 + 1) + ((Lx - 1) / 2) * ((Ly + 1) / 2) = V at hl ⊢
  generalize (Lx / 2 + 1) * ((Ly - 1) / 2) + ((Lx + 1) / 2) * (Ly / 2) = F at hl ⊢
  rw [← hl]
  simp only [Nat.add_sub_cancel]
  ring

end Panqec.RotatedPlanar3DCode
