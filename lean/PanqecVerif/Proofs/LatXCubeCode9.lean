/-
XCubeCode lattice model: assembly of `Lattice.CommPair` and `Lattice.WF`, counts of qubits and
logical operators, closed forms of `qubit_axis` / `get_deformation`; sizes ≥ 2.
-/
import PanqecVerif.Proofs.LatXCubeCode8
open Panqec Panqec.Lat3Db
namespace Panqec.XCubeCode

/-! ### every logical operator is a constant-letter operator on a distinct key list of qubits -/

theorem R0_of_E (L : Nat) (t : Int) (h : t ∈ pyRange2 0 (2*L)) : R0 (2*L) t := (mem_pyRange2_0 _ _).mp h
theorem R0_of_E2 (L : Nat) (t : Int) (h : t ∈ pyRange2 2 (2*L)) : R0 (2*L) t := by
  rw [mem_pyRange2_2] at h; unfold R2 at h; unfold R0; omega

theorem logX_cases (Lx Ly Lz : Nat) (a : Op) (ha : a ∈ logX Lx Ly Lz) :
    ∃ K, IsLogXKeys Lx Ly Lz K ∧ K.Nodup ∧ a = constOp K Pauli.X := by
  rw [logX_eq] at ha
  simp only [List.mem_append, List.mem_map] at ha
  rcases ha with ((((⟨t, _, rfl⟩ | ⟨t, _, rfl⟩) | ⟨t, _, rfl⟩) | ⟨t, _, rfl⟩) | ⟨t, _, rfl⟩) | ⟨t, _, rfl⟩
  · exact ⟨_, Or.inl ⟨t, rfl⟩, nodup_kXA1 Lz t, rfl⟩
  · exact ⟨_, Or.inr (Or.inl ⟨t, rfl⟩), nodup_kXA2 Ly t, rfl⟩
  · exact ⟨_, Or.inr (Or.inr (Or.inl ⟨t, rfl⟩)), nodup_kXB1 Lz t, rfl⟩
  · exact ⟨_, Or.inr (Or.inr (Or.inr (Or.inl ⟨t, rfl⟩))), nodup_kXB2 Lx t, rfl⟩
  · exact ⟨_, Or.inr (Or.inr (Or.inr (Or.inr (Or.inl ⟨t, rfl⟩)))), nodup_kXC1 Ly t, rfl⟩
  · exact ⟨_, Or.inr (Or.inr (Or.inr (Or.inr (Or.inr ⟨t, rfl⟩)))), nodup_kXC2 Lx t, rfl⟩

theorem logZ_cases (Lx Ly Lz : Nat) (a : Op) (ha : a ∈ logZ Lx Ly Lz) :
    ∃ K, IsLogZKeys Lx Ly Lz K ∧ K.Nodup ∧ a = constOp K Pauli.Z := by
  rw [logZ_eq] at ha
  simp only [List.mem_append, List.mem_map] at ha
  rcases ha with ((((⟨t, ht, rfl⟩ | ⟨t, ht, rfl⟩) | ⟨t, ht, rfl⟩) | ⟨t, ht, rfl⟩) | ⟨t, ht, rfl⟩) | ⟨t, ht, rfl⟩
  · exact ⟨_, Or.inl ⟨t, even_of_E _ _ ht, rfl⟩, nodup_kZA1 Lx t, rfl⟩
  · exact ⟨_, Or.inr (Or.inl ⟨t, even_of_E2 _ _ ht, rfl⟩), nodup_kZA2 Lx t (ne_zero_of_R2 _ _ ht), rfl⟩
  · exact ⟨_, Or.inr (Or.inr (Or.inl ⟨t, even_of_E _ _ ht, rfl⟩)), nodup_kZB1 Ly t, rfl⟩
  · exact ⟨_, Or.inr (Or.inr (Or.inr (Or.inl ⟨t, even_of_E2 _ _ ht, rfl⟩))),
      nodup_kZB2 Ly t (ne_zero_of_R2 _ _ ht), rfl⟩
  · exact ⟨_, Or.inr (Or.inr (Or.inr (Or.inr (Or.inl ⟨t, even_of_E _ _ ht, rfl⟩)))), nodup_kZC1 Lz t, rfl⟩
  · exact ⟨_, Or.inr (Or.inr (Or.inr (Or.inr (Or.inr ⟨t, even_of_E2 _ _ ht, rfl⟩)))),
      nodup_kZC2 Lz t (ne_zero_of_R2 _ _ ht), rfl⟩

theorem commPair (Lx Ly Lz : Nat) (hx : 2 ≤ Lx) (hy : 2 ≤ Ly) (hz : 2 ≤ Lz) :
    (lattice Lx Ly Lz).CommPair := by
  have pt := pairTable Lx Ly Lz (by omega) (by omega) (by omega)
  refine ⟨?_, ?_, ?_, pt.1, pt.2, ?_, ?_⟩
  · intro s hs t ht; exact stab_comm hx hy hz s t hs ht
  · intro a ha s hs
    obtain ⟨K, hK, hn, rfl⟩ := logX_cases Lx Ly Lz a ha
    change opCommute _ (getStab Lx Ly Lz s) = true
    rcases getStab_cases hx hy hz s hs with ⟨k, hk, e⟩ | ⟨k, hk, e⟩ <;> rw [e]
    · exact opCommute_of_ovl_even' _ _ _ _ hn (hk.nodup hx hy hz) (logX_cube_even Lx Ly Lz K k hK hk)
    · exact opCommute_constOp_same _ _ _
  · intro a ha s hs
    obtain ⟨K, hK, hn, rfl⟩ := logZ_cases Lx Ly Lz a ha
    change opCommute _ (getStab Lx Ly Lz s) = true
    rcases getStab_cases hx hy hz s hs with ⟨k, hk, e⟩ | ⟨k, hk, e⟩ <;> rw [e]
    · exact opCommute_constOp_same _ _ _
    · exact opCommute_of_ovl_even' _ _ _ _ hn (hk.nodup hx hy hz) (logZ_face_even Lx Ly Lz K k hK hk)
  · intro a ha b hb
    obtain ⟨K, _, _, rfl⟩ := logX_cases Lx Ly Lz a ha
    obtain ⟨K', _, _, rfl⟩ := logX_cases Lx Ly Lz b hb
    exact opCommute_constOp_same _ _ _
  · intro a ha b hb
    obtain ⟨K, _, _, rfl⟩ := logZ_cases Lx Ly Lz a ha
    obtain ⟨K', _, _, rfl⟩ := logZ_cases Lx Ly Lz b hb
    exact opCommute_constOp_same _ _ _

/-! ### well-formedness -/

theorem nodup_qubits (Lx Ly Lz : Nat) : (qubits Lx Ly Lz).Nodup := by
  unfold qubits
  rw [List.nodup_append, List.nodup_append]
  refine ⟨⟨nodup_grid3 _ _ _ _ (nodup_pyRange2 _ _) (nodup_pyRange2 _ _) (nodup_pyRange2 _ _),
    nodup_grid3 _ _ _ _ (nodup_pyRange2 _ _) (nodup_pyRange2 _ _) (nodup_pyRange2 _ _), ?_⟩,
    nodup_grid3 _ _ _ _ (nodup_pyRange2 _ _) (nodup_pyRange2 _ _) (nodup_pyRange2 _ _), ?_⟩
  · intro a ha b hb hab
    subst hab
    rw [mem_grid3] at ha hb
    obtain ⟨x, y, z, rfl, hx, _⟩ := ha
    obtain ⟨x', y', z', h, hx', _⟩ := hb
    simp only [List.cons.injEq, and_true] at h
    obtain ⟨rfl, rfl, rfl⟩ := h
    have := odd_of_O _ _ hx; have := even_of_E _ _ hx'; omega
  · intro a ha b hb hab
    subst hab
    rw [List.mem_append, mem_grid3, mem_grid3] at ha
    rw [mem_grid3] at hb
    obtain ⟨x', y', z', rfl, _, _, hz', _⟩ := hb
    have := odd_of_O _ _ hz'
    rcases ha with ⟨x, y, z, h, _, _, hz, _⟩ | ⟨x, y, z, h, _, _, hz, _⟩ <;>
    · simp only [List.cons.injEq, and_true] at h
      obtain ⟨rfl, rfl, rfl⟩ := h
      have := even_of_E _ _ hz; omega

theorem nodup_stabs (Lx Ly Lz : Nat) : (stabs Lx Ly Lz).Nodup := by
  unfold stabs
  have hg := nodup_grid3 (pyRange2 0 (2*Lx)) (pyRange2 0 (2*Ly)) (pyRange2 0 (2*Lz)) allTrue
    (nodup_pyRange2 _ _) (nodup_pyRange2 _ _) (nodup_pyRange2 _ _)
  rw [List.nodup_append]
  refine ⟨nodup_grid3 _ _ _ _ (nodup_pyRange2 _ _) (nodup_pyRange2 _ _) (nodup_pyRange2 _ _), ?_, ?_⟩
  · rw [List.nodup_flatMap]
    refine ⟨fun ax _ => hg.map (fun a b h => by simpa using h), ?_⟩
    have : ([0, 1, 2] : List Int).Nodup := by decide
    refine List.Pairwise.imp_of_mem ?_ this
    intro a b _ _ hab
    simp only [Function.onFun, List.Disjoint, List.mem_map]
    rintro c ⟨d, _, rfl⟩ ⟨d', _, h⟩
    simp only [List.cons.injEq] at h
    exact hab h.1.symm
  · intro a ha b hb hab
    subst hab
    rw [mem_grid3] at ha
    obtain ⟨x, y, z, rfl, _⟩ := ha
    simp only [List.mem_flatMap, List.mem_map] at hb
    obtain ⟨ax, _, c, hc, h⟩ := hb
    rw [mem_grid3] at hc
    obtain ⟨x', y', z', rfl, _⟩ := hc
    simp at h

theorem qubits_not_stabs (Lx Ly Lz : Nat) (q : Coord) (hq : q ∈ qubits Lx Ly Lz) : q ∉ stabs Lx Ly Lz := by
  obtain ⟨x, y, z, rfl⟩ := mem_qubits_shape Lx Ly Lz q hq
  rw [mem_qubits_iff] at hq
  rw [mem_stabs_cube]
  unfold QX QY QZ R0 R1 at hq
  unfold SC R1
  omega

theorem mem_qubits_of_isQubit (Lx Ly Lz : Nat) (q : Coord) (h : isQubit Lx Ly Lz q = true) : q ∈ qubits Lx Ly Lz :=
  List.contains_iff_mem.mp h

theorem IsCubeKeys.qubits {Lx Ly Lz : Nat} {k : List Coord} (h : IsCubeKeys Lx Ly Lz k) :
    ∀ q ∈ k, q ∈ qubits Lx Ly Lz := by
  obtain ⟨x, y, z, hc, rfl⟩ := h
  exact fun q hq => mem_qubits_of_isQubit _ _ _ _ (cubeLocs_qubits Lx Ly Lz x y z hc q hq)

theorem IsFaceKeys.qubits {Lx Ly Lz : Nat} {k : List Coord} (h : IsFaceKeys Lx Ly Lz k) :
    ∀ q ∈ k, q ∈ qubits Lx Ly Lz := by
  obtain ⟨x, y, z, hv, rfl | rfl | rfl⟩ := h
  · exact fun q hq => mem_qubits_of_isQubit _ _ _ _ (faceLocsX_qubits Lx Ly Lz x y z hv q hq)
  · exact fun q hq => mem_qubits_of_isQubit _ _ _ _ (faceLocsY_qubits Lx Ly Lz x y z hv q hq)
  · exact fun q hq => mem_qubits_of_isQubit _ _ _ _ (faceLocsZ_qubits Lx Ly Lz x y z hv q hq)

theorem IsCubeKeys.ne_nil {Lx Ly Lz : Nat} {k : List Coord} (h : IsCubeKeys Lx Ly Lz k) : k ≠ [] := by
  obtain ⟨x, y, z, _, rfl⟩ := h; simp [cubeLocs]

theorem IsFaceKeys.ne_nil {Lx Ly Lz : Nat} {k : List Coord} (h : IsFaceKeys Lx Ly Lz k) : k ≠ [] := by
  obtain ⟨x, y, z, _, rfl | rfl | rfl⟩ := h <;> simp [faceLocsX, faceLocsY, faceLocsZ]

theorem logXKeys_qubits (Lx Ly Lz : Nat) (hx : 1 ≤ Lx) (hy : 1 ≤ Ly) (hz : 1 ≤ Lz) (K : List Coord)
    (a : Op) (ha : a ∈ logX Lx Ly Lz) (hK : a = constOp K Pauli.X) : ∀ q ∈ K, q ∈ qubits Lx Ly Lz := by
  have inj : ∀ K K' : List Coord, constOp K Pauli.X = constOp K' Pauli.X → K = K' := by
    intro K K' h
    have := congrArg (List.map Prod.fst) h
    rwa [keys_constOp, keys_constOp] at this
  rw [logX_eq] at ha
  simp only [List.mem_append, List.mem_map] at ha
  have one1 : ∀ L : Nat, 1 ≤ L → R1 (2*L) 1 := fun L h => by unfold R1; omega
  rcases ha with ((((⟨t, ht, rfl⟩ | ⟨t, ht, rfl⟩) | ⟨t, ht, rfl⟩) | ⟨t, ht, rfl⟩) | ⟨t, ht, rfl⟩) | ⟨t, ht, rfl⟩ <;>
    (rw [← inj _ _ hK]; intro q hq; simp only [kXA1, kXA2, kXB1, kXB2, kXC1, kXC2, List.mem_map] at hq
     obtain ⟨s, hs, rfl⟩ := hq; rw [mem_qubits_iff]; unfold QX QY QZ)
  · exact Or.inl ⟨one1 Lx hx, R0_of_E _ _ ht, R0_of_E _ _ hs⟩
  · exact Or.inl ⟨one1 Lx hx, R0_of_E _ _ hs, R0_of_E2 _ _ ht⟩
  · exact Or.inr (Or.inl ⟨R0_of_E _ _ ht, one1 Ly hy, R0_of_E _ _ hs⟩)
  · exact Or.inr (Or.inl ⟨R0_of_E _ _ hs, one1 Ly hy, R0_of_E2 _ _ ht⟩)
  · exact Or.inr (Or.inr ⟨R0_of_E _ _ ht, R0_of_E _ _ hs, one1 Lz hz⟩)
  · exact Or.inr (Or.inr ⟨R0_of_E _ _ hs, R0_of_E2 _ _ ht, one1 Lz hz⟩)

theorem logZKeys_qubits (Lx Ly Lz : Nat) (hx : 1 ≤ Lx) (hy : 1 ≤ Ly) (hz : 1 ≤ Lz) (K : List Coord)
    (a : Op) (ha : a ∈ logZ Lx Ly Lz) (hK : a = constOp K Pauli.Z) : ∀ q ∈ K, q ∈ qubits Lx Ly Lz := by
  have inj : ∀ K K' : List Coord, constOp K Pauli.Z = constOp K' Pauli.Z → K = K' := by
    intro K K' h
    have := congrArg (List.map Prod.fst) h
    rwa [keys_constOp, keys_constOp] at this
  rw [logZ_eq] at ha
  simp only [List.mem_append, List.mem_map] at ha
  have mq : ∀ x y z : Int, (QX Lx Ly Lz x y z ∨ QY Lx Ly Lz x y z ∨ QZ Lx Ly Lz x y z) → [x, y, z] ∈ qubits Lx Ly Lz :=
    fun x y z h => (mem_qubits_iff Lx Ly Lz x y z).mpr h
  have z0 : ∀ L : Nat, 1 ≤ L → R0 (2*L) 0 := fun L h => by unfold R0; omega
  have r1 : ∀ (L : Nat) (s : Int), s ∈ pyRange2 1 (2*L) → R1 (2*L) s := fun L s h => (mem_pyRange2_1 _ _).mp h
  rcases ha with ((((⟨t, ht, rfl⟩ | ⟨t, ht, rfl⟩) | ⟨t, ht, rfl⟩) | ⟨t, ht, rfl⟩) | ⟨t, ht, rfl⟩) | ⟨t, ht, rfl⟩ <;>
    (rw [← inj _ _ hK]; intro q hq
     simp only [kZA1, kZA2, kZB1, kZB2, kZC1, kZC2, List.mem_append, List.mem_map] at hq)
  · obtain ⟨s, hs, rfl⟩ := hq
    exact mq _ _ _ (Or.inl ⟨r1 _ _ hs, R0_of_E _ _ ht, z0 Lz hz⟩)
  · rcases hq with ⟨s, hs, rfl⟩ | ⟨s, hs, rfl⟩
    · exact mq _ _ _ (Or.inl ⟨r1 _ _ hs, z0 Ly hy, z0 Lz hz⟩)
    · exact mq _ _ _ (Or.inl ⟨r1 _ _ hs, z0 Ly hy, R0_of_E2 _ _ ht⟩)
  · obtain ⟨s, hs, rfl⟩ := hq
    exact mq _ _ _ (Or.inr (Or.inl ⟨R0_of_E _ _ ht, r1 _ _ hs, z0 Lz hz⟩))
  · rcases hq with ⟨s, hs, rfl⟩ | ⟨s, hs, rfl⟩
    · exact mq _ _ _ (Or.inr (Or.inl ⟨z0 Lx hx, r1 _ _ hs, z0 Lz hz⟩))
    · exact mq _ _ _ (Or.inr (Or.inl ⟨z0 Lx hx, r1 _ _ hs, R0_of_E2 _ _ ht⟩))
  · obtain ⟨s, hs, rfl⟩ := hq
    exact mq _ _ _ (Or.inr (Or.inr ⟨R0_of_E _ _ ht, z0 Ly hy, r1 _ _ hs⟩))
  · rcases hq with ⟨s, hs, rfl⟩ | ⟨s, hs, rfl⟩
    · exact mq _ _ _ (Or.inr (Or.inr ⟨z0 Lx hx, z0 Ly hy, r1 _ _ hs⟩))
    · exact mq _ _ _ (Or.inr (Or.inr ⟨z0 Lx hx, R0_of_E2 _ _ ht, r1 _ _ hs⟩))

theorem constOp_ne_nil {k : List Coord} (p : Pauli) (h : k ≠ []) : constOp k p ≠ [] := by
  unfold constOp; simpa using h

theorem wf (Lx Ly Lz : Nat) (hx : 2 ≤ Lx) (hy : 2 ≤ Ly) (hz : 2 ≤ Lz) : (lattice Lx Ly Lz).WF := by
  refine ⟨nodup_qubits Lx Ly Lz, nodup_stabs Lx Ly Lz, qubits_not_stabs Lx Ly Lz, ?_, ?_, ?_, ?_, ?_⟩
  · intro s hs
    show ((getStab Lx Ly Lz s).map Prod.fst).Nodup
    rcases getStab_cases hx hy hz s hs with ⟨k, hk, e⟩ | ⟨k, hk, e⟩ <;>
      (rw [e, keys_constOp]; exact hk.nodup hx hy hz)
  · intro s hs e he
    change e ∈ getStab Lx Ly Lz s at he
    rcases getStab_cases hx hy hz s hs with ⟨k, hk, eq⟩ | ⟨k, hk, eq⟩ <;>
      (rw [eq, mem_constOp] at he; exact ⟨hk.qubits _ he.1, by rw [he.2]; decide⟩)
  · intro s hs
    show getStab Lx Ly Lz s ≠ []
    rcases getStab_cases hx hy hz s hs with ⟨k, hk, eq⟩ | ⟨k, hk, eq⟩ <;>
      (rw [eq]; exact constOp_ne_nil _ hk.ne_nil)
  · intro a ha
    rcases List.mem_append.mp ha with h | h
    · obtain ⟨K, _, hn, rfl⟩ := logX_cases Lx Ly Lz a h
      rw [keys_constOp]; exact hn
    · obtain ⟨K, _, hn, rfl⟩ := logZ_cases Lx Ly Lz a h
      rw [keys_constOp]; exact hn
  · intro a ha e he
    rcases List.mem_append.mp ha with h | h
    · obtain ⟨K, _, _, hK⟩ := logX_cases Lx Ly Lz a h
      have := logXKeys_qubits Lx Ly Lz (by omega) (by omega) (by omega) K a h hK
      rw [hK, mem_constOp] at he
      exact ⟨this _ he.1, by rw [he.2]; decide⟩
    · obtain ⟨K, _, _, hK⟩ := logZ_cases Lx Ly Lz a h
      have := logZKeys_qubits Lx Ly Lz (by omega) (by omega) (by omega) K a h hK
      rw [hK, mem_constOp] at he
      exact ⟨this _ he.1, by rw [he.2]; decide⟩

/-! ### counts -/

theorem length_qubits (Lx Ly Lz : Nat) : (qubits Lx Ly Lz).length = 3 * (Lx * Ly * Lz) := by
  unfold qubits allTrue
  simp only [List.length_append, length_grid3_true, length_pyRange2]
  have e1 : ∀ L : Nat, (2 * L + 1 - 1) / 2 = L := fun L => by omega
  have e0 : ∀ L : Nat, (2 * L + 1 - 0) / 2 = L := fun L => by omega
  simp only [e1, e0]
  omega

theorem length_logX (Lx Ly Lz : Nat) (hx : 1 ≤ Lx) (hy : 1 ≤ Ly) (hz : 1 ≤ Lz) :
    (logX Lx Ly Lz).length = 2 * (Lx + Ly + Lz) - 3 := by
  unfold logX
  simp only [List.length_append, List.length_map, length_pyRange2]
  omega

/-! ### qubit_axis and get_deformation -/

theorem qubitAxis_qubit (Lx Ly Lz : Nat) (x y z : Int) (h : [x, y, z] ∈ qubits Lx Ly Lz) :
    qubitAxis [x, y, z] = some (if x % 2 = 1 then "x" else if y % 2 = 1 then "y" else "z") := by
  rw [mem_qubits_iff] at h
  unfold QX QY QZ R0 R1 at h
  unfold qubitAxis
  rcases h with h | h | h
  · have h1 : x % 2 = 1 := h.1.1
    have h2 : y % 2 = 0 := h.2.1.1
    have h3 : z % 2 = 0 := h.2.2.1
    simp [h1, h2, h3]
  · have h1 : x % 2 = 0 := h.1.1
    have h2 : y % 2 = 1 := h.2.1.1
    have h3 : z % 2 = 0 := h.2.2.1
    simp [h1, h2, h3]
  · have h1 : x % 2 = 0 := h.1.1
    have h2 : y % 2 = 0 := h.2.1.1
    have h3 : z % 2 = 1 := h.2.2.1
    simp [h1, h2, h3]

theorem getDeformationAt_rule (name axis : String) (loc : Coord) :
    getDeformationAt name axis loc =
      if axis ≠ "x" ∧ axis ≠ "y" ∧ axis ≠ "z" then none
      else if name ≠ "XZZX" then none
      else (qubitAxis loc).map fun a => if a = axis then PauliMap.swapXZ else PauliMap.id := by
  unfold getDeformationAt
  by_cases hax : axis = "x" ∨ axis = "y" ∨ axis = "z"
  · have h1 : (["x", "y", "z"].contains axis) = true := by
      rcases hax with h | h | h <;> subst h <;> decide
    have h2 : ¬ (axis ≠ "x" ∧ axis ≠ "y" ∧ axis ≠ "z") := by
      rcases hax with h | h | h <;> simp [h]
    simp only [h1, h2, Bool.not_true, Bool.false_eq_true, if_false]
    by_cases hn : name = "XZZX"
    · subst hn
      simp only [beq_self_eq_true, if_true, ne_eq, not_true_eq_false, if_false]
      cases qubitAxis loc <;> simp
    · have : (name == "XZZX") = false := by simpa using hn
      simp [this, hn]
  · have h2 : axis ≠ "x" ∧ axis ≠ "y" ∧ axis ≠ "z" := by
      simp only [not_or] at hax; exact hax
    simp [h2]

/-- `get_deformation` with the keyword given (`some axis`) or omitted (`none`: default `'z'`) -/
theorem getDeformation_rule (name : String) (axis : Option String) (loc : Coord) :
    getDeformation name axis loc =
      if axis.getD "z" ≠ "x" ∧ axis.getD "z" ≠ "y" ∧ axis.getD "z" ≠ "z" then none
      else if name ≠ "XZZX" then none
      else (qubitAxis loc).map fun a => if a = axis.getD "z" then PauliMap.swapXZ else PauliMap.id :=
  getDeformationAt_rule name (axis.getD "z") loc

end Panqec.XCubeCode
