/-
Color3DCode, even sides `≥ 2`: the key lists of the nine strings of `get_logicals_x` in closed form
and in normal form; every cell shares an even number of qubits with each string (finite checks).
Core Lean only.
-/
import PanqecVerif.Proofs.LatColor3DCodeRed

set_option linter.unusedVariables false
set_option linter.unusedSectionVars false

namespace Panqec.Color3DCode
open Panqec.Lat2D Panqec.Color

theorem mem_pyRangeStep8 {a : Nat} {b x : Int} :
    x ∈ pyRangeStep a b 8 ↔ (a : Int) ≤ x ∧ x < b ∧ (x - a) % 8 = 0 := by
  unfold pyRangeStep
  simp only [List.mem_map, List.mem_range']
  constructor
  · rintro ⟨m, ⟨i, hi, rfl⟩, rfl⟩
    simp only [Int.ofNat_eq_natCast]
    omega
  · rintro ⟨h1, h2, h3⟩
    refine ⟨x.toNat, ⟨(x.toNat - a) / 8, ?_, ?_⟩, ?_⟩
    · omega
    · omega
    · simp only [Int.ofNat_eq_natCast]; omega

/-- the pattern of a string of kind A: position along the string modulo 8, transverse coordinate -/
def PatA (L : Nat) (p w : Int) : Prop :=
  0 ≤ p ∧ p < 4 * (L : Int) ∧
    ((p % 8 = 0 ∧ w = 1) ∨ (p % 8 = 1 ∧ w = 0) ∨ (p % 8 = 3 ∧ w = 0) ∨ (p % 8 = 4 ∧ w = 1))

def PatB (L : Nat) (p w : Int) : Prop :=
  0 ≤ p ∧ p < 4 * (L : Int) ∧
    ((p % 8 = 2 ∧ w = 1) ∨ (p % 8 = 3 ∧ w = 2) ∨ (p % 8 = 5 ∧ w = 2) ∨ (p % 8 = 6 ∧ w = 1))

def PatC (L : Nat) (p : Int) : Prop := 0 ≤ p ∧ p < 4 * (L : Int) ∧ p % 2 = 1

theorem mem_stringA {mk : Int → Int → Coord} {L : Nat} (hL : 2 ≤ L) (eL : L % 2 = 0) {q : Coord} :
    q ∈ stringA mk L ↔ ∃ p w, q = mk p w ∧ PatA L p w := by
  unfold stringA PatA
  simp only [List.mem_flatMap, mem_pyRangeStep8, List.mem_cons, List.not_mem_nil, or_false]
  constructor
  · rintro ⟨t, ht, h | h | h | h⟩
    · exact ⟨_, _, h, by omega⟩
    · exact ⟨_, _, h, by omega⟩
    · exact ⟨_, _, h, by omega⟩
    · exact ⟨_, _, h, by omega⟩
  · rintro ⟨p, w, rfl, p0, p1, ⟨h1, rfl⟩ | ⟨h1, rfl⟩ | ⟨h1, rfl⟩ | ⟨h1, rfl⟩⟩
    · exact ⟨p + 2, by omega, Or.inl (by rw [show p + 2 - 2 = p by omega])⟩
    · exact ⟨p + 1, by omega, Or.inr (Or.inl (by rw [show p + 1 - 1 = p by omega]))⟩
    · exact ⟨p - 1, by omega, Or.inr (Or.inr (Or.inl (by rw [show p - 1 + 1 = p by omega])))⟩
    · exact ⟨p - 2, by omega, Or.inr (Or.inr (Or.inr (by rw [show p - 2 + 2 = p by omega])))⟩

theorem mem_stringB {mk : Int → Int → Coord} {L : Nat} (hL : 2 ≤ L) (eL : L % 2 = 0) {q : Coord} :
    q ∈ stringB mk L ↔ ∃ p w, q = mk p w ∧ PatB L p w := by
  unfold stringB PatB
  simp only [List.mem_flatMap, mem_pyRangeStep8, List.mem_cons, List.not_mem_nil, or_false]
  constructor
  · rintro ⟨t, ht, h | h | h | h⟩
    · exact ⟨_, _, h, by omega⟩
    · exact ⟨_, _, h, by omega⟩
    · exact ⟨_, _, h, by omega⟩
    · exact ⟨_, _, h, by omega⟩
  · rintro ⟨p, w, rfl, p0, p1, ⟨h1, rfl⟩ | ⟨h1, rfl⟩ | ⟨h1, rfl⟩ | ⟨h1, rfl⟩⟩
    · exact ⟨p + 2, by omega, Or.inl (by rw [show p + 2 - 2 = p by omega])⟩
    · exact ⟨p + 1, by omega, Or.inr (Or.inl (by rw [show p + 1 - 1 = p by omega]))⟩
    · exact ⟨p - 1, by omega, Or.inr (Or.inr (Or.inl (by rw [show p - 1 + 1 = p by omega])))⟩
    · exact ⟨p - 2, by omega, Or.inr (Or.inr (Or.inr (by rw [show p - 2 + 2 = p by omega])))⟩

theorem mem_stringC {mk : Int → Coord} {L : Nat} {q : Coord} :
    q ∈ stringC mk L ↔ ∃ p, q = mk p ∧ PatC L p := by
  unfold stringC PatC
  simp only [List.mem_map, mem_pyRangeStep2]
  constructor
  · rintro ⟨t, ht, rfl⟩; exact ⟨t, rfl, by omega⟩
  · rintro ⟨p, rfl, hp⟩; exact ⟨p, by omega, rfl⟩

/-! ### normal forms -/

/-- reduced pattern of a string of kind A: residue modulo 8 along the string, transverse offset
    from 1 -/
def SAr (r t : Int) : Bool :=
  (r == 0 && t == 0) || (r == 1 && t == -1) || (r == 3 && t == -1) || (r == 4 && t == 0)
def SBr (r t : Int) : Bool :=
  (r == 2 && t == 0) || (r == 3 && t == 1) || (r == 5 && t == 1) || (r == 6 && t == 0)

theorem clamp1_iff {t d : Int} (hd : -1 ≤ d ∧ d ≤ 1) : clamp 1 t = d ↔ t = d := by
  unfold clamp
  by_cases c : -1 ≤ t ∧ t ≤ 1
  · rw [if_pos c]
  · rw [if_neg c]; omega

theorem clamp0_iff {t : Int} : clamp 0 t = 0 ↔ t = 0 := by
  unfold clamp
  by_cases c : -0 ≤ t ∧ t ≤ 0
  · rw [if_pos c]
  · rw [if_neg c]; omega

theorem patA_iff {L : Nat} {p w : Int} (hp : 0 ≤ p ∧ p < 4 * (L : Int)) :
    PatA L p w ↔ SAr (p % 8) (clamp 1 (w - 1)) = true := by
  unfold PatA SAr
  simp only [Bool.or_eq_true, Bool.and_eq_true, beq_iff_eq, clamp1_iff (show (-1 : Int) ≤ 0 ∧ (0 : Int) ≤ 1 by omega),
    clamp1_iff (show (-1 : Int) ≤ -1 ∧ (-1 : Int) ≤ 1 by omega)]
  omega

theorem patB_iff {L : Nat} {p w : Int} (hp : 0 ≤ p ∧ p < 4 * (L : Int)) :
    PatB L p w ↔ SBr (p % 8) (clamp 1 (w - 1)) = true := by
  unfold PatB SBr
  simp only [Bool.or_eq_true, Bool.and_eq_true, beq_iff_eq, clamp1_iff (show (-1 : Int) ≤ 0 ∧ (0 : Int) ≤ 1 by omega),
    clamp1_iff (show (-1 : Int) ≤ 1 ∧ (1 : Int) ≤ 1 by omega)]
  omega

theorem patC_iff {L : Nat} {p : Int} (hp : 0 ≤ p ∧ p < 4 * (L : Int)) :
    PatC L p ↔ (p % 8 % 2 == 1) = true := by
  unfold PatC
  simp only [beq_iff_eq]
  omega

def kX1 (Lx Ly Lz : Nat) : List Coord := stringA (fun x w => [x, 6, w]) Lx
def kX2 (Lx Ly Lz : Nat) : List Coord := stringB (fun x w => [x, 0, w]) Lx
def kX3 (Lx Ly Lz : Nat) : List Coord := stringC (fun x => [x, 2, 0]) Lx
def kX4 (Lx Ly Lz : Nat) : List Coord := stringA (fun y w => [6, y, w]) Ly
def kX5 (Lx Ly Lz : Nat) : List Coord := stringB (fun y w => [0, y, w]) Ly
def kX6 (Lx Ly Lz : Nat) : List Coord := stringC (fun y => [2, y, 0]) Ly
def kX7 (Lx Ly Lz : Nat) : List Coord := stringA (fun z w => [6, w, z]) Lz
def kX8 (Lx Ly Lz : Nat) : List Coord := stringB (fun z w => [0, w, z]) Lz
def kX9 (Lx Ly Lz : Nat) : List Coord := stringC (fun z => [2, 0, z]) Lz

theorem logX_eq (Lx Ly Lz : Nat) :
    logX Lx Ly Lz = [lineOp (kX1 Lx Ly Lz) Pauli.X, lineOp (kX2 Lx Ly Lz) Pauli.X,
      lineOp (kX3 Lx Ly Lz) Pauli.X, lineOp (kX4 Lx Ly Lz) Pauli.X, lineOp (kX5 Lx Ly Lz) Pauli.X,
      lineOp (kX6 Lx Ly Lz) Pauli.X, lineOp (kX7 Lx Ly Lz) Pauli.X, lineOp (kX8 Lx Ly Lz) Pauli.X,
      lineOp (kX9 Lx Ly Lz) Pauli.X] := rfl

def MX1 (ra tb tc : Int) : Bool := tb == 0 && SAr ra tc
def MX2 (ra tb tc : Int) : Bool := tb == 0 && SBr ra tc
def MX3 (ra tb tc : Int) : Bool := tb == 0 && tc == 0 && ra % 2 == 1
def MX4 (ta rb tc : Int) : Bool := ta == 0 && SAr rb tc
def MX5 (ta rb tc : Int) : Bool := ta == 0 && SBr rb tc
def MX6 (ta rb tc : Int) : Bool := ta == 0 && tc == 0 && rb % 2 == 1
def MX7 (ta tb rc : Int) : Bool := ta == 0 && SAr rc tb
def MX8 (ta tb rc : Int) : Bool := ta == 0 && SBr rc tb
def MX9 (ta tb rc : Int) : Bool := ta == 0 && tb == 0 && rc % 2 == 1

section
variable {Lx Ly Lz : Nat} (hx : 2 ≤ Lx) (hy : 2 ≤ Ly) (hz : 2 ≤ Lz) (ex : Lx % 2 = 0)
  (ey : Ly % 2 = 0) (ez : Lz % 2 = 0)
include hx hy hz ex ey ez

theorem NFX1 : NF Lx Ly Lz (kX1 Lx Ly Lz) MX1 .thick (.thin 6 0) (.thin 1 1) := by
  intro a b c hb
  unfold InBox at hb
  unfold kX1 MX1 redA
  rw [mem_stringA hx ex, Bool.and_eq_true, beq_iff_eq, clamp0_iff, ← patA_iff (L := Lx) (by omega)]
  constructor
  · rintro ⟨p, w, h, hp⟩
    simp only [List.cons.injEq, and_true] at h
    obtain ⟨rfl, rfl, rfl⟩ := h
    exact ⟨by omega, hp⟩
  · rintro ⟨h, hp⟩
    exact ⟨a, c, by rw [show b = 6 by omega], hp⟩

theorem NFX2 : NF Lx Ly Lz (kX2 Lx Ly Lz) MX2 .thick (.thin 0 0) (.thin 1 1) := by
  intro a b c hb
  unfold InBox at hb
  unfold kX2 MX2 redA
  rw [mem_stringB hx ex, Bool.and_eq_true, beq_iff_eq, clamp0_iff, ← patB_iff (L := Lx) (by omega)]
  constructor
  · rintro ⟨p, w, h, hp⟩
    simp only [List.cons.injEq, and_true] at h
    obtain ⟨rfl, rfl, rfl⟩ := h
    exact ⟨by omega, hp⟩
  · rintro ⟨h, hp⟩
    exact ⟨a, c, by rw [show b = 0 by omega], hp⟩

theorem NFX3 : NF Lx Ly Lz (kX3 Lx Ly Lz) MX3 .thick (.thin 2 0) (.thin 0 0) := by
  intro a b c hb
  unfold InBox at hb
  unfold kX3 MX3 redA
  rw [mem_stringC, Bool.and_eq_true, Bool.and_eq_true, beq_iff_eq, beq_iff_eq, clamp0_iff, clamp0_iff,
    ← patC_iff (L := Lx) (by omega)]
  constructor
  · rintro ⟨p, h, hp⟩
    simp only [List.cons.injEq, and_true] at h
    obtain ⟨rfl, rfl, rfl⟩ := h
    exact ⟨⟨by omega, by omega⟩, hp⟩
  · rintro ⟨⟨h1, h2⟩, hp⟩
    exact ⟨a, by rw [show b = 2 by omega, show c = 0 by omega], hp⟩

theorem NFX4 : NF Lx Ly Lz (kX4 Lx Ly Lz) MX4 (.thin 6 0) .thick (.thin 1 1) := by
  intro a b c hb
  unfold InBox at hb
  unfold kX4 MX4 redA
  rw [mem_stringA hy ey, Bool.and_eq_true, beq_iff_eq, clamp0_iff, ← patA_iff (L := Ly) (by omega)]
  constructor
  · rintro ⟨p, w, h, hp⟩
    simp only [List.cons.injEq, and_true] at h
    obtain ⟨rfl, rfl, rfl⟩ := h
    exact ⟨by omega, hp⟩
  · rintro ⟨h, hp⟩
    exact ⟨b, c, by rw [show a = 6 by omega], hp⟩

theorem NFX5 : NF Lx Ly Lz (kX5 Lx Ly Lz) MX5 (.thin 0 0) .thick (.thin 1 1) := by
  intro a b c hb
  unfold InBox at hb
  unfold kX5 MX5 redA
  rw [mem_stringB hy ey, Bool.and_eq_true, beq_iff_eq, clamp0_iff, ← patB_iff (L := Ly) (by omega)]
  constructor
  · rintro ⟨p, w, h, hp⟩
    simp only [List.cons.injEq, and_true] at h
    obtain ⟨rfl, rfl, rfl⟩ := h
    exact ⟨by omega, hp⟩
  · rintro ⟨h, hp⟩
    exact ⟨b, c, by rw [show a = 0 by omega], hp⟩

theorem NFX6 : NF Lx Ly Lz (kX6 Lx Ly Lz) MX6 (.thin 2 0) .thick (.thin 0 0) := by
  intro a b c hb
  unfold InBox at hb
  unfold kX6 MX6 redA
  rw [mem_stringC, Bool.and_eq_true, Bool.and_eq_true, beq_iff_eq, beq_iff_eq, clamp0_iff, clamp0_iff,
    ← patC_iff (L := Ly) (by omega)]
  constructor
  · rintro ⟨p, h, hp⟩
    simp only [List.cons.injEq, and_true] at h
    obtain ⟨rfl, rfl, rfl⟩ := h
    exact ⟨⟨by omega, by omega⟩, hp⟩
  · rintro ⟨⟨h1, h2⟩, hp⟩
    exact ⟨b, by rw [show a = 2 by omega, show c = 0 by omega], hp⟩

theorem NFX7 : NF Lx Ly Lz (kX7 Lx Ly Lz) MX7 (.thin 6 0) (.thin 1 1) .thick := by
  intro a b c hb
  unfold InBox at hb
  unfold kX7 MX7 redA
  rw [mem_stringA hz ez, Bool.and_eq_true, beq_iff_eq, clamp0_iff, ← patA_iff (L := Lz) (by omega)]
  constructor
  · rintro ⟨p, w, h, hp⟩
    simp only [List.cons.injEq, and_true] at h
    obtain ⟨rfl, rfl, rfl⟩ := h
    exact ⟨by omega, hp⟩
  · rintro ⟨h, hp⟩
    exact ⟨c, b, by rw [show a = 6 by omega], hp⟩

theorem NFX8 : NF Lx Ly Lz (kX8 Lx Ly Lz) MX8 (.thin 0 0) (.thin 1 1) .thick := by
  intro a b c hb
  unfold InBox at hb
  unfold kX8 MX8 redA
  rw [mem_stringB hz ez, Bool.and_eq_true, beq_iff_eq, clamp0_iff, ← patB_iff (L := Lz) (by omega)]
  constructor
  · rintro ⟨p, w, h, hp⟩
    simp only [List.cons.injEq, and_true] at h
    obtain ⟨rfl, rfl, rfl⟩ := h
    exact ⟨by omega, hp⟩
  · rintro ⟨h, hp⟩
    exact ⟨c, b, by rw [show a = 0 by omega], hp⟩

theorem NFX9 : NF Lx Ly Lz (kX9 Lx Ly Lz) MX9 (.thin 2 0) (.thin 0 0) .thick := by
  intro a b c hb
  unfold InBox at hb
  unfold kX9 MX9 redA
  rw [mem_stringC, Bool.and_eq_true, Bool.and_eq_true, beq_iff_eq, beq_iff_eq, clamp0_iff, clamp0_iff,
    ← patC_iff (L := Lz) (by omega)]
  constructor
  · rintro ⟨p, h, hp⟩
    simp only [List.cons.injEq, and_true] at h
    obtain ⟨rfl, rfl, rfl⟩ := h
    exact ⟨⟨by omega, by omega⟩, hp⟩
  · rintro ⟨⟨h1, h2⟩, hp⟩
    exact ⟨c, by rw [show a = 2 by omega, show b = 0 by omega], hp⟩

end

set_option maxRecDepth 100000 in
theorem chkX1 : chkCells MX1 .thick (.thin 6 0) (.thin 1 1) = true := by decide +kernel
set_option maxRecDepth 100000 in
theorem chkX2 : chkCells MX2 .thick (.thin 0 0) (.thin 1 1) = true := by decide +kernel
set_option maxRecDepth 100000 in
theorem chkX3 : chkCells MX3 .thick (.thin 2 0) (.thin 0 0) = true := by decide +kernel
set_option maxRecDepth 100000 in
theorem chkX4 : chkCells MX4 (.thin 6 0) .thick (.thin 1 1) = true := by decide +kernel
set_option maxRecDepth 100000 in
theorem chkX5 : chkCells MX5 (.thin 0 0) .thick (.thin 1 1) = true := by decide +kernel
set_option maxRecDepth 100000 in
theorem chkX6 : chkCells MX6 (.thin 2 0) .thick (.thin 0 0) = true := by decide +kernel
set_option maxRecDepth 100000 in
theorem chkX7 : chkCells MX7 (.thin 6 0) (.thin 1 1) .thick = true := by decide +kernel
set_option maxRecDepth 100000 in
theorem chkX8 : chkCells MX8 (.thin 0 0) (.thin 1 1) .thick = true := by decide +kernel
set_option maxRecDepth 100000 in
theorem chkX9 : chkCells MX9 (.thin 2 0) (.thin 0 0) .thick = true := by decide +kernel

end Panqec.Color3DCode
