/-
RotatedPlanar3DCode lattice model: a vertex operator and a face operator (each of the three face
kinds) share an even number of qubits, for every lattice size.
-/
import PanqecVerif.Proofs.LatRotatedPlanar3DCode1
open Panqec Panqec.Lat3Db
namespace Panqec.RotatedPlanar3DCode

/-- the qubits of the vertex operator at `(x, y, z)`, in arithmetic form -/
theorem mem_vertexKeys (Lx Ly Lz : Nat) (x y z p q r : Int) (hv : SV Lx Ly Lz x y z) :
    [p, q, r] ∈ vertexKeys Lx Ly Lz x y z ↔
      (r = z ∧ (p = x - 1 ∨ p = x + 1) ∧ (q = y - 1 ∨ q = y + 1) ∧ 1 ≤ q ∧ q < 2 * Ly) ∨
      (p = x ∧ q = y ∧ (r = z - 1 ∨ r = z + 1) ∧ 2 ≤ r ∧ r < 2 * Lz) := by
  unfold vertexKeys vertexLocs
  simp only [List.mem_filter, isQubit_iff, List.mem_cons, List.cons.injEq, and_true, List.not_mem_nil, or_false]
  unfold SV R0 R1 R2 at hv
  unfold QH QV R0 R1 R2
  constructor
  · rintro ⟨h, hq⟩
    rcases h with h | h | h | h | h | h <;> omega
  · rintro (⟨h1, h2, h3, h4⟩ | ⟨h1, h2, h3, h4⟩)
    · rcases h2 with h2 | h2 <;> rcases h3 with h3 | h3 <;> (subst h1 h2 h3; simp; omega)
    · rcases h3 with h3 | h3 <;> (subst h1 h2 h3; simp; omega)

theorem vertexKeys_def (Lx Ly Lz : Nat) (x y z : Int) :
    (vertexLocs x y z).filter (isQubit Lx Ly Lz) = vertexKeys Lx Ly Lz x y z := rfl

/-- vertex vs horizontal (z-normal) face -/
theorem vertex_faceZ (Lx Ly Lz : Nat) (x y z a b c : Int) (hv : SV Lx Ly Lz x y z) (hf : SH Lx Ly Lz a b c) :
    ovl (faceZKeys Lx Ly Lz a b c) (vertexKeys Lx Ly Lz x y z) % 2 = 0 := by
  unfold faceZKeys vertexKeys
  rw [ovl_filter_filter, vertexKeys_def]
  simp only [faceZLocs, ovl_cons_ind, ovl_nil, mem_vertexKeys Lx Ly Lz x y z _ _ _ hv]
  unfold SV R0 R1 R2 at hv
  unfold SH R0 R1 R2 at hf
  have h1 : a % 2 = 0 := by omega
  have h2 : x % 2 = 0 := by omega
  have h3 : 2 ≤ b ∧ b < 2 * Ly ∧ b % 2 = 0 := by omega
  have h4 : (a - x + (b - y)) % 4 = 2 := by omega
  clear hv hf
  by_cases hc : c = z
  · rcases near3 a x with h | h | h | h <;> rcases near3 b y with h' | h' | h' | h' <;>
      first
      | omega
      | (simp (disch := omega) only [ind_pos, ind_neg])
  · simp (disch := omega) only [ind_neg]

end Panqec.RotatedPlanar3DCode
