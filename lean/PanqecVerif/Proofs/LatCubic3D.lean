/-
Generic lemmas for the all-sizes lattice theorems of the cubic-lattice 3-D surface codes
(`Toric3DCode`, `Planar3DCode`): Python ranges and triple loops as lists (membership, `Nodup`,
length), operators with one letter on a list of keys (`uop`), the `get_stabilizer` loop as a filter,
and the anticommutation count of two such operators as the size of the key overlap (`ov`).
-/
import Mathlib.Data.List.Nodup
import Mathlib.Data.List.Count
import PanqecVerif.Model.Lattices.Cubic3D

namespace Panqec.Cubic3D

/-! ### `range(a, b, 2)` -/

theorem mem_range2 {a b x : Int} : x ∈ range2 a b ↔ a ≤ x ∧ x < b ∧ (x - a) % 2 = 0 := by
  unfold range2
  simp only [List.mem_map, List.mem_range]
  constructor
  · rintro ⟨i, hi, rfl⟩; omega
  · rintro ⟨h1, h2, h3⟩
    refine ⟨((x - a) / 2).toNat, ?_, ?_⟩ <;> omega

theorem length_range2 (a b : Int) : (range2 a b).length = ((b - a + 1) / 2).toNat := by
  simp [range2]

theorem nodup_range2 (a b : Int) : (range2 a b).Nodup := by
  unfold range2
  refine List.Nodup.map ?_ List.nodup_range
  intro i j h
  simp only at h
  omega

/-! ### the triple loop -/

theorem mem_grid {xs ys zs : List Int} {q : Coord} :
    q ∈ grid xs ys zs ↔ ∃ x ∈ xs, ∃ y ∈ ys, ∃ z ∈ zs, q = [x, y, z] := by
  simp only [grid, List.mem_flatMap, List.mem_map]
  constructor
  · rintro ⟨x, hx, y, hy, z, hz, rfl⟩; exact ⟨x, hx, y, hy, z, hz, rfl⟩
  · rintro ⟨x, hx, y, hy, z, hz, rfl⟩; exact ⟨x, hx, y, hy, z, hz, rfl⟩

theorem mem_grid3 {xs ys zs : List Int} {x y z : Int} :
    [x, y, z] ∈ grid xs ys zs ↔ x ∈ xs ∧ y ∈ ys ∧ z ∈ zs := by
  rw [mem_grid]
  constructor
  · rintro ⟨x', hx, y', hy, z', hz, h⟩
    simp only [List.cons.injEq, and_true] at h
    obtain ⟨rfl, rfl, rfl⟩ := h
    exact ⟨hx, hy, hz⟩
  · rintro ⟨hx, hy, hz⟩; exact ⟨x, hx, y, hy, z, hz, rfl⟩

theorem nodup_grid {xs ys zs : List Int} (hx : xs.Nodup) (hy : ys.Nodup) (hz : zs.Nodup) :
    (grid xs ys zs).Nodup := by
  unfold grid
  rw [List.nodup_flatMap]
  refine ⟨fun x _ => ?_, ?_⟩
  · rw [List.nodup_flatMap]
    refine ⟨fun y _ => ?_, ?_⟩
    · refine List.Nodup.map ?_ hz
      intro a b h; simpa using h
    · refine List.Pairwise.imp ?_ hy
      intro a b hab
      simp only [Function.onFun, List.disjoint_left, List.mem_map]
      rintro q ⟨z, _, rfl⟩ ⟨z', _, h⟩
      simp only [List.cons.injEq, and_true] at h
      exact hab h.2.1.symm
  · refine List.Pairwise.imp ?_ hx
    intro a b hab
    simp only [Function.onFun, List.disjoint_left, List.mem_flatMap, List.mem_map]
    rintro q ⟨y, _, z, _, rfl⟩ ⟨y', _, z', _, h⟩
    simp only [List.cons.injEq, and_true] at h
    exact hab h.1.symm

theorem length_grid (xs ys zs : List Int) :
    (grid xs ys zs).length = xs.length * ys.length * zs.length := by
  have inner : ∀ (x : Int) (ys : List Int),
      (ys.flatMap fun y => zs.map fun z => [x, y, z]).length = ys.length * zs.length := by
    intro x ys
    induction ys with
    | nil => simp
    | cons y ys ih => simp only [List.flatMap_cons, List.length_append, List.length_map, ih,
        List.length_cons]; rw [Nat.add_mul, Nat.one_mul, Nat.add_comm]
  unfold grid
  induction xs with
  | nil => simp
  | cons x xs ih =>
    simp only [List.flatMap_cons, List.length_append, inner, ih, List.length_cons]
    rw [Nat.mul_assoc, Nat.mul_assoc, Nat.add_mul, Nat.one_mul, Nat.add_comm]

/-! ### one-letter operators -/

/-- the operator carrying the letter `p` on every key of `ks`, in that order -/
def uop (ks : List Coord) (p : Pauli) : Op := ks.map fun q => (q, p)

theorem uop_keys (ks : List Coord) (p : Pauli) : (uop ks p).map Prod.fst = ks := by
  simp [uop, Function.comp_def]

theorem mem_uop {ks : List Coord} {p : Pauli} {e : Coord × Pauli} :
    e ∈ uop ks p ↔ e.1 ∈ ks ∧ e.2 = p := by
  unfold uop
  simp only [List.mem_map]
  constructor
  · rintro ⟨q, hq, rfl⟩; exact ⟨hq, rfl⟩
  · rintro ⟨h1, h2⟩; exact ⟨e.1, h1, by rw [← h2]⟩

theorem uop_any (ks : List Coord) (p : Pauli) (q : Coord) :
    (uop ks p).any (·.1 == q) = decide (q ∈ ks) := by
  induction ks with
  | nil => simp [uop]
  | cons k ks ih =>
    simp only [uop, List.map_cons, List.any_cons, List.mem_cons] at ih ⊢
    rw [ih]
    by_cases h : k = q
    · simp [h]
    · have h' : ¬ q = k := fun e => h e.symm
      simp [h, h']

theorem insert_uop_new {ks : List Coord} {p : Pauli} {q : Coord} (h : q ∉ ks) :
    (uop ks p).insert q p = uop (ks ++ [q]) p := by
  unfold Op.insert
  rw [uop_any]
  simp [h, uop]

/-- the loop of `get_stabilizer` over pairwise distinct candidate locations keeps, in order, the
    candidates that are qubits -/
theorem collect_eq (qs : List Coord) (p : Pauli) (cands : List Coord) (h : cands.Nodup) :
    collect qs p cands = uop (cands.filter qs.contains) p := by
  unfold collect
  suffices H : ∀ (acc : List Coord), (∀ c ∈ cands, c ∉ acc) →
      cands.foldl (fun op q => if qs.contains q then op.insert q p else op) (uop acc p) =
        uop (acc ++ cands.filter qs.contains) p by
    simpa [uop] using H [] (by simp)
  induction cands with
  | nil => intro acc _; simp
  | cons c cs ih =>
    intro acc hacc
    rw [List.nodup_cons] at h
    simp only [List.foldl_cons]
    by_cases hc : qs.contains c = true
    · have hc' : c ∈ qs := by simpa using hc
      rw [if_pos hc, insert_uop_new (hacc c (by simp)), ih h.2]
      · simp [hc']
      · intro d hd
        simp only [List.mem_append, List.mem_singleton, not_or]
        refine ⟨hacc d (by simp [hd]), ?_⟩
        rintro rfl; exact h.1 hd
    · have hc' : c ∉ qs := by simpa using hc
      rw [if_neg hc, ih h.2]
      · simp [hc']
      · intro d hd; exact hacc d (by simp [hd])

theorem uop_get? (ks : List Coord) (p : Pauli) (q : Coord) :
    (uop ks p).get? q = if q ∈ ks then some p else none := by
  unfold Op.get?
  induction ks with
  | nil => simp [uop]
  | cons k ks ih =>
    simp only [uop, List.map_cons, List.find?_cons, List.mem_cons] at ih ⊢
    by_cases h : k = q
    · simp [h]
    · have h' : ¬ q = k := fun e => h e.symm
      have hb : (k == q) = false := by simp [h]
      simp only [hb, h', false_or]
      exact ih

/-- size of the key overlap, counted along the first list -/
def ov (ka kb : List Coord) : Nat := ka.countP fun q => decide (q ∈ kb)

theorem opAntiCount_uop (ka kb : List Coord) (pa pb : Pauli) :
    opAntiCount (uop ka pa) (uop kb pb) = if Pauli.anti pa pb then ov ka kb else 0 := by
  unfold opAntiCount ov
  rw [← List.countP_eq_length_filter]
  simp only [uop, List.countP_map]
  by_cases h : Pauli.anti pa pb = true
  · rw [if_pos h]
    apply List.countP_congr
    intro q _
    have := uop_get? kb pb q
    simp only [uop] at this
    simp only [Function.comp, this]
    by_cases hq : q ∈ kb <;> simp [hq, h]
  · rw [if_neg h]
    rw [List.countP_eq_zero]
    intro q _
    have := uop_get? kb pb q
    simp only [uop] at this
    simp only [Function.comp, this]
    by_cases hq : q ∈ kb <;> simp [hq, h]

theorem opCommute_uop_same (ka kb : List Coord) (p : Pauli) :
    opCommute (uop ka p) (uop kb p) = true := by
  unfold opCommute
  rw [opAntiCount_uop]
  have : Pauli.anti p p = false := by cases p <;> rfl
  simp [this]

theorem opCommute_uop_of_even {ka kb : List Coord} (pa pb : Pauli) (h : ov ka kb % 2 = 0) :
    opCommute (uop ka pa) (uop kb pb) = true := by
  unfold opCommute
  rw [opAntiCount_uop]
  split <;> simp [h]

theorem ov_comm {ka kb : List Coord} (ha : ka.Nodup) (hb : kb.Nodup) : ov ka kb = ov kb ka := by
  unfold ov
  rw [List.countP_eq_length_filter, List.countP_eq_length_filter]
  apply List.Perm.length_eq
  rw [List.perm_ext_iff_of_nodup (ha.filter _) (hb.filter _)]
  intro q
  simp only [List.mem_filter, decide_eq_true_eq]
  exact And.comm

theorem ov_eq_zero {ka kb : List Coord} (h : ∀ q ∈ ka, q ∉ kb) : ov ka kb = 0 := by
  unfold ov
  rw [List.countP_eq_zero]
  intro q hq
  simpa using h q hq

theorem ov_eq_one {ka kb : List Coord} (ha : ka.Nodup) (q : Coord) (hq : q ∈ ka)
    (h : ∀ e ∈ ka, e ∈ kb ↔ e = q) : ov ka kb = 1 := by
  unfold ov
  have : ka.countP (fun e => decide (e ∈ kb)) = ka.countP (· == q) := by
    apply List.countP_congr
    intro e he
    simp [h e he]
  rw [this, ← List.count_eq_countP, List.count_eq_one_of_mem ha hq]

/-! ### double loops (logical operators) -/

/-- `for a in as: for b in bs: … f a b …` -/
def grid2 (as bs : List Int) (f : Int → Int → Coord) : List Coord :=
  as.flatMap fun a => bs.map fun b => f a b

theorem mem_grid2 {as bs : List Int} {f : Int → Int → Coord} {q : Coord} :
    q ∈ grid2 as bs f ↔ ∃ a ∈ as, ∃ b ∈ bs, q = f a b := by
  simp only [grid2, List.mem_flatMap, List.mem_map]
  constructor
  · rintro ⟨a, ha, b, hb, rfl⟩; exact ⟨a, ha, b, hb, rfl⟩
  · rintro ⟨a, ha, b, hb, rfl⟩; exact ⟨a, ha, b, hb, rfl⟩

theorem nodup_grid2 {as bs : List Int} {f : Int → Int → Coord} (ha : as.Nodup) (hb : bs.Nodup)
    (hf : ∀ a b a' b', f a b = f a' b' → a = a' ∧ b = b') : (grid2 as bs f).Nodup := by
  unfold grid2
  rw [List.nodup_flatMap]
  refine ⟨fun a _ => ?_, ?_⟩
  · refine List.Nodup.map ?_ hb
    intro b b' h; exact (hf a b a b' h).2
  · refine List.Pairwise.imp ?_ ha
    intro a a' hne
    simp only [Function.onFun, List.disjoint_left, List.mem_map]
    rintro q ⟨b, _, rfl⟩ ⟨b', _, h⟩
    exact hne (hf a' b' a b h).1.symm

theorem length_grid2 (as bs : List Int) (f : Int → Int → Coord) :
    (grid2 as bs f).length = as.length * bs.length := by
  unfold grid2
  induction as with
  | nil => simp
  | cons a as ih =>
    simp only [List.flatMap_cons, List.length_append, List.length_map, ih, List.length_cons]
    rw [Nat.add_mul, Nat.one_mul, Nat.add_comm]

theorem uop_map (as : List Int) (f : Int → Coord) (p : Pauli) :
    (as.map fun a => (f a, p)) = uop (as.map f) p := by
  simp [uop, List.map_map, Function.comp_def]

theorem uop_grid2 (as bs : List Int) (f : Int → Int → Coord) (p : Pauli) :
    (as.flatMap fun a => bs.map fun b => (f a b, p)) = uop (grid2 as bs f) p := by
  simp [uop, grid2, List.map_flatMap, List.map_map, Function.comp_def]

/-! ### `qubit_axis` and `get_deformation` -/

theorem Axis.ofString_toString (a : Axis) : Axis.ofString? a.toString = some a := by
  cases a <;> rfl

theorem getDeformation_default (dflt name : String) (loc : Coord) :
    getDeformation dflt name none loc = getDeformation dflt name (some dflt) loc := rfl

theorem getDeformation_xzzx (dflt : String) (ax : Axis) (loc : Coord) :
    getDeformation dflt "XZZX" (some ax.toString) loc =
      (qubitAxis loc).map fun a => if a = ax then PauliMap.swapXZ else PauliMap.id := by
  unfold getDeformation
  simp only [Option.getD_some, Axis.ofString_toString, beq_self_eq_true, if_true]
  cases qubitAxis loc <;> rfl

theorem getDeformation_bad_name (dflt : String) {name : String} (h : name ≠ "XZZX")
    (axis : Option String) (loc : Coord) : getDeformation dflt name axis loc = none := by
  unfold getDeformation
  have : (name == "XZZX") = false := by simpa using h
  cases Axis.ofString? (axis.getD dflt) <;> simp [this]

theorem getDeformation_bad_axis (dflt name : String) {s : String} (h : Axis.ofString? s = none)
    (loc : Coord) : getDeformation dflt name (some s) loc = none := by
  unfold getDeformation
  simp [h]

theorem getDeformation_isPerm {dflt name : String} {axis : Option String} {loc : Coord}
    {m : PauliMap} (h : getDeformation dflt name axis loc = some m) : m.isPerm = true := by
  unfold getDeformation at h
  cases h1 : Axis.ofString? (axis.getD dflt) with
  | none => simp [h1] at h
  | some ax =>
    simp only [h1] at h
    by_cases hn : (name == "XZZX") = true
    · simp only [hn, if_true] at h
      cases h2 : qubitAxis loc with
      | none => simp [h2] at h
      | some a =>
        simp only [h2, Option.some.injEq] at h
        subst h
        by_cases hax : a = ax <;> simp [hax] <;> decide
    · simp [hn] at h

theorem qubitAxis_x {x y z : Int} (hx : x % 2 = 1) (hy : y % 2 = 0) (hz : z % 2 = 0) :
    qubitAxis [x, y, z] = some Axis.x := by simp [qubitAxis, hx, hy, hz]
theorem qubitAxis_y {x y z : Int} (hx : x % 2 = 0) (hy : y % 2 = 1) (hz : z % 2 = 0) :
    qubitAxis [x, y, z] = some Axis.y := by simp [qubitAxis, hx, hy, hz]
theorem qubitAxis_z {x y z : Int} (hx : x % 2 = 0) (hy : y % 2 = 0) (hz : z % 2 = 1) :
    qubitAxis [x, y, z] = some Axis.z := by simp [qubitAxis, hx, hy, hz]
/-! ### overlap of filtered key lists (open boundaries: candidates that are not qubits are dropped) -/

theorem ov_filter_both {cV cF : List Coord} (isq : Coord → Bool)
    (h : ∀ q ∈ cV, q ∈ cF → isq q = true) : ov (cV.filter isq) (cF.filter isq) = ov cV cF := by
  unfold ov
  rw [List.countP_filter]
  apply List.countP_congr
  intro q hq
  simp only [List.mem_filter, Bool.and_eq_true, decide_eq_true_eq]
  constructor
  · rintro ⟨⟨h1, _⟩, _⟩; exact h1
  · intro h1; exact ⟨⟨h1, h q hq h1⟩, h q hq h1⟩

theorem ov_filter_left {c K : List Coord} (isq : Coord → Bool) (h : ∀ q ∈ K, isq q = true) :
    ov (c.filter isq) K = ov c K := by
  unfold ov
  rw [List.countP_filter]
  apply List.countP_congr
  intro q _
  simp only [Bool.and_eq_true, decide_eq_true_eq]
  constructor
  · rintro ⟨h1, _⟩; exact h1
  · intro h1; exact ⟨h1, h q h1⟩

end Panqec.Cubic3D
