/-
RhombicToricCode, all even sizes, C17 part A: the lattice translates of the six listed logical
operators and the parity argument.

A dict operator `b` that commutes with every stabilizer generator (coloured cubes: X on twelve
edges; triangles `(axis, v)`: Z on three legs at the vertex `v`) anticommutes (mod 2) with every
translate of a listed logical on as many qubits as with the logical itself:

* Z lines of parallel edges (`logicals_z`): the product of two of the four triangles of a vertex is
  the planar star of the vertex (the third legs coincide and cancel); two consecutive translates of
  a line differ by the product of the row of planar stars between them (the legs across are
  counted twice, cyclically shifted).
* X sheets (`logicals_x`: all edges lying in a lattice plane): two consecutive translates of a sheet
  along its normal differ by the product of the coloured cubes of the slab between them — every
  in-plane edge lies on exactly one coloured cube of the slab and every edge across on exactly two
  (`Lat2D.slab_checker`; the sizes are even, so the colouring is consistent across the boundary).
-/
import PanqecVerif.Proofs.DistChecker
import PanqecVerif.Proofs.DistXCubeCodeA
import PanqecVerif.Proofs.LatRhombicToricCodeRank3

namespace Panqec.RhombicToricCode
open Panqec.Lat3Db Panqec.Rhombic
open Panqec.XCubeCode (up dn up_spec dn_spec dn_even_nat up_odd_nat dn_pos up_nowrap)
open Panqec.Lat2D (rsum rsum2 rsum_congr wrapP wrapS ladderP slab_checker plane2 countP_plane2 ind)

/-! ### one generator (neighbours given by name) -/

/-- `b` commutes with every stabilizer generator of the lattice -/
def CommStabs (Lx Ly Lz : Nat) (b : Op) : Prop :=
  ∀ s ∈ (lattice Lx Ly Lz).stabs, opAntiCount ((lattice Lx Ly Lz).getStab s) b % 2 = 0

variable {Lx Ly Lz : Nat}

theorem up_R0 (L : Nat) {x : Int} (h : R1 (2*L) x) : R0 (2*L) (up (2*L) x) := by
  have := up_spec (2*L) x
  unfold R1 at h; unfold R0; omega
theorem pred_R0 (L : Nat) {x : Int} (h : R1 (2*L) x) : R0 (2*L) (x - 1) := by
  unfold R1 at h; unfold R0; omega

/-- every edge of a coloured cube is a qubit -/
theorem cubeKeys_eq {x y z : Int} (h : SC Lx Ly Lz x y z) :
    cubeKeys Lx Ly Lz x y z = cubeLocs Lx Ly Lz x y z := by
  obtain ⟨hx, hy, hz, _⟩ := h
  unfold cubeKeys
  apply List.filter_eq_self.mpr
  intro q hq
  have hxu := up_R0 Lx hx
  have hyu := up_R0 Ly hy
  have hzu := up_R0 Lz hz
  have hxm := pred_R0 Lx hx
  have hym := pred_R0 Ly hy
  have hzm := pred_R0 Lz hz
  unfold cubeLocs at hq
  simp only [List.mem_cons, List.not_mem_nil, or_false] at hq
  rcases hq with rfl | rfl | rfl | rfl | rfl | rfl | rfl | rfl | rfl | rfl | rfl | rfl <;>
    rw [isQubit_iff]
  · exact Or.inr (Or.inr ⟨hxu, hyu, hz⟩)
  · exact Or.inr (Or.inr ⟨hxm, hym, hz⟩)
  · exact Or.inr (Or.inr ⟨hxu, hym, hz⟩)
  · exact Or.inr (Or.inr ⟨hxm, hyu, hz⟩)
  · exact Or.inr (Or.inl ⟨hxu, hy, hzu⟩)
  · exact Or.inr (Or.inl ⟨hxm, hy, hzm⟩)
  · exact Or.inr (Or.inl ⟨hxu, hy, hzm⟩)
  · exact Or.inr (Or.inl ⟨hxm, hy, hzu⟩)
  · exact Or.inl ⟨hx, hyu, hzu⟩
  · exact Or.inl ⟨hx, hym, hzm⟩
  · exact Or.inl ⟨hx, hym, hzu⟩
  · exact Or.inl ⟨hx, hyu, hzm⟩

/-- a coloured cube: its twelve edges carry an even number of hits -/
theorem cube_even (hx : 2 ≤ Lx) (hy : 2 ≤ Ly) (hz : 2 ≤ Lz) {b : Op}
    (hb : CommStabs Lx Ly Lz b) {x y z : Int} (hv : SC Lx Ly Lz x y z)
    {xm xp ym yp zm zp : Int} (e1 : x - 1 = xm) (e2 : up (2 * Lx) x = xp) (e3 : y - 1 = ym)
    (e4 : up (2 * Ly) y = yp) (e5 : z - 1 = zm) (e6 : up (2 * Lz) z = zp) :
    (ind Pauli.X b [xp, yp, z] + ind Pauli.X b [xm, ym, z] + ind Pauli.X b [xp, ym, z]
      + ind Pauli.X b [xm, yp, z] + ind Pauli.X b [xp, y, zp] + ind Pauli.X b [xm, y, zm]
      + ind Pauli.X b [xp, y, zm] + ind Pauli.X b [xm, y, zp] + ind Pauli.X b [x, yp, zp]
      + ind Pauli.X b [x, ym, zm] + ind Pauli.X b [x, ym, zp] + ind Pauli.X b [x, yp, zm]) % 2
      = 0 := by
  have h : opAntiCount (getStab Lx Ly Lz [x, y, z]) b % 2 = 0 :=
    hb [x, y, z] ((mem_stabs_cube Lx Ly Lz x y z).mpr hv)
  rw [getStab_cube Lx Ly Lz x y z hx hy hz hv, cubeKeys_eq hv, opAntiCount_constOp_hit] at h
  subst e1 e2 e3 e4 e5 e6
  unfold cubeLocs at h
  simp only [List.countP_cons, List.countP_nil] at h
  unfold Lat2D.ind
  omega

/-- a triangle: its three legs carry an even number of hits -/
theorem tri_even {b : Op} (hb : CommStabs Lx Ly Lz b) {a x y z : Int} (hv : ST Lx Ly Lz a x y z) :
    (ind Pauli.Z b [step (2*Lx) x (sgnX a), y, z] + ind Pauli.Z b [x, step (2*Ly) y (sgnY a), z]
      + ind Pauli.Z b [x, y, step (2*Lz) z (sgnZ a x y z)]) % 2 = 0 := by
  have h : opAntiCount (getStab Lx Ly Lz [a, x, y, z]) b % 2 = 0 :=
    hb [a, x, y, z] ((mem_stabs_tri Lx Ly Lz a x y z).mpr hv)
  rw [getStab_tri Lx Ly Lz a x y z hv, triKeys_eq hv, opAntiCount_constOp_hit] at h
  unfold triLocs at h
  simp only [List.countP_cons, List.countP_nil] at h
  unfold Lat2D.ind
  omega

theorem step_pos (P : Nat) (v : Int) : step P v 1 = v + 1 := by unfold step; rw [if_pos rfl]
theorem step_neg (P : Nat) (v : Int) : step P v (-1) = dn P v := by
  unfold step; rw [if_neg (by decide)]

/-- the xy star of a vertex (product of the triangles of axis 0 and 1) -/
theorem starXY_even {b : Op} (hb : CommStabs Lx Ly Lz b) {x y z : Int} (hx : R0 (2*Lx) x)
    (hy : R0 (2*Ly) y) (hz : R0 (2*Lz) z) {xp xm yp ym : Int} (e1 : x + 1 = xp)
    (e2 : dn (2*Lx) x = xm) (e3 : y + 1 = yp) (e4 : dn (2*Ly) y = ym) :
    (ind Pauli.Z b [xp, y, z] + ind Pauli.Z b [xm, y, z] + ind Pauli.Z b [x, yp, z]
      + ind Pauli.Z b [x, ym, z]) % 2 = 0 := by
  have h0 := tri_even hb (a := 0) (x := x) (y := y) (z := z) ⟨Or.inl rfl, hx, hy, hz⟩
  have h1 := tri_even hb (a := 1) (x := x) (y := y) (z := z) ⟨Or.inr (Or.inl rfl), hx, hy, hz⟩
  have a0 : sgnX 0 = 1 := by decide
  have a1 : sgnY 0 = 1 := by decide
  have a2 : sgnX 1 = -1 := by decide
  have a3 : sgnY 1 = -1 := by decide
  have a4 : sgnZ 1 x y z = sgnZ 0 x y z := by unfold sgnZ; split <;> simp
  rw [a0, a1, step_pos, step_pos] at h0
  rw [a2, a3, a4, step_neg, step_neg] at h1
  subst e1 e2 e3 e4
  omega

/-- the yz star of a vertex (product of the triangles of axis 0 and 2) -/
theorem starYZ_even {b : Op} (hb : CommStabs Lx Ly Lz b) {x y z : Int} (hx : R0 (2*Lx) x)
    (hy : R0 (2*Ly) y) (hz : R0 (2*Lz) z) {yp ym zp zm : Int} (e1 : y + 1 = yp)
    (e2 : dn (2*Ly) y = ym) (e3 : z + 1 = zp) (e4 : dn (2*Lz) z = zm) :
    (ind Pauli.Z b [x, yp, z] + ind Pauli.Z b [x, ym, z] + ind Pauli.Z b [x, y, zp]
      + ind Pauli.Z b [x, y, zm]) % 2 = 0 := by
  have h0 := tri_even hb (a := 0) (x := x) (y := y) (z := z) ⟨Or.inl rfl, hx, hy, hz⟩
  have h2 := tri_even hb (a := 2) (x := x) (y := y) (z := z)
    ⟨Or.inr (Or.inr (Or.inl rfl)), hx, hy, hz⟩
  have a0 : sgnX 0 = 1 := by decide
  have a1 : sgnY 0 = 1 := by decide
  have a2 : sgnX 2 = 1 := by decide
  have a3 : sgnY 2 = -1 := by decide
  rw [a0, a1, step_pos, step_pos] at h0
  rw [a2, a3, step_pos, step_neg] at h2
  subst e1 e2 e3 e4
  by_cases hp : (x + y + z) % 4 = 0
  · have b0 : sgnZ 0 x y z = 1 := by unfold sgnZ; rw [if_pos hp]; rfl
    have b2 : sgnZ 2 x y z = -1 := by unfold sgnZ; rw [if_pos hp]; rfl
    rw [b0, step_pos] at h0
    rw [b2, step_neg] at h2
    omega
  · have b0 : sgnZ 0 x y z = -1 := by unfold sgnZ; rw [if_neg hp]; rfl
    have b2 : sgnZ 2 x y z = 1 := by unfold sgnZ; rw [if_neg hp]; rfl
    rw [b0, step_neg] at h0
    rw [b2, step_pos] at h2
    omega

/-! ### the translates -/

/-- `Z̄₁` (y-edges `(x, 1, 0)`, all `x`) translated along y: the edges `(x, 2i + 1, 0)` -/
def tLineX (Lx : Nat) (i : Nat) : List Coord :=
  (pyRange2 0 (2 * Lx)).map fun x => [x, 2 * (i : Int) + 1, 0]
/-- `Z̄₂` (x-edges `(1, y, 0)`, all `y`) translated along x: the edges `(2i + 1, y, 0)` -/
def tLineY (Ly : Nat) (i : Nat) : List Coord :=
  (pyRange2 0 (2 * Ly)).map fun y => [2 * (i : Int) + 1, y, 0]
/-- `Z̄₃` (y-edges `(0, 1, z)`, all `z`) translated along y: the edges `(0, 2i + 1, z)` -/
def tLineZ (Lz : Nat) (i : Nat) : List Coord :=
  (pyRange2 0 (2 * Lz)).map fun z => [0, 2 * (i : Int) + 1, z]

/-- `X̄₁` (all y- and z-edges of the plane `x = 0`) translated along x: the plane `x = 2i` -/
def tSheetX (Ly Lz : Nat) (i : Nat) : List Coord :=
  plane2 Ly Lz (fun j k => [2 * (i : Int), 2 * (j : Int) + 1, 2 * (k : Int)]) ++
  plane2 Ly Lz (fun j k => [2 * (i : Int), 2 * (j : Int), 2 * (k : Int) + 1])
/-- `X̄₂` (all x- and z-edges of the plane `y = 0`) translated along y: the plane `y = 2i` -/
def tSheetY (Lx Lz : Nat) (i : Nat) : List Coord :=
  plane2 Lx Lz (fun j k => [2 * (j : Int) + 1, 2 * (i : Int), 2 * (k : Int)]) ++
  plane2 Lx Lz (fun j k => [2 * (j : Int), 2 * (i : Int), 2 * (k : Int) + 1])
/-- `X̄₃` (all x- and y-edges of the plane `z = 0`) translated along z: the plane `z = 2i` -/
def tSheetZ (Lx Ly : Nat) (i : Nat) : List Coord :=
  plane2 Lx Ly (fun j k => [2 * (j : Int) + 1, 2 * (k : Int), 2 * (i : Int)]) ++
  plane2 Lx Ly (fun j k => [2 * (j : Int), 2 * (k : Int) + 1, 2 * (i : Int)])

theorem lineX_eq (Lx : Nat) : lineX Lx = tLineX Lx 0 := rfl
theorem lineY_eq (Ly : Nat) : lineY Ly = tLineY Ly 0 := rfl
theorem lineZ_eq (Lz : Nat) : lineZ Lz = tLineZ Lz 0 := rfl

/-! ### the six parity statements -/

section parity
variable {b : Op} (hb : CommStabs Lx Ly Lz b)
include hb

/-- `Z̄₁`: translates at `y = 2i + 1`, through the xy stars at `(2j, 2i + 2, 0)` -/
theorem parity_Z0 (hz : 1 ≤ Lz) (i : Nat) (hi : i < Ly) :
    (tLineX Lx i).countP (opHit Pauli.Z b) % 2 = (tLineX Lx 0).countP (opHit Pauli.Z b) % 2 := by
  unfold tLineX
  rw [countP_lineE, countP_lineE]
  refine ladderP Lx Ly (fun i j => ind Pauli.Z b [2 * (j : Int), 2 * (i : Int) + 1, 0])
    (fun i j => ind Pauli.Z b [2 * (j : Int) + 1, 2 * (i : Int) + 2, 0]) ?_ i hi
  intro i hi j hj
  have h := starXY_even hb (x := 2 * (j : Int)) (y := 2 * (i : Int) + 2) (z := 0)
    (by unfold R0; omega) (by unfold R0; omega) (by unfold R0; omega)
    (xp := 2 * (j : Int) + 1) (xm := 2 * ((wrapP Lx j : Nat) : Int) + 1)
    (yp := 2 * ((i + 1 : Nat) : Int) + 1) (ym := 2 * (i : Int) + 1) rfl (dn_even_nat hj)
    (by omega) (by rw [dn_pos _ (by omega)]; omega)
  omega

/-- `Z̄₂`: translates at `x = 2i + 1`, through the xy stars at `(2i + 2, 2j, 0)` -/
theorem parity_Z1 (hz : 1 ≤ Lz) (i : Nat) (hi : i < Lx) :
    (tLineY Ly i).countP (opHit Pauli.Z b) % 2 = (tLineY Ly 0).countP (opHit Pauli.Z b) % 2 := by
  unfold tLineY
  rw [countP_lineE, countP_lineE]
  refine ladderP Ly Lx (fun i j => ind Pauli.Z b [2 * (i : Int) + 1, 2 * (j : Int), 0])
    (fun i j => ind Pauli.Z b [2 * (i : Int) + 2, 2 * (j : Int) + 1, 0]) ?_ i hi
  intro i hi j hj
  have h := starXY_even hb (x := 2 * (i : Int) + 2) (y := 2 * (j : Int)) (z := 0)
    (by unfold R0; omega) (by unfold R0; omega) (by unfold R0; omega)
    (xp := 2 * ((i + 1 : Nat) : Int) + 1) (xm := 2 * (i : Int) + 1)
    (yp := 2 * (j : Int) + 1) (ym := 2 * ((wrapP Ly j : Nat) : Int) + 1) (by omega)
    (by rw [dn_pos _ (by omega)]; omega) rfl (dn_even_nat hj)
  omega

/-- `Z̄₃`: translates at `y = 2i + 1`, through the yz stars at `(0, 2i + 2, 2k)` -/
theorem parity_Z2 (hx : 1 ≤ Lx) (i : Nat) (hi : i < Ly) :
    (tLineZ Lz i).countP (opHit Pauli.Z b) % 2 = (tLineZ Lz 0).countP (opHit Pauli.Z b) % 2 := by
  unfold tLineZ
  rw [countP_lineE, countP_lineE]
  refine ladderP Lz Ly (fun i k => ind Pauli.Z b [0, 2 * (i : Int) + 1, 2 * (k : Int)])
    (fun i k => ind Pauli.Z b [0, 2 * (i : Int) + 2, 2 * (k : Int) + 1]) ?_ i hi
  intro i hi k hk
  have h := starYZ_even hb (x := 0) (y := 2 * (i : Int) + 2) (z := 2 * (k : Int))
    (by unfold R0; omega) (by unfold R0; omega) (by unfold R0; omega)
    (yp := 2 * ((i + 1 : Nat) : Int) + 1) (ym := 2 * (i : Int) + 1)
    (zp := 2 * (k : Int) + 1) (zm := 2 * ((wrapP Lz k : Nat) : Int) + 1) (by omega)
    (by rw [dn_pos _ (by omega)]; omega) rfl (dn_even_nat hk)
  omega

/-- `X̄₁`: planes `x = 2i`, through the coloured cubes `(2i + 1, 2j + 1, 2k + 1)` -/
theorem parity_X0 (hx : 2 ≤ Lx) (hy : 2 ≤ Ly) (hz : 2 ≤ Lz) (hey : Ly % 2 = 0) (hez : Lz % 2 = 0)
    (i : Nat) (hi : i < Lx) :
    (tSheetX Ly Lz i).countP (opHit Pauli.X b) % 2 =
      (tSheetX Ly Lz 0).countP (opHit Pauli.X b) % 2 := by
  unfold tSheetX
  rw [List.countP_append, List.countP_append, countP_plane2, countP_plane2, countP_plane2,
    countP_plane2]
  refine slab_checker Ly Lz Lx 0 hey hez
    (fun i j k => ind Pauli.X b [2 * (i : Int), 2 * (j : Int) + 1, 2 * (k : Int)])
    (fun i j k => ind Pauli.X b [2 * (i : Int), 2 * (j : Int), 2 * (k : Int) + 1])
    (fun i j k => ind Pauli.X b [2 * (i : Int) + 1, 2 * (j : Int), 2 * (k : Int)]) ?_ i hi
  intro i hi j k hj hk hc
  have hv : SC Lx Ly Lz (2 * (i : Int) + 1) (2 * (j : Int) + 1) (2 * (k : Int) + 1) := by
    unfold SC R1; omega
  have h := cube_even hx hy hz hb hv (xm := 2 * (i : Int)) (xp := 2 * ((i + 1 : Nat) : Int))
    (ym := 2 * (j : Int)) (yp := 2 * ((wrapS Ly j : Nat) : Int))
    (zm := 2 * (k : Int)) (zp := 2 * ((wrapS Lz k : Nat) : Int)) (by omega)
    (by rw [up_nowrap _ (by omega)]; omega) (by omega) (up_odd_nat hj) (by omega) (up_odd_nat hk)
  omega

/-- `X̄₂`: planes `y = 2i`, through the coloured cubes `(2j + 1, 2i + 1, 2k + 1)` -/
theorem parity_X1 (hx : 2 ≤ Lx) (hy : 2 ≤ Ly) (hz : 2 ≤ Lz) (hex : Lx % 2 = 0) (hez : Lz % 2 = 0)
    (i : Nat) (hi : i < Ly) :
    (tSheetY Lx Lz i).countP (opHit Pauli.X b) % 2 =
      (tSheetY Lx Lz 0).countP (opHit Pauli.X b) % 2 := by
  unfold tSheetY
  rw [List.countP_append, List.countP_append, countP_plane2, countP_plane2, countP_plane2,
    countP_plane2]
  refine slab_checker Lx Lz Ly 0 hex hez
    (fun i j k => ind Pauli.X b [2 * (j : Int) + 1, 2 * (i : Int), 2 * (k : Int)])
    (fun i j k => ind Pauli.X b [2 * (j : Int), 2 * (i : Int), 2 * (k : Int) + 1])
    (fun i j k => ind Pauli.X b [2 * (j : Int), 2 * (i : Int) + 1, 2 * (k : Int)]) ?_ i hi
  intro i hi j k hj hk hc
  have hv : SC Lx Ly Lz (2 * (j : Int) + 1) (2 * (i : Int) + 1) (2 * (k : Int) + 1) := by
    unfold SC R1; omega
  have h := cube_even hx hy hz hb hv (xm := 2 * (j : Int)) (xp := 2 * ((wrapS Lx j : Nat) : Int))
    (ym := 2 * (i : Int)) (yp := 2 * ((i + 1 : Nat) : Int))
    (zm := 2 * (k : Int)) (zp := 2 * ((wrapS Lz k : Nat) : Int)) (by omega) (up_odd_nat hj)
    (by omega) (by rw [up_nowrap _ (by omega)]; omega) (by omega) (up_odd_nat hk)
  omega

/-- `X̄₃`: planes `z = 2i`, through the coloured cubes `(2j + 1, 2k + 1, 2i + 1)` -/
theorem parity_X2 (hx : 2 ≤ Lx) (hy : 2 ≤ Ly) (hz : 2 ≤ Lz) (hex : Lx % 2 = 0) (hey : Ly % 2 = 0)
    (i : Nat) (hi : i < Lz) :
    (tSheetZ Lx Ly i).countP (opHit Pauli.X b) % 2 =
      (tSheetZ Lx Ly 0).countP (opHit Pauli.X b) % 2 := by
  unfold tSheetZ
  rw [List.countP_append, List.countP_append, countP_plane2, countP_plane2, countP_plane2,
    countP_plane2]
  refine slab_checker Lx Ly Lz 0 hex hey
    (fun i j k => ind Pauli.X b [2 * (j : Int) + 1, 2 * (k : Int), 2 * (i : Int)])
    (fun i j k => ind Pauli.X b [2 * (j : Int), 2 * (k : Int) + 1, 2 * (i : Int)])
    (fun i j k => ind Pauli.X b [2 * (j : Int), 2 * (k : Int), 2 * (i : Int) + 1]) ?_ i hi
  intro i hi j k hj hk hc
  have hv : SC Lx Ly Lz (2 * (j : Int) + 1) (2 * (k : Int) + 1) (2 * (i : Int) + 1) := by
    unfold SC R1; omega
  have h := cube_even hx hy hz hb hv (xm := 2 * (j : Int)) (xp := 2 * ((wrapS Lx j : Nat) : Int))
    (ym := 2 * (k : Int)) (yp := 2 * ((wrapS Ly k : Nat) : Int))
    (zm := 2 * (i : Int)) (zp := 2 * ((i + 1 : Nat) : Int)) (by omega) (up_odd_nat hj)
    (by omega) (up_odd_nat hk) (by omega) (by rw [up_nowrap _ (by omega)]; omega)
  omega

end parity

end Panqec.RhombicToricCode
