/-
Union-find internals (C05), peeling, part C: the state after one round in closed form and the
preservation of the invariant.
-/
import PanqecVerif.Proofs.UnionFindPeelB

namespace Panqec.UF

set_option linter.unusedSimpArgs false
set_option linter.unusedVariables false

/-- the state after one round of `peel`, in closed form -/
def nextSt (H : Mat) (stabs qubits : Nat → Bool) (S0 : Nat → Nat → Bool) (st : PeelSt) : PeelSt :=
  { S := fun p c => if c ∈ st.leaves then false else st.S p c,
    syn := updateSyndrome st.syn (st.leaves.map (parOf H.length S0)) st.leaves,
    leaves := unique ((st.leaves.map (parOf H.length S0)).filter fun p =>
      (List.range H.length).all fun c => !(if c ∈ st.leaves then false else st.S p c)),
    corr := st.corr ++ (st.leaves.filter st.syn).map
      (fun c => eOf H stabs qubits (parOf H.length S0 c) c),
    rounds := st.rounds ++ [⟨st.leaves.map (parOf H.length S0), st.leaves,
      (List.range H.length).map st.syn⟩] }

theorem updateSyndrome_eq (syn : Nat → Bool) (par : Nat → Nat) (l : List Nat) (s : Nat) :
    updateSyndrome syn (l.map par) l s =
      if s ∈ l then false
      else (syn s != decide (l.countP (fun c => decide (par c = s) && syn c) % 2 = 1)) := by
  unfold updateSyndrome clearLeaves
  rw [zip_map_map, toggle_fold, List.countP_map]
  rfl

section
variable {H : Mat} {stabs qubits : Nat → Bool} {root : Nat} {S0 : Nat → Nat → Bool}
  {syn0 : Nat → Bool} {al : Nat → Bool} {st : PeelSt}

theorem add_eq (st : PeelSt) :
    (((st.leaves.map (parOf H.length S0)).zip st.leaves).flatMap fun pc =>
      if st.syn pc.2 = true then [firstShared H stabs qubits pc.1 pc.2] else []) =
    (st.leaves.filter st.syn).map (fun c => eOf H stabs qubits (parOf H.length S0 c) c) := by
  rw [zip_map_self, List.flatMap_map, ← flatMap_ite_singleton]
  rfl

theorem peelRound_eq (G : GraphOK H) (hst : ∀ s, stabs s = true → s < H.length)
    (T : TreeOK H stabs qubits root S0) (I : PInv H stabs qubits S0 syn0 al st)
    (hroot : root ∉ st.leaves) (hn : ncols H ≠ 0) :
    peelRound H stabs qubits st = .ok (nextSt H stabs qubits S0 st) := by
  unfold peelRound
  simp only []
  rw [parents_eq hst T I hroot]
  rw [if_neg (by simp), if_neg hn]
  rw [add_eq st]
  simp only [tabGet_tabArr]
  rfl

/-- two tree edges with the same edge qubit have the same child -/
theorem edge_inj (G : GraphOK H) (T : TreeOK H stabs qubits root S0) {p c p' c' : Nat}
    (h : S0 p c = true) (h' : S0 p' c' = true)
    (he : eOf H stabs qubits p c = eOf H stabs qubits p' c') : c = c' := by
  have e1 := (edge_spec G T h).2
  have e2 := (edge_spec G T h').2
  rw [← he] at e2
  have hc' : c' = p ∨ c' = c := (e1 c').mp ((e2 c').mpr (Or.inr rfl))
  have hp' : p' = p ∨ p' = c := (e1 p').mp ((e2 p').mpr (Or.inl rfl))
  rcases hc' with hc' | hc'
  · have hne := (T.mem p' c' h').2.2.1
    rcases hp' with hp' | hp'
    · exact absurd (hp'.trans hc'.symm) hne
    · subst hp' hc'
      obtain ⟨lv, B, hlv⟩ := T.lv
      have := (hlv _ _ h).1; have := (hlv _ _ h').1; omega
  · exact hc'.symm

/-- no leaf is the parent of a leaf -/
theorem leaf_not_parent (hst : ∀ s, stabs s = true → s < H.length)
    (T : TreeOK H stabs qubits root S0) (I : PInv H stabs qubits S0 syn0 al st)
    (hroot : root ∉ st.leaves) {s c : Nat} (hs : s ∈ st.leaves) (hc : c ∈ st.leaves) :
    parOf H.length S0 c ≠ s := by
  intro h
  have he := leaf_edge hst T I hroot hc
  rw [h] at he
  have := leaf_no_child I hs he
  rw [leaf_alive I hc] at this; exact absurd this (by simp)

theorem b2n_xor_odd (x : Bool) (k : Nat) : (b2n (x != decide (k % 2 = 1)) + k) % 2 = b2n x % 2 := by
  rcases Nat.mod_two_eq_zero_or_one k with h | h <;> cases x <;> simp [h] <;> omega

/-- **one round preserves the invariant** (on the stabilizers that are still alive) -/
theorem PInv_next (G : GraphOK H) (hst : ∀ s, stabs s = true → s < H.length)
    (T : TreeOK H stabs qubits root S0) (I : PInv H stabs qubits S0 syn0 al st)
    (hroot : root ∉ st.leaves) :
    PInv H stabs qubits S0 syn0 (fun v => al v && !decide (v ∈ st.leaves))
      (nextSt H stabs qubits S0 st) := by
  have hpar : ∀ c, c ∈ st.leaves → S0 (parOf H.length S0 c) c = true :=
    fun c hc => leaf_edge hst T I hroot hc
  have hk1 : ∀ s, s ∈ st.leaves →
      st.leaves.countP (fun c => decide (parOf H.length S0 c = s) && st.syn c) = 0 := by
    intro s hs
    apply countP_eq_zero'
    intro c hc
    have := leaf_not_parent hst T I hroot hs hc
    simp [this]
  refine ⟨?_, ?_, ?_, ?_, ?_, ?_, ?_, ?_, ?_, ?_⟩
  · -- S_eq
    intro p c
    show (if c ∈ st.leaves then false else st.S p c) = _
    rw [I.S_eq]
    by_cases hc : c ∈ st.leaves <;> simp [hc]
  · -- al_stabs
    intro v hv
    simp only [Bool.and_eq_true] at hv
    exact I.al_stabs v hv.1
  · -- al_up
    intro p c hpc hc
    simp only [Bool.and_eq_true, Bool.not_eq_true', decide_eq_false_iff_not] at hc ⊢
    refine ⟨I.al_up p c hpc hc.1, ?_⟩
    intro hp
    have := leaf_no_child I hp hpc
    rw [hc.1] at this; exact absurd this (by simp)
  · -- leaves_iff
    intro v
    show v ∈ unique _ ↔ _
    rw [mem_unique, List.mem_filter, List.mem_map, List.all_eq_true]
    simp only [Bool.and_eq_true, Bool.not_eq_true', decide_eq_false_iff_not]
    constructor
    · rintro ⟨⟨c0, hc0, rfl⟩, hall⟩
      have he := hpar c0 hc0
      have hac0 := leaf_alive I hc0
      refine ⟨⟨I.al_up _ _ he hac0, ?_⟩, ?_⟩
      · intro hv
        have := leaf_no_child I hv he
        rw [hac0] at this; exact absurd this (by simp)
      · intro c
        show (if c ∈ st.leaves then false else st.S _ c) = false
        by_cases hcm : c < H.length
        · have := hall c (List.mem_range.mpr hcm)
          simpa using this
        · by_cases hcl : c ∈ st.leaves
          · simp [hcl]
          · simp only [hcl, if_false]
            rw [I.S_eq]
            cases hac : al c
            · simp
            · exact absurd (hst c (I.al_stabs c hac)) hcm
    · rintro ⟨⟨hav, hvl⟩, hno⟩
      have hex : ∃ c, st.S v c = true := by
        by_contra hcon
        push Not at hcon
        exact hvl ((I.leaves_iff v).mpr ⟨hav, fun c => by simpa using hcon c⟩)
      obtain ⟨c, hc⟩ := hex
      have hcl : c ∈ st.leaves := by
        by_contra hcl
        have := hno c
        simp only [nextSt, hcl, if_false] at this
        rw [hc] at this; exact absurd this (by simp)
      have hS0 : S0 v c = true := by
        rw [I.S_eq] at hc; simp only [Bool.and_eq_true] at hc; exact hc.1
      refine ⟨⟨c, hcl, parOf_eq hst T hS0⟩, ?_⟩
      intro x _
      have := hno x
      simpa [nextSt] using this
  · exact nodup_unique _
  · -- syn_al
    intro s hs
    change updateSyndrome st.syn (st.leaves.map (parOf H.length S0)) st.leaves s = true at hs
    rw [updateSyndrome_eq] at hs
    by_cases hsl : s ∈ st.leaves
    · simp [hsl] at hs
    · simp only [hsl, if_false] at hs
      simp only [Bool.and_eq_true, Bool.not_eq_true', decide_eq_false_iff_not]
      refine ⟨?_, hsl⟩
      cases hss : st.syn s
      · rw [hss] at hs
        have hk : st.leaves.countP (fun c => decide (parOf H.length S0 c = s) && st.syn c) ≠ 0 := by
          intro h0; rw [h0] at hs; simp at hs
        obtain ⟨c, hc, hpc⟩ := List.countP_pos_iff.mp (Nat.pos_of_ne_zero hk)
        simp only [Bool.and_eq_true, decide_eq_true_eq] at hpc
        have := hpar c hc
        rw [hpc.1] at this
        exact I.al_up s c this (leaf_alive I hc)
      · exact I.syn_al s hss
  · -- bdry
    intro s
    show ((st.corr ++ (st.leaves.filter st.syn).map
        (fun c => eOf H stabs qubits (parOf H.length S0 c) c)).countP (fun q => hb H s q) +
      b2n (updateSyndrome st.syn (st.leaves.map (parOf H.length S0)) st.leaves s)) % 2 = b2n (syn0 s)
    rw [List.countP_append, List.countP_map, List.countP_filter, updateSyndrome_eq]
    have hcong : st.leaves.countP (fun a =>
          ((fun q => hb H s q) ∘ fun c => eOf H stabs qubits (parOf H.length S0 c) c) a && st.syn a) =
        st.leaves.countP (fun c => (decide (parOf H.length S0 c = s) && st.syn c) ||
          (st.syn c && decide (s = c))) := by
      apply countP_congr'
      intro c hc
      have hspec := (edge_spec G T (hpar c hc)).2 s
      simp only [Function.comp]
      cases hh : hb H s (eOf H stabs qubits (parOf H.length S0 c) c)
      · have : ¬ (s = parOf H.length S0 c ∨ s = c) := fun h => by
          rw [hspec.mpr h] at hh; exact absurd hh (by simp)
        push Not at this
        have h1 : ¬ parOf H.length S0 c = s := fun h => this.1 h.symm
        simp [h1, this.2]
      · rcases hspec.mp hh with h | h
        · subst h
          cases st.syn c <;> simp
        · have hne : parOf H.length S0 c ≠ c := (T.mem _ _ (hpar c hc)).2.2.1
          subst h
          simp [hne]
    rw [hcong, countP_or_disjoint]
    · rw [countP_eq_nodup st.leaves I.leaves_nodup s st.syn]
      have hb := I.bdry s
      by_cases hsl : s ∈ st.leaves
      · simp only [hsl, if_true, hk1 s hsl, b2n_false]
        omega
      · simp only [hsl, if_false]
        have := b2n_xor_odd (st.syn s)
          (st.leaves.countP (fun c => decide (parOf H.length S0 c = s) && st.syn c))
        omega
    · intro c hc ⟨h1, h2⟩
      simp only [Bool.and_eq_true, decide_eq_true_eq] at h1 h2
      have hne : parOf H.length S0 c ≠ c := (T.mem _ _ (hpar c hc)).2.2.1
      exact hne (h1.1.trans h2.2)
  · -- even
    show cnt H.length (updateSyndrome st.syn (st.leaves.map (parOf H.length S0)) st.leaves) % 2 = 0
    have hlt : ∀ c, c ∈ st.leaves → c < H.length :=
      fun c hc => hst c (I.al_stabs c (leaf_alive I hc))
    unfold updateSyndrome clearLeaves
    show cnt H.length (fun i => if i ∈ st.leaves then false else
      (((st.leaves.map (parOf H.length S0)).zip (st.leaves.map st.syn)).foldl
        (fun (f : Nat → Bool) (pl : Nat × Bool) => fun i => if i = pl.1 then (f i != pl.2) else f i)
        st.syn) i) % 2 = 0
    have h1 := clear_cnt H.length st.leaves I.leaves_nodup hlt
      (((st.leaves.map (parOf H.length S0)).zip (st.leaves.map st.syn)).foldl
        (fun (f : Nat → Bool) (pl : Nat × Bool) => fun i => if i = pl.1 then (f i != pl.2) else f i)
        st.syn)
    have h2 := toggle_fold_cnt H.length
      ((st.leaves.map (parOf H.length S0)).zip (st.leaves.map st.syn)) st.syn (by
        intro pl hpl
        rw [zip_map_map, List.mem_map] at hpl
        obtain ⟨c, hc, rfl⟩ := hpl
        exact hst _ (T.mem _ _ (hpar c hc)).1)
    have h3 : ((st.leaves.map (parOf H.length S0)).zip (st.leaves.map st.syn)).countP (fun pl => pl.2) =
        st.leaves.countP st.syn := by
      rw [zip_map_map, List.countP_map]; rfl
    have h4 : st.leaves.countP
        (((st.leaves.map (parOf H.length S0)).zip (st.leaves.map st.syn)).foldl
          (fun (f : Nat → Bool) (pl : Nat × Bool) => fun i => if i = pl.1 then (f i != pl.2) else f i)
          st.syn) = st.leaves.countP st.syn := by
      apply countP_congr'
      intro c hc
      rw [zip_map_map, toggle_fold, List.countP_map]
      rw [show List.countP ((fun pl : Nat × Bool => decide (pl.1 = c) && pl.2) ∘
        fun c => (parOf H.length S0 c, st.syn c)) st.leaves = 0 from hk1 c hc]
      simp
    have h5 := I.even
    rw [h3] at h2
    rw [h4] at h1
    omega
  · -- corr_nodup
    show (st.corr ++ (st.leaves.filter st.syn).map
        (fun c => eOf H stabs qubits (parOf H.length S0 c) c)).Nodup
    rw [List.nodup_append]
    refine ⟨I.corr_nodup, ?_, ?_⟩
    · apply List.Nodup.map_on
      · intro c hc c' hc' he
        have hcl := (List.mem_filter.mp hc).1
        have hcl' := (List.mem_filter.mp hc').1
        exact edge_inj G T (hpar c hcl) (hpar c' hcl') he
      · exact I.leaves_nodup.filter _
    · intro q hq q' hq' heq
      subst heq
      obtain ⟨c, hc, rfl⟩ := List.mem_map.mp hq'
      have hcl := (List.mem_filter.mp hc).1
      obtain ⟨p1, c1, h1, hal1, hadj⟩ := I.corr_removed _ hq
      have := edge_inj G T (hpar c hcl) h1 hadj
      subst this
      rw [leaf_alive I hcl] at hal1; exact absurd hal1 (by simp)
  · -- corr_removed
    intro q hq
    change q ∈ st.corr ++ _ at hq
    rcases List.mem_append.mp hq with hq | hq
    · obtain ⟨p1, c1, h1, hal1, hadj⟩ := I.corr_removed _ hq
      exact ⟨p1, c1, h1, by simp [hal1], hadj⟩
    · obtain ⟨c, hc, rfl⟩ := List.mem_map.mp hq
      have hcl := (List.mem_filter.mp hc).1
      exact ⟨_, c, hpar c hcl, by simp [hcl], rfl⟩

end

end Panqec.UF
