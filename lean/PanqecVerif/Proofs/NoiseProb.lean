/-
Helper lemmas for C18 (`error_probability`: product form, normalisation, likelihood ratios).
-/
import PanqecVerif.Proofs.Noise

namespace Panqec

/-! ### one entry of `prob_vector` -/

/-- numpy truthiness of an integer -/
def truth (x : Nat) : Nat := if x = 0 then 0 else 1

theorem probEntry_eq (d : Dist) (x z : Nat) :
    probEntry d x z = d.get (Pauli.ofBits (truth x) (truth z)) := by
  by_cases hx : x = 0 <;> by_cases hz : z = 0 <;>
    simp [probEntry, ind, truth, hx, hz, Pauli.ofBits, Dist.get]

theorem probEntry_bits (d : Dist) (σ : Pauli) : probEntry d σ.xBit σ.zBit = d.get σ := by
  cases σ <;> simp [probEntry, ind, Pauli.xBit, Pauli.zBit, Dist.get]

theorem oldProbEntry_bits (d : Dist) (σ : Pauli) :
    oldProbEntry d σ.xBit σ.zBit = d.get σ + (if σ = .I then d.y else 0) := by
  cases σ <;> simp [oldProbEntry, ind, Pauli.xBit, Pauli.zBit, Dist.get, add_comm]

theorem entriesGo_bits (f : Dist → Nat → Nat → Rat) : ∀ (ds : List Dist) (s : List Pauli),
    entriesGo f ds (s.map Pauli.xBit) (s.map Pauli.zBit) =
      List.zipWith (fun d σ => f d σ.xBit σ.zBit) ds s
  | [], s => by cases s <;> simp [entriesGo]
  | _ :: _, [] => by simp [entriesGo]
  | d :: ds, σ :: s => by simp [entriesGo, entriesGo_bits f ds s]

theorem probVectorWith_pauliToBsf (f : Dist → Nat → Nat → Rat) (ds : List Dist) (s : List Pauli)
    (h : s.length = ds.length) :
    probVectorWith f ds (pauliToBsf s) = some (List.zipWith (fun d σ => f d σ.xBit σ.zBit) ds s) := by
  unfold probVectorWith
  have hl : (pauliToBsf s).length = 2 * ds.length := by rw [pauliToBsf_length, h]
  simp only [hl, ne_eq, not_true_eq_false, if_false]
  have h1 : (pauliToBsf s).take ds.length = s.map Pauli.xBit := by
    simp [pauliToBsf, ← h]
  have h2 : (pauliToBsf s).drop ds.length = s.map Pauli.zBit := by
    simp [pauliToBsf, ← h]
  rw [h1, h2, entriesGo_bits]

theorem errorProbability_pauliToBsf (ds : List Dist) (s : List Pauli) (h : s.length = ds.length) :
    errorProbability ds (pauliToBsf s) = some (stringProb ds s) := by
  unfold errorProbability probVector
  rw [probVectorWith_pauliToBsf _ ds s h]
  simp only [Option.map_some, stringProb]
  have : (fun (d : Dist) (σ : Pauli) => probEntry d σ.xBit σ.zBit) = Dist.get := by
    funext d σ
    exact probEntry_bits d σ
  rw [this]

/-! ### sums over all strings -/

theorem ratSum_append (a b : List Rat) : ratSum (a ++ b) = ratSum a + ratSum b := by
  induction a with
  | nil => simp [ratSum]
  | cons x a ih => simp [ratSum, ih, add_assoc]

theorem ratSum_map_mul (c : Rat) (l : List Rat) : ratSum (l.map (c * ·)) = c * ratSum l := by
  induction l with
  | nil => simp [ratSum]
  | cons x l ih => simp [ratSum, ih, mul_add]

theorem stringProb_cons (d : Dist) (ds : List Dist) (σ : Pauli) (s : List Pauli) :
    stringProb (d :: ds) (σ :: s) = d.get σ * stringProb ds s := by
  simp [stringProb, ratProd]

theorem sum_stringProb : ∀ ds : List Dist,
    ratSum ((allPaulis ds.length).map (stringProb ds)) = ratProd (ds.map Dist.total)
  | [] => by simp [allPaulis, stringProb, ratSum, ratProd]
  | d :: ds => by
    have ih := sum_stringProb ds
    have key : ∀ σ : Pauli, ratSum (((allPaulis ds.length).map (σ :: ·)).map (stringProb (d :: ds))) =
        d.get σ * ratSum ((allPaulis ds.length).map (stringProb ds)) := by
      intro σ
      rw [← ratSum_map_mul, List.map_map, List.map_map]
      congr 1
    simp only [List.length_cons, allPaulis, List.flatMap_cons, List.flatMap_nil, List.append_nil,
      List.map_append, ratSum_append, key, ih, List.map_cons, ratProd, Dist.total, Dist.get]
    ring

theorem ratProd_eq_one_of_all_one : ∀ l : List Rat, (∀ x ∈ l, x = 1) → ratProd l = 1
  | [], _ => rfl
  | x :: l, h => by
    simp [ratProd, h x (by simp), ratProd_eq_one_of_all_one l (fun y hy => h y (by simp [hy]))]

theorem allPaulis_length : ∀ n, (allPaulis n).length = 4 ^ n
  | 0 => rfl
  | n + 1 => by simp [allPaulis, allPaulis_length n, Nat.pow_succ]; omega

theorem mem_allPaulis : ∀ (n : Nat) (s : List Pauli), s ∈ allPaulis n ↔ s.length = n
  | 0, s => by simp [allPaulis]
  | n + 1, s => by
    cases s with
    | nil => simp [allPaulis]
    | cons σ s =>
      have ih := mem_allPaulis n s
      cases σ <;> simp [allPaulis, ih]

/-! ### changing one qubit -/

theorem stringProb_set : ∀ (ds : List Dist) (s : List Pauli) (i : Nat) (d : Dist) (σ τ : Pauli),
    ds[i]? = some d → s[i]? = some σ →
    stringProb ds (s.set i τ) * d.get σ = stringProb ds s * d.get τ
  | [], _, _, _, _, _, h, _ => by simp at h
  | _ :: _, [], _, _, _, _, _, h => by simp at h
  | d0 :: ds, σ0 :: s, 0, d, σ, τ, hd, hs => by
    simp only [List.getElem?_cons_zero, Option.some.injEq] at hd hs
    subst hd hs
    simp only [List.set_cons_zero, stringProb_cons]
    ring
  | d0 :: ds, σ0 :: s, i + 1, d, σ, τ, hd, hs => by
    simp only [List.getElem?_cons_succ] at hd hs
    have ih := stringProb_set ds s i d σ τ hd hs
    simp only [List.set_cons_succ, stringProb_cons]
    calc d0.get σ0 * stringProb ds (s.set i τ) * d.get σ
        = d0.get σ0 * (stringProb ds (s.set i τ) * d.get σ) := by ring
      _ = d0.get σ0 * (stringProb ds s * d.get τ) := by rw [ih]
      _ = d0.get σ0 * stringProb ds s * d.get τ := by ring

/-! ### lists -/

theorem mapM_eq_some_map {α β} (f : α → Option β) (g : α → β) : ∀ l : List α,
    (∀ x ∈ l, f x = some (g x)) → l.mapM f = some (l.map g)
  | [], _ => rfl
  | a :: l, h => by
    simp [List.mapM_cons, h a (by simp), mapM_eq_some_map f g l (fun x hx => h x (by simp [hx]))]

theorem sampleLetters_forall (P : Pauli → Prop) : ∀ (ds : List Dist) (us : List Rat),
    (∀ d ∈ ds, ∀ u ∈ us, P (fastChoice u d)) → ∀ σ ∈ sampleLetters ds us, P σ
  | [], _, _ => by simp [sampleLetters]
  | _ :: _, [], _ => by simp [sampleLetters]
  | d :: ds, u :: us, h => by
    intro σ hσ
    simp only [sampleLetters, List.zipWith_cons_cons, List.mem_cons] at hσ
    rcases hσ with rfl | hσ
    · exact h d (by simp) u (by simp)
    · exact sampleLetters_forall P ds us
        (fun d' hd' u' hu' => h d' (by simp [hd']) u' (by simp [hu'])) σ hσ

theorem generate_xbit (ds : List Dist) (us : List Rat) (q : Nat) (d : Dist) (u : Rat)
    (hd : ds[q]? = some d) (hu : us[q]? = some u) :
    (generate ds us)[q]? = some (fastChoice u d).xBit := by
  have hs := sampleLetters_get ds us q d u hd hu
  have hq : q < (sampleLetters ds us).length := by
    by_contra hc
    rw [List.getElem?_eq_none (by omega)] at hs
    simp at hs
  unfold generate pauliToBsf
  rw [List.getElem?_append_left (by simpa using hq), List.getElem?_map, hs]
  rfl

theorem generate_zbit (ds : List Dist) (us : List Rat) (q : Nat) (d : Dist) (u : Rat)
    (hd : ds[q]? = some d) (hu : us[q]? = some u) :
    (generate ds us)[(sampleLetters ds us).length + q]? = some (fastChoice u d).zBit := by
  have hs := sampleLetters_get ds us q d u hd hu
  unfold generate pauliToBsf
  rw [List.getElem?_append_right (by simp)]
  simp [List.getElem?_map, hs]

theorem errorProbability_binary (ds : List Dist) (e : List Nat) (hlen : e.length = 2 * ds.length)
    (hbin : ∀ x ∈ e, x < 2) : errorProbability ds e = some (stringProb ds (bsfToPauli e)) := by
  have h1 : pauliToBsf (bsfToPauli e) = e := pauliToBsf_bsfToPauli e (by omega) hbin
  have h2 : (bsfToPauli e).length = ds.length := by
    simp [bsfToPauli, xPart_length, zPart_length, hlen]; omega
  rw [← errorProbability_pauliToBsf ds (bsfToPauli e) h2, h1]

end Panqec
