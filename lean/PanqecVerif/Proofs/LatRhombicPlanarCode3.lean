/-
RhombicPlanarCode lattice model: the logical operators in closed form (the sheet `z = 0` of X, the
line of Z along z), their commutation with the stabilizers, the pairing, and the assembly of
`Lattice.CommPair`.  Sizes `Lx, Ly, Lz ≥ 1`.
-/
import PanqecVerif.Proofs.LatRhombicPlanarCode2
open Panqec Panqec.Lat3Db Panqec.Rhombic
namespace Panqec.RhombicPlanarCode

/-- the candidate locations of `get_logicals_x` -/
def sheetLocs (Lx Ly : Nat) : List Coord :=
  (pyRange (2*Lx)).flatMap fun x => (pyRange (2*Ly)).map fun y => [x, y, 0]

/-- key list of the logical X -/
def sheetKeys (Lx Ly Lz : Nat) : List Coord := (sheetLocs Lx Ly).filter (isQubit Lx Ly Lz)

/-- key list of the logical Z -/
def lineKeys (Lx Ly Lz : Nat) : List Coord :=
  (pyRange2 0 (2*Lz)).map fun z => [2*(Lx:Int)-1, 2*(Ly:Int)-2, z]

theorem mem_sheetLocs (Lx Ly : Nat) (p q r : Int) :
    [p, q, r] ∈ sheetLocs Lx Ly ↔ (0 ≤ p ∧ p < 2*Lx) ∧ (0 ≤ q ∧ q < 2*Ly) ∧ r = 0 := by
  unfold sheetLocs
  simp only [List.mem_flatMap, List.mem_map, mem_pyRange, List.cons.injEq, and_true]
  constructor
  · rintro ⟨x, hx, y, hy, rfl, rfl, rfl⟩; exact ⟨by omega, by omega, rfl⟩
  · rintro ⟨hp, hq, rfl⟩; exact ⟨p, by omega, q, by omega, rfl, rfl, rfl⟩

theorem nodup_sheetLocs (Lx Ly : Nat) : (sheetLocs Lx Ly).Nodup := by
  unfold sheetLocs
  rw [List.nodup_flatMap]
  refine ⟨fun x _ => (nodup_pyRange _).map (fun a b h => by simpa using h), ?_⟩
  refine List.Pairwise.imp_of_mem ?_ (nodup_pyRange (2*Lx))
  intro a b _ _ hab
  simp only [Function.onFun, List.Disjoint, List.mem_map]
  rintro c ⟨y, _, rfl⟩ ⟨y', _, h⟩
  simp only [List.cons.injEq, and_true] at h
  exact hab h.1.symm

theorem nodup_sheetKeys (Lx Ly Lz : Nat) : (sheetKeys Lx Ly Lz).Nodup := (nodup_sheetLocs Lx Ly).filter _

theorem mem_lineKeys (Lx Ly Lz : Nat) (p q r : Int) :
    [p, q, r] ∈ lineKeys Lx Ly Lz ↔ p = 2*(Lx:Int)-1 ∧ q = 2*(Ly:Int)-2 ∧ R0 (2*Lz) r := by
  unfold lineKeys
  simp only [List.mem_map, mem_pyRange2_0, List.cons.injEq, and_true]
  constructor
  · rintro ⟨t, ht, rfl, rfl, rfl⟩; exact ⟨rfl, rfl, ht⟩
  · rintro ⟨rfl, rfl, ht⟩; exact ⟨r, ht, rfl, rfl, rfl⟩

theorem nodup_lineKeys (Lx Ly Lz : Nat) : (lineKeys Lx Ly Lz).Nodup :=
  (nodup_pyRange2 _ _).map (fun a b h => by simpa using h)

theorem lineKeys_qubits (Lx Ly Lz : Nat) (hx : 1 ≤ Lx) (hy : 1 ≤ Ly) :
    ∀ q ∈ lineKeys Lx Ly Lz, isQubit Lx Ly Lz q = true := by
  intro q hq
  unfold lineKeys at hq
  rw [List.mem_map] at hq
  obtain ⟨z, hz, rfl⟩ := hq
  rw [mem_pyRange2_0] at hz
  rw [isQubit_iff]
  left
  unfold QX R1 R0
  unfold R0 at hz
  omega

theorem logX_eq (Lx Ly Lz : Nat) : logX Lx Ly Lz = [constOp (sheetKeys Lx Ly Lz) Pauli.X] := by
  simp only [logX, sheetKeys]
  congr 1
  exact buildOp_eq _ _ _ (nodup_sheetLocs Lx Ly)

theorem logZ_eq (Lx Ly Lz : Nat) : logZ Lx Ly Lz = [constOp (lineKeys Lx Ly Lz) Pauli.Z] := by
  simp only [logZ]
  congr 1
  exact dictOf_eq _ _ (nodup_lineKeys Lx Ly Lz)

/-- the logical X (sheet `z = 0`) meets a triangle in its x and y legs or not at all -/
theorem tri_sheet_even (Lx Ly Lz : Nat) (a vx vy vz : Int) (hv : ST Lx Ly Lz a vx vy vz) :
    ovl (triKeys Lx Ly Lz a vx vy vz) (sheetKeys Lx Ly Lz) % 2 = 0 := by
  obtain ⟨ha, hvx, hvy, hvz, hr⟩ := hv
  rw [rough_iff Ly a vy ha] at hr
  have hsx := sgnX_pm a
  have hsy := sgnY_pm a
  have hsz := sgnZ_pm a vx vy vz
  unfold triKeys sheetKeys
  rw [ovl_filter_filter]
  unfold triLocs
  simp only [ovl_cons_ind, ovl_nil]
  generalize sgnX a = sx at *
  generalize sgnY a = sy at *
  generalize sgnZ a vx vy vz = sz at *
  unfold R0 R2 at *
  have e1 : [vx + sx, vy, vz] ∈ (sheetLocs Lx Ly).filter (isQubit Lx Ly Lz) ↔ vz = 0 := by
    rw [List.mem_filter, mem_sheetLocs, isQubit_iff]
    unfold QX QY QZ R0 R1 R2
    constructor
    · rintro ⟨h, _⟩; exact h.2.2
    · intro h; exact ⟨by omega, Or.inl (by omega)⟩
  have e2 : [vx, vy + sy, vz] ∈ (sheetLocs Lx Ly).filter (isQubit Lx Ly Lz) ↔ vz = 0 := by
    rw [List.mem_filter, mem_sheetLocs, isQubit_iff]
    unfold QX QY QZ R0 R1 R2
    constructor
    · rintro ⟨h, _⟩; exact h.2.2
    · intro h; exact ⟨by omega, Or.inr (Or.inl (by omega))⟩
  have e3 : ¬ [vx, vy, vz + sz] ∈ (sheetLocs Lx Ly).filter (isQubit Lx Ly Lz) := by
    rw [List.mem_filter, mem_sheetLocs]
    rintro ⟨h, _⟩; omega
  rw [ind_congr e1, ind_congr e2, ind_neg e3]
  omega

/-- the logical Z (line of x edges in the corner `x = 2Lx-1`, `y = 2Ly-2`) meets a cube in two
    parallel edges or not at all -/
theorem cube_line_even (Lx Ly Lz : Nat) (hx : 1 ≤ Lx) (hy : 1 ≤ Ly) (cx cy cz : Int)
    (hc : SC Lx Ly Lz cx cy cz) :
    ovl (cubeKeys Lx Ly Lz cx cy cz) (lineKeys Lx Ly Lz) % 2 = 0 := by
  obtain ⟨hcx, hcy, hcz, _⟩ := hc
  unfold cubeKeys
  rw [ovl_filter_left _ _ _ (lineKeys_qubits Lx Ly Lz hx hy)]
  unfold R1 RM at *
  have n1 : ∀ q r, [cx + 1, q, r] ∉ lineKeys Lx Ly Lz := by
    intro q r; rw [mem_lineKeys]; omega
  have n2 : ∀ q r, [cx - 1, q, r] ∉ lineKeys Lx Ly Lz := by
    intro q r; rw [mem_lineKeys]; omega
  have e1 : ∀ q, [cx, q, cz + 1] ∈ lineKeys Lx Ly Lz ↔ (cx = 2*(Lx:Int)-1 ∧ q = 2*(Ly:Int)-2) := by
    intro q; rw [mem_lineKeys]; unfold R0; omega
  have e2 : ∀ q, [cx, q, cz - 1] ∈ lineKeys Lx Ly Lz ↔ (cx = 2*(Lx:Int)-1 ∧ q = 2*(Ly:Int)-2) := by
    intro q; rw [mem_lineKeys]; unfold R0; omega
  simp only [cubeLocs, ovl_cons_ind, ovl_nil, ind_neg (n1 _ _), ind_neg (n2 _ _), ind_congr (e1 _),
    ind_congr (e2 _)]
  omega

/-- the line meets the sheet in exactly one qubit -/
theorem line_sheet_one (Lx Ly Lz : Nat) (hx : 1 ≤ Lx) (hy : 1 ≤ Ly) (hz : 1 ≤ Lz) :
    ovl (lineKeys Lx Ly Lz) (sheetKeys Lx Ly Lz) = 1 := by
  unfold ovl lineKeys
  rw [List.countP_map]
  apply countP_iff_point _ 0 _ (nodup_pyRange2 _ _)
  · rw [mem_pyRange2_0]; unfold R0; omega
  · intro t ht
    rw [mem_pyRange2_0] at ht
    simp only [Function.comp, List.contains_iff_mem]
    unfold sheetKeys
    rw [List.mem_filter, mem_sheetLocs, isQubit_iff]
    unfold QX QY QZ R0 R1 R2
    unfold R0 at ht
    constructor
    · rintro ⟨h, _⟩; exact h.2.2
    · rintro rfl; exact ⟨by omega, Or.inl (by omega)⟩

theorem pairing (Lx Ly Lz : Nat) (hx : 1 ≤ Lx) (hy : 1 ≤ Ly) (hz : 1 ≤ Lz) (i j : Nat)
    (hi : i < (logX Lx Ly Lz).length) (hj : j < (logZ Lx Ly Lz).length) :
    opAntiCount ((logX Lx Ly Lz).getD i []) ((logZ Lx Ly Lz).getD j []) % 2 = if i = j then 1 else 0 := by
  rw [logX_eq] at hi ⊢
  rw [logZ_eq] at hj ⊢
  simp only [List.length_cons, List.length_nil] at hi hj
  have hi0 : i = 0 := by omega
  have hj0 : j = 0 := by omega
  subst hi0; subst hj0
  simp only [List.getD_cons_zero, if_true]
  rw [opAntiCount_constOp]
  have : Pauli.anti Pauli.X Pauli.Z = true := by decide
  rw [if_pos this, ovl_comm _ _ (nodup_sheetKeys Lx Ly Lz) (nodup_lineKeys Lx Ly Lz),
    line_sheet_one Lx Ly Lz hx hy hz]

theorem commPair (Lx Ly Lz : Nat) (hx : 1 ≤ Lx) (hy : 1 ≤ Ly) (hz : 1 ≤ Lz) :
    (lattice Lx Ly Lz).CommPair := by
  refine ⟨?_, ?_, ?_, ?_, ?_, ?_, ?_⟩
  · intro s hs t ht; exact stab_comm Lx Ly Lz s t hs ht
  · intro a ha s hs
    change a ∈ logX Lx Ly Lz at ha
    rw [logX_eq, List.mem_singleton] at ha
    subst ha
    change opCommute _ (getStab Lx Ly Lz s) = true
    rcases getStab_cases Lx Ly Lz s hs with ⟨k, hk, e⟩ | ⟨k, hk, e⟩ <;> rw [e]
    · exact opCommute_constOp_same _ _ _
    · obtain ⟨a, x, y, z, hv, rfl⟩ := hk
      exact opCommute_of_ovl_even' _ _ _ _ (nodup_sheetKeys Lx Ly Lz) (nodup_triKeys Lx Ly Lz a x y z)
        (tri_sheet_even Lx Ly Lz a x y z hv)
  · intro a ha s hs
    change a ∈ logZ Lx Ly Lz at ha
    rw [logZ_eq, List.mem_singleton] at ha
    subst ha
    change opCommute _ (getStab Lx Ly Lz s) = true
    rcases getStab_cases Lx Ly Lz s hs with ⟨k, hk, e⟩ | ⟨k, hk, e⟩ <;> rw [e]
    · obtain ⟨x, y, z, hc, rfl⟩ := hk
      exact opCommute_of_ovl_even' _ _ _ _ (nodup_lineKeys Lx Ly Lz) (nodup_cubeKeys Lx Ly Lz x y z)
        (cube_line_even Lx Ly Lz hx hy x y z hc)
    · exact opCommute_constOp_same _ _ _
  · change (logX Lx Ly Lz).length = (logZ Lx Ly Lz).length
    rw [logX_eq, logZ_eq]; rfl
  · intro i j hi hj; exact pairing Lx Ly Lz hx hy hz i j hi hj
  · intro a ha b hb
    change a ∈ logX Lx Ly Lz at ha
    change b ∈ logX Lx Ly Lz at hb
    rw [logX_eq, List.mem_singleton] at ha hb
    subst ha; subst hb
    exact opCommute_constOp_same _ _ _
  · intro a ha b hb
    change a ∈ logZ Lx Ly Lz at ha
    change b ∈ logZ Lx Ly Lz at hb
    rw [logZ_eq, List.mem_singleton] at ha hb
    subst ha; subst hb
    exact opCommute_constOp_same _ _ _

end Panqec.RhombicPlanarCode
