/-
`Planar3DCode`, every size with `1 ≤ Lx, Ly, Lz`: an explicit family of `n − k = n − 1` stabilizer
generators that is GF(2)-independent — all vertices, the xy faces of the layer `z = 0`, all yz
faces and all xz faces (one xy face per cube is left out: the product of the six faces of a cube is
the identity).  Independence by the triangular criterion: a vertex `(x,y,z)` is the only member of
rank ≤ `x` acting with Z on the edge `(x−1,y,z)`; a yz / xz face `(x,y,z)` is the only member of rank
≤ `2Lz − z` acting with X on the edge above it `(x,y,z+1)`; an xy face `(x,y,0)` is the only member
of rank ≤ `2Lz + y` acting with X on the edge `(x,y−1,0)`.
-/
import Mathlib.Tactic.Ring
import PanqecVerif.Proofs.LatCubic3DRank
import PanqecVerif.Proofs.LatPlanar3DCodeWF

set_option linter.unusedVariables false
set_option linter.unusedSimpArgs false

namespace Panqec.Planar3DCode
open Panqec.Cubic3D

theorem rankFamily_sublist {Lx Ly Lz : Nat} (hLz : 1 ≤ Lz) :
    (rankFamily Lx Ly Lz).Sublist (stabs Lx Ly Lz) := by
  unfold rankFamily stabs
  refine List.Sublist.append (List.Sublist.append (List.Sublist.append (List.Sublist.refl _) ?_)
    (List.Sublist.refl _)) (List.Sublist.refl _)
  apply grid_sublist
  rw [List.singleton_sublist, mem_range2]
  omega

theorem rankFamily_nodup {Lx Ly Lz : Nat} (hLz : 1 ≤ Lz) : (rankFamily Lx Ly Lz).Nodup :=
  (stabs_nodup Lx Ly Lz).sublist (rankFamily_sublist hLz)

theorem rankFamily_cases {Lx Ly Lz : Nat} (hLz : 1 ≤ Lz) {s : Coord}
    (h : s ∈ rankFamily Lx Ly Lz) :
    ∃ x y z, s = [x, y, z] ∧ (isVertex Lx Ly Lz x y z ∨ (isFaceXY Lx Ly Lz x y z ∧ z = 0) ∨
      isFaceYZ Lx Ly Lz x y z ∨ isFaceXZ Lx Ly Lz x y z) := by
  obtain ⟨x, y, z, rfl⟩ := shape_of_mem_stabs ((rankFamily_sublist hLz).subset h)
  refine ⟨x, y, z, rfl, ?_⟩
  simp only [rankFamily, List.mem_append, mem_grid3, mem_rangeE, mem_rangeO, mem_rangeE2,
    mem_rangeO1, List.mem_singleton] at h
  rcases h with ((h | h) | h) | h
  · exact Or.inl h
  · refine Or.inr (Or.inl ⟨⟨h.1, h.2.1, ?_⟩, h.2.2⟩)
    rw [h.2.2]; simp only [inE]; omega
  · exact Or.inr (Or.inr (Or.inl h))
  · exact Or.inr (Or.inr (Or.inr h))

theorem rankFamily_length {Lx Ly Lz : Nat} (hLx : 1 ≤ Lx) (hLy : 1 ≤ Ly) (hLz : 1 ≤ Lz) :
    (rankFamily Lx Ly Lz).length = (qubits Lx Ly Lz).length - 1 := by
  rw [qubits_length]
  simp only [rankFamily, List.length_append, length_grid, length_rangeE, length_rangeO,
    length_rangeE2, length_rangeO1, List.length_singleton]
  obtain ⟨a, rfl⟩ : ∃ a, Lx = a + 1 := ⟨Lx - 1, by omega⟩
  obtain ⟨b, rfl⟩ : ∃ b, Ly = b + 1 := ⟨Ly - 1, by omega⟩
  obtain ⟨c, rfl⟩ : ∃ c, Lz = c + 1 := ⟨Lz - 1, by omega⟩
  simp only [Nat.add_sub_cancel]
  have : (a + 1) * (b + 1) * (c + 1) + a * b * (c + 1) + a * (b + 1) * c =
      (a * (b + 1) * (c + 1) + (a + 1) * b * 1 + a * b * c + (a + 1) * (b + 1) * c) + 1 := by ring
  omega

/-! ### rank, witness location and component of each member -/

def rk (Lz : Nat) : Coord → Nat
  | [x, y, z] =>
    if x % 2 = 0 ∧ y % 2 = 0 then x.toNat
    else if z % 2 = 0 then 2 * Lz + y.toNat else (2 * (Lz : Int) - z).toNat
  | _ => 0

def wit : Coord → Coord
  | [x, y, z] =>
    if x % 2 = 0 ∧ y % 2 = 0 then [x - 1, y, z]
    else if z % 2 = 0 then [x, y - 1, z] else [x, y, z + 1]
  | q => q

/-- `true`: the witness is hit with an X component (faces); `false`: with a Z component (vertices) -/
def wx : Coord → Bool
  | [x, y, _] => !(decide (x % 2 = 0 ∧ y % 2 = 0))
  | _ => false

theorem hit_vertex {Lx Ly Lz : Nat} {a b c : Int} (h : isVertex Lx Ly Lz a b c) (bx : Bool)
    (q : Coord) : hit bx (getStab Lx Ly Lz [a, b, c]) q = (!bx && decide (q ∈ vertexKeys Lx Ly Lz a b c)) := by
  rw [getStab_vertex h]; cases bx <;> simp [hit, hitX_uop, hitZ_uop]

theorem hit_faceXY {Lx Ly Lz : Nat} {a b c : Int} (h : isFaceXY Lx Ly Lz a b c) (bx : Bool)
    (q : Coord) : hit bx (getStab Lx Ly Lz [a, b, c]) q = (bx && decide (q ∈ faceXYKeys Lx Ly Lz a b c)) := by
  rw [getStab_faceXY h]; cases bx <;> simp [hit, hitX_uop, hitZ_uop]

theorem hit_faceYZ {Lx Ly Lz : Nat} {a b c : Int} (h : isFaceYZ Lx Ly Lz a b c) (bx : Bool)
    (q : Coord) : hit bx (getStab Lx Ly Lz [a, b, c]) q = (bx && decide (q ∈ faceYZKeys Lx Ly Lz a b c)) := by
  rw [getStab_faceYZ h]; cases bx <;> simp [hit, hitX_uop, hitZ_uop]

theorem hit_faceXZ {Lx Ly Lz : Nat} {a b c : Int} (h : isFaceXZ Lx Ly Lz a b c) (bx : Bool)
    (q : Coord) : hit bx (getStab Lx Ly Lz [a, b, c]) q = (bx && decide (q ∈ faceXZKeys Lx Ly Lz a b c)) := by
  rw [getStab_faceXZ h]; cases bx <;> simp [hit, hitX_uop, hitZ_uop]

section eval
variable {Lx Ly Lz : Nat} {x y z : Int}

theorem eval_vertex (h : isVertex Lx Ly Lz x y z) :
    rk Lz [x, y, z] = x.toNat ∧ wit [x, y, z] = [x - 1, y, z] ∧ wx [x, y, z] = false := by
  obtain ⟨hx, hy, hz⟩ := h
  simp only [inE, inE2] at hx hy hz
  simp [rk, wit, wx, hx.2.2, hy.2.2]

theorem eval_faceXY (h : isFaceXY Lx Ly Lz x y z) :
    rk Lz [x, y, z] = 2 * Lz + y.toNat ∧ wit [x, y, z] = [x, y - 1, z] ∧ wx [x, y, z] = true := by
  obtain ⟨hx, hy, hz⟩ := h
  simp only [inE, inO, inO1] at hx hy hz
  simp [rk, wit, wx, hx.2.2, hy.2.2, hz.2.2]

theorem eval_faceYZ (h : isFaceYZ Lx Ly Lz x y z) :
    rk Lz [x, y, z] = (2 * (Lz : Int) - z).toNat ∧ wit [x, y, z] = [x, y, z + 1] ∧
      wx [x, y, z] = true := by
  obtain ⟨hx, hy, hz⟩ := h
  simp only [inE2, inO] at hx hy hz
  simp [rk, wit, wx, hx.2.2, hy.2.2, hz.2.2]

theorem eval_faceXZ (h : isFaceXZ Lx Ly Lz x y z) :
    rk Lz [x, y, z] = (2 * (Lz : Int) - z).toNat ∧ wit [x, y, z] = [x, y, z + 1] ∧
      wx [x, y, z] = true := by
  obtain ⟨hx, hy, hz⟩ := h
  simp only [inE, inO, inO1] at hx hy hz
  simp [rk, wit, wx, hx.2.2, hy.2.2, hz.2.2]
end eval

theorem self_vertex {Lx Ly Lz : Nat} {x y z : Int} (h : isVertex Lx Ly Lz x y z) :
    [x - 1, y, z] ∈ vertexKeys Lx Ly Lz x y z := by
  obtain ⟨hx, hy, hz⟩ := h
  simp only [inE, inO, inE2, inO1] at hx hy hz
  simp only [vertexKeys, List.mem_filter, isq_iff]
  refine ⟨by simp [vertexCands], ?_⟩
  rw [mem_qubits_x (by omega) (by omega) (by omega)]
  omega

theorem self_faceXY {Lx Ly Lz : Nat} {x y z : Int} (h : isFaceXY Lx Ly Lz x y z) :
    [x, y - 1, z] ∈ faceXYKeys Lx Ly Lz x y z := by
  obtain ⟨hx, hy, hz⟩ := h
  simp only [inE, inO, inE2, inO1] at hx hy hz
  simp only [faceXYKeys, List.mem_filter, isq_iff]
  refine ⟨by simp [faceXYCands], ?_⟩
  rw [mem_qubits_x (by omega) (by omega) (by omega)]
  omega

theorem self_faceYZ {Lx Ly Lz : Nat} {x y z : Int} (h : isFaceYZ Lx Ly Lz x y z) :
    [x, y, z + 1] ∈ faceYZKeys Lx Ly Lz x y z := by
  obtain ⟨hx, hy, hz⟩ := h
  simp only [inE, inO, inE2, inO1] at hx hy hz
  simp only [faceYZKeys, List.mem_filter, isq_iff]
  refine ⟨by simp [faceYZCands], ?_⟩
  rw [mem_qubits_y (by omega) (by omega) (by omega)]
  omega

theorem self_faceXZ {Lx Ly Lz : Nat} {x y z : Int} (h : isFaceXZ Lx Ly Lz x y z) :
    [x, y, z + 1] ∈ faceXZKeys Lx Ly Lz x y z := by
  obtain ⟨hx, hy, hz⟩ := h
  simp only [inE, inO, inE2, inO1] at hx hy hz
  simp only [faceXZKeys, List.mem_filter, isq_iff]
  refine ⟨by simp [faceXZCands], ?_⟩
  rw [mem_qubits_x (by omega) (by omega) (by omega)]
  omega

theorem tri_vertex_vertex {Lx Ly Lz : Nat} {x y z a b c : Int} (hs : isVertex Lx Ly Lz x y z)
    (ht : isVertex Lx Ly Lz a b c) (hm : [x - 1, y, z] ∈ vertexKeys Lx Ly Lz a b c) :
    [a, b, c] = [x, y, z] ∨ a.toNat < x.toNat := by
  obtain ⟨hx, hy, hz⟩ := hs
  obtain ⟨ha, hb, hc⟩ := ht
  simp only [inE, inO, inE2, inO1] at hx hy hz ha hb hc
  simp only [vertexKeys, List.mem_filter] at hm
  have hm := hm.1
  simp only [vertexCands, List.mem_cons, List.cons.injEq, List.not_mem_nil, and_true, or_false] at hm
  simp only [List.cons.injEq, and_true]
  omega

theorem tri_faceXY_faceXY {Lx Ly Lz : Nat} {x y z a b c : Int} (hs : isFaceXY Lx Ly Lz x y z) (hz0 : z = 0)
    (ht : isFaceXY Lx Ly Lz a b c) (hc0 : c = 0) (hm : [x, y - 1, z] ∈ faceXYKeys Lx Ly Lz a b c) :
    [a, b, c] = [x, y, z] ∨ 2 * Lz + b.toNat < 2 * Lz + y.toNat := by
  obtain ⟨hx, hy, hz⟩ := hs
  obtain ⟨ha, hb, hc⟩ := ht
  simp only [inE, inO, inE2, inO1] at hx hy hz ha hb hc
  simp only [faceXYKeys, List.mem_filter] at hm
  have hm := hm.1
  simp only [faceXYCands, List.mem_cons, List.cons.injEq, List.not_mem_nil, and_true, or_false] at hm
  simp only [List.cons.injEq, and_true]
  omega

theorem tri_faceXY_faceYZ {Lx Ly Lz : Nat} {x y z a b c : Int} (hs : isFaceXY Lx Ly Lz x y z) (hz0 : z = 0)
    (ht : isFaceYZ Lx Ly Lz a b c) (hm : [x, y - 1, z] ∈ faceYZKeys Lx Ly Lz a b c) :
    [a, b, c] = [x, y, z] ∨ (2 * (Lz : Int) - c).toNat < 2 * Lz + y.toNat := by
  obtain ⟨hx, hy, hz⟩ := hs
  obtain ⟨ha, hb, hc⟩ := ht
  simp only [inE, inO, inE2, inO1] at hx hy hz ha hb hc
  simp only [faceYZKeys, List.mem_filter] at hm
  have hm := hm.1
  simp only [faceYZCands, List.mem_cons, List.cons.injEq, List.not_mem_nil, and_true, or_false] at hm
  simp only [List.cons.injEq, and_true]
  omega

theorem tri_faceXY_faceXZ {Lx Ly Lz : Nat} {x y z a b c : Int} (hs : isFaceXY Lx Ly Lz x y z) (hz0 : z = 0)
    (ht : isFaceXZ Lx Ly Lz a b c) (hm : [x, y - 1, z] ∈ faceXZKeys Lx Ly Lz a b c) :
    [a, b, c] = [x, y, z] ∨ (2 * (Lz : Int) - c).toNat < 2 * Lz + y.toNat := by
  obtain ⟨hx, hy, hz⟩ := hs
  obtain ⟨ha, hb, hc⟩ := ht
  simp only [inE, inO, inE2, inO1] at hx hy hz ha hb hc
  simp only [faceXZKeys, List.mem_filter] at hm
  have hm := hm.1
  simp only [faceXZCands, List.mem_cons, List.cons.injEq, List.not_mem_nil, and_true, or_false] at hm
  simp only [List.cons.injEq, and_true]
  omega

theorem tri_faceYZ_faceXY {Lx Ly Lz : Nat} {x y z a b c : Int} (hs : isFaceYZ Lx Ly Lz x y z)
    (ht : isFaceXY Lx Ly Lz a b c) (hc0 : c = 0) (hm : [x, y, z + 1] ∈ faceXYKeys Lx Ly Lz a b c) :
    [a, b, c] = [x, y, z] ∨ 2 * Lz + b.toNat < (2 * (Lz : Int) - z).toNat := by
  obtain ⟨hx, hy, hz⟩ := hs
  obtain ⟨ha, hb, hc⟩ := ht
  simp only [inE, inO, inE2, inO1] at hx hy hz ha hb hc
  simp only [faceXYKeys, List.mem_filter] at hm
  have hm := hm.1
  simp only [faceXYCands, List.mem_cons, List.cons.injEq, List.not_mem_nil, and_true, or_false] at hm
  simp only [List.cons.injEq, and_true]
  omega

theorem tri_faceYZ_faceYZ {Lx Ly Lz : Nat} {x y z a b c : Int} (hs : isFaceYZ Lx Ly Lz x y z)
    (ht : isFaceYZ Lx Ly Lz a b c) (hm : [x, y, z + 1] ∈ faceYZKeys Lx Ly Lz a b c) :
    [a, b, c] = [x, y, z] ∨ (2 * (Lz : Int) - c).toNat < (2 * (Lz : Int) - z).toNat := by
  obtain ⟨hx, hy, hz⟩ := hs
  obtain ⟨ha, hb, hc⟩ := ht
  simp only [inE, inO, inE2, inO1] at hx hy hz ha hb hc
  simp only [faceYZKeys, List.mem_filter] at hm
  have hm := hm.1
  simp only [faceYZCands, List.mem_cons, List.cons.injEq, List.not_mem_nil, and_true, or_false] at hm
  simp only [List.cons.injEq, and_true]
  omega

theorem tri_faceYZ_faceXZ {Lx Ly Lz : Nat} {x y z a b c : Int} (hs : isFaceYZ Lx Ly Lz x y z)
    (ht : isFaceXZ Lx Ly Lz a b c) (hm : [x, y, z + 1] ∈ faceXZKeys Lx Ly Lz a b c) :
    [a, b, c] = [x, y, z] ∨ (2 * (Lz : Int) - c).toNat < (2 * (Lz : Int) - z).toNat := by
  obtain ⟨hx, hy, hz⟩ := hs
  obtain ⟨ha, hb, hc⟩ := ht
  simp only [inE, inO, inE2, inO1] at hx hy hz ha hb hc
  simp only [faceXZKeys, List.mem_filter] at hm
  have hm := hm.1
  simp only [faceXZCands, List.mem_cons, List.cons.injEq, List.not_mem_nil, and_true, or_false] at hm
  simp only [List.cons.injEq, and_true]
  omega

theorem tri_faceXZ_faceXY {Lx Ly Lz : Nat} {x y z a b c : Int} (hs : isFaceXZ Lx Ly Lz x y z)
    (ht : isFaceXY Lx Ly Lz a b c) (hc0 : c = 0) (hm : [x, y, z + 1] ∈ faceXYKeys Lx Ly Lz a b c) :
    [a, b, c] = [x, y, z] ∨ 2 * Lz + b.toNat < (2 * (Lz : Int) - z).toNat := by
  obtain ⟨hx, hy, hz⟩ := hs
  obtain ⟨ha, hb, hc⟩ := ht
  simp only [inE, inO, inE2, inO1] at hx hy hz ha hb hc
  simp only [faceXYKeys, List.mem_filter] at hm
  have hm := hm.1
  simp only [faceXYCands, List.mem_cons, List.cons.injEq, List.not_mem_nil, and_true, or_false] at hm
  simp only [List.cons.injEq, and_true]
  omega

theorem tri_faceXZ_faceYZ {Lx Ly Lz : Nat} {x y z a b c : Int} (hs : isFaceXZ Lx Ly Lz x y z)
    (ht : isFaceYZ Lx Ly Lz a b c) (hm : [x, y, z + 1] ∈ faceYZKeys Lx Ly Lz a b c) :
    [a, b, c] = [x, y, z] ∨ (2 * (Lz : Int) - c).toNat < (2 * (Lz : Int) - z).toNat := by
  obtain ⟨hx, hy, hz⟩ := hs
  obtain ⟨ha, hb, hc⟩ := ht
  simp only [inE, inO, inE2, inO1] at hx hy hz ha hb hc
  simp only [faceYZKeys, List.mem_filter] at hm
  have hm := hm.1
  simp only [faceYZCands, List.mem_cons, List.cons.injEq, List.not_mem_nil, and_true, or_false] at hm
  simp only [List.cons.injEq, and_true]
  omega

theorem tri_faceXZ_faceXZ {Lx Ly Lz : Nat} {x y z a b c : Int} (hs : isFaceXZ Lx Ly Lz x y z)
    (ht : isFaceXZ Lx Ly Lz a b c) (hm : [x, y, z + 1] ∈ faceXZKeys Lx Ly Lz a b c) :
    [a, b, c] = [x, y, z] ∨ (2 * (Lz : Int) - c).toNat < (2 * (Lz : Int) - z).toNat := by
  obtain ⟨hx, hy, hz⟩ := hs
  obtain ⟨ha, hb, hc⟩ := ht
  simp only [inE, inO, inE2, inO1] at hx hy hz ha hb hc
  simp only [faceXZKeys, List.mem_filter] at hm
  have hm := hm.1
  simp only [faceXZCands, List.mem_cons, List.cons.injEq, List.not_mem_nil, and_true, or_false] at hm
  simp only [List.cons.injEq, and_true]
  omega

/-! ### the family is independent -/

theorem rankFamily_indep {Lx Ly Lz : Nat} (hLx : 1 ≤ Lx) (hLy : 1 ≤ Ly) (hLz : 1 ≤ Lz) :
    OpsIndep ((rankFamily Lx Ly Lz).map (getStab Lx Ly Lz)) := by
  refine opsIndep_of_triangular (rankFamily_nodup hLz) (rk Lz) wit wx ?_
  intro s hs
  obtain ⟨x, y, z, rfl, h | ⟨h, h0⟩ | h | h⟩ := rankFamily_cases hLz hs
  · obtain ⟨e1, e2, e3⟩ := eval_vertex h
    rw [e2, e3]
    refine ⟨by rw [hit_vertex h]; simpa using self_vertex h, ?_⟩
    intro t ht hh
    obtain ⟨a, b, c, rfl, h' | ⟨h', _⟩ | h' | h'⟩ := rankFamily_cases hLz ht
    · rw [hit_vertex h'] at hh
      rw [e1, (eval_vertex h').1]
      exact tri_vertex_vertex h h' (by simpa using hh)
    · rw [hit_faceXY h'] at hh; simp at hh
    · rw [hit_faceYZ h'] at hh; simp at hh
    · rw [hit_faceXZ h'] at hh; simp at hh
  · obtain ⟨e1, e2, e3⟩ := eval_faceXY h
    rw [e2, e3]
    refine ⟨by rw [hit_faceXY h]; simpa using self_faceXY h, ?_⟩
    intro t ht hh
    obtain ⟨a, b, c, rfl, h' | ⟨h', h0'⟩ | h' | h'⟩ := rankFamily_cases hLz ht
    · rw [hit_vertex h'] at hh; simp at hh
    · rw [hit_faceXY h'] at hh
      rw [e1, (eval_faceXY h').1]
      exact tri_faceXY_faceXY h h0 h' h0' (by simpa using hh)
    · rw [hit_faceYZ h'] at hh
      rw [e1, (eval_faceYZ h').1]
      exact tri_faceXY_faceYZ h h0 h' (by simpa using hh)
    · rw [hit_faceXZ h'] at hh
      rw [e1, (eval_faceXZ h').1]
      exact tri_faceXY_faceXZ h h0 h' (by simpa using hh)
  · obtain ⟨e1, e2, e3⟩ := eval_faceYZ h
    rw [e2, e3]
    refine ⟨by rw [hit_faceYZ h]; simpa using self_faceYZ h, ?_⟩
    intro t ht hh
    obtain ⟨a, b, c, rfl, h' | ⟨h', h0'⟩ | h' | h'⟩ := rankFamily_cases hLz ht
    · rw [hit_vertex h'] at hh; simp at hh
    · rw [hit_faceXY h'] at hh
      rw [e1, (eval_faceXY h').1]
      exact tri_faceYZ_faceXY h h' h0' (by simpa using hh)
    · rw [hit_faceYZ h'] at hh
      rw [e1, (eval_faceYZ h').1]
      exact tri_faceYZ_faceYZ h h' (by simpa using hh)
    · rw [hit_faceXZ h'] at hh
      rw [e1, (eval_faceXZ h').1]
      exact tri_faceYZ_faceXZ h h' (by simpa using hh)
  · obtain ⟨e1, e2, e3⟩ := eval_faceXZ h
    rw [e2, e3]
    refine ⟨by rw [hit_faceXZ h]; simpa using self_faceXZ h, ?_⟩
    intro t ht hh
    obtain ⟨a, b, c, rfl, h' | ⟨h', h0'⟩ | h' | h'⟩ := rankFamily_cases hLz ht
    · rw [hit_vertex h'] at hh; simp at hh
    · rw [hit_faceXY h'] at hh
      rw [e1, (eval_faceXY h').1]
      exact tri_faceXZ_faceXY h h' h0' (by simpa using hh)
    · rw [hit_faceYZ h'] at hh
      rw [e1, (eval_faceYZ h').1]
      exact tri_faceXZ_faceYZ h h' (by simpa using hh)
    · rw [hit_faceXZ h'] at hh
      rw [e1, (eval_faceXZ h').1]
      exact tri_faceXZ_faceXZ h h' (by simpa using hh)

end Panqec.Planar3DCode
