/-
Helper lemmas for the chain step of `SplittingSimulation.get_next_error`
(`Model/Splitting.lean`): closed form of a successful call, the acceptance probability as
a likelihood ratio of product-form probabilities, the Metropolis kernel and its detailed
balance.
-/
import PanqecVerif.Model.Splitting
import PanqecVerif.Proofs.NoiseSplit

namespace Panqec.Split

open Panqec

/-! ### closed form of one call -/

/-- the record `get_next_error` returns when nothing raises -/
def traceOf (dt : DType) (c : Sim.CodeMats) (decode : List Nat → List Nat) (idx : Nat)
    (letters : List Pauli) (σ : Pauli) (prev new : List Nat) (a b u : Rat) : StepTrace :=
  let q := acceptQ a b
  let bit := coin q u
  let acc := bit && fails dt c decode new
  { idx := idx, letters := letters, letter := σ, proposed := new, pPrev := a, pNew := b, q := q,
    coin := bit, test := if bit then some (failTest dt c decode new) else none, accepted := acc,
    next := if acc then new else prev, pNext := if acc then b else a }

theorem getNextError_eq (dt : DType) (c : Sim.CodeMats) (n : Nat) (decode : List Nat → List Nat)
    (rate : Rat) (ds : List Dist) (prev : List Nat) (d : Draw) (dq : Dist) (σ : Pauli) (a b : Rat)
    (hr : Sim.rateOk rate = true) (hq : ds[d.idx]? = some dq)
    (hσ : (proposalLetters dq)[d.letter]? = some σ)
    (ha : errorProbability ds prev = some a)
    (hb : errorProbability ds (proposeError n prev d.idx σ) = some b) :
    getNextError dt c n decode rate ds prev d =
      .ok (traceOf dt c decode d.idx (proposalLetters dq) σ prev (proposeError n prev d.idx σ) a b d.u) := by
  have hne : (proposalLetters dq).isEmpty = false := by
    cases hl : proposalLetters dq with
    | nil => rw [hl] at hσ; simp at hσ
    | cons x xs => rfl
  unfold getNextError
  simp only [hr, Bool.not_true, Bool.false_eq_true, if_false, hq, hne, hσ, ha, hb]
  unfold traceOf fails
  cases hc : coin (acceptQ a b) d.u <;> simp [hc]

/-- the rate guard comes first and nothing is drawn -/
theorem getNextError_rate (dt : DType) (c : Sim.CodeMats) (n : Nat) (decode : List Nat → List Nat)
    (rate : Rat) (ds : List Dist) (prev : List Nat) (d : Draw) (hr : Sim.rateOk rate = false) :
    getNextError dt c n decode rate ds prev d = .error .rate := by
  simp [getNextError, hr]

/-- no Pauli of non-zero probability on the drawn qubit: `np.random.choice([])` raises -/
theorem getNextError_noLetters (dt : DType) (c : Sim.CodeMats) (n : Nat) (decode : List Nat → List Nat)
    (rate : Rat) (ds : List Dist) (prev : List Nat) (d : Draw) (dq : Dist)
    (hr : Sim.rateOk rate = true) (hq : ds[d.idx]? = some dq) (h0 : dq.x = 0 ∧ dq.y = 0 ∧ dq.z = 0) :
    getNextError dt c n decode rate ds prev d = .error .noLetters := by
  simp [getNextError, hr, hq, proposalLetters, h0.1, h0.2.1, h0.2.2]

/-! ### the acceptance probability -/

theorem acceptQ_eq_min (a b : Rat) (ha : a ≠ 0) : acceptQ a b = min 1 (b / a) := by
  unfold acceptQ acceptRatio
  simp only [ha, if_false]
  by_cases h : b / a ≤ 1
  · simp [h]
  · simp [h, le_of_lt (not_le.mp h)]

theorem acceptQ_nonneg (a b : Rat) (ha : 0 ≤ a) (hb : 0 ≤ b) : 0 ≤ acceptQ a b := by
  unfold acceptQ acceptRatio
  by_cases h0 : a = 0
  · simp [h0]
  · simp only [h0, if_false]
    split_ifs
    · exact div_nonneg hb ha
    · norm_num

theorem acceptQ_le_one (a b : Rat) : acceptQ a b ≤ 1 := by
  unfold acceptQ acceptRatio
  by_cases h0 : a = 0
  · simp [h0]
  · simp only [h0, if_false]
    split_ifs with h
    · exact h
    · exact le_refl 1

/-- `P(s) · q(s → t) = min(P(s), P(t))`: the symmetric quantity behind detailed balance -/
theorem mul_acceptQ (a b : Rat) (ha : 0 ≤ a) (hb : 0 ≤ b) : a * acceptQ a b = min a b := by
  unfold acceptQ acceptRatio
  by_cases h0 : a = 0
  · subst h0; simp [hb]
  · have hpos : 0 < a := lt_of_le_of_ne ha (Ne.symm h0)
    simp only [h0, if_false]
    by_cases h : b / a ≤ 1
    · have hba : b ≤ a := by rwa [div_le_one hpos] at h
      simp only [h, if_true, min_eq_right hba]
      field_simp
    · have hab : a ≤ b := by
        have := not_le.mp h
        rw [lt_div_iff₀ hpos] at this
        linarith
      simp [h, min_eq_left hab]

theorem mul_acceptQ_symm (a b : Rat) (ha : 0 ≤ a) (hb : 0 ≤ b) :
    a * acceptQ a b = b * acceptQ b a := by
  rw [mul_acceptQ a b ha hb, mul_acceptQ b a hb ha, min_comm]

/-- for `0 ≤ u < 1` the coin is 1 exactly on the interval `[1 - q, 1)`, of length `q` -/
theorem coin_iff (q u : Rat) : coin q u = true ↔ 1 - q ≤ u := by simp [coin]

/-! ### strings -/

theorem stringProb_nonneg : ∀ (ds : List Dist) (s : List Pauli),
    (∀ d ∈ ds, ∀ σ, 0 ≤ d.get σ) → 0 ≤ stringProb ds s
  | [], _, _ => by simp [stringProb, ratProd]
  | _ :: _, [], _ => by simp [stringProb, ratProd]
  | d :: ds, σ :: s, h => by
    rw [stringProb_cons]
    exact mul_nonneg (h d (by simp) σ) (stringProb_nonneg ds s fun d' hd' => h d' (by simp [hd']))

theorem Dist.Valid.get_nonneg {d : Dist} (h : d.Valid) (σ : Pauli) : 0 ≤ d.get σ := by
  obtain ⟨h1, h2, h3, h4, _⟩ := h
  cases σ <;> simp [Dist.get, *]

theorem mul_mul_self (σ τ : Pauli) : σ.mul (σ.mul τ) = τ := by
  cases σ <;> cases τ <;> rfl

theorem set_set_self (s : List Pauli) (i : Nat) (σ τ : Pauli) (h : s[i]? = some τ) :
    (s.set i (σ.mul τ)).set i (σ.mul (σ.mul τ)) = s := by
  rw [mul_mul_self, List.set_set]
  have hi : i < s.length := by
    by_contra hc
    rw [List.getElem?_eq_none (by omega)] at h
    simp at h
  apply List.ext_getElem (by simp)
  intro j h1 h2
  by_cases hij : i = j
  · subst hij
    rw [List.getElem?_eq_getElem hi] at h
    simp at h
    simp [h]
  · simp [hij]

/-- a factor of the product: `P(s) = p_i(s_i) · (rest)` -/
theorem stringProb_factor : ∀ (ds : List Dist) (s : List Pauli) (i : Nat) (d : Dist) (τ : Pauli),
    ds[i]? = some d → s[i]? = some τ → ∃ r, stringProb ds s = d.get τ * r
  | [], _, _, _, _, h, _ => by simp at h
  | _ :: _, [], _, _, _, _, h => by simp at h
  | d0 :: ds, σ0 :: s, 0, d, τ, hd, hs => by
    simp only [List.getElem?_cons_zero, Option.some.injEq] at hd hs
    subst hd hs
    exact ⟨stringProb ds s, stringProb_cons _ _ _ _⟩
  | d0 :: ds, σ0 :: s, i + 1, d, τ, hd, hs => by
    simp only [List.getElem?_cons_succ] at hd hs
    obtain ⟨r, hr⟩ := stringProb_factor ds s i d τ hd hs
    exact ⟨d0.get σ0 * r, by rw [stringProb_cons, hr]; ring⟩

/-- the likelihood ratio of a single-qubit move only involves the changed qubit -/
theorem stringProb_ratio (ds : List Dist) (s : List Pauli) (i : Nat) (d : Dist) (τ ρ : Pauli)
    (hd : ds[i]? = some d) (hs : s[i]? = some τ) (h0 : stringProb ds s ≠ 0) :
    stringProb ds (s.set i ρ) / stringProb ds s = d.get ρ / d.get τ := by
  obtain ⟨r, hr⟩ := stringProb_factor ds s i d τ hd hs
  have hτ : d.get τ ≠ 0 := by
    intro h; rw [hr, h, zero_mul] at h0; exact h0 rfl
  have := stringProb_set ds s i d τ ρ hd hs
  rw [div_eq_div_iff h0 hτ]
  linarith

/-! ### the step on Pauli strings -/

/-- everything `get_next_error` computes, in terms of product-form probabilities -/
theorem getNextError_pauli (dt : DType) (c : Sim.CodeMats) (decode : List Nat → List Nat)
    (rate : Rat) (ds : List Dist) (s : List Pauli) (d : Draw) (dq : Dist) (σ τ : Pauli)
    (hs : s.length = ds.length) (hr : Sim.rateOk rate = true) (hq : ds[d.idx]? = some dq)
    (hτ : s[d.idx]? = some τ) (hσ : (proposalLetters dq)[d.letter]? = some σ) :
    getNextError dt c ds.length decode rate ds (pauliToBsf s) d =
      .ok (traceOf dt c decode d.idx (proposalLetters dq) σ (pauliToBsf s)
            (pauliToBsf (s.set d.idx (σ.mul τ))) (stringProb ds s)
            (stringProb ds (s.set d.idx (σ.mul τ))) d.u) := by
  have hnew := proposeError_pauliToBsf s d.idx σ τ hτ
  rw [hs] at hnew
  have := getNextError_eq dt c ds.length decode rate ds (pauliToBsf s) d dq σ (stringProb ds s)
    (stringProb ds (s.set d.idx (σ.mul τ))) hr hq hσ (errorProbability_pauliToBsf ds s hs)
    (by rw [hnew]; exact errorProbability_pauliToBsf ds _ (by simp [hs]))
  rw [this, hnew]

/-! ### the Metropolis kernel -/

/-- the probability, over the three draws of one call, that the chain moves from `s` by the
    letter `σ` on qubit `i`: `1/n` for the qubit, `1/m` for the letter among the `m`
    candidates of that qubit, `q` for the coin (length of `[1-q, 1)`), and the move must
    lead into the failure set `F` -/
def moveProb (ds : List Dist) (F : List Pauli → Bool) (s : List Pauli) (i : Nat) (σ : Pauli) : Rat :=
  match ds[i]?, s[i]? with
  | some dq, some τ =>
    if σ ∈ proposalLetters dq ∧ F (s.set i (σ.mul τ)) = true then
      1 / (ds.length : Rat) * (1 / ((proposalLetters dq).length : Rat)) *
        acceptQ (stringProb ds s) (stringProb ds (s.set i (σ.mul τ)))
    else 0
  | _, _ => 0

/-- the (unnormalised) target: the product distribution restricted to the failure set -/
def target (ds : List Dist) (F : List Pauli → Bool) (s : List Pauli) : Rat :=
  if F s then stringProb ds s else 0

theorem detailed_balance (ds : List Dist) (F : List Pauli → Bool) (s : List Pauli) (i : Nat)
    (σ τ : Pauli) (hnn : ∀ d ∈ ds, ∀ ρ, 0 ≤ d.get ρ) (hτ : s[i]? = some τ) :
    target ds F s * moveProb ds F s i σ =
      target ds F (s.set i (σ.mul τ)) * moveProb ds F (s.set i (σ.mul τ)) i σ := by
  have hi : i < s.length := by
    by_contra hc
    rw [List.getElem?_eq_none (by omega)] at hτ
    simp at hτ
  have ht : (s.set i (σ.mul τ))[i]? = some (σ.mul τ) := by simp [hi]
  have hback := set_set_self s i σ τ hτ
  unfold moveProb target
  rw [ht, hτ]
  cases hd : ds[i]? with
  | none => simp
  | some dq =>
    simp only [hback]
    by_cases hσ : σ ∈ proposalLetters dq
    · by_cases hFs : F s = true <;> by_cases hFt : F (s.set i (σ.mul τ)) = true <;>
        simp only [hσ, hFs, hFt, and_self, and_false, if_true, if_false,
          zero_mul, mul_zero, Bool.false_eq_true]
      have h := mul_acceptQ_symm (stringProb ds s) (stringProb ds (s.set i (σ.mul τ)))
        (stringProb_nonneg ds s hnn) (stringProb_nonneg ds _ hnn)
      calc stringProb ds s * (1 / (ds.length : Rat) * (1 / ((proposalLetters dq).length : Rat)) *
              acceptQ (stringProb ds s) (stringProb ds (s.set i (σ.mul τ))))
          = 1 / (ds.length : Rat) * (1 / ((proposalLetters dq).length : Rat)) *
              (stringProb ds s * acceptQ (stringProb ds s) (stringProb ds (s.set i (σ.mul τ)))) := by ring
        _ = 1 / (ds.length : Rat) * (1 / ((proposalLetters dq).length : Rat)) *
              (stringProb ds (s.set i (σ.mul τ)) *
                acceptQ (stringProb ds (s.set i (σ.mul τ))) (stringProb ds s)) := by rw [h]
        _ = _ := by ring
    · simp [hσ]

end Panqec.Split

namespace Panqec.Split

open Panqec

/-! ### inversion: what a successful call looked like -/

theorem getNextError_inv (dt : DType) (c : Sim.CodeMats) (n : Nat) (decode : List Nat → List Nat)
    (rate : Rat) (ds : List Dist) (prev : List Nat) (d : Draw) (t : StepTrace)
    (h : getNextError dt c n decode rate ds prev d = .ok t) :
    ∃ dq σ a b, Sim.rateOk rate = true ∧ ds[d.idx]? = some dq ∧
      (proposalLetters dq)[d.letter]? = some σ ∧ errorProbability ds prev = some a ∧
      errorProbability ds (proposeError n prev d.idx σ) = some b ∧
      t = traceOf dt c decode d.idx (proposalLetters dq) σ prev (proposeError n prev d.idx σ) a b d.u := by
  have hr : Sim.rateOk rate = true := by
    cases hr : Sim.rateOk rate
    · rw [getNextError_rate dt c n decode rate ds prev d hr] at h; cases h
    · rfl
  cases hq : ds[d.idx]? with
  | none => simp [getNextError, hr, hq] at h
  | some dq =>
    cases hσ : (proposalLetters dq)[d.letter]? with
    | none =>
      unfold getNextError at h
      simp only [hr, Bool.not_true, Bool.false_eq_true, if_false, hq, hσ] at h
      split at h <;> cases h
    | some σ =>
      cases ha : errorProbability ds prev with
      | none =>
        unfold getNextError at h
        simp only [hr, Bool.not_true, Bool.false_eq_true, if_false, hq, hσ, ha] at h
        split at h <;> cases h
      | some a =>
        cases hb : errorProbability ds (proposeError n prev d.idx σ) with
        | none =>
          unfold getNextError at h
          simp only [hr, Bool.not_true, Bool.false_eq_true, if_false, hq, hσ, ha, hb] at h
          split at h <;> cases h
        | some b =>
          rw [getNextError_eq dt c n decode rate ds prev d dq σ a b hr hq hσ ha hb] at h
          exact ⟨dq, σ, a, b, hr, rfl, hσ, rfl, hb, (Except.ok.inj h).symm⟩

/-- the recorded value is the probability (at this chain's rate) of the error the chain is
    left in -/
theorem getNextError_pNext (dt : DType) (c : Sim.CodeMats) (n : Nat) (decode : List Nat → List Nat)
    (rate : Rat) (ds : List Dist) (prev : List Nat) (d : Draw) (t : StepTrace)
    (h : getNextError dt c n decode rate ds prev d = .ok t) :
    errorProbability ds t.next = some t.pNext := by
  obtain ⟨dq, σ, a, b, _, _, _, ha, hb, rfl⟩ := getNextError_inv dt c n decode rate ds prev d t h
  unfold traceOf
  dsimp only
  split_ifs
  · exact hb
  · exact ha

/-- the chain only ever moves to an error whose decoding fails, and otherwise stays -/
theorem getNextError_next (dt : DType) (c : Sim.CodeMats) (n : Nat) (decode : List Nat → List Nat)
    (rate : Rat) (ds : List Dist) (prev : List Nat) (d : Draw) (t : StepTrace)
    (h : getNextError dt c n decode rate ds prev d = .ok t) :
    (t.accepted = true → t.next = t.proposed ∧ fails dt c decode t.proposed = true ∧ t.coin = true) ∧
    (t.accepted = false → t.next = prev ∧ t.pNext = t.pPrev) := by
  obtain ⟨dq, σ, a, b, _, _, _, _, _, rfl⟩ := getNextError_inv dt c n decode rate ds prev d t h
  unfold traceOf
  dsimp only
  constructor
  · intro hacc
    simp only [Bool.and_eq_true] at hacc
    simp [hacc.1, hacc.2]
  · intro hacc
    simp [hacc]

/-- the failure set is closed under the step -/
theorem getNextError_stays (dt : DType) (c : Sim.CodeMats) (n : Nat) (decode : List Nat → List Nat)
    (rate : Rat) (ds : List Dist) (prev : List Nat) (d : Draw) (t : StepTrace)
    (h : getNextError dt c n decode rate ds prev d = .ok t) (hp : fails dt c decode prev = true) :
    fails dt c decode t.next = true := by
  have := getNextError_next dt c n decode rate ds prev d t h
  cases hacc : t.accepted
  · rw [(this.2 hacc).1]; exact hp
  · rw [(this.1 hacc).1]; exact (this.1 hacc).2.1

/-- the test of `get_next_error` is the complement of `success` of `run_once` (C11) -/
theorem fails_eq_not_success (dt : DType) (c : Sim.CodeMats) (decode : List Nat → List Nat)
    (e : List Nat) : fails dt c decode e = !(Sim.classify dt c e decode).success := by
  unfold fails failTest Test.fails Sim.classify isLogicalError
  dsimp only
  cases h1 : (logicalErrors dt c.Lx c.Lz (vxor (decode (measureSyndrome c.H e)) e)).any (· != 0)
  · have h2 : (logicalErrors dt c.Lx c.Lz (vxor (decode (measureSyndrome c.H e)) e)).all (· == 0) = true := by
      rw [List.all_eq_true]
      intro x hx
      have := List.any_eq_false.mp h1 x hx
      simpa using this
    simp [h2]
  · have h2 : (logicalErrors dt c.Lx c.Lz (vxor (decode (measureSyndrome c.H e)) e)).all (· == 0) = false := by
      rw [List.all_eq_false]
      obtain ⟨x, hx, hne⟩ := List.any_eq_true.mp h1
      exact ⟨x, hx, by simpa using hne⟩
    simp [h2]

/-- … and of `is_success`, which `_run` uses to check the initial error -/
theorem fails_eq_not_isSuccess (dt : DType) (c : Sim.CodeMats) (decode : List Nat → List Nat)
    (e : List Nat) :
    fails dt c decode e =
      !(isSuccess dt c.H c.Lx c.Lz (vxor (decode (measureSyndrome c.H e)) e)) := by
  unfold fails failTest Test.fails isSuccess
  dsimp only
  cases isLogicalError dt c.Lx c.Lz (vxor (decode (measureSyndrome c.H e)) e) <;>
    cases inCodespace c.H (vxor (decode (measureSyndrome c.H e)) e) <;> rfl

end Panqec.Split
