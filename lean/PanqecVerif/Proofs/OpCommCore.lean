/-
Bridge between OPERATOR-level commutation of dict operators (`opAntiCount` of
`Model/Lattices/Common.lean`: number of qubits on which two dicts carry anticommuting
letters) and the binary symplectic form on the BSF rows the generic code assembles
(`toBsf`, `stabRow`, `symp`).

Core Lean only.  The list-level consequences for a `Lattice` (`CommPairL`, `ValidCodeL`)
are in `Proofs/OpComm.lean`.

Contents
* `Op.letter op q`          the letter the dict carries on `q` (`I` if `q` is not a key);
* `toBsf_eq_pauliToBsf`     `to_bsf` of a dict is `pauli_to_bsf` of the letters along the qubits;
* `countP_letter`           counting along the qubit list = counting along the dict entries;
* `symp_toBsf_eq_opAntiCount`  `symp` of two assembled rows is the parity of `opAntiCount`;
* `opAntiCount_comm`        `opAntiCount` is symmetric on dicts.
-/
import PanqecVerif.Model.Lattices.Common
import PanqecVerif.Proofs.Code2
import PanqecVerif.Proofs.Deform

namespace Panqec

open Deform

/-! ### single letters -/

theorem Pauli.anti_I_right (p : Pauli) : Pauli.anti p Pauli.I = false := by cases p <;> rfl
theorem Pauli.anti_I_left (p : Pauli) : Pauli.anti Pauli.I p = false := by cases p <;> rfl
theorem Pauli.anti_comm (p q : Pauli) : Pauli.anti p q = Pauli.anti q p := by
  cases p <;> cases q <;> rfl

/-- the 0/1 anticommutation indicator of `Proofs/Deform.lean` is the Boolean `Pauli.anti` -/
theorem acomm_eq_anti (p q : Pauli) : acomm p q = if Pauli.anti p q = true then 1 else 0 := by
  cases p <;> cases q <;> rfl

theorem Pauli.ite_xBit (p : Pauli) : (if p.xBit = 1 then 1 else 0) = p.xBit := by
  cases p <;> rfl
theorem Pauli.ite_zBit (p : Pauli) : (if p.zBit = 1 then 1 else 0) = p.zBit := by
  cases p <;> rfl

/-! ### the letter a dict carries on a qubit -/

/-- the letter of `op` on `q`: value of the first entry with key `q`, `I` if there is none -/
def Op.letter (op : Op) (q : Coord) : Pauli := (Op.get? op q).getD Pauli.I

theorem Op.letter_nil (q : Coord) : Op.letter [] q = Pauli.I := rfl

theorem Op.letter_cons (k : Coord) (p : Pauli) (op : Op) (q : Coord) :
    Op.letter ((k, p) :: op) q = if k = q then p else Op.letter op q := by
  unfold Op.letter Op.get?
  rw [List.find?_cons]
  by_cases h : k = q
  · simp [h]
  · have hb : (k == q) = false := by simp [h]
    simp only [hb, if_neg h]

theorem Op.letter_of_not_key : ∀ (op : Op) (q : Coord), (∀ e ∈ op, e.1 ≠ q) →
    Op.letter op q = Pauli.I
  | [], _, _ => rfl
  | (k, p) :: op, q, h => by
    rw [Op.letter_cons, if_neg (h (k, p) (by simp))]
    exact Op.letter_of_not_key op q (fun e he => h e (by simp [he]))

theorem Op.letter_of_mem : ∀ (op : Op), KeysNodup op → ∀ (q : Coord) (p : Pauli),
    (q, p) ∈ op → Op.letter op q = p
  | [], _, _, _, hm => by simp at hm
  | (k, p') :: op, hk, q, p, hm => by
    rw [keysNodup_cons] at hk
    rw [Op.letter_cons]
    rw [List.mem_cons] at hm
    rcases hm with hm | hm
    · cases hm; simp
    · have hne : ¬ k = q := fun heq => hk.1 (q, p) hm heq.symm
      rw [if_neg hne]
      exact Op.letter_of_mem op hk.2 q p hm

/-- a coordinate is a key of the dict or it is not -/
theorem Op.key_cases (op : Op) (q : Coord) : (∃ p, (q, p) ∈ op) ∨ (∀ e ∈ op, e.1 ≠ q) := by
  by_cases h : ∃ p, (q, p) ∈ op
  · exact Or.inl h
  · refine Or.inr (fun e he heq => h ⟨e.2, ?_⟩)
    subst heq
    exact he

/-- for a dict the `+= 1` count at a qubit is the bit of the letter stored there -/
theorem opCount_eq_letter (op : Op) (hk : KeysNodup op) (q : Coord) (f : Pauli → Nat)
    (hf : f Pauli.I ≠ 1) :
    opCount op q f = if f (Op.letter op q) = 1 then 1 else 0 := by
  rcases Op.key_cases op q with ⟨p, hm⟩ | hno
  · rw [Op.letter_of_mem op hk q p hm]
    exact opCount_of_mem op hk q p f hm
  · rw [Op.letter_of_not_key op q hno, if_neg hf]
    exact opCount_eq_zero op q f (fun e he hh => hno e he hh.1)

/-! ### 1. `to_bsf` of a dict is `pauli_to_bsf` of its letters along the qubit list -/

/-- the Pauli string of a dict operator along the qubit list -/
def opString (qs : List Coord) (op : Op) : List Pauli := qs.map (Op.letter op)

/-- the BSF row of a dict operator along the qubit list -/
def opRow (qs : List Coord) (op : Op) : List Nat := pauliToBsf (opString qs op)

theorem opRow_length (qs : List Coord) (op : Op) : (opRow qs op).length = 2 * qs.length := by
  unfold opRow opString
  rw [pauliToBsf_length, List.length_map]

theorem opRow_binary (qs : List Coord) (op : Op) : ∀ x ∈ opRow qs op, x < 2 := by
  intro x hx
  unfold opRow pauliToBsf at hx
  rw [List.mem_append, List.mem_map, List.mem_map] at hx
  rcases hx with ⟨p, _, rfl⟩ | ⟨p, _, rfl⟩
  · exact xBit_lt_two p
  · exact zBit_lt_two p

theorem toBsf_eq_opRow (qs : List Coord) (op : Op) (hk : KeysNodup op)
    (hs : opSupported qs op = true) : toBsf qs op = some (opRow qs op) := by
  rw [toBsf_eq_some]
  refine ⟨hs, ?_⟩
  unfold opRow opString pauliToBsf
  rw [List.map_map, List.map_map]
  congr 1
  · apply List.map_congr_left
    intro q _
    show Pauli.xBit (Op.letter op q) = opCount op q Pauli.xBit
    rw [opCount_eq_letter op hk q _ (by decide), Pauli.ite_xBit]
  · apply List.map_congr_left
    intro q _
    show Pauli.zBit (Op.letter op q) = opCount op q Pauli.zBit
    rw [opCount_eq_letter op hk q _ (by decide), Pauli.ite_zBit]

/-- **Theorem 1.** `to_bsf` of a dict supported on the qubits is `pauli_to_bsf` of the
    string of letters read along the qubit list (identity where the dict has no entry). -/
theorem toBsf_eq_pauliToBsf (qs : List Coord) (op : Op) (_hnd : qs.Nodup) (hk : KeysNodup op)
    (hs : opSupported qs op = true) :
    toBsf qs op = some (pauliToBsf (qs.map fun q => (Op.get? op q).getD Pauli.I)) :=
  toBsf_eq_opRow qs op hk hs

/-- the assembled parity-check row of a dict is the same vector (`%= 2` changes nothing) -/
theorem stabRow_eq_opRow (qs : List Coord) (op : Op) (hk : KeysNodup op)
    (hs : opSupported qs op = true) : stabRow qs op = some (opRow qs op) := by
  rw [stabRow_eq_toBsf qs op hk, toBsf_eq_opRow qs op hk hs]

/-! ### 2. counting along the qubits = counting along the entries -/

theorem opAntiCount_eq_countP (a b : Op) :
    opAntiCount a b = a.countP (fun e => Pauli.anti e.2 (Op.letter b e.1)) := by
  unfold opAntiCount
  rw [List.countP_eq_length_filter]
  congr 1
  apply List.filter_congr
  intro e _
  unfold Op.letter
  cases Op.get? b e.1 with
  | none => simp [Pauli.anti_I_right]
  | some p => rfl

theorem acommCount_map (f g : Coord → Pauli) : ∀ qs : List Coord,
    acommCount (qs.map f) (qs.map g) = qs.countP (fun q => Pauli.anti (f q) (g q))
  | [] => rfl
  | q :: qs => by
    simp only [List.map_cons, acommCount, List.countP_cons, acomm_eq_anti,
      acommCount_map f g qs]
    omega

/-- two predicates that agree away from one element `k` of a duplicate-free list: the
    counts differ by the values at `k` -/
theorem countP_split (k : Coord) (P Q : Coord → Bool) : ∀ qs : List Coord, qs.Nodup → k ∈ qs →
    (∀ q ∈ qs, q ≠ k → P q = Q q) →
    qs.countP P + (if Q k = true then 1 else 0) = qs.countP Q + (if P k = true then 1 else 0)
  | [], _, hm, _ => by simp at hm
  | q :: qs, hnd, hm, hPQ => by
    rw [List.nodup_cons] at hnd
    rw [List.countP_cons, List.countP_cons]
    by_cases hq : q = k
    · subst hq
      have hc : qs.countP P = qs.countP Q := by
        apply List.countP_congr
        intro x hx
        have hne : x ≠ q := fun h => hnd.1 (h ▸ hx)
        rw [hPQ x (by simp [hx]) hne]
      omega
    · have hk : k ∈ qs := by
        rcases List.mem_cons.mp hm with h | h
        · exact absurd h.symm hq
        · exact h
      have ih := countP_split k P Q qs hnd.2 hk (fun x hx => hPQ x (by simp [hx]))
      have := hPQ q (by simp) hq
      rw [this]
      omega

/-- For a dict `a` whose keys are distinct and lie in the duplicate-free qubit list, a
    count over the qubits of a predicate of the letter (false at `I`) is the count over
    the entries of the dict. -/
theorem countP_letter (g : Coord → Pauli → Bool) (hg : ∀ q, g q Pauli.I = false)
    (qs : List Coord) (hnd : qs.Nodup) : ∀ a : Op, KeysNodup a → (∀ e ∈ a, e.1 ∈ qs) →
    qs.countP (fun q => g q (Op.letter a q)) = a.countP (fun e => g e.1 e.2)
  | [], _, _ => by
    simp [Op.letter_nil, hg]
  | (k, p) :: a, hk, hs => by
    rw [keysNodup_cons] at hk
    have ih := countP_letter g hg qs hnd a hk.2 (fun e he => hs e (by simp [he]))
    have hI : Op.letter a k = Pauli.I := Op.letter_of_not_key a k (fun e he => hk.1 e he)
    have hsplit := countP_split k (fun q => g q (Op.letter ((k, p) :: a) q))
      (fun q => g q (Op.letter a q)) qs hnd (hs (k, p) (by simp)) (by
        intro q _ hne
        simp only [Op.letter_cons]
        rw [if_neg (fun h => hne h.symm)])
    have hk' : Op.letter ((k, p) :: a) k = p := by rw [Op.letter_cons, if_pos rfl]
    simp only [hI, hg, hk', Bool.false_eq_true, if_false, Nat.add_zero] at hsplit
    rw [List.countP_cons, ← ih]
    exact hsplit

/-- the number of qubits (along the qubit list) on which `a` and `b` carry anticommuting
    letters is `opAntiCount a b` (counted along the entries of `a`) -/
theorem countP_anti_eq_opAntiCount (qs : List Coord) (hnd : qs.Nodup) (a b : Op)
    (ha : KeysNodup a) (hsa : opSupported qs a = true) :
    qs.countP (fun q => Pauli.anti (Op.letter a q) (Op.letter b q)) = opAntiCount a b := by
  rw [opAntiCount_eq_countP]
  exact countP_letter (fun q p => Pauli.anti p (Op.letter b q)) (fun _ => Pauli.anti_I_left _)
    qs hnd a ha (fun e he => opSupported_mem qs a hsa e.1 e.2 he)

/-- `symp` of the rows of two operators is the parity of `opAntiCount`
    (only the first operator has to be a dict supported on the qubits) -/
theorem symp_opRow (qs : List Coord) (hnd : qs.Nodup) (a b : Op) (ha : KeysNodup a)
    (hsa : opSupported qs a = true) :
    symp (opRow qs a) (opRow qs b) = opAntiCount a b % 2 := by
  unfold opRow opString
  rw [symp_pauliToBsf, acommCount_map, countP_anti_eq_opAntiCount qs hnd a b ha hsa]

/-- **Theorem 2.** The symplectic product of the assembled BSF vectors of two dict
    operators is the parity of the number of qubits on which they carry anticommuting
    letters. -/
theorem symp_toBsf_eq_opAntiCount (qs : List Coord) (a b : Op) (va vb : List Nat)
    (hnd : qs.Nodup) (ha : KeysNodup a) (hb : KeysNodup b)
    (hsa : opSupported qs a = true) (hsb : opSupported qs b = true)
    (hva : toBsf qs a = some va) (hvb : toBsf qs b = some vb) :
    symp va vb = opAntiCount a b % 2 := by
  rw [toBsf_eq_opRow qs a ha hsa] at hva
  rw [toBsf_eq_opRow qs b hb hsb] at hvb
  cases hva
  cases hvb
  exact symp_opRow qs hnd a b ha hsa

/-! ### 3. symmetry of `opAntiCount` -/

/-- a duplicate-free list containing the keys of both dicts -/
def unionKeys (a b : Op) : List Coord :=
  a.map Prod.fst ++ (b.map Prod.fst).filter (fun q => !(a.map Prod.fst).contains q)

theorem unionKeys_nodup (a b : Op) (ha : KeysNodup a) (hb : KeysNodup b) :
    (unionKeys a b).Nodup := by
  unfold unionKeys
  rw [List.nodup_append]
  refine ⟨ha, List.Nodup.sublist List.filter_sublist hb, ?_⟩
  intro x hx y hy hxy
  subst hxy
  rw [List.mem_filter] at hy
  have := hy.2
  simp only [Bool.not_eq_true', List.contains_eq_mem, decide_eq_false_iff_not] at this
  exact this hx

theorem unionKeys_left (a b : Op) : opSupported (unionKeys a b) a = true := by
  unfold opSupported
  rw [List.all_eq_true]
  intro e he
  rw [List.contains_iff_mem]
  unfold unionKeys
  exact List.mem_append_left _ (List.mem_map.mpr ⟨e, he, rfl⟩)

theorem unionKeys_right (a b : Op) : opSupported (unionKeys a b) b = true := by
  unfold opSupported
  rw [List.all_eq_true]
  intro e he
  rw [List.contains_iff_mem]
  unfold unionKeys
  by_cases h : e.1 ∈ a.map Prod.fst
  · exact List.mem_append_left _ h
  · apply List.mem_append_right
    rw [List.mem_filter]
    exact ⟨List.mem_map.mpr ⟨e, he, rfl⟩, by simpa using h⟩

/-- `opAntiCount` is symmetric on dicts: both sides count the qubits carrying
    anticommuting letters -/
theorem opAntiCount_comm (a b : Op) (ha : KeysNodup a) (hb : KeysNodup b) :
    opAntiCount a b = opAntiCount b a := by
  have hnd := unionKeys_nodup a b ha hb
  rw [← countP_anti_eq_opAntiCount (unionKeys a b) hnd a b ha (unionKeys_left a b),
    ← countP_anti_eq_opAntiCount (unionKeys a b) hnd b a hb (unionKeys_right a b)]
  apply List.countP_congr
  intro q _
  rw [Pauli.anti_comm]

/-- **Theorem 3.** -/
theorem opAntiCount_comm_mod2 {a b : Op} (ha : KeysNodup a) (hb : KeysNodup b) :
    opAntiCount a b % 2 = opAntiCount b a % 2 := by
  rw [opAntiCount_comm a b ha hb]

theorem opCommute_comm {a b : Op} (ha : KeysNodup a) (hb : KeysNodup b) :
    opCommute a b = opCommute b a := by
  unfold opCommute
  rw [opAntiCount_comm a b ha hb]

theorem opCommute_iff (a b : Op) : opCommute a b = true ↔ opAntiCount a b % 2 = 0 := by
  unfold opCommute
  simp

end Panqec
