/-
Soundness of the batched (lane-wise) primitives of `checkValidFast`:
`laneSymp` / `zeroRows` / `deltaRows` compute symplectic products, `comboAcc` computes all
`xorSelect`s, `pickSorted` returns a sublist.  Core Lean only.
-/
import PanqecVerif.Proofs.Mask3

namespace Panqec

/-! ### E. all symplectic products with one vector at once -/

/-- Bit `i·L` of `laneSymp` is the symplectic product of row `i` with `d`
    (`L = 2^s ≥ 2n` is the lane width). -/
theorem testBit_laneSymp (s n L : Nat) (hLs : 2 ^ s = L) (hn : 2 * n ≤ L)
    (rows : List Nat) (d i : Nat) (hi : i < rows.length) :
    (laneSymp s (repunit (2 ^ L) rows.length) (packLanes (2 ^ L) rows)
        (swapMask n (2 ^ n) d)).testBit (i * L) =
      decide (symp (unpackBits (2 * n) (rows.getD i 0)) (unpackBits (2 * n) d) = 1) := by
  have hL : 0 < L := by rw [← hLs]; exact Nat.two_pow_pos s
  have hsd : swapMask n (2 ^ n) d < 2 ^ (2 * n) := swapMask_lt n d
  have hsdW : swapMask n (2 ^ n) d < 2 ^ L :=
    Nat.lt_of_lt_of_le hsd (Nat.pow_le_pow_right (by omega) hn)
  have hR : (repunit (2 ^ L) rows.length).testBit (i * L) = true := by
    rw [testBit_repunit L hL]
    simp [Nat.mul_mod_left, Nat.mul_div_cancel _ hL, hi]
  have hy : rows.getD i 0 % 2 ^ L &&& swapMask n (2 ^ n) d < 2 ^ (2 * n) :=
    Nat.and_lt_two_pow _ hsd
  have e1 : ((packLanes (2 ^ L) rows &&& repunit (2 ^ L) rows.length * swapMask n (2 ^ n) d)
      >>> (i * L)) % 2 ^ L = rows.getD i 0 % 2 ^ L &&& swapMask n (2 ^ n) d := by
    rw [lane_and, lane_packLanes, repunit_mul L hL _ _ hsdW, lane_packLanes,
      getD_replicate_zero, if_pos hi, Nat.mod_eq_of_lt hsdW]
  have e2 : (rows.getD i 0 % 2 ^ L &&& swapMask n (2 ^ n) d) % 2 ^ (2 * n) =
      (rows.getD i 0 &&& swapMask n (2 ^ n) d) % 2 ^ (2 * n) := by
    rw [Nat.and_mod_two_pow, Nat.mod_mod_of_dvd _ (Nat.pow_dvd_pow 2 hn), ← Nat.and_mod_two_pow]
  have key : parityRec L ((packLanes (2 ^ L) rows &&&
      repunit (2 ^ L) rows.length * swapMask n (2 ^ n) d) >>> (i * L)) =
      symp (unpackBits (2 * n) (rows.getD i 0)) (unpackBits (2 * n) d) := by
    rw [← parityRec_mod L, e1, parityRec_mono (2 * n) L _ hy hn, ← parityRec_mod (2 * n), e2,
      parityRec_mod, parity_swap]
  unfold laneSymp
  rw [Nat.testBit_and, hR, Bool.and_true, testBit_foldAll, hLs, key]

theorem zeroRows_sound (s n L : Nat) (hLs : 2 ^ s = L) (hn : 2 * n ≤ L) (rows : List Nat) :
    ∀ (ds : List Nat) (k : Nat),
      zeroRows s n (2 ^ n) (repunit (2 ^ L) rows.length) (packLanes (2 ^ L) rows) ds k = true →
      ∀ d ∈ ds, ∀ i, i < rows.length →
        symp (unpackBits (2 * n) (rows.getD i 0)) (unpackBits (2 * n) d) = 0
  | [], _, _, d, hd, _, _ => by simp at hd
  | d0 :: ds, k, h, d, hd, i, hi => by
    simp only [zeroRows, Bool.and_eq_true, beq_iff_eq, tagNat] at h
    rcases List.mem_cons.mp hd with rfl | hd
    · have hb := testBit_laneSymp s n L hLs hn rows d i hi
      rw [h.1, Nat.zero_testBit] at hb
      have hne : ¬ symp (unpackBits (2 * n) (rows.getD i 0)) (unpackBits (2 * n) d) = 1 := by
        simpa using hb.symm
      have := symp_lt_two (unpackBits (2 * n) (rows.getD i 0)) (unpackBits (2 * n) d)
      omega
    · exact zeroRows_sound s n L hLs hn rows ds (k + 1) h.2 d hd i hi

theorem deltaRows_sound (s n L : Nat) (hLs : 2 ^ s = L) (hn : 2 * n ≤ L) (rows : List Nat) :
    ∀ (ds : List Nat) (jt J : Nat),
      deltaRows s n (2 ^ n) (2 ^ L) (repunit (2 ^ L) rows.length) (packLanes (2 ^ L) rows)
        ds jt (2 ^ (J * L)) = true →
      ∀ j, j < ds.length → ∀ i, i < rows.length →
        symp (unpackBits (2 * n) (rows.getD i 0)) (unpackBits (2 * n) (ds.getD j 0)) =
          if i = J + j then 1 else 0
  | [], _, _, _, j, hj, _, _ => by simp at hj
  | d0 :: ds, jt, J, h, j, hj, i, hi => by
    have hL : 0 < L := by rw [← hLs]; exact Nat.two_pow_pos s
    simp only [deltaRows, Bool.and_eq_true, beq_iff_eq, tagNat] at h
    have e : 2 ^ L * 2 ^ (J * L) = 2 ^ ((J + 1) * L) := by
      rw [← Nat.pow_add]; congr 1; rw [Nat.add_mul]; omega
    cases j with
    | zero =>
      have hb := testBit_laneSymp s n L hLs hn rows d0 i hi
      rw [h.1, Nat.testBit_two_pow] at hb
      have hlt := symp_lt_two (unpackBits (2 * n) (rows.getD i 0)) (unpackBits (2 * n) d0)
      simp only [List.getD_cons_zero, Nat.add_zero]
      by_cases hij : i = J
      · subst hij
        have : symp (unpackBits (2 * n) (rows.getD i 0)) (unpackBits (2 * n) d0) = 1 := by
          simpa using hb.symm
        rw [if_pos rfl, this]
      · have hne : ¬ (J * L = i * L) := fun h' => hij (Nat.eq_of_mul_eq_mul_right hL h').symm
        have : ¬ symp (unpackBits (2 * n) (rows.getD i 0)) (unpackBits (2 * n) d0) = 1 := by
          simpa [hne] using hb.symm
        rw [if_neg hij]; omega
    | succ j =>
      have h2 := h.2
      rw [e] at h2
      have ih := deltaRows_sound s n L hLs hn rows ds (jt + 1) (J + 1) h2 j
        (by simpa using hj) i hi
      rw [List.getD_cons_succ, ih]
      have : (i = J + 1 + j) ↔ (i = J + (j + 1)) := by omega
      simp only [this]

/-- `deltaRows` started at index 0 with target 1 -/
theorem deltaRows_sound0 (s n L : Nat) (hLs : 2 ^ s = L) (hn : 2 * n ≤ L) (rows ds : List Nat)
    (jt : Nat)
    (h : deltaRows s n (2 ^ n) (2 ^ L) (repunit (2 ^ L) rows.length) (packLanes (2 ^ L) rows)
      ds jt 1 = true) :
    ∀ i j, i < rows.length → j < ds.length →
      symp (unpackBits (2 * n) (rows.getD i 0)) (unpackBits (2 * n) (ds.getD j 0)) =
        if i = j then 1 else 0 := by
  intro i j hi hj
  have h1 : (1 : Nat) = 2 ^ (0 * L) := by simp
  rw [h1] at h
  have := deltaRows_sound s n L hLs hn rows ds jt 0 h j hj i hi
  simpa using this

/-! ### F. all `xorSelect`s at once -/

/-- bit `t` of every combo, as 0/1 lanes -/
theorem shift_and_repunit (L : Nat) (hL : 0 < L) (t : Nat) (ht : t < L) (cs : List Nat) :
    (packLanes (2 ^ L) cs >>> t) &&& repunit (2 ^ L) cs.length =
      packLanes (2 ^ L) (cs.map fun c => (c >>> t) % 2) := by
  apply Nat.eq_of_testBit_eq
  intro p
  rw [Nat.testBit_and, Nat.testBit_shiftRight, testBit_repunit L hL, testBit_packLanes L hL,
    testBit_packLanes L hL, getD_map_zero]
  by_cases h0 : p % L = 0 ∧ p / L < cs.length
  · obtain ⟨h0, hlt⟩ := h0
    obtain ⟨q, rfl⟩ : ∃ q, p = L * q :=
      ⟨p / L, by have := Nat.div_add_mod p L; rw [h0] at this; omega⟩
    have hq : L * q / L = q := Nat.mul_div_cancel_left q hL
    have hd : (t + L * q) / L = q := by
      rw [Nat.add_mul_div_left _ _ hL, Nat.div_eq_of_lt ht, Nat.zero_add]
    have hm : (t + L * q) % L = t := by
      rw [Nat.add_mul_mod_self_left, Nat.mod_eq_of_lt ht]
    rw [hq] at hlt
    rw [hd, hm, hq, Nat.mul_mod_right, if_pos hlt, Nat.testBit_zero, Nat.mod_mod,
      Nat.testBit_eq_decide_div_mod_eq, Nat.shiftRight_eq_div_pow]
    simp [hlt]
  · have hf : decide (p % L = 0 ∧ p / L < cs.length) = false := by simpa using h0
    rw [hf, Bool.and_false]
    by_cases hlt : p / L < cs.length
    · have hne : p % L ≠ 0 := fun h => h0 ⟨h, hlt⟩
      rw [if_pos hlt]
      symm
      apply Nat.testBit_lt_two_pow
      have : 2 ^ 1 ≤ 2 ^ (p % L) := Nat.pow_le_pow_right (by omega) (by omega)
      have := Nat.mod_lt (cs.getD (p / L) 0 >>> t) (by omega : 0 < 2)
      omega
    · rw [if_neg hlt, Nat.zero_testBit]

theorem lane_xor_step (L X Y a b : Nat) :
    (2 ^ L * X + a % 2 ^ L) ^^^ (2 ^ L * Y + b % 2 ^ L) =
      2 ^ L * (X ^^^ Y) + (a ^^^ b) % 2 ^ L := by
  have hpos := Nat.two_pow_pos L
  apply Nat.eq_of_testBit_eq
  intro p
  rw [Nat.testBit_xor, Nat.testBit_two_pow_mul_add _ (Nat.mod_lt _ hpos),
    Nat.testBit_two_pow_mul_add _ (Nat.mod_lt _ hpos),
    Nat.testBit_two_pow_mul_add _ (Nat.mod_lt _ hpos)]
  by_cases hp : p < L
  · simp [hp, Nat.testBit_mod_two_pow, Nat.testBit_xor]
  · simp [hp, Nat.testBit_xor]

theorem packLanes_xor_map (L : Nat) (f g : Nat → Nat) : ∀ (cs : List Nat),
    packLanes (2 ^ L) (cs.map f) ^^^ packLanes (2 ^ L) (cs.map g) =
      packLanes (2 ^ L) (cs.map fun c => f c ^^^ g c)
  | [] => by simp [packLanes]
  | c :: cs => by
    simp only [List.map_cons, packLanes]
    rw [lane_xor_step, packLanes_xor_map L f g cs]

/-- lane `i` of `comboAcc` is `xorSelect basis combo[i]` -/
theorem comboAcc_eq (L : Nat) (hL : 0 < L) (cs : List Nat) : ∀ (bs : List Nat) (t : Nat),
    t + bs.length ≤ L → (∀ b ∈ bs, b < 2 ^ L) →
    comboAcc (repunit (2 ^ L) cs.length) bs (packLanes (2 ^ L) cs >>> t) =
      packLanes (2 ^ L) (cs.map fun c => xorSelect bs (c >>> t))
  | [], t, _, _ => by
    simp only [comboAcc, xorSelect]
    exact (packLanes_zero _ cs).symm
  | b :: bs, t, ht, hb => by
    have hW := one_lt_two_pow_of_pos L hL
    have ht' : t < L := by simp at ht; omega
    have ih := comboAcc_eq L hL cs bs (t + 1) (by simp at ht; omega)
      (fun x hx => hb x (by simp [hx]))
    have hbin : ∀ e ∈ cs.map (fun c => (c >>> t) % 2), e < 2 := by
      intro e he
      obtain ⟨c, _, rfl⟩ := List.mem_map.mp he
      exact Nat.mod_lt _ (by omega)
    rw [comboAcc, ← Nat.shiftRight_add, ih, shift_and_repunit L hL t ht',
      packLanes_mul _ hW b (hb b (by simp)) _ hbin, List.map_map, packLanes_xor_map]
    congr 1
    apply List.map_congr_left
    intro c _
    simp only [Function.comp, xorSelect, Nat.shiftRight_succ]
    rcases Nat.mod_two_eq_zero_or_one (c >>> t) with h | h <;> simp [h]

/-! ### G. `pickSorted` -/

theorem pickSorted_sublist : ∀ (rows idx : List Nat) (off : Nat),
    (pickSorted idx rows off).Sublist rows
  | [], idx, off => by cases idx <;> simp [pickSorted]
  | x :: xs, [], off => by simp [pickSorted]
  | x :: xs, i :: is, off => by
    rw [pickSorted]
    split
    · exact (pickSorted_sublist xs is (off + 1)).cons_cons x
    · exact (pickSorted_sublist xs (i :: is) (off + 1)).cons x

/-! ### unpacking sees only the low bits -/

theorem unpackBits_mod_of_le (w L a : Nat) (h : w ≤ L) :
    unpackBits w (a % 2 ^ L) = unpackBits w a := by
  rw [← unpackBits_mod w (a % 2 ^ L), Nat.mod_mod_of_dvd _ (Nat.pow_dvd_pow 2 h), unpackBits_mod]

theorem unpackBits_congr_mod (w L a b : Nat) (h : w ≤ L) (hab : a % 2 ^ L = b % 2 ^ L) :
    unpackBits w a = unpackBits w b := by
  rw [← unpackBits_mod_of_le w L a h, hab, unpackBits_mod_of_le w L b h]

/-! ### the tagged weight list -/

theorem weightsIdx_eq (n : Nat) : ∀ (l : List Nat) (i : Nat),
    weightsIdx n l i = l.map (weightMask n)
  | [], _ => rfl
  | a :: as, i => by simp [weightsIdx, tagNat, weightsIdx_eq n as (i + 1)]

theorem reportedDistanceFast_eq (c : MaskCode) : reportedDistanceFast c = reportedDistanceOK c := by
  unfold reportedDistanceFast reportedDistanceOK
  rw [weightsIdx_eq]

end Panqec
