/-
Helper lemmas (C16): least-squares cost of the finite-size-scaling ansatz, truncation,
quantiles of the bootstrap column, `get_fit_status`.
-/
import PanqecVerif.Proofs.AnalysisRates
import Mathlib.Data.List.Sort
import Mathlib.Algebra.BigOperators.Group.List.Basic
import Mathlib.Algebra.Order.BigOperators.Group.List

namespace Panqec.An

/-! ### cost -/

theorem cost_nil (θ : Params) : cost θ [] = 0 := rfl

theorem cost_cons (θ : Params) (r : Row) (rows : List Row) :
    cost θ (r :: rows) = (residual θ r) ^ 2 + cost θ rows := by
  simp [cost]

theorem cost_nonneg (θ : Params) : ∀ rows : List Row, 0 ≤ cost θ rows
  | [] => by simp [cost]
  | r :: rows => by
    rw [cost_cons]
    have := cost_nonneg θ rows
    positivity

theorem cost_eq_zero_iff (θ : Params) : ∀ rows : List Row,
    cost θ rows = 0 ↔ ∀ r ∈ rows, residual θ r = 0
  | [] => by simp [cost]
  | r :: rows => by
    rw [cost_cons]
    have h1 := cost_nonneg θ rows
    have h2 : 0 ≤ (residual θ r) ^ 2 := sq_nonneg _
    have ih := cost_eq_zero_iff θ rows
    constructor
    · intro h
      have hr : (residual θ r) ^ 2 = 0 := by linarith
      have hc : cost θ rows = 0 := by linarith
      intro r' hr'
      rcases List.mem_cons.mp hr' with rfl | hr'
      · exact pow_eq_zero_iff (by norm_num) |>.mp hr
      · exact ih.mp hc r' hr'
    · intro h
      have hr : residual θ r = 0 := h r (by simp)
      have hc : cost θ rows = 0 := ih.mpr (fun r' hr' => h r' (by simp [hr']))
      rw [hr, hc]; norm_num

theorem cost_perm (θ : Params) {a b : List Row} (h : a.Perm b) : cost θ a = cost θ b :=
  (h.map _).sum_eq

theorem cost_append (θ : Params) (a b : List Row) : cost θ (a ++ b) = cost θ a + cost θ b := by
  simp [cost]

/-! ### truncation with the default limits keeps everything -/

theorem foldl_min_le (rs : List Row) : ∀ m : Rat,
    rs.foldl (fun m r' => min m r'.p) m ≤ m ∧ ∀ r ∈ rs, rs.foldl (fun m r' => min m r'.p) m ≤ r.p := by
  induction rs with
  | nil => intro m; simp
  | cons r rs ih =>
    intro m
    have h := ih (min m r.p)
    simp only [List.foldl_cons]
    refine ⟨le_trans h.1 (min_le_left _ _), ?_⟩
    intro r' hr'
    rcases List.mem_cons.mp hr' with rfl | hr'
    · exact le_trans h.1 (min_le_right _ _)
    · exact h.2 r' hr'

theorem le_foldl_max (rs : List Row) : ∀ m : Rat,
    m ≤ rs.foldl (fun m r' => max m r'.p) m ∧ ∀ r ∈ rs, r.p ≤ rs.foldl (fun m r' => max m r'.p) m := by
  induction rs with
  | nil => intro m; simp
  | cons r rs ih =>
    intro m
    have h := ih (max m r.p)
    simp only [List.foldl_cons]
    refine ⟨le_trans (le_max_left _ _) h.1, ?_⟩
    intro r' hr'
    rcases List.mem_cons.mp hr' with rfl | hr'
    · exact le_trans (le_max_right _ _) h.1
    · exact h.2 r' hr'

theorem minRate_le {rows : List Row} {m : Rat} (h : minRate rows = some m) : ∀ r ∈ rows, m ≤ r.p := by
  cases rows with
  | nil => cases h
  | cons r0 rs =>
    simp only [minRate, Option.some.injEq] at h
    subst h
    intro r hr
    rcases List.mem_cons.mp hr with rfl | hr
    · exact (foldl_min_le rs _).1
    · exact (foldl_min_le rs _).2 r hr

theorem le_maxRate {rows : List Row} {m : Rat} (h : maxRate rows = some m) : ∀ r ∈ rows, r.p ≤ m := by
  cases rows with
  | nil => cases h
  | cons r0 rs =>
    simp only [maxRate, Option.some.injEq] at h
    subst h
    intro r hr
    rcases List.mem_cons.mp hr with rfl | hr
    · exact (le_foldl_max rs _).1
    · exact (le_foldl_max rs _).2 r hr

theorem truncate_eq_self {pl pr : Rat} {rows : List Row} (h : ∀ r ∈ rows, pl ≤ r.p ∧ r.p ≤ pr) :
    truncate pl pr rows = rows := by
  unfold truncate
  rw [List.filter_eq_self]
  intro r hr
  simp [h r hr]

theorem truncate_perm (pl pr : Rat) {a b : List Row} (h : a.Perm b) :
    (truncate pl pr a).Perm (truncate pl pr b) := h.filter _

/-! ### quantiles -/

theorem insertSorted_eq (x : Rat) (l : List Rat) : insertSorted x l = l.orderedInsert (· ≤ ·) x := by
  induction l with
  | nil => rfl
  | cons y ys ih => simp [insertSorted, List.orderedInsert, ih]

theorem sortRat_eq (l : List Rat) : sortRat l = l.insertionSort (· ≤ ·) := by
  induction l with
  | nil => rfl
  | cons x xs ih => simp [sortRat, List.insertionSort, ih, insertSorted_eq]

theorem sortRat_perm (l : List Rat) : (sortRat l).Perm l := by
  rw [sortRat_eq]; exact List.perm_insertionSort _ _

theorem sortRat_pairwise (l : List Rat) : (sortRat l).Pairwise (· ≤ ·) := by
  rw [sortRat_eq]; exact List.pairwise_insertionSort _ _

theorem sortRat_eq_of_perm {a b : List Rat} (h : a.Perm b) : sortRat a = sortRat b := by
  apply List.Perm.eq_of_pairwise (le := (· ≤ ·)) _ (sortRat_pairwise a) (sortRat_pairwise b)
  · exact (sortRat_perm a).trans (h.trans (sortRat_perm b).symm)
  · intro x y _ _ hxy hyx; exact le_antisymm hxy hyx

/-- the reported quantiles do not depend on the order of the bootstrap rows -/
theorem quantile_perm {a b : List Rat} (h : a.Perm b) (q : Rat) : quantile a q = quantile b q := by
  unfold quantile
  rw [sortRat_eq_of_perm h]

theorem quantile_none_iff (a : List Rat) (q : Rat) : quantile a q = none ↔ a = [] := by
  unfold quantile
  cases hs : sortRat a with
  | nil =>
    simp only [true_iff]
    have := (sortRat_perm a).length_eq
    rw [hs] at this
    exact List.eq_nil_of_length_eq_zero this.symm
  | cons x xs =>
    simp only [reduceCtorEq, false_iff]
    intro ha
    rw [ha] at hs
    simp [sortRat] at hs

/-! ### the bootstrap loop leaves the best-fit parameters alone -/

theorem bootstrapLoop_spec (raw : Option Rat) (bounds : List (Rat × Rat)) :
    bootstrapLoop raw bounds = (raw, bounds.map (hintFor raw)) := by
  unfold bootstrapLoop
  suffices h : ∀ (acc : List (Option Rat)),
      bounds.foldl (fun st b => (st.1, st.2 ++ [hintFor st.1 b])) (raw, acc)
        = (raw, acc ++ bounds.map (hintFor raw)) by
    simpa using h []
  induction bounds with
  | nil => intro acc; simp
  | cons b bs ih => intro acc; simp [ih]

/-! ### behaviour before commit 182c096 (kept for the regression example of C16):
    `get_fit_params` replaced `params_0[0]` in place and `params_0` was the caller's `params_opt`,
    so the value carried through the loop, and finally reported, was the last start value -/

def oldReportedPth (raw : Option Rat) (bounds : List (Rat × Rat)) : Option Rat :=
  bounds.foldl hintFor raw

/-! ### `np.isclose` -/

theorem isClose_iff (a b : Rat) : isClose a b = true ↔ |a - b| ≤ 1 / 100000000 + 1 / 100000 * |b| := by
  unfold isClose
  rw [absR_eq_abs, absR_eq_abs]
  exact decide_eq_true_iff

theorem isClose_zero_iff (a : Rat) : isClose a 0 = true ↔ |a| ≤ 1 / 100000000 := by
  rw [isClose_iff]; simp

theorem outside01_iff (x : Rat) : outside01 x = false ↔ 0 ≤ x ∧ x ≤ 1 := by
  unfold outside01
  simp only [Bool.or_eq_false_iff, decide_eq_false_iff_not, not_lt]

end Panqec.An
