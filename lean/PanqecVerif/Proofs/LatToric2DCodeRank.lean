/-
Toric2DCode, all sizes `Lx, Ly ≥ 2`: the generators at all stabilizer locations except the
vertex `(0, 0)` and the face `(1, 1)` are independent (triangular probes along a spanning tree:
column `x = 0` upwards, then every row to the right).  Core Lean only.
-/
import PanqecVerif.Proofs.Lat2DRank
import PanqecVerif.Proofs.LatToric2DCodeD

set_option linter.unusedVariables false

namespace Panqec.Toric2DCode
open Panqec.Lat2D

/-! `selStabs` (all stabilizer locations but one vertex and one face): defined in
    `Model/Lattices/Toric2DCode.lean` (linked into the driver, op `rankfamily`) -/

theorem mem_selStabs {Lx Ly : Nat} {s : Coord} :
    s ∈ selStabs Lx Ly ↔ s ∈ stabs Lx Ly ∧ s ≠ [0, 0] ∧ s ≠ [1, 1] := by
  unfold selStabs
  simp only [List.mem_filter, Bool.and_eq_true, bne_iff_ne, ne_eq]

/-- vertex `(x, y)`: `X` on `(x−1, y)` (on `(0, y−1)` in the column `x = 0`);
    face `(x, y)`: `Z` on `(x−1, y)` (on `(1, y−1)` in the column `x = 1`) -/
def probe (s : Coord) : Coord × Pauli :=
  match s with
  | [x, y] =>
    if x % 2 = 0 then (if x = 0 then ([0, y - 1], Pauli.X) else ([x - 1, y], Pauli.X))
    else (if x = 1 then ([1, y - 1], Pauli.Z) else ([x - 1, y], Pauli.Z))
  | _ => ([], Pauli.I)

/-- first column bottom-up, then by `x` -/
def rankOf (Ly : Nat) (s : Coord) : Nat :=
  match s with
  | [x, y] => if x = 0 ∨ x = 1 then y.toNat else 2 * Ly + x.toNat
  | _ => 0

theorem rankOf_cases (Ly : Nat) (x y : Int) :
    ((x = 0 ∨ x = 1) ∧ rankOf Ly [x, y] = y.toNat) ∨
    (¬ (x = 0 ∨ x = 1) ∧ rankOf Ly [x, y] = 2 * Ly + x.toNat) := by
  unfold rankOf
  by_cases h : x = 0 ∨ x = 1 <;> simp [h]

theorem probe_count {Lx Ly : Nat} (hx : 2 ≤ Lx) (hy : 2 ≤ Ly) {x y x' y' : Int}
    (ht : [x', y'] ∈ stabs Lx Ly) :
    opAntiCount [probe [x, y]] ((lattice Lx Ly).getStab [x', y']) =
      if Pauli.anti (probe [x, y]).2 (letter x') = true ∧ (probe [x, y]).1 ∈ nbrs Lx Ly x' y'
      then 1 else 0 := by
  rw [getStab_eq hx hy ht]
  exact opAntiCount_probe _ _ _ _

theorem stabV {Lx Ly : Nat} {x y : Int} (h : IsV Lx Ly x y ∨ IsF Lx Ly x y) (p : x % 2 = 0) :
    IsV Lx Ly x y := by
  rcases h with h | h
  · exact h
  · unfold IsF at h; omega
theorem stabF {Lx Ly : Nat} {x y : Int} (h : IsV Lx Ly x y ∨ IsF Lx Ly x y) (p : ¬ x % 2 = 0) :
    IsF Lx Ly x y := by
  rcases h with h | h
  · unfold IsV at h; omega
  · exact h

theorem triangular {Lx Ly : Nat} (hx : 2 ≤ Lx) (hy : 2 ≤ Ly) :
    TriangularProbes (lattice Lx Ly) (selStabs Lx Ly) probe (rankOf Ly) where
  on_qubits := by
    intro s hs
    obtain ⟨hs, h00, h11⟩ := mem_selStabs.mp hs
    obtain ⟨x, y, rfl, h⟩ := mem_stabs.mp hs
    have h00' : ¬ (x = 0 ∧ y = 0) := fun e => h00 (by rw [e.1, e.2])
    have h11' : ¬ (x = 1 ∧ y = 1) := fun e => h11 (by rw [e.1, e.2])
    unfold probe
    by_cases hp : x % 2 = 0
    · have hv := stabV h hp
      unfold IsV InBox at hv
      simp only [hp, if_true]
      by_cases h0 : x = 0
      · simp only [h0, if_true]
        refine ⟨?_, by decide⟩
        show [0, y - 1] ∈ qubits Lx Ly
        rw [mem_qubits']; unfold IsQ InBox; omega
      · simp only [h0, if_false]
        refine ⟨?_, by decide⟩
        show [x - 1, y] ∈ qubits Lx Ly
        rw [mem_qubits']; unfold IsQ InBox; omega
    · have hf := stabF h hp
      unfold IsF InBox at hf
      simp only [hp, if_false]
      by_cases h0 : x = 1
      · simp only [h0, if_true]
        refine ⟨?_, by decide⟩
        show [1, y - 1] ∈ qubits Lx Ly
        rw [mem_qubits']; unfold IsQ InBox; omega
      · simp only [h0, if_false]
        refine ⟨?_, by decide⟩
        show [x - 1, y] ∈ qubits Lx Ly
        rw [mem_qubits']; unfold IsQ InBox; omega
  diag := by
    intro s hs
    obtain ⟨hs, h00, h11⟩ := mem_selStabs.mp hs
    obtain ⟨x, y, rfl, h⟩ := mem_stabs.mp hs
    have h00' : ¬ (x = 0 ∧ y = 0) := fun e => h00 (by rw [e.1, e.2])
    have h11' : ¬ (x = 1 ∧ y = 1) := fun e => h11 (by rw [e.1, e.2])
    rw [probe_count hx hy hs]
    have := predW_spec x (2 * (Lx : Int)); have := succW_spec x (2 * (Lx : Int))
    have := predW_spec y (2 * (Ly : Int)); have := succW_spec y (2 * (Ly : Int))
    unfold probe
    by_cases hp : x % 2 = 0
    · have hv := stabV h hp
      unfold IsV InBox at hv
      have hl : letter x = Pauli.Z := by unfold letter; simp [hp]
      simp only [hp, if_true, hl]
      by_cases h0 : x = 0
      · simp only [h0, if_true]
        rw [if_pos ⟨by decide, by rw [mem_nbrs]; unfold nbr; omega⟩]
      · simp only [h0, if_false]
        rw [if_pos ⟨by decide, by rw [mem_nbrs]; unfold nbr; omega⟩]
    · have hf := stabF h hp
      unfold IsF InBox at hf
      have hl : letter x = Pauli.X := by unfold letter; simp [hp]
      simp only [hp, if_false, hl]
      by_cases h0 : x = 1
      · simp only [h0, if_true]
        rw [if_pos ⟨by decide, by rw [mem_nbrs]; unfold nbr; omega⟩]
      · simp only [h0, if_false]
        rw [if_pos ⟨by decide, by rw [mem_nbrs]; unfold nbr; omega⟩]
  later := by
    intro s hs t ht hne hle
    obtain ⟨hs, h00, h11⟩ := mem_selStabs.mp hs
    obtain ⟨ht, _, _⟩ := mem_selStabs.mp ht
    obtain ⟨x, y, rfl, h⟩ := mem_stabs.mp hs
    obtain ⟨x', y', rfl, h'⟩ := mem_stabs.mp ht
    have h00' : ¬ (x = 0 ∧ y = 0) := fun e => h00 (by rw [e.1, e.2])
    have h11' : ¬ (x = 1 ∧ y = 1) := fun e => h11 (by rw [e.1, e.2])
    have hne' : ¬ (x = x' ∧ y = y') := fun e => hne (by rw [e.1, e.2])
    rw [probe_count hx hy ht]
    have := predW_spec x' (2 * (Lx : Int)); have := succW_spec x' (2 * (Lx : Int))
    have := predW_spec y' (2 * (Ly : Int)); have := succW_spec y' (2 * (Ly : Int))
    have := rankOf_cases Ly x y; have := rankOf_cases Ly x' y'
    unfold probe
    by_cases hp : x % 2 = 0 <;> by_cases hp' : x' % 2 = 0
    · have hv := stabV h hp; have hv' := stabV h' hp'
      unfold IsV InBox at hv hv'
      simp only [hp, if_true]
      by_cases h0 : x = 0
      · simp only [h0, if_true]
        rw [if_neg (by rw [mem_nbrs]; unfold nbr; omega)]
      · simp only [h0, if_false]
        rw [if_neg (by rw [mem_nbrs]; unfold nbr; omega)]
    · have hl : letter x' = Pauli.X := by unfold letter; simp [hp']
      simp only [hp, if_true, hl]
      by_cases h0 : x = 0
      · simp only [h0, if_true]; rw [if_neg (fun e => absurd e.1 (by decide))]
      · simp only [h0, if_false]; rw [if_neg (fun e => absurd e.1 (by decide))]
    · have hl : letter x' = Pauli.Z := by unfold letter; simp [hp']
      simp only [hp, if_false, hl]
      by_cases h0 : x = 1
      · simp only [h0, if_true]; rw [if_neg (fun e => absurd e.1 (by decide))]
      · simp only [h0, if_false]; rw [if_neg (fun e => absurd e.1 (by decide))]
    · have hf := stabF h hp; have hf' := stabF h' hp'
      unfold IsF InBox at hf hf'
      simp only [hp, if_false]
      by_cases h0 : x = 1
      · simp only [h0, if_true]
        rw [if_neg (by rw [mem_nbrs]; unfold nbr; omega)]
      · simp only [h0, if_false]
        rw [if_neg (by rw [mem_nbrs]; unfold nbr; omega)]

/-- the generators at all stabilizer locations except `(0, 0)` and `(1, 1)` are independent,
    for every size `Lx, Ly ≥ 2` -/
theorem indep_sel {Lx Ly : Nat} (hx : 2 ≤ Lx) (hy : 2 ≤ Ly) :
    IndepGenerators (lattice Lx Ly) (selStabs Lx Ly) :=
  indep_of_triangular (triangular hx hy)

end Panqec.Toric2DCode

namespace Panqec.Toric2DCode
open Panqec.Lat2D

/-- the selected family has `n − k = 2·Lx·Ly − 2` members -/
theorem length_selStabs {Lx Ly : Nat} (hx : 1 ≤ Lx) (hy : 1 ≤ Ly) :
    (selStabs Lx Ly).length + 2 = 2 * Lx * Ly := by
  rw [← length_stabs Lx Ly]
  apply length_remove_two _ _ _ (nodup_stabs Lx Ly)
  · rw [mem_stabs']; left; unfold IsV InBox; omega
  · rw [mem_stabs']; right; unfold IsF InBox; omega
  · decide

end Panqec.Toric2DCode
