/-
Decidable well-formedness predicates on a parity-check matrix under which the union-find
internals are proved correct (`multigraphLike` / `closedMultigraph`: the hypotheses of the
theorems since the repair of `Peeling_Tree.peel`; `graphLike` / `closedGraph`: the special case
without parallel edges, which was the hypothesis before the repair) (`Properties/C05UnionFind.lean`).  Executable, no Mathlib (the
driver evaluates them on the matrices of the correspondence: op `uf.class`).
-/
import PanqecVerif.Model.UnionFind

namespace Panqec.UF

/-- number of `i < m` with `f i` -/
def cnt (m : Nat) (f : Nat → Bool) : Nat := (List.range m).countP f

/-- rectangular 0/1 matrix whose Tanner graph is a simple graph (possibly with dangling edges):
    every column has weight ≤ 2 and two different rows share at most one column -/
def graphLike (H : Mat) : Bool :=
  H.all (fun r => decide (r.length = ncols H) && r.all (fun x => decide (x ≤ 1))) &&
  (List.range (ncols H)).all (fun q => decide (cnt H.length (fun s => hb H s q) ≤ 2)) &&
  (List.range H.length).all (fun i => (List.range H.length).all fun j =>
    decide (i = j) || decide (cnt (ncols H) (fun q => hb H i q && hb H j q) ≤ 1))

/-- graph-like and without dangling edges: every column has weight 0 or 2 -/
def closedGraph (H : Mat) : Bool :=
  graphLike H && (List.range (ncols H)).all (fun q => cnt H.length (fun s => hb H s q) != 1)

/-- rectangular 0/1 matrix whose Tanner graph is a MULTIgraph (possibly with dangling edges):
    every column has weight ≤ 2; two different rows may share several columns (parallel edges:
    `Toric2DCode` with a side of length 2), but fewer than 256 — the adjacency test of
    `_build_tree` is the `uint8` product `H @ H.T`, which wraps to zero at 256 shared columns -/
def multigraphLike (H : Mat) : Bool :=
  H.all (fun r => decide (r.length = ncols H) && r.all (fun x => decide (x ≤ 1))) &&
  (List.range (ncols H)).all (fun q => decide (cnt H.length (fun s => hb H s q) ≤ 2)) &&
  (List.range H.length).all (fun i => (List.range H.length).all fun j =>
    decide (i = j) || decide (cnt (ncols H) (fun q => hb H i q && hb H j q) < 256))

/-- multigraph-like and without dangling edges: every column has weight 0 or 2 -/
def closedMultigraph (H : Mat) : Bool :=
  multigraphLike H && (List.range (ncols H)).all (fun q => cnt H.length (fun s => hb H s q) != 1)

end Panqec.UF
