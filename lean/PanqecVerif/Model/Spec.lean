/-
Model of the input-specification layer of `panqec/simulation/_batch_simulation.py`
(`_parse_parameters_range`, `_parse_all_ranges`, `expand_input_ranges`, `get_runs`,
`_parse_code_dict`, `_parse_error_model_dict`, `_parse_decoder_dict`, `get_simulations`,
`read_input_dict`), of the constructor-argument handling of `StabilizerCode.__init__`,
`PauliErrorModel.__init__` and the decoder classes, of the `params` properties, and of
`BaseSimulation._find_current_simulation`.

Executable, total, no Mathlib.  The registries `CODES` / `ERROR_MODELS` / `DECODERS`, the
`dimension` of every code class and the constructor defaults of every decoder class are
*regenerated* from the source (`Generated/Registry.lean`).

What is not modelled: building the lattice (a code class may reject a size), the decoders'
own set-up work; the harness only uses sizes and parameters the classes accept.
-/
import PanqecVerif.Generated.Registry

namespace Panqec.Spec

open Panqec.Generated

/-- a JSON-like value as it appears in an input specification -/
inductive PV where
  | none
  | bool (b : Bool)
  | int (i : Int)
  | num (q : Rat)
  | str (s : String)
  | list (l : List PV)
  | dict (d : List (String × PV))
  deriving Repr, Inhabited

def PV.ofLit : Lit → PV
  | .none => .none
  | .bool b => .bool b
  | .int i => .int i
  | .num n d => .num (mkRat n d)
  | .str s => .str s

def PV.isNone : PV → Bool
  | .none => true
  | _ => false

/-- the exception classes the specification layer raises -/
inductive Err
  /-- `KeyError` -/
  | key
  /-- `TypeError` -/
  | type
  /-- `ValueError` -/
  | value
  /-- `UnboundLocalError` (`code_range` when the code block has no `parameters`) -/
  | unbound
  /-- a registered class whose constructor the model does not know (never raised by panqec) -/
  | unsupported
  deriving Repr, DecidableEq

/-- `[f(x) for x in l]` where `f` may raise: the first exception wins -/
def mapE {α β : Type} (f : α → Except Err β) : List α → Except Err (List β)
  | [] => .ok []
  | a :: as =>
    match f a with
    | .error e => .error e
    | .ok b =>
      match mapE f as with
      | .error e => .error e
      | .ok bs => .ok (b :: bs)

/-! ### the shape of a specification -/

/-- `{'name': …, 'parameters': …}` (other keys are ignored by the code) -/
structure Block where
  name : Option String
  params : Option PV
  deriving Repr, Inhabited

/-- `{'name': …, 'parameters': …}` of `ranges['method']` -/
structure Method where
  name : Option String
  params : Option PV
  deriving Repr

/-- one `ranges` dictionary; `none` = key absent -/
structure Ranges where
  label : Option String
  method : Option Method
  code : Option Block
  noise : Option Block
  decoder : Option Block
  errorRate : Option PV
  /-- only read by `read_input_dict` for elements of a list of ranges:
      `'ranges' in subdata` and then `subdata['ranges'].get('label')` -/
  innerLabel : Option (Option String)
  deriving Repr

/-- one element of `data['runs']` -/
structure Run where
  code : Option Block
  noise : Option Block
  decoder : Option Block
  errorRate : Option PV
  deriving Repr

inductive RangesField where
  | single (r : Ranges)
  | many (rs : List Ranges)
  deriving Repr

structure Spec where
  ranges : Option RangesField
  runs : Option (List Run)
  deriving Repr

/-! ### `_parse_parameters_range`, `_parse_all_ranges` -/

/-- ```
    parameters_range = [{}]
    if len(parameters) > 0:
        if isinstance(parameters, list): parameters_range = parameters
        elif isinstance(parameters, dict): parameters_range = [parameters]
        else: parameters_range = [parameters]
    ```
    `len` of a number / bool / None raises `TypeError`. -/
def parseParametersRange : PV → Except Err (List PV)
  | .list [] => .ok [.dict []]
  | .list l => .ok l
  | .dict [] => .ok [.dict []]
  | .dict d => .ok [.dict d]
  | .str s => if s.isEmpty then .ok [.dict []] else .ok [.str s]
  | _ => .error .type

/-- `block.copy()` with `['parameters'] = params` -/
def Block.withParams (b : Block) (p : PV) : Block := { b with params := some p }

/-- `_parse_all_ranges(data)` → `(code_range, noise_range, decoder_range, error_rate_range)`.
    Evaluation order as in the source: the missing `code_range` is only noticed at `return`. -/
def parseAllRanges (r : Ranges) :
    Except Err (List Block × List Block × List Block × List PV) :=
  match r.code with
  | none => .error .key
  | some code =>
    let codeRange : Except Err (Option (List Block)) :=
      match code.params with
      | none => .ok none
      | some p =>
        match parseParametersRange p with
        | .error e => .error e
        | .ok ps => .ok (some (ps.map code.withParams))
    match codeRange with
    | .error e => .error e
    | .ok codeRange =>
    match r.noise with
    | none => .error .key
    | some noise =>
      let noiseRange : Except Err (List Block) :=
        match noise.params with
        | none => .ok [⟨none, none⟩]          -- `noise_range = [{}]`
        | some p =>
          match parseParametersRange p with
          | .error e => .error e
          | .ok ps => .ok (ps.map noise.withParams)
      match noiseRange with
      | .error e => .error e
      | .ok noiseRange =>
      match r.decoder with
      | none => .error .key
      | some dec =>
        match parseParametersRange (dec.params.getD (.list [])) with
        | .error e => .error e
        | .ok ps =>
          let decoderRange := ps.map dec.withParams
          match r.errorRate with
          | none => .error .key
          | some er =>
            match parseParametersRange er with
            | .error e => .error e
            | .ok rates =>
              match codeRange with
              | none => .error .unbound
              | some cr => .ok (cr, noiseRange, decoderRange, rates)

/-- `itertools.product(as, bs, cs, ds)`: the last axis varies fastest -/
def product4 {α β γ δ : Type} (as : List α) (bs : List β) (cs : List γ) (ds : List δ) :
    List (α × β × γ × δ) :=
  as.flatMap fun a => bs.flatMap fun b => cs.flatMap fun c => ds.map fun d => (a, b, c, d)

/-! ### `expand_input_ranges`, `get_runs` -/

/-- one expanded run: names and the four chosen parameter values -/
structure RunOut where
  codeName : Option String
  codeParams : PV
  noiseName : Option String
  noiseParams : PV
  decoderName : Option String
  decoderParams : PV
  errorRate : PV
  deriving Repr

/-- `expand_input_ranges(data)`: product in the order
    `(error_model_range, decoder_range, error_rate_range, code_range)`;
    `x_param['parameters']` raises `KeyError` for the `{}` placeholder. -/
def expandInputRanges (r : Ranges) : Except Err (List RunOut) :=
  match parseAllRanges r with
  | .error e => .error e
  | .ok (cr, nr, dr, er) =>
    mapE (fun (t : Block × Block × PV × Block) =>
      let (n, d, rate, c) := t
      match c.params, n.params, d.params with
      | some cp, some np, some dp =>
        -- names come from `data[key]` itself
        .ok { codeName := (r.code.bind (·.name)), codeParams := cp,
              noiseName := (r.noise.bind (·.name)), noiseParams := np,
              decoderName := (r.decoder.bind (·.name)), decoderParams := dp,
              errorRate := rate }
      | _, _, _ => .error .key)
      (product4 nr dr er cr)

def Run.toOut (r : Run) : RunOut :=
  { codeName := r.code.bind (·.name), codeParams := (r.code.bind (·.params)).getD .none,
    noiseName := r.noise.bind (·.name), noiseParams := (r.noise.bind (·.params)).getD .none,
    decoderName := r.decoder.bind (·.name), decoderParams := (r.decoder.bind (·.params)).getD .none,
    errorRate := r.errorRate.getD .none }

/-- `get_runs(data)`: the explicit runs followed by the expansion of `ranges`
    (`expand_input_ranges` on a list raises `TypeError`). Only the number of runs and the
    expanded part are observable here; explicit runs are passed through unchanged. -/
def getRuns (s : Spec) : Except Err (List RunOut) :=
  let explicit := (s.runs.getD []).map Run.toOut
  match s.ranges with
  | none => .ok explicit
  | some (.many _) => .error .type
  | some (.single r) =>
    match expandInputRanges r with
    | .error e => .error e
    | .ok ex => .ok (explicit ++ ex)

/-! ### instantiation: Python call semantics and the `params` properties -/

/-- `(class name, params)`: what `obj.id` and `obj.params` return -/
structure Inst where
  cls : String
  params : List (String × PV)
  deriving Repr

def lookupKw (kw : List (String × PV)) (name : String) : Option PV :=
  match kw.find? (·.1 == name) with
  | some (_, v) => some v
  | none => none

/-- fill the formal parameters: positionals first, then keywords, then defaults -/
def fillArgs : List (String × Option PV) → List PV → List (String × PV) →
    Except Err (List (String × PV))
  | [], _, _ => .ok []
  | (name, _) :: rest, p :: ps, kw =>
    match fillArgs rest ps kw with
    | .error e => .error e
    | .ok b => .ok ((name, p) :: b)
  | (name, dflt) :: rest, [], kw =>
    match lookupKw kw name, dflt with
    | some v, _ =>
      match fillArgs rest [] kw with
      | .error e => .error e
      | .ok b => .ok ((name, v) :: b)
    | none, some d =>
      match fillArgs rest [] kw with
      | .error e => .error e
      | .ok b => .ok ((name, d) :: b)
    | none, none => .error .type          -- missing required argument

/-- `f(*pos, **kw)` against a signature `[(name, default?)]`: every failure is `TypeError`
    (too many positionals, unexpected keyword, keyword given twice, missing argument). -/
def bindArgs (sig : List (String × Option PV)) (pos : List PV) (kw : List (String × PV)) :
    Except Err (List (String × PV)) :=
  if pos.length > sig.length then .error .type
  else if kw.any (fun e => !(sig.any (·.1 == e.1))) then .error .type
  else if kw.any (fun e => (sig.take pos.length).any (·.1 == e.1)) then .error .type
  else fillArgs sig pos kw

/-- `cls(**params)` if `params` is a dict else `cls(*params)` -/
def splatArgs : PV → Except Err (List PV × List (String × PV))
  | .dict d => .ok ([], d)
  | .list l => .ok (l, [])
  | .str s => .ok (s.toList.map fun c => .str (String.singleton c), [])
  | _ => .error .type                     -- `*None`, `*3`: not iterable

def lookupRegistry (table key : String) : Option String :=
  match registry.find? (fun e => e.table == table && e.key == key) with
  | some e => some e.cls
  | none => none

def lookupAssoc {β : Type} (l : List (String × β)) (k : String) : Option β :=
  match l.find? (·.1 == k) with
  | some (_, v) => some v
  | none => none

def getArg (b : List (String × PV)) (name : String) : PV := (lookupKw b name).getD .none

def codeSig : List (String × Option PV) :=
  [("L_x", none), ("L_y", some .none), ("L_z", some .none)]

/-- `_parse_code_dict(code_dict)` followed by `code.id` / `code.params`:
    ```
    if L_y is None: L_y = L_x
    if L_z is None and self.dimension == 3: L_z = L_x
    ``` -/
def instCode (b : Block) : Except Err Inst :=
  match b.name with
  | none => .error .key
  | some name =>
    match lookupRegistry "CODES" name with
    | none => .error .key
    | some cls =>
      match splatArgs (b.params.getD (.list [])) with
      | .error e => .error e
      | .ok (pos, kw) =>
        match bindArgs codeSig pos kw with
        | .error e => .error e
        | .ok bound =>
          match lookupAssoc codeDimension cls with
          | none => .error .unsupported
          | some dim =>
            let lx := getArg bound "L_x"
            let ly := getArg bound "L_y"
            let lz := getArg bound "L_z"
            let ly' := if ly.isNone then lx else ly
            let lz' := if lz.isNone && dim == 3 then lx else lz
            .ok ⟨cls, [("L_x", lx), ("L_y", ly'), ("L_z", lz')]⟩

def pauliSig : List (String × Option PV) :=
  [("r_x", none), ("r_y", none), ("r_z", none),
   ("deformation_name", some .none), ("deformation_kwargs", some .none)]

def PV.toRat? : PV → Option Rat
  | .int i => some i
  | .num q => some q
  | .bool b => some (if b then 1 else 0)
  | _ => Option.none

/-- `np.isclose(s, 1)`: `|s − 1| ≤ atol + rtol·|1|` with `atol = 1e-8`, `rtol = 1e-5`
    (evaluated on the exact sum; inputs within an ulp of the tolerance are not generated) -/
def isCloseToOne (s : Rat) : Bool :=
  let d := if s ≥ 1 then s - 1 else 1 - s
  decide (d ≤ 1 / 100000000 + 1 / 100000)

/-- `_parse_error_model_dict(noise_dict)` followed by `.id` / `.params` -/
def instNoise (b : Block) : Except Err Inst :=
  match b.name with
  | none => .error .key
  | some name =>
    match lookupRegistry "ERROR_MODELS" name with
    | none => .error .key
    | some cls =>
      if cls != "PauliErrorModel" then .error .unsupported else
      match splatArgs (b.params.getD (.list [])) with
      | .error e => .error e
      | .ok (pos, kw) =>
        match bindArgs pauliSig pos kw with
        | .error e => .error e
        | .ok bound =>
          match (getArg bound "r_x").toRat?, (getArg bound "r_y").toRat?,
                (getArg bound "r_z").toRat? with
          | some x, some y, some z =>
            if !isCloseToOne (x + y + z) then .error .value else
            let kwargs := getArg bound "deformation_kwargs"
            .ok ⟨cls, [("r_x", getArg bound "r_x"), ("r_y", getArg bound "r_y"),
                       ("r_z", getArg bound "r_z"),
                       ("deformation_name", getArg bound "deformation_name"),
                       ("deformation_kwargs", if kwargs.isNone then .dict [] else kwargs)]⟩
          | _, _, _ => .error .type

def implicitDecoderArgs : List String := ["code", "error_model", "error_rate"]

/-- `_parse_decoder_dict(decoder_dict, code, error_model, error_rate)` followed by
    `.id` / `.params`: `decoder_params['code'] = code` etc. needs a dict (item assignment on
    anything else raises `TypeError`) and overrides user entries of those names. -/
def instDecoder (b : Block) : Except Err Inst :=
  match b.name with
  | none => .error .key
  | some name =>
    match lookupRegistry "DECODERS" name with
    | none => .error .key
    | some cls =>
      match b.params.getD (.dict []) with
      | .dict d =>
        match lookupAssoc decoderSignature cls with
        | none => .error .unsupported
        | some sig =>
          let kw := d.filter fun e => !(implicitDecoderArgs.contains e.1)
          match bindArgs (sig.map fun e => (e.1, some (PV.ofLit e.2))) [] kw with
          | .error e => .error e
          | .ok bound => .ok ⟨cls, bound⟩
      | _ => .error .type

/-! ### `get_simulations`, `read_input_dict` -/

/-- what identifies a `DirectSimulation` built from a specification -/
structure SimT where
  code : Inst
  noise : Inst
  decoder : Inst
  /-- `error_rate` of a `DirectSimulation`; the descending list `error_rates` of a
      `SplittingSimulation` -/
  errorRate : PV
  /-- built by the `method == 'splitting'` branch -/
  splitting : Bool
  deriving Repr

/-- keyword arguments `DirectSimulation.__init__` accepts besides the positional ones and
    `verbose` (which `get_simulations` passes itself: repeating it is a `TypeError`) -/
def methodParamsOk : PV → Except Err Unit
  | .dict d => if d.all (fun e => e.1 == "compress" || e.1 == "rng") then .ok () else .error .type
  | _ => .error .type

/-- loop body of the direct method:
    `decoder = _parse_decoder_dict(...)`, then `DirectSimulation(..., **method_params)` -/
def buildSim (mparams : PV) (t : Inst × Inst × Block × PV) : Except Err SimT :=
  match instDecoder t.2.2.1 with
  | .error e => .error e
  | .ok dec =>
    match methodParamsOk mparams with
    | .error e => .error e
    | .ok () => .ok ⟨t.1, t.2.1, dec, t.2.2.2, false⟩

/-- keyword arguments of `SplittingSimulation.__init__` that `method_params` may / must carry -/
def splittingParamsOk : PV → Except Err Unit
  | .dict d =>
    if d.all (fun e => ["n_init_runs", "start_run", "compress", "rng"].contains e.1) &&
       d.any (fun e => e.1 == "n_init_runs") then .ok () else .error .type
  | _ => .error .type

/-- `np.sort(error_rates)[::-1]` -/
def ratesDescending (er : List PV) : Except Err PV :=
  match er.mapM PV.toRat? with
  | none => .error .type
  | some qs => .ok (.list ((qs.mergeSort fun a b => decide (b ≤ a)).map PV.num))

/-- loop body of the splitting method: one decoder per error rate (the first one is recorded),
    then `SplittingSimulation(code, error_model, decoders, error_rates, **method_params)` -/
def buildSplit (mparams : PV) (er : List PV) (t : Inst × Inst × Block) : Except Err SimT :=
  match instDecoder t.2.2 with
  | .error e => .error e
  | .ok dec =>
    match splittingParamsOk mparams with
    | .error e => .error e
    | .ok () =>
      match ratesDescending er with
      | .error e => .error e
      | .ok rates => .ok ⟨t.1, t.2.1, dec, rates, true⟩

/-- `itertools.product(as, bs, cs)` -/
def product3 {α β γ : Type} (as : List α) (bs : List β) (cs : List γ) : List (α × β × γ) :=
  as.flatMap fun a => bs.flatMap fun b => cs.map fun c => (a, b, c)

/-- `data['ranges']['method']['name']`, `['parameters']` (default: direct, `{}`) -/
def methodOf (r : Ranges) : Except Err (String × PV) :=
  match r.method with
  | none => .ok ("direct", .dict [])
  | some m =>
    match m.name, m.params with
    | some n, some p => .ok (n, p)
    | _, _ => .error .key

/-- the `'ranges' in data` branch of `get_simulations` for one `ranges` dictionary -/
def simsOfRanges (r : Ranges) : Except Err (List SimT) :=
  match parseAllRanges r with
  | .error e => .error e
  | .ok (cr, nr, dr, er) =>
    match mapE instCode cr with
    | .error e => .error e
    | .ok codes =>
    match mapE instNoise nr with
    | .error e => .error e
    | .ok noises =>
      match methodOf r with
      | .error e => .error e
      | .ok (method, mparams) =>
        let instances := product4 codes noises dr er
        if method == "direct" then mapE (buildSim mparams) instances
        else if method == "splitting" then
          -- one simulation per (code, noise, decoder), each with the whole list of rates
          mapE (buildSplit mparams er) (product3 codes noises dr)
        else .ok []

def Run.getCode (r : Run) : Except Err Inst :=
  match r.code with
  | none => .error .key
  | some b => instCode b

def Run.getDecoder (r : Run) : Except Err Block :=
  match r.decoder with
  | none => .error .key
  | some b => .ok b

def Run.getNoise (r : Run) : Except Err Inst :=
  match r.noise with
  | none => .error .key
  | some b => instNoise b

def Run.getRate (r : Run) : Except Err PV :=
  match r.errorRate with
  | none => .error .key
  | some p => .ok p

/-- the `'runs' in data` branch: all codes first, then the decoder blocks, all error models,
    the error rates, then one decoder per run (`zip`) -/
def simsOfRuns (runs : List Run) : Except Err (List SimT) :=
  match mapE Run.getCode runs with
  | .error e => .error e
  | .ok codes =>
  match mapE Run.getDecoder runs with
  | .error e => .error e
  | .ok decs =>
  match mapE Run.getNoise runs with
  | .error e => .error e
  | .ok noises =>
  match mapE Run.getRate runs with
  | .error e => .error e
  | .ok rates =>
    mapE (buildSim (.dict []))
      (List.zipWith (fun c (x : Inst × Block × PV) => (c, x)) codes
        (List.zipWith (fun n (x : Block × PV) => (n, x)) noises (decs.zip rates)))

/-- concatenation of the simulations of each element of a list of ranges -/
def simsOfMany : List Ranges → Except Err (List SimT)
  | [] => .ok []
  | r :: rs =>
    match simsOfRanges r with
    | .error e => .error e
    | .ok a =>
      match simsOfMany rs with
      | .error e => .error e
      | .ok b => .ok (a ++ b)

/-- `get_simulations(data)`: `ranges` (list or dict) wins over `runs` -/
def getSimulations (s : Spec) : Except Err (List SimT) :=
  match s.ranges with
  | some (.many rs) => simsOfMany rs
  | some (.single r) => simsOfRanges r
  | none =>
    match s.runs with
    | some runs => simsOfRuns runs
    | none => .error .value

/-- `label` chosen by `read_input_dict` -/
def batchLabel (s : Spec) : String :=
  match s.ranges with
  | none => "unlabelled"
  | some (.single r) => r.label.getD "unlabelled"
  | some (.many rs) =>
    let labels := rs.filterMap fun r => match r.innerLabel with
      | some (some l) => some l
      | _ => none
    match labels with
    | [] => "combined"
    | l :: ls => if ls.all (· == l) then l else "combined"

/-- `method` chosen by `read_input_dict` (`'method' in <list>` is false) -/
def batchMethod (s : Spec) : Except Err String :=
  match s.ranges with
  | some (.single r) =>
    match r.method with
    | none => .ok "direct"
    | some m => match m.name with
      | some n => .ok n
      | none => .error .key
  | _ => .ok "direct"

structure Batch where
  label : String
  method : String
  sims : List SimT
  deriving Repr

/-- `read_input_dict(data, output_file)` -/
def readInputDict (s : Spec) : Except Err Batch :=
  match batchMethod s with
  | .error e => .error e
  | .ok m =>
    match getSimulations s with
    | .error e => .error e
    | .ok sims => .ok ⟨batchLabel s, m, sims⟩

/-! ### recorded inputs and `_find_current_simulation` -/

/-- the blocks written to `_inputs` (and to the results file) for a simulation -/
def SimT.recordedCode (s : SimT) : Block := ⟨some s.code.cls, some (.dict s.code.params)⟩
def SimT.recordedNoise (s : SimT) : Block := ⟨some s.noise.cls, some (.dict s.noise.params)⟩
def SimT.recordedDecoder (s : SimT) : Block := ⟨some s.decoder.cls, some (.dict s.decoder.params)⟩

/-- `_find_current_simulation(data)`: the first record whose `inputs` equal `self._inputs` -/
def findCurrent {ι ρ : Type} [DecidableEq ι] (data : List (ι × ρ)) (inputs : ι) : Option (ι × ρ) :=
  data.find? fun rec => rec.1 = inputs

end Panqec.Spec
