/-
Model of the list part of the visualizer backend: `StabilizerCode.qubit_representation` /
`stabilizer_representation` (`panqec/codes/base/_stabilizer_code.py`) with the full content of the
`gui-config.json` entry (object, colours, opacity, params), the per-class overrides expressed as
lists of dict assignments (`Edit`), and `GUI.send_code_data` (`panqec/gui/_gui.py`): the complete
`/code-data` payload (H, logical_x, logical_z from the generic assembly of `Model/Code.lean`, one
description per qubit and per stabilizer in library index order).

Numbers: JSON integers are `Int`; JSON / Python float literals are exact decimals `m / 10^e`
(printed as Python prints the float nearest to that decimal); products of a literal with `1/2` stay
exact decimals; floats the Python computes with numpy or inexact float arithmetic (`np.pi/4`,
`np.sqrt(2)/2`, `z*1.4142`, `y+0.9`, `y-0.9`) are kept SYMBOLIC (`FSym`) and compared as text — the
model never approximates a float.

The per-class geometry (which edits a class applies) is in `Model/GuiReprClasses.lean`.  No Mathlib.
-/
import PanqecVerif.Model.Gui
import PanqecVerif.Model.Lattices.Common

namespace Panqec.GuiRepr
open Panqec.Gui

/-! ### JSON values -/

/-- floats that are results of float arithmetic in the Python, kept symbolic -/
inductive FSym
  /-- `np.pi/4` -/
  | piDiv4
  /-- `np.sqrt(2)/2` -/
  | sqrt2Div2
  /-- `-np.sqrt(2)/2` -/
  | negSqrt2Div2
  /-- `k*1.4142` (integer `k`) -/
  | mul14142 (k : Int)
  /-- `k+0.9` (integer `k`) -/
  | plus09 (k : Int)
  /-- `k-0.9` (integer `k`) -/
  | minus09 (k : Int)
  deriving DecidableEq, Repr

def FSym.render : FSym → String
  | .piDiv4 => "pi/4"
  | .sqrt2Div2 => "sqrt(2)/2"
  | .negSqrt2Div2 => "-sqrt(2)/2"
  | .mul14142 k => toString k ++ "*1.4142"
  | .plus09 k => toString k ++ "+0.9"
  | .minus09 k => toString k ++ "-0.9"

inductive Num
  /-- a JSON / Python `int` -/
  | int (i : Int)
  /-- the float nearest to the decimal `m / 10^e` (`e ≥ 1`) -/
  | dec (m : Int) (e : Nat)
  | sym (s : FSym)
  deriving DecidableEq, Repr

/-- strip trailing zeros of the fractional part, keeping at least one fractional digit (the way
    Python prints `1.50` as `1.5` and `2.00` as `2.0`) -/
def normDec : Nat → Int → Nat → Int × Nat
  | 0, m, e => (m, e)
  | fuel + 1, m, e => if e ≤ 1 then (m, e) else if m % 10 = 0 then normDec fuel (m / 10) (e - 1) else (m, e)

def Num.mkDec (m : Int) (e : Nat) : Num :=
  if e = 0 then .dec (m * 10) 1 else
    let r := normDec e m e
    .dec r.1 r.2

def padLeft (s : String) (n : Nat) : String :=
  String.ofList (List.replicate (n - s.length) '0') ++ s

/-- `repr` of the float nearest to `m / 10^e` for the short decimals that occur (sign, integer part,
    `.`, exactly `e` fractional digits) -/
def decString (m : Int) (e : Nat) : String :=
  let a := m.natAbs
  (if m < 0 then "-" else "") ++ toString (a / 10 ^ e) ++ "." ++ padLeft (toString (a % 10 ^ e)) e

def Num.render : Num → String
  | .int i => toString i
  | .dec m e => decString m e
  | .sym s => s.render

/-- `x * 0.5` in floating point (exact: a power of two), result a Python `float` -/
def Num.half : Num → Num
  | .int i => Num.mkDec (i * 5) 1
  | .dec m e => Num.mkDec (m * 5) (e + 1)
  | .sym s => .sym s   -- never reached: the configuration file holds literals only

inductive JV
  | null
  | bool (b : Bool)
  | num (n : Num)
  | str (s : String)
  | arr (l : List JV)
  | obj (l : List (String × JV))
  deriving Repr

/-- a JSON object / Python dict in insertion order -/
abbrev Dict := List (String × JV)

def JV.i (n : Int) : JV := .num (.int n)
def JV.d (m : Int) (e : Nat) : JV := .num (.dec m e)
def JV.f (s : FSym) : JV := .num (.sym s)
def JV.ints (l : List Int) : JV := .arr (l.map JV.i)

def quote (s : String) : String :=
  "\"" ++ (s.replace "\\" "\\\\").replace "\"" "\\\"" ++ "\""

/-- insertion sort of rendered fields by key (canonical text: keys in ascending order) -/
def insertField (f : String × String) : List (String × String) → List (String × String)
  | [] => [f]
  | g :: r => if f.1 < g.1 then f :: g :: r else g :: insertField f r

def sortFields (l : List (String × String)) : List (String × String) :=
  l.foldr insertField []

mutual
/-- canonical text of a JSON value: no blanks, object keys sorted -/
def JV.render : JV → String
  | .null => "null"
  | .bool b => if b then "true" else "false"
  | .num n => n.render
  | .str s => quote s
  | .arr l => "[" ++ ",".intercalate (renderList l) ++ "]"
  | .obj l => "{" ++ ",".intercalate ((sortFields (renderFields l)).map fun f => quote f.1 ++ ":" ++ f.2) ++ "}"
def renderList : List JV → List String
  | [] => []
  | v :: r => v.render :: renderList r
def renderFields : List (String × JV) → List (String × String)
  | [] => []
  | (k, v) :: r => (k, v.render) :: renderFields r
end

mutual
/-- structural equality of JSON values (objects compared with their key order) -/
def JV.beq : JV → JV → Bool
  | .null, .null => true
  | .bool a, .bool b => a == b
  | .num a, .num b => a == b
  | .str a, .str b => a == b
  | .arr a, .arr b => beqList a b
  | .obj a, .obj b => beqFields a b
  | _, _ => false
def beqList : List JV → List JV → Bool
  | [], [] => true
  | a :: as, b :: bs => a.beq b && beqList as bs
  | _, _ => false
def beqFields : List (String × JV) → List (String × JV) → Bool
  | [], [] => true
  | (k, a) :: as, (l, b) :: bs => k == l && a.beq b && beqFields as bs
  | _, _ => false
end

/-! ### Python dict operations -/

def getKey (d : Dict) (k : String) : Option JV := (d.find? (·.1 == k)).map (·.2)

def hasKey (d : Dict) (k : String) : Bool := d.any (·.1 == k)

/-- `d[k] = v`: overwrite in place if the key exists, else append (keys of a dict are distinct) -/
def setKey : Dict → String → JV → Dict
  | [], k, v => [(k, v)]
  | (a, b) :: d, k, v => if a == k then (k, v) :: d else (a, b) :: setKey d k v

/-! ### the regenerated tables -/

/-- one drawable description of `gui-config.json` with its complete content -/
structure REntry where
  cls : String
  /-- "stabilizers" or "qubits" -/
  kind : String
  picture : String
  /-- stabilizer type ("" for qubits) -/
  typ : String
  /-- the JSON object, keys in file order -/
  body : Dict
  deriving Repr

structure Tables where
  cfg : List REntry
  colormap : List (String × String)

def lookupFull (cfg : List REntry) (cls kind picture typ : String) : Option REntry :=
  cfg.find? fun e => e.cls == cls && e.kind == kind && e.picture == picture && e.typ == typ

/-- the summary row of `Model/Gui.lean` (`Generated/Gui.lean`) of a full entry -/
def REntry.summary (e : REntry) : Entry :=
  { cls := e.cls, kind := e.kind, picture := e.picture, typ := e.typ,
    object := match getKey e.body "object" with | some (.str s) => s | _ => "",
    colors := match getKey e.body "color" with
      | some (.obj l) => l.filterMap fun kv => match kv.2 with | .str s => some (kv.1, s) | _ => none
      | _ => [],
    hasOpacity := hasKey e.body "opacity",
    hasParams := match getKey e.body "params" with | some (.obj _) => true | _ => false }

def pictureName (rotated : Bool) : String := if rotated then "rotated" else "kitaev"

/-- a description as sent to the browser -/
abbrev Desc := Dict

/-- the loop `for key in keys: representation['color'][key] = self.colormap[representation['color'][key]]` -/
def resolveKeys (colormap : List (String × String)) : List String → Dict → Except String Dict
  | [], cs => .ok cs
  | k :: ks, cs =>
    match getKey cs k with
    | some (.str name) =>
      match resolve colormap name with
      | some hex => resolveKeys colormap ks (setKey cs k (.str hex))
      | none => .error "KeyError"
    | some _ => .error "TypeError"
    | none => .error "KeyError"

def resolveColors (colormap : List (String × String)) (keys : List String) (d : Desc) : Except String Desc :=
  match getKey d "color" with
  | some (.obj cols) =>
    match resolveKeys colormap keys cols with
    | .ok cs => .ok (setKey d "color" (.obj cs))
    | .error e => .error e
  | some _ => .error "TypeError"
  | none => .error "KeyError"

def locJV (loc : Coord) : JV := JV.ints loc

/-- `StabilizerCode.stabilizer_representation` after `stab_type = self.stabilizer_type(location)` -/
def baseStab (T : Tables) (cls : String) (rotated : Bool) (typ : String) (loc : Coord) : Except String Desc :=
  match lookupFull T.cfg cls "stabilizers" (pictureName rotated) typ with
  | none => .error "KeyError"
  | some e =>
    let d := setKey e.body "type" (.str typ)
    let d := setKey d "location" (locJV loc)
    resolveColors T.colormap ["activated", "deactivated"] d

/-- `StabilizerCode.qubit_representation`; `axis = none`: `qubit_axis` raises -/
def baseQubit (T : Tables) (cls : String) (rotated : Bool) (axis : Option String) (loc : Coord) :
    Except String Desc :=
  match lookupFull T.cfg cls "qubits" (pictureName rotated) "" with
  | none => .error "KeyError"
  | some e =>
    match axis with
    | none => .error "ValueError"
    | some a =>
      match getKey e.body "params" with
      | some (.obj p) =>
        let d := setKey e.body "params" (.obj (setKey p "axis" (.str a)))
        let d := setKey d "location" (locJV loc)
        resolveColors T.colormap ["I", "X", "Y", "Z"] d
      | some _ => .error "TypeError"
      | none => .error "KeyError"

/-! ### per-class overrides as dict assignments -/

/-- one assignment an override performs on the representation returned by `super()` -/
inductive Edit
  /-- `representation[key] = value` (used for `'object'` and `'location'`) -/
  | set (key : String) (value : JV)
  /-- `representation['params'][key] = value` -/
  | param (key : String) (value : JV)
  /-- `representation['params'] = {...}` -/
  | newParams (p : Dict)
  /-- `representation['params']['vertices'] = (np.array(representation['params']['vertices']) * a).tolist()`
      with `a = 0.5` (`half`) or the int `a = 1` -/
  | scaleVertices (half : Bool)

def halveJV : JV → JV
  | .num n => .num n.half
  | v => v

def isFloatJV : JV → Bool
  | .num (.int _) => false
  | .num _ => true
  | _ => false

/-- an int entry of an array that numpy stores as float64 comes back as a float -/
def toFloatJV : JV → JV
  | .num (.int i) => .num (Num.mkDec (i * 10) 1)
  | v => v

def rowEntries : JV → List JV
  | .arr xs => xs
  | _ => []

def mapRows (f : JV → JV) (rows : List JV) : List JV :=
  rows.map fun r => match r with
    | .arr xs => JV.arr (xs.map f)
    | v => v

/-- `(np.array(rows) * a).tolist()`: `a = 0.5` halves every entry (result float64); `a = 1` keeps an
    all-int array, and returns floats for every entry of an array that holds a float -/
def scaleRows (half : Bool) (rows : List JV) : List JV :=
  if half then mapRows halveJV rows
  else if (rows.flatMap rowEntries).any isFloatJV then mapRows toFloatJV rows
  else rows

def Edit.apply (d : Desc) : Edit → Except String Desc
  | .set k v => .ok (setKey d k v)
  | .param k v =>
    match getKey d "params" with
    | some (.obj p) => .ok (setKey d "params" (.obj (setKey p k v)))
    | some _ => .error "TypeError"
    | none => .error "KeyError"
  | .newParams p => .ok (setKey d "params" (.obj p))
  | .scaleVertices half =>
    match getKey d "params" with
    | some (.obj p) =>
      match getKey p "vertices" with
      | some (.arr rows) =>
        .ok (setKey d "params" (.obj (setKey p "vertices" (.arr (scaleRows half rows)))))
      | some _ => .error "TypeError"
      | none => .error "KeyError"
    | some _ => .error "TypeError"
    | none => .error "KeyError"

def applyEdits (es : List Edit) (d : Desc) : Except String Desc :=
  es.foldlM Edit.apply d

/-- a lattice class at one size with everything the visualizer asks of it -/
structure ClassGeom where
  /-- `code.id` (the class name) -/
  cls : String
  lat : Lattice
  /-- `stabilizer_type` (`none` = `ValueError`) -/
  stabType : Coord → Option String
  /-- `qubit_axis` (`none` = `ValueError`) -/
  qubitAxis : Coord → Option String
  /-- `get_deformation(location, name)` with the default keyword arguments (`none` = raises) -/
  deformation : String → Coord → Option PauliMap
  /-- what the class's `stabilizer_representation` does after `super()`: rotated, location, type -/
  stabEdits : Bool → Coord → String → List Edit
  /-- what the class's `qubit_representation` does after `super()`: rotated, location, axis -/
  qubitEdits : Bool → Coord → String → List Edit

namespace ClassGeom

def stabRepr (g : ClassGeom) (T : Tables) (rotated : Bool) (loc : Coord) : Except String Desc :=
  match g.stabType loc with
  | none => .error "ValueError"
  | some t =>
    match baseStab T g.cls rotated t loc with
    | .error e => .error e
    | .ok d => applyEdits (g.stabEdits rotated loc t) d

def qubitRepr (g : ClassGeom) (T : Tables) (rotated : Bool) (loc : Coord) : Except String Desc :=
  match baseQubit T g.cls rotated (g.qubitAxis loc) loc with
  | .error e => .error e
  | .ok d => applyEdits (g.qubitEdits rotated loc ((g.qubitAxis loc).getD "")) d

/-- all the keys on which the deformed getters call `get_deformation` -/
def opKeys (g : ClassGeom) : List Coord :=
  ((g.lat.stabs.map g.lat.getStab) ++ g.lat.logX ++ g.lat.logZ).flatMap fun op => op.map Prod.fst

/-- the relabelling `code.deform(name)` installs, as a total function (identity where
    `get_deformation` raises; `codeData` reports that case as an error) -/
def dmap (g : ClassGeom) (name : String) (q : Coord) : PauliMap := (g.deformation name q).getD PauliMap.id

/-- `_instantiate_code`: the class at the requested size, `code.deform(name)` unless `name == "None"` -/
def codeData (g : ClassGeom) (name : String) : Except String CodeData :=
  if name == "None" then .ok g.lat.toCodeData
  else if g.opKeys.all fun q => (g.deformation name q).isSome then .ok (g.lat.toCodeData.deform (g.dmap name))
  else .error "ValueError"

end ClassGeom

/-- the JSON object `send_code_data` returns -/
structure Payload where
  H : List (List Nat)
  logicalX : List (List Nat)
  logicalZ : List (List Nat)
  qubits : List Desc
  stabilizers : List Desc

def optE {α} (e : String) : Option α → Except String α
  | some a => .ok a
  | none => .error e

/-- `GUI.send_code_data`: the two description lists in index order, then the logical operators and
    the parity-check matrix of the (deformed) code -/
def ClassGeom.describeAll (g : ClassGeom) (T : Tables) (name : String) (rotated : Bool) :
    Except String Payload :=
  match g.lat.qubits.mapM (g.qubitRepr T rotated) with
  | .error e => .error e
  | .ok qs =>
    match g.lat.stabs.mapM (g.stabRepr T rotated) with
    | .error e => .error e
    | .ok ss =>
      match g.codeData name with
      | .error e => .error e
      | .ok cd =>
        match logicalsZ cd, logicalsX cd, stabilizerMatrix cd with
        | some lz, some lx, some h => .ok ⟨h, lx, lz, qs, ss⟩
        | _, _, _ => .error "KeyError"

/-! ### completeness of the tables, shape of the overrides (used by the C20 theorems) -/

def isObj : Option JV → Bool
  | some (.obj _) => true
  | _ => false

/-- a configuration entry can be served: `object` and `opacity` present, `params` a dict, `color` a
    dict whose required keys hold colour names known to the colormap -/
def entryOk (colormap : List (String × String)) (keys : List String) (e : REntry) : Bool :=
  hasKey e.body "object" && hasKey e.body "opacity" && isObj (getKey e.body "params") &&
  (match getKey e.body "color" with
   | some (.obj cols) => keys.all fun k =>
      match getKey cols k with
      | some (.str name) => (resolve colormap name).isSome
      | _ => false
   | _ => false)

def qubitColorKeys : List String := ["I", "X", "Y", "Z"]
def stabColorKeys : List String := ["activated", "deactivated"]

/-- both pictures of a class: the qubit entry and the entry of every listed stabilizer type exist
    and can be served -/
def classTablesOk (T : Tables) (cls : String) (types : List String) : Bool :=
  [false, true].all fun rot =>
    (match lookupFull T.cfg cls "qubits" (pictureName rot) "" with
     | some e => entryOk T.colormap qubitColorKeys e
     | none => false) &&
    types.all fun t =>
      match lookupFull T.cfg cls "stabilizers" (pictureName rot) t with
      | some e => entryOk T.colormap stabColorKeys e
      | none => false

/-- an assignment that cannot fail on a description whose `params` is a dict, keeps it so, and leaves
    `type` alone -/
def Edit.simple : Edit → Bool
  | .set k _ => k != "params" && k != "type"
  | .param _ _ => true
  | .newParams _ => true
  | .scaleVertices _ => false

/-- the `location` field after the edits -/
def finalLocation : List Edit → JV → JV
  | [], l => l
  | .set k v :: es, l => finalLocation es (if k == "location" then v else l)
  | _ :: es, l => finalLocation es l

/-- the five fields every drawable description must carry -/
def requiredFields : List String := ["object", "color", "opacity", "params", "location"]

def descComplete (d : Desc) : Bool := requiredFields.all (hasKey d)

end Panqec.GuiRepr
