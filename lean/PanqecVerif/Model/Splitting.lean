/-
Model of `panqec/simulation/_splitting_simulation.py` (class `SplittingSimulation`):

* `get_next_error` complete: the three draws, the proposal, the acceptance probability,
  the Metropolis coin, the decoder test `is_logical_error(total) or not in_codespace(total)`
  and the pair `(next_error, log_p_next_error)` it returns;
* `_run`: choice and check of the initial error, the sweep over the error rates, the
  bookkeeping lists `current_error`, `_results['log_p_errors']`, `_results['n_runs']`;
* `compute_optimal_c`: the grid search over `np.linspace(0.0001, 1, 100)`;
* `compute_logical_probabilities` (with `calculate_logical_error_rate` of
  `_direct_simulation.py` for the first entry), `postprocess`, `get_results`.

Executable, total, no Mathlib, everything over core `Rat`.

Random source.  `get_next_error` calls numpy's *global* generator three times:
`np.random.choice(n)`, `np.random.choice(paulis)`, `np.random.choice([0, 1], p=[1-q, q])`
(the `rng` argument of the constructor is never used).  A `Draw` carries what these three
calls return: the qubit index, the position in the candidate list, and the uniform variate
`u ∈ [0,1)` of the third call (`RandomState.choice` with `p`: `cdf = cumsum(p)`,
`searchsorted(cdf, u, side='right')`, i.e. the coin is 1 iff `1 - q ≤ u`).  The run is
driven by a stream `Nat → Draw`; the state keeps the read position.

Logarithms.  `np.log` / `np.exp` are not modelled: a recorded log-probability `log P` is
represented by the rational `P`, `np.exp(a - b)` by the quotient of the two
probabilities.  `P = 0` stands for `-inf`.

Decoders.  `decoders[i].decode` is a parameter (syndrome ↦ correction), one per error
rate, as in `Model/Sim.lean`.
-/
import PanqecVerif.Model.Noise
import PanqecVerif.Model.Sim

namespace Panqec.Split

open Panqec

/-! ### errors and the random source -/

inductive Err
  /-- `ValueError('Error rate must be in [0, 1].')` -/
  | rate
  /-- `ValueError` of `np.random.choice([])`: no Pauli of non-zero probability on the drawn qubit -/
  | noLetters
  /-- `IndexError`: `logicals_x[0]`, `decoders[i_p]`, `error_rates[0]`, or a drawn position outside its list -/
  | index
  /-- an error vector whose length is not `2n` -/
  | shape
  /-- `NotImplementedError`: neither `logicals_x[0]` nor `logicals_z[0]` has non-zero probability at rate 0.5 -/
  | notImplemented
  /-- `ValueError`: the chosen initial error does not fail when decoded -/
  | initSucceeds
  /-- `ZeroDivisionError`: `n_fails / n_runs` with `n_init_runs = 0` -/
  | zeroDiv
  /-- `TypeError`: `get_results` while `_results['logical_error_rates']` is still the list `[]` -/
  | type
  /-- `ValueError` of `np.vectorize` (the function `g`) on a size-0 input: no sample is left
      after `start_run` -/
  | emptySamples
  /-- not an exception of the class: data on which the model declines to predict the float
      computation (ragged `log_p_errors`, recorded `-inf`) -/
  | unmodelled
  deriving Repr, DecidableEq

/-- what the three `np.random.choice` calls of one `get_next_error` return -/
structure Draw where
  /-- `np.random.choice(self.code.n)` -/
  idx : Nat
  /-- position of the element `np.random.choice(paulis)` returns -/
  letter : Nat
  /-- the uniform variate behind `np.random.choice([0, 1], p=[1-q, q])` -/
  u : Rat
  deriving Repr, DecidableEq

/-! ### `get_next_error` -/

/-- `q = np.exp(min(0, log_p_new_error - log_p_previous_error))`.
    `log 0 = -inf`: for a previous error of probability 0 the difference is `+inf` or `nan`,
    and Python's `min(0, x)` returns `0` for both (`nan < 0` is false), so `q = 1`. -/
def acceptQ (pPrev pNew : Rat) : Rat :=
  if pPrev = 0 then 1 else acceptRatio pPrev pNew

/-- `b = np.random.choice([0, 1], p=[1-q, q])` for the variate `u` -/
def coin (q u : Rat) : Bool := decide (1 - q ≤ u)

/-- the part of `get_next_error` inside `if b:` up to the condition of the inner `if` -/
structure Test where
  /-- `code.measure_syndrome(new_error)` -/
  syndrome : List Nat
  /-- `(correction + new_error) % 2` -/
  total : List Nat
  /-- `code.is_logical_error(total_error)` -/
  isLogical : Bool
  /-- `code.in_codespace(total_error)`; not evaluated (`none`) when `is_logical_error` is true -/
  inCodespace : Option Bool
  deriving Repr, DecidableEq

/-- `is_logical_error(total) or not in_codespace(total)` -/
def Test.fails (t : Test) : Bool :=
  t.isLogical || (match t.inCodespace with | some cs => !cs | none => false)

/-- decode the error `e` and test the residual as `get_next_error` does -/
def failTest (dt : DType) (c : Sim.CodeMats) (decode : List Nat → List Nat) (e : List Nat) : Test :=
  let syndrome := measureSyndrome c.H e
  let correction := decode syndrome
  let total := vxor correction e
  let isLog := isLogicalError dt c.Lx c.Lz total
  { syndrome := syndrome, total := total, isLogical := isLog,
    inCodespace := if isLog then none else some (inCodespace c.H total) }

/-- membership in the set of errors the chain is confined to: decoding `e` does not succeed -/
def fails (dt : DType) (c : Sim.CodeMats) (decode : List Nat → List Nat) (e : List Nat) : Bool :=
  (failTest dt c decode e).fails

/-- everything observable in one call of `get_next_error` -/
structure StepTrace where
  idx : Nat
  /-- the list `paulis` -/
  letters : List Pauli
  letter : Pauli
  /-- `new_error` -/
  proposed : List Nat
  /-- `exp(log_p_previous_error)` -/
  pPrev : Rat
  /-- `exp(log_p_new_error)` -/
  pNew : Rat
  q : Rat
  coin : Bool
  /-- the decoder test, made only when the coin came up 1 -/
  test : Option Test
  /-- `next_error is new_error` -/
  accepted : Bool
  next : List Nat
  /-- `exp(log_p_next_error)` -/
  pNext : Rat
  deriving Repr, DecidableEq

/-- `get_next_error(decoder, error_rate, previous_error)`;
    `ds = error_model.probability_distribution(code, error_rate)`, `n = code.n`. -/
def getNextError (dt : DType) (c : Sim.CodeMats) (n : Nat) (decode : List Nat → List Nat)
    (rate : Rat) (ds : List Dist) (prev : List Nat) (d : Draw) : Except Err StepTrace :=
  if !Sim.rateOk rate then .error .rate else
  match ds[d.idx]? with
  | none => .error .index
  | some dq =>
    let letters := proposalLetters dq
    if letters.isEmpty then .error .noLetters else
    match letters[d.letter]? with
    | none => .error .index
    | some σ =>
      let new := proposeError n prev d.idx σ
      match errorProbability ds prev, errorProbability ds new with
      | some pPrev, some pNew =>
        let q := acceptQ pPrev pNew
        let b := coin q d.u
        let test := if b then some (failTest dt c decode new) else none
        let acc := match test with | some t => t.fails | none => false
        .ok { idx := d.idx, letters := letters, letter := σ, proposed := new,
              pPrev := pPrev, pNew := pNew, q := q, coin := b, test := test, accepted := acc,
              next := if acc then new else prev, pNext := if acc then pNew else pPrev }
      | _, _ => .error .shape

/-! ### `_run` -/

/-- what is fixed by `__init__` (and by the code / error model / decoder objects) -/
structure Cfg where
  dt : DType
  code : Sim.CodeMats
  /-- `code.n` -/
  n : Nat
  /-- `self.error_rates = np.sort(error_rates)[::-1]` -/
  rates : List Rat
  /-- `error_model.probability_distribution(code, self.error_rates[i])` -/
  dists : List (List Dist)
  /-- `error_model.probability_distribution(code, 0.5)` -/
  half : List Dist
  /-- `self.decoders[i].decode` -/
  decoders : List (List Nat → List Nat)
  nInit : Nat
  startRun : Nat

/-- `np.sort(error_rates)[::-1]` -/
def sortRates (er : List Rat) : List Rat := (er.mergeSort fun a b => decide (a ≤ b)).reverse

/-- `current_error`, the keys of `_results` the class adds, and the read position of the
    draw stream -/
structure State where
  /-- `self.current_error` (`[]` until the first `_run`) -/
  current : List (List Nat)
  /-- `_results['log_p_errors']`, entry `i` = the list of chain `i`, as probabilities -/
  logP : List (List Rat)
  /-- `_results['n_runs']` -/
  nRuns : Nat
  /-- number of completed `get_next_error` calls -/
  pos : Nat
  /-- `_results['logical_error_rates']`: `none` = the list `[]` of `__init__` -/
  pEst : Option (List Rat)
  deriving Repr, DecidableEq

/-- state after `__init__` -/
def State.init (cfg : Cfg) : State :=
  { current := [], logP := List.replicate cfg.rates.length [], nRuns := 0, pos := 0, pEst := none }

/-- the `if … elif … else` choosing the initial error -/
def chooseInitial (cfg : Cfg) : Except Err (List Nat) :=
  match cfg.code.Lx[0]? with
  | none => .error .index
  | some lx =>
    match errorProbability cfg.half lx with
    | none => .error .shape
    | some px =>
      if px ≠ 0 then .ok lx else
      match cfg.code.Lz[0]? with
      | none => .error .index
      | some lz =>
        match errorProbability cfg.half lz with
        | none => .error .shape
        | some pz => if pz ≠ 0 then .ok lz else .error .notImplemented

/-- the block `if len(self.current_error) == 0:` -/
def initialise (cfg : Cfg) : Except Err (List (List Nat)) :=
  match chooseInitial cfg with
  | .error e => .error e
  | .ok e0 =>
    match cfg.decoders[0]? with
    | none => .error .index
    | some dec =>
      let total := vxor (dec (measureSyndrome cfg.code.H e0)) e0
      if isSuccess cfg.dt cfg.code.H cfg.code.Lx cfg.code.Lz total then .error .initSucceeds
      else .ok (List.replicate cfg.rates.length e0)

/-- body of the inner loop for chain `i`:
    ```
    self.current_error[i_p], log_p_error = self.get_next_error(
        self.decoders[i_p], error_rate, self.current_error[i_p])
    self._results['log_p_errors'][i_p].append(log_p_error)
    ```
    An exception leaves the state as it was before this chain's step. -/
def chainStep (cfg : Cfg) (draws : Nat → Draw) (s : State) (i : Nat) (rate : Rat) :
    Except Err (State × StepTrace) :=
  match cfg.decoders[i]?, s.current[i]?, cfg.dists[i]? with
  | some dec, some prev, some ds =>
    match getNextError cfg.dt cfg.code cfg.n dec rate ds prev (draws s.pos) with
    | .error e => .error e
    | .ok t =>
      .ok ({ s with current := s.current.set i t.next
                    logP := s.logP.modify i (· ++ [t.pNext])
                    pos := s.pos + 1 }, t)
  | _, _, _ => .error .index

/-- the inner loop `for i_p, error_rate in enumerate(self.error_rates)` over the remaining
    `(i_p, error_rate)` pairs; an exception carries the state reached (earlier chains of
    this sweep have already been advanced) -/
def sweepGo (cfg : Cfg) (draws : Nat → Draw) :
    List (Rat × Nat) → State → List StepTrace → Except (Err × State) (State × List StepTrace)
  | [], s, acc => .ok (s, acc)
  | (rate, i) :: rest, s, acc =>
    match chainStep cfg draws s i rate with
    | .error e => .error (e, s)
    | .ok (s', t) => sweepGo cfg draws rest s' (acc ++ [t])

/-- one iteration of `for i_run in range(n_runs)`: all chains once, then `n_runs += 1` -/
def sweep (cfg : Cfg) (draws : Nat → Draw) (s : State) :
    Except (Err × State) (State × List StepTrace) :=
  match sweepGo cfg draws cfg.rates.zipIdx s [] with
  | .error e => .error e
  | .ok (s', tr) => .ok ({ s' with nRuns := s'.nRuns + 1 }, tr)

def sweeps (cfg : Cfg) (draws : Nat → Draw) :
    Nat → State → List StepTrace → Except (Err × State) (State × List StepTrace)
  | 0, s, acc => .ok (s, acc)
  | k + 1, s, acc =>
    match sweep cfg draws s with
    | .error e => .error e
    | .ok (s', tr) => sweeps cfg draws k s' (acc ++ tr)

/-- `_run(n_runs)` with the trace of every `get_next_error` call, in call order -/
def runTr (cfg : Cfg) (draws : Nat → Draw) (k : Nat) (s : State) :
    Except (Err × State) (State × List StepTrace) :=
  if s.current.length == 0 then
    match initialise cfg with
    | .error e => .error (e, s)
    | .ok cur => sweeps cfg draws k { s with current := cur } []
  else sweeps cfg draws k s []

/-- `_run(n_runs)` -/
def run (cfg : Cfg) (draws : Nat → Draw) (k : Nat) (s : State) : Except (Err × State) State :=
  match runTr cfg draws k s with
  | .error e => .error e
  | .ok (s', _) => .ok s'

/-! ### the estimator -/

/-- `g(x) = 1 / (1 + x)` -/
def g (x : Rat) : Rat := 1 / (1 + x)

/-- `list_c = np.linspace(0.0001, 1, 100)`: entry `i` is `0.0001 + i · 0.9999/99` -/
def gridC (i : Nat) : Rat := (1 + 101 * (i : Rat)) / 10000

/-- one term of `lhs` / `numerator`: `g(c * np.exp(log_p_errors[j][t] - log_p_errors[j+1][t]))`
    for the recorded probabilities `a` (chain `j`) and `b` (chain `j+1`) -/
def lhsTerm (c a b : Rat) : Rat := g (c * (a / b))

/-- one term of `rhs` / `denominator`: `g(1/c * np.exp(log_p_errors[j+1][t] - log_p_errors[j][t]))` -/
def rhsTerm (c a b : Rat) : Rat := g (1 / c * (b / a))

def lhs (c : Rat) (ab : List (Rat × Rat)) : Rat := ratSum (ab.map fun p => lhsTerm c p.1 p.2)
def rhs (c : Rat) (ab : List (Rat × Rat)) : Rat := ratSum (ab.map fun p => rhsTerm c p.1 p.2)

/-- `np.sign` -/
def sgn (x : Rat) : Int := if 0 < x then 1 else if x < 0 then -1 else 0

/-- `np.argwhere(np.diff(np.sign(v))).flatten()[0]` for `v = [f 0, …, f m]`: the first `i < m`
    (searched from `i`) with `sign (f (i+1)) ≠ sign (f i)` -/
def firstSignChange (f : Nat → Rat) : Nat → Nat → Option Nat
  | 0, _ => none
  | m + 1, i => if sgn (f (i + 1)) - sgn (f i) ≠ 0 then some i else firstSignChange f m (i + 1)

/-- one iteration of the loop over `j` of `compute_optimal_c`: `list_c[idx]` for the first
    sign change of `lhs - rhs` on the grid, `1` when there is none (`except IndexError`) -/
def optimalC (ab : List (Rat × Rat)) : Rat :=
  match firstSignChange (fun i => lhs (gridC i) ab - rhs (gridC i) ab) 99 0 with
  | some i => gridC i
  | none => 1

/-- the samples of chains `j` and `j+1` the two sums run over: `log_p_errors[j][start_run:]`
    zipped with `log_p_errors[j+1][start_run:]`.
    `.unmodelled`: the two lists have different lengths (`np.array` of a ragged list) or
    contain a probability 0 (`-inf`; the float computation then yields 0, `inf` or `nan`
    terms).  `.emptySamples`: nothing is left after `start_run` — `g` is an `np.vectorize`
    object and raises `ValueError` on a size-0 input. -/
def samplePairs (start : Nat) (pj pk : List Rat) : Except Err (List (Rat × Rat)) :=
  if pj.length ≠ pk.length then .error .unmodelled
  else if pj.any (· == 0) || pk.any (· == 0) then .error .unmodelled
  else if pj.length ≤ start then .error .emptySamples
  else .ok ((pj.drop start).zip (pk.drop start))

/-- `ratio = c * numerator / denominator` -/
def ratioOf (c : Rat) (ab : List (Rat × Rat)) : Rat := c * lhs c ab / rhs c ab

/-- `compute_optimal_c()`: one value per consecutive pair of error rates -/
def computeOptimalC (start : Nat) : List (List Rat) → Except Err (List Rat)
  | pj :: pk :: rest =>
    match samplePairs start pj pk with
    | .error e => .error e
    | .ok ab =>
      match computeOptimalC start (pk :: rest) with
      | .error e => .error e
      | .ok cs => .ok (optimalC ab :: cs)
  | _ => .ok []

/-- the loop `logical_p[j+1] = logical_p[j] * ratio` from the value `prev = logical_p[j]`:
    the entries `logical_p[j+1:]` -/
def telescope (start : Nat) : Rat → List (List Rat) → Except Err (List Rat)
  | prev, pj :: pk :: rest =>
    match samplePairs start pj pk with
    | .error e => .error e
    | .ok ab =>
      let next := prev * ratioOf (optimalC ab) ab
      match telescope start next (pk :: rest) with
      | .error e => .error e
      | .ok l => .ok (next :: l)
  | _, _ => .ok []

/-- `calculate_logical_error_rate(code, error_model, decoders[0], error_rates[0], n_init_runs)`:
    `n_init_runs` calls of `run_once`, each on the next `n` variates of the generator that
    `run_once` creates (`u`), then `n_fails / n_runs` -/
def initialLogicalP (cfg : Cfg) (u : Nat → Rat) : Except Err Rat :=
  match cfg.rates[0]?, cfg.decoders[0]?, cfg.dists[0]? with
  | some rate, some dec, some ds =>
    let probs : List Sim.QubitProbs := ds.map fun d => ⟨d.i, d.x, d.y, d.z⟩
    if cfg.nInit = 0 then .error .zeroDiv
    else if !Sim.rateOk rate then .error .rate
    else
      let nFails := ((List.range cfg.nInit).filter fun t =>
        !(Sim.classify cfg.dt cfg.code (Sim.generate probs u (t * probs.length)) dec).success).length
      .ok ((nFails : Rat) / (cfg.nInit : Rat))
  | _, _, _ => .error .index

/-- `compute_logical_probabilities()`: `logical_p[0]` is the direct estimate at the highest
    rate, then `compute_optimal_c()`, then the telescoping product. -/
def computeLogicalProbabilities (cfg : Cfg) (u : Nat → Rat) (s : State) : Except Err (List Rat) :=
  match initialLogicalP cfg u with
  | .error e => .error e
  | .ok p0 =>
    match telescope cfg.startRun p0 s.logP with
    | .error e => .error e
    | .ok l => .ok (p0 :: l)

/-- `postprocess()` -/
def postprocess (cfg : Cfg) (u : Nat → Rat) (s : State) : Except Err State :=
  match computeLogicalProbabilities cfg u s with
  | .error e => .error e
  | .ok lp => .ok { s with pEst := some lp }

/-- the fields of `get_results()` computed from the run (the others copy attributes of the
    code and the error model) -/
structure Summary where
  errorRates : List Rat
  nRuns : Nat
  /-- `p_est` -/
  pEst : List Rat
  /-- the argument of the square root in `p_se` (a negative one gives `nan`) -/
  seRadicand : List Rat
  deriving Repr, DecidableEq

/-- `get_results()`.  While `postprocess` has not run, `p_est` is the Python list `[]` and
    `1 - []` raises `TypeError`. -/
def getResults (cfg : Cfg) (s : State) : Except Err Summary :=
  match s.pEst with
  | none => .error .type
  | some lp =>
    .ok { errorRates := cfg.rates, nRuns := s.nRuns, pEst := lp,
          seRadicand := lp.map fun p => p * (1 - p) / ((s.nRuns : Rat) + 1) }

end Panqec.Split
