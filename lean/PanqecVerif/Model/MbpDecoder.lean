/-
Model of the integer / boolean glue of `MemoryBeliefPropagationDecoder`
(`panqec/decoders/belief_propagation/mbp_decoder.py`).

The floating-point message passing (`log_exp_bias`, `tanh_prod`, the `gamma` / `delta` updates) is
NOT modelled: what it produces in iteration `k` enters as the parameter `msgs k`, one pair per qubit
`(np.all(gamma_q[:, n] > 0), np.argmin(gamma_q[:, n]))`.  Everything else is transcribed:

* `symplectic_to_pauli` (the loop over the non-zero entries of a row in ascending column order:
  `X` for a column `< n`; for a column `≥ n`, `Y` if the entry is already `X`, else `Z`);
* the hard decision `correction[n] = argmin + 1` unless all three `gamma` are positive;
* `pauli_to_symplectic(a, reverse)`;
* the loop `for iter in range(max_bp_iter)` with its `break` when
  `measure_syndrome(pauli_to_symplectic(correction)) == syndrome`;
* the final `pauli_to_symplectic(correction, reverse=True)` with its halves swapped back;
* `UnboundLocalError` when `max_bp_iter = 0` (the loop body never runs).

`decode` works on copies of the message arrays (`self.gamma_q2s.copy()`), so the decoder object has
no mutable state: the model is a function.  Executable, total, no Mathlib.
-/
import PanqecVerif.Model.Code

namespace Panqec.Mbp

open Panqec

abbrev Mat := List (List Nat)
abbrev Vec := List Nat

/-- `PAULI_I, PAULI_X, PAULI_Y, PAULI_Z = 0, 1, 2, 3` -/
def pauliI : Nat := 0
def pauliX : Nat := 1
def pauliY : Nat := 2
def pauliZ : Nat := 3

/-- `v.nonzero()` of one row, ascending -/
def nonzeroCols (row : Vec) : List Nat := ((row.zipIdx).filter fun e => e.1 ≠ 0).map (·.2)

/-- one row of `symplectic_to_pauli(H)`: the loop body for the non-zero columns of the row -/
def symplecticToPauliRow (row : Vec) : Vec :=
  let n := row.length / 2
  (nonzeroCols row).foldl (fun acc col =>
    if col < n then acc.set col pauliX
    else if acc.getD (col - n) 0 == pauliX then acc.set (col - n) pauliY
    else acc.set (col - n) pauliZ) (List.replicate n pauliI)

/-- `symplectic_to_pauli(H)` -/
def symplecticToPauli (H : Mat) : Mat := H.map symplecticToPauliRow

/-- `pauli_to_symplectic(a, reverse)` -/
def pauliToSymplectic (a : Vec) (reverse : Bool) : Vec :=
  let xs := a.map fun v => if v == 1 || v == 2 then 1 else 0
  let zs := a.map fun v => if v == 2 || v == 3 then 1 else 0
  if reverse then zs ++ xs else xs ++ zs

/-- `if not np.all(gamma_q[:, n] > 0): correction[n] = np.argmin(gamma_q[:, n]) + 1` (else 0) -/
def hardDecision (m : Bool × Fin 3) : Nat := if m.1 then 0 else m.2.val + 1

/-- the `correction` array of one iteration (`n` qubits; a missing message counts as "all positive") -/
def hardVec (n : Nat) (msg : List (Bool × Fin 3)) : Vec :=
  (List.range n).map fun q => hardDecision (msg.getD q (true, 0))

inductive MbpErr
  /-- `correction` referenced before assignment (`max_bp_iter = 0`) -/
  | unboundLocal
  deriving Repr, DecidableEq

/-- the BP loop: `remaining` iterations left, `it` the current iteration number, `last` the
    `correction` of the previous iteration; returns the `correction` the loop ends with and the
    number of iterations run -/
def loop (H : Mat) (n : Nat) (msgs : Nat → List (Bool × Fin 3)) (s : Vec) :
    Nat → Nat → Option Vec → Option Vec × Nat
  | 0, it, last => (last, it)
  | remaining + 1, it, _ =>
    let c := hardVec n (msgs it)
    -- `if np.all(new_syndrome == syndrome): break`
    if measureSyndrome H (pauliToSymplectic c false) == s then (some c, it + 1)
    else loop H n msgs s remaining (it + 1) (some c)

/-- `correction_symplectic = pauli_to_symplectic(correction, reverse=True)`;
    `np.concatenate([correction_symplectic[n:], correction_symplectic[:n]])` -/
def finalVector (n : Nat) (c : Vec) : Vec :=
  let r := pauliToSymplectic c true
  r.drop n ++ r.take n

/-- `MemoryBeliefPropagationDecoder.decode(syndrome)`; also returns the number of iterations run -/
def decode (H : Mat) (n maxIter : Nat) (msgs : Nat → List (Bool × Fin 3)) (s : Vec) :
    Except MbpErr Vec × Nat :=
  match loop H n msgs s maxIter 0 none with
  | (none, k) => (.error .unboundLocal, k)
  | (some c, k) => (.ok (finalVector n c), k)

end Panqec.Mbp
