/-
Model of the GLUE of panqec's decoders around their third-party solvers
(`panqec/decoders/**`, `BaseErrorModel.get_weights`).

The solvers themselves (PyMatching `Matching(H, spacelike_weights=w).decode(s)`,
ldpc `BpOsdDecoder`, the union-find `Support(s, H).decode()`, the sweep cellular
automata) are *parameters* of the model; their contracts are hypotheses of the
theorems in `Properties/C05.lean`, `C06.lean`, `C09.lean`.

What is transcribed from the code (and compared with it on every run through
boundary spies): which matrix each solver object is built from, which weights /
channel probabilities it is given, which part of the syndrome is passed, how
the answers are assembled into the returned BSF vector `[x | z]`, the guards
that raise, the lazily initialised state of the BP-OSD decoder and its
per-call `update_channel_probs`.

Executable, total, no Mathlib.  Every decode function also returns the list of
boundary events (`Event`) it performs, in program order.
-/
import PanqecVerif.Model.Code

namespace Panqec

abbrev Mat := List (List Nat)
abbrev Vec := List Nat

/-- exceptions the glue can raise -/
inductive DecErr
  | valueError      -- bad `error_type`; `code.Hx`/`code.Hz` on a non-CSS code; ldpc length check
  | indexError      -- boolean-mask indexing of a syndrome of the wrong length
  | shapeError      -- numpy broadcast error when a solver answer has the wrong length
  | attributeError  -- attribute that the constructor did not create
  deriving Repr, DecidableEq

/-- numpy `a + b` on equal-length float arrays -/
def raddv (a b : List Rat) : List Rat := List.zipWith (· + ·) a b

/-- `BaseErrorModel.get_weights(code, p)`: from the per-qubit distribution
    `(pi, px, py, pz)`: `total_p_x = px + py`, `total_p_z = pz + py`,
    `weights_x = logOdds(total_p_x)`, `weights_z = logOdds(total_p_z)` where
    `logOdds t = -log((t + eps) / (1 - t + eps))` is kept abstract. -/
def getWeights {W : Type} (logOdds : Rat → W) (px py pz : List Rat) : List W × List W :=
  ((raddv px py).map logOdds, (raddv pz py).map logOdds)

/-- what crosses the boundary to a third-party object, in program order -/
inductive Event (W : Type)
  /-- `BpOsdDecoder(matrix, error_rate=…, max_iter=…, bp_method=…, [schedule="serial"], osd_order=…)` -/
  | ctor (matrix : Mat) (serial : Bool) (errorRate : Rat) (maxIter osdOrder : Nat) (bpMethod : String)
  /-- `obj.update_channel_probs(probs)` on the object built from `matrix` -/
  | update (matrix : Mat) (probs : List Rat)
  /-- `obj.decode(syndrome)` on the object built from `(matrix, weights)`; `answer` is what came back -/
  | decode (matrix : Mat) (weights : List W) (syndrome answer : Vec)
  /-- a black-box sub-decoder (`sweeper.decode(syndrome)`) -/
  | sub (syndrome answer : Vec)

/-! ### MatchingDecoder -/

/-- `Matching(H, spacelike_weights=w).decode(s, num_neighbours=None)` -/
abbrev WSolver (W : Type) := Mat → List W → Vec → Vec

inductive ErrType_dec | all | X | Z
  deriving Repr, DecidableEq

/-- `if error_type not in ["X", "Z", None]: raise ValueError` -/
def parseErrType : Option String → Except DecErr ErrType_dec
  | none => .ok .all
  | some "X" => .ok .X
  | some "Z" => .ok .Z
  | some _ => .error .valueError

/-- a `pymatching.Matching` object (immutable once built) -/
structure Matcher (W : Type) where
  matrix : Mat
  weights : List W

structure MatchingDec (W : Type) where
  H : Mat
  n : Nat
  errType : ErrType_dec
  /-- `self.matcher_x = Matching(self.code.Hz, spacelike_weights=wx)` -/
  matcherX : Option (Matcher W)
  /-- `self.matcher_z = Matching(self.code.Hx, spacelike_weights=wz)` -/
  matcherZ : Option (Matcher W)

def ErrType_dec.doesX (t : ErrType_dec) : Bool := t == .all || t == .X
def ErrType_dec.doesZ (t : ErrType_dec) : Bool := t == .all || t == .Z

/-- `MatchingDecoder.__init__(code, error_model, error_rate, error_type, weights)`.
    `modelWeights` is `error_model.get_weights(code, error_rate)`. -/
def MatchingDec.new {W : Type} (H : Mat) (n : Nat) (errType : Option String)
    (weights : Option (List W × List W)) (modelWeights : List W × List W) :
    Except DecErr (MatchingDec W) :=
  match parseErrType errType with
  | .error e => .error e
  | .ok t =>
    let w := match weights with
      | some w => w
      | none => modelWeights
    -- `self.code.Hz` / `self.code.Hx` raise ValueError on a non-CSS code
    if !isCss H then .error .valueError
    else .ok { H := H, n := n, errType := t,
               matcherX := if t.doesX then some ⟨Hz H, w.1⟩ else none,
               matcherZ := if t.doesZ then some ⟨Hx H, w.2⟩ else none }

/-- one sector of `MatchingDecoder.decode`: extract the sector syndrome, ask the
    matcher, store the answer in one half of the zero-initialised correction. -/
def matchHalf {W : Type} (solve : WSolver W) (H : Mat) (n : Nat) (active : Bool)
    (m : Option (Matcher W)) (extract : Mat → Vec → Vec) (s : Vec) :
    Except DecErr (Vec × List (Event W)) :=
  if !active then .ok (List.replicate n 0, [])
  else match m with
    | none => .error .attributeError
    | some M =>
      if s.length ≠ H.length then .error .indexError
      else
        let sy := extract H s
        let c := solve M.matrix M.weights sy
        if c.length ≠ n then .error .shapeError
        else .ok (c, [Event.decode M.matrix M.weights sy c])

/-- `MatchingDecoder.decode(syndrome)`: X corrections (first half) from
    `matcher_x` on the **Z**-row syndrome, Z corrections (second half) from
    `matcher_z` on the **X**-row syndrome. -/
def MatchingDec.decode {W : Type} (solve : WSolver W) (d : MatchingDec W) (s : Vec) :
    Except DecErr (Vec × List (Event W)) :=
  match matchHalf solve d.H d.n d.errType.doesX d.matcherX extractZSyndrome s with
  | .error e => .error e
  | .ok (cx, t1) =>
    match matchHalf solve d.H d.n d.errType.doesZ d.matcherZ extractXSyndrome s with
    | .error e => .error e
    | .ok (cz, t2) => .ok (cx ++ cz, t1 ++ t2)

/-! ### UnionFindDecoder -/

/-- `Support(syndrome, H).decode()` -/
abbrev USolver := Mat → Vec → Vec

/-- `UnionFindDecoder.decode`: both sector syndromes are extracted first
    (IndexError), then `Hz`, `Hx` (ValueError on non-CSS), then
    `correction[:n] = Support(syndromes_z, Hz).decode()` and
    `correction[n:] = Support(syndromes_x, Hx).decode()`. -/
def ufDecode (uf : USolver) (H : Mat) (n : Nat) (s : Vec) :
    Except DecErr (Vec × List (Event Rat)) :=
  if s.length ≠ H.length then .error .indexError
  else if !isCss H then .error .valueError
  else
    let sz := extractZSyndrome H s
    let sx := extractXSyndrome H s
    let cx := uf (Hz H) sz
    if cx.length ≠ n then .error .shapeError
    else
      let cz := uf (Hx H) sx
      if cz.length ≠ n then .error .shapeError
      else .ok (cx ++ cz, [Event.decode (Hz H) [] sz cx, Event.decode (Hx H) [] sx cz])

/-! ### BeliefPropagationOSDDecoder -/

structure BpCfg where
  errorRate : Rat
  maxIter : Nat
  osdOrder : Nat
  bpMethod : String
  channelUpdate : Bool
  deriving Repr

/-- the ldpc object as far as the glue can see it -/
structure Ldpc where
  matrix : Mat
  serial : Bool
  /-- current channel probabilities -/
  probs : List Rat
  /-- `osdw_decoding`: result buffer, rewritten only when OSD runs (BP did not converge).
      The repaired glue never reads it. -/
  buffer : Vec
  deriving Repr

/-- ldpc's `decode` as a function of (matrix, schedule, current channel
    probabilities, syndrome), and whether BP converged on that input -/
structure BpSolver where
  decode : Mat → Bool → List Rat → Vec → Vec
  converged : Mat → Bool → List Rat → Vec → Bool

def Ldpc.new (matrix : Mat) (serial : Bool) (ncols : Nat) (errorRate : Rat) : Ldpc :=
  ⟨matrix, serial, List.replicate ncols errorRate, []⟩

def Ldpc.update (o : Ldpc) (probs : List Rat) : Ldpc := { o with probs := probs }

def Ldpc.decode (S : BpSolver) (o : Ldpc) (s : Vec) : Ldpc × Vec :=
  let r := S.decode o.matrix o.serial o.probs s
  ({ o with buffer := if S.converged o.matrix o.serial o.probs s then o.buffer else r }, r)

/-- `update_probabilities(correction, px, py, pz, direction)`:
    direction `"z->x"` is `updProbs corr px py pz`,
    direction `"x->z"` is `updProbs corr pz py px`.
    (`new_probs` starts as zeros; loop over `range(len(correction))`.) -/
def updProbs : Vec → List Rat → List Rat → List Rat → List Rat
  | c :: cs, a :: as, y :: ys, b :: bs =>
    (if c = 1 then (if b + y ≠ 0 then y / (b + y) else 0) else a / (1 - b - y))
      :: updProbs cs as ys bs
  | _, _, _, _ => []

/-- immutable attributes of the decoder object -/
structure BpDec_dec where
  H : Mat
  n : Nat
  px : List Rat
  py : List Rat
  pz : List Rat
  cfg : BpCfg

/-- mutable attributes -/
structure BpSt where
  initialized : Bool
  zDec : Option Ldpc
  xDec : Option Ldpc
  dec : Option Ldpc
  deriving Repr

/-- state after `__init__` -/
def BpSt.init : BpSt := ⟨false, none, none, none⟩

/-- `initialize_decoders()` -/
def BpDec_dec.initialize (d : BpDec_dec) (st : BpSt) : BpSt × List (Event Rat) :=
  let c := d.cfg
  if isCss d.H then
    ({ st with initialized := true,
               zDec := some (Ldpc.new (Hx d.H) true d.n c.errorRate),
               xDec := some (Ldpc.new (Hz d.H) true d.n c.errorRate) },
     [Event.ctor (Hx d.H) true c.errorRate c.maxIter c.osdOrder c.bpMethod,
      Event.ctor (Hz d.H) true c.errorRate c.maxIter c.osdOrder c.bpMethod])
  else
    ({ st with initialized := true,
               dec := some (Ldpc.new d.H false (2 * d.n) c.errorRate) },
     [Event.ctor d.H false c.errorRate c.maxIter c.osdOrder c.bpMethod])

/-- CSS branch of `decode` once both ldpc objects exist -/
def BpDec_dec.decodeCss (S : BpSolver) (d : BpDec_dec) (xd zd : Ldpc) (s : Vec) :
    Ldpc × Ldpc × List (Event Rat) × Vec :=
  let sz := extractZSyndrome d.H s
  let sx := extractXSyndrome d.H s
  let probsX := raddv d.px d.py
  let probsZ := raddv d.pz d.py
  let xd1 := xd.update probsX
  let zd1 := zd.update probsZ
  let zr := zd1.decode S sx
  let zd2 := zr.1
  let zc := zr.2
  let newX := updProbs zc d.px d.py d.pz
  let xd2 := if d.cfg.channelUpdate then xd1.update newX else xd1
  let xr := xd2.decode S sz
  let xd3 := xr.1
  let xc := xr.2
  (xd3, zd2,
   [Event.update xd.matrix probsX, Event.update zd.matrix probsZ,
    Event.decode zd.matrix probsZ sx zc] ++
   (if d.cfg.channelUpdate then [Event.update xd.matrix newX] else []) ++
   [Event.decode xd.matrix xd2.probs sz xc],
   xc ++ zc)

/-- non-CSS branch: full matrix, priors `[pz+py | px+py]`, halves swapped back -/
def BpDec_dec.decodeFull (S : BpSolver) (d : BpDec_dec) (dd : Ldpc) (s : Vec) :
    Ldpc × List (Event Rat) × Except DecErr Vec :=
  let probs := raddv d.pz d.py ++ raddv d.px d.py
  let dd1 := dd.update probs
  -- ldpc: "The syndrome must have length m"
  if s.length = d.H.length then
    let r := dd1.decode S s
    (r.1, [Event.update dd.matrix probs, Event.decode dd.matrix probs s r.2],
     .ok (r.2.drop d.n ++ r.2.take d.n))
  else (dd1, [Event.update dd.matrix probs], .error .valueError)

/-- body of `decode` after the lazy initialisation -/
def BpDec_dec.decodeReady (S : BpSolver) (d : BpDec_dec) (st1 : BpSt) (s : Vec) :
    BpSt × List (Event Rat) × Except DecErr Vec :=
  if isCss d.H then
    -- `syndrome[self.z_indices]`
    if s.length = d.H.length then
      match st1.xDec, st1.zDec with
      | some xd, some zd =>
        let r := d.decodeCss S xd zd s
        ({ st1 with xDec := some r.1, zDec := some r.2.1 }, r.2.2.1, .ok r.2.2.2)
      | _, _ => (st1, [], .error .attributeError)
    else (st1, [], .error .indexError)
  else match st1.dec with
    | some dd =>
      let r := d.decodeFull S dd s
      ({ st1 with dec := some r.1 }, r.2.1, r.2.2)
    | none => (st1, [], .error .attributeError)

/-- `if not self._initialized: self.initialize_decoders()` -/
def BpDec_dec.ready (d : BpDec_dec) (st : BpSt) : BpSt × List (Event Rat) :=
  if st.initialized then (st, []) else d.initialize st

/-- `BeliefPropagationOSDDecoder.decode(syndrome)` as a state machine. -/
def BpDec_dec.decode (S : BpSolver) (d : BpDec_dec) (st0 : BpSt) (s : Vec) :
    BpSt × List (Event Rat) × Except DecErr Vec :=
  let r := d.decodeReady S (d.ready st0).1 s
  (r.1, (d.ready st0).2 ++ r.2.1, r.2.2)

/-- state after decoding a history of syndromes on one object -/
def BpDec_dec.run (S : BpSolver) (d : BpDec_dec) (st : BpSt) : List Vec → BpSt
  | [] => st
  | s :: rest => BpDec_dec.run S d (d.decode S st s).1 rest

/-- the correction as a function of the immutable attributes and the syndrome only -/
def BpDec_dec.pureDecode (S : BpSolver) (d : BpDec_dec) (s : Vec) : Except DecErr Vec :=
  if isCss d.H then
    if s.length = d.H.length then
      let zc := S.decode (Hx d.H) true (raddv d.pz d.py) (extractXSyndrome d.H s)
      let probsX := if d.cfg.channelUpdate then updProbs zc d.px d.py d.pz else raddv d.px d.py
      let xc := S.decode (Hz d.H) true probsX (extractZSyndrome d.H s)
      .ok (xc ++ zc)
    else .error .indexError
  else
    if s.length = d.H.length then
      let c := S.decode d.H false (raddv d.pz d.py ++ raddv d.px d.py) s
      .ok (c.drop d.n ++ c.take d.n)
    else .error .valueError

/-! ### SweepMatchDecoder / RotatedSweepMatchDecoder -/

/-- `SweepMatchDecoder.decode` / `RotatedSweepMatchDecoder.decode`:
    `z = sweeper.decode(s)`, `x = matcher.decode(s)` (a `MatchingDecoder` with
    `error_type='X'`), result `(x + z) % 2`.  The sweeper is a black box that
    carries its RNG state `R`. -/
def sweepMatchDecode {W R : Type} (sweep : R → Vec → R × Vec) (solve : WSolver W)
    (matcher : MatchingDec W) (rng : R) (s : Vec) :
    R × Except DecErr (Vec × List (Event W)) :=
  let (rng', z) := sweep rng s
  match matcher.decode solve s with
  | .error e => (rng', .error e)
  | .ok (x, ev) =>
    if x.length ≠ z.length then (rng', .error .shapeError)
    else (rng', .ok (vxor x z, Event.sub s z :: ev))

/-- `__init__` of both sweep-match decoders: `MatchingDecoder(code, error_model, error_rate, 'X')` -/
def sweepMatchMatcher {W : Type} (H : Mat) (n : Nat) (modelWeights : List W × List W) :
    Except DecErr (MatchingDec W) :=
  MatchingDec.new H n (some "X") none modelWeights

/-! ### specification vocabulary used by the contracts and theorems -/

/-- plain GF(2) matrix-vector product `M · v (mod 2)` of a sector matrix -/
def sectorSyndrome (M : Mat) (v : Vec) : Vec := M.map fun r => dot r v % 2

/-- Hamming weight of a 0/1 vector -/
def hammingWt (v : Vec) : Nat := v.countP (· ≠ 0)

/-- `MatchingDecoder` seen as a (trivial) state machine: the object is not changed by `decode` -/
def MatchingDec.step {W : Type} (solve : WSolver W) (d : MatchingDec W) (s : Vec) :
    MatchingDec W × Except DecErr (Vec × List (Event W)) := (d, d.decode solve s)

def MatchingDec.run {W : Type} (solve : WSolver W) (d : MatchingDec W) : List Vec → MatchingDec W
  | [] => d
  | s :: rest => MatchingDec.run solve (d.step solve s).1 rest

/-- state of the sweeper's generator after a history of calls -/
def sweepRun {R : Type} (sweep : R → Vec → R × Vec) (rng : R) : List Vec → R
  | [] => rng
  | s :: rest => sweepRun sweep (sweep rng s).1 rest

/-- interface every decoder promises: a binary vector of length `2n` -/
def validCorrection (n : Nat) (c : Vec) : Bool := c.length == 2 * n && isBinary c

end Panqec
