/-
Model of the GLUE of the visualizer backend routes that hand the request to the library
(`panqec/gui/_gui.py`): `GUI._instantiate_code`, `send_correction` (`/decode`),
`send_random_errors` (`/new-errors`), `send_decoder_names` (`/decoder-names`) and the key lookup of
`send_code_names`.

A request is the JSON object `request.json` (`Dict`, keys in the order sent).  The model follows the
Python statement by statement: which keys are read and in which order (a missing key is a `KeyError`
before anything is constructed), how `code_name` selects the class and the number of positional size
arguments (`(Lx, Ly)` for a 2-D class — `Lz` is ignored, present or not —, `(Lx, Ly, Lz)` for a 3-D
class, `UnboundLocalError` when `Lz` is absent, `ValueError` for an unknown name), when `deform` is
called (`code_deformation_name != "None"`), how `error_model` selects the noise direction and
`noise_deformation_name` its deformation (`'None'` → `None`), which decoder class `decoder` selects
and which keyword arguments it gets (`max_bp_iter` for 'BP-OSD' and 'MBP', `osd_order = 0` and
`channel_update = bool(content.get('channel_update', False))` for 'BP-OSD', `alpha`, `beta` for
'MBP', nothing else; `old…` = the glue before the repair, which dropped `channel_update`), what is passed to `decoder.decode` / `error_model.generate`, and how the answer is
built (`/decode`: the correction split at `code.n` into `x` / `z`; `/new-errors`: the whole vector,
after the discarded `error_spec` comprehension, which can still raise).

The library itself — class constructors, `deform`, `code.n`, `PauliErrorModel`, the decoder
constructors, `decode`, `generate` — is a PARAMETER (`Library`); `Model/GuiRoutesLib.lean`
instantiates it with the hand-written lattice models and the noise model.  No Mathlib.
-/
import PanqecVerif.Model.GuiRepr

namespace Panqec.GuiRoutes
open Panqec.Gui Panqec.GuiRepr

/-- `request.json` -/
abbrev Req := Dict

/-- `d[k]` for a constant key -/
def field (d : Req) (k : String) : Except String JV :=
  match getKey d k with
  | some v => .ok v
  | none => .error "KeyError"

/-- `table[v]` / `v in table` for a dict with string keys and a JSON value `v`: a string is looked
    up, a list or an object is unhashable (`TypeError`), anything else is not a key -/
def dictKey : JV → Except String String
  | .str s => .ok s
  | .arr _ => .error "TypeError"
  | .obj _ => .error "TypeError"
  | _ => .error "KeyError"

/-- `v == "<s>"` for a JSON value -/
def isStr (v : JV) (s : String) : Bool :=
  match v with
  | .str t => t == s
  | _ => false

/-- `v in <list of strings>` -/
def inNames (v : JV) (names : List String) : Bool :=
  match v with
  | .str t => names.contains t
  | _ => false

/-! ### `_instantiate_code` -/

/-- what `_instantiate_code` asks of the library: `codes[code_name](*args)`, then
    `code.deform(deformation)` unless the request says `"None"` -/
structure CodeSel where
  /-- class name of `codes[code_name]` -/
  cls : String
  /-- positional arguments, as sent -/
  args : List JV
  /-- the argument of `code.deform` (`none`: not called) -/
  deformation : Option JV

/-- `codes[code_name]` (module-level dict) -/
def classOf (codes : List CodeMenu) (name : String) : Except String String :=
  match codes.find? (·.menuName == name) with
  | some c => .ok c.cls
  | none => .error "KeyError"

/-- the selection part of `_instantiate_code` -/
def selectCode (codes : List CodeMenu) (data : Req) : Except String CodeSel := do
  let lx ← field data "Lx"
  let ly ← field data "Ly"
  let lz := getKey data "Lz"                 -- `if 'Lz' in data: Lz = data['Lz']`
  let name ← field data "code_name"
  let dn ← field data "code_deformation_name"
  let deformation := if isStr dn "None" then none else some dn
  match name with
  | .str s =>
    if (codeNames codes 2).contains s then
      let cls ← classOf codes s
      pure ⟨cls, [lx, ly], deformation⟩
    else if (codeNames codes 3).contains s then
      let cls ← classOf codes s
      match lz with
      | some z => pure ⟨cls, [lx, ly, z], deformation⟩
      | none => .error "UnboundLocalError"
    else .error "ValueError"
  | _ => .error "ValueError"      -- `x in <list of str>` is False for every non-string (no hashing)

/-- a noise direction `(r_x, r_y, r_z)`; `1/3` stands for the float nearest to it -/
abbrev Dir := Rat × Rat × Rat

/-- the library calls of the routes -/
structure Library (Code EM Dec : Type) where
  /-- `codes[code_name](*args)` by class name -/
  newCode : String → List JV → Except String Code
  /-- `code.deform(name)` (in place: the object afterwards) -/
  deform : Code → JV → Except String Code
  /-- `code.n` -/
  n : Code → Nat
  /-- `PauliErrorModel(r_x, r_y, r_z, deformation_name)` (`.null` = `None`) -/
  newErrorModel : Dir → JV → Except String EM
  /-- `decoders[name](code, error_model, p, **kwargs)` by class name -/
  newDecoder : String → Code → EM → JV → List (String × JV) → Except String Dec
  /-- `decoder.decode(np.array(syndrome))` -/
  decode : Dec → JV → Except String (List Int)
  /-- `error_model.generate(code, p)` -/
  generate : EM → Code → JV → Except String (List Int)

variable {Code EM Dec : Type}

/-- the library calls `_instantiate_code` makes for a selection -/
def runCode (L : Library Code EM Dec) (sel : CodeSel) : Except String Code := do
  let code ← L.newCode sel.cls sel.args
  match sel.deformation with
  | none => pure code
  | some d => L.deform code d

/-- `GUI._instantiate_code(data)` -/
def instantiateCode (L : Library Code EM Dec) (codes : List CodeMenu) (data : Req) :
    Except String Code := do
  let sel ← selectCode codes data
  runCode L sel

/-! ### the noise model of `/decode` and `/new-errors` -/

/-- `if noise_deformation == 'None': noise_deformation = None` -/
def noiseDeformation (v : JV) : JV := if isStr v "None" then .null else v

/-- `noise_directions[error_model_name]` -/
def directionOf (dirs : List (String × Dir)) (v : JV) : Except String Dir := do
  let k ← dictKey v
  match dirs.find? (·.1 == k) with
  | some e => .ok e.2
  | none => .error "KeyError"

/-! ### `/decode` -/

/-- Python `bool(v)` of a JSON value -/
def truthy : JV → Bool
  | .null => false
  | .bool b => b
  | .num (.int i) => i != 0
  | .num (.dec m _) => m != 0
  | .num (.sym _) => true
  | .str s => s != ""
  | .arr l => !l.isEmpty
  | .obj l => !l.isEmpty

/-- the `kwargs` dict of `send_correction`, in insertion order; `channelUpdate` =
    `content.get('channel_update')` (`none`: the request does not carry the field → `False`) -/
def decoderKwargs (decoder maxBpIter alpha beta : JV) (channelUpdate : Option JV) :
    List (String × JV) :=
  (if inNames decoder ["BP-OSD", "MBP"] then [("max_bp_iter", maxBpIter)] else []) ++
  (if isStr decoder "BP-OSD" then
    [("osd_order", JV.i 0), ("channel_update", .bool (truthy (channelUpdate.getD (.bool false))))]
   else []) ++
  (if isStr decoder "MBP" then [("alpha", alpha), ("beta", beta)] else [])

/-- the `kwargs` dict BEFORE the repair (fix PENDING): `channel_update` — the "Channel update (BP)"
    box of the menu, sent by the front end — was neither read nor forwarded -/
def oldDecoderKwargs (decoder maxBpIter alpha beta : JV) : List (String × JV) :=
  (if inNames decoder ["BP-OSD", "MBP"] then [("max_bp_iter", maxBpIter)] else []) ++
  (if isStr decoder "BP-OSD" then [("osd_order", JV.i 0)] else []) ++
  (if isStr decoder "MBP" then [("alpha", alpha), ("beta", beta)] else [])

/-- `self.decoders[decoder_name]` -/
def decoderClassOf (decs : List DecoderMenu) (v : JV) : Except String String := do
  let k ← dictKey v
  match decs.find? (·.menuName == k) with
  | some d => .ok d.cls
  | none => .error "KeyError"

/-- the constructor calls of `/decode`, in the order they are made -/
structure DecodeSel where
  code : CodeSel
  direction : Dir
  noiseDeformation : JV
  decoderCls : String
  p : JV
  kwargs : List (String × JV)
  syndrome : JV

/-- `{'x': correction[:code.n].tolist(), 'z': correction[code.n:].tolist()}` -/
def splitAnswer (n : Nat) (correction : List Int) : JV :=
  .obj [("x", JV.ints (correction.take n)), ("z", JV.ints (correction.drop n))]

/-- `GUI.send_correction` -/
def sendCorrection (L : Library Code EM Dec) (codes : List CodeMenu) (decs : List DecoderMenu)
    (dirs : List (String × Dir)) (content : Req) : Except String JV := do
  let syndrome ← field content "syndrome"
  let p ← field content "p"
  let nd ← field content "noise_deformation_name"
  let maxBpIter ← field content "max_bp_iter"
  let alpha ← field content "alpha"
  let beta ← field content "beta"
  let decoderName ← field content "decoder"
  let emName ← field content "error_model"
  let nd := noiseDeformation nd
  let code ← instantiateCode L codes content
  let dir ← directionOf dirs emName
  let em ← L.newErrorModel dir nd
  let kwargs := decoderKwargs decoderName maxBpIter alpha beta (getKey content "channel_update")
  let cls ← decoderClassOf decs decoderName
  let dec ← L.newDecoder cls code em p kwargs
  let correction ← L.decode dec syndrome
  pure (splitAnswer (L.n code) correction)

/-- everything `/decode` selects from the request, without the library (the constructor calls of
    `send_correction` are exactly those of `runDecode` on this record: `C20.decode_constructs`) -/
def selectDecode (codes : List CodeMenu) (decs : List DecoderMenu) (dirs : List (String × Dir))
    (content : Req) : Except String DecodeSel := do
  let syndrome ← field content "syndrome"
  let p ← field content "p"
  let nd ← field content "noise_deformation_name"
  let maxBpIter ← field content "max_bp_iter"
  let alpha ← field content "alpha"
  let beta ← field content "beta"
  let decoderName ← field content "decoder"
  let emName ← field content "error_model"
  let code ← selectCode codes content
  let dir ← directionOf dirs emName
  let cls ← decoderClassOf decs decoderName
  pure ⟨code, dir, noiseDeformation nd, cls, p,
    decoderKwargs decoderName maxBpIter alpha beta (getKey content "channel_update"), syndrome⟩

/-- the library calls of `/decode` for a selection, in the order they are made, and the answer -/
def runDecode (L : Library Code EM Dec) (sel : DecodeSel) : Except String JV := do
  let code ← runCode L sel.code
  let em ← L.newErrorModel sel.direction sel.noiseDeformation
  let dec ← L.newDecoder sel.decoderCls code em sel.p sel.kwargs
  let correction ← L.decode dec sel.syndrome
  pure (splitAnswer (L.n code) correction)

/-- `GUI.send_correction` BEFORE the repair (fix PENDING): identical except for the keyword
    arguments (`oldDecoderKwargs`) -/
def oldSendCorrection (L : Library Code EM Dec) (codes : List CodeMenu) (decs : List DecoderMenu)
    (dirs : List (String × Dir)) (content : Req) : Except String JV := do
  let syndrome ← field content "syndrome"
  let p ← field content "p"
  let nd ← field content "noise_deformation_name"
  let maxBpIter ← field content "max_bp_iter"
  let alpha ← field content "alpha"
  let beta ← field content "beta"
  let decoderName ← field content "decoder"
  let emName ← field content "error_model"
  let nd := noiseDeformation nd
  let code ← instantiateCode L codes content
  let dir ← directionOf dirs emName
  let em ← L.newErrorModel dir nd
  let kwargs := oldDecoderKwargs decoderName maxBpIter alpha beta
  let cls ← decoderClassOf decs decoderName
  let dec ← L.newDecoder cls code em p kwargs
  let correction ← L.decode dec syndrome
  pure (splitAnswer (L.n code) correction)

/-! ### `/new-errors` -/

/-- the constructor calls of `/new-errors` -/
structure NoiseSel where
  code : CodeSel
  direction : Dir
  noiseDeformation : JV
  p : JV

/-- everything `/new-errors` selects from the request, without the library -/
def selectNoise (codes : List CodeMenu) (dirs : List (String × Dir)) (content : Req) :
    Except String NoiseSel := do
  let p ← field content "p"
  let nd ← field content "noise_deformation_name"
  let emName ← field content "error_model"
  let code ← selectCode codes content
  let dir ← directionOf dirs emName
  pure ⟨code, dir, noiseDeformation nd, p⟩

/-- a Python loop / comprehension whose results are discarded: the first exception ends it -/
def forEach {α} : List α → (α → Except String Unit) → Except String Unit
  | [], _ => .ok ()
  | a :: l, f =>
    match f a with
    | .ok _ => forEach l f
    | .error e => .error e

/-- the discarded comprehension `error_spec`: `bsf_to_str_map[(errors[i], errors[i + n])]` for
    `i < n` — an index beyond the vector is an `IndexError`, an entry other than 0 / 1 a `KeyError` -/
def errorSpecCheck (n : Nat) (errors : List Int) : Except String Unit :=
  forEach (List.range n) fun i =>
    match errors[i]?, errors[i + n]? with
    | some a, some b =>
      if (a == 0 || a == 1) && (b == 0 || b == 1) then .ok () else .error "KeyError"
    | _, _ => .error "IndexError"

/-- `GUI.send_random_errors` -/
def sendRandomErrors (L : Library Code EM Dec) (codes : List CodeMenu)
    (dirs : List (String × Dir)) (content : Req) : Except String JV := do
  let p ← field content "p"
  let nd ← field content "noise_deformation_name"
  let emName ← field content "error_model"
  let nd := noiseDeformation nd
  let code ← instantiateCode L codes content
  let dir ← directionOf dirs emName
  let em ← L.newErrorModel dir nd
  let errors ← L.generate em code p
  errorSpecCheck (L.n code) errors
  pure (JV.ints errors)

/-- the library calls of `/new-errors` for a selection and the answer -/
def runNoise (L : Library Code EM Dec) (sel : NoiseSel) : Except String JV := do
  let code ← runCode L sel.code
  let em ← L.newErrorModel sel.direction sel.noiseDeformation
  let errors ← L.generate em code sel.p
  errorSpecCheck (L.n code) errors
  pure (JV.ints errors)

/-! ### `/decoder-names`, `/code-names` -/

/-- `GUI.send_decoder_names`: `codes[request.json['code_name']].__name__`, then the filter -/
def sendDecoderNames (codes : List CodeMenu) (decs : List DecoderMenu) (content : Req) :
    Except String (List String) := do
  let name ← field content "code_name"
  let cls ← classOf codes (← dictKey name)
  pure (offeredDecoders decs cls)

/-- `GUI.send_code_names`: the key `f'{dim}d'` of `code_names` (`'2d'` / `'3d'`) — an int or a
    string renders to the same key, everything else (a float `2.0` → `'2.0d'`, `True` → `'Trued'`) to
    no key -/
def sendCodeNames (codes : List CodeMenu) (content : Req) : Except String (List String) := do
  let dim ← field content "dimension"
  match dim with
  | .num (.int 2) => pure (codeNames codes 2)
  | .num (.int 3) => pure (codeNames codes 3)
  | .str "2" => pure (codeNames codes 2)
  | .str "3" => pure (codeNames codes 3)
  | _ => .error "KeyError"

/-! ### what the front end sends (`gui/js/main.js`), for the table theorems -/

/-- the request fields `send_correction` reads itself or through `_instantiate_code` -/
def decodeFieldsRead : List String :=
  ["syndrome", "p", "noise_deformation_name", "max_bp_iter", "alpha", "beta", "decoder",
   "error_model", "Lx", "Ly", "Lz", "code_name", "code_deformation_name", "channel_update"]

/-- the same before the repair -/
def oldDecodeFieldsRead : List String :=
  ["syndrome", "p", "noise_deformation_name", "max_bp_iter", "alpha", "beta", "decoder",
   "error_model", "Lx", "Ly", "Lz", "code_name", "code_deformation_name"]

/-- the request fields `send_random_errors` reads -/
def newErrorsFieldsRead : List String :=
  ["p", "noise_deformation_name", "error_model", "Lx", "Ly", "Lz", "code_name",
   "code_deformation_name"]

/-- the option fields (`max_bp_iter`, `alpha`, `beta`, `channel_update`, …) that the route forwards
    to the constructor of the decoder with this menu name -/
def forwardedOptions (decoder : String) : List String :=
  ((decoderKwargs (.str decoder) .null .null .null none).map (·.1)).filter (· != "osd_order")

/-- the same before the repair -/
def oldForwardedOptions (decoder : String) : List String :=
  ((oldDecoderKwargs (.str decoder) .null .null .null).map (·.1)).filter (· != "osd_order")

/-- the body `getCorrection` of `main.js` posts to `/decode`, keys in the order written there -/
def frontEndDecodeReq (codeName : String) (lx ly lz p maxBpIter alpha beta channelUpdate syndrome : JV)
    (noiseDeformationName decoder errorModel codeDeformationName : String) : Req :=
  [("Lx", lx), ("Ly", ly), ("Lz", lz), ("p", p), ("max_bp_iter", maxBpIter), ("alpha", alpha),
   ("beta", beta), ("channel_update", channelUpdate), ("syndrome", syndrome),
   ("noise_deformation_name", .str noiseDeformationName), ("decoder", .str decoder),
   ("error_model", .str errorModel), ("code_name", .str codeName),
   ("code_deformation_name", .str codeDeformationName)]

/-- the body `getRandomErrors` of `main.js` posts to `/new-errors` -/
def frontEndNoiseReq (codeName : String) (lx ly lz p : JV)
    (noiseDeformationName errorModel codeDeformationName : String) : Req :=
  [("Lx", lx), ("Ly", ly), ("Lz", lz), ("p", p),
   ("noise_deformation_name", .str noiseDeformationName), ("error_model", .str errorModel),
   ("code_name", .str codeName), ("code_deformation_name", .str codeDeformationName)]

end Panqec.GuiRoutes
