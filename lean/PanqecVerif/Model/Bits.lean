/-
Model of `panqec/bpauli.py` and the binary-symplectic glue of
`panqec/codes/base/_stabilizer_code.py`.

Executable, total, no Mathlib.  Vectors are `List Nat` (numpy integer arrays:
entries are usually 0/1 but nothing in the code enforces it); a BSF vector of
`n` qubits has length `2n` with the X block first.
-/
namespace Panqec

/-- Exact integer dot product (numpy `int64`/`uint64` path: no wrap for any
    realistic size). Truncates to the shorter list like `zip`. -/
def dot : List Nat → List Nat → Nat
  | a :: as, b :: bs => a * b + dot as bs
  | _, _ => 0

/-- numpy `uint8` dot product: every product and every partial sum is reduced
    modulo 256. -/
def dotU8 : List Nat → List Nat → Nat
  | a :: as, b :: bs => ((a % 256) * (b % 256) % 256 + dotU8 as bs) % 256
  | _, _ => 0

/-- X block of a BSF vector. -/
def xPart (v : List Nat) : List Nat := v.take (v.length / 2)
/-- Z block of a BSF vector. -/
def zPart (v : List Nat) : List Nat := v.drop (v.length / 2)

/-- The GF(2) symplectic form x_a·z_b + z_a·x_b. -/
def symp (a b : List Nat) : Nat :=
  (dot (xPart a) (zPart b) + dot (zPart a) (xPart b)) % 2

/-- dtype of the dense path of `bs_prod`. -/
inductive DType | u8 | wide
  deriving Repr, DecidableEq

/-- `bs_prod` on two single vectors, dense path:
    `(a_X.dot(b_Z.T) + a_Z.dot(b_X.T)) % 2` in the given dtype. -/
def bsProdDense (dt : DType) (a b : List Nat) : Nat :=
  match dt with
  | .u8 => ((dotU8 (xPart a) (zPart b) + dotU8 (zPart a) (xPart b)) % 256) % 2
  | .wide => (dot (xPart a) (zPart b) + dot (zPart a) (xPart b)) % 2

/-- `_bs_prod_sparse`: csr `uint8` dot (wraps modulo 256), then `data %= 2`. -/
def bsProdSparse (a b : List Nat) : Nat :=
  ((dotU8 (xPart a) (zPart b) + dotU8 (zPart a) (xPart b)) % 256) % 2

/-- Errors `bs_prod` raises. -/
inductive BsErr | oddLength | lengthMismatch
  deriving Repr, DecidableEq

/-- Shape guard of `bs_prod` for single vectors. -/
def bsGuard (a b : List Nat) : Except BsErr Unit :=
  if a.length % 2 ≠ 0 then .error .oddLength
  else if b.length % 2 ≠ 0 then .error .oddLength
  else if b.length ≠ a.length then .error .lengthMismatch
  else .ok ()

/-- `bs_prod(a, b)` for 1-D × 1-D input (result is a length-1 array). -/
def bsProd (dt : DType) (sparse : Bool) (a b : List Nat) : Except BsErr Nat :=
  match bsGuard a b with
  | .error e => .error e
  | .ok () => .ok (if sparse then bsProdSparse a b else bsProdDense dt a b)

/-- `bs_prod(A, b)` for a stack `A` (2-D) and a single vector `b`:
    one entry per row of `A`. -/
def bsProdRows (dt : DType) (sparse : Bool) (A : List (List Nat)) (b : List Nat) :
    List Nat :=
  A.map fun r => if sparse then bsProdSparse r b else bsProdDense dt r b

/-- `bs_prod(A, B)` for two stacks: matrix of shape `|A| × |B|`. -/
def bsProdMat (dt : DType) (sparse : Bool) (A B : List (List Nat)) : List (List Nat) :=
  A.map fun r => B.map fun c => if sparse then bsProdSparse r c else bsProdDense dt r c

/-! ### Pauli letters and converters -/

inductive Pauli | I | X | Y | Z
  deriving Repr, DecidableEq, Inhabited

def Pauli.xBit : Pauli → Nat
  | .X => 1 | .Y => 1 | _ => 0
def Pauli.zBit : Pauli → Nat
  | .Z => 1 | .Y => 1 | _ => 0

def Pauli.ofBits (x z : Nat) : Pauli :=
  if x % 2 = 1 then (if z % 2 = 1 then .Y else .X)
  else (if z % 2 = 1 then .Z else .I)

def Pauli.toChar : Pauli → Char
  | .I => 'I' | .X => 'X' | .Y => 'Y' | .Z => 'Z'

def Pauli.ofChar? : Char → Option Pauli
  | 'I' => some .I | 'X' => some .X | 'Y' => some .Y | 'Z' => some .Z
  | _ => none

/-- `pauli_to_bsf` / `pauli_string_to_bvector`: X block then Z block. -/
def pauliToBsf (ps : List Pauli) : List Nat :=
  ps.map Pauli.xBit ++ ps.map Pauli.zBit

/-- `bvector_to_pauli_string` / `bsf_to_pauli` (dense 1-D). -/
def bsfToPauli (v : List Nat) : List Pauli :=
  List.zipWith Pauli.ofBits (xPart v) (zPart v)

/-- `bsf_wt`: number of qubits on which the operator is not the identity. -/
def bsfWt (v : List Nat) : Nat :=
  (List.zipWith (fun x z => x + z) (xPart v) (zPart v)).countP (· ≠ 0)

/-- `bsf_wt` of a 2-D stack (dense: `count_nonzero(X + Z)` over the whole matrix; csr counts the
    distinct (row, qubit) pairs): the total number of non-identity single-qubit factors of the stacked operators. -/
def bsfWtStack (rows : List (List Nat)) : Nat :=
  (rows.map bsfWt).sum

/-- `bvector_to_int`: big-endian binary number. -/
def bvectorToInt (v : List Nat) : Nat :=
  v.foldl (fun acc b => 2 * acc + b) 0

/-- `int_to_bvector(k, n)`: `'{:0{2n}b}'.format(k)` as a digit array. Python pads
    to *at least* `2n` digits; numbers ≥ 2^(2n) give a longer vector. -/
def natToBitsBE : Nat → Nat → List Nat
  | 0, _ => []
  | w + 1, k => natToBitsBE w (k / 2) ++ [k % 2]

def intToBvector (k n : Nat) : List Nat :=
  natToBitsBE (max (2 * n) (Nat.log2 k + 1)) k

/-- pointwise sum (numpy `+` on equal-length arrays). -/
def vadd : List Nat → List Nat → List Nat
  | a :: as, b :: bs => (a + b) :: vadd as bs
  | _, _ => []

/-- pointwise `(a + b) % 2` — how panqec composes Paulis. -/
def vxor (a b : List Nat) : List Nat := (vadd a b).map (· % 2)

def isBinary (v : List Nat) : Bool := v.all (· < 2)

/-- `apply_deformation(indices, bsf)`: Hadamard on the flagged qubits. -/
def applyDeformation (flags : List Bool) (v : List Nat) : Option (List Nat) :=
  let n := flags.length
  if v.length ≠ 2 * n then none
  else
    let xs := v.take n
    let zs := v.drop n
    let pick (f : Bool) (a b : Nat) := if f then b else a
    some (List.zipWith (fun f (p : Nat × Nat) => pick f p.1 p.2) flags (xs.zip zs) ++
          List.zipWith (fun f (p : Nat × Nat) => pick f p.2 p.1) flags (xs.zip zs))

/-! ### GF(2) rank as `gf2_rank` computes it (rows as binary integers) -/

/-- lowest set bit `r & -r` of a positive number. -/
def lowBit (r : Nat) : Nat := 2 ^ (Nat.log2 (r ^^^ (r - 1)))

/-- one pass of `gf2_rank`: pop the *last* row as pivot; if non-zero eliminate
    its lowest set bit from all remaining rows.  Fuel = number of rows. -/
def gf2RankAux : Nat → List Nat → Nat → Nat
  | 0, _, rank => rank
  | fuel + 1, rows, rank =>
    match rows.reverse with
    | [] => rank
    | pivot :: restRev =>
      let rest := restRev.reverse
      if pivot = 0 then gf2RankAux fuel rest rank
      else
        let lsb := lowBit pivot
        let rest' := rest.map fun r => if r &&& lsb ≠ 0 then r ^^^ pivot else r
        gf2RankAux fuel rest' (rank + 1)

def gf2Rank (rows : List Nat) : Nat := gf2RankAux rows.length rows 0

/-- `brank`: rows of 0/1 digits → big-endian integers → `gf2_rank`. -/
def brank (m : List (List Nat)) : Nat := gf2Rank (m.map bvectorToInt)

end Panqec

namespace Panqec

/-- Full shape rule of `bs_prod(a, b)`: `aDim`/`bDim` are the numpy `ndim` (1 or 2)
    of the inputs, given as stacks of rows (a 1-D input is a 1-row stack).
    Returns the output shape and the flattened (row-major) data. -/
def bsProdFull (dt : DType) (sparse : Bool) (aDim bDim : Nat)
    (A B : List (List Nat)) : Except BsErr (List Nat × List Nat) :=
  match A, B with
  | a0 :: _, b0 :: _ =>
    if a0.length % 2 ≠ 0 then .error .oddLength
    else if b0.length % 2 ≠ 0 then .error .oddLength
    else if b0.length ≠ a0.length then .error .lengthMismatch
    else
      let data := (bsProdMat dt sparse A B).flatten
      let ma := A.length
      let mb := B.length
      let shape :=
        if aDim = 2 ∧ bDim = 1 then [ma]
        else if aDim = 1 ∧ bDim = 2 then [mb]
        else if sparse then
          (if ma = 1 then [mb] else if mb = 1 then [ma] else [ma, mb])
        else [ma, mb]
      .ok (shape, data)
  | _, _ => .ok ([], [])

end Panqec
