/-
Model of the part of `panqec/analysis.py` that decides WHICH ROWS the finite-size-scaling fit
sees and WHERE it starts (C16):

  * `get_code_df`, `get_p_th_nearest`            → `codeColumns`, `pThNearest`
  * `get_p_th_sd_interp`                         → `sdInterpIdx`, `sdInterp`
  * the three window branches of `Analysis.calculate_thresholds` (manual override, `autotruncate`,
    default), the truncation and start vector of `fit_fss_params` / `get_fit_params`
                                                 → `windowOverride`, `windowAuto`, `windowDefault`, `firstFitStart`
  * `Analysis.apply_overrides`, `replace_threshold`, skip / replace / truncate look-ups of
    `calculate_thresholds`                       → `applyOverrides`, `calcThresholds`
  * `p_th_fss_se = params_bs[:, 0].std()`        → `popVariance` (radicand; the root is taken outside)

No Mathlib, exact rationals.  Strings (code names, labels, column names, values) are numbered by the
harness by their rank in sorted order, so that `Nat` order is string order.

Conventions.  A logical error rate is `Option Rat` (`none` = NaN).  Square roots: the standard deviation
`interp_df.std(axis=1)` is `sq (variance)` with `sq` a parameter of the model (the driver instantiates it by
`sqrtApprox`, a 40-digit rational root); everything that is proved about the window holds for every `sq`.
The interpolation grid `np.arange(p_min, p_max + 0.001, 0.001)` is a parameter `grid` (numpy computes it in
floating point: its points differ from `exactGrid` by rounding and its length is `gridLenExact` or one more;
the harness passes numpy's, read at the boundary).
-/
import PanqecVerif.Model.Analysis

namespace Panqec.An

/-- one row of `df_filt` (the rows of `_results` of one parameter set) as far as the window code reads it -/
structure TRow where
  code : Nat            -- column 'code' (in the pipeline: the class name, the same for all sizes)
  label : Nat           -- column 'code_label' (name + parameters: one per size)
  n : Nat
  k : Nat
  d : Nat
  rate : Rat            -- 'error_rate'
  pest : Option Rat     -- the `p_est` column in use; `none` = NaN
  deriving Repr, DecidableEq, Inhabited

inductive WErr where
  | empty          -- no rows: IndexError / ValueError of numpy on an empty table
  | noMinimum      -- `np.argmax([])`: ValueError (fewer than two curves: the SD is NaN everywhere)
  | outsideDomain  -- NaN rate or duplicated (code_label, error_rate): not modelled
  | emptyWindow    -- `min()` of an empty sequence in `get_fit_params`: ValueError, not caught
  | nothingFitted  -- `pd.concat([])` of the truncated tables when no parameter set was fitted: ValueError
  | extraRow       -- a row of `extra_thresholds` has no 'error_model_label': `get_deformation(nan)` TypeError
  deriving Repr, DecidableEq

def WErr.text : WErr → String
  | .empty => "ERR empty"
  | .noMinimum => "ERR ValueError"
  | .outsideDomain => "ERR domain"
  | .emptyWindow => "ERR ValueError"
  | .nothingFitted => "ERR ValueError"
  | .extraRow => "ERR TypeError"

/-! ## `get_p_th_nearest` -/

abbrev CodeTuple := Nat × Nat × Nat × Nat

/-- `results_df[['code', 'n', 'k', 'd']].drop_duplicates()` -/
def codeTuples (rows : List TRow) : List CodeTuple :=
  (rows.map fun r => (r.code, r.n, r.k, r.d)).eraseDups

def insertByN (t : CodeTuple) : List CodeTuple → List CodeTuple
  | [] => [t]
  | u :: us => if t.2.1 ≤ u.2.1 then t :: u :: us else u :: insertByN t us

/-- `sort_values(by='n')`, modelled as a stable sort (pandas' default is an unstable quicksort: the model
    is exact when distinct code tuples have distinct `n`) -/
def sortByN : List CodeTuple → List CodeTuple
  | [] => []
  | t :: ts => insertByN t (sortByN ts)

/-- keys of the dict comprehension `{code: … for code in code_df['code']}`: first occurrences -/
def codeColumns (rows : List TRow) : List Nat := ((sortByN (codeTuples rows)).map (·.1)).eraseDups

/-- `dict(df_filt[df_filt['code'] == code][['error_rate', p_est]].values)[p]`: the last row of that code
    and rate wins; an absent key becomes NaN in the DataFrame -/
def cellOf (rows : List TRow) (c : Nat) (p : Rat) : Option Rat :=
  ((rows.filter fun r => r.code == c && r.rate == p).getLast?).bind (·.pest)

/-- `p_est_df.sort_index().index` -/
def rateIndex (rows : List TRow) : List Rat := sortRat ((rows.map (·.rate)).eraseDups)

/-- order used by `np.argsort`: NaN after every number -/
def nanLt : Option Rat → Option Rat → Bool
  | some a, some b => a < b
  | some _, none => true
  | none, _ => false

def argFirstAux : List (Option Rat) → Nat → Nat → Option Rat → Nat
  | [], _, bi, _ => bi
  | v :: vs, i, bi, bv => if nanLt v bv then argFirstAux vs (i + 1) i v else argFirstAux vs (i + 1) bi bv

/-- `np.argsort(row)[0]` for a stable sort: the first column holding the smallest value -/
def argFirst : List (Option Rat) → Nat
  | [] => 0
  | v :: vs => argFirstAux vs 1 0 v

def argLastAux : List (Option Rat) → Nat → Nat → Option Rat → Nat
  | [], _, bi, _ => bi
  | v :: vs, i, bi, bv => if nanLt v bv then argLastAux vs (i + 1) bi bv else argLastAux vs (i + 1) i v

/-- `np.argsort(row)[-1]` for a stable sort: the last column holding the largest value (NaN largest) -/
def argLast : List (Option Rat) → Nat
  | [] => 0
  | v :: vs => argLastAux vs 1 0 v

/-- `np.diff(np.argsort(row)).sum()` telescopes to last minus first -/
def orderStat (vals : List (Option Rat)) : Int := (argLast vals : Int) - (argFirst vals : Int)

/-- `np.diff` -/
def diffs : List Int → List Int
  | a :: b :: t => (b - a) :: diffs (b :: t)
  | _ => []

def argmaxAux : List Int → Nat → Nat → Int → Nat
  | [], _, bi, _ => bi
  | v :: vs, i, bi, bv => if bv < v then argmaxAux vs (i + 1) i v else argmaxAux vs (i + 1) bi bv

/-- `np.argmax`: first index of the maximum (0 on the empty list, where numpy raises and the code falls
    back to index 0) -/
def argmaxFirst : List Int → Nat
  | [] => 0
  | v :: vs => argmaxAux vs 1 0 v

/-- the statistic per error rate (rows of `p_est_df` in index order) -/
def orderStats (rows : List TRow) : List Int :=
  (rateIndex rows).map fun p => orderStat ((codeColumns rows).map fun c => cellOf rows c p)

/-- `get_p_th_nearest(df_filt, p_est)` -/
def pThNearest (rows : List TRow) : Except WErr Rat :=
  match rateIndex rows with
  | [] => .error .empty
  | p0 :: ps => .ok ((p0 :: ps).getD (argmaxFirst (diffs (orderStats rows))) p0)

/-! ## `get_p_th_sd_interp` -/

def minList : List Rat → Option Rat
  | [] => none
  | x :: xs => some (xs.foldl min x)

def maxList : List Rat → Option Rat
  | [] => none
  | x :: xs => some (xs.foldl max x)

/-- `if p_nearest is not None: if p_nearest > p_min: p_max = min(p_max, p_nearest*2)` -/
def pmaxEff (pmin pmax : Rat) (pn : Option Rat) : Rat :=
  match pn with
  | some q => if pmin < q then min pmax (q * 2) else pmax
  | none => pmax

/-- length of `np.arange(p_min, p_max + res, res)` in exact arithmetic: `ceil((p_max + res - p_min) / res)` -/
def gridLenExact (pmin pmaxE res : Rat) : Nat := ((pmaxE + res - pmin) / res).ceil.toNat

/-- `p_interp[i]` -/
def gridPt (pmin res : Rat) (i : Nat) : Rat := pmin + (i : Rat) * res

/-- `df_filt['code_label'].unique()` -/
def labelsOf (rows : List TRow) : List Nat := (rows.map (·.label)).eraseDups

def insertPt (p : Rat × Rat) : List (Rat × Rat) → List (Rat × Rat)
  | [] => [p]
  | q :: qs => if p.1 ≤ q.1 then p :: q :: qs else q :: insertPt p qs

def sortPts : List (Rat × Rat) → List (Rat × Rat)
  | [] => []
  | p :: ps => insertPt p (sortPts ps)

/-- `df_filt[df_filt['code_label'] == code].sort_values(by='error_rate')` as (rate, p_est) pairs -/
def pointsOf (rows : List TRow) (lab : Nat) : List (Rat × Rat) :=
  sortPts ((rows.filter fun r => r.label == lab).map fun r => (r.rate, r.pest.getD 0))

/-- scipy `interp1d(kind='linear', fill_value='extrapolate')` on sorted nodes, evaluated at `x`
    (`searchsorted` left, clipped to `[1, len-1]`); one node: the horizontal line of the code -/
def interpAt (pts : List (Rat × Rat)) (x : Rat) : Rat :=
  match pts with
  | [] => 0
  | [p] => p.2
  | p0 :: _ =>
    let j := pts.countP fun q => q.1 < x
    let i := min (max j 1) (pts.length - 1)
    let lo := pts.getD (i - 1) p0
    let hi := pts.getD i p0
    (hi.2 - lo.2) / (hi.1 - lo.1) * (x - lo.1) + lo.2

/-- `Series.std()` radicand (ddof = 1) -/
def sampleVariance (vs : List Rat) : Rat :=
  let m := vs.sum / (vs.length : Rat)
  (vs.map fun v => (v - m) ^ 2).sum / ((vs.length : Rat) - 1)

/-- `params_bs[:, 0].std()` radicand (ddof = 0) -/
def popVariance (vs : List Rat) : Rat :=
  let m := vs.sum / (vs.length : Rat)
  (vs.map fun v => (v - m) ^ 2).sum / (vs.length : Rat)

/-- scipy `argrelextrema(data, cmp)` (order 1, mode 'clip'): `cmp(data[i], data[min(i+1, N-1)])` and
    `cmp(data[i], data[max(i-1, 0)])` -/
def relExt (cmp : Rat → Rat → Bool) (sd : List Rat) : List Nat :=
  (List.range sd.length).filter fun i =>
    cmp (sd.getD i 0) (sd.getD (min (i + 1) (sd.length - 1)) 0) && cmp (sd.getD i 0) (sd.getD (i - 1) 0)

def maxNat : List Nat → Option Nat
  | [] => none
  | x :: xs => some (xs.foldl max x)

def minNat : List Nat → Option Nat
  | [] => none
  | x :: xs => some (xs.foldl min x)

/-- `i_maxima[i_maxima < i].max()` -/
def lastBelow (ms : List Nat) (i : Nat) : Option Nat := maxNat (ms.filter (· < i))

/-- `i_maxima[i_maxima > i].min()` -/
def firstAbove (ms : List Nat) (i : Nat) : Option Nat := minNat (ms.filter (i < ·))

/-- `left_height + right_height` of one local minimum -/
def peakHeight (sd : List Rat) (maxs : List Nat) (im : Nat) : Rat :=
  (match lastBelow maxs im with
    | some j => sd.getD j 0 - sd.getD im 0
    | none => 0) +
  (match firstAbove maxs im with
    | some j => sd.getD j 0 - sd.getD im 0
    | none => 0)

def argmaxRatAux : List Rat → Nat → Nat → Rat → Nat
  | [], _, bi, _ => bi
  | v :: vs, i, bi, bv => if bv < v then argmaxRatAux vs (i + 1) i v else argmaxRatAux vs (i + 1) bi bv

/-- `np.argmax` on floats; `none` = ValueError on an empty list -/
def argmaxRat : List Rat → Option Nat
  | [] => none
  | v :: vs => some (argmaxRatAux vs 1 0 v)

def sdMinima (sd : List Rat) : List Nat :=
  let m := relExt (fun a b => a < b) sd
  if m.isEmpty then relExt (fun a b => a ≤ b) sd else m

def sdMaxima (sd : List Rat) : List Nat :=
  let m := relExt (fun a b => b < a) sd
  0 :: (if m.isEmpty then relExt (fun a b => b ≤ a) sd else m) ++ [sd.length - 1]

/-- the second half of `get_p_th_sd_interp`: from the SD at the grid points to the grid indices of
    (crossover, left limit, right limit) -/
def sdSelect (sd : List Rat) : Except WErr (Nat × Nat × Nat) :=
  let mins := sdMinima sd
  let maxs := sdMaxima sd
  match argmaxRat (mins.map (peakHeight sd maxs)) with
  | none => .error .noMinimum
  | some j =>
    let ic := mins.getD j 0
    .ok (ic, (lastBelow maxs ic).getD 0, (firstAbove maxs ic).getD (sd.length - 1))

/-- rows the model of `get_p_th_sd_interp` covers: finite rates, no duplicated (code_label, error_rate)
    (guaranteed by `aggregate`'s group-by) -/
def sdDomain (rows : List TRow) : Bool :=
  rows.all (·.pest.isSome) &&
  (let ks := rows.map fun r => (r.label, r.rate)
   ks.eraseDups.length == ks.length)

/-- `p_interp` in exact arithmetic: `p_min + i * res`, `i < N` -/
def exactGrid (pmin res : Rat) (N : Nat) : List Rat := (List.range N).map (gridPt pmin res)

/-- the interpolated curves at the grid points: one list per grid point, in label order -/
def curveValues (rows : List TRow) (grid : List Rat) : List (List Rat) :=
  let curves := (labelsOf rows).map (pointsOf rows)
  grid.map fun x => curves.map fun pts => interpAt pts x

/-- `interp_std.values` -/
def sdValues (sq : Rat → Rat) (rows : List TRow) (grid : List Rat) : List Rat :=
  (curveValues rows grid).map fun vs => sq (sampleVariance vs)

/-- `get_p_th_sd_interp` up to the grid indices; `grid` = `p_interp` as numpy's `arange` produced it (the
    floating-point grid is a parameter: its points differ from `exactGrid` by rounding, and its length can
    be one more than `gridLenExact`) -/
def sdInterpIdx (sq : Rat → Rat) (grid : List Rat) (rows : List TRow) : Except WErr (Nat × Nat × Nat) :=
  if rows.isEmpty then .error .empty
  else if !sdDomain rows then .error .outsideDomain
  else if (labelsOf rows).length < 2 then .error .noMinimum
  else sdSelect (sdValues sq rows grid)

/-- `get_p_th_sd_interp(df_filt, p_nearest)`: `(p_crossover, p_left, p_right)`, three points of the grid.
    (`p_nearest` only enters through the grid.) -/
def sdInterp (sq : Rat → Rat) (grid : List Rat) (rows : List TRow) : Except WErr (Rat × Rat × Rat) :=
  match sdInterpIdx sq grid rows with
  | .ok (ic, il, ir) => .ok (grid.getD ic 0, grid.getD il 0, grid.getD ir 0)
  | .error e => .error e

/-- exact grid length of a call `get_p_th_sd_interp(df_filt, p_nearest=pn)` -/
def sdGridLen (res : Rat) (rows : List TRow) (pn : Option Rat) : Nat :=
  match minList (rows.map (·.rate)), maxList (rows.map (·.rate)) with
  | some lo, some hi => gridLenExact lo (pmaxEff lo hi pn) res
  | _, _ => 0

/-- the grid of a call `get_p_th_sd_interp(df_filt, p_nearest=pn)` in exact arithmetic -/
def sdExactGrid (res : Rat) (rows : List TRow) (pn : Option Rat) : List Rat :=
  match minList (rows.map (·.rate)) with
  | some lo => exactGrid lo res (sdGridLen res rows pn)
  | none => []

/-- 40-digit rational square root used by the driver for `sq` -/
def sqrtApprox (x : Rat) : Rat :=
  if x ≤ 0 then 0
  else
    let sc : Nat := 10 ^ 40
    ((Nat.sqrt ((x.num.toNat * sc * sc) / x.den) : Nat) : Rat) / (sc : Rat)

/-! ## the window branches of `calculate_thresholds` -/

/-- `self.overrides[sector][param_set]` (the 'truncate' dict of an override) -/
structure TruncSpec where
  hasRate : Bool := false      -- key 'error_rate' present
  rmin : Option Rat := none    -- its 'min' (absent or None = `none`)
  rmax : Option Rat := none
  hasD : Bool := false         -- key 'd' present
  dmin : Option Nat := none
  dmax : Option Nat := none
  deriving Repr, DecidableEq, Inhabited

structure Window where
  pNearest : Rat
  pSd : Rat
  pLeft : Rat
  pRight : Rat
  rows : List TRow             -- `df_filt` handed to `fit_fss_params`
  deriving Repr, DecidableEq

/-- `tolerance = 1e-9` -/
def tol9 : Rat := 1 / 1000000000

/-- no manual truncation, `autotruncate=False`: all data -/
def windowDefault (rows : List TRow) (pn : Rat) : Option Window :=
  match minList (rows.map (·.rate)), maxList (rows.map (·.rate)) with
  | some lo, some hi => some { pNearest := pn, pSd := pn, pLeft := lo, pRight := hi, rows := rows }
  | _, _ => none

/-- `param_set in self.overrides[sector]` -/
def windowOverride (spec : TruncSpec) (rows : List TRow) (pn : Rat) : Option Window :=
  match minList (rows.map (·.rate)), maxList (rows.map (·.rate)) with
  | some lo, some hi =>
    let pl := if spec.hasRate then (spec.rmin.map (· - tol9)).getD lo else lo
    let pr := if spec.hasRate then (spec.rmax.map (· + tol9)).getD hi else hi
    let rows1 := if spec.hasD then
        match spec.dmin with
        | some m => rows.filter fun r => m ≤ r.d
        | none => rows
      else rows
    let rows2 := if spec.hasD then
        match spec.dmax with
        | some m => rows1.filter fun r => r.d ≤ m
        | none => rows1
      else rows1
    some { pNearest := pn
           pSd := if pl < pn ∧ pn < pr then pn else (pl + pr) / 2
           pLeft := pl, pRight := pr, rows := rows2 }
  | _, _ => none

/-- `autotruncate=True` -/
def windowAuto (sq : Rat → Rat) (grid : List Rat) (rows : List TRow) (pn : Rat) : Except WErr Window :=
  match sdInterp sq grid rows with
  | .ok (pc, pl, pr) => .ok { pNearest := pn, pSd := pc, pLeft := pl, pRight := pr, rows := rows }
  | .error e => .error e

def meanOf : List Rat → Option Rat
  | [] => none
  | v :: vs => some ((v :: vs).sum / (((v :: vs).length : Nat) : Rat))

/-- `df_trunc` of `fit_fss_params`: rates inside the window, NaN rates dropped -/
def truncRows (rows : List TRow) (pl pr : Rat) : List TRow :=
  (rows.filter fun r => pl ≤ r.rate && r.rate ≤ pr).filter (·.pest.isSome)

/-- what the first `curve_fit` of `fit_fss_params` receives: number of rows, `p0[0]`, `p0[2] = f_0`.
    `p0[0]` is `p_nearest`, replaced by the mid-range of the truncated rows when it lies outside
    (`get_fit_params`); `f_0` is the mean rate at `error_rate == p_nearest`, else over all rows. -/
def firstFitStart (rows : List TRow) (pl pr pn : Rat) : Except WErr (Nat × Rat × Rat) :=
  let tr := truncRows rows pl pr
  match minList (tr.map (·.rate)), maxList (tr.map (·.rate)) with
  | some lo, some hi =>
    let all := tr.filterMap (·.pest)
    let atPn := (tr.filter fun r => r.rate == pn).filterMap (·.pest)
    let f0 := ((meanOf atPn).orElse fun _ => meanOf all).getD 0
    .ok (tr.length, (hintFor (some pn) (lo, hi)).getD pn, f0)
  | _, _ => .error .emptyWindow

/-! ## overrides -/

abbrev Triple := Nat × Nat × Nat

/-- a row of `_results` as far as overrides and parameter sets are concerned -/
structure ResRow where
  row : TRow               -- `row.code` is the 'code' column
  em : Nat                 -- 'error_model' (class name)
  dec : Nat                -- 'decoder' (class name)
  emLabel : Nat            -- 'error_model_label'
  decLabel : Nat           -- 'decoder_label'
  attrs : List (Nat × Nat) -- (column, value) pairs an override filter can test
  deriving Repr, DecidableEq

/-- the 'replace' dict of an override -/
structure Replace where
  pth : Option Rat         -- 'p_th_fss' (absent = `none`)
  se : Option Rat          -- 'p_th_fss_se'
  deriving Repr, DecidableEq, Inhabited

/-- one element of `overrides_spec['overrides']` -/
structure Override where
  filters : List (Nat × Nat)     -- empty = absent / falsy: the override is ignored
  sector : Nat := 0              -- 0 total (default), 1 X, 2 Z
  truncate : Option TruncSpec := none
  replace : Option Replace := none
  skip : Bool := false
  deriving Repr, DecidableEq, Inhabited

/-- `self.overrides`, `self.replaces`, `self.skips`, `self.extra_thresholds`; dicts are association lists
    with the newest binding first (only look-ups are observed) -/
structure OvState where
  overrides : List ((Nat × Triple) × TruncSpec) := []
  replaces : List (Triple × Replace) := []
  skips : List Triple := []
  extra : List (List (Nat × Nat) × Replace) := []
  deriving Repr, DecidableEq, Inhabited

def ResRow.matches (r : ResRow) (filters : List (Nat × Nat)) : Bool := filters.all fun f => r.attrs.contains f

/-- key written by `apply_overrides`: `(code, error_model, decoder)` — the class NAMES -/
def ResRow.nameKey (r : ResRow) : Triple := (r.row.code, r.em, r.dec)

/-- key looked up by `calculate_thresholds`: `(code, error_model_label, decoder_label)` -/
def ResRow.labelKey (r : ResRow) : Triple := (r.row.code, r.emLabel, r.decLabel)

def applyOne (rs : List ResRow) (st : OvState) (o : Override) : OvState :=
  if o.filters.isEmpty then st else
  let sets := ((rs.filter fun r => r.matches o.filters).map ResRow.nameKey).eraseDups
  let st := sets.foldl (fun st t =>
    let st := match o.truncate with
      | some tr => { st with overrides := ((o.sector, t), tr) :: st.overrides }
      | none => st
    let st := match o.replace with
      | some rp => { st with replaces := (t, rp) :: st.replaces }
      | none => st
    if o.skip then { st with skips := st.skips ++ [t] } else st) st
  match sets, o.replace with
  | [], some rp => { st with extra := st.extra ++ [(o.filters, rp)] }
  | _, _ => st

/-- total-sector truncations are copied to X and Z unless given explicitly -/
def propagateTotal (st : OvState) : OvState :=
  let totals := (st.overrides.filter fun e => e.1.1 == 0).map fun e => e.1.2
  totals.eraseDups.foldl (fun st t =>
    [1, 2].foldl (fun st s =>
      match st.overrides.lookup (s, t), st.overrides.lookup (0, t) with
      | none, some tr => { st with overrides := st.overrides ++ [((s, t), tr)] }
      | _, _ => st) st) st

/-- `Analysis.apply_overrides` (the spec has an 'overrides' list) -/
def applyOverrides (rs : List ResRow) (spec : List Override) : OvState :=
  propagateTotal (spec.foldl (applyOne rs) {})

def tripleLe (a b : Triple) : Bool :=
  a.1 < b.1 || (a.1 == b.1 && (a.2.1 < b.2.1 || (a.2.1 == b.2.1 && a.2.2 ≤ b.2.2)))

def insertTriple (t : Triple) : List Triple → List Triple
  | [] => [t]
  | u :: us => if tripleLe t u then t :: u :: us else u :: insertTriple t us

def sortTriples : List Triple → List Triple
  | [] => []
  | t :: ts => insertTriple t (sortTriples ts)

/-- `_results[param_keys].drop_duplicates().sort_values(by=param_keys)` -/
def paramSets (rs : List ResRow) : List Triple := sortTriples ((rs.map ResRow.labelKey).eraseDups)

/-- `replace_threshold`: `(p_th_fss, p_th_fss_left, p_th_fss_right, p_th_fss_se)`; `fit_found = True`,
    `fit_status = 'success'` -/
def replaceThreshold (pth : Rat) (se : Option Rat) : Rat × Rat × Rat × Rat :=
  let u := se.getD 0
  (pth, pth - u, pth + u, u)

inductive WindowMode where
  | default
  | auto (sq : Rat → Rat) (gridOf : List TRow → Rat → List Rat)

/-- one dict of `entries` -/
inductive ThreshEntry where
  /-- fitted: window, then rows / `p0[0]` / `f_0` of the first `curve_fit` -/
  | fitted (key : Triple) (w : Window) (nTrunc : Nat) (p0 : Rat) (f0 : Rat)
  /-- `param_set in self.replaces` with a 'p_th_fss': no fit; `(p_th_fss, left, right, se)` -/
  | replaced (key : Triple) (w : Window) (vals : Rat × Rat × Rat × Rat)
  /-- `param_set in self.replaces` without 'p_th_fss': no fit and no threshold columns -/
  | unfitted (key : Triple) (w : Window)
  deriving Repr

def ThreshEntry.isFitted : ThreshEntry → Bool
  | .fitted _ _ _ _ _ => true
  | _ => false

def ThreshEntry.key : ThreshEntry → Triple
  | .fitted k _ _ _ _ => k
  | .replaced k _ _ => k
  | .unfitted k _ => k

def ThreshEntry.window : ThreshEntry → Window
  | .fitted _ w _ _ _ => w
  | .replaced _ w _ => w
  | .unfitted _ w => w

/-- body of the loop of `calculate_thresholds` for one parameter set -/
def thresholdEntry (st : OvState) (sector : Nat) (mode : WindowMode) (rs : List ResRow) (key : Triple) :
    Except WErr ThreshEntry :=
  let rows := (rs.filter fun r => r.labelKey == key).map (·.row)
  match pThNearest rows with
  | .error e => .error e
  | .ok pn =>
    let win : Except WErr Window :=
      match st.overrides.lookup (sector, key) with
      | some spec => (windowOverride spec rows pn).elim (.error .empty) .ok
      | none =>
        match mode with
        | .auto sq gridOf => windowAuto sq (gridOf rows pn) rows pn
        | .default => (windowDefault rows pn).elim (.error .empty) .ok
    match win with
    | .error e => .error e
    | .ok w =>
      match st.replaces.lookup key with
      | some rp =>
        match rp.pth with
        | some pth => .ok (.replaced key w (replaceThreshold pth rp.se))
        | none => .ok (.unfitted key w)
      | none =>
        match firstFitStart w.rows w.pLeft w.pRight w.pNearest with
        | .ok (n, p0, f0) => .ok (.fitted key w n p0 f0)
        | .error e => .error e

/-- `Analysis.calculate_thresholds(sector=…, autotruncate=…)` up to the call of `curve_fit`:
    the parameter sets in sorted order without the skipped ones, one entry each; the call fails when no
    parameter set is left to fit -/
def calcThresholds (st : OvState) (sector : Nat) (mode : WindowMode) (rs : List ResRow) :
    Except WErr (List ThreshEntry) :=
  match ((paramSets rs).filter fun t => !st.skips.contains t).mapM (thresholdEntry st sector mode rs) with
  | .error e => .error e
  | .ok es =>
    -- `trunc_results = pd.concat(df_trunc_list)`: at least one parameter set must have been fitted
    if !es.any ThreshEntry.isFitted then .error .nothingFitted
    -- rows of `extra_thresholds` carry the filter columns only (never 'error_model_label', which is not a
    -- column an override can usefully test): `thresholds['error_model_label'].apply(get_deformation)` fails
    else if !st.extra.isEmpty then .error .extraRow
    else .ok es

end Panqec.An
