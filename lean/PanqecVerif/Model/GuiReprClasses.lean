/-
The per-class part of the visualizer model: for each of the 16 menu classes, the `ClassGeom` built
from the hand-written all-sizes lattice model (`Model/Lattices/<Class>.lean`: coordinates in library
index order, `stabilizer_type`, `qubit_axis`, `get_deformation` with the class's default keyword
arguments) and the override of `stabilizer_representation` / `qubit_representation` as the list of
dict assignments it performs after `super()` (normals, vertex lists, angles, `object`
replacements, shifted locations).  The tuple unpacking `x, y, z = location` at the top of an override
cannot fail where it is reached: `super()` has already called `stabilizer_type(location)` (which, in
every class but `HollowRhombicCode`, rejects a non-stabilizer location); on a malformed location the
edit functions return no edits.  No Mathlib.
-/
import PanqecVerif.Model.GuiRepr
import PanqecVerif.Model.Lattices.Toric2DCode
import PanqecVerif.Model.Lattices.Planar2DCode
import PanqecVerif.Model.Lattices.RotatedPlanar2DCode
import PanqecVerif.Model.Lattices.Toric3DCode
import PanqecVerif.Model.Lattices.Planar3DCode
import PanqecVerif.Model.Lattices.HollowPlanar3DCode
import PanqecVerif.Model.Lattices.RotatedPlanar3DCode
import PanqecVerif.Model.Lattices.RotatedToric3DCode
import PanqecVerif.Model.Lattices.RhombicToricCode
import PanqecVerif.Model.Lattices.RhombicPlanarCode
import PanqecVerif.Model.Lattices.HollowRhombicCode
import PanqecVerif.Model.Lattices.XCubeCode
import PanqecVerif.Model.Lattices.Color3DCode
import PanqecVerif.Model.Lattices.Color488Code
import PanqecVerif.Model.Lattices.Color666PlanarCode
import PanqecVerif.Model.Lattices.Color666ToricCode

namespace Panqec.GuiRepr

def noEdits : Bool → Coord → String → List Edit := fun _ _ _ => []

def ofDeformResult : Color.DeformResult → Option PauliMap
  | .map m => some m
  | _ => none

/-! ### the three 2-D surface codes: no override -/

def toric2D (Lx Ly : Nat) : ClassGeom :=
  { cls := "Toric2DCode", lat := Toric2DCode.lattice Lx Ly,
    stabType := Toric2DCode.stabilizerType Lx Ly, qubitAxis := Toric2DCode.qubitAxis,
    deformation := fun name loc => Toric2DCode.getDeformation name none loc,
    stabEdits := noEdits, qubitEdits := noEdits }

def planar2D (Lx Ly : Nat) : ClassGeom :=
  { cls := "Planar2DCode", lat := Planar2DCode.lattice Lx Ly,
    stabType := Planar2DCode.stabilizerType Lx Ly, qubitAxis := Planar2DCode.qubitAxis,
    deformation := fun name loc => Planar2DCode.getDeformation name none loc,
    stabEdits := noEdits, qubitEdits := noEdits }

def rotatedPlanar2D (Lx Ly : Nat) : ClassGeom :=
  { cls := "RotatedPlanar2DCode", lat := RotatedPlanar2DCode.lattice Lx Ly,
    stabType := RotatedPlanar2DCode.stabilizerType Lx Ly, qubitAxis := RotatedPlanar2DCode.qubitAxis,
    deformation := fun name loc => RotatedPlanar2DCode.getDeformation name none loc,
    stabEdits := noEdits, qubitEdits := noEdits }

/-! ### cubic-lattice 3-D surface codes (`Toric3DCode`, `Planar3DCode`, `HollowPlanar3DCode`)

    if stabilizer_type(location) == 'face':        (same assignments in both pictures)
        if z % 2 == 0: params['normal'] = [0, 0, 1]
        elif x % 2 == 0: params['normal'] = [1, 0, 0]
        else: params['normal'] = [0, 1, 0] -/

def cubicFaceNormal (x z : Int) : JV :=
  if z % 2 = 0 then JV.ints [0, 0, 1] else if x % 2 = 0 then JV.ints [1, 0, 0] else JV.ints [0, 1, 0]

def cubicStabEdits (_rotated : Bool) (loc : Coord) (t : String) : List Edit :=
  match loc with
  | [x, _, z] => if t == "face" then [.param "normal" (cubicFaceNormal x z)] else []
  | _ => []

def toric3D (Lx Ly Lz : Nat) : ClassGeom :=
  { cls := "Toric3DCode", lat := Toric3DCode.lattice Lx Ly Lz,
    stabType := fun loc => (Toric3DCode.stabilizerType Lx Ly Lz loc).map (·.toString),
    qubitAxis := fun loc => (Toric3DCode.qubitAxis loc).map (·.toString),
    deformation := fun name loc => Toric3DCode.getDeformation name none loc,
    stabEdits := cubicStabEdits, qubitEdits := noEdits }

def planar3D (Lx Ly Lz : Nat) : ClassGeom :=
  { cls := "Planar3DCode", lat := Planar3DCode.lattice Lx Ly Lz,
    stabType := fun loc => (Planar3DCode.stabilizerType Lx Ly Lz loc).map (·.toString),
    qubitAxis := fun loc => (Planar3DCode.qubitAxis loc).map (·.toString),
    deformation := fun name loc => Planar3DCode.getDeformation name none loc,
    stabEdits := cubicStabEdits, qubitEdits := noEdits }

def hollowPlanar3D (Lx Ly Lz : Nat) : ClassGeom :=
  { cls := "HollowPlanar3DCode", lat := HollowPlanar3DCode.lattice Lx Ly Lz,
    stabType := fun loc => (HollowPlanar3DCode.stabilizerType Lx Ly Lz loc).map (·.toString),
    qubitAxis := fun loc => (HollowPlanar3DCode.qubitAxis loc).map (·.toString),
    deformation := fun name loc => HollowPlanar3DCode.getDeformation name none loc,
    stabEdits := cubicStabEdits, qubitEdits := noEdits }

/-! ### rotated 3-D surface codes (`RotatedPlanar3DCode`, `RotatedToric3DCode`; identical overrides)

    qubit:  if qubit_axis(location) == 'z': params['length'] = 2
            if rotated_picture: location = (x, y, z*1.4142)
    stabilizer, type 'face', Kitaev picture:
            z odd:  normal = [0, 0, 1], angle = np.pi/4
            z even: w = 1.5, angle = 0, normal = [1, 1, 0] if (x + y) % 4 == 0 else [-1, 1, 0]
    stabilizer, type 'face', rotated picture:
            z odd:  normal = [0, 0, 1], angle = 0
            z even: angle = np.pi/4, normal as above
    rotated picture (every type): location = (x, y, z*1.4142) -/

def stretchedLocation (x y z : Int) : Edit := .set "location" (.arr [JV.i x, JV.i y, JV.f (.mul14142 z)])

def rotated3DQubitEdits (rotated : Bool) (loc : Coord) (axis : String) : List Edit :=
  (if axis == "z" then [Edit.param "length" (JV.i 2)] else []) ++
  (match loc with
   | [x, y, z] => if rotated then [stretchedLocation x y z] else []
   | _ => [])

def diagNormal (x y : Int) : JV := if (x + y) % 4 = 0 then JV.ints [1, 1, 0] else JV.ints [-1, 1, 0]

def rotated3DStabEdits (rotated : Bool) (loc : Coord) (t : String) : List Edit :=
  match loc with
  | [x, y, z] =>
    (if t == "face" then
      if !rotated then
        if z % 2 = 1 then [.param "normal" (JV.ints [0, 0, 1]), .param "angle" (JV.f .piDiv4)]
        else [.param "w" (JV.d 15 1), .param "angle" (JV.i 0), .param "normal" (diagNormal x y)]
      else
        if z % 2 = 1 then [.param "normal" (JV.ints [0, 0, 1]), .param "angle" (JV.i 0)]
        else [.param "angle" (JV.f .piDiv4), .param "normal" (diagNormal x y)]
     else []) ++
    (if rotated then [stretchedLocation x y z] else [])
  | _ => []

def rotatedPlanar3D (Lx Ly Lz : Nat) : ClassGeom :=
  { cls := "RotatedPlanar3DCode", lat := RotatedPlanar3DCode.lattice Lx Ly Lz,
    stabType := RotatedPlanar3DCode.stabilizerType Lx Ly Lz,
    qubitAxis := RotatedPlanar3DCode.qubitAxis Lx Ly Lz,
    deformation := fun name loc => RotatedPlanar3DCode.getDeformation Lx Ly Lz name "z" loc,
    stabEdits := rotated3DStabEdits, qubitEdits := rotated3DQubitEdits }

def rotatedToric3D (Lx Ly Lz : Nat) : ClassGeom :=
  { cls := "RotatedToric3DCode", lat := RotatedToric3DCode.lattice Lx Ly Lz,
    stabType := RotatedToric3DCode.stabilizerType Lx Ly Lz,
    qubitAxis := RotatedToric3DCode.qubitAxis Lx Ly Lz,
    deformation := fun name loc => RotatedToric3DCode.getDeformation Lx Ly Lz name none loc,
    stabEdits := rotated3DStabEdits, qubitEdits := rotated3DQubitEdits }

/-! ### rhombic codes

    triangle `(axis, x, y, z)`: location = [x, y, z];
        delta = delta_1 if (x + y + z) % 4 == 0 else delta_2
        dx, dy, dz = tuple(1. * np.array(delta[axis]))          (floats ±1.0)
        (boundary classes: some of dx, dy, dz are replaced by the int 0)
        params['vertices'] = [[dx, 0, 0], [0, dy, 0], [0, 0, dz]] -/

def delta1 : List (Int × Int × Int) := [(1, 1, 1), (-1, -1, 1), (1, -1, -1), (-1, 1, -1)]
def delta2 : List (Int × Int × Int) := [(1, 1, -1), (-1, -1, -1), (1, -1, 1), (-1, 1, 1)]

/-- `delta[axis]` (Python indexing: a negative axis counts from the end, out of range raises — not
    reached for stabilizer locations, whose axis is 0..3; the model returns `(0, 0, 0)` there) -/
def triangleDelta (axis x y z : Int) : Int × Int × Int :=
  (if (x + y + z) % 4 = 0 then delta1 else delta2).getD axis.toNat (0, 0, 0)

/-- a component of the triangle: the float `±1.0`, or the int `0` where the override zeroes it -/
def deltaJV (d : Int) (zeroed : Bool) : JV := if zeroed then JV.i 0 else JV.d (d * 10) 1

def triangleVertices (dx dy dz : JV) : JV :=
  .arr [.arr [dx, JV.i 0, JV.i 0], .arr [JV.i 0, dy, JV.i 0], .arr [JV.i 0, JV.i 0, dz]]

def rhombicToricStabEdits (_rotated : Bool) (loc : Coord) (t : String) : List Edit :=
  if t == "triangle" then
    match loc with
    | [axis, x, y, z] =>
      let d := triangleDelta axis x y z
      [.set "location" (JV.ints [x, y, z]),
       .param "vertices" (triangleVertices (deltaJV d.1 false) (deltaJV d.2.1 false) (deltaJV d.2.2 false))]
    | _ => []
  else []

def rhombicToric (Lx Ly Lz : Nat) : ClassGeom :=
  { cls := "RhombicToricCode", lat := RhombicToricCode.lattice Lx Ly Lz,
    stabType := RhombicToricCode.stabilizerType Lx Ly Lz, qubitAxis := RhombicToricCode.qubitAxis,
    deformation := RhombicToricCode.getDeformation,
    stabEdits := rhombicToricStabEdits, qubitEdits := noEdits }

/-- the boundary rectangle that replaces a truncated cube -/
def boundaryParams (rotated : Bool) (normal : List Int) : Dict :=
  [("w", JV.d 15 1), ("h", JV.d 15 1), ("normal", JV.ints normal),
   ("angle", if rotated then JV.f .piDiv4 else JV.i 0)]

/-- `RhombicPlanarCode.stabilizer_representation` -/
def rhombicPlanarStabEdits (Ly Lz : Nat) (rotated : Bool) (loc : Coord) (t : String) : List Edit :=
  if t == "cube" then
    match loc with
    | [x, y, z] =>
      if y = -1 ∨ y = 2 * (Ly : Int) - 1 ∨ z = -1 ∨ z = 2 * (Lz : Int) - 1 then
        [.set "object" (.str "rectangle")] ++
        (if y = -1 then
          [.newParams (boundaryParams rotated [0, 1, 0]), .set "location" (.arr [JV.i x, JV.f (.plus09 y), JV.i z])]
        else if y = 2 * (Ly : Int) - 1 then
          [.newParams (boundaryParams rotated [0, 1, 0]), .set "location" (.arr [JV.i x, JV.f (.minus09 y), JV.i z])]
        else if z = -1 then
          [.newParams (boundaryParams rotated [0, 0, 1]), .set "location" (.arr [JV.i x, JV.i y, JV.f (.plus09 z)])]
        else
          [.newParams (boundaryParams rotated [0, 0, 1]), .set "location" (.arr [JV.i x, JV.i y, JV.f (.minus09 z)])])
      else []
    | _ => []
  else if t == "triangle" then
    match loc with
    | [axis, x, y, z] =>
      let d := triangleDelta axis x y z
      let zy := (y = 0 ∧ d.2.1 = -1) ∨ (y = 2 * (Ly : Int) - 2 ∧ d.2.1 = 1)
      let zz := (z = 0 ∧ d.2.2 = -1) ∨ (z = 2 * (Lz : Int) - 2 ∧ d.2.2 = 1)
      [.set "location" (JV.ints [x, y, z]),
       .param "vertices" (triangleVertices (deltaJV d.1 false) (deltaJV d.2.1 zy) (deltaJV d.2.2 zz))]
    | _ => []
  else []

def rhombicPlanar (Lx Ly Lz : Nat) : ClassGeom :=
  { cls := "RhombicPlanarCode", lat := RhombicPlanarCode.lattice Lx Ly Lz,
    stabType := RhombicPlanarCode.stabilizerType Lx Ly Lz, qubitAxis := RhombicPlanarCode.qubitAxis,
    deformation := RhombicPlanarCode.getDeformation,
    stabEdits := rhombicPlanarStabEdits Ly Lz, qubitEdits := noEdits }

/-- `HollowRhombicCode.stabilizer_representation`; `w` = `len(self.get_stabilizer(location))`
    (the comparison `2 < y < 2*Lz-2` in the `z == 0` clause is transcribed as written) -/
def hollowRhombicStabEdits (Lx Ly Lz : Nat) (weight : Coord → Nat) (rotated : Bool) (loc : Coord)
    (t : String) : List Edit :=
  let X : Int := Lx
  let Y : Int := Ly
  let Z : Int := Lz
  if t == "cube" then
    match loc with
    | [x, y, z] =>
      if weight loc ≤ 4 then
        [.set "object" (.str "rectangle")] ++
        (if y = -1 ∨ y = 2 * Y - 5 then
          [.newParams (boundaryParams rotated [0, 1, 0]), .set "location" (.arr [JV.i x, JV.f (.plus09 y), JV.i z])]
        else if y = 3 ∨ y = 2 * Y - 1 then
          [.newParams (boundaryParams rotated [0, 1, 0]), .set "location" (.arr [JV.i x, JV.f (.minus09 y), JV.i z])]
        else if z = -1 ∨ z = 2 * Z - 5 then
          [.newParams (boundaryParams rotated [0, 0, 1]), .set "location" (.arr [JV.i x, JV.i y, JV.f (.plus09 z)])]
        else if z = 2 * Z - 1 ∨ z = 3 then
          [.newParams (boundaryParams rotated [0, 0, 1]), .set "location" (.arr [JV.i x, JV.i y, JV.f (.minus09 z)])]
        else if x = 3 then
          [.newParams (boundaryParams rotated [1, 0, 0]), .set "location" (.arr [JV.f (.minus09 x), JV.i y, JV.i z])]
        else if x = 2 * X - 3 then
          [.newParams (boundaryParams rotated [1, 0, 0]), .set "location" (.arr [JV.f (.plus09 x), JV.i y, JV.i z])]
        else [.newParams (boundaryParams rotated [0, 1, 0])])
      else []
    | _ => []
  else if t == "triangle" then
    match loc with
    | [axis, x, y, z] =>
      let d := triangleDelta axis x y z
      let small := decide (weight loc ≤ 2)
      let inX := decide (2 < x ∧ x < 2 * X - 2)
      let zy := small && inX && decide (0 < z ∧ z < 2 * Z - 2) && decide (y = 2 ∨ y = 2 * Y - 4)
      let zz := small &&
        (decide (z = 0) && (decide (d.2.2 = -1) || (inX && decide (2 < y ∧ y < 2 * Z - 2))) ||
         decide (z = 2 * Z - 2) && (decide (d.2.2 = 1) || (inX && decide (2 < y ∧ y < 2 * Y - 4))))
      let zx := small && decide (2 < y ∧ y < 2 * Y - 4) && decide (0 < z ∧ z < 2 * Z - 2) &&
        (decide (x = 2 ∧ d.1 = 1) || decide (x = 2 * X - 2 ∧ d.1 = -1))
      [.set "location" (JV.ints [x, y, z]),
       .param "vertices" (triangleVertices (deltaJV d.1 zx) (deltaJV d.2.1 zy) (deltaJV d.2.2 zz))]
    | _ => []
  else []

def hollowRhombic (Lx Ly Lz : Nat) : ClassGeom :=
  let lat := HollowRhombicCode.lattice Lx Ly Lz
  { cls := "HollowRhombicCode", lat := lat,
    stabType := fun loc => some (HollowRhombicCode.stabilizerType loc),
    qubitAxis := fun loc => (HollowRhombicCode.qubitAxis loc).map (·.toString),
    deformation := fun name loc => ofDeformResult (HollowRhombicCode.getDeformation name loc),
    stabEdits := hollowRhombicStabEdits Lx Ly Lz (fun loc => (lat.getStab loc).length),
    qubitEdits := noEdits }

/-! ### `XCubeCode`: face `(axis, x, y, z)`: location = [x, y, z]; axis 0 → normal [1, 0, 0];
    axis 1 → normal [0, 1, 0] -/

def xcubeStabEdits (_rotated : Bool) (loc : Coord) (t : String) : List Edit :=
  if t == "face" then
    match loc with
    | [axis, x, y, z] =>
      [.set "location" (JV.ints [x, y, z])] ++
      (if axis = 0 then [Edit.param "normal" (JV.ints [1, 0, 0])] else []) ++
      (if axis = 1 then [Edit.param "normal" (JV.ints [0, 1, 0])] else [])
    | _ => []
  else []

def xcube (Lx Ly Lz : Nat) : ClassGeom :=
  { cls := "XCubeCode", lat := XCubeCode.lattice Lx Ly Lz,
    stabType := XCubeCode.stabilizerType Lx Ly Lz, qubitAxis := XCubeCode.qubitAxis,
    deformation := fun name loc => XCubeCode.getDeformation name none loc,
    stabEdits := xcubeStabEdits, qubitEdits := noEdits }

/-! ### `Color3DCode`: normals of the square and hexagonal faces (`np.sqrt(2)/2` symbolic) -/

def color3DStabEdits (_rotated : Bool) (loc : Coord) (t : String) : List Edit :=
  match loc with
  | [x, y, z] =>
    if t == "face-square" then
      if x % 4 = z % 4 then [.param "normal" (JV.ints [0, 1, 0])]
      else if y % 4 = z % 4 then [.param "normal" (JV.ints [1, 0, 0])]
      else [.param "normal" (JV.ints [0, 0, 1])]
    else if t == "face-hex" then
      if x % 4 = z % 4 ∧ y % 4 = z % 4 then [.param "normal" (.arr [JV.i 1, JV.i 1, JV.f .sqrt2Div2])]
      else if x % 4 ≠ z % 4 ∧ y % 4 = z % 4 then [.param "normal" (.arr [JV.i 1, JV.i (-1), JV.f .negSqrt2Div2])]
      else if x % 4 = z % 4 ∧ y % 4 ≠ z % 4 then [.param "normal" (.arr [JV.i 1, JV.i (-1), JV.f .sqrt2Div2])]
      else [.param "normal" (.arr [JV.i 1, JV.i 1, JV.f .negSqrt2Div2])]
    else []
  | _ => []

def color3D (Lx Ly Lz : Nat) : ClassGeom :=
  { cls := "Color3DCode", lat := Color3DCode.lattice Lx Ly Lz,
    stabType := fun loc => (Color3DCode.stabilizerType Lx Ly Lz loc).map (·.toString),
    qubitAxis := Color3DCode.qubitAxis,
    deformation := fun name loc => ofDeformResult (Color3DCode.getDeformation name loc),
    stabEdits := color3DStabEdits, qubitEdits := noEdits }

/-! ### 2-D colour codes: location = (x, y) (the X/Z index is dropped) -/

/-- `'-x' in stabilizer_type(location)` -/
def isXType (t : String) : Bool := (t.splitOn "-x").length > 1

/-- `Color666ToricCode`: vertices scaled by `a = 0.5` for the X faces (`np.array(v) * 1` leaves the
    integers of the configuration unchanged) -/
def color666ToricStabEdits (_rotated : Bool) (loc : Coord) (t : String) : List Edit :=
  match loc with
  | [x, y, _] => [.set "location" (JV.ints [x, y])] ++ [Edit.scaleVertices (isXType t)]
  | _ => []

def color666Toric (Lx Ly : Nat) : ClassGeom :=
  { cls := "Color666ToricCode", lat := Color666ToricCode.lattice Lx Ly,
    stabType := Color666ToricCode.stabilizerType Lx Ly, qubitAxis := Color666ToricCode.qubitAxis,
    deformation := fun name loc => ofDeformResult (Color666ToricCode.getDeformation name loc),
    stabEdits := color666ToricStabEdits, qubitEdits := noEdits }

def pairs (l : List (Int × Int)) : JV := .arr (l.map fun p => JV.ints [p.1, p.2])

/-- `Color666PlanarCode`: three independent `if`s (a later one overwrites an earlier one) -/
def color666PlanarStabEdits (Lx : Nat) (_rotated : Bool) (loc : Coord) (_t : String) : List Edit :=
  match loc with
  | [x, y, _] =>
    [.set "location" (JV.ints [x, y])] ++
    (if y = 2 * x then [Edit.param "vertices" (pairs [(-1, -2), (1, -2), (2, 0), (1, 2)])] else []) ++
    (if y = 12 * (Lx : Int) - 2 * x then [Edit.param "vertices" (pairs [(-1, -2), (1, -2), (-1, 2), (-2, 0)])] else []) ++
    (if y = 0 then [Edit.param "vertices" (pairs [(2, 0), (1, 2), (-1, 2), (-2, 0)])] else [])
  | _ => []

def color666Planar (Lx Ly : Nat) : ClassGeom :=
  { cls := "Color666PlanarCode", lat := Color666PlanarCode.lattice Lx Ly,
    stabType := Color666PlanarCode.stabilizerType Lx Ly, qubitAxis := Color666PlanarCode.qubitAxis,
    deformation := fun name loc => ofDeformResult (Color666PlanarCode.getDeformation name loc),
    stabEdits := color666PlanarStabEdits Lx, qubitEdits := noEdits }

/-- a coordinate `c*a` of a `Color488Code` boundary polygon: `a = 1` gives the int `c`, `a = 0.5`
    the float `c/2`; the literal `0` entries of the source stay ints -/
def scaled (half : Bool) (c : Int) : JV := if half then .num (Num.int c).half else JV.i c

/-- a vertex list given as multiples of `a`; `none` = the literal int `0` of the source -/
def poly488 (half : Bool) (l : List (Option Int × Option Int)) : JV :=
  .arr (l.map fun p => .arr [match p.1 with | some c => scaled half c | none => JV.i 0,
                              match p.2 with | some c => scaled half c | none => JV.i 0])

/-- `Color488Code.stabilizer_representation` -/
def color488StabEdits (Lx Ly : Nat) (_rotated : Bool) (loc : Coord) (t : String) : List Edit :=
  let X : Int := 8 * (Lx : Int)
  let Y : Int := 8 * (Ly : Int)
  let h := isXType t
  let o : Option Int := none
  let s (c : Int) : Option Int := some c
  match loc with
  | [x, y, _] =>
    [.set "location" (JV.ints [x, y])] ++
    (if (t.splitOn "octahedron").length > 1 then
      if x = 0 then [Edit.param "vertices" (poly488 h [(o, s (-3)), (s 1, s (-3)), (s 3, s (-1)), (s 3, s 1), (s 1, s 3), (o, s 3)])]
      else if x = X then [Edit.param "vertices" (poly488 h [(o, s (-3)), (o, s 3), (s (-1), s 3), (s (-3), s 1), (s (-3), s (-1)), (s (-1), s (-3))])]
      else if y = 0 then [Edit.param "vertices" (poly488 h [(s 3, o), (s 3, s 1), (s 1, s 3), (s (-1), s 3), (s (-3), s 1), (s (-3), o)])]
      else if y = Y then [Edit.param "vertices" (poly488 h [(s 1, s (-3)), (s 3, s (-1)), (s 3, o), (s (-3), o), (s (-3), s (-1)), (s (-1), s (-3))])]
      else []
    else
      if x = 0 then
        if y = 0 then [Edit.param "vertices" (poly488 h [(o, o), (s 1, o), (s 1, s 1), (o, s 1)])]
        else if y = Y then [Edit.param "vertices" (poly488 h [(o, o), (s 1, o), (s 1, s (-1)), (o, s (-1))])]
        else [Edit.param "vertices" (poly488 h [(o, s 1), (s 1, s 1), (s 1, s (-1)), (o, s (-1))])]
      else if x = X then
        if y = 0 then [Edit.param "vertices" (poly488 h [(o, o), (o, s 1), (s (-1), s 1), (s (-1), o)])]
        else if y = Y then [Edit.param "vertices" (poly488 h [(o, o), (o, s (-1)), (s (-1), s (-1)), (s (-1), o)])]
        else [Edit.param "vertices" (poly488 h [(s (-1), s 1), (o, s 1), (o, s (-1)), (s (-1), s (-1))])]
      else if y = 0 then [Edit.param "vertices" (poly488 h [(s (-1), o), (s 1, o), (s 1, s 1), (s (-1), s 1)])]
      else if y = Y then [Edit.param "vertices" (poly488 h [(s (-1), o), (s 1, o), (s 1, s (-1)), (s (-1), s (-1))])]
      else [])
  | _ => []

def color488 (Lx Ly : Nat) : ClassGeom :=
  { cls := "Color488Code", lat := Color488Code.lattice Lx Ly,
    stabType := Color488Code.stabilizerType Lx Ly, qubitAxis := Color488Code.qubitAxis,
    deformation := fun name loc => ofDeformResult (Color488Code.getDeformation name loc),
    stabEdits := color488StabEdits Lx Ly, qubitEdits := noEdits }

/-- the class table of the driver: class name and size → geometry (`none`: unknown class or wrong
    number of sizes) -/
def geomOf (cls : String) (size : List Nat) : Option ClassGeom :=
  match cls, size with
  | "Toric2DCode", [a, b] => some (toric2D a b)
  | "Planar2DCode", [a, b] => some (planar2D a b)
  | "RotatedPlanar2DCode", [a, b] => some (rotatedPlanar2D a b)
  | "Color666ToricCode", [a, b] => some (color666Toric a b)
  | "Color666PlanarCode", [a, b] => some (color666Planar a b)
  | "Color488Code", [a, b] => some (color488 a b)
  | "Toric3DCode", [a, b, c] => some (toric3D a b c)
  | "Planar3DCode", [a, b, c] => some (planar3D a b c)
  | "HollowPlanar3DCode", [a, b, c] => some (hollowPlanar3D a b c)
  | "RotatedPlanar3DCode", [a, b, c] => some (rotatedPlanar3D a b c)
  | "RotatedToric3DCode", [a, b, c] => some (rotatedToric3D a b c)
  | "RhombicToricCode", [a, b, c] => some (rhombicToric a b c)
  | "RhombicPlanarCode", [a, b, c] => some (rhombicPlanar a b c)
  | "HollowRhombicCode", [a, b, c] => some (hollowRhombic a b c)
  | "XCubeCode", [a, b, c] => some (xcube a b c)
  | "Color3DCode", [a, b, c] => some (color3D a b c)
  | _, _ => none

end Panqec.GuiRepr
