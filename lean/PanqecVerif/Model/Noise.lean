/-
Model of the Pauli noise channel of panqec and of every place the library turns
it into numbers for somebody else:

* `panqec/error_models/_pauli_error_model.py`: `probability_distribution`
  (with the per-qubit deformation), `fast_choice`, `generate`;
* `panqec/error_models/_base_error_model.py`: `error_probability`, `get_weights`;
* `panqec/decoders/matching/_matching_decoder.py`: which weights go to which matcher;
* `panqec/decoders/belief_propagation/bposd_decoder.py`: channel priors handed to
  ldpc, `update_probabilities`, the `[z|x]` ordering of the non-CSS path;
* `panqec/simulation/_splitting_simulation.py`: proposal and acceptance ratio of
  `get_next_error`.

Everything is over core `Rat` (no Mathlib): the harness feeds dyadic inputs, for
which the implementation's float arithmetic is exact, and compares exactly.
`np.log` / `np.exp` are not modelled: weights are represented by the odds ratio
they are the `-log` of, log-probabilities by the vector whose `log` is summed.
-/
import PanqecVerif.Model.Code

namespace Panqec

/-! ### single-qubit distribution -/

/-- entry `i` of the four arrays `(p_i, p_x, p_y, p_z)` -/
structure Dist where
  i : Rat
  x : Rat
  y : Rat
  z : Rat
  deriving Repr, DecidableEq

def Dist.get (d : Dist) : Pauli → Rat
  | .I => d.i | .X => d.x | .Y => d.y | .Z => d.z

/-- the sum in the order `fast_choice` accumulates it -/
def Dist.total (d : Dist) : Rat := d.i + d.x + d.y + d.z

/-- `p['I'] = (1 - error_rate)`, `p['X'] = (r_x * error_rate)`, … before deformation -/
def baseDist (p rx ry rz : Rat) : Dist := ⟨1 - p, rx * p, ry * p, rz * p⟩

/-- `previous_p = {pauli: p[pauli][i] for pauli in ['X','Y','Z']}`: no key `'I'`
    (`none` = `KeyError`). -/
def Dist.prev (d : Dist) : Pauli → Option Rat
  | .I => none | .X => some d.x | .Y => some d.y | .Z => some d.z

/-- `for pauli in ['X','Y','Z']: p[pauli][i] = previous_p[deformation[pauli]]`:
    the *new* probability of `σ` is the *old* probability of `D σ`. -/
def deformDist (D : PauliMap) (d : Dist) : Option Dist :=
  match d.prev D.x, d.prev D.y, d.prev D.z with
  | some x, some y, some z => some ⟨d.i, x, y, z⟩
  | _, _, _ => none

/-- `probability_distribution(code, error_rate)`: `Ds = none` when the model has no
    deformation name (then `n` copies of the base distribution), otherwise the list of
    dicts `code.get_deformation(code.qubit_coordinates[i], name, **kwargs)`, `i < n`. -/
def probabilityDistribution (p rx ry rz : Rat) (n : Nat) (Ds : Option (List PauliMap)) :
    Option (List Dist) :=
  match Ds with
  | none => some (List.replicate n (baseDist p rx ry rz))
  | some Ds => Ds.mapM fun D => deformDist D (baseDist p rx ry rz)

/-! ### sampling -/

/-- the loop of `fast_choice`: `cum += p; if x < cum: return options[i]` -/
def fastChoiceGo (x : Rat) : Rat → List (Pauli × Rat) → Option Pauli
  | _, [] => none
  | cum, (o, p) :: rest => if x < cum + p then some o else fastChoiceGo x (cum + p) rest

/-- `fast_choice(('I','X','Y','Z'), [p_i, p_x, p_y, p_z])` for the variate `x`;
    falling out of the loop returns `options[-1]`. -/
def fastChoice (x : Rat) (d : Dist) : Pauli :=
  match fastChoiceGo x 0 [(.I, d.i), (.X, d.x), (.Y, d.y), (.Z, d.z)] with
  | some o => o
  | none => .Z

/-- the letters `generate` joins: qubit `i` uses the `i`-th variate drawn -/
def sampleLetters (ds : List Dist) (us : List Rat) : List Pauli :=
  List.zipWith (fun d u => fastChoice u d) ds us

/-- `generate(code, error_rate, rng)` given the values `rng.random()` returns -/
def generate (ds : List Dist) (us : List Rat) : List Nat :=
  pauliToBsf (sampleLetters ds us)

/-! ### probability of a given error -/

def ind (b : Bool) : Rat := if b then 1 else 0

/-- one entry of `prob_vector` (numpy truthiness: non-zero = True), in the order the
    four `+=` are executed -/
def probEntry (d : Dist) (x z : Nat) : Rat :=
  0 + d.y * ind (x != 0 && z != 0)
    + d.x * ind (x != 0 && !(z != 0))
    + d.z * ind (!(x != 0) && z != 0)
    + d.i * ind (!(x != 0) && !(z != 0))

/-- the same with the Y mask `error[:n] == error[n:]` the code had before the fix -/
def oldProbEntry (d : Dist) (x z : Nat) : Rat :=
  0 + d.y * ind (x == z)
    + d.x * ind (x != 0 && !(z != 0))
    + d.z * ind (!(x != 0) && z != 0)
    + d.i * ind (!(x != 0) && !(z != 0))

def entriesGo (f : Dist → Nat → Nat → Rat) : List Dist → List Nat → List Nat → List Rat
  | d :: ds, x :: xs, z :: zs => f d x z :: entriesGo f ds xs zs
  | _, _, _ => []

/-- `prob_vector`; `none` = the error does not have length `2n` (numpy shape error
    except for accidental broadcasts, which the model does not cover) -/
def probVectorWith (f : Dist → Nat → Nat → Rat) (ds : List Dist) (e : List Nat) :
    Option (List Rat) :=
  if e.length ≠ 2 * ds.length then none
  else some (entriesGo f ds (e.take ds.length) (e.drop ds.length))

def probVector := probVectorWith probEntry

def ratProd : List Rat → Rat
  | [] => 1
  | a :: as => a * ratProd as

def ratSum : List Rat → Rat
  | [] => 0
  | a :: as => a + ratSum as

/-- `error_probability(error, code, p, log_output=False)` = `np.prod(prob_vector)`;
    with `log_output=True` the code returns `np.sum(np.log(prob_vector))` of the same
    vector. -/
def errorProbability (ds : List Dist) (e : List Nat) : Option Rat :=
  (probVector ds e).map ratProd

def oldErrorProbability (ds : List Dist) (e : List Nat) : Option Rat :=
  (probVectorWith oldProbEntry ds e).map ratProd

/-! ### priors handed to decoders -/

/-- `total_p_x = px + py` -/
def Dist.xMarginal (d : Dist) : Rat := d.x + d.y
/-- `total_p_z = pz + py` -/
def Dist.zMarginal (d : Dist) : Rat := d.z + d.y

/-- the number whose `-log` is the matching weight, `P / (1 - P)`
    (`eps = 1e-20` taken as 0); `none` when `1 - P = 0` (weight `-log(1e20)`) -/
def odds (P : Rat) : Option Rat := if 1 - P = 0 then none else some (P / (1 - P))

/-- `get_weights`, as odds: `(weights_x, weights_z)` -/
def getWeightOdds (ds : List Dist) : List (Option Rat) × List (Option Rat) :=
  (ds.map fun d => odds d.xMarginal, ds.map fun d => odds d.zMarginal)

inductive Sector | Hx | Hz
  deriving Repr, DecidableEq

/-- `error_type` argument of `MatchingDecoder` -/
inductive ErrType | both | X | Z
  deriving Repr, DecidableEq

/-- what `MatchingDecoder.__init__` gives to `pymatching.Matching`, in call order:
    `Matching(Hz, spacelike_weights=wx)` then `Matching(Hx, spacelike_weights=wz)` -/
def matchingCalls (t : ErrType) (ds : List Dist) : List (Sector × List (Option Rat)) :=
  let w := getWeightOdds ds
  (if t = .both ∨ t = .X then [(Sector.Hz, w.1)] else []) ++
  (if t = .both ∨ t = .Z then [(Sector.Hx, w.2)] else [])

/-- value of one entry of `new_probs` (float division: `x/0 = inf`, `0/0 = nan`) -/
inductive UpdVal
  | val (q : Rat)
  | inf
  | neginf
  | nan
  deriving Repr, DecidableEq

def floatDiv (a b : Rat) : UpdVal :=
  if b = 0 then (if a = 0 then .nan else if 0 < a then .inf else .neginf) else .val (a / b)

/-- direction argument of `update_probabilities` -/
inductive UpdDir | zToX | xToZ
  deriving Repr, DecidableEq

/-- one iteration of the loop of `update_probabilities` -/
def updateEntry (dir : UpdDir) (c : Nat) (px py pz : Rat) : UpdVal :=
  match dir with
  | .zToX =>
    if c = 1 then (if pz + py ≠ 0 then .val (py / (pz + py)) else .val 0)
    else floatDiv px (1 - pz - py)
  | .xToZ =>
    if c = 1 then (if px + py ≠ 0 then .val (py / (px + py)) else .val 0)
    else floatDiv pz (1 - px - py)

/-- `update_probabilities(correction, px, py, pz, direction)`:
    `for i in range(correction.shape[0])` (shorter probability arrays would raise
    `IndexError`: `none`) -/
def updateProbabilities (dir : UpdDir) : List Nat → List Rat → List Rat → List Rat →
    Option (List UpdVal)
  | [], _, _, _ => some []
  | c :: cs, px :: pxs, py :: pys, pz :: pzs =>
    (updateProbabilities dir cs pxs pys pzs).map (updateEntry dir c px py pz :: ·)
  | _ :: _, _, _, _ => none

/-- which ldpc decoder object -/
inductive BpDec | x | z | joint
  deriving Repr, DecidableEq

/-- a call observed at the ldpc boundary -/
inductive BpCall
  | update (dec : BpDec) (probs : List UpdVal)
  | decode (dec : BpDec)
  deriving Repr, DecidableEq

def ratVals (l : List Rat) : List UpdVal := l.map UpdVal.val

/-- `BeliefPropagationOSDDecoder.decode` on a CSS code, as the sequence of calls made on
    the two ldpc decoders; `zCorr` is what `z_decoder.decode` returns, `xCorr` what
    `x_decoder.decode` returns.  Result: calls and the returned correction. -/
def bposdCss (channelUpdate : Bool) (ds : List Dist) (zCorr xCorr : List Nat) :
    Option (List BpCall × List Nat) :=
  let px := ds.map (·.x)
  let py := ds.map (·.y)
  let pz := ds.map (·.z)
  let probsX := ds.map Dist.xMarginal
  let probsZ := ds.map Dist.zMarginal
  let first := [BpCall.update .x (ratVals probsX), .update .z (ratVals probsZ), .decode .z]
  let last := [BpCall.decode .x]
  if channelUpdate then
    match updateProbabilities .zToX zCorr px py pz with
    | none => none
    | some np => some (first ++ [.update .x np] ++ last, xCorr ++ zCorr)
  else some (first ++ last, xCorr ++ zCorr)

/-- non-CSS path: one decoder on the full stabilizer matrix (columns `[X | Z]`), priors
    `hstack([probabilities_z, probabilities_x])`, result re-ordered to
    `[correction[n:], correction[:n]]`. -/
def bposdNonCss (ds : List Dist) (corr : List Nat) : List BpCall × List Nat :=
  let n := ds.length
  ([.update .joint (ratVals (ds.map Dist.zMarginal ++ ds.map Dist.xMarginal)), .decode .joint],
   corr.drop n ++ corr.take n)

/-! ### splitting method: proposal and acceptance -/

def setAdd (v : List Nat) (k : Nat) : List Nat :=
  (List.range v.length).zipWith (fun j a => if j = k then a + 1 else a) v

/-- `new_error = (previous_error + new_edge) % 2` for the drawn qubit and letter -/
def proposeError (n : Nat) (prev : List Nat) (idx : Nat) (σ : Pauli) : List Nat :=
  let e1 := if σ = .X ∨ σ = .Y then setAdd prev idx else prev
  let e2 := if σ = .Z ∨ σ = .Y then setAdd e1 (n + idx) else e1
  e2.map (· % 2)

/-- the letters the proposal may draw on a qubit: those of non-zero probability -/
def proposalLetters (d : Dist) : List Pauli :=
  (if d.x ≠ 0 then [.X] else []) ++ (if d.y ≠ 0 then [.Y] else []) ++
  (if d.z ≠ 0 then [.Z] else [])

/-- `q = exp(min(0, log p_new - log p_prev))` as a rational:
    `min(1, p_new / p_prev)` (for `p_prev ≠ 0`) -/
def acceptRatio (pPrev pNew : Rat) : Rat :=
  let r := pNew / pPrev
  if r ≤ 1 then r else 1

/-- `get_next_error` up to the Metropolis coin: proposed error and acceptance
    probability -/
def splittingStep (ds : List Dist) (prev : List Nat) (idx : Nat) (σ : Pauli) :
    Option (List Nat × Rat) :=
  let new := proposeError ds.length prev idx σ
  match errorProbability ds prev, errorProbability ds new with
  | some a, some b => some (new, acceptRatio a b)
  | _, _ => none

/-! ### specification-side definitions (used by the theorems, not by the driver) -/

/-- the stated channel on one qubit is a probability distribution -/
def Dist.Valid (d : Dist) : Prop :=
  0 ≤ d.i ∧ 0 ≤ d.x ∧ 0 ≤ d.y ∧ 0 ≤ d.z ∧ d.total = 1

/-- the distribution whose `σ` entry is the `D σ` entry of `d` -/
def permDist (D : PauliMap) (d : Dist) : Dist := ⟨d.i, d.get D.x, d.get D.y, d.get D.z⟩

/-- left end of the interval of variates mapped to `σ` -/
def Dist.lo (d : Dist) : Pauli → Rat
  | .I => 0 | .X => d.i | .Y => d.i + d.x | .Z => d.i + d.x + d.y

/-- right end (excluded) -/
def Dist.hi (d : Dist) (σ : Pauli) : Rat := d.lo σ + d.get σ

/-- `P(x-bit = a ∧ z-bit = b)` on one qubit -/
def Dist.joint (d : Dist) (a b : Nat) : Rat := d.get (Pauli.ofBits a b)

/-- probability of a Pauli string under independent qubits -/
def stringProb (ds : List Dist) (s : List Pauli) : Rat := ratProd (List.zipWith Dist.get ds s)

/-- all `4^n` Pauli strings on `n` qubits -/
def allPaulis : Nat → List (List Pauli)
  | 0 => [[]]
  | n + 1 => [Pauli.I, .X, .Y, .Z].flatMap fun σ => (allPaulis n).map (σ :: ·)

/-- the variates `us` lie in the product of the intervals of the letters of `s` -/
def inBox : List Dist → List Pauli → List Rat → Prop
  | [], [], [] => True
  | d :: ds, σ :: s, u :: us => (d.lo σ ≤ u ∧ u < d.hi σ) ∧ inBox ds s us
  | _, _, _ => False

/-- Lebesgue measure of that box -/
def boxVolume (ds : List Dist) (s : List Pauli) : Rat :=
  ratProd (List.zipWith (fun d σ => d.hi σ - d.lo σ) ds s)

/-- product of two Pauli letters up to phase -/
def Pauli.mul (a b : Pauli) : Pauli := Pauli.ofBits (a.xBit + b.xBit) (a.zBit + b.zBit)

end Panqec
