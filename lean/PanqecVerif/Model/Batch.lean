/-
Model of the save / load / crash / restart protocol of `BatchSimulation`
(panqec/simulation/_batch_simulation.py, _base_simulation.py, _direct_simulation.py,
panqec/utils.py `load_json` / `save_json`).  Used by property C12.

What is transcribed (same guards, same order):

* `save_json(data, file)`  (atomic protocol of the current tree):
    open `<file>.tmp` for writing (create / truncate)  → write … → close → `os.replace(tmp, file)`.
  The old in-place protocol (truncate the real file, then write) is the same machine with
  `atomic := false`; it is kept as a documented regression example.
* `BatchSimulation._update_file`: `if not os.path.isfile(file): save_file()` (a first complete
  `save_json`), then `save_json(new_data, file)`.
* `BatchSimulation.save_results`: `_save_results()`; on `KeyboardInterrupt` a second complete
  `_save_results()` followed by `raise KeyboardInterrupt`.
* `BatchSimulation._run`: `load_results`; `min` of `n_results` (raises on an empty list);
  `for i_trial in range(min, n_trials)`: every simulation with `n_results < n_trials` runs one
  trial; `if i_trial > 0 and i_trial % save_frequency == 0: save_results()`;
  `if i_trial == n_trials - 1: save_results()`.
* `BatchSimulation.run`: `KeyboardInterrupt` is caught, nothing is saved.
* `BaseSimulation.load_results`: `isfile` → `load_json` → first record with
  `record['inputs'] == self._inputs` → results copied; `JSONDecodeError` → start from scratch;
  any other exception (a torn gzip stream: `EOFError` / `BadGzipFile`) propagates.
* `DirectSimulation._run(1)`: append the shot to `effective_error`, `success`, `codespace`,
  then `n_runs += 1`.

Abstractions: the identity of a simulation (its `_inputs` dict) is a natural number, equal
numbers = equal dicts; a trial is a unique identifier taken from a global counter (the three
result lists of a simulation hold the identifier of the trial that produced the entry);
file contents are `absent | empty | torn | complete doc`.
-/

namespace Panqec.Batch

abbrev Tid := Nat

/-- in-memory results of one simulation = one record of the results file -/
structure Sim where
  inputs : Nat
  nRuns : Nat
  ee : List Tid
  su : List Tid
  cs : List Tid
deriving DecidableEq, Repr

abbrev Doc := List Sim

inductive FileSt where
  | absent
  | empty
  | torn
  | complete (d : Doc)
deriving DecidableEq, Repr

inductive Fmt where
  | json
  | gz
deriving DecidableEq, Repr

structure Disk where
  file : FileSt
  tmp : FileSt
deriving DecidableEq, Repr

inductive RunErr where
  | eof        -- EOFError / BadGzipFile raised by load_json on a torn gzip stream
  | emptySpec  -- ValueError: min() of an empty list
  | zeroDiv    -- ZeroDivisionError: i_trial % 0
deriving DecidableEq, Repr

/-- what `BaseSimulation.load_results` sees: `none` = no file, or `JSONDecodeError`
    (caught: "Starting this from scratch"); `error` = an exception that propagates. -/
def readFile (fmt : Fmt) : FileSt → Except RunErr (Option Doc)
  | .absent => .ok none
  | .empty => .ok none
  | .torn => match fmt with
    | .json => .ok none
    | .gz => .error .eof
  | .complete d => .ok (some d)

def fresh (x : Nat) : Sim := ⟨x, 0, [], [], []⟩

/-- `_find_current_simulation`: first record whose inputs are equal -/
def findRec (d : Doc) (x : Nat) : Option Sim := d.find? (fun r => r.inputs == x)

/-- `load_results` of one simulation -/
def loadSim (od : Option Doc) (x : Nat) : Sim :=
  match od with
  | none => fresh x
  | some d => match findRec d x with
    | none => fresh x
    | some r => ⟨x, r.nRuns, r.ee, r.su, r.cs⟩

/-- `min([simulation.n_results for …])` on a non-empty list -/
def minRuns : List Sim → Nat
  | [] => 0
  | [s] => s.nRuns
  | s :: t => min s.nRuns (minRuns t)

/-- `DirectSimulation._run(1)` with trial identifier `id` -/
def Sim.runOne (s : Sim) (id : Tid) : Sim :=
  ⟨s.inputs, s.nRuns + 1, s.ee ++ [id], s.su ++ [id], s.cs ++ [id]⟩

/-- next micro-operation of one `save_json` call -/
inductive Wr where
  | create    -- open(tmp, 'w'): create / truncate
  | part      -- some but not all bytes reach the disk
  | full      -- all bytes written, file closed
  | rename    -- os.replace(tmp, file)
deriving DecidableEq, Repr

inductive SavePh where
  | chk                 -- `if not os.path.isfile(file)`
  | first (w : Wr)      -- inside `save_file()`'s save_json
  | second (w : Wr)     -- inside the final save_json of `_update_file`
deriving DecidableEq, Repr

inductive Pc where
  | trial (i : Nat)
  | save (i : Nat) (more : Nat) (retry : Bool) (ph : SavePh)
  | done
  | paused            -- KeyboardInterrupt caught by `run`: "Simulation paused"
  | failed (e : RunErr)
  | killed            -- no process
deriving DecidableEq, Repr

structure Proc where
  spec : List Nat
  n : Nat
  sf : Nat
  pc : Pc
  front : List Sim    -- simulations already visited in the current iteration
  back : List Sim     -- simulations still to visit (all of them outside `trial`)
deriving DecidableEq, Repr

def Proc.mem (p : Proc) : List Sim := p.front ++ p.back

structure World where
  fmt : Fmt
  atomic : Bool
  disk : Disk
  next : Tid
  proc : Proc
deriving DecidableEq, Repr

def noProc : Proc := ⟨[], 0, 1, .killed, [], []⟩

def World.init (fmt : Fmt) (atomic : Bool) : World :=
  ⟨fmt, atomic, ⟨.absent, .absent⟩, 0, noProc⟩

def Pc.terminal : Pc → Bool
  | .trial _ => false
  | .save .. => false
  | _ => true

/-- one micro-operation of `save_json(mem, file)`; `none` = the call has returned -/
def writeStep (atomic : Bool) (mem : Doc) (dk : Disk) : Wr → Disk × Option Wr
  | .create =>
    if atomic then ({ dk with tmp := .empty }, some .part)
    else ({ dk with file := .empty }, some .part)
  | .part =>
    if atomic then ({ dk with tmp := .torn }, some .full)
    else ({ dk with file := .torn }, some .full)
  | .full =>
    if atomic then ({ dk with tmp := .complete mem }, some .rename)
    else ({ dk with file := .complete mem }, none)
  | .rename => (⟨dk.tmp, .absent⟩, none)

/-- continuation after iteration `i` of the trial loop -/
def afterIter (n i : Nat) : Pc := if i + 1 < n then .trial (i + 1) else .done

/-- continuation after one `save_results()` call has returned -/
def afterSave (n i more : Nat) (retry : Bool) : Pc :=
  if retry then .paused
  else if more > 0 then .save i (more - 1) false .chk
  else afterIter n i

/-- number of `save_results()` calls at the end of iteration `i` -/
def savesDue (n sf i : Nat) : Nat :=
  (if i > 0 ∧ i % sf = 0 then 1 else 0) + (if i = n - 1 then 1 else 0)

/-- one step of the running process -/
def step (w : World) : World :=
  let p := w.proc
  match p.pc with
  | .trial i =>
    match p.back with
    | s :: rest =>
      if s.nRuns < p.n then
        { w with next := w.next + 1,
                 proc := { p with front := p.front ++ [s.runOne w.next], back := rest } }
      else
        { w with proc := { p with front := p.front ++ [s], back := rest } }
    | [] =>
      -- end of the iteration: save conditions
      if i > 0 ∧ p.sf = 0 then
        { w with proc := { p with pc := .failed .zeroDiv, front := [], back := p.front } }
      else
        let k := savesDue p.n p.sf i
        let pc' := if k = 0 then afterIter p.n i else .save i (k - 1) false .chk
        { w with proc := { p with pc := pc', front := [], back := p.front } }
  | .save i more retry ph =>
    match ph with
    | .chk =>
      let ph' := if w.disk.file = .absent then SavePh.first .create else SavePh.second .create
      { w with proc := { p with pc := .save i more retry ph' } }
    | .first wr =>
      match writeStep w.atomic p.mem w.disk wr with
      | (dk, some wr') => { w with disk := dk, proc := { p with pc := .save i more retry (.first wr') } }
      | (dk, none) => { w with disk := dk, proc := { p with pc := .save i more retry (.second .create) } }
    | .second wr =>
      match writeStep w.atomic p.mem w.disk wr with
      | (dk, some wr') => { w with disk := dk, proc := { p with pc := .save i more retry (.second wr') } }
      | (dk, none) => { w with disk := dk, proc := { p with pc := afterSave p.n i more retry } }
  | _ => w

/-- a new process: `read_input_dict(spec)`, `run(n)` up to the start of the loop -/
def startProc (w : World) (spec : List Nat) (n sf : Nat) : World :=
  if spec = [] then
    { w with proc := ⟨spec, n, sf, .failed .emptySpec, [], []⟩ }
  else
    match readFile w.fmt w.disk.file with
    | .error e => { w with proc := ⟨spec, n, sf, .failed e, [], []⟩ }
    | .ok od =>
      let mem := spec.map (loadSim od)
      let i0 := minRuns mem
      { w with proc := ⟨spec, n, sf, if i0 < n then .trial i0 else .done, [], mem⟩ }

/-- KeyboardInterrupt delivered at the current point -/
def kbint (w : World) : World :=
  let p := w.proc
  match p.pc with
  | .trial _ => { w with proc := { p with pc := .paused } }
  | .save i more false _ => { w with proc := { p with pc := .save i more true .chk } }
  | .save _ _ true _ => { w with proc := { p with pc := .paused } }
  | _ => w

/-- the process is killed (nothing else happens; the disk keeps its state) -/
def crash (w : World) : World := { w with proc := { w.proc with pc := .killed } }

inductive Ev where
  | start (spec : List Nat) (n sf : Nat)   -- (kills a running process and) starts a new one
  | step
  | kbint
  | crash
  | put (f : FileSt)                       -- the results file is changed from outside (tests only)
deriving Repr

def apply (w : World) : Ev → World
  | .start spec n sf => startProc w spec n sf
  | .step => step w
  | .kbint => kbint w
  | .crash => crash w
  | .put f => { w with disk := { w.disk with file := f } }

def runEvs (w : World) (evs : List Ev) : World := evs.foldl apply w

/-! ### helpers for the driver (not used in theorems) -/

/-- is the next step one of the counted hook operations (a trial that really runs,
    the opening of the file to write, the rename)? -/
def nextIsHook (w : World) : Bool :=
  match w.proc.pc with
  | .trial _ =>
    match w.proc.back with
    | s :: _ => s.nRuns < w.proc.n
    | [] => false
  | .save _ _ _ (.first .create) => true
  | .save _ _ _ (.second .create) => true
  | .save _ _ _ (.first .rename) => true
  | .save _ _ _ (.second .rename) => true
  | _ => false

/-- run until just before hook operation number `k` (0-based) counted from `cnt`,
    or until the process has ended -/
def advance (fuel : Nat) (k cnt : Nat) (w : World) : World × Nat :=
  match fuel with
  | 0 => (w, cnt)
  | fuel + 1 =>
    if w.proc.pc.terminal then (w, cnt)
    else if nextIsHook w then
      if cnt = k then (w, cnt) else advance fuel k (cnt + 1) (step w)
    else advance fuel k cnt (step w)

def runToEnd (fuel : Nat) (w : World) : World :=
  match fuel with
  | 0 => w
  | fuel + 1 => if w.proc.pc.terminal then w else runToEnd fuel (step w)

end Panqec.Batch
