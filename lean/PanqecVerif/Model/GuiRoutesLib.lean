/-
The library behind the routes of `Model/GuiRoutes.lean`, instantiated with the models that exist:

* codes: the hand-written all-sizes lattice models through `GuiRepr.geomOf` (the same objects the
  `/code-data` model and the C01 / C17 theorems speak about); `deform(name)` only records the name
  (as the Python does: `get_deformation` is called when the stabilizers are next computed);
* noise: `PauliErrorModel(r_x, r_y, r_z, deformation_name)` with `probability_distribution` and
  `generate` of `Model/Noise.lean` (C07), the per-qubit dicts being
  `code.get_deformation(code.qubit_coordinates[i], deformation_name)` of the lattice model with the
  default keyword arguments; the values `rng.random()` returns are a parameter (`us`);
* decoders: the constructor call is recorded (`DecCtor`), `decode` is a parameter (`run`): the models
  of the individual decoders (C05, C10) are not plugged in here.

`recLib`: a library that only records (used by the driver to print what the route constructs, with
a planted `code.n`, correction and error vector).  No Mathlib.
-/
import PanqecVerif.Model.GuiRoutes
import PanqecVerif.Model.GuiReprClasses
import PanqecVerif.Model.Noise

namespace Panqec.GuiRoutes
open Panqec.Gui Panqec.GuiRepr

/-- a code object: the class at one size and the argument of the last `deform` -/
structure MCode where
  geom : ClassGeom
  deformation : Option String

/-- a `PauliErrorModel` object -/
structure MEM where
  dir : Dir
  deformation : Option String

/-- a decoder constructor call `Class(code, error_model, p, **kwargs)` -/
structure DecCtor (Code EM : Type) where
  cls : String
  code : Code
  em : EM
  p : JV
  kwargs : List (String × JV)

/-- a JSON number as the exact rational it denotes -/
def ratOf : JV → Option Rat
  | .num (.int i) => some i
  | .num (.dec m e) => some (mkRat m (10 ^ e))
  | _ => none

/-- positional sizes: natural numbers only (anything else is outside the lattice models) -/
def sizesOf (args : List JV) : Option (List Nat) :=
  args.mapM fun
    | .num (.int i) => if 0 ≤ i then some i.toNat else none
    | _ => none

/-- `codes[code_name](*args)` on the lattice models -/
def newMCode (cls : String) (args : List JV) : Except String MCode :=
  match sizesOf args with
  | none => .error "unsupported"
  | some size =>
    match geomOf cls size with
    | some g => .ok ⟨g, none⟩
    | none => .error "unsupported"

/-- the per-qubit dicts `probability_distribution` asks the code for (`none`: no deformation name;
    error: `get_deformation` raises on some qubit) -/
def noiseMaps (g : ClassGeom) : Option String → Except String (Option (List PauliMap))
  | none => .ok none
  | some name =>
    match g.lat.qubits.mapM (g.deformation name) with
    | some Ds => .ok (some Ds)
    | none => .error "ValueError"

/-- `error_model.generate(code, p)` for the variates `us` -/
def generateM (us : List Rat) (em : MEM) (c : MCode) (p : JV) : Except String (List Int) :=
  match ratOf p with
  | none => .error "TypeError"
  | some p =>
    match noiseMaps c.geom em.deformation with
    | .error e => .error e
    | .ok Ds =>
      match probabilityDistribution p em.dir.1 em.dir.2.1 em.dir.2.2 c.geom.lat.qubits.length Ds with
      | none => .error "KeyError"
      | some ds => .ok ((generate ds us).map Int.ofNat)

/-- the library of the models: `us` = the values `rng.random()` returns, `run` = the decoders -/
def modelLib (us : List Rat) (run : DecCtor MCode MEM → JV → Except String (List Int)) :
    Library MCode MEM (DecCtor MCode MEM) where
  newCode := newMCode
  deform := fun c v =>
    match v with
    | .str s => .ok { c with deformation := some s }
    | _ => .error "unsupported"
  n := fun c => c.geom.lat.qubits.length
  newErrorModel := fun dir nd =>
    if dir.1 + dir.2.1 + dir.2.2 ≠ 1 then .error "ValueError"
    else match nd with
      | .null => .ok ⟨dir, none⟩
      | .str s => .ok ⟨dir, some s⟩
      | _ => .error "unsupported"
  newDecoder := fun cls c em p kw => .ok ⟨cls, c, em, p, kw⟩
  decode := run
  generate := generateM us

/-- a code object of the recording library -/
structure RecCode where
  cls : String
  args : List JV
  deforms : List JV

/-- a library that records the calls: `code.n`, the correction and the error vector are planted -/
def recLib (n : Nat) (correction errors : List Int) :
    Library RecCode (Dir × JV) (DecCtor RecCode (Dir × JV)) where
  newCode := fun cls args => .ok ⟨cls, args, []⟩
  deform := fun c v => .ok { c with deforms := c.deforms ++ [v] }
  n := fun _ => n
  newErrorModel := fun dir nd => .ok (dir, nd)
  newDecoder := fun cls c em p kw => .ok ⟨cls, c, em, p, kw⟩
  decode := fun _ _ => .ok correction
  generate := fun _ _ _ => .ok errors

end Panqec.GuiRoutes
