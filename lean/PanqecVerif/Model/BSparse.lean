/-
Model of `panqec/bsparse.py` (the public binary-sparse helper module), all 14 functions.

Executable, total, no Mathlib.  A scipy `csr_matrix` is modelled by what the functions of the
module can observe of it:

* its shape (`rows.length` × `ncols`),
* its dtype (`uint8`, a wide integer type, `bool`),
* per row the STORED entries `(column, value)` in STORAGE order — unsorted column indices,
  duplicate column indices and explicitly stored zeros are all representable, because
  `is_one`, `insert_mod2`, `hsplit`, `dot`, `equal(0, ·)` read `.indices` / `.data` / `.nnz`
  directly and therefore see them.

Where the real code raises, the model returns the class of the Python exception.

Not modelled (documented restrictions of the correspondence streams): negative column indices
or negative data values, float data, csr blocks with zero width or zero height mixed with dense
blocks in `vstack`/`hstack` (scipy's `brow_lengths[i] == 0` quirk), a bare Python `int` as a block
of a stack, and `toarray()` of a row whose `insert_mod2` index was out of range (the C++ routine
writes out of bounds there).
-/
namespace Panqec.BSp

/-- numpy dtypes that matter: `uint8`, wide integers (`int64`), `bool`. -/
inductive DT | u8 | i64 | bool
  deriving Repr, DecidableEq

/-- class of the Python exception raised -/
inductive PyErr | valueError | typeError | indexError | attributeError
  deriving Repr, DecidableEq

/-- stored entry: (column index, stored value) -/
abbrev Entry := Nat × Nat

/-- what the module can observe of a `csr_matrix` -/
structure Csr where
  ncols : Nat
  dt : DT
  rows : List (List Entry)
  deriving Repr, DecidableEq

def Csr.nrows (m : Csr) : Nat := m.rows.length

/-- `.indices` of the whole matrix (all rows, storage order) -/
def Csr.indices (m : Csr) : List Nat := m.rows.flatten.map (·.1)

/-- `.data` of the whole matrix -/
def Csr.data (m : Csr) : List Nat := m.rows.flatten.map (·.2)

/-- an argument of a `bsparse` function: csr, 1-D / 2-D ndarray, list, list of lists, int -/
inductive Arg
  | csr (m : Csr)
  | arr1 (dt : DT) (v : List Nat)
  | arr2 (dt : DT) (ncols : Nat) (rows : List (List Nat))
  | list1 (v : List Nat)
  | list2 (ncols : Nat) (rows : List (List Nat))
  | int (k : Int)
  deriving Repr, DecidableEq

/-! ### dtype arithmetic -/

/-- numpy `astype` of a non-negative integer -/
def castVal : DT → Nat → Nat
  | .u8, v => v % 256
  | .i64, v => v
  | .bool, v => if v = 0 then 0 else 1

/-- a sum of already cast values, reduced in the dtype (`uint8` wraps, `bool` is OR) -/
def reduceIn : DT → Nat → Nat
  | .u8, s => s % 256
  | .i64, s => s
  | .bool, s => if s = 0 then 0 else 1

/-- numpy type promotion of `np.concatenate` / of the sparse binary operators -/
def DT.promote : DT → DT → DT
  | .i64, _ => .i64
  | _, .i64 => .i64
  | .u8, _ => .u8
  | _, .u8 => .u8
  | .bool, .bool => .bool

/-- sum of the stored values of a row at column `c` -/
def colSum (c : Nat) (r : List Entry) : Nat :=
  ((r.filter fun e => e.1 == c).map (·.2)).sum

def castRow (t : DT) (r : List Entry) : List Entry := r.map fun e => (e.1, castVal t e.2)

/-- dense value of column `c` of a stored row in dtype `t`: cast every entry, sum duplicates in `t` -/
def denseVal (t : DT) (r : List Entry) (c : Nat) : Nat := reduceIn t (colSum c (castRow t r))

/-- `toarray()` of one row (entries with an out-of-range column are ignored) -/
def denseRow (t : DT) (n : Nat) (r : List Entry) : List Nat := (List.range n).map (denseVal t r)

/-! ### sorted-unique lists (`np.setdiff1d`, `np.intersect1d`, `sum_duplicates`) -/

/-- insert into an ascending duplicate-free list -/
def insSorted (c : Nat) : List Nat → List Nat
  | [] => [c]
  | x :: xs => if c < x then c :: x :: xs else if c = x then x :: xs else x :: insSorted c xs

/-- `np.unique`: ascending, duplicate free -/
def sortUniq (l : List Nat) : List Nat := l.foldr insSorted []

/-- scipy `sum_duplicates()` on one `uint8` row: columns ascending, one entry per distinct column
    holding the sum modulo 256 (explicit zeros and sums that wrap to zero stay stored). -/
def canonRow (r : List Entry) : List Entry :=
  (sortUniq (r.map (·.1))).map fun c => (c, colSum c r % 256)

/-- `len(np.intersect1d(a, b))` -/
def nCommon (a b : List Nat) : Nat := ((sortUniq a).filter fun c => decide (c ∈ b)).length

/-! ### constructors -/

/-- `zero_row(n_cols)` -/
def zeroRow (n : Int) : Except PyErr Csr :=
  if n < 0 then .error .valueError else .ok ⟨n.toNat, .u8, [[]]⟩

/-- `zero_matrix(shape)` (shape given as a tuple) -/
def zeroMatrix (shape : List Int) : Except PyErr Csr :=
  match shape with
  | [r, c] => if r < 0 ∨ c < 0 then .error .valueError
              else .ok ⟨c.toNat, .u8, List.replicate r.toNat []⟩
  | [] => .error .typeError
  | _ => .error .valueError

/-- `empty_row(n_cols)`: a matrix with no row -/
def emptyRow (n : Int) : Except PyErr Csr :=
  if n < 0 then .error .valueError else .ok ⟨n.toNat, .u8, []⟩

/-- nonzero entries of a dense row starting at column `c`, cast to `uint8` AFTER the nonzero test
    (so `256` becomes a stored zero) -/
def fromDenseRowAux : Nat → List Nat → List Entry
  | _, [] => []
  | c, v :: vs => if v = 0 then fromDenseRowAux (c + 1) vs
                  else (c, v % 256) :: fromDenseRowAux (c + 1) vs

def fromDenseRow (r : List Nat) : List Entry := fromDenseRowAux 0 r

/-- `from_array(array)` -/
def fromArray : Arg → Except PyErr Csr
  | .csr m => .ok ⟨m.ncols, .u8, m.rows.map (castRow .u8)⟩
  | .arr1 _ v => .ok ⟨v.length, .u8, [fromDenseRow v]⟩
  | .list1 v => .ok ⟨v.length, .u8, [fromDenseRow v]⟩
  | .arr2 _ nc rows => .ok ⟨nc, .u8, rows.map fromDenseRow⟩
  | .list2 nc rows => .ok ⟨nc, .u8, rows.map fromDenseRow⟩
  | .int k => .ok ⟨1, .u8, [if k = 0 then [] else [(0, (k % 256).toNat)]]⟩

/-- `to_array(matrix)` -/
def toArray : Arg → Except PyErr Arg
  | .arr1 dt v => .ok (.arr1 dt v)
  | .arr2 dt nc rows => .ok (.arr2 dt nc rows)
  | .csr m => .ok (.arr2 m.dt m.ncols (m.rows.map (denseRow m.dt m.ncols)))
  | _ => .error .attributeError

/-- `is_empty(matrix)`: `matrix.shape[0] == 0` -/
def isEmpty : Arg → Except PyErr Bool
  | .csr m => .ok (m.rows.length == 0)
  | .arr1 _ v => .ok (v.length == 0)
  | .arr2 _ _ rows => .ok (rows.length == 0)
  | _ => .error .attributeError

/-- `is_sparse(matrix)` -/
def isSparse : Arg → Bool
  | .csr _ => true
  | _ => false

/-- `is_one(index, row_matrix)`: `index in row_matrix.indices` — the stored column indices of the
    WHOLE matrix, whatever the stored values -/
def isOne (index : Nat) : Arg → Except PyErr Bool
  | .csr m => .ok (decide (index ∈ m.indices))
  | _ => .error .attributeError

/-- `insert_mod2(index, row_matrix)`: the matrix after the in-place update -/
def insertMod2 (index : Nat) : Arg → Except PyErr Csr
  | .csr m =>
    if m.rows.length ≠ 1 then .error .valueError
    else
      let cols := m.indices
      let cols' := if index ∈ cols then sortUniq (cols.filter (· ≠ index)) else cols ++ [index]
      .ok ⟨m.ncols, .u8, [cols'.map fun c => (c, 1)]⟩
  | .arr1 _ _ => .error .valueError
  | .arr2 _ _ rows => if rows.length ≠ 1 then .error .valueError else .error .attributeError
  | _ => .error .attributeError

/-! ### stacking -/

def Arg.isCsr : Arg → Bool
  | .csr _ => true
  | _ => false

/-- a block as scipy's general (coo) stacking path sees it: width and `uint8` rows -/
def blockU8 : Arg → Option (Nat × List (List Entry))
  | .csr m => some (m.ncols, m.rows.map (castRow .u8))
  | .arr1 _ v => some (v.length, [fromDenseRow v])
  | .list1 v => some (v.length, [fromDenseRow v])
  | .arr2 _ nc rows => some (nc, rows.map fromDenseRow)
  | .list2 nc rows => some (nc, rows.map fromDenseRow)
  | .int _ => none

/-- a csr block as the csr fast path sees it: width, dtype, raw rows -/
def blockRaw : Arg → Option (Nat × DT × List (List Entry))
  | .csr m => some (m.ncols, m.dt, m.rows)
  | _ => none

/-- length of a dense block one level below the block list: what numpy's shape discovery of
    `np.asarray(blocks, dtype='object')` compares.  When NO block is sparse and all these lengths agree
    the object array gets more than two dimensions and scipy raises; when they differ the array is
    ragged at that depth, stays 2-D, and the general (coo) path runs. -/
def depth2Len : Arg → Nat
  | .arr1 _ v => v.length
  | .list1 v => v.length
  | .arr2 _ _ rows => rows.length
  | .list2 _ rows => rows.length
  | _ => 0

def sameDepth2 (bs : List Arg) : Bool :=
  match bs with
  | [] => true
  | b0 :: rest => rest.all fun b => depth2Len b == depth2Len b0

/-- end of the csr fast path: `A.astype('uint8', copy=False)`; when the concatenated dtype is not
    already `uint8` scipy casts and then calls `sum_duplicates()` -/
def finishStack (nc : Nat) (dt : DT) (rows : List (List Entry)) : Csr :=
  if dt = .u8 then ⟨nc, .u8, rows⟩ else ⟨nc, .u8, rows.map fun r => canonRow (castRow .u8 r)⟩

def shiftRow (k : Nat) (r : List Entry) : List Entry := r.map fun e => (e.1 + k, e.2)

/-- two blocks side by side, row by row (`csr_hstack`) -/
def hcat2 (na : Nat) (A B : List (List Entry)) : List (List Entry) :=
  List.zipWith (fun ra rb => ra ++ shiftRow na rb) A B

/-- `vstack(matrices)` -/
def vstack (bs : List Arg) : Except PyErr Csr :=
  match bs with
  | [] => .error .valueError
  | b0 :: rest =>
    if bs.all Arg.isCsr then
      match blockRaw b0 with
      | none => .error .valueError
      | some (nc, dt0, rows0) =>
        let raws := rest.filterMap blockRaw
        if raws.any (fun b => b.1 ≠ nc) then .error .valueError
        else
          let dt := raws.foldl (fun t b => DT.promote t b.2.1) dt0
          .ok (finishStack nc dt (rows0 ++ raws.flatMap (·.2.2)))
    else if bs.all (fun b => !b.isCsr) && sameDepth2 bs then .error .valueError
    else
      match blockU8 b0 with
      | none => .error .typeError
      | some (nc, rows0) =>
        let blocks := rest.filterMap blockU8
        if blocks.length ≠ rest.length then .error .typeError
        else if blocks.any (fun b => b.1 ≠ nc) then .error .valueError
        else .ok ⟨nc, .u8, (rows0 ++ blocks.flatMap (·.2)).map canonRow⟩

/-- `hstack(matrices)` -/
def hstack (bs : List Arg) : Except PyErr Csr :=
  match bs with
  | [] => .error .indexError
  | b0 :: rest =>
    if bs.all Arg.isCsr then
      match blockRaw b0 with
      | none => .error .valueError
      | some (nc0, dt0, rows0) =>
        let raws := rest.filterMap blockRaw
        if raws.any (fun b => b.2.2.length ≠ rows0.length) then .error .valueError
        else
          let dt := raws.foldl (fun t b => DT.promote t b.2.1) dt0
          let acc := raws.foldl (fun (acc : Nat × List (List Entry)) b =>
            (acc.1 + b.1, hcat2 acc.1 acc.2 b.2.2)) (nc0, rows0)
          .ok (finishStack acc.1 dt acc.2)
    else if bs.all (fun b => !b.isCsr) && sameDepth2 bs then .error .valueError
    else
      match blockU8 b0 with
      | none => .error .typeError
      | some (nc0, rows0) =>
        let blocks := rest.filterMap blockU8
        if blocks.length ≠ rest.length then .error .typeError
        else if blocks.any (fun b => b.2.length ≠ rows0.length) then .error .valueError
        else
          let acc := blocks.foldl (fun (acc : Nat × List (List Entry)) b =>
            (acc.1 + b.1, hcat2 acc.1 acc.2 b.2)) (nc0, rows0)
          .ok ⟨acc.1, .u8, acc.2.map canonRow⟩

/-- `hsplit(matrix)` -/
def hsplit : Arg → Except PyErr (Arg × Arg)
  | .csr m =>
    if m.ncols % 2 ≠ 0 then .error .valueError
    else
      let n := m.ncols / 2
      if m.rows.length = 1 then
        let cols := m.indices
        .ok (.csr ⟨n, .u8, [(cols.filter (· < n)).map fun c => (c, 1)]⟩,
             .csr ⟨n, .u8, [(cols.filter (n ≤ ·)).map fun c => (c - n, 1)]⟩)
      else
        .ok (.csr ⟨n, m.dt, m.rows.map fun r => r.filter fun e => e.1 < n⟩,
             .csr ⟨n, m.dt, m.rows.map fun r =>
               (r.filter fun e => n ≤ e.1).map fun e => (e.1 - n, e.2)⟩)
  | .arr2 dt nc rows =>
    if nc % 2 ≠ 0 then .error .valueError
    else if rows.length = 1 then .error .attributeError
    else .ok (.arr2 dt (nc / 2) (rows.map (·.take (nc / 2))),
              .arr2 dt (nc / 2) (rows.map (·.drop (nc / 2))))
  | .arr1 _ _ => .error .indexError
  | _ => .error .attributeError

/-- `dot(a, b)` -/
def dot (a b : Arg) : Except PyErr Nat :=
  let conv (x : Arg) : Except PyErr Csr := match x with
    | .csr m => .ok m
    | y => fromArray y
  match conv a, conv b with
  | .error e, _ => .error e
  | _, .error e => .error e
  | .ok a', .ok b' =>
    if a'.rows.length ≠ 1 ∨ b'.rows.length ≠ 1 then .error .valueError
    else if a'.ncols ≠ b'.ncols then .error .valueError
    else .ok (nCommon a'.indices b'.indices % 2)

/-- the csr–csr branch of `equal`: same shape and `(a != b).nnz == 0`, the comparison being done
    in the promoted dtype -/
def equalCsr (a b : Csr) : Bool :=
  if a.rows.length ≠ b.rows.length ∨ a.ncols ≠ b.ncols then false
  else
    let t := DT.promote a.dt b.dt
    a.rows.map (denseRow t a.ncols) == b.rows.map (denseRow t a.ncols)

/-- the int–csr branch of `equal` -/
def equalInt (k : Int) (m : Csr) : Bool :=
  if k = 0 then m.data.length == 0
  else m.data.length == m.rows.length * m.ncols && m.data.all fun v => decide ((v : Int) = k)

/-- `equal(a, b)` -/
def equal : Arg → Arg → Except PyErr Bool
  | .csr a, .csr b => .ok (equalCsr a b)
  | .csr m, .int k => .ok (equalInt k m)
  | .int k, .csr m => .ok (equalInt k m)
  | _, _ => .error .typeError

end Panqec.BSp
