/-
Model of `panqec/analysis.py` (C15, C16): reading result containers, grouping by the
input key, pooled counts, derived rates over `Rat`, and the finite-size-scaling glue
(`fit_function`, `rescale_prob`, least-squares cost, quantiles, `get_fit_status`).

No Mathlib.  Floats never appear: rates are exact rationals, square roots and k-th roots
are never taken (the model exposes the radicand / the algebraic relation, and decides
closeness of a supplied value by exact bracketing).
-/
namespace Panqec.An

/-! ## C15 — containers and entries -/

/-- One results dict after `read_entry`: `inputs` (rendered to an opaque id by the harness
    + the error rate + `code['k']`) and the three per-trial columns.  The three columns are
    kept separate, as in the file format; nothing forces equal lengths. -/
structure Entry where
  inputId : Nat
  rate : Rat
  k : Nat
  wall : Rat
  ee : List (List Nat)
  success : List Bool
  codespace : List Bool
  deriving Repr, Inhabited

/-- parsed JSON of one results file / zip member: a dict or an arbitrarily nested list -/
inductive Data where
  | entry (e : Entry)
  | list (l : List Data)
  deriving Inhabited

mutual
/-- `read_entry`: depth-first flattening of nested lists -/
def Data.flatten : Data → List Entry
  | .entry e => [e]
  | .list l => flattenList l
/-- `read_files`: `entries += read_entry(data)` over the files in order -/
def flattenList : List Data → List Entry
  | [] => []
  | d :: ds => d.flatten ++ flattenList ds
end

/-- `merge-results`: `combined_results.append(load_json(file))` for each file, saved as one list -/
def mergeResults (files : List Data) : Data := .list files

/-- `numpy.rint` (round half to even) on an exact rational -/
def rintHalfEven (x : Rat) : Int :=
  let f := x.floor
  let r := x - (f : Rat)
  if r < 1/2 then f else if 1/2 < r then f + 1 else if f % 2 = 0 then f else f + 1

abbrev Key := Nat × Int

/-- `INPUT_KEYS` after `raw['error_rate'].round(6)`: the error rate in units of 1e-6 -/
def Entry.key (e : Entry) : Key := (e.inputId, rintHalfEven (e.rate * 1000000))

/-- shape of `np.array(effective_error, dtype=uint8)`: `none` = 1-dimensional `(0,)`
    (empty list), `some w` = `(rows, w)` -/
def Entry.shape (e : Entry) : Option Nat :=
  match e.ee with
  | [] => none
  | r :: _ => some r.length

inductive Err where
  | concat   -- np.concatenate: dimension mismatch
  | index    -- IndexError (boolean mask of wrong length, column out of range, 1-dim shape)
  deriving Repr, DecidableEq

def countTrue (l : List Bool) : Nat := l.countP id

/-- one row of `_results` after `aggregate` -/
structure Group where
  key : Key
  k : Nat
  nTrials : Nat
  wall : Rat
  ee : List (List Nat)
  success : List Bool
  codespace : List Bool
  shape : Option Nat
  deriving Repr

def keysOf (es : List Entry) : List Key := (es.map Entry.key).eraseDups

def groupOf (es : List Entry) (κ : Key) : List Entry := es.filter fun e => e.key == κ

/-- `concatenate_nonempty`: entries without trials (1-dimensional empty array) are skipped -/
def nonEmptyMembers (ms : List Entry) : List Entry := ms.filter fun e => !e.ee.isEmpty

/-- `np.concatenate` accepts the non-empty members iff all their arrays have the same width -/
def shapesAgree (ms : List Entry) : Bool :=
  match nonEmptyMembers ms with
  | [] => true
  | e :: rest => rest.all fun e' => e'.shape == e.shape

/-- groupby(key): `n_trials`, `wall_time` summed over all members; the three columns concatenated
    over the members that have trials (`concatenate_nonempty`; concatenating lists, an empty column
    contributes nothing; if every member is empty the first, empty, array is kept: shape `(0,)`);
    `code` (hence k) taken from the first member -/
def mkGroup (κ : Key) (ms : List Entry) : Except Err Group :=
  if shapesAgree ms then
    .ok { key := κ
          k := (ms.head?.map (·.k)).getD 0
          nTrials := (ms.map fun e => e.ee.length).sum
          wall := (ms.map (·.wall)).sum
          ee := ms.flatMap (·.ee)
          success := ms.flatMap (·.success)
          codespace := ms.flatMap (·.codespace)
          shape := ((nonEmptyMembers ms).head?.map (·.shape)).getD none }
  else .error .concat

def aggregate (es : List Entry) : Except Err (List Group) :=
  (keysOf es).mapM fun κ => mkGroup κ (groupOf es κ)

/-- `n_fail = n_trials - success.apply(sum)` -/
def Group.nFail (g : Group) : Int := (g.nTrials : Int) - (countTrue g.success : Int)

/-- `1 - success.mean()`; `none` = NaN (mean of an empty array) -/
def Group.pEst (g : Group) : Option Rat :=
  if g.success.length = 0 then none
  else some (1 - (countTrue g.success : Rat) / (g.success.length : Rat))

/-- radicand of `get_standard_error`: `p (1-p) / (n+1)` (the code applies `sqrt` outside) -/
def seRad (p : Rat) (n : Nat) : Rat := p * (1 - p) / ((n : Rat) + 1)

/-! ### single-logical-qubit rates (`get_single_qubit_error_rate`) -/

/-- the four events of the code: `None` (anything but (0,0)), X=(1,0), Y=(1,1), Z=(0,1) -/
def pauliHit (t : Nat) (x z : Nat) : Bool :=
  match t with
  | 0 => !(x == 0 && z == 0)
  | 1 => x == 1 && z == 0
  | 2 => x == 1 && z == 1
  | _ => x == 0 && z == 1

/-- number of rows whose logical qubit `i` shows event `t` (`kq = int(width/2)`) -/
def patternCount (rows : List (List Nat)) (kq i t : Nat) : Nat :=
  rows.countP fun r => pauliHit t (r.getD i 0) (r.getD (kq + i) 0)

/-- counts for all `i < k`, all four events; `none` = the (nan, nan) early return for a
    1-dimensional array; error when a column index is out of range -/
def Group.singleCounts (g : Group) : Except Err (Option (List (List Nat))) :=
  match g.shape with
  | none => .ok none
  | some w =>
    let kq := w / 2
    if g.k = 0 then .ok (some [])
    else if kq + (g.k - 1) < w then
      .ok (some ((List.range g.k).map fun i => (List.range 4).map fun t => patternCount g.ee kq i t))
    else .error .index

/-- `n_results = effective_errors.shape[0]` -/
def Group.nResults (g : Group) : Nat := g.ee.length

/-! ### sector counts (`calculate_sector_thresholds`, `count_fails`) -/

/-- `k * codespace.apply(sum)` -/
def Group.nTrialsSector (g : Group) : Nat := g.k * countTrue g.codespace

/-- `effective_error[codespace, :]` then the X block `[:, :kq]` or the Z block `[:, kq:]`,
    summed.  `sectorX = true` for 'X'. -/
def Group.countFails (g : Group) (sectorX : Bool) : Except Err Nat :=
  match g.shape with
  | none => .error .index
  | some w =>
    if g.codespace.length ≠ g.ee.length then .error .index
    else
      let kq := w / 2
      let sel := ((g.ee.zip g.codespace).filter (·.2)).map (·.1)
      .ok ((sel.map fun r => (if sectorX then r.take kq else r.drop kq).sum).sum)

/-! ### derived rates, decided by exact bracketing

`within ε δ f r` : the supplied value `f` is within relative `ε` plus absolute `δ` of `r`. -/

def absR (x : Rat) : Rat := if x < 0 then -x else x

def within (ε δ f r : Rat) : Bool := absR (f - r) ≤ ε * absR r + δ

/-- `f` is within relative `ε` of `sqrt r` (for `f, r ≥ 0`): `(f(1-ε))² ≤ r ≤ (f(1+ε))²` -/
def sqrtWithin (ε f r : Rat) : Bool :=
  0 ≤ f && (f * (1 - ε)) ^ 2 ≤ r && r ≤ (f * (1 + ε)) ^ 2

/-- the word-rate relation of `get_word_error_rate`, `p_word = 1 - (1-p)^(1/k)`, i.e.
    `(1 - p_word)^k = 1 - p`, decided by monotone bracketing:
    `1 - (1-lo)^k ≤ p ≤ 1 - (1-hi)^k` with `lo = w(1-ε) - δ`, `hi = w(1+ε) + δ` -/
def wordWithin (ε δ : Rat) (k : Nat) (p w : Rat) : Bool :=
  let lo := w * (1 - ε) - δ
  let hi := w * (1 + ε) + δ
  lo ≤ 1 && 1 - (1 - lo) ^ k ≤ p && p ≤ 1 - (1 - min hi 1) ^ k

/-- first-order propagation used by the code, `se_word = (1/k) (1-p)^(1/k-1) se`, written
    without roots through `1 - p_word = (1-p)^(1/k)`:
    `se_word · k · (1 - p_word)^(k-1) = se`; decided on squares against the radicand of `se`. -/
def wordSeWithin (ε : Rat) (k : Nat) (w seW rad : Rat) : Bool :=
  sqrtWithin ε (seW * (k : Rat) * (1 - w) ^ (k - 1)) rad

/-! ## C16 — finite-size scaling -/

/-- `rescale_prob`: `x = (p - p_th) * d**nu`; the power `s = d**nu` is a parameter -/
def rescaleProb (p pth s : Rat) : Rat := (p - pth) * s

/-- `fit_function`: `A + B*x + C*x**2` -/
def fitFunction (p s pth A B C : Rat) : Rat :=
  let x := (p - pth) * s
  A + B * x + C * x ^ 2

structure Params where
  pth : Rat
  A : Rat
  B : Rat
  C : Rat
  deriving Repr

/-- one data point used by `curve_fit`: error rate, scale `d**nu`, logical rate -/
structure Row where
  p : Rat
  s : Rat
  f : Rat
  deriving Repr

def residual (θ : Params) (r : Row) : Rat := fitFunction r.p r.s θ.pth θ.A θ.B θ.C - r.f

/-- the least-squares cost `curve_fit` minimises -/
def cost (θ : Params) (rows : List Row) : Rat := (rows.map fun r => (residual θ r) ^ 2).sum

/-- `fit_fss_params` truncation: `p_left ≤ error_rate ≤ p_right` -/
def truncate (pl pr : Rat) (rows : List Row) : List Row :=
  rows.filter fun r => pl ≤ r.p && r.p ≤ pr

def minRate : List Row → Option Rat
  | [] => none
  | r :: rs => some (rs.foldl (fun m r' => min m r'.p) r.p)

def maxRate : List Row → Option Rat
  | [] => none
  | r :: rs => some (rs.foldl (fun m r' => max m r'.p) r.p)

/-- The start vector of one call `get_fit_params(p_list[resample], ..., params_0=hint)`:
    `bounds = [min, max]` of the (resampled) error rates; when `hint[0]` is not inside (also when it
    is NaN = `none`) the fit starts from the midpoint `(bounds[0] + bounds[1]) / 2` instead.  The
    replacement is made on a copy (`params_0 = np.array(params_0, dtype=float)`), the caller's
    array is not touched. -/
def hintFor (cur : Option Rat) (b : Rat × Rat) : Option Rat :=
  match cur with
  | some c => if b.1 ≤ c ∧ c ≤ b.2 then some c else some ((b.1 + b.2) / 2)
  | none => some ((b.1 + b.2) / 2)

/-- State of the bootstrap loop of `fit_fss_params` as far as `params_opt[0]` is concerned:
    (`params_opt[0]` after the iterations so far, start values used so far).  Every iteration
    passes `params_opt` as hint and leaves it unchanged. -/
def bootstrapLoop (raw : Option Rat) (bounds : List (Rat × Rat)) : Option Rat × List (Option Rat) :=
  bounds.foldl (fun st b => (st.1, st.2 ++ [hintFor st.1 b])) (raw, [])

/-- what `fit_fss_params` returns as `params_opt[0]` (reported as `fss_params[0]`) -/
def reportedPth (raw : Option Rat) (bounds : List (Rat × Rat)) : Option Rat :=
  (bootstrapLoop raw bounds).1

/-! ### quantiles of the bootstrap column (`np.median`, `np.quantile`, linear interpolation) -/

def insertSorted (x : Rat) : List Rat → List Rat
  | [] => [x]
  | y :: ys => if x ≤ y then x :: y :: ys else y :: insertSorted x ys

def sortRat : List Rat → List Rat
  | [] => []
  | x :: xs => insertSorted x (sortRat xs)

/-- `np.quantile(a, q)` (method 'linear'): virtual index `(n-1) q`, interpolate between
    the two neighbouring order statistics.  `none` on an empty sample (NaN). -/
def quantile (a : List Rat) (q : Rat) : Option Rat :=
  match sortRat a with
  | [] => none
  | x :: xs =>
    let srt := x :: xs
    let n := srt.length
    let pos := ((n : Rat) - 1) * q
    let i := pos.floor.toNat
    let g := pos - (i : Rat)
    let lo := srt.getD i x
    let hi := srt.getD (i + 1) lo
    some (lo + (hi - lo) * g)

/-! ### `get_fit_status` -/

inductive FitStatus where
  | curveFitFailed | nanThreshold | zeroCI | zeroSE | invalidThreshold | invalidRateAtThreshold
  | leftOfData | rightOfData | zeroFit | success
  deriving Repr, DecidableEq

def FitStatus.text : FitStatus → String
  | .curveFitFailed => "Curve fitting failed."
  | .nanThreshold => "NaN threshold estimate or uncertainty."
  | .zeroCI => "Zero CI uncertainty."
  | .zeroSE => "Zero SE uncertainty."
  | .invalidThreshold => "Invalid threshold value."
  | .invalidRateAtThreshold => "Invalid logical error rate at threshold."
  | .leftOfData => "Threshold left of leftmost data point used."
  | .rightOfData => "Threshold right of rightmost data point used."
  | .zeroFit => "Zero logical error rate fit"
  | .success => "success"

/-- `np.isclose(a, b)` with the default `rtol=1e-5, atol=1e-8` (finite arguments) -/
def isClose (a b : Rat) : Bool := absR (a - b) ≤ 1/100000000 + 1/100000 * absR b

/-- the `entry` dict read by `get_fit_status`; `none` = NaN -/
structure FitEntry where
  fss0 : Option Rat              -- fss_params = [p_th, nu, A, B, C]
  nu : Option Rat
  A : Option Rat
  B : Option Rat
  C : Option Rat
  pth : Option Rat               -- p_th_fss
  left : Option Rat              -- p_th_fss_left
  right : Option Rat             -- p_th_fss_right
  se : Option Rat                -- p_th_fss_se
  pLeft : Rat
  pRight : Rat
  deriving Repr

def outside01 (x : Rat) : Bool := x < 0 || 1 < x

def fitStatus (e : FitEntry) : FitStatus :=
  match e.fss0, e.nu, e.A, e.B, e.C with
  | some _, some _, some A, some B, some C =>
    match e.pth, e.left, e.right, e.se with
    | some pth, some l, some r, some se =>
      if isClose l r then .zeroCI
      else if isClose se 0 then .zeroSE
      else if outside01 pth || outside01 l || outside01 r || outside01 se then .invalidThreshold
      else if outside01 A then .invalidRateAtThreshold
      else if pth < e.pLeft then .leftOfData
      else if e.pRight < pth then .rightOfData
      else if isClose A 0 && isClose B 0 && isClose C 0 then .zeroFit
      else .success
    | _, _, _, _ => .nanThreshold
  | _, _, _, _, _ => .curveFitFailed

/-- the acceptance predicate of the planted-threshold test (C16 statement): estimate within
    `tol` of the planted value, inside its own interval, inside the data range, flagged success -/
def recovered (planted tol : Rat) (e : FitEntry) : Bool :=
  match e.pth, e.left, e.right with
  | some pth, some l, some r =>
    absR (pth - planted) ≤ tol && l ≤ pth && pth ≤ r && e.pLeft ≤ pth && pth ≤ e.pRight
      && fitStatus e == .success
  | _, _, _ => false

end Panqec.An
