/-
Executable checker of distance lower-bound certificates (C17) on packed BSF masks
(`Model/Mask.lean`).  Together with `checkValidFast` (valid code) and `reportedDistanceFast`
(some listed logical has weight `d`) an accepted certificate proves that `d` is the true
distance: `checkDistance_sound` in `Proofs/Dist.lean`.  No Mathlib.

Two certificates:

* `packing sels`: for the `i`-th listed logical `l` (order: `logX ++ logZ`) the selection masks
  `sels[i·d …] = [c_1 … c_d]` over the generators give `d` representatives
  `r_j = l xor xorSelect stabs c_j` of the coset `l + S`; the checker verifies that their Pauli
  supports are pairwise disjoint.  A non-trivial logical anticommutes with some listed `l`,
  hence with every `r_j`, hence meets every support: weight ≥ `d`.
* `exhaustive`: no data.  The checker enumerates every Pauli operator of weight `< d` and
  verifies that it is detected (anticommutes with a generator) or commutes with every listed
  logical (then it is a product of generators, by C04).  The enumeration works on *effects*:
  the effect of an operator `v` is the number whose bit `j` is the symplectic product of `v`
  with row `j` of `logX ++ logZ ++ stabs`; it is additive in `v`, so the effect of a
  weight-`w` operator is the xor of `≤ 2w` entries of the per-qubit table `effTableAt`.
* `exhaustiveCSS`: no data; for codes whose generators are all pure X-type or pure Z-type the
  enumeration is restricted to pure X-type and pure Z-type operators.

Kernel evaluation (`decide +kernel`) is call-by-name without sharing: an argument that is not a
literal is re-evaluated at every use.  `forceNat` / `forceList` / `forcePairs` (identity
functions, `forceNat_eq` …) evaluate their argument once by matching on it and hand the
*value* to the continuation; every intermediate result that is used more than once below goes
through them.
-/
import PanqecVerif.Model.Mask

namespace Panqec

/-! ### evaluate once -/

/-- `k x`, with `x` evaluated to a literal first (kernel evaluation strategy only) -/
def forceNat {α : Type} (x : Nat) (k : Nat → α) : α :=
  match x with
  | 0 => k 0
  | n + 1 => k (Nat.succ n)

/-- `k l`, with every entry of `l` evaluated first -/
def forceList {α : Type} : List Nat → (List Nat → α) → α
  | [], k => k []
  | x :: xs, k => forceNat x fun x' => forceList xs fun xs' => k (x' :: xs')

/-- `k l`, with every component of every entry of `l` evaluated first -/
def forcePairs {α : Type} : List (Nat × Nat) → (List (Nat × Nat) → α) → α
  | [], k => k []
  | (x, z) :: t, k =>
    forceNat x fun x' => forceNat z fun z' => forcePairs t fun t' => k ((x', z') :: t')

/-! ### packing -/

/-- Pauli support of a packed BSF vector on `n` qubits, as an `n`-bit mask -/
def suppNat (n a : Nat) : Nat := ((a % 2 ^ n) ||| (a >>> n)) % 2 ^ n

/-- the masks are pairwise disjoint -/
def pairwiseDisjoint : List Nat → Bool
  | [] => true
  | s :: ss => ss.all (fun t => s &&& t == 0) && pairwiseDisjoint ss

/-- `comboAcc` of `Model/Mask.lean` (lanes of `xorSelect bs c` for all selection masks `c` held
    in the lanes of `C`), with the shifted lanes evaluated once per step -/
def comboAccS (R : Nat) : List Nat → Nat → Nat
  | [], _ => 0
  | b :: bs, C => forceNat (C >>> 1) fun C' => ((C &&& R) * b) ^^^ comboAccS R bs C'

/-- the first `cnt` lanes of `X` (lane width `log2 W`) -/
def unlanes (W : Nat) : Nat → Nat → List Nat
  | 0, _ => []
  | cnt + 1, X => X % W :: unlanes W cnt (X / W)

/-- `k (unlanes W cnt X)`, evaluated strictly -/
def unlanesK {α : Type} (W : Nat) : Nat → Nat → (List Nat → α) → α
  | 0, _, k => k []
  | cnt + 1, X, k =>
    forceNat (X % W) fun x => forceNat (X / W) fun X' => unlanesK W cnt X' fun t => k (x :: t)

/-- `xs` holds, for each listed logical `l` in turn, `d` products of generators `x`; the
    representatives `l xor x` of one logical must have pairwise disjoint supports -/
def checkGroups (n d : Nat) : List Nat → List Nat → Bool
  | [], _ => true
  | l :: ls, xs =>
    (xs.take d).length == d &&
    forceList ((xs.take d).map fun x => suppNat n (l ^^^ x)) pairwiseDisjoint &&
    checkGroups n d ls (xs.drop d)

/-- The packing certificate check of a code: `cs` lists, for each listed logical in the order
    `logX ++ logZ`, `d` selection masks over the generators.  All products of generators are
    computed at once in the lanes of one big number (`comboAccS`, lane width `2n + m` bits). -/
def checkPacking (c : MaskCode) (cs : List Nat) : Bool :=
  forceNat (2 ^ (2 * c.n + c.stabs.length)) fun W =>
  c.stabs.all (fun b => Nat.blt b W) &&
  forceNat (comboAccS (repunit W cs.length) c.stabs (packLanes W cs)) fun X =>
  unlanesK W cs.length X fun xs => checkGroups c.n c.d (c.logX ++ c.logZ) xs

/-! ### exhaustive enumeration below `d` -/

/-- `Σ_i (bit p of rs[i]) · 2^i`: bit `p` of all rows, packed -/
def lowBitsAt (p : Nat) : List Nat → Nat
  | [] => 0
  | r :: rs => (r >>> p) % 2 + 2 * lowBitsAt p rs

/-- Per-qubit effect table, entries for the qubits `n - len … n - 1`: entry `q` is
    `(effect of X_q, effect of Z_q)`.  `X_q` anticommutes with a row iff the row has Z bit `q`
    (= bit `n + q`) set, `Z_q` iff the row has X bit `q` set. -/
def effTableAt (rows : List Nat) (n : Nat) : Nat → List (Nat × Nat)
  | 0 => []
  | len + 1 =>
    (lowBitsAt (n + (n - (len + 1))) rows, lowBitsAt (n - (len + 1)) rows) ::
      effTableAt rows n len

/-- an effect is harmless: the operator commutes with everything (effect 0) or is detected by
    a generator (the generator bits are the bits from `log2 T` upwards) -/
def goodEff (T e : Nat) : Bool := e == 0 || Nat.ble T e

/-- for every remaining qubit: put X, Z or Y on it and continue with `f` on the later qubits -/
def exhTails (f : List (Nat × Nat) → Nat → Bool) : List (Nat × Nat) → Nat → Bool
  | [], _ => true
  | (x, z) :: rest, acc =>
    forceNat (acc ^^^ x) fun a1 => forceNat (acc ^^^ z) fun a2 => forceNat (a1 ^^^ z) fun a3 =>
      f rest a1 && f rest a2 && f rest a3 && exhTails f rest acc

/-- every operator of weight `≤ b` on the qubits of `tbl`, composed with the operator of effect
    `acc`, has a harmless effect.  Each operator is visited exactly once. -/
def exhB (T : Nat) : Nat → List (Nat × Nat) → Nat → Bool
  | 0, _, acc => goodEff T acc
  | b + 1, tbl, acc => goodEff T acc && exhTails (exhB T b) tbl acc

/-- the rows whose products form the effect: listed logicals first (low bits), then generators -/
def effRows (c : MaskCode) : List Nat := c.logX ++ c.logZ ++ c.stabs

/-- every Pauli operator of weight `< c.d` is detected or commutes with all listed logicals -/
def checkExhaustive (c : MaskCode) : Bool :=
  forceNat (2 ^ (c.logX.length + c.logZ.length)) fun T =>
  forceNat (c.d - 1) fun w =>
  forceNat c.n fun n =>
  forceList (effRows c) fun rows =>
  forcePairs (effTableAt rows n n) fun tbl => exhB T w tbl 0

/-! ### exhaustive enumeration for CSS codes: pure X-type and pure Z-type operators only -/

/-- every row is a pure X-type or a pure Z-type operator -/
def isCSSMask (n : Nat) (rows : List Nat) : Bool :=
  rows.all fun g => g % 2 ^ n == 0 || g >>> n == 0

/-- for every remaining qubit: act on it and continue with `f` on the later qubits -/
def exhTails1 (f : List Nat → Nat → Bool) : List Nat → Nat → Bool
  | [], _ => true
  | x :: rest, acc => forceNat (acc ^^^ x) fun a => f rest a && exhTails1 f rest acc

/-- every operator of one type and weight `≤ b` on the qubits of `tbl`, composed with the
    operator of effect `acc`, has a harmless effect -/
def exhB1 (T : Nat) : Nat → List Nat → Nat → Bool
  | 0, _, acc => goodEff T acc
  | b + 1, tbl, acc => goodEff T acc && exhTails1 (exhB1 T b) tbl acc

/-- For a CSS code (all generators pure X or pure Z): every pure X-type and every pure Z-type
    operator of weight `< c.d` is detected or commutes with all listed logicals.  Sufficient
    because the X part and the Z part of a logical operator of a CSS code are logical operators
    (`checkExhaustiveCSS_sound`). -/
def checkExhaustiveCSS (c : MaskCode) : Bool :=
  isCSSMask c.n c.stabs &&
  forceNat (2 ^ (c.logX.length + c.logZ.length)) fun T =>
  forceNat (c.d - 1) fun w =>
  forceNat c.n fun n =>
  forceList (effRows c) fun rows =>
  forcePairs (effTableAt rows n n) fun tbl =>
    exhB1 T w (tbl.map (·.1)) 0 && exhB1 T w (tbl.map (·.2)) 0

/-! ### combined -/

inductive DistCert where
  /-- enumerate everything below `d` -/
  | exhaustive
  /-- CSS codes: enumerate the pure X-type and the pure Z-type operators below `d` -/
  | exhaustiveCSS
  /-- selection masks of `d` disjoint representatives for each listed logical, concatenated -/
  | packing (sels : List Nat)
  deriving Repr

def checkDistance (c : MaskCode) : DistCert → Bool
  | .exhaustive => checkExhaustive c
  | .exhaustiveCSS => checkExhaustiveCSS c
  | .packing sels => checkPacking c sels

/-- a table with optional certificates attached: the certified entries -/
def attachCerts : List (MaskCode × RankCert) → List (Option DistCert) →
    List (MaskCode × RankCert × DistCert)
  | p :: ps, some c :: cs => (p.1, p.2, c) :: attachCerts ps cs
  | _ :: ps, none :: cs => attachCerts ps cs
  | _, _ => []

end Panqec
