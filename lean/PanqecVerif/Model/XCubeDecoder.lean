/-
Model of `panqec/decoders/xcube/_xcube_matching_decoder.py` (`XCubeMatchingDecoder`): the
pure-Python glue around PyMatching (through three `MatchingDecoder`s on 2-D toric codes) and
ldpc's BP-OSD (through `BeliefPropagationOSDDecoder`).

Transcribed, in the order of the Python:

* `__init__`: the three toric codes `Toric2DCode(Ly, Lz)`, `Toric2DCode(Lx, Lz)`, `Toric2DCode(Lx, Ly)`,
  the weights `wz`, `wxy` read from `get_weights` through two `qubit_index` look-ups, the per-axis
  weight vectors, the three `MatchingDecoder(toric, …, weights=(w, w))` and the BP-OSD decoder;
* `decode`: the copy of the syndrome (the caller's array is never written: the model takes its
  argument by value), `x_syndrome`, the masking `syndrome[x_indices] = 0`, and for each projection
  axis: the slicing of the syndrome into per-plane toric syndromes (two dict look-ups that can raise
  `KeyError`), one `MatchingDecoder.decode` per non-trivial (axis, plane), `get_matched_pairs` (the
  `while` walk, with an exact fuel: the walk is deterministic on (stabilizer, previous qubit), so
  after `rows·(cols+1)` steps it never ends — `XErr.hang`), the 3-D matching locations, the
  `connected_planes` sets, `find_connected_components`, the projection loops
  (`possible_correction[…][idx] += 1`, `qubit_index` look-up), `get_toric_loop`, `decode_plane`
  called with the two sizes of the projected plane (`tuple_remove((Lx, Ly, Lz), proj_axis_int)`,
  since 869642d; before that commit it was always called with `(Lx, Ly)` and the loop scatter raised
  `KeyError` on lattices that are not `Lx ≤ Ly ≤ Lz` — that variant is kept as `XCubeDec.old`), the
  loop scatter (`possible_correction[…][idx] = 1`, `qubit_index` look-up), the minimum-weight
  choice, the restored syndrome, the BP-OSD call and `(correction + z_correction.astype('uint8')) % 2`.

Third-party solvers are parameters (`WSolver`, `BpSolver` of `Model/Decoders.lean`).  Python sets:
a set is a duplicate-free list; every use in the decoder is order-free (membership, counting)
except `list(nodes_in_component)` whose first element becomes `plane_proj` — that conversion is the
parameter `order` (CPython iterates a set of at most four small ints `< 8` in ascending order, which
is what the driver uses for `L ≤ 4`; the theorems hold for every `order`).  `set.pop()` is modelled
as "first element"; the set of popped nodes does not depend on the pop order.

Every function returns, besides its value, the boundary events (solver calls, in program order)
and a trace of its intermediate results (compared with the implementation through spies on the
module-level helper functions), also when it raises.  Executable, total, no Mathlib.
-/
import PanqecVerif.Model.Decoders
import PanqecVerif.Model.Lattices.XCubeCode
import PanqecVerif.Model.Lattices.Toric2DCode

namespace Panqec.XCube

open Panqec

/-! ### exceptions, axes, the writer/exception monad -/

/-- what `XCubeMatchingDecoder.__init__` / `decode` can raise -/
inductive XErr
  /-- raised inside a sub-decoder's glue or by numpy indexing (`Model/Decoders.lean`) -/
  | dec (e : DecErr)
  /-- a dict look-up failed; `key` is the key -/
  | keyError (key : Coord)
  /-- `np.argmin` of an empty sequence (a side of length 0), `qubit_axis` of a non-qubit -/
  | valueError
  /-- `get_matched_pairs` never returns -/
  | hang
  deriving Repr, DecidableEq

inductive Axis | x | y | z
  deriving Repr, DecidableEq

/-- `axis_to_int` -/
def Axis.toNat : Axis → Nat
  | .x => 0 | .y => 1 | .z => 2

/-- `['x', 'y', 'z']` -/
def Axis.all : List Axis := [.x, .y, .z]

/-- a dict with the three keys `'x'`, `'y'`, `'z'` -/
structure Per (α : Type) where
  x : α
  y : α
  z : α
  deriving Repr

def Per.get {α : Type} (p : Per α) : Axis → α
  | .x => p.x | .y => p.y | .z => p.z

def Per.set {α : Type} (p : Per α) (a : Axis) (v : α) : Per α :=
  match a with
  | .x => { p with x := v } | .y => { p with y := v } | .z => { p with z := v }

def Per.toList {α : Type} (p : Per α) : List α := [p.x, p.y, p.z]

/-- intermediate results, in program order -/
inductive Trace
  /-- result of one `get_matched_pairs` call -/
  | pairs (axis : Axis) (plane : Int) (pairs : List (Nat × Nat))
  /-- result of `find_connected_components` -/
  | comps (proj : Axis) (comps : List (List Int))
  /-- result of one `get_toric_loop` call -/
  | loop (proj : Axis) (loop : List Coord)
  /-- result of one `decode_plane` call -/
  | coords (proj : Axis) (coords : List Coord)
  /-- the three `possible_correction` vectors, their weights, the chosen index -/
  | possible (pc : List Vec) (weights : List Nat) (argmin : Nat)
  deriving Repr

/-- value (or exception) together with what happened before it -/
structure Out (W : Type) (α : Type) where
  events : List (Event W)
  trace : List Trace
  val : Except XErr α

def Out.pure {W α : Type} (a : α) : Out W α := ⟨[], [], .ok a⟩

def Out.bind {W α β : Type} (o : Out W α) (f : α → Out W β) : Out W β :=
  match o.val with
  | .error e => ⟨o.events, o.trace, .error e⟩
  | .ok a =>
    let r := f a
    ⟨o.events ++ r.events, o.trace ++ r.trace, r.val⟩

instance {W : Type} : Monad (Out W) where
  pure := Out.pure
  bind := Out.bind

def raise {W α : Type} (e : XErr) : Out W α := ⟨[], [], .error e⟩
def emit {W : Type} (ev : List (Event W)) : Out W Unit := ⟨ev, [], .ok ()⟩
def note {W : Type} (t : Trace) : Out W Unit := ⟨[], [t], .ok ()⟩

/-- `d[key]` on an optional look-up result -/
def orKeyError {W α : Type} (key : Coord) : Option α → Out W α
  | some a => Out.pure a
  | none => raise (.keyError key)

/-- `for a in l: st = f st a` with exceptions -/
def forM' {W σ α : Type} (l : List α) (init : σ) (f : σ → α → Out W σ) : Out W σ :=
  match l with
  | [] => Out.pure init
  | a :: rest => Out.bind (f init a) fun st => forM' rest st f

/-! ### tuples, ranges, small-set helpers -/

/-- `tuple_remove(t, index)` (`list.pop(index)`; all uses have `index < len(t)`) -/
def tupleRemove (t : Coord) (i : Nat) : Coord := t.eraseIdx i

/-- `tuple_insert(t, index, element)` (`list.insert`; all uses have `index ≤ len(t)`) -/
def tupleInsert (t : Coord) (i : Nat) (e : Int) : Coord := t.insertIdx i e

/-- Python `range(a, b, 2)` on integers -/
def rangeI2 (a b : Int) : List Int :=
  (List.range ((b - a + 1) / 2).toNat).map fun (k : Nat) => a + 2 * (k : Int)

/-- `set.add` on a duplicate-free list -/
def setAdd (l : List Int) (v : Int) : List Int := if l.contains v then l else l ++ [v]

/-- `v.nonzero()[0]` -/
def nonzeroIdx (v : Vec) : List Nat := (v.zipIdx.filter fun e => e.1 ≠ 0).map (·.2)

/-- insertion into an ascending list -/
def insertAsc (a : Int) : List Int → List Int
  | [] => [a]
  | b :: rest => if a ≤ b then a :: b :: rest else b :: insertAsc a rest

/-- CPython's `list(s)` for a set `s` of at most four non-negative ints below 8 (no collisions in
    the 8-slot table, no resize): ascending.  This is the `order` the driver uses (sides ≤ 4). -/
def ascending (l : List Int) : List Int := l.foldr insertAsc []

/-- a Python dict keyed by planes (insertion order) -/
abbrev PlaneDict (α : Type) := List (Int × α)

def PlaneDict.get? {α : Type} (d : PlaneDict α) (k : Int) : Option α := (d.find? (·.1 == k)).map (·.2)

/-- `d[k] = v` for an existing key -/
def PlaneDict.put {α : Type} (d : PlaneDict α) (k : Int) (v : α) : PlaneDict α :=
  d.map fun e => if e.1 == k then (k, v) else e

/-! ### the code objects the decoder reads -/

/-- what the decoder reads from one `Toric2DCode` object -/
structure ToricView where
  La : Nat
  Lb : Nat
  /-- `qubit_coordinates` (`qubit_index` is the position) -/
  qubits : List Coord
  /-- `stabilizer_coordinates` (`stabilizer_index` is the position) -/
  stabs : List Coord
  /-- `stabilizer_matrix` -/
  H : Mat
  deriving Repr

def ToricView.n (t : ToricView) : Nat := t.qubits.length

/-- `Toric2DCode(La, Lb)` (hand-written lattice model; an operator outside the qubit set would make
    the matrix empty, which the correspondence would show) -/
def toricView (La Lb : Nat) : ToricView :=
  let l := Toric2DCode.lattice La Lb
  { La := La, Lb := Lb, qubits := l.qubits, stabs := l.stabs,
    H := (stabilizerMatrix l.toCodeData).getD [] }

/-- the decoder object after `__init__` (all attributes are immutable afterwards; the BP-OSD
    decoder's mutable state is threaded separately as a `BpSt`) -/
structure XCubeDec (W : Type) where
  Lx : Nat
  Ly : Nat
  Lz : Nat
  /-- `code.qubit_coordinates` / `code.qubit_index` -/
  qubits : List Coord
  /-- `code.stabilizer_coordinates` / `code.stabilizer_index` -/
  stabs : List Coord
  /-- `code.stabilizer_matrix` -/
  H : Mat
  /-- `self.toric_code` -/
  toric : Per ToricView
  /-- `self.matching_decoder` -/
  matching : Per (MatchingDec W)
  /-- `self.z_decoder` -/
  zdec : BpDec_dec
  /-- the two lattice sizes `decode` hands to `decode_plane` for a projection axis (not an attribute
      of the Python object: it is computed in `decode` from `code.size`; kept here so that the code
      before and after 869642d are the same functions of the object, see `XCubeDec.old`) -/
  planeSizes : Axis → Nat × Nat

def XCubeDec.n {W : Type} (d : XCubeDec W) : Nat := d.qubits.length

/-- `[Lx, Ly, Lz][proj_axis_int]` -/
def XCubeDec.side {W : Type} (d : XCubeDec W) : Axis → Nat
  | .x => d.Lx | .y => d.Ly | .z => d.Lz

/-- `tuple_remove((Lx, Ly, Lz), proj_axis_int)` -/
def planeSizesOf (Lx Ly Lz : Nat) : Axis → Nat × Nat
  | .x => (Ly, Lz) | .y => (Lx, Lz) | .z => (Lx, Ly)

/-- `[wxy if toric.qubit_axis(loc) == 'x' else wz for loc in toric.qubit_coordinates]`
    (`ValueError` of `qubit_axis` on a non-qubit location kept) -/
def toricWeights {W : Type} (t : ToricView) (wxy wz : W) : Except XErr (List W) :=
  t.qubits.mapM fun loc =>
    match Toric2DCode.qubitAxis loc with
    | none => .error .valueError
    | some a => .ok (if a == "x" then wxy else wz)

/-- the code object handed to the constructor: `XCubeCode(Lx, Ly, Lz)`, optionally after
    `code.deform('XZZX', deformation_axis=axis)` -/
def codeData (Lx Ly Lz : Nat) (deformAxis : Option String) : CodeData :=
  let c := (XCubeCode.lattice Lx Ly Lz).toCodeData
  match deformAxis with
  | none => c
  | some ax => c.deform fun q => (XCubeCode.getDeformation "XZZX" (some ax) q).getD PauliMap.id

/-- `XCubeMatchingDecoder.__init__(code, error_model, error_rate)`; `px py pz` is
    `error_model.probability_distribution(code, error_rate)[1:]`, `cfg` the BP-OSD defaults. -/
def XCubeDec.new {W : Type} (logOdds : Rat → W) (Lx Ly Lz : Nat) (deformAxis : Option String)
    (px py pz : List Rat) (cfg : BpCfg) : Except XErr (XCubeDec W) :=
  let c := codeData Lx Ly Lz deformAxis
  let H := (stabilizerMatrix c).getD []
  let tx := toricView Ly Lz
  let ty := toricView Lx Lz
  let tz := toricView Lx Ly
  -- weights_X, _ = self.error_model.get_weights(self.code, self.error_rate)
  let weightsX := (getWeights logOdds px py pz).1
  -- wz = weights_X[self.code.qubit_index[(0, 0, 1)]]
  match qubitIndex? c.qubits [0, 0, 1] with
  | none => .error (.keyError [0, 0, 1])
  | some iz =>
  match weightsX[iz]? with
  | none => .error (.dec .indexError)
  | some wz =>
  -- wxy = weights_X[self.code.qubit_index[(1, 0, 0)]]
  match qubitIndex? c.qubits [1, 0, 0] with
  | none => .error (.keyError [1, 0, 0])
  | some ix =>
  match weightsX[ix]? with
  | none => .error (.dec .indexError)
  | some wxy =>
  match toricWeights tx wxy wz with
  | .error e => .error e
  | .ok wX =>
  match toricWeights ty wxy wz with
  | .error e => .error e
  | .ok wY =>
  let wZ := tz.qubits.map fun _ => wxy
  match MatchingDec.new tx.H tx.n none (some (wX, wX)) ([], []) with
  | .error e => .error (.dec e)
  | .ok mx =>
  match MatchingDec.new ty.H ty.n none (some (wY, wY)) ([], []) with
  | .error e => .error (.dec e)
  | .ok my =>
  match MatchingDec.new tz.H tz.n none (some (wZ, wZ)) ([], []) with
  | .error e => .error (.dec e)
  | .ok mz =>
  .ok { Lx := Lx, Ly := Ly, Lz := Lz, qubits := c.qubits, stabs := c.stabs, H := H,
        toric := ⟨tx, ty, tz⟩, matching := ⟨mx, my, mz⟩,
        zdec := { H := H, n := c.qubits.length, px := px, py := py, pz := pz, cfg := cfg },
        planeSizes := planeSizesOf Lx Ly Lz }

/-- the decoder as it was before 869642d: `decode_plane(toric_loop, (Lx, Ly))` whatever the
    projection axis -/
def XCubeDec.old {W : Type} (d : XCubeDec W) : XCubeDec W :=
  { d with planeSizes := fun _ => (d.Lx, d.Ly) }

/-! ### `get_matched_pairs` -/

/-- `H[r].nonzero()[1]` -/
def rowNonzero (H : Mat) (r : Nat) : List Nat := nonzeroIdx (H.getD r [])

/-- `H[:, q].nonzero()[0]` -/
def colNonzero (H : Mat) (q : Nat) : List Nat := nonzeroIdx (H.map fun row => row.getD q 0)

/-- one round of the `while continue_search` loop: the first qubit `q` of stabilizer `sp` with
    `correction[q]` and `q != prev_qubit`, and the first other stabilizer of `q` (or `sp` itself) -/
def walkStep (H : Mat) (corr : Vec) (sp : Nat) (prev : Option Nat) : Option (Nat × Nat) :=
  match (rowNonzero H sp).find? fun q => corr.getD q 0 ≠ 0 && some q != prev with
  | none => none
  | some q => some (((colNonzero H q).find? (· != sp)).getD sp, q)

/-- the walk; `none` = the fuel ran out -/
def walk (H : Mat) (corr : Vec) : Nat → Nat → Option Nat → Option Nat
  | 0, _, _ => none
  | fuel + 1, sp, prev =>
    match walkStep H corr sp prev with
    | none => some sp
    | some (sp', q) => walk H corr fuel sp' (some q)

/-- number of (stabilizer, previous qubit) states plus one: a walk longer than this repeats a state -/
def walkFuel (H : Mat) : Nat := H.length * ((H.headD []).length + 1) + 1

/-- `get_matched_pairs(H, correction, syndrome)` -/
def matchedPairs {W : Type} (H : Mat) (corr syn : Vec) : Out W (List (Nat × Nat)) :=
  Out.bind
    (forM' (nonzeroIdx syn) (([], []) : List (Nat × Nat) × List Nat) fun st s =>
      if st.2.contains s then Out.pure st
      else
        match walk H corr (walkFuel H) s none with
        | none => raise .hang
        | some sp => Out.pure (st.1 ++ [(s, sp)], (st.2 ++ [s]) ++ [sp]))
    fun st => Out.pure st.1

/-! ### `find_connected_components` -/

/-- `component(node)`: `nodes` is the work set, returns (`nodes_in_component`, `seen`) -/
def component {W : Type} (nb : PlaneDict (List Int)) :
    Nat → List Int → List Int → List Int → Out W (List Int × List Int)
  | _, [], seen, inComp => Out.pure (inComp, seen)
  | 0, _ :: _, _, _ => raise .hang
  | fuel + 1, node :: rest, seen, inComp =>
    let seen' := setAdd seen node
    Out.bind (orKeyError [node] (nb.get? node)) fun ns =>
      component nb fuel ((ns.filter fun v => !seen'.contains v).foldl setAdd rest) seen'
        (setAdd inComp node)

/-- `find_connected_components(neighbors)`; `order` is `list(nodes_in_component)` -/
def connectedComponents {W : Type} (order : List Int → List Int) (nb : PlaneDict (List Int)) :
    Out W (List (List Int)) :=
  Out.bind
    (forM' (nb.map (·.1)) (([], []) : List (List Int) × List Int) fun st node =>
      if st.2.contains node then Out.pure st
      else
        Out.bind (component nb (nb.length + 1) [node] st.2 [node]) fun r =>
          Out.pure (st.1 ++ [order r.1], r.2))
    fun st => Out.pure st.1

/-! ### `get_toric_loop`, `decode_plane` -/

/-- `get_toric_loop(xcube_matching_ortho, component, proj_axis_int)`; `ortho` is the *set* (the
    list of matching locations with duplicates removed); the order of the result is the dict order
    of a set iteration and is not used (membership only) -/
def toricLoop (ortho : List Coord) (comp : List Int) (p : Nat) : List Coord :=
  let sel := (ortho.filter fun loc => comp.contains (loc.getD p 0)).map fun loc => tupleRemove loc p
  sel.eraseDups.filter fun c => sel.count c % 2 == 1

/-- `state[key]` -/
def stateGet {W : Type} (state : List (Coord × Nat)) (key : Coord) : Out W Nat :=
  orKeyError key ((state.find? (·.1 == key)).map (·.2))

/-- body of the inner loop of `decode_plane` for the cell `(x, y)`; returns `current_state` -/
def cellState {W : Type} (loops : List Coord) (state : List (Coord × Nat)) (x y : Int) (cur : Nat) :
    Out W Nat :=
  Out.bind
    (if y == 0 then
      if loops.contains [x - 1, y] then Out.bind (stateGet state [x - 2, y]) fun v => Out.pure (1 - v)
      else if x ≥ 2 then stateGet state [x - 2, y]
      else Out.pure cur
    else Out.pure cur)
    fun c1 => Out.pure (if loops.contains [x, y - 1] then 1 - c1 else c1)

/-- the `state` dict of `decode_plane` (insertion order = grid order) -/
def planeState {W : Type} (loops : List Coord) (Lx Ly : Nat) : Out W (List (Coord × Nat)) :=
  forM' (Lat3Db.pyRange2 0 (2 * Lx)) ([] : List (Coord × Nat)) fun state x =>
    Out.bind
      (forM' (Lat3Db.pyRange2 0 (2 * Ly)) (state, 0) fun (st : List (Coord × Nat) × Nat) y =>
        Out.bind (cellState loops st.1 x y st.2) fun c => Out.pure (st.1 ++ [([x, y], c)], c))
      fun st => Out.pure st.1

/-- `np.unique(values, return_counts=True)` then the minority rule; `none` = no cell equals it
    (a single value `v` gives the array `1 - v`, which no state equals) -/
def minorityState {W : Type} (values : List Nat) : Out W (Option Nat) :=
  let c0 := values.count 0
  let c1 := values.count 1
  if values.isEmpty then raise .valueError          -- np.argmin of an empty sequence
  else if c0 == 0 || c1 == 0 then Out.pure none
  else Out.pure (some (if c0 ≤ c1 then 0 else 1))

/-- `decode_plane(loops, (Lx, Ly))` -/
def decodePlane {W : Type} (loops : List Coord) (Lx Ly : Nat) : Out W (List Coord) :=
  Out.bind (planeState loops Lx Ly) fun state =>
    Out.bind (minorityState (state.map (·.2))) fun m =>
      Out.pure (match m with
        | none => []
        | some v => (state.filter fun e => e.2 == v).map (·.1))

/-! ### `decode` -/

/-- `x_indices` mask applied as `syndrome[self.code.x_indices] = 0` -/
def maskX (H : Mat) (s : Vec) : Vec :=
  List.zipWith (fun (m : Bool) v => if m then 0 else v) (xIndices H) s

/-- `syndrome[z_indices] = 0; syndrome[x_indices] = x_syndrome` applied to the masked copy:
    rows flagged X get their original value back, the other rows flagged Z become 0 -/
def restoreX (H : Mat) (s : Vec) : Vec :=
  List.zipWith (fun (m : Bool × Bool) v => if m.1 then v else if m.2 then 0 else v)
    ((xIndices H).zip (zIndices H)) s

/-- the initial `plane_syndrome[axis]` dict -/
def emptyPlanes {W : Type} (d : XCubeDec W) (a : Axis) : PlaneDict Vec :=
  (Lat3Db.pyRange2 1 (2 * d.side a)).map fun p => (p, List.replicate (d.toric.get a).stabs.length 0)

/-- body of `if syndrome[i_stab]:` for one stabilizer location: for every axis
    `plane_syndrome[axis][loc[axis]][toric[axis].stabilizer_index[tuple_remove(loc, axis)]] = 1` -/
def markStab {W : Type} (d : XCubeDec W) (ps : Per (PlaneDict Vec)) (loc : Coord) :
    Out W (Per (PlaneDict Vec)) :=
  forM' Axis.all ps fun ps a =>
    let loc2 := tupleRemove loc a.toNat
    Out.bind (orKeyError loc2 (qubitIndex? (d.toric.get a).stabs loc2)) fun idx =>
      let plane := loc.getD a.toNat 0
      Out.bind (orKeyError [plane] ((ps.get a).get? plane)) fun v =>
        Out.pure (ps.set a ((ps.get a).put plane (v.set idx 1)))

/-- `for i_stab in range(len(stabilizer_index)): if syndrome[i_stab]: …` -/
def slicePlanes {W : Type} (d : XCubeDec W) (s : Vec) (ps : Per (PlaneDict Vec)) :
    Out W (Per (PlaneDict Vec)) :=
  forM' (d.stabs.zip s) ps fun ps e => if e.2 ≠ 0 then markStab d ps e.1 else Out.pure ps

/-- `{'x': {'y': 0, 'z': 0}, 'y': {'x': 0, 'z': 1}, 'z': {'x': 1, 'y': 1}}[proj_axis][axis]` -/
def projComponent : Axis → Axis → Nat
  | .x, _ => 0
  | .y, .x => 0
  | .y, _ => 1
  | .z, _ => 1

/-- `connected_planes[a].add(b); connected_planes[b].add(a)` -/
def connect {W : Type} (cp : PlaneDict (List Int)) (a b : Int) : Out W (PlaneDict (List Int)) :=
  Out.bind (orKeyError [a] (cp.get? a)) fun sa =>
    let cp1 := cp.put a (setAdd sa b)
    Out.bind (orKeyError [b] (cp1.get? b)) fun sb =>
      Out.pure (cp1.put b (setAdd sb a))

/-- `for pair in toric_pairs:` (only when `axis != proj_axis`) -/
def connectPairs {W : Type} (t : ToricView) (pcomp : Nat) (pairs : List (Nat × Nat))
    (cp : PlaneDict (List Int)) : Out W (PlaneDict (List Int)) :=
  forM' pairs cp fun cp pr =>
    match t.qubits[pr.1]?, t.qubits[pr.2]? with
    | some loc1, some loc2 =>
      let plane1 := loc1.getD pcomp 0
      let plane2 := loc2.getD pcomp 0
      if plane1 ≠ plane2 then
        if pcomp == 1 then connect cp (plane1 + 1) (plane2 + 1) else connect cp plane1 plane2
      else Out.pure cp
    | _, _ => raise (.dec .indexError)

/-- one `(axis, plane)` of "Decode all the 2D toric codes": returns the new 3-D matching
    locations and `connected_planes` -/
def decodePlaneSyndrome {W : Type} (solve : WSolver W) (d : XCubeDec W) (proj axis : Axis)
    (plane : Int) (cur : Vec) (cp : PlaneDict (List Int)) :
    Out W (List Coord × PlaneDict (List Int)) :=
  let t := d.toric.get axis
  let toricX := extractXSyndrome t.H cur
  if toricX.all (· == 0) then Out.pure ([], cp)
  else
    match (d.matching.get axis).decode solve cur with
    | .error e => raise (.dec e)
    | .ok (c, ev) =>
      Out.bind (emit ev) fun _ =>
      let zc := c.drop t.n
      Out.bind (matchedPairs (Hx t.H) zc toricX) fun pairs =>
      Out.bind (note (.pairs axis plane pairs)) fun _ =>
      let locs := (nonzeroIdx zc).map fun i => tupleInsert (t.qubits.getD i []) axis.toNat plane
      if axis ≠ proj then
        Out.bind (connectPairs t (projComponent proj axis) pairs cp) fun cp' => Out.pure (locs, cp')
      else Out.pure (locs, cp)

/-- `for axis in ['x','y','z']: for plane in plane_syndrome[axis].keys(): …` -/
def decodeAllPlanes {W : Type} (solve : WSolver W) (d : XCubeDec W) (proj : Axis)
    (ps : Per (PlaneDict Vec)) (cp : PlaneDict (List Int)) :
    Out W (Per (List Coord) × PlaneDict (List Int)) :=
  forM' Axis.all ((⟨[], [], []⟩ : Per (List Coord)), cp) fun st axis =>
    forM' (ps.get axis) st fun st e =>
      Out.bind (decodePlaneSyndrome solve d proj axis e.1 e.2 st.2) fun r =>
        Out.pure (st.1.set axis (st.1.get axis ++ r.1), r.2)

/-- `for plane_op in range(a, b, 2): possible_correction[idx(insert(oc, proj, plane_op % (2 L)))] += 1` -/
def bumpRange {W : Type} (d : XCubeDec W) (proj : Axis) (oc : Coord) (planes : List Int) (pc : Vec) :
    Out W Vec :=
  forM' planes pc fun pc planeOp =>
    let loc := tupleInsert oc proj.toNat (planeOp % (2 * (d.side proj : Int)))
    Out.bind (orKeyError loc (qubitIndex? d.qubits loc)) fun idx => Out.pure (bump pc idx)

/-- body of `for loc in xcube_matching_proj:` ("Perform the projection") -/
def projectLoc {W : Type} (d : XCubeDec W) (proj : Axis) (comp : List Int) (planeProj : Int)
    (pc : Vec) (loc : Coord) : Out W Vec :=
  let L : Int := d.side proj
  let plane := loc.getD proj.toNat 0
  let oc := tupleRemove loc proj.toNat
  if comp.contains plane then
    if (0 < plane - planeProj ∧ plane - planeProj ≤ L) ∨ 2 * L + plane - planeProj ≤ L then
      let stop := if planeProj < plane then plane + 1 else 2 * L + plane + 1
      bumpRange d proj oc (rangeI2 (planeProj + 1) stop) pc
    else if plane ≠ planeProj then
      let stop := if plane < planeProj then planeProj + 1 else 2 * L + planeProj + 1
      bumpRange d proj oc (rangeI2 (plane + 1) stop) pc
    else Out.pure pc
  else Out.pure pc

/-- first loop over the components -/
def projectAll {W : Type} (d : XCubeDec W) (proj : Axis) (comps : List (List Int))
    (matchingProj : List Coord) (pc : Vec) : Out W Vec :=
  forM' comps pc fun pc comp => forM' matchingProj pc (projectLoc d proj comp (comp.headD 0))

/-- `for loc_2d in correction_coordinates: possible_correction[idx(insert(loc_2d, proj, plane_proj))] = 1` -/
def loopScatter {W : Type} (d : XCubeDec W) (proj : Axis) (planeProj : Int) (coords : List Coord)
    (pc : Vec) : Out W Vec :=
  forM' coords pc fun pc c =>
    let loc3 := tupleInsert c proj.toNat planeProj
    Out.bind (orKeyError loc3 (qubitIndex? d.qubits loc3)) fun idx => Out.pure (pc.set idx 1)

/-- second loop over the components ("Find the loops") -/
def loopsAll {W : Type} (d : XCubeDec W) (proj : Axis) (comps : List (List Int)) (ortho : List Coord)
    (pc : Vec) : Out W Vec :=
  forM' comps pc fun pc comp =>
    let tl := toricLoop ortho comp proj.toNat
    Out.bind (note (.loop proj tl)) fun _ =>
    Out.bind (decodePlane tl (d.planeSizes proj).1 (d.planeSizes proj).2) fun coords =>
    Out.bind (note (.coords proj coords)) fun _ =>
    loopScatter d proj (comp.headD 0) coords pc

/-- `tuple_remove(('x','y','z'), proj_axis_int)` -/
def orthoAxes : Axis → Axis × Axis
  | .x => (.y, .z) | .y => (.x, .z) | .z => (.x, .y)

/-- body of `for proj_axis in ['x', 'y', 'z']:`; the state is (`plane_syndrome`,
    `possible_correction`) -/
def projIter {W : Type} (solve : WSolver W) (order : List Int → List Int) (d : XCubeDec W)
    (s5 : Vec) (st : Per (PlaneDict Vec) × Per Vec) (proj : Axis) :
    Out W (Per (PlaneDict Vec) × Per Vec) :=
  Out.bind (slicePlanes d s5 st.1) fun ps =>
  let cp0 : PlaneDict (List Int) := (ps.get proj).map fun e => (e.1, [])
  Out.bind (decodeAllPlanes solve d proj ps cp0) fun r =>
  let matchingProj := r.1.get proj
  let ortho := (r.1.get (orthoAxes proj).1 ++ r.1.get (orthoAxes proj).2).eraseDups
  Out.bind (connectedComponents order r.2) fun comps =>
  Out.bind (note (.comps proj comps)) fun _ =>
  Out.bind (projectAll d proj comps matchingProj (st.2.get proj)) fun pc1 =>
  Out.bind (loopsAll d proj comps ortho pc1) fun pc2 =>
  Out.pure (ps, st.2.set proj pc2)

/-- `int(np.argmin(weight))`: first index of a minimum -/
def argminIdx (w : List Nat) : Nat := w.idxOf (w.foldl min (w.headD 0))

/-- the matching part of `decode`: everything before "Decode Z part with BP-OSD";
    returns `possible_correction[axis_min_weight]` -/
def matchingPart {W : Type} (solve : WSolver W) (order : List Int → List Int) (d : XCubeDec W)
    (s : Vec) : Out W Vec :=
  let zeros := List.replicate (2 * d.n) 0
  let ps0 : Per (PlaneDict Vec) := ⟨emptyPlanes d .x, emptyPlanes d .y, emptyPlanes d .z⟩
  -- `x_syndrome = self.code.extract_x_syndrome(syndrome)`: boolean-mask indexing
  if s.length ≠ d.H.length then raise (.dec .indexError)
  else
    let s5 := maskX d.H s
    Out.bind (forM' Axis.all (ps0, (⟨zeros, zeros, zeros⟩ : Per Vec)) (projIter solve order d s5)) fun st =>
    let pcs := st.2.toList
    let weights := pcs.map List.sum
    let i := argminIdx weights
    Out.bind (note (.possible pcs weights i)) fun _ =>
    Out.pure (pcs.getD i [])

/-- the BP-OSD decoder's glue with the event type of this file (its events carry `Rat` priors) -/
def liftBp {W : Type} (castEv : Event Rat → Event W) (r : BpSt × List (Event Rat) × Except DecErr Vec) :
    BpSt × Out W Vec :=
  (r.1, ⟨r.2.1.map castEv, [], match r.2.2 with
    | .ok c => .ok c
    | .error e => .error (.dec e)⟩)

/-- `XCubeMatchingDecoder.decode(syndrome)` as a state machine over the BP-OSD decoder's state
    (the only mutable attribute).  The BP-OSD decoder is not reached when the matching part raises. -/
def XCubeDec.decode {W : Type} (solve : WSolver W) (S : BpSolver) (castEv : Event Rat → Event W)
    (order : List Int → List Int) (d : XCubeDec W) (st : BpSt) (s : Vec) : BpSt × Out W Vec :=
  let m := matchingPart solve order d s
  match m.val with
  | .error e => (st, ⟨m.events, m.trace, .error e⟩)
  | .ok pc =>
    let r := liftBp castEv (d.zdec.decode S st (restoreX d.H s))
    (r.1, Out.bind m fun _ => Out.bind r.2 fun zc =>
      -- `correction += z_correction.astype('uint8')`: numpy broadcasting needs equal lengths
      if zc.length ≠ pc.length then raise (.dec .shapeError)
      else Out.pure ((vadd pc (zc.map (· % 256))).map (· % 2)))

/-- state of the BP-OSD decoder after a history of `decode` calls -/
def XCubeDec.run {W : Type} (solve : WSolver W) (S : BpSolver) (castEv : Event Rat → Event W)
    (order : List Int → List Int) (d : XCubeDec W) (st : BpSt) : List Vec → BpSt
  | [] => st
  | s :: rest => XCubeDec.run solve S castEv order d (d.decode solve S castEv order st s).1 rest

end Panqec.XCube
