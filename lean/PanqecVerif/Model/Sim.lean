/-
Model of `panqec/simulation/_direct_simulation.py` (`run_once`, `DirectSimulation._run`,
`DirectSimulation.get_results`) and of the sampling loop of
`PauliErrorModel.generate` / `fast_choice` (`panqec/error_models/_pauli_error_model.py`).

Executable, total, no Mathlib.  The decoder is a parameter (`Nat → List Nat → List Nat`:
number of earlier trials of this simulation ↦ syndrome ↦ correction; a decoder that is
a pure function of the syndrome ignores the first argument).  The random generator is a
stream `u : Nat → Rat` of uniform variates together with a read position kept in the
state: `rng.random()` returns `u pos` and advances `pos`.

Also here: finite distributions with rational weights (the product channel and `N`
i.i.d. trials), used to state the calibration part of C11.
-/
import PanqecVerif.Model.Code

namespace Panqec.Sim

open Panqec

/-! ### `fast_choice` and `generate` -/

/-- `fast_choice(options, probs, rng)` for one variate `x`:
    ```
    cum = 0
    for i, p in enumerate(probs):
        cum += p
        if x < cum: return options[i]
    return options[-1]
    ```
    `last` is `options[-1]`. -/
def fastChoice {α : Type} (last : α) : List (α × Rat) → Rat → Rat → α
  | [], _, _ => last
  | (o, p) :: rest, cum, x => if x < cum + p then o else fastChoice last rest (cum + p) x

/-- the four entries `p_i[i], p_x[i], p_y[i], p_z[i]` of one qubit -/
structure QubitProbs where
  pI : Rat
  pX : Rat
  pY : Rat
  pZ : Rat
  deriving Repr, DecidableEq

/-- `fast_choice(('I','X','Y','Z'), [p_i[i], p_x[i], p_y[i], p_z[i]], rng)` -/
def samplePauli (q : QubitProbs) (x : Rat) : Pauli :=
  fastChoice Pauli.Z [(Pauli.I, q.pI), (Pauli.X, q.pX), (Pauli.Y, q.pY), (Pauli.Z, q.pZ)] 0 x

/-- the list comprehension of `generate`: qubit `i` consumes variate `pos + i`. -/
def genPaulis : List QubitProbs → (Nat → Rat) → Nat → List Pauli
  | [], _, _ => []
  | q :: qs, u, pos => samplePauli q (u pos) :: genPaulis qs u (pos + 1)

/-- `error_model.generate(code, error_rate, rng)`: `pauli_to_bsf` of the drawn string. -/
def generate (probs : List QubitProbs) (u : Nat → Rat) (pos : Nat) : List Nat :=
  pauliToBsf (genPaulis probs u pos)

/-! ### `run_once` -/

/-- the matrices `run_once` reads from the code object -/
structure CodeMats where
  H  : List (List Nat)
  Lx : List (List Nat)
  Lz : List (List Nat)
  deriving Repr

/-- the dictionary returned by `run_once` -/
structure Trial where
  error : List Nat
  syndrome : List Nat
  correction : List Nat
  effectiveError : List Nat
  success : Bool
  codespace : Bool
  deriving Repr, DecidableEq

inductive SimErr
  /-- `ValueError('Error rate must be in [0, 1].')` -/
  | rate
  deriving Repr, DecidableEq

/-- `0 <= error_rate <= 1` -/
def rateOk (p : Rat) : Bool := decide (0 ≤ p) && decide (p ≤ 1)

/-- `run_once` after the error has been drawn:
    ```
    syndrome = code.measure_syndrome(error)
    correction = decoder.decode(syndrome)
    total_error = (correction + error) % 2
    effective_error = get_effective_error(total_error, code.logicals_x, code.logicals_z)
    codespace = code.in_codespace(total_error)
    success = bool(np.all(effective_error == 0)) and codespace
    ``` -/
def classify (dt : DType) (c : CodeMats) (error : List Nat)
    (decode : List Nat → List Nat) : Trial :=
  let syndrome := measureSyndrome c.H error
  let correction := decode syndrome
  let total := vxor correction error
  let eff := logicalErrors dt c.Lx c.Lz total
  let cs := inCodespace c.H total
  { error := error, syndrome := syndrome, correction := correction,
    effectiveError := eff, success := eff.all (· == 0) && cs, codespace := cs }

/-- `run_once(code, error_model, decoder, error_rate, rng)` with the generator at
    position `pos`; `probs = error_model.probability_distribution(code, error_rate)`. -/
def runOnce (dt : DType) (c : CodeMats) (probs : List QubitProbs) (rate : Rat)
    (decode : List Nat → List Nat) (u : Nat → Rat) (pos : Nat) : Except SimErr Trial :=
  if rateOk rate then .ok (classify dt c (generate probs u pos) decode)
  else .error .rate

/-! ### `DirectSimulation` -/

/-- everything fixed at construction time -/
structure Config where
  dt : DType
  code : CodeMats
  /-- `error_model.probability_distribution(code, error_rate)`, one entry per qubit -/
  probs : List QubitProbs
  rate : Rat
  /-- number of earlier trials ↦ syndrome ↦ correction -/
  decode : Nat → List Nat → List Nat

/-- `_results` (without `wall_time`) plus the read position of `self.rng` -/
structure State where
  nRuns : Nat
  effectiveError : List (List Nat)
  success : List Bool
  codespace : List Bool
  pos : Nat
  deriving Repr, DecidableEq

/-- state after `__init__` -/
def State.init : State := ⟨0, [], [], [], 0⟩

/-- one iteration of the loop of `_run`: the shot's values are appended to the lists that
    are keys of `_results` (`effective_error`, `success`, `codespace`), then
    `n_runs += 1`.  `run_once` raises before anything is appended. -/
def step (cfg : Config) (u : Nat → Rat) (s : State) : Except SimErr State :=
  match runOnce cfg.dt cfg.code cfg.probs cfg.rate (cfg.decode s.nRuns) u s.pos with
  | .error e => .error e
  | .ok t => .ok
      { nRuns := s.nRuns + 1
        effectiveError := s.effectiveError ++ [t.effectiveError]
        success := s.success ++ [t.success]
        codespace := s.codespace ++ [t.codespace]
        pos := s.pos + cfg.probs.length }

/-- `run(n_runs)` = `for i_run in range(n_runs): …` -/
def run (cfg : Config) (u : Nat → Rat) : Nat → State → Except SimErr State
  | 0, s => .ok s
  | k + 1, s =>
    match step cfg u s with
    | .error e => .error e
    | .ok s' => run cfg u k s'

/-- a history of `run(k)` calls -/
def runs (cfg : Config) (u : Nat → Rat) : List Nat → State → Except SimErr State
  | [], s => .ok s
  | k :: ks, s =>
    match run cfg u k s with
    | .error e => .error e
    | .ok s' => runs cfg u ks s'

/-- `get_results()`; `pEst = none` is `nan`; `seRadicand` is the argument of the square
    root in `p_se` (`none` = `nan`). -/
structure Summary where
  nSuccess : Nat
  nFail : Nat
  nRuns : Nat
  pEst : Option Rat
  seRadicand : Option Rat
  deriving Repr, DecidableEq

/-- ```
    success = np.array(self.results['success'])
    n_fail = np.sum(~success) if len(success) > 0 else 0
    n_success = np.sum(success);  n_runs = len(success)
    p_est = n_fail / n_runs if n_runs != 0 else nan
    p_se = sqrt(p_est * (1 - p_est) / (n_runs + 1))
    ``` -/
def getResults (s : State) : Summary :=
  let n := s.success.length
  let nFail := if n > 0 then (s.success.map (!·)).count true else 0
  let pEst : Option Rat := if n ≠ 0 then some ((nFail : Rat) / (n : Rat)) else none
  { nSuccess := s.success.count true
    nFail := nFail
    nRuns := n
    pEst := pEst
    seRadicand := pEst.map fun p => p * (1 - p) / ((n : Rat) + 1) }

/-! ### finite distributions (calibration) -/

/-- a finite distribution: outcomes with rational weights -/
abbrev Dist (α : Type) := List (α × Rat)

def Dist.total {α} (d : Dist α) : Rat := (d.map (·.2)).sum

/-- expectation of `f` -/
def Dist.expect {α} (d : Dist α) (f : α → Rat) : Rat := (d.map fun x => x.2 * f x.1).sum

/-- independent product of a list of factors: outcomes are the tuples (as lists), weights
    multiply.  `prodDist (qubits.map channel)` is the i.i.d. Pauli channel on a code,
    `prodDist (List.replicate N d)` is `N` independent trials. -/
def prodDist {α} : List (Dist α) → Dist (List α)
  | [] => [([], 1)]
  | d :: ds => d.flatMap fun x => (prodDist ds).map fun y => (x.1 :: y.1, x.2 * y.2)

/-- single-qubit channel as a distribution -/
def QubitProbs.dist (q : QubitProbs) : Dist Pauli :=
  [(Pauli.I, q.pI), (Pauli.X, q.pX), (Pauli.Y, q.pY), (Pauli.Z, q.pZ)]

/-- the product channel on BSF errors -/
def channel (probs : List QubitProbs) : Dist (List Nat) :=
  (prodDist (probs.map QubitProbs.dist)).map fun x => (pauliToBsf x.1, x.2)

/-- failure indicator of one error for a decoder that is a function of the syndrome -/
def failInd (dt : DType) (c : CodeMats) (decode : List Nat → List Nat) (e : List Nat) : Rat :=
  if (classify dt c e decode).success then 0 else 1

/-- exact failure probability of (code, channel, decoder): the sum over all `4^n` errors -/
def exactFailProb (dt : DType) (c : CodeMats) (probs : List QubitProbs)
    (decode : List Nat → List Nat) : Rat :=
  (channel probs).expect (failInd dt c decode)

/-- number of failed trials in a list of outcomes -/
def countFail {α} (fail : α → Bool) (xs : List α) : Nat := (xs.filter fail).length

end Panqec.Sim
