/-
Coordinate systems and face/vertex stabilizers of the four 3-D lattices the sweep
decoders are declared for (`allowed_codes`), transcribed from

  panqec/codes/surface_3d/_toric_3d_code.py          (Toric3DCode)
  panqec/codes/surface_3d/_planar_3d_code.py         (Planar3DCode)
  panqec/codes/surface_3d/_rotated_planar_3d_code.py (RotatedPlanar3DCode)
  panqec/codes/surface_3d/_rotated_toric_3d_code.py  (RotatedToric3DCode)

Only what C10 needs: `get_qubit_coordinates`, `get_stabilizer_coordinates`,
`stabilizer_type`, `get_stabilizer`.  Self-contained on purpose (the general lattice
models of C01/C02 are written elsewhere).  Executable, no Mathlib.
-/
import PanqecVerif.Model.Bits

namespace Panqec.Sweep

/-- a lattice location `(x, y, z)` -/
abbrev Loc := Int × Int × Int
/-- a Python `Operator` dict in insertion order (keys distinct) -/
abbrev Op := List (Loc × Pauli)

/-- Python `range(a, b, 2)` -/
def range2 (a b : Int) : List Int :=
  (List.range ((b - a + 1) / 2).toNat).map fun (i : Nat) => a + 2 * (i : Int)

/-- `for x in A: for y in B: for z in C: append((x, y, z))` -/
def prod3 (A B C : List Int) : List Loc :=
  A.flatMap fun x => B.flatMap fun y => C.map fun z => (x, y, z)

/-- `operator[k] = v` on a dict kept in insertion order -/
def dictSet (op : Op) (k : Loc) (v : Pauli) : Op :=
  if op.any (fun e => e.1 == k) then op.map (fun e => if e.1 == k then (k, v) else e)
  else op ++ [(k, v)]

def addLoc (a d : Loc) : Loc := (a.1 + d.1, a.2.1 + d.2.1, a.2.2 + d.2.2)

/-- The part of a `StabilizerCode` object the sweep decoders read. -/
structure Lattice where
  size : Nat × Nat × Nat
  /-- `code.qubit_coordinates` -/
  qubits : List Loc
  /-- `code.stabilizer_coordinates` -/
  stabs : List Loc
  /-- `code.stabilizer_type(loc) == 'face'` (only evaluated on stabilizer locations) -/
  isFace : Loc → Bool
  /-- `code.get_stabilizer(loc)` -/
  stabOp : Loc → Op
  /-- `code.id == 'RotatedToric3DCode'`: the test of `RotatedSweepDecoder3D._wrap` (the only
      class of `allowed_codes` that is periodic in x and y) -/
  rotSeam : Bool := false

/-- `max(code.size)` -/
def Lattice.maxSize (l : Lattice) : Nat := max l.size.1 (max l.size.2.1 l.size.2.2)

/-- `for d in delta: q = f(loc + d); if is_qubit(q): operator[q] = pauli` -/
def buildOp (qubits : List Loc) (cands : List (Loc × Pauli)) : Op :=
  cands.foldl (fun op c => if qubits.contains c.1 then dictSet op c.1 c.2 else op) []

/-! ### Toric3DCode -/

def toricQubits (Lx Ly Lz : Nat) : List Loc :=
  prod3 (range2 1 (2*Lx)) (range2 0 (2*Ly)) (range2 0 (2*Lz)) ++
  prod3 (range2 0 (2*Lx)) (range2 1 (2*Ly)) (range2 0 (2*Lz)) ++
  prod3 (range2 0 (2*Lx)) (range2 0 (2*Ly)) (range2 1 (2*Lz))

def toricStabs (Lx Ly Lz : Nat) : List Loc :=
  prod3 (range2 0 (2*Lx)) (range2 0 (2*Ly)) (range2 0 (2*Lz)) ++
  prod3 (range2 1 (2*Lx)) (range2 1 (2*Ly)) (range2 0 (2*Lz)) ++
  prod3 (range2 0 (2*Lx)) (range2 1 (2*Ly)) (range2 1 (2*Lz)) ++
  prod3 (range2 1 (2*Lx)) (range2 0 (2*Ly)) (range2 1 (2*Lz))

/-- `stabilizer_type` of Toric3DCode and Planar3DCode -/
def cubicIsFace (l : Loc) : Bool := !(l.1 % 2 == 0 && l.2.1 % 2 == 0)

/-- the `delta` list chosen by `get_stabilizer` for a face of the cubic lattices;
    `none` = no branch taken (Python: `UnboundLocalError`) -/
def cubicFaceDeltas (l : Loc) : Option (List Loc) :=
  if l.2.2 % 2 == 0 then some [(-1, 0, 0), (1, 0, 0), (0, -1, 0), (0, 1, 0)]
  else if l.1 % 2 == 0 then some [(0, -1, 0), (0, 1, 0), (0, 0, -1), (0, 0, 1)]
  else if l.2.1 % 2 == 0 then some [(-1, 0, 0), (1, 0, 0), (0, 0, -1), (0, 0, 1)]
  else none

def wrap3 (Lx Ly Lz : Nat) (l : Loc) : Loc :=
  (l.1 % (2 * (Lx : Int)), l.2.1 % (2 * (Ly : Int)), l.2.2 % (2 * (Lz : Int)))

def toricStabOp (Lx Ly Lz : Nat) (l : Loc) : Op :=
  let qs := toricQubits Lx Ly Lz
  if cubicIsFace l then
    match cubicFaceDeltas l with
    | some ds => buildOp qs (ds.map fun d => (wrap3 Lx Ly Lz (addLoc l d), Pauli.X))
    | none => []
  else
    buildOp qs ([(-1, 0, 0), (1, 0, 0), (0, -1, 0), (0, 1, 0), (0, 0, -1), (0, 0, 1)].map
      fun d => (wrap3 Lx Ly Lz (addLoc l d), Pauli.Z))

def toric3D (Lx Ly Lz : Nat) : Lattice where
  size := (Lx, Ly, Lz)
  qubits := toricQubits Lx Ly Lz
  stabs := toricStabs Lx Ly Lz
  isFace := cubicIsFace
  stabOp := toricStabOp Lx Ly Lz

/-! ### Planar3DCode -/

def planarQubits (Lx Ly Lz : Nat) : List Loc :=
  prod3 (range2 1 (2*Lx+1)) (range2 0 (2*Ly)) (range2 0 (2*Lz)) ++
  prod3 (range2 2 (2*Lx)) (range2 1 (2*Ly-1)) (range2 0 (2*Lz)) ++
  prod3 (range2 2 (2*Lx)) (range2 0 (2*Ly)) (range2 1 (2*Lz-1))

def planarStabs (Lx Ly Lz : Nat) : List Loc :=
  prod3 (range2 2 (2*Lx)) (range2 0 (2*Ly)) (range2 0 (2*Lz)) ++
  prod3 (range2 1 (2*Lx+1)) (range2 1 (2*Ly-1)) (range2 0 (2*Lz)) ++
  prod3 (range2 2 (2*Lx)) (range2 1 (2*Ly-1)) (range2 1 (2*Lz-1)) ++
  prod3 (range2 1 (2*Lx+1)) (range2 0 (2*Ly)) (range2 1 (2*Lz-1))

def planarStabOp (Lx Ly Lz : Nat) (l : Loc) : Op :=
  let qs := planarQubits Lx Ly Lz
  if cubicIsFace l then
    match cubicFaceDeltas l with
    | some ds => buildOp qs (ds.map fun d => (addLoc l d, Pauli.X))
    | none => []
  else
    buildOp qs ([(1, 0, 0), (-1, 0, 0), (0, 1, 0), (0, -1, 0), (0, 0, 1), (0, 0, -1)].map
      fun d => (addLoc l d, Pauli.Z))

def planar3D (Lx Ly Lz : Nat) : Lattice where
  size := (Lx, Ly, Lz)
  qubits := planarQubits Lx Ly Lz
  stabs := planarStabs Lx Ly Lz
  isFace := cubicIsFace
  stabOp := planarStabOp Lx Ly Lz

/-! ### RotatedPlanar3DCode -/

def xyMod4 (l : Loc) : Int := (l.1 + l.2.1) % 4

def rotPlanarQubits (Lx Ly Lz : Nat) : List Loc :=
  prod3 (range2 1 (2*Lx)) (range2 1 (2*Ly)) (range2 1 (2*Lz)) ++
  (prod3 (range2 2 (2*Lx)) (range2 0 (2*Ly+1)) (range2 2 (2*Lz))).filter (fun l => xyMod4 l == 2)

def rotPlanarStabs (Lx Ly Lz : Nat) : List Loc :=
  (prod3 (range2 2 (2*Lx)) (range2 0 (2*Ly+1)) (range2 1 (2*Lz))).filter (fun l => xyMod4 l == 2) ++
  (prod3 (range2 0 (2*Lx+1)) (range2 2 (2*Ly)) (range2 1 (2*Lz))).filter (fun l => xyMod4 l == 0) ++
  prod3 (range2 1 (2*Lx+1)) (range2 1 (2*Ly)) (range2 2 (2*Lz))

/-- `stabilizer_type` of both rotated 3-D codes -/
def rotIsFace (l : Loc) : Bool := !(xyMod4 l == 2 && l.2.2 % 2 == 1)

def rotVertexDeltasPlanar : List Loc :=
  [(-1, -1, 0), (-1, 1, 0), (1, -1, 0), (1, 1, 0), (0, 0, -1), (0, 0, 1)]
def rotVertexDeltasToric : List Loc :=
  [(1, -1, 0), (-1, 1, 0), (1, 1, 0), (-1, -1, 0), (0, 0, 1), (0, 0, -1)]

/-- face `delta` of both rotated codes -/
def rotFaceDeltas (l : Loc) : Option (List Loc) :=
  if l.2.2 % 2 == 1 then some [(-1, -1, 0), (1, 1, 0), (-1, 1, 0), (1, -1, 0)]
  else if xyMod4 l == 0 then some [(-1, -1, 0), (1, 1, 0), (0, 0, -1), (0, 0, 1)]
  else if xyMod4 l == 2 then some [(-1, 1, 0), (1, -1, 0), (0, 0, -1), (0, 0, 1)]
  else none

def rotPlanarStabOp (Lx Ly Lz : Nat) (l : Loc) : Op :=
  let qs := rotPlanarQubits Lx Ly Lz
  if rotIsFace l then
    match rotFaceDeltas l with
    | some ds => buildOp qs (ds.map fun d => (addLoc l d, Pauli.X))
    | none => []
  else
    buildOp qs (rotVertexDeltasPlanar.map fun d => (addLoc l d, Pauli.Z))

def rotPlanar3D (Lx Ly Lz : Nat) : Lattice where
  size := (Lx, Ly, Lz)
  qubits := rotPlanarQubits Lx Ly Lz
  stabs := rotPlanarStabs Lx Ly Lz
  isFace := rotIsFace
  stabOp := rotPlanarStabOp Lx Ly Lz

/-! ### RotatedToric3DCode -/

def rotToricQubits (Lx Ly Lz : Nat) : List Loc :=
  prod3 (range2 1 (2*Lx)) (range2 1 (2*Ly)) (range2 1 (2*Lz)) ++
  (prod3 (range2 2 (2*Lx+1)) (range2 2 (2*Ly+1)) (range2 2 (2*Lz))).filter (fun l => xyMod4 l == 2)

def rotToricStabs (Lx Ly Lz : Nat) : List Loc :=
  (prod3 (range2 2 (2*Lx+1)) (range2 2 (2*Ly+1)) (range2 1 (2*Lz))).filter (fun l => xyMod4 l == 2) ++
  (prod3 (range2 2 (2*Lx+1)) (range2 2 (2*Ly+1)) (range2 1 (2*Lz))).filter (fun l => xyMod4 l == 0) ++
  (prod3 (range2 1 (2*Lx)) (range2 1 (2*Ly)) (range2 2 (2*Lz))).filter
    (fun l => !((Ly % 2 == 1 && l.2.1 == 1) || (Lx % 2 == 1 && l.1 == 1)))

/-- the seam of `RotatedToric3DCode.get_stabilizer`:
    `if qx > 2*Lx: qx = 1 elif qx == 0: qx = 2*Lx` (same for y) -/
def seam (L : Nat) (q : Int) : Int :=
  if q > 2 * (L : Int) then 1 else if q == 0 then 2 * (L : Int) else q

def flipXZ : Pauli → Pauli
  | .X => .Z | .Z => .X | p => p

def rotToricStabOp (Lx Ly Lz : Nat) (l : Loc) : Op :=
  let qs := rotToricQubits Lx Ly Lz
  let pauli := if rotIsFace l then Pauli.X else Pauli.Z
  let defectX := Lx % 2 == 1 && l.1 == 2 * (Lx : Int)
  let defectY := Ly % 2 == 1 && l.2.1 == 2 * (Ly : Int)
  let ds : Option (List Loc) := if rotIsFace l then rotFaceDeltas l else some rotVertexDeltasToric
  match ds with
  | none => []
  | some ds =>
    buildOp qs (ds.map fun d =>
      let q0 := addLoc l d
      let q : Loc := (seam Lx q0.1, seam Ly q0.2.1, q0.2.2)
      let hasDefect := (defectX && q.1 == 1) != (defectY && q.2.1 == 1)
      (q, if hasDefect then flipXZ pauli else pauli))

def rotToric3D (Lx Ly Lz : Nat) : Lattice where
  size := (Lx, Ly, Lz)
  qubits := rotToricQubits Lx Ly Lz
  stabs := rotToricStabs Lx Ly Lz
  isFace := rotIsFace
  stabOp := rotToricStabOp Lx Ly Lz
  rotSeam := true

end Panqec.Sweep
