/-
Model of the object history of `StabilizerCode.deform`
(`panqec/codes/base/_stabilizer_code.py`, `deform`, and the cached properties
`stabilizer_matrix`, `logicals_x`, `logicals_z`, `k`).

What the Python does, in the order it does it:

    def deform(self, deformation_name, **kwargs):
        self.__init__(*self.size)                       -- (1) every cache reset
        ...
        if not hasattr(self, '_get_undeformed_stabilizer'):   -- (2) capture ONCE
            self._get_undeformed_stabilizer = copy(MethodType(self.get_stabilizer, self))
        (same for logicals_x / logicals_z)
        def get_stabilizer(self, location):              -- (3) wrapper: the captured
            stab = self._get_undeformed_stabilizer(location)   getter, relabelled entry by
            for loc in stab.keys():                            entry with
                stab[loc] = self.get_deformation(loc, name, **kwargs)[stab[loc]]
            return stab
        ...
        self.get_stabilizer = MethodType(get_stabilizer, self)  -- (4) install

`__init__` does not touch the instance attributes `get_stabilizer`, `get_logicals_*`,
`_get_undeformed_*` (they are not assigned there), so they survive step (1).

A getter is a deterministic function of the location, so it is represented by the table
of its values: a `CodeData` (coordinates + the operators returned for every stabilizer
location + the two logical lists).  `get_deformation(loc, name, **kwargs)` for the chosen
`(name, kwargs)` is the function `D : Coord → PauliMap`.

The three `hasattr` tests are made and the three attributes are set in the same call, so
one `Option` (`captured`) stands for all three.

Assumption recorded here (not checked by this model): the class getters build a fresh
dict on every call, so the in-place relabelling of the wrapper does not leak into later
calls.

Executable, total, no Mathlib.
-/
import PanqecVerif.Model.Code

namespace Panqec

/-! ### inverse of a single-qubit relabelling -/

/-- the letter among X, Y, Z that `m` sends to `t` (`I` if there is none) -/
def PauliMap.preimage (m : PauliMap) (t : Pauli) : Pauli :=
  if m.x = t then .X else if m.y = t then .Y else if m.z = t then .Z else .I

/-- inverse relabelling (a genuine inverse when `m.isPerm`) -/
def PauliMap.inv (m : PauliMap) : PauliMap :=
  ⟨m.preimage .X, m.preimage .Y, m.preimage .Z⟩

namespace Deform

/-- the three cached matrices an object exposes (`none` inside = `KeyError`) -/
structure Matrices where
  H  : Option (List (List Nat))
  Lx : Option (List (List Nat))
  Lz : Option (List (List Nat))
  deriving Repr, DecidableEq

/-- what the property code computes from a set of getters -/
def matricesOf (c : CodeData) : Matrices :=
  ⟨stabilizerMatrix c, logicalsX c, logicalsZ c⟩

/-- State of one code object. -/
structure Obj where
  /-- the class's own `get_stabilizer` / `get_logicals_x` / `get_logicals_z`
      (and the coordinates, which `deform` never changes) -/
  orig : CodeData
  /-- `_get_undeformed_*`: `none` while `hasattr` is false -/
  captured : Option CodeData
  /-- what `self.get_stabilizer` / `self.get_logicals_*` return now -/
  current : CodeData
  /-- `_stabilizer_matrix` (`none` = still the empty row) -/
  cachedH : Option (Option (List (List Nat)))
  /-- `_logicals_x` (`none` = `None`) -/
  cachedLx : Option (Option (List (List Nat)))
  /-- `_logicals_z` -/
  cachedLz : Option (Option (List (List Nat)))

/-- a freshly constructed object -/
def Obj.init (c : CodeData) : Obj :=
  { orig := c, captured := none, current := c,
    cachedH := none, cachedLx := none, cachedLz := none }

/-- Operations on an object. -/
inductive Step where
  /-- `code.deform(name, **kwargs)` with `D = get_deformation(·, name, **kwargs)` -/
  | deform (D : Coord → PauliMap)
  /-- read `code.stabilizer_matrix` -/
  | accessH
  /-- read `code.logicals_x` (also what `code.k` does) -/
  | accessLx
  /-- read `code.logicals_z` -/
  | accessLz

/-- `deform` as the code performs it. -/
def Obj.deform (s : Obj) (D : Coord → PauliMap) : Obj :=
  -- (2) capture only if not captured yet: the getters installed at that time
  let cap : CodeData := match s.captured with
    | some c => c
    | none => s.current
  { orig := s.orig,
    captured := some cap,
    -- (3)+(4) wrappers around the captured getters
    current := cap.deform D,
    -- (1) `__init__` resets every cache
    cachedH := none, cachedLx := none, cachedLz := none }

/-- BROKEN variant (regression example only): the current getters are captured on
    every `deform`, i.e. the wrapper is applied to already deformed getters. -/
def Obj.deformBroken (s : Obj) (D : Coord → PauliMap) : Obj :=
  { orig := s.orig,
    captured := some s.current,
    current := s.current.deform D,
    cachedH := none, cachedLx := none, cachedLz := none }

/-- cached property: compute on first access, afterwards return the cache -/
def Obj.readH (s : Obj) : Obj × Option (List (List Nat)) :=
  match s.cachedH with
  | some m => (s, m)
  | none => let m := stabilizerMatrix s.current; ({ s with cachedH := some m }, m)

def Obj.readLx (s : Obj) : Obj × Option (List (List Nat)) :=
  match s.cachedLx with
  | some m => (s, m)
  | none => let m := logicalsX s.current; ({ s with cachedLx := some m }, m)

def Obj.readLz (s : Obj) : Obj × Option (List (List Nat)) :=
  match s.cachedLz with
  | some m => (s, m)
  | none => let m := logicalsZ s.current; ({ s with cachedLz := some m }, m)

/-- one operation (`broken` selects the regression variant of `deform`) -/
def Obj.step (broken : Bool) (s : Obj) : Step → Obj
  | .deform D => if broken then s.deformBroken D else s.deform D
  | .accessH => s.readH.1
  | .accessLx => s.readLx.1
  | .accessLz => s.readLz.1

/-- a whole history on one object -/
def Obj.run (broken : Bool) (s : Obj) (ops : List Step) : Obj :=
  ops.foldl (Obj.step broken) s

/-- What a caller sees when reading the three matrices now (in any order: the three
    caches are independent).  `n` is `len(get_qubit_coordinates())`, independent of the
    getters; `k` is the number of rows of `logicals_x`. -/
def Obj.observe (s : Obj) : Matrices :=
  ⟨s.readH.2, s.readLx.2, s.readLz.2⟩

/-- the deformation of the last `deform` in a history, if any -/
def lastDeform : List Step → Option (Coord → PauliMap)
  | [] => none
  | .deform D :: rest => (match lastDeform rest with | some D' => some D' | none => some D)
  | _ :: rest => lastDeform rest

/-- the observables the property prescribes for a history on a code with class
    getters `orig`: the last deformation applied to the UNDEFORMED code. -/
def expected (orig : CodeData) (ops : List Step) : Matrices :=
  match lastDeform ops with
  | none => matricesOf orig
  | some D => matricesOf (orig.deform D)

end Deform
end Panqec
