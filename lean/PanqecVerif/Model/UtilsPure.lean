/-
Model of the pure integer / list helpers of `panqec/utils.py` (no floats, no formatting of numbers):
`list_where`, `list_where_str`, `set_where`, `dict_where`, `nested_map`, `face_coords`, `edge_coords`,
`find_nearest` (integer data).  Executable, total, no Mathlib.
-/
namespace Panqec.UtilsPure

inductive PyErr | valueError | indexError | typeError
  deriving Repr, DecidableEq

/-- positions `k, k+1, …` of the nonzero entries of a list -/
def idxNonzero : Nat → List Int → List Nat
  | _, [] => []
  | k, v :: vs => if v ≠ 0 then k :: idxNonzero (k + 1) vs else idxNonzero (k + 1) vs

/-- `list_where` of a 1-D array: the index tuples `(i,)` of the nonzero entries, ascending -/
def listWhere1 (v : List Int) : List (List Nat) := (idxNonzero 0 v).map fun i => [i]

def listWhere2Aux : Nat → List (List Int) → List (List Nat)
  | _, [] => []
  | i, r :: rs => (idxNonzero 0 r).map (fun j => [i, j]) ++ listWhere2Aux (i + 1) rs

/-- `list_where` of a rectangular 2-D array: `(i, j)` of the nonzero entries in lexicographic order -/
def listWhere2 (rows : List (List Int)) : List (List Nat) := listWhere2Aux 0 rows

def listWhere3Aux : Nat → List (List (List Int)) → List (List Nat)
  | _, [] => []
  | i, m :: ms => (listWhere2 m).map (fun t => i :: t) ++ listWhere3Aux (i + 1) ms

/-- `list_where` of a rectangular 3-D array -/
def listWhere3 (a : List (List (List Int))) : List (List Nat) := listWhere3Aux 0 a

/-- `list_where_str`: the digits of every index tuple glued together, tuples separated by a blank -/
def whereStr (tuples : List (List Nat)) : String :=
  " ".intercalate (tuples.map fun t => String.join (t.map toString))

/-- `dict_where(signs)`: the keys whose value is truthy (a Python set; here in insertion order) -/
def dictWhere (d : List (Nat × Int)) : List Nat := (d.filter fun kv => kv.2 ≠ 0).map (·.1)

/-- nested Python lists of integers -/
inductive NL
  | leaf (v : Int)
  | node (xs : List NL)
  deriving Repr

mutual
/-- `nested_map(f)(item)` -/
def NL.map (f : Int → Int) : NL → NL
  | .leaf v => .leaf (f v)
  | .node xs => .node (NL.mapList f xs)
def NL.mapList (f : Int → Int) : List NL → List NL
  | [] => []
  | x :: xs => NL.map f x :: NL.mapList f xs
end

/-- Python indexing of a length-3 sequence (negative indices count from the end) -/
def pyIndex3 (i : Int) : Option Nat :=
  if 0 ≤ i ∧ i < 3 then some i.toNat
  else if -3 ≤ i ∧ i < 0 then some (i + 3).toNat
  else none

/-- `np.mod` on integers: sign of the divisor, and 0 for a zero divisor -/
def npMod (a m : Int) : Int := if m = 0 then 0 else Int.fmod a m

/-- rows of `diff` in `face_coords` -/
def faceDiff : Nat → List Int
  | 0 => [0, 1, 1]
  | 1 => [1, 0, 1]
  | _ => [1, 1, 0]

/-- rows of `np.eye(3)` in `edge_coords` -/
def edgeDiff : Nat → List Int
  | 0 => [1, 0, 0]
  | 1 => [0, 1, 0]
  | _ => [0, 0, 1]

/-- `2 * np.array(size)` broadcast against a length-3 vector -/
def limOf (size : List Int) : Option (List Int) :=
  match size with
  | [a] => some [2 * a, 2 * a, 2 * a]
  | [a, b, c] => some [2 * a, 2 * b, 2 * c]
  | _ => none

/-- one `(axis, x, y, z)` item -/
def coordOne (diff : Nat → List Int) (size : List Int) (item : List Int) : Except PyErr (List Int) :=
  match item with
  | [i, x, y, z] =>
    match pyIndex3 i with
    | none => .error .indexError
    | some k =>
      match limOf size with
      | none => .error .valueError
      | some lim => .ok (List.zipWith npMod (List.zipWith (· + ·) [2 * x, 2 * y, 2 * z] (diff k)) lim)
  | _ => .error .valueError

/-- the loop of `face_coords` / `edge_coords`: the first failing item raises -/
def coordsGen (diff : Nat → List Int) (items : List (List Int)) (size : List Int) :
    Except PyErr (List (List Int)) :=
  items.mapM (coordOne diff size)

def faceCoords := coordsGen faceDiff
def edgeCoords := coordsGen edgeDiff

/-- first element of `a :: as` minimising `|· - x|` (numpy `argmin` keeps the first minimum) -/
def nearestAux (x : Int) : Int → List Int → Int
  | best, [] => best
  | best, a :: as => if (a - x).natAbs < (best - x).natAbs then nearestAux x a as else nearestAux x best as

/-- `find_nearest(array, value)` on a 1-D integer array -/
def findNearest (arr : List Int) (x : Int) : Except PyErr Int :=
  match arr with
  | [] => .error .valueError
  | a :: as => .ok (nearestAux x a as)

end Panqec.UtilsPure
