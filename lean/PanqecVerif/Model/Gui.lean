/-
Model of the table side of the visualizer backend (`panqec/gui/_gui.py`) and of
`StabilizerCode.stabilizer_representation` / `qubit_representation`
(`data[class]["stabilizers"|"qubits"][picture][type]` + colormap substitution).
The tables themselves are regenerated from the source (`Generated/Gui.lean`).  No Mathlib.
-/
namespace Panqec.Gui

structure CodeMenu where
  menuName : String
  cls : String
  dimension : Nat
  deformations : List String
  stabTypes : List String
  deriving Repr, DecidableEq

structure DecoderMenu where
  menuName : String
  cls : String
  /-- `allowed_codes` (`none` = all codes) -/
  allowed : Option (List String)
  deriving Repr, DecidableEq

/-- one drawable description in `gui-config.json` -/
structure Entry where
  cls : String
  /-- "stabilizers" or "qubits" -/
  kind : String
  picture : String
  /-- stabilizer type ("" for qubits) -/
  typ : String
  object : String
  /-- colour keys → colour names -/
  colors : List (String × String)
  hasOpacity : Bool
  hasParams : Bool
  deriving Repr, DecidableEq

def pictures : List String := ["kitaev", "rotated"]

def lookup (cfg : List Entry) (cls kind picture typ : String) : Option Entry :=
  cfg.find? fun e => e.cls == cls && e.kind == kind && e.picture == picture && e.typ == typ

def resolve (colormap : List (String × String)) (name : String) : Option String :=
  (colormap.find? (·.1 == name)).map (·.2)

/-- the colour keys each kind of object must carry -/
def requiredColorKeys (kind : String) : List String :=
  if kind == "qubits" then ["I", "X", "Y", "Z"] else ["activated", "deactivated"]

/-- a description is complete: object, params (qubits also need it for the axis), opacity,
    and every required colour key present with a colour name known to the colormap -/
def entryComplete (colormap : List (String × String)) (e : Entry) : Bool :=
  e.object != "" && e.hasOpacity && e.hasParams &&
  (requiredColorKeys e.kind).all fun k =>
    match e.colors.find? (·.1 == k) with
    | some (_, name) => (resolve colormap name).isSome
    | none => false

/-- `stabilizer_representation` / `qubit_representation` without the per-class geometry tweaks:
    (object, resolved colours) or the KeyError the lookup raises -/
def representation (cfg : List Entry) (colormap : List (String × String))
    (cls kind picture typ : String) : Except String (String × List (String × String)) :=
  match lookup cfg cls kind picture typ with
  | none => .error "KeyError"
  | some e =>
    let cols := (requiredColorKeys kind).mapM fun k =>
      match e.colors.find? (·.1 == k) with
      | some (_, name) => (resolve colormap name).map fun hex => (k, hex)
      | none => none
    match cols with
    | none => .error "KeyError"
    | some cs => .ok (e.object, cs)

/-- every choice the menus offer has a complete description -/
def guiComplete (codes : List CodeMenu) (cfg : List Entry) (colormap : List (String × String)) : Bool :=
  codes.all fun c => pictures.all fun pic =>
    (match lookup cfg c.cls "qubits" pic "" with
     | some e => entryComplete colormap e
     | none => false) &&
    c.stabTypes.all fun t =>
      match lookup cfg c.cls "stabilizers" pic t with
      | some e => entryComplete colormap e
      | none => false

/-- `send_decoder_names`: decoders whose `allowed_codes` is None or contains the class -/
def offeredDecoders (decs : List DecoderMenu) (cls : String) : List String :=
  (decs.filter fun d => match d.allowed with
    | none => true
    | some l => l.contains cls).map (·.menuName)

/-- `send_code_names` -/
def codeNames (codes : List CodeMenu) (dim : Nat) : List String :=
  (codes.filter (·.dimension == dim)).map (·.menuName)

/-- `send_deformation_names` (`none` = KeyError for an unknown menu name) -/
def deformationNames (codes : List CodeMenu) (menuName : String) : Option (List String) :=
  (codes.find? (·.menuName == menuName)).map (·.deformations)

/-- `send_code_data`, list part: one description per coordinate, in index order -/
def describeAll {α β} (coords : List α) (describe : α → β) : List β := coords.map describe

end Panqec.Gui
