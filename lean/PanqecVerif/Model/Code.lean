/-
Model of the generic part of `panqec/codes/base/_stabilizer_code.py`:
index maps, `to_bsf` / `from_bsf`, assembly of the parity-check matrix,
CSS blocks, syndrome, codespace / logical-effect / success tests, distance,
and `deform`.

A code is explicit data here (`CodeData`): the coordinate lists and the
operators the getters return.  The lattice classes (which compute these from a
size) live in `Model/Lattices/*`.
-/
import PanqecVerif.Model.Bits

namespace Panqec

abbrev Coord := List Int
/-- A Python `Operator` dict in insertion order (keys distinct). -/
abbrev Op := List (Coord × Pauli)

structure CodeData where
  qubits : List Coord
  stabs  : List Coord
  /-- `get_stabilizer(stabs[i])` for each i -/
  stabOps : List Op
  logX : List Op
  logZ : List Op
  deriving Repr

namespace CodeData

def n (c : CodeData) : Nat := c.qubits.length
def k (c : CodeData) : Nat := c.logX.length

end CodeData

/-- Does every key of the operator name a qubit (otherwise `qubit_index[...]`
    raises `KeyError`)? -/
def opSupported (qs : List Coord) (op : Op) : Bool :=
  op.all fun e => qs.contains e.1

/-- how many entries of `op` sit on `q` with a letter satisfying `f` -/
def opCount (op : Op) (q : Coord) (f : Pauli → Nat) : Nat :=
  (op.filter fun e => e.1 == q && f e.2 == 1).length

/-- `to_bsf`: start from zeros, `+= 1` at the X slot for X/Y and at the Z slot
    for Y/Z.  (`none` = KeyError.) -/
def toBsf (qs : List Coord) (op : Op) : Option (List Nat) :=
  if opSupported qs op then
    some (qs.map (fun q => opCount op q Pauli.xBit) ++
          qs.map (fun q => opCount op q Pauli.zBit))
  else none

/-- Row of the parity-check matrix: same increments, then `data %= 2`. -/
def stabRow (qs : List Coord) (op : Op) : Option (List Nat) :=
  (toBsf qs op).map fun v => v.map (· % 2)

/-- `stabilizer_matrix` (dense view), `none` on KeyError. -/
def stabilizerMatrix (c : CodeData) : Option (List (List Nat)) :=
  c.stabOps.mapM (stabRow c.qubits)

def logicalsX (c : CodeData) : Option (List (List Nat)) := c.logX.mapM (toBsf c.qubits)
def logicalsZ (c : CodeData) : Option (List (List Nat)) := c.logZ.mapM (toBsf c.qubits)

/-- `from_bsf`: dict built from the non-zero columns in ascending order: X block
    first (letter X, later upgraded to Y), then remaining Z-only positions. -/
def fromBsf (qs : List Coord) (v : List Nat) : Op :=
  let xs := xPart v
  let zs := zPart v
  let trip := qs.zip (xs.zip zs)
  (trip.filterMap fun (q, x, z) =>
      if x ≠ 0 then some (q, if z ≠ 0 then Pauli.Y else Pauli.X) else none) ++
  (trip.filterMap fun (q, x, z) =>
      if x = 0 ∧ z ≠ 0 then some (q, Pauli.Z) else none)

/-- `x_indices`: rows with at least one non-zero entry in the X block. -/
def xIndices (H : List (List Nat)) : List Bool := H.map fun r => (xPart r).any (· ≠ 0)
def zIndices (H : List (List Nat)) : List Bool := H.map fun r => (zPart r).any (· ≠ 0)

/-- `is_css`: no row is flagged in both masks. -/
def isCss (H : List (List Nat)) : Bool :=
  (List.zipWith (fun a b => a && b) (xIndices H) (zIndices H)).all (!·)

def maskSelect {α} (mask : List Bool) (l : List α) : List α :=
  (mask.zip l).filterMap fun (m, a) => if m then some a else none

/-- `Hx = H[:, :n][x_indices]` -/
def Hx (H : List (List Nat)) : List (List Nat) := maskSelect (xIndices H) (H.map xPart)
/-- `Hz = H[:, n:][z_indices]` -/
def Hz (H : List (List Nat)) : List (List Nat) := maskSelect (zIndices H) (H.map zPart)

def extractXSyndrome (H : List (List Nat)) (s : List Nat) : List Nat := maskSelect (xIndices H) s
def extractZSyndrome (H : List (List Nat)) (s : List Nat) : List Nat := maskSelect (zIndices H) s

/-- `measure_syndrome(e) = bs_prod(H, e)`; `H` is csr so this is the sparse path. -/
def measureSyndrome (H : List (List Nat)) (e : List Nat) : List Nat :=
  bsProdRows .u8 true H e

def inCodespace (H : List (List Nat)) (e : List Nat) : Bool :=
  (measureSyndrome H e).all (· == 0)

/-- `get_effective_error` for a single error: `[bs_prod(Lz, e) | bs_prod(Lx, e)]`. -/
def logicalErrors (dt : DType) (Lx Lz : List (List Nat)) (e : List Nat) : List Nat :=
  bsProdRows dt false Lz e ++ bsProdRows dt false Lx e

def isLogicalError (dt : DType) (Lx Lz : List (List Nat)) (e : List Nat) : Bool :=
  (logicalErrors dt Lx Lz e).any (· != 0)

def isSuccess (dt : DType) (H Lx Lz : List (List Nat)) (e : List Nat) : Bool :=
  inCodespace H e && !isLogicalError dt Lx Lz e

/-- `code.d`: minimum over all listed logicals of the number of qubits in the support. -/
def rowWeight (r : List Nat) : Nat :=
  (List.zipWith (fun x z => x != 0 || z != 0) (xPart r) (zPart r)).countP id

def listMin : List Nat → Option Nat
  | [] => none
  | a :: as => some (as.foldl min a)

/-- `none` models numpy raising on `min` of an empty array (k = 0). -/
def distance (Lx Lz : List (List Nat)) : Option Nat :=
  match listMin (Lx.map rowWeight), listMin (Lz.map rowWeight) with
  | some a, some b => some (min a b)
  | _, _ => none

/-! ### Deformation -/

/-- A single-qubit relabelling as `get_deformation` returns it: images of X, Y, Z. -/
structure PauliMap where
  x : Pauli
  y : Pauli
  z : Pauli
  deriving Repr, DecidableEq

def PauliMap.apply (m : PauliMap) : Pauli → Pauli
  | .I => .I | .X => m.x | .Y => m.y | .Z => m.z

def PauliMap.id : PauliMap := ⟨.X, .Y, .Z⟩
def PauliMap.swapXZ : PauliMap := ⟨.Z, .Y, .X⟩
def PauliMap.swapYZ : PauliMap := ⟨.X, .Z, .Y⟩

/-- is the map a permutation of {X, Y, Z}? -/
def PauliMap.isPerm (m : PauliMap) : Bool :=
  m.x ≠ .I && m.y ≠ .I && m.z ≠ .I && m.x ≠ m.y && m.y ≠ m.z && m.x ≠ m.z

def deformOp (D : Coord → PauliMap) (op : Op) : Op :=
  op.map fun (q, p) => (q, (D q).apply p)

def CodeData.deform (c : CodeData) (D : Coord → PauliMap) : CodeData :=
  { c with stabOps := c.stabOps.map (deformOp D),
           logX := c.logX.map (deformOp D),
           logZ := c.logZ.map (deformOp D) }

/-- the relabelling acting on a BSF vector, qubit by qubit -/
def deformBsf (Ds : List PauliMap) (v : List Nat) : List Nat :=
  let ps := List.zipWith (fun (D : PauliMap) p => D.apply p) Ds (bsfToPauli v)
  pauliToBsf ps

end Panqec

namespace Panqec

/-! ### The two assembly loops as the code writes them (folds with `+= 1`) -/

/-- `qubit_index[loc]`: position of the coordinate (`none` = KeyError). With distinct
    coordinates this is the index in `qubit_coordinates`. -/
def qubitIndex? (qs : List Coord) (q : Coord) : Option Nat :=
  let i := qs.idxOf q
  if i < qs.length then some i else none

def bump (v : List Nat) (i : Nat) : List Nat := v.modify i (· + 1)

/-- `to_bsf` as a loop over the dict entries: `bsf[idx] += 1` for X/Y, `bsf[n+idx] += 1` for Y/Z -/
def toBsfFold (qs : List Coord) (op : Op) : Option (List Nat) :=
  op.foldlM (init := List.replicate (2 * qs.length) 0) fun v (e : Coord × Pauli) =>
    match qubitIndex? qs e.1 with
    | none => none
    | some i =>
      let v := if e.2.xBit == 1 then bump v i else v
      let v := if e.2.zBit == 1 then bump v (qs.length + i) else v
      some v

/-- one row of `stabilizer_matrix`: the `sparse_dict` accumulation (`+= 1` or insert 1),
    written into a zero row, then `data %= 2`. -/
def sparseBump (d : List (Nat × Nat)) (key : Nat) : List (Nat × Nat) :=
  if d.any (·.1 == key) then d.map fun (k, c) => if k == key then (k, c + 1) else (k, c)
  else d ++ [(key, 1)]

def stabRowFold (qs : List Coord) (op : Op) : Option (List Nat) :=
  let acc := op.foldlM (init := ([] : List (Nat × Nat))) fun d (e : Coord × Pauli) =>
    match qubitIndex? qs e.1 with
    | none => none
    | some i =>
      let d := if e.2.xBit == 1 then sparseBump d i else d
      let d := if e.2.zBit == 1 then sparseBump d (qs.length + i) else d
      some d
  acc.map fun d =>
    (List.range (2 * qs.length)).map fun col =>
      match d.find? (·.1 == col) with
      | some (_, c) => c % 2
      | none => 0

def stabilizerMatrixFold (c : CodeData) : Option (List (List Nat)) :=
  c.stabOps.mapM (stabRowFold c.qubits)

end Panqec
