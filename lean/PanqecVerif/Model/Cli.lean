/-
Model of `panqec/cli.py`, part 1: `run_parallel` (property C14).

Executable, total, no Mathlib.  Everything is transcribed from the body of
`run_parallel` (panqec/cli.py), in the order the code evaluates it:

    i_node = job_idx - 1
    assert 1 <= job_idx <= n_nodes                      -- AssertionError
    n_cpu = multiprocessing.cpu_count()
    if not n_cores: n_cores = n_cpu
    assert n_cores <= n_cpu                             -- AssertionError
    n_tasks = n_nodes * n_cores
    list_inputs = glob(...); n_inputs = len(list_inputs)
    if n_inputs == 0: raise ValueError
    for i_core in range(n_cores):
        i_task = n_cores * i_node + i_core
        n_tasks_per_input = n_tasks // n_inputs
        i_input = i_task // n_tasks_per_input           -- ZeroDivisionError when n_tasks < n_inputs
        if i_input >= n_inputs: i_input = n_inputs - 1
        if i_input == n_inputs - 1:
            n_tasks_per_input = n_tasks_per_input + n_tasks % n_inputs
        i_task_in_input = i_task % n_tasks_per_input
        if i_input == n_inputs - 1:
            i_task_in_input = i_task - n_tasks // n_inputs * (n_inputs - 1)
        n_runs = trials // n_tasks_per_input
        if i_task_in_input == n_tasks_per_input - 1:
            n_runs += trials % n_tasks_per_input
        results_{str(i_task+1).zfill(len(str(n_tasks)))}.json.gz, progress_{…}.txt

All quantities are natural numbers (click.INT options; the harness feeds
non-negative values only; `n_cores = 0` stands for "option not given / falsy").
-/

namespace Panqec.Cli

/-! ### decimal rendering of naturals (`str(n)`, `str.zfill`) -/

/-- decimal digits of `n`, most significant first, with explicit fuel (`fuel ≥ n` suffices) -/
def decDigitsAux : Nat → Nat → List Nat
  | 0, n => [n % 10]
  | f + 1, n => if n < 10 then [n] else decDigitsAux f (n / 10) ++ [n % 10]

/-- decimal digits of `n`, most significant first (`str(n)` as digit values) -/
def decDigits (n : Nat) : List Nat := decDigitsAux n n

def digitChar : Nat → Char
  | 0 => '0' | 1 => '1' | 2 => '2' | 3 => '3' | 4 => '4'
  | 5 => '5' | 6 => '6' | 7 => '7' | 8 => '8' | 9 => '9'
  | _ => '?'

/-- value of a decimal digit character (inverse of `digitChar` on 0..9) -/
def charDigit (c : Char) : Nat := c.toNat - 48

/-- `str(n)` -/
def natStr (n : Nat) : List Char := (decDigits n).map digitChar

/-- `s.zfill(w)` for a string without sign -/
def zfill (w : Nat) (s : List Char) : List Char := List.replicate (w - s.length) '0' ++ s

/-- the zero-padded task number `str(i_task+1).zfill(len(str(n_tasks)))` -/
def taskNumber (nTasks iTask : Nat) : List Char :=
  zfill (natStr nTasks).length (natStr (iTask + 1))

/-- base name of the result file of a task (`compressed_output` is always `True` from the CLI) -/
def resultName (nTasks iTask : Nat) : List Char :=
  ['r', 'e', 's', 'u', 'l', 't', 's', '_'] ++ taskNumber nTasks iTask ++ ['.', 'j', 's', 'o', 'n', '.', 'g', 'z']

/-- base name of the progress log of a task -/
def progressName (nTasks iTask : Nat) : List Char :=
  ['p', 'r', 'o', 'g', 'r', 'e', 's', 's', '_'] ++ taskNumber nTasks iTask ++ ['.', 't', 'x', 't']

/-! ### the arithmetic of one task (`q = n_tasks // n_inputs`, `r = n_tasks % n_inputs`) -/

/-- `i_input` after clamping -/
def inputOf (q I t : Nat) : Nat := if t / q ≥ I then I - 1 else t / q

/-- `n_tasks_per_input` after the special case of the last input -/
def tpi (q r I j : Nat) : Nat := if j = I - 1 then q + r else q

/-- `i_task_in_input` (the `%` is taken with the already adjusted `n_tasks_per_input`, then
    overwritten for the last input) -/
def idxIn (q r I t : Nat) : Nat :=
  if inputOf q I t = I - 1 then t - q * (I - 1) else t % tpi q r I (inputOf q I t)

/-- `n_runs` of task `t` -/
def runsOf (q r I T t : Nat) : Nat :=
  if idxIn q r I t = tpi q r I (inputOf q I t) - 1
  then T / tpi q r I (inputOf q I t) + T % tpi q r I (inputOf q I t)
  else T / tpi q r I (inputOf q I t)

/-- the historical remainder (`n_runs += trials % n_runs`, before fix 51dca01); kept as a
    regression example only -/
def runsOfOld (q r I T t : Nat) : Nat :=
  if idxIn q r I t = tpi q r I (inputOf q I t) - 1
  then T / tpi q r I (inputOf q I t) + T % (T / tpi q r I (inputOf q I t))
  else T / tpi q r I (inputOf q I t)

structure Task where
  /-- index into `list_inputs` -/
  input : Nat
  nRuns : Nat
  resultFile : List Char
  logFile : List Char
deriving DecidableEq, Repr

/-- global task number `i_task = n_cores * i_node + i_core` -/
def taskIndex (C job core : Nat) : Nat := C * (job - 1) + core

/-- the task started by node `job` (1-based) on core `core`; `I` inputs, `N` nodes, `C` cores,
    `T` trials.  Only meaningful when `N*C / I > 0` (guarded in `runParallel`). -/
def taskPlan (I N C T job core : Nat) : Task :=
  let nTasks := N * C
  let t := taskIndex C job core
  { input := inputOf (nTasks / I) I t
    nRuns := runsOf (nTasks / I) (nTasks % I) I T t
    resultFile := resultName nTasks t
    logFile := progressName nTasks t }

inductive PlanErr
  | assertJob      -- assert 1 <= job_idx <= n_nodes
  | assertCores    -- assert n_cores <= n_cpu
  | noInputs       -- ValueError("No input files")
  | zeroDivision   -- i_task // 0 when n_tasks < n_inputs
deriving DecidableEq, Repr

/-- `run_parallel` up to (not including) the start of the processes: the list of
    `(input, n_runs, result file, log file)` in the order the processes are created.
    `cOpt = 0` models a falsy `--n_cores` (option absent or 0). -/
def runParallel (I N cOpt cpu T job : Nat) : Except PlanErr (List Task) :=
  if ¬ (1 ≤ job ∧ job ≤ N) then .error .assertJob
  else
    let C := if cOpt = 0 then cpu else cOpt
    if ¬ (C ≤ cpu) then .error .assertCores
    else if I = 0 then .error .noInputs
    else if C = 0 then .ok []                       -- empty loop
    else if N * C / I = 0 then .error .zeroDivision -- first iteration divides by zero
    else .ok ((List.range C).map (taskPlan I N C T job))

/-- all tasks of all nodes `job = 1..N`, in task order -/
def allTasks (I N C T : Nat) : List Task :=
  (List.range N).flatMap fun n => (List.range C).map (taskPlan I N C T (n + 1))

/-- total number of trials the tasks in `ts` run on input `j` -/
def trialsFor (j : Nat) (ts : List Task) : Nat :=
  ((ts.filter (fun t => t.input == j)).map (·.nRuns)).sum

/-- the same plan with the historical remainder (regression example) -/
def allRunsOld (I nT T j : Nat) : Nat :=
  (((List.range nT).filter (fun t => inputOf (nT / I) I t == j)).map
    (runsOfOld (nT / I) (nT % I) I T)).sum


/-! ## Part 2: `read_range_input`, `read_bias_ratios`, `get_direction_from_bias_ratio`,
    `generate_input` and the read-back through `get_simulations` (property C19).

Floats are modelled by exact rationals (core `Rat`); decimal literals are parsed exactly.
Supported literal syntax (what the harness feeds): optional surrounding ASCII blanks,
optional sign, digits with an optional `.`; no exponents, no `_`, no `nan`. -/

/-- value of a list of decimal digits, most significant first -/
def digitsVal (ds : List Nat) : Nat := ds.foldl (fun a d => 10 * a + d) 0

inductive CliErr
  | value          -- ValueError (float()/int() of a malformed literal)
  | zeroDivision   -- ZeroDivisionError
  | index          -- IndexError
deriving DecidableEq, Repr

/-- Python `str.split(sep)` for a one-character separator -/
def splitOnChar (sep : Char) : List Char → List (List Char)
  | [] => [[]]
  | c :: cs =>
    match splitOnChar sep cs with
    | [] => [[]]            -- unreachable
    | w :: ws => if c = sep then [] :: w :: ws else (c :: w) :: ws

def isBlank (c : Char) : Bool := c = ' ' || c = '\t' || c = '\n' || c = '\r'

/-- Python `str.strip()` (ASCII blanks) -/
def strip (s : List Char) : List Char :=
  ((s.dropWhile isBlank).reverse.dropWhile isBlank).reverse

def isDigit (c : Char) : Bool := '0' ≤ c && c ≤ '9'

/-- a parsed decimal literal `[sign] int [. frac]` -/
structure DecLit where
  neg : Bool
  hasSign : Bool
  intDigits : List Nat
  hasDot : Bool
  fracDigits : List Nat
deriving DecidableEq, Repr

/-- the part after the sign: digits, optionally `.` and digits, at least one digit in all -/
def parseBody (neg hasSign : Bool) (body : List Char) : Option DecLit :=
  match body.dropWhile isDigit with
  | [] => if (body.takeWhile isDigit).isEmpty then none else
      some ⟨neg, hasSign, (body.takeWhile isDigit).map charDigit, false, []⟩
  | '.' :: fr =>
      if fr.all isDigit && !((body.takeWhile isDigit).isEmpty && fr.isEmpty) then
        some ⟨neg, hasSign, (body.takeWhile isDigit).map charDigit, true, fr.map charDigit⟩
      else none
  | _ => none

def parseDecLit (s0 : List Char) : Option DecLit :=
  match strip s0 with
  | '-' :: r => parseBody true true r
  | '+' :: r => parseBody false true r
  | r => parseBody false false r

/-- exact value of a literal -/
def DecLit.toRat (d : DecLit) : Rat :=
  let m : Rat := ((digitsVal (d.intDigits ++ d.fracDigits) : Nat) : Rat) / ((10 ^ d.fracDigits.length : Nat) : Rat)
  if d.neg then -m else m

/-- `float(s)` -/
def parseFloat (s : List Char) : Except CliErr Rat :=
  match parseDecLit s with
  | none => .error .value
  | some d => .ok d.toRat

/-- `int(s)` for a literal without `.` -/
def parseInt (s : List Char) : Except CliErr Int :=
  match parseDecLit s with
  | some d => if d.hasDot then .error .value
              else .ok (if d.neg then -(digitsVal d.intDigits : Int) else (digitsVal d.intDigits : Int))
  | none => .error .value

/-! ### `read_range_input` -/

/-- the relative tolerance `1e-9` added to the stop value -/
def eps : Rat := 1 / 1000000000

/-- `np.arange(start, stop, step)` over exact numbers: `ceil((stop-start)/step)` elements
    `start + i*step` (none when that is ≤ 0) -/
def arange (start stop step : Rat) : List Rat :=
  (List.range ((stop - start) / step).ceil.toNat).map fun (i : Nat) => start + (i : Rat) * step

/-- `np.minimum(np.arange(min, max + 1e-9*step, step), max)` -/
def rangeValues (mn mx step : Rat) : List Rat :=
  (arange mn (mx + eps * step) step).map fun v => if v ≤ mx then v else mx

def defaultStep : Rat := 1 / 200   -- 0.005

def readRange (spec : List Char) : Except CliErr (List Rat) :=
  if spec.contains ':' then
    let parts := splitOnChar ':' spec
    match parts with
    | p0 :: p1 :: tl => do
      let mn ← parseFloat p0
      let mx ← parseFloat p1
      let step ← match tl with
        | [p2] => parseFloat p2
        | _ => pure defaultStep        -- two parts, or more than three: the default step
      if step = 0 then .error .zeroDivision
      else pure (rangeValues mn mx step)
    | _ => .error .index                -- unreachable: a ':' gives at least two parts
  else if spec.contains ',' then
    (splitOnChar ',' spec).mapM parseFloat
  else do
    let v ← parseFloat spec
    pure [v]

/-! ### `read_bias_ratios`, `get_direction_from_bias_ratio` -/

/-- a bias ratio as `read_bias_ratios` returns it: `np.inf`, a Python `int`, or a non-integral
    `float` kept in normal form (integer part, fractional digits without trailing zeros) -/
inductive Eta
  | inf
  | int (v : Int)
  | flt (neg : Bool) (ip : Nat) (fd : List Nat)
deriving DecidableEq, Repr

def stripTrailingZeros (ds : List Nat) : List Nat :=
  (ds.reverse.dropWhile (· == 0)).reverse

def parseEta (tok : List Char) : Except CliErr Eta :=
  let s := strip tok
  if s = ['i', 'n', 'f'] then .ok .inf
  else match parseDecLit s with
    | none => .error .value                    -- float(s) raises
    | some d =>
      let fd := stripTrailingZeros d.fracDigits
      if fd.isEmpty then
        -- float(s) % 1 == 0: int(s), which rejects a literal with a '.'
        if d.hasDot then .error .value
        else .ok (.int (if d.neg then -(digitsVal d.intDigits : Int) else (digitsVal d.intDigits : Int)))
      else .ok (.flt d.neg (digitsVal d.intDigits) fd)

def readBiasRatios (s : List Char) : Except CliErr (List Eta) :=
  (splitOnChar ',' s).mapM parseEta

/-- numeric value of a finite bias ratio -/
def Eta.toRat? : Eta → Option Rat
  | .inf => none
  | .int v => some (v : Rat)
  | .flt neg ip fd =>
    let m : Rat := (ip : Rat) + ((digitsVal fd : Nat) : Rat) / ((10 ^ fd.length : Nat) : Rat)
    some (if neg then -m else m)

/-- `str(eta)` as it appears in the file name (floats: positional `repr`, valid for
    `1e-4 ≤ |x| < 1e16` with at most 15 significant digits) -/
def Eta.str : Eta → List Char
  | .inf => ['i', 'n', 'f']
  | .int v => if v < 0 then '-' :: natStr v.natAbs else natStr v.natAbs
  | .flt neg ip fd =>
    (if neg then ['-'] else []) ++ natStr ip ++ '.' :: fd.map digitChar

structure Direction where
  rx : Rat
  ry : Rat
  rz : Rat
deriving DecidableEq, Repr

/-- the component of the direction along the bias axis -/
def Direction.along (d : Direction) (pauli : Char) : Rat :=
  if pauli = 'X' then d.rx else if pauli = 'Y' then d.ry else d.rz

/-- the sum of the two other components -/
def Direction.across (d : Direction) (pauli : Char) : Rat :=
  if pauli = 'X' then d.ry + d.rz else if pauli = 'Y' then d.rx + d.rz else d.rx + d.ry

/-- `get_direction_from_bias_ratio(pauli, eta)`; `none` = the empty dict returned for a
    letter other than X, Y, Z (click only admits these three) -/
def getDirection (pauli : Char) (eta : Eta) : Except CliErr (Option Direction) :=
  let rb : Except CliErr Rat := match eta.toRat? with
    | none => .ok 1
    | some e => if 1 + e = 0 then .error .zeroDivision else .ok (e / (1 + e))
  match rb with
  | .error e => .error e
  | .ok rBias =>
    let rOther := (1 - rBias) / 2
    if pauli = 'Z' then .ok (some ⟨rOther, rOther, rBias⟩)
    else if pauli = 'X' then .ok (some ⟨rBias, rOther, rOther⟩)
    else if pauli = 'Y' then .ok (some ⟨rOther, rBias, rOther⟩)
    else .ok none

/-! ### `generate_input` -/

structure GenArgs where
  sizes : List Char
  decoderClass : List Char
  bias : Char
  eta : List Char
  prob : List Char
  codeClass : Option (List Char)
  noiseClass : List Char
  deformationName : Option (List Char)
  method : List Char
  label : Option (List Char)

/-- the `ranges` dictionary written to one file -/
structure InputSpec where
  label : List Char
  methodName : List Char
  methodParams : List (List Char × Nat)
  codeName : Option (List Char)
  codeParams : List (Int × Int × Int)          -- (L_x, L_y, L_z)
  noiseName : List Char
  direction : Option Direction
  deformationName : Option (List Char)
  decoderName : List Char
  decoderParams : List (List Char × Nat)
  errorRates : List Rat
deriving DecidableEq, Repr

/-- one entry of `--sizes`: `L_x = int(L[0])`, `L_y = int(L[1]) if len(L) >= 2 else int(L[0])`,
    `L_z = int(L[2]) if len(L) == 3 else int(L[0])` -/
def parseSize (s : List Char) : Except CliErr (Int × Int × Int) :=
  let L := splitOnChar 'x' s
  match L with
  | [] => .error .index
  | l0 :: tl => do
    let lx ← parseInt l0
    let ly ← match tl with
      | l1 :: _ => parseInt l1
      | [] => parseInt l0
    let lz ← match tl with
      | [_, l2] => parseInt l2
      | _ => parseInt l0
    pure (lx, ly, lz)

def parseSizes (s : List Char) : Except CliErr (List (Int × Int × Int)) :=
  (splitOnChar ',' s).mapM parseSize

def bpOsdName : List Char := "BeliefPropagationOSDDecoder".toList

def fileName (label : List Char) (nRatios : Nat) (eta : Eta) : List Char :=
  if nRatios > 1 then label ++ "_eta-".toList ++ eta.str ++ ".json".toList
  else label ++ ".json".toList

/-- the specification written for one bias ratio -/
def specFor (a : GenArgs) (rates : List Rat) (eta : Eta) : Except CliErr InputSpec := do
  let dir ← getDirection a.bias eta
  let sizes ← parseSizes a.sizes
  pure {
    label := a.label.getD "experiment".toList
    methodName := a.method
    methodParams := if a.method = "splitting".toList then [("n_init_runs".toList, 20000)] else []
    codeName := a.codeClass
    codeParams := sizes
    noiseName := a.noiseClass
    direction := dir
    deformationName := a.deformationName
    decoderName := a.decoderClass
    decoderParams := if a.decoderClass = bpOsdName
      then [("max_bp_iter".toList, 1000), ("osd_order".toList, 100)] else []
    errorRates := rates }

/-- the loop over bias ratios: files written so far, and the error that stopped the loop -/
def writeAll (a : GenArgs) (rates : List Rat) (n : Nat) :
    List Eta → List (List Char × InputSpec) × Option CliErr
  | [] => ([], none)
  | eta :: rest =>
    match specFor a rates eta with
    | .error e => ([], some e)
    | .ok spec =>
      let (ws, err) := writeAll a rates n rest
      ((fileName spec.label n eta, spec) :: ws, err)

/-- `generate_input`: the sequence of `(file name, ranges)` writes, in order, and the
    exception (if any) that ended the command -/
def generateInput (a : GenArgs) : List (List Char × InputSpec) × Option CliErr :=
  match readRange a.prob with
  | .error e => ([], some e)
  | .ok rates =>
    match readBiasRatios a.eta with
    | .error e => ([], some e)
    | .ok etas => writeAll a rates etas.length etas

/-- directory content after a sequence of writes (a later write to the same name replaces the
    earlier file) -/
def finalFiles : List (List Char × InputSpec) → List (List Char × InputSpec)
  | [] => []
  | (n, s) :: rest =>
    if rest.any (fun p => p.1 == n) then finalFiles rest else (n, s) :: finalFiles rest

/-! ### read-back: `_parse_all_ranges` + `get_simulations` on a generated file -/

/-- `_parse_parameters_range` on a list: an empty list becomes the one-element list `[{}]`
    (`none` here) -/
def parametersRange {α : Type} (l : List α) : List (Option α) :=
  if l.isEmpty then [none] else l.map some

/-- one simulation of the batch: code parameters (`none` = `{}`) and the error rates it runs
    (one rate for a `DirectSimulation`, the whole list for a `SplittingSimulation`) -/
abbrev SimKey := Option (Int × Int × Int) × List (Option Rat)

/-- `get_simulations(data)` for the file content `spec`, in order.  A generated file has one
    error model and one decoder entry (their `parameters` are dicts), so
    `itertools.product(codes, error_models, decoder_range, error_rates)` is codes × rates
    (method `direct`: one `DirectSimulation` per element) and
    `itertools.product(codes, error_models, decoder_range)` is the codes (method `splitting`:
    one `SplittingSimulation` per code holding every rate; fix 8b2c943). -/
def expand (spec : InputSpec) : List SimKey :=
  let codes := parametersRange spec.codeParams
  let rates := parametersRange spec.errorRates
  if spec.methodName = "direct".toList then codes.flatMap fun c => rates.map fun r => (c, [r])
  else if spec.methodName = "splitting".toList then codes.map fun c => (c, rates)
  else []

/-- the (code, rate) pairs the simulations of a batch cover, with multiplicity -/
def coveredPairs (sims : List SimKey) : List (Option (Int × Int × Int) × Option Rat) :=
  sims.flatMap fun s => s.2.map fun r => (s.1, r)

end Panqec.Cli
