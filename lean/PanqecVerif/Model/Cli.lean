/-
Model of `panqec/cli.py`, part 1: `run_parallel` (property C14).

Executable, total, no Mathlib.  Everything is transcribed from the body of
`run_parallel` (panqec/cli.py), in the order the code evaluates it:

    i_node = job_idx - 1
    assert 1 <= job_idx <= n_nodes                      -- AssertionError
    n_cpu = multiprocessing.cpu_count()
    if not n_cores: n_cores = n_cpu
    assert n_cores <= n_cpu                             -- AssertionError
    n_tasks = n_nodes * n_cores
    list_inputs = glob(...); n_inputs = len(list_inputs)
    if n_inputs == 0: raise ValueError
    for i_core in range(n_cores):
        i_task = n_cores * i_node + i_core
        n_tasks_per_input = n_tasks // n_inputs
        i_input = i_task // n_tasks_per_input           -- ZeroDivisionError when n_tasks < n_inputs
        if i_input >= n_inputs: i_input = n_inputs - 1
        if i_input == n_inputs - 1:
            n_tasks_per_input = n_tasks_per_input + n_tasks % n_inputs
        i_task_in_input = i_task % n_tasks_per_input
        if i_input == n_inputs - 1:
            i_task_in_input = i_task - n_tasks // n_inputs * (n_inputs - 1)
        n_runs = trials // n_tasks_per_input
        if i_task_in_input == n_tasks_per_input - 1:
            n_runs += trials % n_tasks_per_input
        results_{str(i_task+1).zfill(len(str(n_tasks)))}.json.gz, progress_{…}.txt

All quantities are natural numbers (click.INT options; the harness feeds
non-negative values only; `n_cores = 0` stands for "option not given / falsy").
-/

namespace Panqec.Cli

/-! ### decimal rendering of naturals (`str(n)`, `str.zfill`) -/

/-- decimal digits of `n`, most significant first, with explicit fuel (`fuel ≥ n` suffices) -/
def decDigitsAux : Nat → Nat → List Nat
  | 0, n => [n % 10]
  | f + 1, n => if n < 10 then [n] else decDigitsAux f (n / 10) ++ [n % 10]

/-- decimal digits of `n`, most significant first (`str(n)` as digit values) -/
def decDigits (n : Nat) : List Nat := decDigitsAux n n

def digitChar : Nat → Char
  | 0 => '0' | 1 => '1' | 2 => '2' | 3 => '3' | 4 => '4'
  | 5 => '5' | 6 => '6' | 7 => '7' | 8 => '8' | 9 => '9'
  | _ => '?'

/-- value of a decimal digit character (inverse of `digitChar` on 0..9) -/
def charDigit (c : Char) : Nat := c.toNat - 48

/-- `str(n)` -/
def natStr (n : Nat) : List Char := (decDigits n).map digitChar

/-- `s.zfill(w)` for a string without sign -/
def zfill (w : Nat) (s : List Char) : List Char := List.replicate (w - s.length) '0' ++ s

/-- the zero-padded task number `str(i_task+1).zfill(len(str(n_tasks)))` -/
def taskNumber (nTasks iTask : Nat) : List Char :=
  zfill (natStr nTasks).length (natStr (iTask + 1))

/-- base name of the result file of a task (`compressed_output` is always `True` from the CLI) -/
def resultName (nTasks iTask : Nat) : List Char :=
  ['r', 'e', 's', 'u', 'l', 't', 's', '_'] ++ taskNumber nTasks iTask ++ ['.', 'j', 's', 'o', 'n', '.', 'g', 'z']

/-- base name of the progress log of a task -/
def progressName (nTasks iTask : Nat) : List Char :=
  ['p', 'r', 'o', 'g', 'r', 'e', 's', 's', '_'] ++ taskNumber nTasks iTask ++ ['.', 't', 'x', 't']

/-! ### the arithmetic of one task (`q = n_tasks // n_inputs`, `r = n_tasks % n_inputs`) -/

/-- `i_input` after clamping -/
def inputOf (q I t : Nat) : Nat := if t / q ≥ I then I - 1 else t / q

/-- `n_tasks_per_input` after the special case of the last input -/
def tpi (q r I j : Nat) : Nat := if j = I - 1 then q + r else q

/-- `i_task_in_input` (the `%` is taken with the already adjusted `n_tasks_per_input`, then
    overwritten for the last input) -/
def idxIn (q r I t : Nat) : Nat :=
  if inputOf q I t = I - 1 then t - q * (I - 1) else t % tpi q r I (inputOf q I t)

/-- `n_runs` of task `t` -/
def runsOf (q r I T t : Nat) : Nat :=
  if idxIn q r I t = tpi q r I (inputOf q I t) - 1
  then T / tpi q r I (inputOf q I t) + T % tpi q r I (inputOf q I t)
  else T / tpi q r I (inputOf q I t)

/-- the historical remainder (`n_runs += trials % n_runs`, before fix 51dca01); kept as a
    regression example only -/
def runsOfOld (q r I T t : Nat) : Nat :=
  if idxIn q r I t = tpi q r I (inputOf q I t) - 1
  then T / tpi q r I (inputOf q I t) + T % (T / tpi q r I (inputOf q I t))
  else T / tpi q r I (inputOf q I t)

structure Task where
  /-- index into `list_inputs` -/
  input : Nat
  nRuns : Nat
  resultFile : List Char
  logFile : List Char
deriving DecidableEq, Repr

/-- global task number `i_task = n_cores * i_node + i_core` -/
def taskIndex (C job core : Nat) : Nat := C * (job - 1) + core

/-- the task started by node `job` (1-based) on core `core`; `I` inputs, `N` nodes, `C` cores,
    `T` trials.  Only meaningful when `N*C / I > 0` (guarded in `runParallel`). -/
def taskPlan (I N C T job core : Nat) : Task :=
  let nTasks := N * C
  let t := taskIndex C job core
  { input := inputOf (nTasks / I) I t
    nRuns := runsOf (nTasks / I) (nTasks % I) I T t
    resultFile := resultName nTasks t
    logFile := progressName nTasks t }

inductive PlanErr
  | assertJob      -- assert 1 <= job_idx <= n_nodes
  | assertCores    -- assert n_cores <= n_cpu
  | noInputs       -- ValueError("No input files")
  | zeroDivision   -- i_task // 0 when n_tasks < n_inputs
deriving DecidableEq, Repr

/-- `run_parallel` up to (not including) the start of the processes: the list of
    `(input, n_runs, result file, log file)` in the order the processes are created.
    `cOpt = 0` models a falsy `--n_cores` (option absent or 0). -/
def runParallel (I N cOpt cpu T job : Nat) : Except PlanErr (List Task) :=
  if ¬ (1 ≤ job ∧ job ≤ N) then .error .assertJob
  else
    let C := if cOpt = 0 then cpu else cOpt
    if ¬ (C ≤ cpu) then .error .assertCores
    else if I = 0 then .error .noInputs
    else if C = 0 then .ok []                       -- empty loop
    else if N * C / I = 0 then .error .zeroDivision -- first iteration divides by zero
    else .ok ((List.range C).map (taskPlan I N C T job))

/-- all tasks of all nodes `job = 1..N`, in task order -/
def allTasks (I N C T : Nat) : List Task :=
  (List.range N).flatMap fun n => (List.range C).map (taskPlan I N C T (n + 1))

/-- total number of trials the tasks in `ts` run on input `j` -/
def trialsFor (j : Nat) (ts : List Task) : Nat :=
  ((ts.filter (fun t => t.input == j)).map (·.nRuns)).sum

/-- the same plan with the historical remainder (regression example) -/
def allRunsOld (I nT T j : Nat) : Nat :=
  (((List.range nT).filter (fun t => inputOf (nT / I) I t == j)).map
    (runsOfOld (nT / I) (nT % I) I T)).sum

end Panqec.Cli
