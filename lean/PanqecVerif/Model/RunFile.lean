/-
Model of `run_file` (panqec/simulation/_batch_simulation.py), the body of every task that
`run_parallel` starts and of `panqec run`:

    def run_file(input_file, output_file, n_trials, progress=identity, log_file=None, verbose=True):
        batch_sim = read_input_json(input_file, output_file, log_file=log_file)
        ...                                    # printing only
        batch_sim.run(n_trials, progress=progress)

Executable, total, no Mathlib.  Nothing new is modelled here: the function is the composition of
the existing models

* `Model/Spec.lean`  — `read_input_json` = `load_json` + `read_input_dict` (label, method, the
  expanded simulations in order);
* `Model/Batch.lean` — `BatchSimulation.run`: `load_results` (first record with equal `inputs`),
  `range(min n_results, n_trials)`, one trial per simulation below the target, the
  `i_trial % save_frequency` schedule, the atomic `save_json`;
* `Model/Sim.lean`   — one trial appends one entry to each of `effective_error`, `success`,
  `codespace` and adds one to `n_runs` (`Batch.Sim.runOne` is this step with the entries
  replaced by the identifier of the trial; `C14.record_shape_is_the_trial_bookkeeping`);
* `Model/Cli.lean`   — the `(input, results file, n_runs)` triples `run_parallel` hands to
  `run_file` (`pipelineTrials`).

What `run_file` adds is glue, transcribed here:

* `read_input_dict` is called with `output_file` and `log_file` only, so the batch has the
  constructor defaults `save_frequency = 1`, `update_frequency = 5` (`on_update` is `pass`);
* the identity of a simulation is its `_inputs` dictionary; `Batch` works with numbers, equal
  numbers = equal dictionaries: `idents` numbers the expanded simulations by the position of the
  first simulation with `==`-equal recorded inputs (`sameInputs`: Python `==` on JSON-like
  values — numbers by value, dictionaries by key);
* `_log_progress(i_trial, n_trials)` rewrites `log_file` with `f"{i_trial+1}/{n_trials}"` at the
  end of every iteration of the trial loop (so after the task: `n/n`, or no file when the loop
  had no iteration); `progress` is called once, on `list(range(min n_results, n_trials))`.

Scope: method `direct` (the result lists of a `SplittingSimulation` are a different record;
a `splitting` specification is answered `Err.splitting`).
-/
import PanqecVerif.Model.Spec
import PanqecVerif.Model.Batch
import PanqecVerif.Model.Cli

namespace Panqec.RunFile

open Panqec.Spec Panqec.Batch

/-! ### equality of recorded inputs (Python `==` on JSON-like values) -/

mutual
/-- `a == b` for JSON-like values: `None == None`; bool / int / float by numeric value
    (`True == 1 == 1.0`); strings, lists element by element; dictionaries by key (order does not
    matter; keys are unique in a JSON object) -/
def pvEq : PV → PV → Bool
  | .none, .none => true
  | .str a, .str b => a == b
  | .list a, .list b => pvEqList a b
  | .dict a, .dict b => a.length == b.length && pvEqDict a b
  | .bool a, y => (match y.toRat? with | some q => q == (if a then 1 else 0) | none => false)
  | .int a, y => (match y.toRat? with | some q => q == (a : Rat) | none => false)
  | .num a, y => (match y.toRat? with | some q => q == a | none => false)
  | _, _ => false
def pvEqList : List PV → List PV → Bool
  | [], [] => true
  | x :: xs, y :: ys => pvEq x y && pvEqList xs ys
  | _, _ => false
/-- every entry of the first dictionary is in the second with an equal value -/
def pvEqDict : List (String × PV) → List (String × PV) → Bool
  | [], _ => true
  | (k, v) :: r, b =>
    (match lookupKw b k with
     | some v' => pvEq v v'
     | none => false) && pvEqDict r b
end

def instEq (a b : Inst) : Bool := a.cls == b.cls && pvEq (.dict a.params) (.dict b.params)

/-- `sim['inputs'] == self._inputs` for two simulations of the same method: `code` (name,
    parameters; `n`, `k`, `d` are functions of these), `error_model`, `decoder` (name,
    parameters), `error_rate` -/
def sameInputs (a b : SimT) : Bool :=
  instEq a.code b.code && instEq a.noise b.noise && instEq a.decoder b.decoder &&
    pvEq a.errorRate b.errorRate && a.splitting == b.splitting

/-- identity numbers of the expanded simulations: position of the first simulation with equal
    recorded inputs (two simulations get the same number iff their `_inputs` are `==`) -/
def idents (sims : List SimT) : List Nat :=
  sims.map fun s => sims.findIdx fun t => sameInputs t s

/-! ### the task -/

inductive Err
  /-- `read_input_dict` raised -/
  | spec (e : Spec.Err)
  /-- `method: splitting`: not modelled -/
  | splitting
  /-- `BatchSimulation.run` raised (`min([])`: no simulation; a torn gzip results file) -/
  | run (e : RunErr)
  deriving Repr

/-- `BatchSimulation.__init__(…, save_frequency: int = 1, …)`; `run_file` does not pass it -/
def saveFrequency : Nat := 1

/-- micro-steps that suffice for a run of `nSims` simulations up to `n` trials
    (`C14`/`Proofs/RunFile.lean`: the run has ended within this bound) -/
def fuelFor (nSims n : Nat) : Nat := (n + 1) * (nSims + 101)

/-- the world in which the task starts: the results file as it is, no temporary file;
    `next0` = the global trial counter (any number above the identifiers already in the file) -/
def initWorld (fmt : Fmt) (pre : FileSt) (next0 : Nat) : World :=
  ⟨fmt, true, ⟨pre, .absent⟩, next0, noProc⟩

/-- `batch_sim.run(n_trials)` of a batch with the simulations `ids`, left alone until it ends -/
def runBatch (fmt : Fmt) (pre : FileSt) (next0 : Nat) (ids : List Nat) (n : Nat) : World :=
  runToEnd (fuelFor ids.length n) (startProc (initWorld fmt pre next0) ids n saveFrequency)

/-- the first value of `i_trial` of a freshly started process (`none`: no iteration) -/
def firstTrialOf : Pc → Option Nat
  | .trial i => some i
  | _ => none

structure Result where
  /-- `batch_sim.label`, `batch_sim.method` -/
  label : String
  method : String
  /-- `batch_sim._simulations` and their identity numbers -/
  sims : List SimT
  ids : List Nat
  /-- first value of `i_trial` (`min n_results`), `none` when the loop has no iteration -/
  firstTrial : Option Nat
  /-- the world after the task: results file, temporary file, memory, trial counter -/
  final : World
  deriving Repr

/-- `run_file(input_file, output_file, n_trials, progress, log_file)`:
    `spec` = content of the input file, `pre` = state of the results file before the task -/
def runFile (spec : Spec.Spec) (fmt : Fmt) (pre : FileSt) (next0 n : Nat) : Except Err Result :=
  match readInputDict spec with
  | .error e => .error (.spec e)
  | .ok b =>
    if b.sims.any (·.splitting) then .error .splitting
    else
      let ids := idents b.sims
      let w0 := startProc (initWorld fmt pre next0) ids n saveFrequency
      let w := runBatch fmt pre next0 ids n
      match w.proc.pc with
      | .failed e => .error (.run e)
      | _ =>
        .ok ⟨b.label, b.method, b.sims, ids,
             firstTrialOf w0.proc.pc, w⟩

/-- content of `log_file` after the task: `some (a, b)` = the text `a/b`; `none` = not written -/
def Result.log (r : Result) : Option (Nat × Nat) :=
  r.firstTrial.map fun _ => (r.final.proc.n, r.final.proc.n)

/-- the list `progress` is called with, as `(lo, hi)` = `list(range(lo, hi))` -/
def Result.progressRange (r : Result) : Nat × Nat :=
  match r.firstTrial with
  | some i => (i, r.final.proc.n)
  | none => (0, 0)

/-! ### reading a results file -/

/-- the records of a results file (`[]` unless it is a complete document) -/
def docOf : FileSt → Doc
  | .complete d => d
  | _ => []

/-- the record a simulation with identity `x` adopts from the file -/
def recordOf (f : FileSt) (x : Nat) : Option Sim := findRec (docOf f) x

/-- number of trials of simulation `x` held by the file (0 when it has no record) -/
def trialsRecorded (f : FileSt) (x : Nat) : Nat :=
  match recordOf f x with
  | some r => r.nRuns
  | none => 0

/-- the results document in canonical form: per record (in file order) the identity, `n_runs`
    and the lengths of `effective_error`, `success`, `codespace` -/
def shapeOf (f : FileSt) : List (Nat × Nat × Nat × Nat × Nat) :=
  (docOf f).map fun r => (r.inputs, r.nRuns, r.ee.length, r.su.length, r.cs.length)

/-! ### plan + run: the end of the `run_parallel` pipeline -/

/-- Every task of the plan runs `run_file` on its own (fresh) results file; the trials of
    simulation `x` of input `j` that `merge-results` / `Analysis` then find = the sum, over the
    result files of the tasks of this input, of the trials recorded for `x`. -/
def pipelineTrials (fmt : Fmt) (ids : List Nat) (tasks : List Cli.Task) (j x : Nat) : Nat :=
  ((tasks.filter (fun t => t.input == j)).map fun t =>
    trialsRecorded (runBatch fmt .absent 0 ids t.nRuns).disk.file x).sum

end Panqec.RunFile
