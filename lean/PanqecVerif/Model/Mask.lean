/-
Bit-mask representation of BSF vectors and the executable validity checker used
for kernel-checked instance theorems (`decide +kernel`).

A BSF vector `v : List Nat` of length `2n` (entries 0/1) is packed little-endian:
entry `j` is bit `j` of the mask, so the X block is `mask % 2^n` and the Z block
is `mask >>> n`.  No Mathlib.
-/
import PanqecVerif.Model.Bits
import PanqecVerif.Model.Code

namespace Panqec

/-- little-endian packing of a 0/1 list -/
def packBits : List Nat → Nat
  | [] => 0
  | b :: bs => b % 2 + 2 * packBits bs

/-- little-endian unpacking to exactly `w` entries -/
def unpackBits : Nat → Nat → List Nat
  | 0, _ => []
  | w + 1, m => m % 2 :: unpackBits w (m / 2)

/-- parity of the number of set bits among the low `w` bits (specification) -/
def parityRec : Nat → Nat → Nat
  | 0, _ => 0
  | w + 1, x => (x % 2 + parityRec w (x / 2)) % 2

/-- parity by xor-folding: `s` folds handle `2^s` bits; fast in the kernel -/
def parityFold : Nat → Nat → Nat
  | 0, x => x % 2
  | s + 1, x => parityFold s (x ^^^ (x >>> (2 ^ s)))

/-- number of folds needed for `w` bits -/
def foldsFor (w : Nat) : Nat := Nat.log2 (2 * w + 1)

/-- symplectic product of two packed BSF vectors on `n` qubits -/
def sympMask (n : Nat) (a b : Nat) : Nat :=
  let lo := 2 ^ n
  let ax := a % lo
  let az := a >>> n
  let bx := b % lo
  let bz := b >>> n
  parityFold (foldsFor n) ((ax &&& bz) ^^^ (az &&& bx))

/-- weight (number of qubits in the support) of a packed BSF vector -/
def popCount : Nat → Nat → Nat
  | 0, _ => 0
  | w + 1, x => x % 2 + popCount w (x / 2)

def weightMask (n : Nat) (a : Nat) : Nat := popCount n ((a % 2 ^ n) ||| (a >>> n))

/-- A code instance as packed data (what `harness/regen.py` emits). -/
structure MaskCode where
  n : Nat
  k : Nat
  stabs : List Nat
  logX : List Nat
  logZ : List Nat
  /-- reported distance `code.d` -/
  d : Nat
  deriving Repr

/-- all pairs from two lists satisfy `p` -/
def allPairs {α β} (as : List α) (bs : List β) (p : α → β → Bool) : Bool :=
  as.all fun a => bs.all fun b => p a b

/-- `xs[i]` paired with `ys[j]` has product 1 iff i = j -/
def pairingOK (n : Nat) (xs ys : List Nat) : Bool :=
  (List.range xs.length).all fun i =>
    (List.range ys.length).all fun j =>
      sympMask n (xs.getD i 0) (ys.getD j 0) == (if i = j then 1 else 0)

/-- Independence certificate: `dual[i]` anticommutes with `rows[i]` and commutes with every
    `rows[j]`, j ≠ i.  Existence of such a family forces `rows` to be linearly independent. -/
def dualOK (n : Nat) (rows dual : List Nat) : Bool :=
  rows.length == dual.length &&
  (List.range rows.length).all fun i =>
    (List.range dual.length).all fun j =>
      sympMask n (rows.getD i 0) (dual.getD j 0) == (if i = j then 1 else 0)

/-- xor of the rows selected by the bits of `sel` -/
def xorSelect : List Nat → Nat → Nat
  | [], _ => 0
  | r :: rs, sel => (if sel % 2 = 1 then r else 0) ^^^ xorSelect rs (sel / 2)

/-- Rank certificate for the stabilizer generators: `basisIdx` picks `n-k` generators
    (strictly increasing indices), `dual` is an independence certificate for them, and every generator is the xor of the
    picked ones selected by `combo` (so the picked ones span the row space). -/
structure RankCert where
  basisIdx : List Nat
  dual : List Nat
  combo : List Nat
  deriving Repr

/-- the picked indices are strictly increasing (so the picked generators form a sublist
    of the generators, in order, without repetition) -/
def basisIdxSorted : List Nat → Bool
  | a :: b :: rest => a < b && basisIdxSorted (b :: rest)
  | _ => true

def rankCertOK (c : MaskCode) (rc : RankCert) : Bool :=
  let basis := rc.basisIdx.map fun i => c.stabs.getD i 0
  rc.basisIdx.all (· < c.stabs.length) &&
  basisIdxSorted rc.basisIdx &&
  basis.length + c.k == c.n &&
  dualOK c.n basis rc.dual &&
  rc.combo.length == c.stabs.length &&
  (List.range c.stabs.length).all fun i =>
    xorSelect basis (rc.combo.getD i 0) == c.stabs.getD i 0

/-- all rows fit in `2n` bits -/
def rowsFit (n : Nat) (rows : List Nat) : Bool := rows.all (· < 2 ^ (2 * n))

/-- The executable validity check of C01 (commutation, logical commutation, pairing, rank). -/
def checkValid (c : MaskCode) (rc : RankCert) : Bool :=
  rowsFit c.n c.stabs && rowsFit c.n c.logX && rowsFit c.n c.logZ &&
  c.logX.length == c.k && c.logZ.length == c.k &&
  allPairs c.stabs c.stabs (fun a b => sympMask c.n a b == 0) &&
  allPairs c.logX c.stabs (fun a b => sympMask c.n a b == 0) &&
  allPairs c.logZ c.stabs (fun a b => sympMask c.n a b == 0) &&
  pairingOK c.n c.logX c.logZ &&
  allPairs c.logX c.logX (fun a b => sympMask c.n a b == 0) &&
  allPairs c.logZ c.logZ (fun a b => sympMask c.n a b == 0) &&
  rankCertOK c rc

/-! ### Kernel-efficient checker

`checkValid` above is the readable specification-level checker; it is cubic in the number of
rows (`getD` inside double loops) and evaluates one xor-fold per pair of rows.
`checkValidFast` does the same job with a number of kernel reduction steps that is *linear*
in the number of rows: all rows of a stack are packed into the lanes of one big number
(`packLanes`, lane width `L = 2^s ≥ 2n` bits), and the symplectic products of a vector `d`
with *all* rows are computed at once by one `&&&`, `s` xor-folds and one mask (`laneSymp`):
bit `i·L` of the result is `symp rows[i] d`.  The span check `stabs[i] = xorSelect basis
combo[i]` is done for all `i` at once by `comboAcc` (one shift, one mask, one multiplication
and one xor per basis row). -/

/-- lanes: entry `i` (reduced modulo `W = 2^L`) occupies bits `[i·L, (i+1)·L)` -/
def packLanes (W : Nat) : List Nat → Nat
  | [] => 0
  | x :: xs => W * packLanes W xs + x % W

/-- `m` lanes holding `1` -/
def repunit (W : Nat) : Nat → Nat
  | 0 => 0
  | m + 1 => W * repunit W m + 1

/-- xor-folding that keeps the whole word: bit `p` of `foldAll s x` is the parity of bits
    `p … p + 2^s - 1` of `x` -/
def foldAll : Nat → Nat → Nat
  | 0, x => x
  | s + 1, x => foldAll s (x ^^^ (x >>> (2 ^ s)))

/-- Z block (reduced to `n` bits) low, X block high; `lo = 2^n` -/
def swapMask (n lo b : Nat) : Nat := lo * (b % lo) + (b >>> n) % lo

/-- all symplectic products `symp rows[i] d` at once: `P = packLanes W rows`,
    `R = repunit W rows.length`, `sd = swapMask n lo d`; bit `i·L` of the result is the
    product with row `i`, all other bits are 0 -/
def laneSymp (s R P sd : Nat) : Nat := foldAll s (P &&& (R * sd)) &&& R

/-- Identity.  The unused index `i` makes the terms the kernel caches during evaluation
    distinct: the kernel hashes a `Nat` literal by its low 32 bits, so all rows with a zero
    low word (every Z-type row) collide in its reduction cache, which costs a factor 10–40. -/
def tagNat (_i d : Nat) : Nat := d

/-- every `d` in the list commutes with every packed row (`i` = running index, for `tagNat`) -/
def zeroRows (s n lo R P : Nat) : List Nat → Nat → Bool
  | [], _ => true
  | d :: ds, i =>
    laneSymp s R P (swapMask n lo (tagNat i d)) == 0 && zeroRows s n lo R P ds (i + 1)

/-- `ds[j]` anticommutes with packed row `j` and commutes with the others
    (`tgt = W^j` is the expected result for the current index `j`) -/
def deltaRows (s n lo W R P : Nat) : List Nat → Nat → Nat → Bool
  | [], _, _ => true
  | d :: ds, j, tgt =>
    laneSymp s R P (swapMask n lo (tagNat j d)) == tgt &&
      deltaRows s n lo W R P ds (j + 1) (W * tgt)

/-- the rows at the (increasing) indices `idx`, walking the rows once; `off` is the index of
    the head of `rows`.  The result is a sublist of `rows` by construction. -/
def pickSorted : List Nat → List Nat → Nat → List Nat
  | _, [], _ => []
  | [], _ :: _, _ => []
  | i :: is, x :: xs, off =>
    if i = off then x :: pickSorted is xs (off + 1) else pickSorted (i :: is) xs (off + 1)

/-- lanes of `xorSelect basis combo[i]`: `C` holds the combos in lanes (shifted right by one
    for every basis row consumed), `R` is the repunit -/
def comboAcc (R : Nat) : List Nat → Nat → Nat
  | [], _ => 0
  | b :: bs, C => ((C &&& R) * b) ^^^ comboAcc R bs (C >>> 1)

/-- Kernel-efficient version of `checkValid` (same clauses; sound by
    `checkValidFast_sound`). -/
def checkValidFast (c : MaskCode) (rc : RankCert) : Bool :=
  let n := c.n
  let lo := 2 ^ n
  let s := foldsFor (2 * n)
  let W := 2 ^ (2 ^ s)
  let basis := pickSorted rc.basisIdx c.stabs 0
  let S := packLanes W c.stabs
  let RS := repunit W c.stabs.length
  let LX := packLanes W c.logX
  let RX := repunit W c.logX.length
  let LZ := packLanes W c.logZ
  let RZ := repunit W c.logZ.length
  rowsFit n c.stabs &&
  c.logX.length == c.k && c.logZ.length == c.k &&
  basis.length + c.k == n &&
  zeroRows s n lo RS S c.stabs 0 &&
  zeroRows s n lo RS S c.logX 0 &&
  zeroRows s n lo RS S c.logZ 0 &&
  deltaRows s n lo W RZ LZ c.logX 0 1 &&
  zeroRows s n lo RX LX c.logX 0 &&
  zeroRows s n lo RZ LZ c.logZ 0 &&
  rc.dual.length == basis.length &&
  deltaRows s n lo W (repunit W basis.length) (packLanes W basis) rc.dual 0 1 &&
  rc.combo.length == c.stabs.length &&
  comboAcc RS basis (packLanes W rc.combo) == S

/-- the reported distance is the minimum weight of the listed logicals -/
def reportedDistanceOK (c : MaskCode) : Bool :=
  match listMin ((c.logX ++ c.logZ).map (weightMask c.n)) with
  | some m => m == c.d
  | none => false

/-- `rows.map (weightMask n)` with the rows tagged by their index (see `tagNat`) -/
def weightsIdx (n : Nat) : List Nat → Nat → List Nat
  | [], _ => []
  | a :: as, i => weightMask n (tagNat i a) :: weightsIdx n as (i + 1)

/-- kernel-efficient `reportedDistanceOK` (equal to it: `reportedDistanceFast_eq`) -/
def reportedDistanceFast (c : MaskCode) : Bool :=
  match listMin (weightsIdx c.n (c.logX ++ c.logZ) 0) with
  | some m => m == c.d
  | none => false

end Panqec
