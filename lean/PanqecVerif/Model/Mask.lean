/-
Bit-mask representation of BSF vectors and the executable validity checker used
for kernel-checked instance theorems (`decide +kernel`).

A BSF vector `v : List Nat` of length `2n` (entries 0/1) is packed little-endian:
entry `j` is bit `j` of the mask, so the X block is `mask % 2^n` and the Z block
is `mask >>> n`.  No Mathlib.
-/
import PanqecVerif.Model.Bits
import PanqecVerif.Model.Code

namespace Panqec

/-- little-endian packing of a 0/1 list -/
def packBits : List Nat → Nat
  | [] => 0
  | b :: bs => b % 2 + 2 * packBits bs

/-- little-endian unpacking to exactly `w` entries -/
def unpackBits : Nat → Nat → List Nat
  | 0, _ => []
  | w + 1, m => m % 2 :: unpackBits w (m / 2)

/-- parity of the number of set bits among the low `w` bits (specification) -/
def parityRec : Nat → Nat → Nat
  | 0, _ => 0
  | w + 1, x => (x % 2 + parityRec w (x / 2)) % 2

/-- parity by xor-folding: `s` folds handle `2^s` bits; fast in the kernel -/
def parityFold : Nat → Nat → Nat
  | 0, x => x % 2
  | s + 1, x => parityFold s (x ^^^ (x >>> (2 ^ s)))

/-- number of folds needed for `w` bits -/
def foldsFor (w : Nat) : Nat := Nat.log2 (2 * w + 1)

/-- symplectic product of two packed BSF vectors on `n` qubits -/
def sympMask (n : Nat) (a b : Nat) : Nat :=
  let lo := 2 ^ n
  let ax := a % lo
  let az := a >>> n
  let bx := b % lo
  let bz := b >>> n
  parityFold (foldsFor n) ((ax &&& bz) ^^^ (az &&& bx))

/-- weight (number of qubits in the support) of a packed BSF vector -/
def popCount : Nat → Nat → Nat
  | 0, _ => 0
  | w + 1, x => x % 2 + popCount w (x / 2)

def weightMask (n : Nat) (a : Nat) : Nat := popCount n ((a % 2 ^ n) ||| (a >>> n))

/-- A code instance as packed data (what `harness/regen.py` emits). -/
structure MaskCode where
  n : Nat
  k : Nat
  stabs : List Nat
  logX : List Nat
  logZ : List Nat
  /-- reported distance `code.d` -/
  d : Nat
  deriving Repr

/-- all pairs from two lists satisfy `p` -/
def allPairs {α β} (as : List α) (bs : List β) (p : α → β → Bool) : Bool :=
  as.all fun a => bs.all fun b => p a b

/-- `xs[i]` paired with `ys[j]` has product 1 iff i = j -/
def pairingOK (n : Nat) (xs ys : List Nat) : Bool :=
  (List.range xs.length).all fun i =>
    (List.range ys.length).all fun j =>
      sympMask n (xs.getD i 0) (ys.getD j 0) == (if i = j then 1 else 0)

/-- Independence certificate: `dual[i]` anticommutes with `rows[i]` and commutes with every
    `rows[j]`, j ≠ i.  Existence of such a family forces `rows` to be linearly independent. -/
def dualOK (n : Nat) (rows dual : List Nat) : Bool :=
  rows.length == dual.length &&
  (List.range rows.length).all fun i =>
    (List.range dual.length).all fun j =>
      sympMask n (rows.getD i 0) (dual.getD j 0) == (if i = j then 1 else 0)

/-- xor of the rows selected by the bits of `sel` -/
def xorSelect : List Nat → Nat → Nat
  | [], _ => 0
  | r :: rs, sel => (if sel % 2 = 1 then r else 0) ^^^ xorSelect rs (sel / 2)

/-- Rank certificate for the stabilizer generators: `basisIdx` picks `n-k` generators
    (strictly increasing indices), `dual` is an independence certificate for them, and every generator is the xor of the
    picked ones selected by `combo` (so the picked ones span the row space). -/
structure RankCert where
  basisIdx : List Nat
  dual : List Nat
  combo : List Nat
  deriving Repr

/-- the picked indices are strictly increasing (so the picked generators form a sublist
    of the generators, in order, without repetition) -/
def basisIdxSorted : List Nat → Bool
  | a :: b :: rest => a < b && basisIdxSorted (b :: rest)
  | _ => true

def rankCertOK (c : MaskCode) (rc : RankCert) : Bool :=
  let basis := rc.basisIdx.map fun i => c.stabs.getD i 0
  rc.basisIdx.all (· < c.stabs.length) &&
  basisIdxSorted rc.basisIdx &&
  basis.length + c.k == c.n &&
  dualOK c.n basis rc.dual &&
  rc.combo.length == c.stabs.length &&
  (List.range c.stabs.length).all fun i =>
    xorSelect basis (rc.combo.getD i 0) == c.stabs.getD i 0

/-- all rows fit in `2n` bits -/
def rowsFit (n : Nat) (rows : List Nat) : Bool := rows.all (· < 2 ^ (2 * n))

/-- The executable validity check of C01 (commutation, logical commutation, pairing, rank). -/
def checkValid (c : MaskCode) (rc : RankCert) : Bool :=
  rowsFit c.n c.stabs && rowsFit c.n c.logX && rowsFit c.n c.logZ &&
  c.logX.length == c.k && c.logZ.length == c.k &&
  allPairs c.stabs c.stabs (fun a b => sympMask c.n a b == 0) &&
  allPairs c.logX c.stabs (fun a b => sympMask c.n a b == 0) &&
  allPairs c.logZ c.stabs (fun a b => sympMask c.n a b == 0) &&
  pairingOK c.n c.logX c.logZ &&
  allPairs c.logX c.logX (fun a b => sympMask c.n a b == 0) &&
  allPairs c.logZ c.logZ (fun a b => sympMask c.n a b == 0) &&
  rankCertOK c rc

/-- the reported distance is the minimum weight of the listed logicals -/
def reportedDistanceOK (c : MaskCode) : Bool :=
  match listMin ((c.logX ++ c.logZ).map (weightMask c.n)) with
  | some m => m == c.d
  | none => false

end Panqec
