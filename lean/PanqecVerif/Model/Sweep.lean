/-
Executable model of the two sweep cellular automata

  panqec/decoders/sweepmatch/_sweep_decoder_3d.py      (SweepDecoder3D)
  panqec/decoders/sweepmatch/_rotated_sweep_decoder.py (RotatedSweepDecoder3D)

and of `StabilizerCode.site / to_bsf / is_stabilizer / stabilizer_index / z_indices`
as far as the automata use them (C10).

State of an automaton = (`signs`: one 0/1 entry per stabilizer row, `correction`: a
Python dict location -> Pauli in insertion order).  The random tie-break
(`get_default_direction`, `rng.choice([0,1,2])`) is an input: the list of directions that
successive calls return (`0` once the list is used up).  Loops take the same explicit
bounds as the code.  `none` models a Python exception.
No Mathlib.
-/
import PanqecVerif.Model.SweepLattices

namespace Panqec.Sweep

/-- numpy 0/1 array over `code.stabilizer_coordinates` -/
abbrev Signs := List Bool

def hasX : Pauli → Bool
  | .X => true | .Y => true | _ => false
def hasZ : Pauli → Bool
  | .Z => true | .Y => true | _ => false

namespace Lattice

/-- `code.is_stabilizer(loc)` -/
def isStab (l : Lattice) (loc : Loc) : Bool := l.stabs.contains loc
/-- `code.is_stabilizer(loc, 'face')` (the type is only looked at for stabilizer locations) -/
def isStabFace (l : Lattice) (loc : Loc) : Bool := l.stabs.contains loc && l.isFace loc
/-- `loc in code.qubit_index` -/
def isQubit (l : Lattice) (loc : Loc) : Bool := l.qubits.contains loc
/-- `code.stabilizer_index[loc]` (locations are distinct) -/
def stabIdx (l : Lattice) (loc : Loc) : Nat := l.stabs.idxOf loc
/-- `code.z_indices[stabilizer_index[s]]`: the row of `s` has a non-zero entry in the Z block -/
def zIndex (l : Lattice) (s : Loc) : Bool := (l.stabOp s).any fun e => hasZ e.2

end Lattice

/-- `signs[i] = 1 - signs[i]` -/
def toggleAt (signs : Signs) (i : Nat) : Signs := signs.modify i (!·)

/-- `is_stabilizer(loc) and signs[stabilizer_index[loc]]` -/
def signAt (lat : Lattice) (signs : Signs) (loc : Loc) : Bool :=
  lat.isStab loc && signs.getD (lat.stabIdx loc) false

/-! ### `StabilizerCode.site`, `to_bsf` -/

/-- `product_map` of `site` (only defined on two different non-identity letters) -/
def productMap : Pauli → Pauli → Pauli
  | .X, .Y => .Z | .X, .Z => .Y | .Y, .X => .Z | .Y, .Z => .X | .Z, .X => .Y | .Z, .Y => .X
  | _, _ => .I

/-- `code.site(operator, pauli, location)`: multiply the operator by `pauli` at `location`
    (same letter: `pop`; other letter: product; absent: insert at the end). -/
def site (op : Op) (p : Pauli) (loc : Loc) : Op :=
  match op.lookup loc with
  | some q =>
    if q == p then op.filter fun e => !(e.1 == loc)
    else op.map fun e => if e.1 == loc then (loc, productMap q p) else e
  | none => op ++ [(loc, p)]

/-- the update the code used before commit 9208454: `correction[location] = 'Z'` -/
def assignZ (op : Op) (p : Pauli) (loc : Loc) : Op := dictSet op loc p

/-- `code.to_bsf(operator)`; `none` = `KeyError` (a key is not a qubit) -/
def toBsf (lat : Lattice) (op : Op) : Option (List Nat) :=
  if op.all (fun e => lat.isQubit e.1) then
    some (lat.qubits.map (fun q => (op.filter fun e => e.1 == q && hasX e.2).length) ++
          lat.qubits.map (fun q => (op.filter fun e => e.1 == q && hasZ e.2).length))
  else none

/-! ### generic shape of both automata -/

structure State where
  signs : Signs
  corr : Op
  deriving Repr, DecidableEq

/-- direction returned by `get_default_direction` -/
abbrev Dir := Fin 3

/-- `flip_edge`, given the table `faces` of adjacent face locations that survive the
    `is_stabilizer` filter: toggle each of them in turn. -/
def flipWith (lat : Lattice) (faces : Loc → Option (List Loc)) (loc : Loc) (signs : Signs) :
    Option Signs :=
  (faces loc).map fun fl => fl.foldl (fun s f => toggleAt s (lat.stabIdx f)) signs

/-- `for location in flip_locations: self.flip_edge(location, new_signs);
    self.code.site(correction, 'Z', location)`; `upd` is the correction update. -/
def applyFlips (lat : Lattice) (faces : Loc → Option (List Loc)) (upd : Op → Pauli → Loc → Op) :
    List Loc → State → Option State
  | [], st => some st
  | loc :: rest, st =>
    match flipWith lat faces loc st.signs with
    | none => none
    | some s => applyFlips lat faces upd rest ⟨s, upd st.corr .Z loc⟩

/-- `{0: x_edge, 1: y_edge, 2: z_edge}[direction]` -/
def pick (d : Dir) (xe ye ze : Loc) : Loc :=
  match d with
  | 0 => xe
  | 1 => ye
  | 2 => ze

/-- the sweep rule at one vertex: which edge (if any) is appended to `flip_locations`,
    and what is left of the tie-break stream -/
def sweepRule (xf yf zf : Bool) (xe ye ze : Loc) (ds : List Dir) : List Loc × List Dir :=
  if xf && yf && zf then ([pick (ds.headD 0) xe ye ze], ds.tail)
  else if yf && zf then ([xe], ds)
  else if xf && zf then ([ye], ds)
  else if xf && yf then ([ze], ds)
  else ([], ds)

/-! ### SweepDecoder3D -/

/-- `tuple(np.mod(loc, limits))`, `limits = (2*L_x, 2*L_y, 2*L_z)` -/
def wrapLimits (lat : Lattice) (l : Loc) : Loc :=
  (l.1 % (2 * (lat.size.1 : Int)), l.2.1 % (2 * (lat.size.2.1 : Int)),
   l.2.2 % (2 * (lat.size.2.2 : Int)))

/-- the four neighbouring face locations of `SweepDecoder3D.flip_edge` before wrapping;
    `none`: the parity of `location` matches no branch (`UnboundLocalError`) -/
def rawFaces3D (loc : Loc) : Option (List Loc) :=
  let (x, y, z) := loc
  let e : Loc := (x % 2, y % 2, z % 2)
  if e == (1, 0, 0) then some [(x, y + 1, z), (x, y - 1, z), (x, y, z + 1), (x, y, z - 1)]
  else if e == (0, 1, 0) then some [(x, y, z + 1), (x, y, z - 1), (x + 1, y, z), (x - 1, y, z)]
  else if e == (0, 0, 1) then some [(x + 1, y, z), (x - 1, y, z), (x, y + 1, z), (x, y - 1, z)]
  else none

/-- faces toggled by `SweepDecoder3D.flip_edge(location, ·)`: wrapped, then kept when
    `code.is_stabilizer(location_i)` -/
def flipFaces3D (lat : Lattice) (loc : Loc) : Option (List Loc) :=
  (rawFaces3D loc).map fun fs => (fs.map (wrapLimits lat)).filter lat.isStab

def flipEdge3D (lat : Lattice) : Loc → Signs → Option Signs := flipWith lat (flipFaces3D lat)

/-- the rows `np.array(stabilizer_coordinates)[z_indices]` swept over -/
def sweepVertices3D (lat : Lattice) : List Loc := lat.stabs.filter lat.zIndex

def xFace3D (lat : Lattice) (v : Loc) : Loc := wrapLimits lat (v.1, v.2.1 + 1, v.2.2 + 1)
def yFace3D (lat : Lattice) (v : Loc) : Loc := wrapLimits lat (v.1 + 1, v.2.1, v.2.2 + 1)
def zFace3D (lat : Lattice) (v : Loc) : Loc := wrapLimits lat (v.1 + 1, v.2.1 + 1, v.2.2)
def xEdge3D (lat : Lattice) (v : Loc) : Loc := wrapLimits lat (v.1 + 1, v.2.1, v.2.2)
def yEdge3D (lat : Lattice) (v : Loc) : Loc := wrapLimits lat (v.1, v.2.1 + 1, v.2.2)
def zEdge3D (lat : Lattice) (v : Loc) : Loc := wrapLimits lat (v.1, v.2.1, v.2.2 + 1)

/-- first loop of `sweep_move`: `flip_locations` (in order) and the rest of the stream -/
def flipLocations3D (lat : Lattice) (signs : Signs) : List Loc → List Dir → List Loc × List Dir
  | [], ds => ([], ds)
  | v :: vs, ds =>
    let r := sweepRule (signAt lat signs (xFace3D lat v)) (signAt lat signs (yFace3D lat v))
      (signAt lat signs (zFace3D lat v)) (xEdge3D lat v) (yEdge3D lat v) (zEdge3D lat v) ds
    let rest := flipLocations3D lat signs vs r.2
    (r.1 ++ rest.1, rest.2)

/-- `SweepDecoder3D.sweep_move(signs, correction)` with correction update `upd` -/
def sweepMove3DWith (upd : Op → Pauli → Loc → Op) (lat : Lattice) (st : State) (ds : List Dir) :
    Option (State × List Dir) :=
  let r := flipLocations3D lat st.signs (sweepVertices3D lat) ds
  (applyFlips lat (flipFaces3D lat) upd r.1 st).map fun st' => (st', r.2)

/-- the code as it is: `self.code.site(correction, 'Z', location)` -/
def sweepMove3D := sweepMove3DWith site
/-- the code before the fix (D9): `correction[location] = 'Z'` -/
def oldSweepMove3D := sweepMove3DWith assignZ

/-- `SweepDecoder3D.get_initial_state`: `signs = syndrome.copy(); signs[z_indices] = 0`
    (also what `RotatedSweepDecoder3D.get_initial_state` did before the seam repair) -/
def initialState (lat : Lattice) (syndrome : Signs) : Signs :=
  List.zipWith (fun s b => if lat.zIndex s then false else b) lat.stabs syndrome

/-- `while any(signs) and i_sweep < max_sweeps: signs = sweep_move(...)`; returns the
    states after each executed sweep, the final state and the unused stream -/
def sweepLoop (move : State → List Dir → Option (State × List Dir)) :
    Nat → State → List Dir → Option (List State × State × List Dir)
  | 0, st, ds => some ([], st, ds)
  | n + 1, st, ds =>
    if st.signs.any id then
      match move st ds with
      | none => none
      | some (st', ds') =>
        (sweepLoop move n st' ds').map fun r => (st' :: r.1, r.2)
    else some ([], st, ds)

/-- `SweepDecoder3D.decode` up to the final `to_bsf`: trajectory and final state -/
def run3DWith (upd : Op → Pauli → Loc → Op) (lat : Lattice) (maxSweepFactor : Nat)
    (syndrome : Signs) (ds : List Dir) : Option (List State × State × List Dir) :=
  sweepLoop (sweepMove3DWith upd lat) (maxSweepFactor * lat.maxSize)
    ⟨initialState lat syndrome, []⟩ ds

def run3D := run3DWith site
def oldRun3D := run3DWith assignZ

/-- `SweepDecoder3D.decode(syndrome)` -/
def decode3D (lat : Lattice) (maxSweepFactor : Nat) (syndrome : Signs) (ds : List Dir) :
    Option (List Nat) :=
  (run3D lat maxSweepFactor syndrome ds).bind fun r => toBsf lat r.2.1.corr

/-! ### RotatedSweepDecoder3D -/

abbrev SweepDir := Int × Int × Int

/-- `sweep_directions` of `decode`, in order -/
def sweepDirections : List SweepDir :=
  [(1, 0, 1), (1, 0, -1), (0, 1, 1), (0, 1, -1), (-1, 0, 1), (-1, 0, -1), (0, -1, 1), (0, -1, -1)]

/-- `RotatedSweepDecoder3D._wrap(location)`: identity unless
    `code.id == 'RotatedToric3DCode'`, else
    `((x - 1) % (2*Lx) + 1, (y - 1) % (2*Ly) + 1, z)` (Python `%`: `Int.emod`) -/
def wrapRot (lat : Lattice) (l : Loc) : Loc :=
  if lat.rotSeam then
    ((l.1 - 1) % (2 * (lat.size.1 : Int)) + 1, (l.2.1 - 1) % (2 * (lat.size.2.1 : Int)) + 1, l.2.2)
  else l

/-- the three faces of `get_sweep_faces(vertex, sweep_direction)` before `_wrap`
    (what the method returned before the seam repair) -/
def oldSweepFacesRot (v : Loc) (s : SweepDir) : Loc × Loc × Loc :=
  let (x, y, z) := v
  let (sx, sy, sz) := s
  let xF : Loc := if sx + sy > 0 then (x + 1, y + 1, z + 1 * sz) else (x - 1, y - 1, z + 1 * sz)
  let yF : Loc := if sx - sy > 0 then (x + 1, y - 1, z + 1 * sz) else (x - 1, y + 1, z + 1 * sz)
  let zF : Loc := (x + 2 * sx, y + 2 * sy, z)
  (xF, yF, zF)

/-- `get_sweep_faces(vertex, sweep_direction)`:
    `tuple(self._wrap(face) for face in (x_face, y_face, z_face))` -/
def sweepFacesRot (lat : Lattice) (v : Loc) (s : SweepDir) : Loc × Loc × Loc :=
  let F := oldSweepFacesRot v s
  (wrapRot lat F.1, wrapRot lat F.2.1, wrapRot lat F.2.2)

/-- the three edges of `get_sweep_edges(vertex, sweep_direction)` before `_wrap` -/
def oldSweepEdgesRot (v : Loc) (s : SweepDir) : Loc × Loc × Loc :=
  let (x, y, z) := v
  let (sx, sy, sz) := s
  let xE : Loc := if sx - sy > 0 then (x + 1, y - 1, z) else (x - 1, y + 1, z)
  let yE : Loc := if sx + sy > 0 then (x + 1, y + 1, z) else (x - 1, y - 1, z)
  let zE : Loc := (x, y, z + 1 * sz)
  (xE, yE, zE)

/-- `get_sweep_edges(vertex, sweep_direction)`:
    `tuple(self._wrap(edge) for edge in (x_edge, y_edge, z_edge))` -/
def sweepEdgesRot (lat : Lattice) (v : Loc) (s : SweepDir) : Loc × Loc × Loc :=
  let E := oldSweepEdgesRot v s
  (wrapRot lat E.1, wrapRot lat E.2.1, wrapRot lat E.2.2)

/-- adjacent faces listed by `RotatedSweepDecoder3D.flip_edge` before wrapping and filtering;
    `none`: no branch assigns `edge_direction` (`UnboundLocalError`) -/
def rawFacesRot (edge : Loc) : Option (List Loc) :=
  let (x, y, z) := edge
  let xdir : List Loc := [(x + 1, y + 1, z), (x - 1, y - 1, z), (x, y, z + 1), (x, y, z - 1)]
  let ydir : List Loc := [(x + 1, y - 1, z), (x - 1, y + 1, z), (x, y, z + 1), (x, y, z - 1)]
  let zdir : List Loc := [(x + 1, y + 1, z), (x - 1, y - 1, z), (x - 1, y + 1, z), (x + 1, y - 1, z)]
  if z % 2 == 0 then some zdir
  else if x % 4 == 1 then
    if y % 4 == 1 then some xdir else if y % 4 == 3 then some ydir else none
  else if x % 4 == 3 then
    if y % 4 == 1 then some ydir else if y % 4 == 3 then some xdir else none
  else none

/-- faces toggled by `RotatedSweepDecoder3D.flip_edge`:
    `faces = [self._wrap(face) for face in faces]`, then kept when
    `code.is_stabilizer(face, 'face')` -/
def flipFacesRot (lat : Lattice) (edge : Loc) : Option (List Loc) :=
  (rawFacesRot edge).map fun fs => (fs.map (wrapRot lat)).filter lat.isStabFace

/-- the flip table before the seam repair (D10): no `_wrap` -/
def oldFlipFacesRot (lat : Lattice) (edge : Loc) : Option (List Loc) :=
  (rawFacesRot edge).map fun fs => fs.filter lat.isStabFace

def flipEdgeRot (lat : Lattice) : Loc → Signs → Option Signs := flipWith lat (flipFacesRot lat)

/-- `for vertex in stabilizer_coordinates: if stabilizer_type(vertex) == 'vertex'` -/
def sweepVerticesRot (lat : Lattice) : List Loc := lat.stabs.filter fun s => !lat.isFace s

/-- first loop of the rotated `sweep_move` -/
def flipLocationsRot (lat : Lattice) (signs : Signs) (sd : SweepDir) :
    List Loc → List Dir → List Loc × List Dir
  | [], ds => ([], ds)
  | v :: vs, ds =>
    let (xF, yF, zF) := sweepFacesRot lat v sd
    let (xE, yE, zE) := sweepEdgesRot lat v sd
    let valid := lat.isStabFace xF && lat.isStabFace yF && lat.isStabFace zF &&
                 lat.isQubit xE && lat.isQubit yE && lat.isQubit zE
    let r := if valid then
        sweepRule (signs.getD (lat.stabIdx xF) false) (signs.getD (lat.stabIdx yF) false)
          (signs.getD (lat.stabIdx zF) false) xE yE zE ds
      else ([], ds)
    let rest := flipLocationsRot lat signs sd vs r.2
    (r.1 ++ rest.1, rest.2)

/-- `RotatedSweepDecoder3D.sweep_move(signs, correction, sweep_direction)` -/
def sweepMoveRot (lat : Lattice) (sd : SweepDir) (st : State) (ds : List Dir) :
    Option (State × List Dir) :=
  let r := flipLocationsRot lat st.signs sd (sweepVerticesRot lat) ds
  (applyFlips lat (flipFacesRot lat) site r.1 st).map fun st' => (st', r.2)

/-- `RotatedSweepDecoder3D.get_initial_state`: `signs = syndrome.copy()`, then the rows whose
    `stabilizer_type` is `'vertex'` are blanked (`signs[is_vertex] = 0`) -/
def initialStateRot (lat : Lattice) (syndrome : Signs) : Signs :=
  List.zipWith (fun s b => if lat.isFace s then b else false) lat.stabs syndrome

/-- `for sweep_direction in sweep_directions: <inner while loop>` -/
def dirsLoopRot (lat : Lattice) (maxSweeps : Nat) :
    List SweepDir → State → List Dir → Option (List State × State × List Dir)
  | [], st, ds => some ([], st, ds)
  | sd :: sds, st, ds =>
    match sweepLoop (sweepMoveRot lat sd) maxSweeps st ds with
    | none => none
    | some (tr, st', ds') =>
      (dirsLoopRot lat maxSweeps sds st' ds').map fun r => (tr ++ r.1, r.2)

/-- `while any(signs) and i_round < self.max_rounds: <all directions>` -/
def roundsLoopRot (lat : Lattice) (maxSweeps : Nat) :
    Nat → State → List Dir → Option (List State × State × List Dir)
  | 0, st, ds => some ([], st, ds)
  | n + 1, st, ds =>
    if st.signs.any id then
      match dirsLoopRot lat maxSweeps sweepDirections st ds with
      | none => none
      | some (tr, st', ds') =>
        (roundsLoopRot lat maxSweeps n st' ds').map fun r => (tr ++ r.1, r.2)
    else some ([], st, ds)

/-- `RotatedSweepDecoder3D.decode` up to the final `to_bsf`;
    `max_sweeps = 4 * (2*max(size) + 2)` -/
def runRot (lat : Lattice) (maxRounds : Nat) (syndrome : Signs) (ds : List Dir) :
    Option (List State × State × List Dir) :=
  roundsLoopRot lat (4 * (2 * lat.maxSize + 2)) maxRounds ⟨initialStateRot lat syndrome, []⟩ ds

def decodeRot (lat : Lattice) (maxRounds : Nat) (syndrome : Signs) (ds : List Dir) :
    Option (List Nat) :=
  (runRot lat maxRounds syndrome ds).bind fun r => toBsf lat r.2.1.corr

/-! ### what the property talks about: syndromes of face stabilizers -/

/-- parity of the number of elements with `f` -/
def xorSum {α : Type} (l : List α) (f : α → Bool) : Bool :=
  l.foldr (fun a acc => f a != acc) false

/-- one row of `measure_syndrome`: symplectic product of the stabilizer `op` with the
    error whose X part is `ex` and Z part is `ez` -/
def rowSyn (op : Op) (ex ez : Loc → Bool) : Bool :=
  xorSum op fun e => (hasX e.2 && ez e.1) != (hasZ e.2 && ex e.1)

/-- `code.measure_syndrome(error)` -/
def syndromeOf (lat : Lattice) (ex ez : Loc → Bool) : Signs :=
  lat.stabs.map fun s => rowSyn (lat.stabOp s) ex ez

/-- the face part of the syndrome of a Z-type operator `ez`: rows flagged in `z_indices`
    are blanked, the others are `measure_syndrome` -/
def faceSyn (lat : Lattice) (ez : Loc → Bool) : Signs :=
  lat.stabs.map fun s => !lat.zIndex s && rowSyn (lat.stabOp s) (fun _ => false) ez

/-- Z part of `to_bsf(correction)` as a function of the location -/
def zPartOf (corr : Op) (q : Loc) : Bool :=
  match corr.lookup q with
  | some p => hasZ p
  | none => false

/-- X part of `to_bsf(correction)` -/
def xPartOf (corr : Op) (q : Loc) : Bool :=
  match corr.lookup q with
  | some p => hasX p
  | none => false

/-- error (Z part `ez`) composed with the correction -/
def residualZ (ez : Loc → Bool) (corr : Op) : Loc → Bool := fun q => ez q != zPartOf corr q

/-- THE INVARIANT of C10: the tracked excitations are the face syndrome of
    error + correction so far -/
def Tracks (lat : Lattice) (ez : Loc → Bool) (st : State) : Prop :=
  st.signs = faceSyn lat (residualZ ez st.corr)

instance (lat : Lattice) (ez : Loc → Bool) (st : State) : Decidable (Tracks lat ez st) := by
  unfold Tracks; infer_instance

/-- does the face stabilizer `s` anticommute with Z on `loc` (and count as a face row)? -/
def faceHas (lat : Lattice) (s loc : Loc) : Bool :=
  !lat.zIndex s && xorSum (lat.stabOp s) (fun e => hasX e.2 && e.1 == loc)

/-- is `s` listed an odd number of times -/
def oddCount (fl : List Loc) (s : Loc) : Bool := xorSum fl (fun f => f == s)

/-- flipping `loc` toggles exactly the face stabilizers that anticommute with Z on `loc` -/
def flipOK (lat : Lattice) (faces : Loc → Option (List Loc)) (loc : Loc) : Bool :=
  match faces loc with
  | none => false
  | some fl => lat.stabs.all fun s => oddCount fl s == faceHas lat s loc

/-- consistency of a flip table with the face stabilizers, on every edge of the lattice -/
def flipTableOK (lat : Lattice) (faces : Loc → Option (List Loc)) : Bool :=
  lat.qubits.all (flipOK lat faces)

/-- edges on which the table is inconsistent (driver / diagnostics) -/
def flipTableBad (lat : Lattice) (faces : Loc → Option (List Loc)) : List Loc :=
  lat.qubits.filter fun q => !flipOK lat faces q

/-! ### the same notions with an arbitrary choice of the rows that count as face rows

`SweepDecoder3D.get_initial_state` blanks `z_indices`; `RotatedSweepDecoder3D.get_initial_state`
blanks the rows whose `stabilizer_type` is `'vertex'`.  The two differ on the defect lines of an
odd-sized RotatedToric3DCode, where a generator of type `'face'` carries Z letters too; such a
row also sees the X part of the error, so the general notion keeps the X part `ex`. -/

/-- the rows selected by `keep` of `measure_syndrome` of the Pauli operator with X part `ex`
    and Z part `ez`; the other rows are blanked -/
def faceSynK (keep : Loc → Bool) (lat : Lattice) (ex ez : Loc → Bool) : Signs :=
  lat.stabs.map fun s => keep s && rowSyn (lat.stabOp s) ex ez

/-- the invariant, for the face rows selected by `keep` and an error with X part `ex` -/
def TracksK (keep : Loc → Bool) (lat : Lattice) (ex ez : Loc → Bool) (st : State) : Prop :=
  st.signs = faceSynK keep lat ex (residualZ ez st.corr)

instance (keep : Loc → Bool) (lat : Lattice) (ex ez : Loc → Bool) (st : State) :
    Decidable (TracksK keep lat ex ez st) := by
  unfold TracksK; infer_instance

def faceHasK (keep : Loc → Bool) (lat : Lattice) (s loc : Loc) : Bool :=
  keep s && xorSum (lat.stabOp s) (fun e => hasX e.2 && e.1 == loc)

def flipOKK (keep : Loc → Bool) (lat : Lattice) (faces : Loc → Option (List Loc)) (loc : Loc) : Bool :=
  match faces loc with
  | none => false
  | some fl => lat.stabs.all fun s => oddCount fl s == faceHasK keep lat s loc

/-! ### the rotated decoder: face rows = rows of type `'face'` -/

/-- X part of the error composed with the correction -/
def residualX (ex : Loc → Bool) (corr : Op) : Loc → Bool := fun q => ex q != xPartOf corr q

/-- the rows of type `'face'` of `measure_syndrome(error)` (X part `ex`, Z part `ez`); the rows
    of type `'vertex'` are blanked -/
def faceSynRot (lat : Lattice) (ex ez : Loc → Bool) : Signs := faceSynK lat.isFace lat ex ez

/-- THE INVARIANT of C10 for `RotatedSweepDecoder3D`: the tracked excitations are the rows of
    type `'face'` of the syndrome of error (X part `ex`, Z part `ez`) composed with the
    correction so far -/
def TracksRot (lat : Lattice) (ex ez : Loc → Bool) (st : State) : Prop :=
  st.signs = faceSynRot lat (residualX ex st.corr) (residualZ ez st.corr)

instance (lat : Lattice) (ex ez : Loc → Bool) (st : State) : Decidable (TracksRot lat ex ez st) := by
  unfold TracksRot; infer_instance

/-- does the stabilizer `s` have type `'face'` and anticommute with Z on `loc`? -/
def faceHasRot (lat : Lattice) (s loc : Loc) : Bool := faceHasK lat.isFace lat s loc

/-- flipping `loc` toggles exactly the generators of type `'face'` that anticommute with Z on
    `loc` -/
def flipOKRot (lat : Lattice) (faces : Loc → Option (List Loc)) (loc : Loc) : Bool :=
  flipOKK lat.isFace lat faces loc

/-- consistency of a flip table with the generators of type `'face'`, on every edge -/
def flipTableOKRot (lat : Lattice) (faces : Loc → Option (List Loc)) : Bool :=
  lat.qubits.all (flipOKRot lat faces)

/-- edges on which the table is inconsistent (driver / diagnostics) -/
def flipTableBadRot (lat : Lattice) (faces : Loc → Option (List Loc)) : List Loc :=
  lat.qubits.filter fun q => !flipOKRot lat faces q

/-- at every vertex, for every sweep direction of `decode`: `all(faces_valid)` implies
    `all(edges_valid)` (decidable; the analogue of `sweepEdgesOK3D`, not needed as a hypothesis
    because the rotated decoder checks the edges at run time) -/
def sweepEdgesOKRot (lat : Lattice) : Bool :=
  (sweepVerticesRot lat).all fun v => sweepDirections.all fun sd =>
    let F := sweepFacesRot lat v sd
    let E := sweepEdgesRot lat v sd
    !(lat.isStabFace F.1 && lat.isStabFace F.2.1 && lat.isStabFace F.2.2) ||
      (lat.isQubit E.1 && lat.isQubit E.2.1 && lat.isQubit E.2.2)

/-- every edge `SweepDecoder3D.sweep_move` can propose is an edge of the lattice, whenever
    the two faces whose excitation triggers the proposal exist -/
def sweepEdgesOK3D (lat : Lattice) : Bool :=
  (sweepVertices3D lat).all fun v =>
    (!(lat.isStab (yFace3D lat v) && lat.isStab (zFace3D lat v)) || lat.isQubit (xEdge3D lat v)) &&
    (!(lat.isStab (xFace3D lat v) && lat.isStab (zFace3D lat v)) || lat.isQubit (yEdge3D lat v)) &&
    (!(lat.isStab (xFace3D lat v) && lat.isStab (yFace3D lat v)) || lat.isQubit (zEdge3D lat v))

end Panqec.Sweep
