/-
Model of the INTERNALS of panqec's union-find decoder,
`panqec/decoders/union_find/uf_support.py` (classes `Clustering_Tree`, `Peeling_Tree`,
`Support`), as the Python does it.

Executable, total, no Mathlib.  `H` is the parity-check matrix of one sector
(`Mat = List (List Nat)`, entries 0/1; "nonzero" is what the code tests), the syndrome a
`Vec`.  The Tanner graph is never built explicitly by the code: a *stabilizer* `s` is a row
index, a *qubit* `q` a column index, and `q` is an (hyper)edge between the rows in which its
column is nonzero.  A column of weight 1 is a dangling edge (there is NO boundary vertex and no
notion of a cluster "touching the boundary" in this implementation); two equal columns of
weight 2 are parallel edges (`Toric2DCode` with a side of length 2).  Nothing in the code rejects
either.

numpy arrays that the code mutates are functions here (`Nat → Int`, `Nat → Bool`), indexed
`0 … m-1` (stabilizers) / `0 … n-1` (qubits):

* `_H_to_grow` is only ever changed by zeroing whole rows (`grow_stabilizer`) and whole columns
  (`grow_qubit`): it is `H` masked by `rowDead`, `colDead`.
* `_s_parents`, `_q_parents`: `sPar`, `qPar` (`-1` = none).
* `cluster_forest` (a dict keyed by root): an association list in insertion order
  (`pop` removes, re-insertion appends).
* Python `set`s (`_boundary_list`, the fusion set, `set(cluster_forest.values())`): duplicate-free
  lists.  The ORDER in which CPython iterates a set depends on the hash-table history and it DOES
  influence the result here (which of several smallest odd clusters grows first; in which order
  the fused qubits merge clusters, hence which root survives a tie, hence the root of the
  peeling tree and the correction).  The model does not guess it: every iteration over a set takes
  its order from a *schedule* (`Sched`): the next recorded order is used if it is a permutation
  of the set the model computed itself; otherwise (or when the schedule is exhausted) the list
  order is used and, in the first case, `ok` is cleared.  The correspondence feeds the orders
  recorded from the running implementation; the theorems hold for every schedule.
* `Peeling_Tree.peel` is modelled as it is SINCE the repair of known finding D15 (one qubit per
  syndrome-carrying leaf: `shared.argmax(axis=1)`); the behaviour before (every shared qubit) is
  kept as `oldPeelRound … oldDecodeWith` for the regression theorems.
* loops that run "until a condition" take explicit fuel; running out of fuel is reported as
  divergence (the Python loops for ever in these cases: e.g. an odd number of defects in a
  connected component, which happens on planar codes).
-/
import PanqecVerif.Model.Decoders

namespace Panqec.UF

/-! ### matrix access -/

/-- `H[s, q] != 0` -/
def hb (H : Mat) (s q : Nat) : Bool := (H.getD s []).getD q 0 != 0

/-- `H.shape[1]` -/
def ncols (H : Mat) : Nat := (H.headD []).length

/-- `Support._hash_s_index`: stabilizer `i` is stored as `-i-1` in a boundary list -/
def hashS (i : Nat) : Int := -(i : Int) - 1

/-- inverse of `hashS` on negative numbers -/
def unhashS (b : Int) : Nat := (-b - 1).toNat

/-- `set.union` on duplicate-free lists -/
def sunion (a b : List Int) : List Int :=
  b.foldl (fun acc x => if x ∈ acc then acc else acc ++ [x]) a

/-! ### iteration order of Python sets -/

structure Sched where
  /-- recorded iteration orders still to be consumed -/
  rest : List (List Int)
  /-- every recorded order so far was a permutation of the set computed by the model -/
  ok : Bool

/-- `l` lists exactly the elements of the duplicate-free list `s`, once each -/
def isPermOf (l s : List Int) : Bool :=
  l.length == s.length && l.all (fun x => decide (x ∈ s)) && s.all (fun x => decide (x ∈ l)) &&
    decide l.Nodup

/-- the order in which the next set iteration visits `s` -/
def Sched.take (sc : Sched) (s : List Int) : List Int × Sched :=
  match sc.rest with
  | [] => (s, sc)
  | l :: rest => if isPermOf l s then (l, ⟨rest, sc.ok⟩) else (s, ⟨rest, false⟩)

/-! ### clusters (`Clustering_Tree`) and the support state -/

structure Cluster where
  root : Nat
  size : Nat
  odd : Bool
  /-- `_boundary_list`: qubits `q ≥ 0`, stabilizers `-s-1` -/
  bnd : List Int

/-- mutable state of `Support` during `clustering()` -/
structure GState where
  rowDead : Nat → Bool
  colDead : Nat → Bool
  sPar : Nat → Int
  qPar : Nat → Int
  forest : List Cluster
  sched : Sched
  /-- a point was reached where the Python leaves the fragment modelled here (negative index
      wrap-around in `find_root`, a parent chain longer than the array): never on reachable
      states (theorem), reported by the driver -/
  bad : Bool

/-- `_H_to_grow[s, q] != 0` -/
def live (H : Mat) (rowDead colDead : Nat → Bool) (s q : Nat) : Bool :=
  hb H s q && !rowDead s && !colDead q

/-- the `while v != p` loop of `find_root`; returns the root and the list `seen` -/
def findLoop (par : Nat → Int) : Nat → Nat → Int → List Nat → Option (Nat × List Nat)
  | 0, _, _, _ => none
  | fuel + 1, v, p, seen =>
    if (v : Int) = p then some (v, seen)
    else if p < 0 then none
    else findLoop par fuel p.toNat (par p.toNat) (seen ++ [v])

/-- `Support.find_root(v)` on `_s_parents` (with path compression `parents[seen] = root`):
    returns (root or -1, new parents, left-the-model flag) -/
def findRoot (m : Nat) (par : Nat → Int) (v : Nat) : Int × (Nat → Int) × Bool :=
  if par v = -1 then (-1, par, false)
  else match findLoop par (m + 1) v (par v) [] with
    | none => (-1, par, true)
    | some (r, seen) => ((r : Int), (fun i => if i ∈ seen then (r : Int) else par i), false)

/-! ### `Clustering_Tree.grow` -/

structure GrowAcc where
  rowDead : Nat → Bool
  colDead : Nat → Bool
  newB : List Int
  fus : List Int

/-- one element `b` of the boundary list:
    stabilizer (`b < 0`): `grow_stabilizer` — the live columns of its row are the new boundary AND
    the fusion list, then the row is zeroed;
    qubit: `grow_qubit` — the live rows of its column (hashed) are the new boundary, the fusion list
    is `[q]`, then the column is zeroed. -/
def growStep (H : Mat) (acc : GrowAcc) (b : Int) : GrowAcc :=
  if b < 0 then
    let s := unhashS b
    let qs := ((List.range (ncols H)).filter fun q => live H acc.rowDead acc.colDead s q).map Int.ofNat
    { acc with rowDead := fun i => if i = s then true else acc.rowDead i,
               newB := sunion acc.newB qs, fus := sunion acc.fus qs }
  else
    let q := b.toNat
    let ss := ((List.range H.length).filter fun s => live H acc.rowDead acc.colDead s q).map hashS
    { acc with colDead := fun i => if i = q then true else acc.colDead i,
               newB := sunion acc.newB ss, fus := sunion acc.fus [b] }

/-! ### `Support.merge_clusters` -/

structure MergeAcc where
  sPar : Nat → Int
  forest : List Cluster
  clusters : List Cluster
  biggest : Option Cluster
  max : Nat
  bad : Bool

/-- body of `for s in s_l` -/
def mergeStep (m : Nat) (acc : MergeAcc) (s : Nat) : MergeAcc :=
  let r := findRoot m acc.sPar s
  if r.1 = -1 then
    -- "dummy cluster for the new stabilizer just grown": Clustering_Tree(s, self, odd=False)
    { acc with sPar := r.2.1, bad := acc.bad || r.2.2,
               clusters := acc.clusters ++ [⟨s, 1, false, [hashS s]⟩] }
  else
    match acc.forest.find? (fun c => c.root = r.1.toNat) with
    | none => { acc with sPar := r.2.1 }                  -- "have popped"
    | some c =>
      { acc with sPar := r.2.1,
                 forest := acc.forest.eraseP (fun c => c.root = r.1.toNat),   -- cluster_forest.pop(rt)
                 clusters := acc.clusters ++ [c],
                 biggest := if c.size > acc.max then some c else acc.biggest,
                 max := if c.size > acc.max then c.size else acc.max }

/-- `Clustering_Tree.merge` applied to one absorbed cluster: size, parity, boundary -/
def absorb (a c : Cluster) : Cluster :=
  ⟨a.root, a.size + c.size, xor a.odd c.odd, sunion a.bnd c.bnd⟩

/-- `merge_clusters(s_l, cluster_forest)`: returns (root or -1, `_s_parents`, forest, flag) -/
def mergeClusters (m : Nat) (sPar : Nat → Int) (forest : List Cluster) (ss : List Nat) :
    Int × (Nat → Int) × List Cluster × Bool :=
  let acc := ss.foldl (mergeStep m) ⟨sPar, forest, [], none, 0, false⟩
  match acc.biggest with
  | none => (-1, acc.sPar, acc.forest, acc.bad)
  | some b =>
    -- `clusters.remove(biggest)`: first element that `==` it, i.e. has the same root
    let others := acc.clusters.eraseP (fun c => c.root = b.root)
    let merged := others.foldl absorb b
    -- `self.support._s_parents[rt] = self._root` for every absorbed cluster
    let sPar' := others.foldl (fun p c => fun i => if i = c.root then (b.root : Int) else p i) acc.sPar
    ((b.root : Int), sPar', acc.forest ++ [merged], acc.bad)

/-! ### `Support.clustering` -/

/-- `_smallest_invalid_cluster` over the clusters in iteration order -/
def smallestInvalid (order : List Cluster) : Option Cluster :=
  order.foldl (fun (acc : Option Cluster) c =>
    if c.odd then
      match acc with
      | none => some c
      | some a => if c.size < a.size then some c else acc
    else acc) none

/-- `self._smallest_invalid_cluster(set(cluster_forest.values()))` -/
def pick (st : GState) : Option Cluster × GState :=
  let t := st.sched.take (st.forest.map fun c => (c.root : Int))
  let order := t.1.filterMap fun r => st.forest.find? fun c => (c.root : Int) = r
  (smallestInvalid order, { st with sched := t.2 })

/-- body of `for q in fusion_set`: the rows of column `q` already grown
    (`H[:, q] - _H_to_grow[:, q]`, ascending), `merge_clusters`, `_q_parents[q] = root` -/
def fuseStep (H : Mat) (st : GState) (qi : Int) : GState :=
  let q := qi.toNat
  let ss := (List.range H.length).filter fun s => hb H s q && !live H st.rowDead st.colDead s q
  let r := mergeClusters H.length st.sPar st.forest ss
  { st with sPar := r.2.1, forest := r.2.2.1, bad := st.bad || r.2.2.2,
            qPar := fun i => if i = q then r.1 else st.qPar i }

/-- the fusion set returned by `c.grow()` and the state after it (before the merges) -/
def growCluster (H : Mat) (st : GState) (c : Cluster) : List Int × GState :=
  let t := st.sched.take c.bnd
  let acc := t.1.foldl (growStep H) ⟨st.rowDead, st.colDead, [], []⟩
  (acc.fus,
   { st with rowDead := acc.rowDead, colDead := acc.colDead, sched := t.2,
             forest := st.forest.map fun d => if d.root = c.root then { d with bnd := acc.newB } else d })

/-- one turn of the `while smallest_cluster` loop -/
def growIter (H : Mat) (st : GState) (c : Cluster) : GState :=
  let g := growCluster H st c
  let t := g.2.sched.take g.1
  t.1.foldl (fuseStep H) { g.2 with sched := t.2 }

/-- the loop; `false` = fuel exhausted with an odd cluster left (the Python does not terminate) -/
def clusterLoop (H : Mat) : Nat → GState → GState × Bool
  | 0, st => (st, false)
  | fuel + 1, st =>
    match pick st with
    | (none, st') => (st', true)
    | (some c, st') => clusterLoop H fuel (growIter H st' c)

/-- state after `__init__` and `_init_cluster_forest` -/
def initState (H : Mat) (sy : Vec) (sched : List (List Int)) : GState :=
  let defects := (List.range H.length).filter fun i => sy.getD i 0 != 0
  { rowDead := fun _ => false, colDead := fun _ => false,
    sPar := fun i => if i ∈ defects then (i : Int) else -1,
    qPar := fun _ => -1,
    forest := defects.map fun i => ⟨i, 1, true, [hashS i]⟩,
    sched := ⟨sched, true⟩, bad := false }

/-- number of turns after which the loop is declared divergent: every productive turn zeroes
    at least one nonzero entry of `_H_to_grow` -/
def growFuel (H : Mat) : Nat := H.length * ncols H + 1

/-- `_update_parents(parents, roots)` for indices `0 … k-1` of `parents`;
    `find_root` acts on (and compresses) `_s_parents`. -/
def updateParents (m : Nat) (roots : List Nat) :
    List Nat → (Nat → Int) × (Nat → Int) × Bool → (Nat → Int) × (Nat → Int) × Bool
  | [], x => x
  | i :: is, (parents, sPar, bad) =>
    let p := parents i
    if p ≠ -1 ∧ p.toNat ∉ roots then
      let r := findRoot m sPar p.toNat
      updateParents m roots is ((fun j => if j = i then r.1 else parents j), r.2.1, bad || r.2.2)
    else updateParents m roots is (parents, sPar, bad)

/-- `_update_parents(self._s_parents, roots)`: the array being rewritten IS `_s_parents` -/
def updateSParents (m : Nat) (roots : List Nat) : List Nat → (Nat → Int) × Bool → (Nat → Int) × Bool
  | [], x => x
  | i :: is, (sPar, bad) =>
    let p := sPar i
    if p ≠ -1 ∧ p.toNat ∉ roots then
      let r := findRoot m sPar p.toNat
      updateSParents m roots is ((fun j => if j = i then r.1 else r.2.1 j), bad || r.2.2)
    else updateSParents m roots is (sPar, bad)

structure Clustered where
  roots : List Nat
  sPar : Nat → Int
  qPar : Nat → Int
  terminated : Bool
  sched : Sched
  bad : Bool

/-- `Support.clustering()` -/
def clustering (H : Mat) (sy : Vec) (sched : List (List Int)) : Clustered :=
  let r := clusterLoop H (growFuel H) (initState H sy sched)
  let st := r.1
  let roots := st.forest.map (·.root)
  let s1 := updateSParents H.length roots (List.range H.length) (st.sPar, st.bad)
  let q1 := updateParents H.length roots (List.range (ncols H)) (st.qPar, s1.1, s1.2)
  { roots := roots, sPar := q1.2.1, qPar := q1.1, terminated := r.2, sched := st.sched, bad := q1.2.2 }

/-! ### `Peeling_Tree` -/

/-- `self.H`: `H` restricted to the member qubits and stabilizers of the cluster -/
def subH (H : Mat) (stabs qubits : Nat → Bool) (s q : Nat) : Bool := stabs s && (qubits q && hb H s q)

/-- `(H @ H.T).astype(bool)` of the `uint8` sub-matrix: the number of shared member qubits,
    reduced mod 256 by the `uint8` product, is nonzero -/
def shared (H : Mat) (stabs qubits : Nat → Bool) (i j : Nat) : Bool :=
  ((List.range (ncols H)).countP fun q => subH H stabs qubits i q && subH H stabs qubits j q) % 256 != 0

structure BfsAcc where
  S : Nat → Nat → Bool
  unseen : Nat → Bool
  newLeaves : List Nat

/-- body of `for s in leaves_ind` in `_build_tree` -/
def bfsStep (m : Nat) (acc : BfsAcc) (s : Nat) : BfsAcc :=
  let ch := (List.range m).filter fun j => acc.S s j           -- children = S[s] as index list
  if ch = [] then { acc with newLeaves := acc.newLeaves ++ [s] }
  else
    -- S[:, children] = 0; S[children, s] = 0; S[s, children] = 1
    { S := fun i j =>
        if i = s ∧ j ∈ ch then true
        else if i ∈ ch ∧ j = s then false
        else if j ∈ ch then false
        else acc.S i j,
      -- new_leaves_ind.extend(np.where(children & unseen)[0]); unseen[children] = 0
      newLeaves := acc.newLeaves ++ ch.filter acc.unseen,
      unseen := fun j => if j ∈ ch then false else acc.unseen j }

/-- the `while np.sum(unseen) > 0` loop; `none` = fuel exhausted (a member stabilizer is not
    connected to the root through member qubits: the Python loops for ever) -/
def bfsLoop (m : Nat) : Nat → (Nat → Nat → Bool) → (Nat → Bool) → List Nat →
    Option ((Nat → Nat → Bool) × List Nat)
  | 0, _, _, _ => none
  | fuel + 1, S, unseen, leaves =>
    if (List.range m).any unseen then
      let acc := leaves.foldl (bfsStep m) ⟨S, unseen, []⟩
      bfsLoop m fuel acc.S acc.unseen acc.newLeaves
    else some (S, leaves)

/-- `Peeling_Tree._build_tree(H, stabilizers, root)` (with the final `S.setdiag(0)`) -/
def buildTree (H : Mat) (stabs qubits : Nat → Bool) (root : Nat) :
    Option ((Nat → Nat → Bool) × List Nat) :=
  match bfsLoop H.length (H.length + 1) (shared H stabs qubits)
      (fun i => if i = root then false else stabs i) [root] with
  | none => none
  | some (S, leaves) => some ((fun i j => if i = j then false else S i j), leaves)

inductive PeelErr
  /-- `_build_tree` does not terminate -/
  | treeDiverges
  /-- `peel` does not terminate -/
  | peelDiverges
  /-- the numbers of parents and leaves differ: numpy raises (IndexError / ValueError) or
      broadcasts; outside the model.  Also: the matrix has no column (`argmax` of an empty
      axis raises ValueError). -/
  | shape
  deriving Repr, DecidableEq

structure PeelRound where
  parents : List Nat
  leaves : List Nat
  syn : List Bool

structure PeelSt where
  S : Nat → Nat → Bool
  syn : Nat → Bool
  leaves : List Nat
  corr : List Nat
  rounds : List PeelRound

/-- `f` on `0 … k-1` as an array (built once; only there to make the executable model fast:
    `tabGet (tabArr k f) f = f`, see `Proofs/UnionFindBasic.lean`) -/
def tabArr {α : Type} (k : Nat) (f : Nat → α) : Array α := Array.ofFn (n := k) fun i => f i.val

def tabGet {α : Type} (a : Array α) (f : Nat → α) (i : Nat) : α := if h : i < a.size then a[i] else f i

/-- `syndrome[curr_leaves_ind] = False` -/
def clearLeaves (f : Nat → Bool) (leaves : List Nat) (i : Nat) : Bool :=
  if i ∈ leaves then false else f i

/-- `_update_syndrome`: every parent's bit is xored with its leaf's bit (in `zip` order), then
    the leaves are cleared.  (The code goes through a dict keyed by parent, which reads the old
    array once per key and writes back at the end: the same function.)
    (Written as a partial application so that the compiled model evaluates the fold once.) -/
def updateSyndrome (syn : Nat → Bool) (parents leaves : List Nat) : Nat → Bool :=
  clearLeaves ((parents.zip (leaves.map syn)).foldl
    (fun (f : Nat → Bool) (pl : Nat × Bool) => fun i => if i = pl.1 then (f i != pl.2) else f i) syn) leaves

/-- strictly ascending insertion (for `np.unique`) -/
def insertU (x : Nat) : List Nat → List Nat
  | [] => [x]
  | y :: ys => if x < y then x :: y :: ys else if x = y then y :: ys else y :: insertU x ys

/-- `np.unique` -/
def unique (l : List Nat) : List Nat := l.foldr insertU []

/-- `shared[k].argmax()` for the row of one selected (parent, leaf) pair: the FIRST member qubit
    adjacent to both; `argmax` of an all-`False` row is 0 -/
def firstShared (H : Mat) (stabs qubits : Nat → Bool) (p c : Nat) : Nat :=
  ((List.range (ncols H)).filter fun q => subH H stabs qubits p q && subH H stabs qubits c q).headD 0

/-- one turn of the `while np.sum(curr_syndromes) > 0` loop of `peel` -/
def peelRound (H : Mat) (stabs qubits : Nat → Bool) (st : PeelSt) : Except PeelErr PeelSt :=
  let m := H.length
  -- np.where(child_to_p[curr_leaves_ind].toarray())[1]
  let parents := st.leaves.flatMap fun c => (List.range m).filter fun p => st.S p c
  if parents.length ≠ st.leaves.length then .error .shape
  -- `argmax` along an axis of length 0 raises ValueError (whatever the number of rows)
  else if ncols H = 0 then .error .shape
  else
    -- shared = (parent_qubits & leaf_qubits)[syndrome_leaves, :]; shared.argmax(axis=1):
    -- ONE qubit per syndrome-carrying leaf, the first one it shares with its parent
    let add := (parents.zip st.leaves).flatMap fun pc =>
      if st.syn pc.2 then [firstShared H stabs qubits pc.1 pc.2] else []
    -- tabulated once per round: as a bare function the compiled model would redo the update on
    -- every lookup
    let synA := tabArr m (updateSyndrome st.syn parents st.leaves)
    let syn' := tabGet synA (updateSyndrome st.syn parents st.leaves)
    -- child_to_p[curr_leaves_ind, :] = 0
    let S' : Nat → Nat → Bool := fun p c => if c ∈ st.leaves then false else st.S p c
    -- np.unique(parents[np.where((~child_to_p)[:, parents].all(axis=0))[0]])
    let leaves' := unique (parents.filter fun p => (List.range m).all fun c => !S' p c)
    .ok { S := S', syn := syn', leaves := leaves', corr := st.corr ++ add,
          rounds := st.rounds ++ [⟨parents, st.leaves, (List.range m).map st.syn⟩] }

def peelLoop (H : Mat) (stabs qubits : Nat → Bool) : Nat → PeelSt → Except PeelErr PeelSt
  | 0, _ => .error .peelDiverges
  | fuel + 1, st =>
    if (List.range H.length).any st.syn then
      match peelRound H stabs qubits st with
      | .error e => .error e
      | .ok st' => peelLoop H stabs qubits fuel st'
    else .ok st

structure TreeTrace where
  root : Nat
  stabs : List Nat
  qubits : List Nat
  edges : List (Nat × Nat)
  leaves : List Nat
  rounds : List PeelRound
  corr : List Nat

/-- a Boolean matrix on `0 … k-1` squared as a flat array (same purpose as `tabArr`) -/
def tabArr2 (k : Nat) (f : Nat → Nat → Bool) : Array Bool :=
  Array.ofFn (n := k * k) fun i => f (i.val / k) (i.val % k)

def tabGet2 (a : Array Bool) (k : Nat) (f : Nat → Nat → Bool) (i j : Nat) : Bool :=
  if h : i < k ∧ j < k ∧ i * k + j < a.size then a[i * k + j] else f i j

/-- `Peeling_Tree(r, self, s, q).peel()` for one root -/
def peelTree (H : Mat) (sy : Vec) (sPar qPar : Nat → Int) (r : Nat) : Except PeelErr TreeTrace :=
  let m := H.length
  -- the two membership tests are tabulated once per tree (`_s_parents`, `_q_parents` are long
  -- chains of updates in the model)
  let sA := tabArr m fun s => decide (s < m) && decide (sPar s = (r : Int))
  let qA := tabArr (ncols H) fun q => decide (q < ncols H) && decide (qPar q = (r : Int))
  let stabs : Nat → Bool := tabGet sA fun s => decide (s < m) && decide (sPar s = (r : Int))
  let qubits : Nat → Bool := tabGet qA fun q => decide (q < ncols H) && decide (qPar q = (r : Int))
  match buildTree H stabs qubits r with
  | none => .error .treeDiverges
  | some (S0, leaves) =>
    -- the tree matrix is tabulated once (in the model it is a chain of updates over `H Hᵀ`)
    let SA := tabArr2 m S0
    let S : Nat → Nat → Bool := tabGet2 SA m S0
    let syn : Nat → Bool := fun s => sy.getD s 0 != 0 && stabs s
    match peelLoop H stabs qubits (m + 1) ⟨S, syn, leaves, [], []⟩ with
    | .error e => .error e
    | .ok st =>
      .ok { root := r, stabs := (List.range m).filter stabs, qubits := (List.range (ncols H)).filter qubits,
            edges := (List.range m).flatMap fun p => ((List.range m).filter (S p)).map fun c => (p, c),
            leaves := leaves, rounds := st.rounds, corr := st.corr }

/-- `Support.peeling(roots)` up to the index list -/
def peelAll (H : Mat) (sy : Vec) (sPar qPar : Nat → Int) : List Nat → Except PeelErr (List TreeTrace)
  | [] => .ok []
  | r :: rs =>
    match peelTree H sy sPar qPar r with
    | .error e => .error e
    | .ok t =>
      match peelAll H sy sPar qPar rs with
      | .error e => .error e
      | .ok ts => .ok (t :: ts)

/-- `correction = zeros(n); correction[correction_ind] = 1` (assignment, not xor) -/
def indicator (n : Nat) (ind : List Nat) : Vec := (List.range n).map fun q => if q ∈ ind then 1 else 0

inductive Outcome
  | ok (corr : Vec)
  /-- the growth loop does not terminate -/
  | growthDiverges
  | peel (e : PeelErr)
  deriving Repr, DecidableEq

structure Run where
  outcome : Outcome
  /-- the recorded set orders were all consistent with the sets of the model -/
  schedOk : Bool
  /-- the run left the modelled fragment (see `GState.bad`) -/
  bad : Bool

/-- `Support(syndrome, H).decode()` under a schedule of set iteration orders -/
def decodeWith (H : Mat) (sy : Vec) (sched : List (List Int)) : Run :=
  let c := clustering H sy sched
  if !c.terminated then ⟨.growthDiverges, c.sched.ok, c.bad⟩
  else
    match peelAll H sy c.sPar c.qPar c.roots with
    | .error e => ⟨.peel e, c.sched.ok, c.bad⟩
    | .ok ts => ⟨.ok (indicator (ncols H) (ts.flatMap (·.corr))), c.sched.ok, c.bad⟩

/-- the model as a `USolver` of `Model/Decoders.lean` (list order for every set; an outcome other
    than `ok` — the Python hangs or raises — is mapped to the empty vector, which fails every
    length check of the glue) -/
def ufSolve : USolver := fun H sy =>
  match (decodeWith H sy []).outcome with
  | .ok c => c
  | _ => []

/-! ### the code BEFORE the repair of `Peeling_Tree.peel` (regression theorems only)

Until the fix `peel` extended the correction by
`np.where((parent_qubits & leaf_qubits)[syndrome_leaves, :])[1]`: EVERY member qubit shared by a
syndrome-carrying leaf and its parent.  Two stabilizers joined by two qubits (parallel edges:
`Toric2DCode` with a side of length 2) then got both, which cancel.  Everything else is
unchanged. -/

/-- `peelRound` before the fix -/
def oldPeelRound (H : Mat) (stabs qubits : Nat → Bool) (st : PeelSt) : Except PeelErr PeelSt :=
  let m := H.length
  let parents := st.leaves.flatMap fun c => (List.range m).filter fun p => st.S p c
  if parents.length ≠ st.leaves.length then .error .shape
  else
    -- np.where((parent_qubits & leaf_qubits)[syndrome_leaves, :])[1]
    let add := (parents.zip st.leaves).flatMap fun pc =>
      if st.syn pc.2 then
        (List.range (ncols H)).filter fun q => subH H stabs qubits pc.1 q && subH H stabs qubits pc.2 q
      else []
    let synA := tabArr m (updateSyndrome st.syn parents st.leaves)
    let syn' := tabGet synA (updateSyndrome st.syn parents st.leaves)
    let S' : Nat → Nat → Bool := fun p c => if c ∈ st.leaves then false else st.S p c
    let leaves' := unique (parents.filter fun p => (List.range m).all fun c => !S' p c)
    .ok { S := S', syn := syn', leaves := leaves', corr := st.corr ++ add,
          rounds := st.rounds ++ [⟨parents, st.leaves, (List.range m).map st.syn⟩] }

def oldPeelLoop (H : Mat) (stabs qubits : Nat → Bool) : Nat → PeelSt → Except PeelErr PeelSt
  | 0, _ => .error .peelDiverges
  | fuel + 1, st =>
    if (List.range H.length).any st.syn then
      match oldPeelRound H stabs qubits st with
      | .error e => .error e
      | .ok st' => oldPeelLoop H stabs qubits fuel st'
    else .ok st

/-- `peelTree` before the fix -/
def oldPeelTree (H : Mat) (sy : Vec) (sPar qPar : Nat → Int) (r : Nat) : Except PeelErr TreeTrace :=
  let m := H.length
  let sA := tabArr m fun s => decide (s < m) && decide (sPar s = (r : Int))
  let qA := tabArr (ncols H) fun q => decide (q < ncols H) && decide (qPar q = (r : Int))
  let stabs : Nat → Bool := tabGet sA fun s => decide (s < m) && decide (sPar s = (r : Int))
  let qubits : Nat → Bool := tabGet qA fun q => decide (q < ncols H) && decide (qPar q = (r : Int))
  match buildTree H stabs qubits r with
  | none => .error .treeDiverges
  | some (S0, leaves) =>
    let SA := tabArr2 m S0
    let S : Nat → Nat → Bool := tabGet2 SA m S0
    let syn : Nat → Bool := fun s => sy.getD s 0 != 0 && stabs s
    match oldPeelLoop H stabs qubits (m + 1) ⟨S, syn, leaves, [], []⟩ with
    | .error e => .error e
    | .ok st =>
      .ok { root := r, stabs := (List.range m).filter stabs, qubits := (List.range (ncols H)).filter qubits,
            edges := (List.range m).flatMap fun p => ((List.range m).filter (S p)).map fun c => (p, c),
            leaves := leaves, rounds := st.rounds, corr := st.corr }

def oldPeelAll (H : Mat) (sy : Vec) (sPar qPar : Nat → Int) : List Nat → Except PeelErr (List TreeTrace)
  | [] => .ok []
  | r :: rs =>
    match oldPeelTree H sy sPar qPar r with
    | .error e => .error e
    | .ok t =>
      match oldPeelAll H sy sPar qPar rs with
      | .error e => .error e
      | .ok ts => .ok (t :: ts)

/-- `Support(syndrome, H).decode()` before the fix -/
def oldDecodeWith (H : Mat) (sy : Vec) (sched : List (List Int)) : Run :=
  let c := clustering H sy sched
  if !c.terminated then ⟨.growthDiverges, c.sched.ok, c.bad⟩
  else
    match oldPeelAll H sy c.sPar c.qPar c.roots with
    | .error e => ⟨.peel e, c.sched.ok, c.bad⟩
    | .ok ts => ⟨.ok (indicator (ncols H) (ts.flatMap (·.corr))), c.sched.ok, c.bad⟩

/-- `ufSolve` before the fix -/
def oldUfSolve : USolver := fun H sy =>
  match (oldDecodeWith H sy []).outcome with
  | .ok c => c
  | _ => []

/-! ### step-granular trace (driver / correspondence) -/

structure GrowSnap where
  chosen : Nat
  fusion : List Int
  st : GState

/-- `clusterLoop` keeping every intermediate state -/
def clusterTrace (H : Mat) : Nat → GState → List GrowSnap → GState × Bool × List GrowSnap
  | 0, st, acc => (st, false, acc)
  | fuel + 1, st, acc =>
    match pick st with
    | (none, st') => (st', true, acc)
    | (some c, st') =>
      let st'' := growIter H st' c
      clusterTrace H fuel st'' (acc ++ [⟨c.root, (growCluster H st' c).1, st''⟩])

end Panqec.UF
