/-
Hand-written model of `panqec/codes/surface_2d/_planar_2d_code.py` (`Planar2DCode`) as a
function of the lattice size `(Lx, Ly)`: same loops in the same order, no wrap-around
(`tuple(np.add(location, d))`), `is_qubit` filtering at the boundaries, dict assignment =
`Op.insert`.  A location `(x, y)` is the list `[x, y]`.

`ValueError` is `none` (`getStabilizer?`, `stabilizerType`, `qubitAxis`, `getDeformation`);
the `Lattice` record uses `[]` for it (`getStab`).  Python's `2*Ly-1` is written with natural
subtraction: for `Ly = 0` both `range(1, -1, 2)` and `pyRange2 1 0` are empty.  No Mathlib.
-/
import PanqecVerif.Model.Lattices.Lat2DBase

namespace Panqec.Planar2DCode
open Panqec.Lat2D

/-- `get_qubit_coordinates` -/
def qubits (Lx Ly : Nat) : List Coord :=
  -- Qubits along e_x
  grid (pyRange2 1 (2 * Lx)) (pyRange2 0 (2 * Ly)) ++
  -- Qubits along e_y
  grid (pyRange2 2 (2 * Lx)) (pyRange2 1 (2 * Ly - 1))

/-- `get_stabilizer_coordinates` -/
def stabs (Lx Ly : Nat) : List Coord :=
  -- Vertices
  grid (pyRange2 2 (2 * Lx)) (pyRange2 0 (2 * Ly)) ++
  -- Faces
  grid (pyRange2 1 (2 * Lx)) (pyRange2 1 (2 * Ly - 1))

/-- `is_qubit` : `location in self.qubit_index` -/
def isQubit (Lx Ly : Nat) (q : Coord) : Bool := isIn (qubits Lx Ly) q
/-- `is_stabilizer` (without `stab_type`) -/
def isStabilizer (Lx Ly : Nat) (q : Coord) : Bool := isIn (stabs Lx Ly) q

/-- `stabilizer_type`; `none` = ValueError -/
def stabilizerType (Lx Ly : Nat) (loc : Coord) : Option String :=
  if !isStabilizer Lx Ly loc then none
  else match loc with
    | [x, _] => if x % 2 = 0 then some "vertex" else some "face"
    | _ => none

def delta : List (Int × Int) := [(-1, 0), (1, 0), (0, -1), (0, 1)]

/-- the `qubit_location` computed for each `d in delta`, in order -/
def candidates (x y : Int) : List Coord :=
  delta.map fun d => [x + d.1, y + d.2]

/-- `get_stabilizer`; `none` = ValueError -/
def getStabilizer? (Lx Ly : Nat) (loc : Coord) : Option Op :=
  if !isStabilizer Lx Ly loc then none
  else match loc with
    | [x, y] =>
      let pauli := if stabilizerType Lx Ly loc = some "vertex" then Pauli.Z else Pauli.X
      some (collect (candidates x y) (isQubit Lx Ly) pauli)
    | _ => none

/-- `qubit_axis` (no range check in the Python either); `none` = ValueError -/
def qubitAxis (loc : Coord) : Option String :=
  match loc with
  | [x, y] =>
    if x % 2 = 1 ∧ y % 2 = 0 then some "x"
    else if x % 2 = 0 ∧ y % 2 = 1 then some "y"
    else none
  | _ => none

/-- `get_logicals_x` -/
def logX (Lx _Ly : Nat) : List Op :=
  [ lineOp ((pyRange2 1 (2 * Lx)).map fun x => [x, 0]) Pauli.X ]

/-- `get_logicals_z` -/
def logZ (_Lx Ly : Nat) : List Op :=
  [ lineOp ((pyRange2 0 (2 * Ly)).map fun y => [1, y]) Pauli.Z ]

/-- `get_deformation(location, deformation_name, deformation_axis='y')`; `none` = ValueError.
    `axis = none`: the caller does not pass `deformation_axis` (as `deform(name)` of the visualizer
    and of the simulation inputs without `deformation_kwargs`), the signature default `'y'` applies -/
def getDeformation (name : String) (axis : Option String) (loc : Coord) : Option PauliMap :=
  deformBy qubitAxis name (axis.getD "y") loc

def lattice (Lx Ly : Nat) : Lattice where
  qubits := qubits Lx Ly
  stabs := stabs Lx Ly
  getStab := fun s => (getStabilizer? Lx Ly s).getD []
  logX := logX Lx Ly
  logZ := logZ Lx Ly

end Panqec.Planar2DCode
