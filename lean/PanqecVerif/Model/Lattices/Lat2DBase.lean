/-
Building blocks shared by the hand-written models of the three 2-D surface-code classes
(`panqec/codes/surface_2d/_toric_2d_code.py`, `_planar_2d_code.py`,
`_rotated_planar_2d_code.py`).  Each block is the Lean reading of one Python idiom the three
classes use verbatim:

* `range(a, b, 2)`                                   -> `pyRange2 a b`
* `for x in xs: for y in ys: coordinates.append((x, y))`          -> `grid xs ys`
* the same with `if p(x, y):` in front of the `append`            -> `gridIf xs ys p`
* `operator = dict(); for d in delta: q = ...; if self.is_qubit(q): operator[q] = pauli`
                                                                  -> `collect cands isQ pauli`
  (`cands` = the list of `q`, one per delta, in delta order; `Op.insert` is the dict
  assignment, so a candidate hit twice keeps its first position)
* `operator = dict(); for t in ts: operator[key(t)] = 'P'` with an injective key
                                                                  -> `lineOp keys P`
* the body of `get_deformation` (textually identical in the three classes) -> `deformBy`

No Mathlib.
-/
import PanqecVerif.Model.Lattices.Common

namespace Panqec.Lat2D

/-- Python `range(a, b, 2)` for natural `a`, `b` (empty when `b ≤ a`) -/
def pyRange2 (a b : Nat) : List Int := (List.range' a ((b - a + 1) / 2) 2).map Int.ofNat

/-- `for x in xs: for y in ys: append((x, y))` -/
def grid (xs ys : List Int) : List Coord := xs.flatMap fun x => ys.map fun y => [x, y]

/-- `for x in xs: for y in ys: if p x y: append((x, y))` -/
def gridIf (xs ys : List Int) (p : Int → Int → Bool) : List Coord :=
  xs.flatMap fun x => (ys.filter (p x)).map fun y => [x, y]

/-- `operator = dict(); for q in cands: if is_qubit(q): operator[q] = pauli` -/
def collect (cands : List Coord) (isQ : Coord → Bool) (pauli : Pauli) : Op :=
  cands.foldl (fun op q => if isQ q then op.insert q pauli else op) []

/-- `operator = dict(); for q in keys: operator[q] = pauli` -/
def lineOp (keys : List Coord) (pauli : Pauli) : Op :=
  keys.foldl (fun op q => op.insert q pauli) []

/-- `location in index` (a dict keyed by the coordinate list) -/
def isIn (l : List Coord) (q : Coord) : Bool := l.contains q

/-- The body of `get_deformation`, identical in the three classes
    (`qubitAxis loc = none` stands for the `ValueError` of `qubit_axis`; result `none` =
    `ValueError`):

        if deformation_axis not in ['x', 'y']: raise ValueError
        if deformation_name == 'XZZX':
            deformation = deformed if self.qubit_axis(location) == deformation_axis else undeformed
        elif deformation_name == 'XY': deformation = {'X': 'X', 'Y': 'Z', 'Z': 'Y'}
        else: raise ValueError -/
def deformBy (qubitAxis : Coord → Option String) (name axis : String) (loc : Coord) :
    Option PauliMap :=
  if axis ≠ "x" ∧ axis ≠ "y" then none
  else if name = "XZZX" then
    match qubitAxis loc with
    | none => none
    | some a => if a = axis then some PauliMap.swapXZ else some PauliMap.id
  else if name = "XY" then some PauliMap.swapYZ
  else none

end Panqec.Lat2D
