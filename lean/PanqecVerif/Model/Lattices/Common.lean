/-
Shared vocabulary of the hand-written lattice models (`Model/Lattices/<Class>.lean`).

A lattice class is modelled as a `Lattice`: the coordinate lists and getters as functions of the
size, exactly as the Python class computes them (same loops, same order, same wrap-around, same
`is_qubit` filtering, Python dict = association list with overwrite on a repeated key).
Commutation is stated at the operator (dict) level through `opAntiCount`; the bridge to the BSF
symplectic form is `Proofs/OpComm.lean`.  No Mathlib.
-/
import PanqecVerif.Model.Code

namespace Panqec

/-- two Pauli letters anticommute iff both are non-identity and different -/
def Pauli.anti (a b : Pauli) : Bool := a != .I && b != .I && a != b

/-- Python `dict[key] = value`: overwrite in place if the key exists, else append -/
def Op.insert (op : Op) (q : Coord) (p : Pauli) : Op :=
  if op.any (·.1 == q) then op.map fun e => if e.1 == q then (q, p) else e
  else op ++ [(q, p)]

def Op.get? (op : Op) (q : Coord) : Option Pauli := (op.find? (·.1 == q)).map (·.2)

/-- number of qubits on which the two operators carry anticommuting letters -/
def opAntiCount (a b : Op) : Nat :=
  (a.filter fun e => match b.get? e.1 with
    | some p' => Pauli.anti e.2 p'
    | none => false).length

/-- the two operators commute -/
def opCommute (a b : Op) : Bool := opAntiCount a b % 2 == 0

/-- Python's `%` for a positive modulus -/
def pmod (a : Int) (m : Nat) : Int := a % (m : Int)

/-- A lattice class instantiated at one size. -/
structure Lattice where
  qubits : List Coord
  stabs : List Coord
  getStab : Coord → Op
  logX : List Op
  logZ : List Op

def Lattice.toCodeData (l : Lattice) : CodeData :=
  { qubits := l.qubits, stabs := l.stabs, stabOps := l.stabs.map l.getStab,
    logX := l.logX, logZ := l.logZ }

/-- the operator-level content of the C01 clauses other than rank -/
structure Lattice.CommPair (l : Lattice) : Prop where
  stab_comm : ∀ s ∈ l.stabs, ∀ t ∈ l.stabs, opCommute (l.getStab s) (l.getStab t) = true
  logX_comm : ∀ a ∈ l.logX, ∀ s ∈ l.stabs, opCommute a (l.getStab s) = true
  logZ_comm : ∀ a ∈ l.logZ, ∀ s ∈ l.stabs, opCommute a (l.getStab s) = true
  same_k : l.logX.length = l.logZ.length
  pairing : ∀ i j, i < l.logX.length → j < l.logZ.length →
    opAntiCount (l.logX.getD i []) (l.logZ.getD j []) % 2 = if i = j then 1 else 0
  logXX : ∀ a ∈ l.logX, ∀ b ∈ l.logX, opCommute a b = true
  logZZ : ∀ a ∈ l.logZ, ∀ b ∈ l.logZ, opCommute a b = true

/-- well-formedness of the coordinate system (C02 clause): distinct and disjoint coordinates,
    every operator is a dict supported on the qubits, stabilizers are non-empty -/
structure Lattice.WF (l : Lattice) : Prop where
  qubits_nodup : l.qubits.Nodup
  stabs_nodup : l.stabs.Nodup
  disjoint : ∀ q ∈ l.qubits, q ∉ l.stabs
  stab_keys : ∀ s ∈ l.stabs, ((l.getStab s).map Prod.fst).Nodup
  stab_supported : ∀ s ∈ l.stabs, ∀ e ∈ l.getStab s, e.1 ∈ l.qubits ∧ e.2 ≠ Pauli.I
  stab_nonempty : ∀ s ∈ l.stabs, l.getStab s ≠ []
  log_keys : ∀ a ∈ l.logX ++ l.logZ, (a.map Prod.fst).Nodup
  log_supported : ∀ a ∈ l.logX ++ l.logZ, ∀ e ∈ a, e.1 ∈ l.qubits ∧ e.2 ≠ Pauli.I

end Panqec
