/-
Hand-written model of `panqec/codes/surface_2d/_rotated_planar_2d_code.py`
(`RotatedPlanar2DCode`) as a function of the lattice size `(Lx, Ly)`: same loops in the same
order (including the `if (x + y) % 4 == …` guards), diagonal deltas, no wrap-around,
`is_qubit` filtering at the boundaries, dict assignment = `Op.insert`.  A location `(x, y)`
is the list `[x, y]`; Python's `%` is `Int.emod`.

`ValueError` is `none` (`getStabilizer?`, `stabilizerType`, `qubitAxis`, `getDeformation`);
the `Lattice` record uses `[]` for it (`getStab`).  No Mathlib.
-/
import PanqecVerif.Model.Lattices.Lat2DBase

namespace Panqec.RotatedPlanar2DCode
open Panqec.Lat2D

/-- `get_qubit_coordinates` -/
def qubits (Lx Ly : Nat) : List Coord :=
  grid (pyRange2 1 (2 * Lx + 1)) (pyRange2 1 (2 * Ly + 1))

/-- `get_stabilizer_coordinates` -/
def stabs (Lx Ly : Nat) : List Coord :=
  -- Vertices
  gridIf (pyRange2 2 (2 * Lx)) (pyRange2 0 (2 * Ly + 1)) (fun x y => decide ((x + y) % 4 = 2)) ++
  -- Faces
  gridIf (pyRange2 0 (2 * Lx + 1)) (pyRange2 2 (2 * Ly)) (fun x y => decide ((x + y) % 4 = 0))

/-- `is_qubit` : `location in self.qubit_index` -/
def isQubit (Lx Ly : Nat) (q : Coord) : Bool := isIn (qubits Lx Ly) q
/-- `is_stabilizer` (without `stab_type`) -/
def isStabilizer (Lx Ly : Nat) (q : Coord) : Bool := isIn (stabs Lx Ly) q

/-- `stabilizer_type`; `none` = ValueError -/
def stabilizerType (Lx Ly : Nat) (loc : Coord) : Option String :=
  if !isStabilizer Lx Ly loc then none
  else match loc with
    | [x, y] => if (x + y) % 4 = 2 then some "vertex" else some "face"
    | _ => none

def delta : List (Int × Int) := [(-1, -1), (-1, 1), (1, -1), (1, 1)]

/-- the `qubit_location` computed for each `d in delta`, in order -/
def candidates (x y : Int) : List Coord :=
  delta.map fun d => [x + d.1, y + d.2]

/-- `get_stabilizer`; `none` = ValueError -/
def getStabilizer? (Lx Ly : Nat) (loc : Coord) : Option Op :=
  if !isStabilizer Lx Ly loc then none
  else match loc with
    | [x, y] =>
      let pauli := if stabilizerType Lx Ly loc = some "vertex" then Pauli.Z else Pauli.X
      some (collect (candidates x y) (isQubit Lx Ly) pauli)
    | _ => none

/-- `qubit_axis` (no range check in the Python either); `none` = ValueError -/
def qubitAxis (loc : Coord) : Option String :=
  match loc with
  | [x, y] =>
    if (x + y) % 4 = 2 then some "x"
    else if (x + y) % 4 = 0 then some "y"
    else none
  | _ => none

/-- `get_logicals_x`: X operators along first diagonal -/
def logX (Lx _Ly : Nat) : List Op :=
  [ lineOp ((pyRange2 1 (2 * Lx + 1)).map fun x => [x, 1]) Pauli.X ]

/-- `get_logicals_z`: Z operators along first diagonal -/
def logZ (_Lx Ly : Nat) : List Op :=
  [ lineOp ((pyRange2 1 (2 * Ly + 1)).map fun y => [1, y]) Pauli.Z ]

/-- `get_deformation(location, deformation_name, deformation_axis='y')`; `none` = ValueError.
    `axis = none`: the caller does not pass `deformation_axis` (as `deform(name)` of the visualizer
    and of the simulation inputs without `deformation_kwargs`), the signature default `'y'` applies -/
def getDeformation (name : String) (axis : Option String) (loc : Coord) : Option PauliMap :=
  deformBy qubitAxis name (axis.getD "y") loc

def lattice (Lx Ly : Nat) : Lattice where
  qubits := qubits Lx Ly
  stabs := stabs Lx Ly
  getStab := fun s => (getStabilizer? Lx Ly s).getD []
  logX := logX Lx Ly
  logZ := logZ Lx Ly

end Panqec.RotatedPlanar2DCode
