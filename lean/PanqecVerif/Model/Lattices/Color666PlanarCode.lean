/-
Hand-written model of `panqec/codes/color_2d/_color_666_planar_code.py` (`Color666PlanarCode`)
as a function of the lattice size `(Lx, Ly)` (`Ly` is read into a local variable by the Python and
never used): same loops in the same order (the inner `range` bound `min(2x+1, 12Lx−2x+3)` depends
on `x` and may be negative = empty range), the `x % 6`, `y % 4` guards, the six deltas of
`get_stabilizer` with the triangle filter `x ≥ 0 and 0 ≤ y ≤ min(2x+1, 12Lx−2x+3)`, dict
assignment = `Op.insert`, qubit list DERIVED from the stabilizers (`Color.derivedQubits`).
A stabilizer location `(x, y, p)` is `[x, y, p]` (`p = 0`: X generator, `p = 1`: Z generator of
the same face), a qubit location `(x, y)` is `[x, y]`; Python's `%` is `Int.emod`.

`ValueError` is `none` (`getStabilizer?`, `stabilizerType`, `qubitAxis`); the `Lattice` record uses
`[]` for it (`getStab`).  The class defines no `get_deformation` and `deformation_names = []`:
the base-class method RETURNS a `NotImplementedError` instance for every input.  No Mathlib.
-/
import PanqecVerif.Model.Lattices.ColorBase

namespace Panqec.Color666PlanarCode
open Panqec.Lat2D Panqec.Color

/-- the inner bound `min(2*x + 1, 12*Lx - 2*x + 3)` -/
def ybound (Lx : Nat) (x : Int) : Int := min (2 * x + 1) (12 * (Lx : Int) - 2 * x + 3)

/-- the `(x, y)` for which `get_stabilizer_coordinates` appends, in loop order -/
def faces (Lx : Nat) : List Coord :=
  (pyRangeStep 2 (12 * (Lx : Int) + 4) 1).flatMap fun x =>
    ((pyRangeStep 0 (ybound Lx x) 1).filter fun y =>
      decide ((x % 6 = 2 ∧ y % 4 = 0) ∨ (x % 6 = 5 ∧ y % 4 = 2))).map fun y => [x, y]

/-- `get_stabilizer_coordinates` -/
def stabs (Lx _Ly : Nat) : List Coord := both (faces Lx)

/-- `is_stabilizer` (without `stab_type`): `location in self.stabilizer_index` -/
def isStabilizer (Lx Ly : Nat) (loc : Coord) : Bool := isIn (stabs Lx Ly) loc

/-- `stabilizer_type`; `none` = ValueError -/
def stabilizerType (Lx Ly : Nat) (loc : Coord) : Option String :=
  if !isStabilizer Lx Ly loc then none
  else match loc with
    | [x, y, p] =>
      let colour :=
        if (x % 6 = 2 ∧ y % 12 = 0) ∨ (x % 6 = 5 ∧ y % 12 = 6) then "face-green"
        else if (x % 6 = 5 ∧ y % 12 = 2) ∨ (x % 6 = 2 ∧ y % 12 = 8) then "face-blue"
        else "face-red"
      some (colour ++ (if p = 0 then "-x" else "-z"))
    | _ => none

def delta : List (Int × Int) := [(-1, -2), (1, -2), (2, 0), (1, 2), (-1, 2), (-2, 0)]

/-- the `qubit_location` computed for each `d in delta`, in order -/
def candidates (x y : Int) : List Coord := delta.map fun d => [x + d.1, y + d.2]

/-- the guard `x >= 0 and 0 <= y <= min(2*x + 1, 12*Lx - 2*x + 3)` of `get_stabilizer` -/
def inTriangle (Lx : Nat) (q : Coord) : Bool :=
  match q with
  | [x, y] => decide (0 ≤ x ∧ 0 ≤ y ∧ y ≤ ybound Lx x)
  | _ => false

/-- `get_stabilizer` given the cached `self.stabilizer_index` (`ss`); `none` = ValueError -/
def getStabilizerIn (ss : List Coord) (Lx : Nat) (loc : Coord) : Option Op :=
  if !isIn ss loc then none
  else match loc with
    | [x, y, p] =>
      let pauli := if p = 0 then Pauli.X else Pauli.Z
      some (collect (candidates x y) (inTriangle Lx) pauli)
    | _ => none

/-- `get_stabilizer`; `none` = ValueError -/
def getStabilizer? (Lx Ly : Nat) (loc : Coord) : Option Op :=
  getStabilizerIn (stabs Lx Ly) Lx loc

/-- `get_qubit_coordinates`: derived from the stabilizers -/
def qubits (Lx Ly : Nat) : List Coord :=
  let ss := stabs Lx Ly   -- (the stabilizer index is built once)
  derivedQubits ss fun s => (getStabilizerIn ss Lx s).getD []

/-- `is_qubit` : `location in self.qubit_index` -/
def isQubit (Lx Ly : Nat) (q : Coord) : Bool := isIn (qubits Lx Ly) q

/-- `qubit_axis`: `x, y = location; return 'x'` (`none` = the ValueError of the unpacking) -/
def qubitAxis (loc : Coord) : Option String :=
  match loc with
  | [_, _] => some "x"
  | _ => none

/-- the keys tried by the logical operators: `(x, 0)` for `x in range(0, 12*Lx + 4, 2)` -/
def bottomRow (Lx : Nat) : List Coord :=
  (pyRangeStep 0 (12 * (Lx : Int) + 4) 2).map fun x => [x, 0]

/-- `get_logicals_x`: X on the qubits of the row `y = 0` -/
def logX (Lx Ly : Nat) : List Op :=
  let isQ := isQubit Lx Ly   -- (the qubit index is built once)
  [collect (bottomRow Lx) isQ Pauli.X]

/-- `get_logicals_z`: Z on the qubits of the row `y = 0` -/
def logZ (Lx Ly : Nat) : List Op :=
  let isQ := isQubit Lx Ly
  [collect (bottomRow Lx) isQ Pauli.Z]

/-- `get_deformation(location, deformation_name, **kwargs)`: not defined by the class; the
    base-class method returns `NotImplementedError(...)` whatever the arguments -/
def getDeformation (_name : String) (_loc : Coord) : DeformResult :=
  DeformResult.returnsNotImplementedError

def lattice (Lx Ly : Nat) : Lattice where
  qubits := qubits Lx Ly
  stabs := stabs Lx Ly
  getStab := fun s => (getStabilizer? Lx Ly s).getD []
  logX := logX Lx Ly
  logZ := logZ Lx Ly

end Panqec.Color666PlanarCode
