/-
Building blocks shared by the hand-written models of the three 2-D colour-code classes
(`panqec/codes/color_2d/_color_666_planar_code.py`, `_color_488_code.py`,
`_color_666_toric_code.py`).  Each block is the Lean reading of one Python idiom the three
classes use verbatim:

* `range(a, b, step)` with natural `a`, integer `b`                  -> `pyRangeStep a b step`
* `for location in stab_coordinates:
       for coord in list(self.get_stabilizer(location).keys()):
           if coord not in coordinates: coordinates.append(coord)`       -> `derivedQubits`
  (the qubit list of a colour code is DERIVED from the stabilizer geometry: first-occurrence
  order over the stabilizer list and, inside one stabilizer, over the dict keys)
* `coordinates.append((x, y, 0)); coordinates.append((x, y, 1))`        -> `both`
  (every face carries an X generator, last component 0, and a Z generator, last component 1)
* the result of `get_deformation`                                        -> `DeformResult`

No Mathlib.
-/
import PanqecVerif.Model.Lattices.Lat2DBase

namespace Panqec.Color

/-- Python `range(a, b, step)` for a natural start, an integer stop (empty when `b ≤ a`) and a
    positive step -/
def pyRangeStep (a : Nat) (b : Int) (step : Nat) : List Int :=
  (List.range' a (((b - (a : Int)).toNat + step - 1) / step) step).map Int.ofNat

/-- Python `range(a, b, step)` for an integer start, an integer stop and a positive step -/
def pyRangeI (a b : Int) (step : Nat) : List Int :=
  (List.range (((b - a).toNat + step - 1) / step)).map fun (i : Nat) => a + (step : Int) * (i : Int)

/-- `if coord not in coordinates: coordinates.append(coord)` for every `coord` of `ks` -/
def appendNew (acc ks : List Coord) : List Coord :=
  ks.foldl (fun acc q => if acc.contains q then acc else acc ++ [q]) acc

/-- `get_qubit_coordinates` of the three colour-code classes -/
def derivedQubits (stabs : List Coord) (getStab : Coord → Op) : List Coord :=
  stabs.foldl (fun acc s => appendNew acc ((getStab s).map Prod.fst)) []

/-- `append((x, y, 0)); append((x, y, 1))` for every face `(x, y)` -/
def both (faces : List Coord) : List Coord :=
  faces.flatMap fun c => [c ++ [0], c ++ [1]]

/-- what `get_deformation` does: return a map, raise `ValueError`, or — base-class fallback of
    a class that defines no deformation — RETURN (not raise) a `NotImplementedError` instance -/
inductive DeformResult where
  | map (m : PauliMap)
  | valueError
  | keyError
  | returnsNotImplementedError
  deriving DecidableEq, Repr

end Panqec.Color
