/-
Vocabulary shared by the hand-written models of the cubic-lattice 3-D surface codes
(`Toric3DCode`, `Planar3DCode`): Python `range(a, b, 2)`, the triple loop that appends
`(x, y, z)`, the stabilizer type, the qubit axis, and the `XZZX` deformation rule (the two classes
have textually identical `stabilizer_type`, `qubit_axis` and `get_deformation` apart from the
default axis).  No Mathlib.
-/
import PanqecVerif.Model.Lattices.Common

namespace Panqec.Cubic3D

/-- Python `list(range(a, b, 2))` -/
def range2 (a b : Int) : List Int :=
  (List.range ((b - a + 1) / 2).toNat).map fun (i : Nat) => a + 2 * (i : Int)

/-- `for x in xs: for y in ys: for z in zs: coordinates.append((x, y, z))` -/
def grid (xs ys zs : List Int) : List Coord :=
  xs.flatMap fun x => ys.flatMap fun y => zs.map fun z => [x, y, z]

inductive StabType | vertex | face
  deriving DecidableEq, Repr

def StabType.toString : StabType → String
  | .vertex => "vertex"
  | .face => "face"

inductive Axis | x | y | z
  deriving DecidableEq, Repr

def Axis.toString : Axis → String
  | .x => "x" | .y => "y" | .z => "z"

/-- `deformation_axis in ['x', 'y', 'z']` (`none` = the `ValueError` branch) -/
def Axis.ofString? (s : String) : Option Axis :=
  if s == "x" then some .x else if s == "y" then some .y else if s == "z" then some .z else none

/-- the body of `stabilizer_type` after the `is_stabilizer` guard -/
def typeOf (x y : Int) : StabType :=
  if x % 2 == 0 && y % 2 == 0 then .vertex else .face

/-- `qubit_axis` (identical in both classes): a pure parity test on the three coordinates, no
    membership test; `none` = `ValueError` (also raised by the tuple unpacking of a location that
    does not have three entries). -/
def qubitAxis : Coord → Option Axis
  | [x, y, z] =>
    if z % 2 == 0 && x % 2 == 1 && y % 2 == 0 then some .x
    else if z % 2 == 0 && x % 2 == 0 && y % 2 == 1 then some .y
    else if z % 2 == 1 && x % 2 == 0 && y % 2 == 0 then some .z
    else none
  | _ => none

/-- `get_deformation(location, deformation_name, deformation_axis=dflt)`; `axis = none` means the
    keyword argument is not passed.  Every failure is a `ValueError` (`none`): invalid axis first,
    then (for `'XZZX'`) whatever `qubit_axis` raises, any other name last. -/
def getDeformation (dflt : String) (name : String) (axis : Option String) (loc : Coord) :
    Option PauliMap :=
  match Axis.ofString? (axis.getD dflt) with
  | none => none
  | some ax =>
    if name == "XZZX" then
      match qubitAxis loc with
      | none => none
      | some a => some (if a = ax then PauliMap.swapXZ else PauliMap.id)
    else none

/-- the `delta` list chosen by `get_stabilizer` for a face (the three textual branches; the
    implicit fourth branch leaves `delta` unbound in Python — it is unreachable for a location that
    passed `is_stabilizer`, the model returns no offsets there) -/
def faceDelta (x y z : Int) : List (Int × Int × Int) :=
  if z % 2 == 0 then [(-1, 0, 0), (1, 0, 0), (0, -1, 0), (0, 1, 0)]
  else if x % 2 == 0 then [(0, -1, 0), (0, 1, 0), (0, 0, -1), (0, 0, 1)]
  else if y % 2 == 0 then [(-1, 0, 0), (1, 0, 0), (0, 0, -1), (0, 0, 1)]
  else []

/-- the loop `for d in delta: q = f(d); if is_qubit(q): operator[q] = pauli` -/
def collect (qubits : List Coord) (pauli : Pauli) (cands : List Coord) : Op :=
  cands.foldl (fun op q => if qubits.contains q then op.insert q pauli else op) []

end Panqec.Cubic3D
