/-
Hand-written model of `panqec/codes/color_2d/_color_666_toric_code.py` (`Color666ToricCode`) as a
function of the lattice size `(Lx, Ly)`: same loops in the same order (columns `x = 2, 5, …`, the
`y` range of a column starts at `2 + 2*(x-2)//3`: the unit cell is a rhombus), the six deltas of
`get_stabilizer` with the class's own periodic identification — `x % (9*Lx)`, a shift of `y` by
`6*Lx` when `x` wrapped, a shift by `12*Ly` when `y` reaches `12*Ly + 2*(x-2)//3`, and the corner
rule `(0, -2) ↦ (0, 12*Ly - 2)` — dict assignment = `Op.insert`, qubit list DERIVED from the
stabilizers (`Color.derivedQubits`), logical operators built by unguarded dict assignments (one
branch on `is_qubit`).  Python's `//` by a positive literal is `Int./` (floor), `%` is `Int.emod`.
A stabilizer location `(x, y, p)` is `[x, y, p]` (`p = 0`: X generator, `p = 1`: Z generator of the
same face), a qubit location `(x, y)` is `[x, y]`.

`ValueError` is `none` (`getStabilizer?`, `stabilizerType`, `qubitAxis`) /
`DeformResult.valueError`; `get_deformation` raises `KeyError` where `x % 12` is not a key of its
table; the `Lattice` record uses `[]` for a ValueError (`getStab`).  No Mathlib.
-/
import PanqecVerif.Model.Lattices.ColorBase

namespace Panqec.Color666ToricCode
open Panqec.Lat2D Panqec.Color

/-- `2*(x-2)//3` -/
def skew (x : Int) : Int := (2 * (x - 2)) / 3

/-- the `(x, y)` for which `get_stabilizer_coordinates` appends, in loop order -/
def faces (Lx Ly : Nat) : List Coord :=
  (pyRangeStep 2 (9 * (Lx : Int)) 3).flatMap fun x =>
    (pyRangeI (2 + skew x) (12 * (Ly : Int) + skew x + 1) 4).map fun y => [x, y]

/-- `get_stabilizer_coordinates` -/
def stabs (Lx Ly : Nat) : List Coord := both (faces Lx Ly)

/-- `is_stabilizer` (without `stab_type`): `location in self.stabilizer_index` -/
def isStabilizer (Lx Ly : Nat) (loc : Coord) : Bool := isIn (stabs Lx Ly) loc

/-- `stabilizer_type` given the cached stabilizer index; `none` = ValueError -/
def stabilizerTypeIn (ss : List Coord) (loc : Coord) : Option String :=
  if !isIn ss loc then none
  else match loc with
    | [x, y, p] =>
      let colour :=
        if (x % 6 = 2 ∧ y % 12 = 2) ∨ (x % 6 = 5 ∧ y % 12 = 8) then "face-green"
        else if (x % 6 = 5 ∧ y % 12 = 0) ∨ (x % 6 = 2 ∧ y % 12 = 6) then "face-blue"
        else "face-red"
      some (colour ++ (if p = 0 then "-x" else "-z"))
    | _ => none

/-- `stabilizer_type`; `none` = ValueError -/
def stabilizerType (Lx Ly : Nat) (loc : Coord) : Option String :=
  stabilizerTypeIn (stabs Lx Ly) loc

def delta : List (Int × Int) := [(-1, -2), (1, -2), (2, 0), (1, 2), (-1, 2), (-2, 0)]

/-- the body of the `for d in delta` loop of `get_stabilizer`: the key `(x, y)` assigned for the
    face `(X, Y)` and the delta `(dx, dy)` -/
def wrapQ (Lx Ly : Nat) (X Y dx dy : Int) : Coord :=
  let x := (X + dx) % (9 * (Lx : Int))
  let y0 := Y + dy
  let y1 := if X + dx ≥ 9 * (Lx : Int) then y0 - 6 * (Lx : Int) else y0
  let y2 := if y1 ≥ 12 * (Ly : Int) + skew x then y1 - 12 * (Ly : Int) else y1
  if x = 0 ∧ y2 = -2 then [0, 12 * (Ly : Int) - 2] else [x, y2]

/-- the keys assigned for each `d in delta`, in order -/
def candidates (Lx Ly : Nat) (x y : Int) : List Coord :=
  delta.map fun d => wrapQ Lx Ly x y d.1 d.2

/-- `get_stabilizer` given the cached `self.stabilizer_index` (`ss`); `none` = ValueError -/
def getStabilizerIn (ss : List Coord) (Lx Ly : Nat) (loc : Coord) : Option Op :=
  if !isIn ss loc then none
  else match loc with
    | [x, y, p] =>
      let pauli := if p = 0 then Pauli.X else Pauli.Z
      some (lineOp (candidates Lx Ly x y) pauli)
    | _ => none

/-- `get_stabilizer`; `none` = ValueError -/
def getStabilizer? (Lx Ly : Nat) (loc : Coord) : Option Op :=
  getStabilizerIn (stabs Lx Ly) Lx Ly loc

/-- `get_qubit_coordinates`: derived from the stabilizers -/
def qubits (Lx Ly : Nat) : List Coord :=
  let ss := stabs Lx Ly   -- (the stabilizer index is built once)
  derivedQubits ss fun s => (getStabilizerIn ss Lx Ly s).getD []

/-- `is_qubit` : `location in self.qubit_index` -/
def isQubit (Lx Ly : Nat) (q : Coord) : Bool := isIn (qubits Lx Ly) q

/-- `qubit_axis`: `x, y = location; return 'x'` (`none` = the ValueError of the unpacking) -/
def qubitAxis (loc : Coord) : Option String :=
  match loc with
  | [_, _] => some "x"
  | _ => none

/-- keys assigned, in order, by the first loop of `get_logicals_x` (and third of `get_logicals_z`):
    `for x in range(8, 9*Lx, 9): y = 12*Ly - 6 - 6*(x-8)//9; …` with the `is_qubit` branch -/
def keysA (isQ : Coord → Bool) (Lx Ly : Nat) : List Coord :=
  (pyRangeStep 8 (9 * (Lx : Int)) 9).flatMap fun x =>
    let y := 12 * (Ly : Int) - 6 - (6 * (x - 8)) / 9
    [[x - 4, y + 4], [x - 2, y + 4]] ++
      (if isQ [x + 1, y + 2] then [[x + 1, y + 2], [x + 2, y]] else [[0, 2], [1, 0]])

/-- second loop: `for x in range(5, 9*Lx, 9): y = 12*Ly - 4 - 6*(x-5)//9; …` -/
def keysB (Lx Ly : Nat) : List Coord :=
  (pyRangeStep 5 (9 * (Lx : Int)) 9).flatMap fun x =>
    let y := 12 * (Ly : Int) - 4 - (6 * (x - 5)) / 9
    [[x - 5, y + 2], [x - 4, y], [x - 1, y - 2], [x + 1, y - 2]]

/-- third loop: `for y in range(8, 12*Ly, 12): x = 5; …` -/
def keysC (Ly : Nat) : List Coord :=
  (pyRangeStep 8 (12 * (Ly : Int)) 12).flatMap fun y =>
    [[4, y + 2], [3, y], [3, y - 4], [4, y - 6]]

/-- fourth loop: `for y in range(8, 12*Ly, 12): x = 5; …` -/
def keysD (Ly : Nat) : List Coord :=
  (pyRangeStep 8 (12 * (Ly : Int)) 12).flatMap fun y =>
    [[3, y], [4, y - 2], [4, y - 6], [3, y - 8]]

/-- `get_logicals_x` -/
def logX (Lx Ly : Nat) : List Op :=
  let isQ := isQubit Lx Ly   -- (the qubit index is built once)
  [lineOp (keysA isQ Lx Ly) Pauli.X, lineOp (keysB Lx Ly) Pauli.X,
   lineOp (keysC Ly) Pauli.X, lineOp (keysD Ly) Pauli.X]

/-- `get_logicals_z` -/
def logZ (Lx Ly : Nat) : List Op :=
  let isQ := isQubit Lx Ly
  [lineOp (keysC Ly) Pauli.Z, lineOp (keysD Ly) Pauli.Z,
   lineOp (keysA isQ Lx Ly) Pauli.Z, lineOp (keysB Lx Ly) Pauli.Z]

/-- the table `x_to_y = {0: 2, 10: 2, 1: 0, 3: 0, 4: 6, 6: 6, 7: 4, 9: 4}` -/
def xToY (r : Int) : Option Int :=
  if r = 0 ∨ r = 10 then some 2
  else if r = 1 ∨ r = 3 then some 0
  else if r = 4 ∨ r = 6 then some 6
  else if r = 7 ∨ r = 9 then some 4
  else none

/-- `get_deformation(location, deformation_name, **kwargs)` (keyword arguments are ignored):

        x, y = location
        if deformation_name == 'X3Z3':
            deformation = deformed if x_to_y[x % 12] == y % 8 else undeformed
        else: raise ValueError -/
def getDeformation (name : String) (loc : Coord) : DeformResult :=
  match loc with
  | [x, y] =>
    if name = "X3Z3" then
      match xToY (x % 12) with
      | none => DeformResult.keyError
      | some v =>
        if v = y % 8 then DeformResult.map PauliMap.swapXZ else DeformResult.map PauliMap.id
    else DeformResult.valueError
  | _ => DeformResult.valueError

def lattice (Lx Ly : Nat) : Lattice where
  qubits := qubits Lx Ly
  stabs := stabs Lx Ly
  getStab := fun s => (getStabilizer? Lx Ly s).getD []
  logX := logX Lx Ly
  logZ := logZ Lx Ly

/-! ### the explicit independent family of `n − k = 18·L² − 4` generators of the rank clause (square
sizes; `C01Color666ToricCode.rank_family`, proved in `Proofs/LatColor666ToricCodeRank.lean`); printed by
the driver op `rankfamily` and evaluated on the implementation's parity-check matrix on every run -/

/-- all faces but `(2, 2)` and `(5, 4)` (adjacent, of two different colours) -/
def selFaces (L : Nat) : List Coord := (faces L L).filter fun c => c != [2, 2] && c != [5, 4]

/-- the selected stabilizer locations: the X and the Z generator of every selected face -/
def sel (L : Nat) : List Coord := both (selFaces L)

end Panqec.Color666ToricCode
