/-
Hand-written model of `panqec/codes/surface_3d/_hollow_planar_3d_code.py` (class
`HollowPlanar3DCode`) as functions of the lattice size: the loops of `Planar3DCode` with the
`if not self._is_in_hole(x, y, z)` guard in the innermost loop body, same index order, no
wrap-around (`tuple(np.add(location, d))`), `is_qubit` filtering at the boundaries and at the hole,
Python dict = association list with overwrite (`Op.insert`).  The class defines no
`get_deformation` and no `deformation_names`: the inherited base-class method RETURNS (does not
raise) a `NotImplementedError` instance for every argument.  Supported family (DESIGN.md section 4):
`1 ≤ Lx, Ly, Lz`.  No Mathlib.
-/
import PanqecVerif.Model.Lattices.Cubic3D

namespace Panqec.HollowPlanar3DCode
open Panqec.Cubic3D

/-- `_is_in_hole(x, y, z)`:
    `(x > 2 and x < 2*Lx-2) and (y >= 1 and y < 2*Ly-2) and (z >= 1 and z < 2*Lz-2)` -/
def inHole (Lx Ly Lz : Nat) (x y z : Int) : Bool :=
  (decide (x > 2) && decide (x < 2 * Lx - 2)) &&
  (decide (y ≥ 1) && decide (y < 2 * Ly - 2)) &&
  (decide (z ≥ 1) && decide (z < 2 * Lz - 2))

/-- `for x in xs: for y in ys: for z in zs: if not self._is_in_hole(x, y, z):
    coordinates.append((x, y, z))` -/
def gridH (Lx Ly Lz : Nat) (xs ys zs : List Int) : List Coord :=
  xs.flatMap fun x => ys.flatMap fun y =>
    (zs.filter fun z => !inHole Lx Ly Lz x y z).map fun z => [x, y, z]

/-- `get_qubit_coordinates`: x edges (`range(1, 2*Lx, 2)`), then y edges, then z edges -/
def qubits (Lx Ly Lz : Nat) : List Coord :=
  gridH Lx Ly Lz (range2 1 (2 * Lx)) (range2 0 (2 * Ly)) (range2 0 (2 * Lz)) ++
  gridH Lx Ly Lz (range2 2 (2 * Lx)) (range2 1 (2 * Ly - 1)) (range2 0 (2 * Lz)) ++
  gridH Lx Ly Lz (range2 2 (2 * Lx)) (range2 0 (2 * Ly)) (range2 1 (2 * Lz - 1))

/-- `get_stabilizer_coordinates`: vertices, xy faces, yz faces, xz faces -/
def stabs (Lx Ly Lz : Nat) : List Coord :=
  gridH Lx Ly Lz (range2 2 (2 * Lx)) (range2 0 (2 * Ly)) (range2 0 (2 * Lz)) ++
  gridH Lx Ly Lz (range2 1 (2 * Lx + 1)) (range2 1 (2 * Ly - 1)) (range2 0 (2 * Lz)) ++
  gridH Lx Ly Lz (range2 2 (2 * Lx)) (range2 1 (2 * Ly - 1)) (range2 1 (2 * Lz - 1)) ++
  gridH Lx Ly Lz (range2 1 (2 * Lx + 1)) (range2 0 (2 * Ly)) (range2 1 (2 * Lz - 1))

/-- `stabilizer_type`; `none` = `ValueError` (not a stabilizer location) -/
def stabilizerType (Lx Ly Lz : Nat) (loc : Coord) : Option StabType :=
  if (stabs Lx Ly Lz).contains loc then
    match loc with
    | [x, y, _] => some (typeOf x y)
    | _ => none
  else none

/-- the vertex offsets in the order of this class (`+` before `-` on each axis) -/
def vertexDelta : List (Int × Int × Int) :=
  [(1, 0, 0), (-1, 0, 0), (0, 1, 0), (0, -1, 0), (0, 0, 1), (0, 0, -1)]

/-- the locations `tuple(np.add(location, d))` in the order of `delta` -/
def candidates (x y z : Int) (delta : List (Int × Int × Int)) : List Coord :=
  delta.map fun d => [x + d.1, y + d.2.1, z + d.2.2]

/-- `get_stabilizer`; `none` = `ValueError` (not a stabilizer location) -/
def getStab? (Lx Ly Lz : Nat) (loc : Coord) : Option Op :=
  if (stabs Lx Ly Lz).contains loc then
    match loc with
    | [x, y, z] =>
      let t := typeOf x y
      let pauli := if t = .vertex then Pauli.Z else Pauli.X
      let delta := if t = .vertex then vertexDelta else faceDelta x y z
      some (collect (qubits Lx Ly Lz) pauli (candidates x y z delta))
    | _ => none
  else none

/-- `get_stabilizer` with the error case mapped to the empty operator (the `Lattice` interface) -/
def getStab (Lx Ly Lz : Nat) (loc : Coord) : Op := (getStab? Lx Ly Lz loc).getD []

/-- `get_logicals_x`: the string of X on the x edges with `y = z = 0` (distinct keys: appends) -/
def logX (Lx _Ly _Lz : Nat) : List Op :=
  [ (range2 1 (2 * Lx + 1)).map fun x => ([x, 0, 0], Pauli.X) ]

/-- `x = 3 if Lx >= 3 else 1` of `get_logicals_z`: the cross-section that carries the logical Z -/
def logZPlane (Lx : Nat) : Int := if 3 ≤ Lx then 3 else 1

/-- `get_logicals_z`: Z on the x edges of the cross-section `x = 3` when `Lx ≥ 3`, else `x = 1`
    (loop nest `y, z`, guard `if not self._is_in_hole(x, y, z)` in the innermost loop body): the
    membrane through the cavity when there is one -/
def logZ (Lx Ly Lz : Nat) : List Op :=
  [ (range2 0 (2 * Ly)).flatMap fun y =>
      ((range2 0 (2 * Lz)).filter fun z => !inHole Lx Ly Lz (logZPlane Lx) y z).map fun z =>
        ([logZPlane Lx, y, z], Pauli.Z) ]

/-- `get_logicals_z` BEFORE the repair (regression example only): the full end plane of Z on the x
    edges with `x = 1` (loop nest `y, z`), heavier than the membrane through the cavity — the reason
    why `code.d` overstated the distance of long lattices -/
def oldLogZ (_Lx Ly Lz : Nat) : List Op :=
  [ (range2 0 (2 * Ly)).flatMap fun y => (range2 0 (2 * Lz)).map fun z => ([1, y, z], Pauli.Z) ]

/-- `qubit_axis` (textually the one of `Planar3DCode`) -/
def qubitAxis (loc : Coord) : Option Axis := Cubic3D.qubitAxis loc

/-- `get_deformation(location, deformation_name, **kwargs)`: the class does not override the
    base-class method, which returns a `NotImplementedError` instance (no exception, no map)
    whatever the location, the name and the keyword arguments are: `none`. -/
def getDeformation (_name : String) (_axis : Option String) (_loc : Coord) : Option PauliMap :=
  none

/-- the stabilizer locations left out of `rankFamily`: the xy faces above the layer `z = 0` in the
    two end slabs `x = 1`, `x = 2Lx − 1` (one per cube of the slabs) and the xy face
    `(3, 1, z)` (one for the cavity) -/
def rankDrop (Lx : Nat) : Coord → Bool
  | [x, y, z] =>
    z % 2 == 0 && x % 2 == 1 && z != 0 && (x == 1 || x == 2 * Lx - 1 || (x == 3 && y == 1))
  | _ => false

/-- an explicit family of `n − k` stabilizer locations whose operators are GF(2)-independent (proved
    for every size `≥ 1` in `Proofs/LatHollowPlanar3DCodeRank.lean`): all vertices, all yz and xz
    faces, the xy faces of the layer `z = 0`, and the xy faces of the top of the tube
    (`z = 2Lz − 2`, `3 ≤ x ≤ 2Lx − 3`) except `(3, 1, 2Lz − 2)` — a sub-list of `stabs` -/
def rankFamily (Lx Ly Lz : Nat) : List Coord :=
  (stabs Lx Ly Lz).filter fun s => !rankDrop Lx s

def lattice (Lx Ly Lz : Nat) : Lattice :=
  { qubits := qubits Lx Ly Lz, stabs := stabs Lx Ly Lz, getStab := getStab Lx Ly Lz,
    logX := logX Lx Ly Lz, logZ := logZ Lx Ly Lz }

/-- the lattice with the logical Z of the code before the repair (regression example only) -/
def oldLattice (Lx Ly Lz : Nat) : Lattice :=
  { qubits := qubits Lx Ly Lz, stabs := stabs Lx Ly Lz, getStab := getStab Lx Ly Lz,
    logX := logX Lx Ly Lz, logZ := oldLogZ Lx Ly Lz }

end Panqec.HollowPlanar3DCode
