/-
Hand-written all-sizes model of `panqec/codes/surface_3d/_rhombic_toric_code.py`
(`RhombicToricCode`), as functions of the lattice size `(Lx, Ly, Lz)`.

Transcription rules: nested `range` loops / `itertools.product` = `grid3` over `pyRange2` in the same
nesting order with the same filter; the periodic wrap `np.add([x, y, z], d) % (2*np.array(size))` =
`pmod` (Python `%`, non-negative for a positive modulus); `is_qubit` = membership in the qubit list;
`operator[q] = pauli` = `Op.insert` (two deltas hit the same qubit when a side is 1, then the dict
keeps the first position).  A `ValueError` is `none` (`Lattice.getStab` returns `[]` there,
`getStab?` keeps the error).

Supported family (DESIGN.md section 4): all `L_i` even and `≥ 2` (docstring "Must be even": the
colouring `(x + y + z) % 4` is consistent across the periodic boundary only then).  No Mathlib.
-/
import PanqecVerif.Model.Lattices.Rhombic

namespace Panqec.RhombicToricCode
open Panqec.Lat3Db Panqec.Rhombic

def allTrue : Int → Int → Int → Bool := fun _ _ _ => true

/-- `get_qubit_coordinates` -/
def qubits (Lx Ly Lz : Nat) : List Coord :=
  -- Qubits along e_x
  grid3 (pyRange2 1 (2*Lx)) (pyRange2 0 (2*Ly)) (pyRange2 0 (2*Lz)) allTrue ++
  -- Qubits along e_y
  grid3 (pyRange2 0 (2*Lx)) (pyRange2 1 (2*Ly)) (pyRange2 0 (2*Lz)) allTrue ++
  -- Qubits along e_z
  grid3 (pyRange2 0 (2*Lx)) (pyRange2 0 (2*Ly)) (pyRange2 1 (2*Lz)) allTrue

/-- the filter of the cube loop -/
def cubeKeep (x y z : Int) : Bool := (x + y + z) % 4 == 1

/-- `get_stabilizer_coordinates`: cubes `(x, y, z)`, then triangles `(axis, x, y, z)` -/
def stabs (Lx Ly Lz : Nat) : List Coord :=
  grid3 (pyRange2 1 (2*Lx)) (pyRange2 1 (2*Ly)) (pyRange2 1 (2*Lz)) cubeKeep ++
  ([0, 1, 2, 3] : List Int).flatMap fun axis =>
    (grid3 (pyRange2 0 (2*Lx)) (pyRange2 0 (2*Ly)) (pyRange2 0 (2*Lz)) allTrue).map fun c => axis :: c

def isQubit (Lx Ly Lz : Nat) (q : Coord) : Bool := (qubits Lx Ly Lz).contains q
def isStab (Lx Ly Lz : Nat) (s : Coord) : Bool := (stabs Lx Ly Lz).contains s

/-- `stabilizer_type` (`none` = ValueError) -/
def stabilizerType (Lx Ly Lz : Nat) (loc : Coord) : Option String :=
  if !isStab Lx Ly Lz loc then none else some (typeOf loc)

/-- `tuple(np.add([x, y, z], d) % (2*np.array(self.size)))` -/
def wrapAdd (Lx Ly Lz : Nat) (x y z : Int) (d : Coord) : Coord :=
  match d with
  | [dx, dy, dz] => [pmod (x + dx) (2*Lx), pmod (y + dy) (2*Ly), pmod (z + dz) (2*Lz)]
  | _ => []

/-- `get_stabilizer` (`none` = ValueError for a non-stabilizer location): X on the twelve edges of
    a coloured cube, Z on the three edges of a triangle -/
def getStab? (Lx Ly Lz : Nat) (loc : Coord) : Option Op :=
  if !isStab Lx Ly Lz loc then none
  else match loc with
    | [x, y, z] =>
      some (buildOp (isQubit Lx Ly Lz) (cubeDelta.map (wrapAdd Lx Ly Lz x y z)) Pauli.X)
    | [axis, x, y, z] =>
      some (buildOp (isQubit Lx Ly Lz) ((triDelta axis x y z).map (wrapAdd Lx Ly Lz x y z)) Pauli.Z)
    | _ => none

def getStab (Lx Ly Lz : Nat) (loc : Coord) : Op := (getStab? Lx Ly Lz loc).getD []

/-- `qubit_axis` -/
def qubitAxis (loc : Coord) : Option String := Rhombic.qubitAxis loc

/-- `for a in range(A): for b in range(B): if (a + b) % 2 == 1: operator[f(a, b)] = 'X'` -/
def sheet (A B : Nat) (f : Int → Int → Coord) : Op :=
  dictOf ((pyRange A).flatMap fun a => ((pyRange B).filter fun b => (a + b) % 2 == 1).map fun b => f a b)
    Pauli.X

/-- `get_logicals_x`: sheets normal to x, y, z through the origin (no `is_qubit` test) -/
def logX (Lx Ly Lz : Nat) : List Op :=
  [ sheet (2*Ly) (2*Lz) fun y z => [0, y, z],
    sheet (2*Lx) (2*Lz) fun x z => [x, 0, z],
    sheet (2*Lx) (2*Ly) fun x y => [x, y, 0] ]

/-- `get_logicals_z`: lines of parallel edges along x, y, z -/
def logZ (Lx Ly Lz : Nat) : List Op :=
  [ dictOf ((pyRange2 0 (2*Lx)).map fun x => [x, 1, 0]) Pauli.Z,
    dictOf ((pyRange2 0 (2*Ly)).map fun y => [1, y, 0]) Pauli.Z,
    dictOf ((pyRange2 0 (2*Lz)).map fun z => [0, 1, z]) Pauli.Z ]

/-- `get_deformation(location, deformation_name, **kwargs)` -/
def getDeformation (name : String) (loc : Coord) : Option PauliMap := Rhombic.getDeformation name loc

/-! ### an explicit family of `n − k` independent generators

The family of the theorem `generators_independent` / `valid_code` (proved independent for every even
size `≥ 2` in `Proofs/LatRhombicToricCodeRank*.lean`; also evaluated on the implementation's
parity-check matrix by the correspondence stream `rank-family`).
Cubes: all coloured cubes but `(3, 1, 1)` (their product is the identity).
Triangles, by the column `x` of the vertex:
* `0 < x < 2Lx−2`: axis 1 at the vertices with `(x+y+z) % 4 = 2`, all of axis 2 and 3;
* `x = 2Lx−2`: all of axis 2 and 3, all of axis 1 but the one at `(2Lx−2, 0, 0)`;
* `x = 0` (a spanning tree of the corners of the y-z torus): the corner pointing to `(−y, +z)` at every
  vertex (axis 1 / axis 2 for `(y+z) % 4 = 0 / 2`), the corner pointing to `(−y, −z)` at the vertices
  with `z ≥ 2` (axis 2 / axis 1), and the corner pointing to `(+y, +z)` in the top layer `z = 2Lz−2`
  for `y < 2Ly−2` (axis 0 / axis 3). -/

def par0 : Int → Int → Int → Bool := fun x y z => (x + y + z) % 4 == 0
def par2 : Int → Int → Int → Bool := fun x y z => (x + y + z) % 4 == 2

def selCubes (Lx Ly Lz : Nat) : List Coord :=
  (grid3 (pyRange2 1 (2*Lx)) (pyRange2 1 (2*Ly)) (pyRange2 1 (2*Lz)) cubeKeep).filter (· != [3, 1, 1])

/-- the vertices of a block of columns -/
def verts (xs : List Int) (Ly Lz : Nat) (p : Int → Int → Int → Bool) : List Coord :=
  grid3 xs (pyRange2 0 (2*Ly)) (pyRange2 0 (2*Lz)) p

def selBulk (Lx Ly Lz : Nat) : List Coord :=
  (verts (pyRange2 2 (2*Lx-2)) Ly Lz par2).map (fun c => (1 : Int) :: c) ++
  ((verts (pyRange2 2 (2*Lx-2)) Ly Lz allTrue).map (fun c => (2 : Int) :: c) ++
   (verts (pyRange2 2 (2*Lx-2)) Ly Lz allTrue).map (fun c => (3 : Int) :: c))

def selLast (Lx Ly Lz : Nat) : List Coord :=
  (verts (pyRange2 (2*Lx-2) (2*Lx)) Ly Lz allTrue).map (fun c => (2 : Int) :: c) ++
  ((verts (pyRange2 (2*Lx-2) (2*Lx)) Ly Lz allTrue).map (fun c => (3 : Int) :: c) ++
   ((verts (pyRange2 (2*Lx-2) (2*Lx)) Ly Lz allTrue).map (fun c => (1 : Int) :: c)).filter
      (· != [1, 2*(Lx:Int)-2, 0, 0]))

def selFirst (_Lx Ly Lz : Nat) : List Coord :=
  (verts (pyRange2 0 2) Ly Lz par0).map (fun c => (1 : Int) :: c) ++
  ((verts (pyRange2 0 2) Ly Lz par2).map (fun c => (2 : Int) :: c) ++
   ((grid3 (pyRange2 0 2) (pyRange2 0 (2*Ly)) (pyRange2 2 (2*Lz)) par0).map (fun c => (2 : Int) :: c) ++
    ((grid3 (pyRange2 0 2) (pyRange2 0 (2*Ly)) (pyRange2 2 (2*Lz)) par2).map (fun c => (1 : Int) :: c) ++
     ((grid3 (pyRange2 0 2) (pyRange2 0 (2*Ly-2)) (pyRange2 (2*Lz-2) (2*Lz)) par2).map (fun c => (3 : Int) :: c) ++
      (grid3 (pyRange2 0 2) (pyRange2 0 (2*Ly-2)) (pyRange2 (2*Lz-2) (2*Lz)) par0).map (fun c => (0 : Int) :: c)))))

def selStabs (Lx Ly Lz : Nat) : List Coord :=
  selCubes Lx Ly Lz ++ (selBulk Lx Ly Lz ++ (selLast Lx Ly Lz ++ selFirst Lx Ly Lz))

def lattice (Lx Ly Lz : Nat) : Lattice :=
  { qubits := qubits Lx Ly Lz, stabs := stabs Lx Ly Lz, getStab := getStab Lx Ly Lz,
    logX := logX Lx Ly Lz, logZ := logZ Lx Ly Lz }

end Panqec.RhombicToricCode
