/-
Hand-written model of `panqec/codes/surface_3d/_hollow_rhombic_code.py` (`HollowRhombicCode`) as a
function of the lattice size `(Lx, Ly, Lz)`: the three loop nests of `get_qubit_coordinates` (edges of
the cubic lattice along x, y, z; `x` outermost, guard `not _is_in_hole`), the cube loop of
`get_stabilizer_coordinates` (`itertools.product` of three ranges, `(x+y+z) % 4 == 1`, the `on_edge`
test, `not np.all([... eight corners in the hole ...])`) and its triangle loop
(`product(range(4), …)`: axis outermost; a triangle is kept according to the NUMBER OF KEYS of
`get_stabilizer(location)`, the three boundary predicates, `em_edge`, `constant_z`), `get_stabilizer`
(twelve deltas of a cube, the two tables of three deltas of a triangle chosen by `(x+y+z) % 4`, no
wrap-around: `tuple(np.add([x, y, z], d))`, `is_qubit` filtering, dict = association list), the sheet
`get_logicals_x` (`z = 4`, filtered by `is_qubit`), the line `get_logicals_z` (unfiltered), `qubit_axis`
and the `'Checkerboard XZZX'` rule of `get_deformation`.

`get_stabilizer` does not test `is_stabilizer`: it answers for every location of length 4 (triangle;
`IndexError` unless `-4 ≤ axis ≤ 3`, Python's negative indexing included) and of length 3 (cube), and
raises `ValueError` (tuple unpacking) for any other length.  The `Lattice` record uses `[]` for the
error cases.  Supported family (DESIGN.md section 4): `Lx, Ly ≥ 2`, `Lz ≥ 3`.  No Mathlib.
-/
import PanqecVerif.Model.Lattices.Cubic3D
import PanqecVerif.Model.Lattices.ColorBase

namespace Panqec.HollowRhombicCode
open Panqec.Cubic3D

/-- `_is_in_hole(x, y, z)`:
    `(x > 2 and x < 2*Lx-2) and (y >= 3 and y < 2*Ly-4) and (z >= 3 and z < 2*Lz-4)` -/
def inHole (Lx Ly Lz : Nat) (x y z : Int) : Bool :=
  (decide (x > 2) && decide (x < 2 * Lx - 2)) &&
  (decide (y ≥ 3) && decide (y < 2 * Ly - 4)) &&
  (decide (z ≥ 3) && decide (z < 2 * Lz - 4))

/-- `_is_m_boundary(x, y, z)` -/
def isMBoundary (Lx Ly Lz : Nat) (x y z : Int) : Bool :=
  decide (y ≥ 2 * Ly - 2) || decide (y ≤ 0) ||
  (decide (2 * (Ly : Int) - 5 ≤ y) && decide (y ≤ 2 * Ly - 4)) || (decide (2 ≤ y) && decide (y ≤ 3)) ||
  (decide (2 * (Lz : Int) - 5 ≤ z) && decide (z ≤ 2 * Lz - 4)) || (decide (2 ≤ z) && decide (z ≤ 3)) ||
  (decide (2 ≤ x) && decide (x ≤ 3)) || (decide (2 * (Lx : Int) - 3 ≤ x) && decide (x ≤ 2 * Lx - 2))

/-- `_is_e_boundary(x, y, z)` -/
def isEBoundary (Lz : Nat) (z : Int) : Bool := decide (z ≥ 2 * Lz - 2) || decide (z ≤ 0)

/-- `for x in xs: for y in ys: for z in zs: if not self._is_in_hole(x, y, z): append((x, y, z))` -/
def gridH (Lx Ly Lz : Nat) (xs ys zs : List Int) : List Coord :=
  xs.flatMap fun x => ys.flatMap fun y =>
    (zs.filter fun z => !inHole Lx Ly Lz x y z).map fun z => [x, y, z]

/-- `get_qubit_coordinates`: x edges, y edges, z edges -/
def qubits (Lx Ly Lz : Nat) : List Coord :=
  gridH Lx Ly Lz (range2 1 (2 * Lx + 1)) (range2 0 (2 * Ly)) (range2 0 (2 * Lz)) ++
  gridH Lx Ly Lz (range2 2 (2 * Lx)) (range2 1 (2 * Ly - 1)) (range2 0 (2 * Lz)) ++
  gridH Lx Ly Lz (range2 2 (2 * Lx)) (range2 0 (2 * Ly)) (range2 1 (2 * Lz - 1))

abbrev D3 := Int × Int × Int

def cubeDelta : List D3 :=
  [(1, 1, 0), (-1, -1, 0), (1, -1, 0), (-1, 1, 0), (1, 0, 1), (-1, 0, -1), (1, 0, -1), (-1, 0, 1),
   (0, 1, 1), (0, -1, -1), (0, -1, 1), (0, 1, -1)]

/-- the two tables `delta_axis` of a triangle -/
def triTable (x y z : Int) : List (List D3) :=
  if (x + y + z) % 4 = 0 then
    [[(1, 0, 0), (0, 1, 0), (0, 0, 1)], [(-1, 0, 0), (0, -1, 0), (0, 0, 1)],
     [(1, 0, 0), (0, -1, 0), (0, 0, -1)], [(-1, 0, 0), (0, 1, 0), (0, 0, -1)]]
  else
    [[(1, 0, 0), (0, 1, 0), (0, 0, -1)], [(-1, 0, 0), (0, -1, 0), (0, 0, -1)],
     [(1, 0, 0), (0, -1, 0), (0, 0, 1)], [(-1, 0, 0), (0, 1, 0), (0, 0, 1)]]

/-- `delta_axis[axis]` with Python list indexing (`none` = IndexError) -/
def triDelta (axis x y z : Int) : Option (List D3) :=
  if 0 ≤ axis ∧ axis < 4 then (triTable x y z)[axis.toNat]?
  else if -4 ≤ axis ∧ axis < 0 then (triTable x y z)[(axis + 4).toNat]?
  else none

/-- the loop `for d in delta: q = tuple(np.add([x, y, z], d)); if is_qubit(q): operator[q] = pauli` -/
def collectAt (qs : List Coord) (pauli : Pauli) (x y z : Int) (delta : List D3) : Op :=
  collect qs pauli (delta.map fun d => [x + d.1, y + d.2.1, z + d.2.2])

inductive StabResult
  | op (o : Op)
  | valueError
  | indexError
  deriving Repr

/-- `get_stabilizer` given the cached qubit index (`qs`) -/
def getStabilizerIn (qs : List Coord) (loc : Coord) : StabResult :=
  match loc with
  | [axis, x, y, z] =>
    match triDelta axis x y z with
    | some delta => .op (collectAt qs Pauli.Z x y z delta)
    | none => .indexError
  | [x, y, z] => .op (collectAt qs Pauli.X x y z cubeDelta)
  | _ => .valueError

def StabResult.getD : StabResult → Op
  | .op o => o
  | _ => []

/-- all eight corners of the cube are in the hole -/
def allCornersInHole (Lx Ly Lz : Nat) (x y z : Int) : Bool :=
  [(-1 : Int), 1].all fun d0 => [(-1 : Int), 1].all fun d1 => [(-1 : Int), 1].all fun d2 =>
    inHole Lx Ly Lz (x + d0) (y + d1) (z + d2)

/-- the condition under which the cube loop appends `(x, y, z)` -/
def keepCube (Lx Ly Lz : Nat) (x y z : Int) : Bool :=
  let onEdge :=
    (y == -1 && z == -1) || (y == -1 && z == 2 * (Lz : Int) - 1) ||
    (y == 2 * (Ly : Int) - 1 && z == -1) || (y == 2 * (Ly : Int) - 1 && z == 2 * (Lz : Int) - 1)
  decide ((x + y + z) % 4 = 1) && !onEdge && !allCornersInHole Lx Ly Lz x y z

/-- the cubes, in `itertools.product` order -/
def cubes (Lx Ly Lz : Nat) : List Coord :=
  (range2 1 (2 * Lx)).flatMap fun x => (range2 (-1) (2 * Ly)).flatMap fun y =>
    ((range2 1 (2 * Lz - 1)).filter fun z => keepCube Lx Ly Lz x y z).map fun z => [x, y, z]

/-- the condition under which the triangle loop appends `(axis, x, y, z)`; `stab` is
    `list(self.get_stabilizer(location).keys())` -/
def keepTriangle (Lx Ly Lz : Nat) (stab : List Coord) (x y z : Int) : Bool :=
  let emEdge := (y == 0 || y == 2 * (Ly : Int) - 2) && (z == 0 || z == 2 * (Lz : Int) - 2)
  let constantZ := match stab with
    | [] => true
    | s0 :: _ => stab.all fun loc => loc.getD 2 0 == s0.getD 2 0
  let excluded :=
    decide (stab.length ≤ 1) ||
    (isMBoundary Lx Ly Lz x y z && decide (stab.length ≤ 2) &&
      (!isEBoundary Lz z || (emEdge && !constantZ)))
  !excluded && !inHole Lx Ly Lz x y z

/-- `range(a, b)` for integers `0 ≤ a` -/
def range1 (a b : Int) : List Int := Color.pyRangeI a b 1

/-- the triangles, in `itertools.product` order (axis outermost) -/
def triangles (Lx Ly Lz : Nat) : List Coord :=
  let qs := qubits Lx Ly Lz
  (range1 0 4).flatMap fun axis => (range2 2 (2 * Lx)).flatMap fun x =>
    (range2 0 (2 * Ly)).flatMap fun y =>
      ((range2 0 (2 * Lz)).filter fun z =>
        keepTriangle Lx Ly Lz ((getStabilizerIn qs [axis, x, y, z]).getD.map Prod.fst) x y z).map
        fun z => [axis, x, y, z]

/-- `get_stabilizer_coordinates` -/
def stabs (Lx Ly Lz : Nat) : List Coord := cubes Lx Ly Lz ++ triangles Lx Ly Lz

/-- `get_stabilizer` -/
def getStabilizer (Lx Ly Lz : Nat) (loc : Coord) : StabResult :=
  getStabilizerIn (qubits Lx Ly Lz) loc

/-- `stabilizer_type`: a pure test on the length of the tuple -/
def stabilizerType (loc : Coord) : String := if loc.length = 4 then "triangle" else "cube"

/-- `qubit_axis` (the parity test of the cubic lattice; `none` = ValueError) -/
def qubitAxis (loc : Coord) : Option Axis := Cubic3D.qubitAxis loc

/-- `get_logicals_x`: the sheet `z = 4`, `for x in range(2*Lx): for y in range(2*Ly): if is_qubit` -/
def logX (Lx Ly Lz : Nat) : List Op :=
  let qs := qubits Lx Ly Lz
  [collect qs Pauli.X ((range1 0 (2 * Lx)).flatMap fun x => (range1 0 (2 * Ly)).map fun y => [x, y, 4])]

/-- `get_logicals_z`: the line `(2Lx−1, 2Ly−2, z)`, `z` even (no `is_qubit` test; distinct keys) -/
def logZ (Lx Ly Lz : Nat) : List Op :=
  [(range2 0 (2 * Lz)).map fun z => ([2 * (Lx : Int) - 1, 2 * (Ly : Int) - 2, z], Pauli.Z)]

/-- `get_deformation(location, deformation_name, **kwargs)` (keyword arguments are ignored): an
    unknown name raises first; then the unpacking of `location`, then `qubit_axis` may raise -/
def getDeformation (name : String) (loc : Coord) : Color.DeformResult :=
  if name = "Checkerboard XZZX" then
    match loc with
    | [x, y, z] =>
      match qubitAxis loc with
      | none => .valueError
      | some a =>
        if a = Axis.z ∧ ((z % 4 = 3 ∧ (x + y) % 4 = 2) ∨ (z % 4 = 1 ∧ (x + y) % 4 = 0)) then
          .map PauliMap.swapXZ
        else .map PauliMap.id
    | _ => .valueError
  else .valueError

/-! ### the independent family of the rank clause (`Properties/C01HollowRhombicCode.lean`) -/

/-- signs of the three legs of the triangle `(a, x, y, z)` (rows of `delta_axis`) -/
def rsX (a : Int) : Int := if a = 0 ∨ a = 2 then 1 else -1
def rsY (a : Int) : Int := if a = 0 ∨ a = 3 then 1 else -1
def rsZ (a x y z : Int) : Int := if ((a = 0 ∨ a = 1) ↔ (x + y + z) % 4 = 0) then 1 else -1

/-- at a vertex of the lattice the triangle `(a, x, y, z)` is listed: neither the vertex nor one of
    its three legs lies in the hole, and its y leg does not point out of the lattice -/
def presB (Lx Ly Lz : Nat) (a x y z : Int) : Bool :=
  !inHole Lx Ly Lz x y z && !inHole Lx Ly Lz (x + rsX a) y z && !inHole Lx Ly Lz x (y + rsY a) z &&
  !inHole Lx Ly Lz x y (z + rsZ a x y z) && decide (1 ≤ y + rsY a) &&
  decide (y + rsY a ≤ 2 * (Ly : Int) - 3)

/-- the selected triangles: all of axis 3 and 2; of axis 1 those at a vertex where the triangle of
    axis 3 or of axis 2 is not listed; of axis 0 those of the last column `x = 2Lx−2`, the upper one
    (`(x+y+z) % 4 = 2`, `z ≥ 2`) of the two that share a z edge, the lower one where the upper one is
    not listed, and the lower ones `(0, 2, 2, z)`, `z % 4 = 0`, `8 ≤ z ≤ 2Lz−6` along the edge
    `x = y = 3` of a hole with `Lx, Ly ≥ 4` or `Lx = 3`, `Ly ≥ 5`; for `Lz = 4` (the hole is the slab `z = 3`)
    the lower ones `(0, 2, y, 2)` under the hole edge `(3, ·, 3)` when `Lx = 4`, `Ly ≥ 5`, and the lower ones
    `(0, x, 2, 2)` under the hole edge `(·, 3, 3)` when `Ly = 5`, `Lx ≥ 5` -/
def selTri (Lx Ly Lz : Nat) : Coord → Bool
  | [a, x, y, z] =>
    if a = 3 ∨ a = 2 then true
    else if a = 1 then !presB Lx Ly Lz 3 x y z || !presB Lx Ly Lz 2 x y z
    else
      decide (x = 2 * (Lx : Int) - 2) ||
      (decide ((x + y + z) % 4 = 2) && decide (2 ≤ z)) ||
      (decide ((x + y + z) % 4 = 0) && decide (z < 2 * (Lz : Int) - 2) &&
        !presB Lx Ly Lz 0 x y (z + 2)) ||
      (decide (x = 2) && decide (y = 2) && decide (z % 4 = 0) && decide (8 ≤ z) &&
        decide (z ≤ 2 * (Lz : Int) - 6) &&
        ((decide (4 ≤ Lx) && decide (4 ≤ Ly)) || (decide (Lx = 3) && decide (5 ≤ Ly)))) ||
      (decide (x = 2) && decide (4 ≤ y) && decide (y ≤ 2 * (Ly : Int) - 6) && decide (z = 2) &&
        decide ((x + y + z) % 4 = 0) && decide (Lz = 4) && decide (Lx = 4) && decide (5 ≤ Ly)) ||
      (decide (4 ≤ x) && decide (x ≤ 2 * (Lx : Int) - 4) && decide (y = 2) && decide (z = 2) &&
        decide ((x + y + z) % 4 = 0) && decide (Lz = 4) && decide (Ly = 5) && decide (5 ≤ Lx))
  | _ => false

/-- the family of the rank clause: all cubes and the selected triangles -/
def rankFamily (Lx Ly Lz : Nat) : List Coord :=
  cubes Lx Ly Lz ++ (triangles Lx Ly Lz).filter (selTri Lx Ly Lz)

def lattice (Lx Ly Lz : Nat) : Lattice where
  qubits := qubits Lx Ly Lz
  stabs := stabs Lx Ly Lz
  getStab := fun s => (getStabilizer Lx Ly Lz s).getD
  logX := logX Lx Ly Lz
  logZ := logZ Lx Ly Lz

end Panqec.HollowRhombicCode
