/-
Hand-written all-sizes model of `panqec/codes/surface_3d/_rhombic_planar_code.py`
(`RhombicPlanarCode`), as functions of the lattice size `(Lx, Ly, Lz)`.

Transcription rules: nested `range` loops / `itertools.product` = `grid3` over `pyRange2` in the same
nesting order with the same filter; no wrap-around (`tuple(np.add([x, y, z], d))`); `is_qubit` =
membership in the qubit list (the operators are truncated at the open boundaries);
`operator[q] = pauli` = `Op.insert`.  A `ValueError` is `none` (`Lattice.getStab` returns `[]`
there, `getStab?` keeps the error).  Python `%` on a possibly negative int (`y = -1` for the cubes of
the lower rough boundary) = `Int.emod`.

Supported family (DESIGN.md section 4): `L_x, L_y ≥ 2`, `L_z ≥ 1`.  No Mathlib.
-/
import PanqecVerif.Model.Lattices.Rhombic

namespace Panqec.RhombicPlanarCode
open Panqec.Lat3Db Panqec.Rhombic

def allTrue : Int → Int → Int → Bool := fun _ _ _ => true

/-- `get_qubit_coordinates` (the qubit lattice of `Planar3DCode`) -/
def qubits (Lx Ly Lz : Nat) : List Coord :=
  -- Qubits along e_x
  grid3 (pyRange2 1 (2*Lx+1)) (pyRange2 0 (2*Ly)) (pyRange2 0 (2*Lz)) allTrue ++
  -- Qubits along e_y
  grid3 (pyRange2 2 (2*Lx)) (pyRange2 1 (2*Ly-1)) (pyRange2 0 (2*Lz)) allTrue ++
  -- Qubits along e_z
  grid3 (pyRange2 2 (2*Lx)) (pyRange2 0 (2*Ly)) (pyRange2 1 (2*Lz-1)) allTrue

/-- Python `range(-1, b, 2)` for `b ≥ 0` -/
def rangeM1 (b : Nat) : List Int := (-1) :: pyRange2 1 b

/-- the `on_edge` test of the cube loop (never true: `z` ranges over `range(1, 2*Lz-1, 2)`) -/
def onEdge (Ly Lz : Nat) (y z : Int) : Bool :=
  (y == -1 && z == -1) || (y == -1 && z == 2*(Lz:Int)-1) ||
  (y == 2*(Ly:Int)-1 && z == -1) || (y == 2*(Ly:Int)-1 && z == 2*(Lz:Int)-1)

/-- the filter of the cube loop: `((x + y + z) % 4 == 1 or on_rough_boundary) and not on_edge`
    with `on_rough_boundary = False` -/
def cubeKeep (Ly Lz : Nat) (x y z : Int) : Bool :=
  ((x + y + z) % 4 == 1 || false) && !onEdge Ly Lz y z

/-- `edge_triangle` -/
def edgeTriangle (Ly Lz : Nat) (axis x y z : Int) : Bool :=
  (z == 2*(Lz:Int)-2 && y == 2*(Ly:Int)-2 &&
    (((x + y + z) % 4 == 0 && axis == 0) || ((x + y + z) % 4 != 0 && axis == 3))) ||
  (z == 0 && y == 0 &&
    (((x + y + z) % 4 == 0 && axis == 2) || ((x + y + z) % 4 != 0 && axis == 1))) ||
  (z == 2*(Lz:Int)-2 && y == 0 &&
    (((x + y + z) % 4 == 0 && axis == 1) || ((x + y + z) % 4 != 0 && axis == 2))) ||
  (z == 0 && y == 2*(Ly:Int)-2 &&
    (((x + y + z) % 4 == 0 && axis == 3) || ((x + y + z) % 4 != 0 && axis == 0)))

/-- `rough_triangle` -/
def roughTriangle (Ly : Nat) (axis y : Int) : Bool :=
  (y == 0 && (axis == 1 || axis == 2)) || (y == 2*(Ly:Int)-2 && (axis == 0 || axis == 3))

/-- the filter of the triangle loop -/
def triKeep (Ly Lz : Nat) (axis x y z : Int) : Bool :=
  !edgeTriangle Ly Lz axis x y z && !roughTriangle Ly axis y

/-- `get_stabilizer_coordinates`: cubes `(x, y, z)`, then triangles `(axis, x, y, z)` -/
def stabs (Lx Ly Lz : Nat) : List Coord :=
  grid3 (pyRange2 1 (2*Lx)) (rangeM1 (2*Ly)) (pyRange2 1 (2*Lz-1)) (cubeKeep Ly Lz) ++
  ([0, 1, 2, 3] : List Int).flatMap fun axis =>
    (grid3 (pyRange2 2 (2*Lx)) (pyRange2 0 (2*Ly)) (pyRange2 0 (2*Lz)) (triKeep Ly Lz axis)).map
      fun c => axis :: c

def isQubit (Lx Ly Lz : Nat) (q : Coord) : Bool := (qubits Lx Ly Lz).contains q
def isStab (Lx Ly Lz : Nat) (s : Coord) : Bool := (stabs Lx Ly Lz).contains s

/-- `stabilizer_type` (`none` = ValueError) -/
def stabilizerType (Lx Ly Lz : Nat) (loc : Coord) : Option String :=
  if !isStab Lx Ly Lz loc then none else some (typeOf loc)

/-- `get_stabilizer` (`none` = ValueError for a non-stabilizer location): X on the edges of a cube,
    Z on the three edges of a triangle, restricted to the qubits -/
def getStab? (Lx Ly Lz : Nat) (loc : Coord) : Option Op :=
  if !isStab Lx Ly Lz loc then none
  else match loc with
    | [x, y, z] =>
      some (buildOp (isQubit Lx Ly Lz) (cubeDelta.map (addC [x, y, z])) Pauli.X)
    | [axis, x, y, z] =>
      some (buildOp (isQubit Lx Ly Lz) ((triDelta axis x y z).map (addC [x, y, z])) Pauli.Z)
    | _ => none

def getStab (Lx Ly Lz : Nat) (loc : Coord) : Op := (getStab? Lx Ly Lz loc).getD []

/-- `qubit_axis` -/
def qubitAxis (loc : Coord) : Option String := Rhombic.qubitAxis loc

/-- `get_logicals_x`: the sheet `z = 0` (`for x in range(2*Lx): for y in range(2*Ly): if
    is_qubit((x, y, 0))`) -/
def logX (Lx Ly Lz : Nat) : List Op :=
  [ buildOp (isQubit Lx Ly Lz)
      ((pyRange (2*Lx)).flatMap fun x => (pyRange (2*Ly)).map fun y => [x, y, 0]) Pauli.X ]

/-- `get_logicals_z`: the line of x edges `(2*Lx-1, 2*Ly-2, z)` (no `is_qubit` test) -/
def logZ (Lx Ly Lz : Nat) : List Op :=
  [ dictOf ((pyRange2 0 (2*Lz)).map fun z => [2*(Lx:Int)-1, 2*(Ly:Int)-2, z]) Pauli.Z ]

/-- `get_deformation(location, deformation_name, **kwargs)` -/
def getDeformation (name : String) (loc : Coord) : Option PauliMap := Rhombic.getDeformation name loc

/-! ### an explicit family of `n − k` independent generators

The family of the theorem `generators_independent` / `valid_code` (proved independent for every size
`Lx, Ly ≥ 2` in `Proofs/LatRhombicPlanarCodeRank*.lean`; also evaluated on the implementation's
parity-check matrix by the correspondence stream `rank-family`): all cubes; all triangles of axis 3
and 2; the axis-1 triangles of the row `y = 2Ly−2`; the axis-0 triangles of the column `x = 2Lx−2`
and, in the other columns, those with `(x+y+z) % 4 = 2`, `z ≥ 2`. -/

def selCubes (Lx Ly Lz : Nat) : List Coord :=
  grid3 (pyRange2 1 (2*Lx)) (rangeM1 (2*Ly)) (pyRange2 1 (2*Lz-1)) (fun x y z => (x + y + z) % 4 == 1)

/-- vertices of the selected triangles of axis 3, 2, 1 -/
def sel3 (Lx Ly Lz : Nat) : List Coord :=
  grid3 (pyRange2 2 (2*Lx)) (pyRange2 0 (2*Ly-2)) (pyRange2 0 (2*Lz)) allTrue
def sel2 (Lx Ly Lz : Nat) : List Coord :=
  grid3 (pyRange2 2 (2*Lx)) (pyRange2 2 (2*Ly)) (pyRange2 0 (2*Lz)) allTrue
def sel1 (Lx Ly Lz : Nat) : List Coord :=
  grid3 (pyRange2 2 (2*Lx)) (pyRange2 (2*Ly-2) (2*Ly)) (pyRange2 0 (2*Lz)) allTrue
/-- axis 0, last column -/
def sel0a (Lx Ly Lz : Nat) : List Coord :=
  grid3 (pyRange2 (2*Lx-2) (2*Lx)) (pyRange2 0 (2*Ly-2)) (pyRange2 0 (2*Lz)) allTrue
/-- axis 0, other columns: the upper of the two triangles pointing into the same uncoloured cube -/
def sel0b (Lx Ly Lz : Nat) : List Coord :=
  grid3 (pyRange2 2 (2*Lx-2)) (pyRange2 0 (2*Ly-2)) (pyRange2 2 (2*Lz)) (fun x y z => (x + y + z) % 4 == 2)

def selStabs (Lx Ly Lz : Nat) : List Coord :=
  selCubes Lx Ly Lz ++
    ((sel3 Lx Ly Lz).map (fun c => (3 : Int) :: c) ++
      ((sel2 Lx Ly Lz).map (fun c => (2 : Int) :: c) ++
        ((sel1 Lx Ly Lz).map (fun c => (1 : Int) :: c) ++
          (sel0a Lx Ly Lz ++ sel0b Lx Ly Lz).map (fun c => (0 : Int) :: c))))

def lattice (Lx Ly Lz : Nat) : Lattice :=
  { qubits := qubits Lx Ly Lz, stabs := stabs Lx Ly Lz, getStab := getStab Lx Ly Lz,
    logX := logX Lx Ly Lz, logZ := logZ Lx Ly Lz }

end Panqec.RhombicPlanarCode
