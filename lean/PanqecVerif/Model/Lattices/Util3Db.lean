/-
Small executable helpers shared by the hand-written lattice models `RotatedPlanar3DCode` and
`XCubeCode`: Python `range(a, b, 2)`, nested `for x: for y: for z: if p: append((x, y, z))`
loops, and the `operator = dict(); for ...: operator[key] = pauli` idiom.  No Mathlib.
-/
import PanqecVerif.Model.Lattices.Common

namespace Panqec.Lat3Db

/-- Python `range(a, b, 2)` (as integers) -/
def pyRange2 (a b : Nat) : List Int :=
  (List.range' a ((b + 1 - a) / 2) 2).map Int.ofNat

/-- `for x in xs: for y in ys: for z in zs: if p x y z: append((x, y, z))` -/
def grid3 (xs ys zs : List Int) (p : Int → Int → Int → Bool) : List Coord :=
  xs.flatMap fun x => ys.flatMap fun y => (zs.filter fun z => p x y z).map fun z => [x, y, z]

/-- `operator = dict(); for q in keys: operator[q] = p` -/
def dictOf (keys : List Coord) (p : Pauli) : Op :=
  keys.foldl (fun op q => op.insert q p) []

/-- `operator = dict(); for q in locs: if is_qubit(q): operator[q] = p` -/
def buildOp (isQ : Coord → Bool) (locs : List Coord) (p : Pauli) : Op :=
  locs.foldl (fun op q => if isQ q then op.insert q p else op) []

/-- `tuple(np.add(location, d))` -/
def addC (a d : Coord) : Coord := List.zipWith (· + ·) a d

/-- the dict `{'X': m.x, 'Y': m.y, 'Z': m.z}` a `get_deformation` returns, as three letters -/
def showPauliMap (m : PauliMap) : String :=
  String.ofList [m.x.toChar, m.y.toChar, m.z.toChar]

end Panqec.Lat3Db
