/-
Vocabulary shared by the hand-written models of the rhombic codes (`RhombicPlanarCode`,
`RhombicToricCode`; `panqec/codes/surface_3d/_rhombic_*_code.py`): the two classes have textually
identical `delta` tables in `get_stabilizer`, `stabilizer_type` (by the length of the location),
`qubit_axis` and `get_deformation` (`'Checkerboard XZZX'`).  No Mathlib.
-/
import PanqecVerif.Model.Lattices.Util3Db

namespace Panqec.Rhombic
open Panqec.Lat3Db

/-- Python `range(n)` (as integers) -/
def pyRange (n : Nat) : List Int := (List.range n).map Int.ofNat

/-- the `delta` list of a cube: the twelve edges of the cube -/
def cubeDelta : List Coord :=
  [[1, 1, 0], [-1, -1, 0], [1, -1, 0], [-1, 1, 0],
   [1, 0, 1], [-1, 0, -1], [1, 0, -1], [-1, 0, 1],
   [0, 1, 1], [0, -1, -1], [0, -1, 1], [0, 1, -1]]

/-- `delta_axis` for a vertex with `(x + y + z) % 4 == 0` -/
def triDelta0 : List (List Coord) :=
  [[[1, 0, 0], [0, 1, 0], [0, 0, 1]],
   [[-1, 0, 0], [0, -1, 0], [0, 0, 1]],
   [[1, 0, 0], [0, -1, 0], [0, 0, -1]],
   [[-1, 0, 0], [0, 1, 0], [0, 0, -1]]]

/-- `delta_axis` for the other vertices -/
def triDelta2 : List (List Coord) :=
  [[[1, 0, 0], [0, 1, 0], [0, 0, -1]],
   [[-1, 0, 0], [0, -1, 0], [0, 0, -1]],
   [[1, 0, 0], [0, -1, 0], [0, 0, 1]],
   [[-1, 0, 0], [0, 1, 0], [0, 0, 1]]]

/-- `delta = delta_axis[axis]` of a triangle `(axis, x, y, z)`; the axis of a stabilizer location
    is one of 0, 1, 2, 3 (anything else is unreachable after the `is_stabilizer` guard; the model
    returns no offsets there) -/
def triDelta (axis x y z : Int) : List Coord :=
  let table := if (x + y + z) % 4 == 0 then triDelta0 else triDelta2
  if 0 ≤ axis then table.getD axis.toNat [] else []

/-- the body of `stabilizer_type` after the `is_stabilizer` guard -/
def typeOf (loc : Coord) : String := if loc.length == 4 then "triangle" else "cube"

/-- `qubit_axis` (`none` = ValueError, also raised by the tuple unpacking of a location that does
    not have three entries); parity tests only, no membership test -/
def qubitAxis (loc : Coord) : Option String :=
  match loc with
  | [x, y, z] =>
    if z % 2 == 0 && x % 2 == 1 && y % 2 == 0 then some "x"
    else if z % 2 == 0 && x % 2 == 0 && y % 2 == 1 then some "y"
    else if z % 2 == 1 && x % 2 == 0 && y % 2 == 0 then some "z"
    else none
  | _ => none

/-- the checkerboard test of `get_deformation` on a location `(x, y, z)` -/
def checker (x y z : Int) : Bool :=
  (z % 4 == 3 && (x + y) % 4 == 2) || (z % 4 == 1 && (x + y) % 4 == 0)

/-- `get_deformation(location, deformation_name, **kwargs)` (`none` = ValueError): the name is
    checked first, then the location is unpacked, then `qubit_axis` is evaluated (it raises on a
    location that does not have the parities of a qubit); keyword arguments are ignored.  The
    deformed dict is `{'X': 'Z', 'Y': 'Y', 'Z': 'X'}`, on the z edges of the checkerboard. -/
def getDeformation (name : String) (loc : Coord) : Option PauliMap :=
  if name != "Checkerboard XZZX" then none
  else match loc with
    | [x, y, z] =>
      match qubitAxis loc with
      | none => none
      | some a => some (if a == "z" && checker x y z then PauliMap.swapXZ else PauliMap.id)
    | _ => none

end Panqec.Rhombic
